package main

import (
	"bytes"
	"context"
	"encoding/binary"
	"encoding/hex"
	"errors"
	"fmt"
	"io"
	"math/rand/v2"
	"net"
	"strings"

	"github.com/AdguardTeam/AdGuardDNS/internal/dnsserver/forward"
	"github.com/AdguardTeam/AdGuardDNS/verifh/hlib"
	"github.com/miekg/dns"
)

// ---------------------------------------------------------------------------
// Names as lists of labels.  The harness has its own reading of the wire format
// (RFC 1035 §4.1) and of the presentation format; nothing here calls the code
// under test or the model.

type labels [][]byte

// wire is the uncompressed wire form of the name.
func (ls labels) wire() (b []byte) {
	for _, l := range ls {
		b = append(b, byte(len(l)))
		b = append(b, l...)
	}

	return append(b, 0)
}

// pres is the presentation form: special characters escaped with a backslash,
// octets outside the printable ASCII range as \DDD, "." for the root.
func (ls labels) pres() string {
	if len(ls) == 0 {
		return "."
	}
	var sb strings.Builder
	for _, l := range ls {
		for _, c := range l {
			switch {
			case strings.IndexByte(". '@;()\"\\", c) >= 0:
				sb.WriteByte('\\')
				sb.WriteByte(c)
			case c < ' ' || c > '~':
				fmt.Fprintf(&sb, "\\%03d", c)
			default:
				sb.WriteByte(c)
			}
		}
		sb.WriteByte('.')
	}

	return sb.String()
}

// sameName: equal up to ASCII case, label by label (RFC 4343).
func sameName(a, b labels) bool {
	if len(a) != len(b) {
		return false
	}
	for i := range a {
		if asciiLower(string(a[i])) != asciiLower(string(b[i])) {
			return false
		}
	}

	return true
}

func rep(c byte, n int) []byte { return bytes.Repeat([]byte{c}, n) }

// namePool: the root, short names, mixed case, label and name length limits,
// octets that need escaping in presentation format, non-ASCII octets.
var namePool = []labels{
	{},
	{},
	{[]byte("a")},
	{[]byte("ab")},
	{[]byte("Ab")},
	{[]byte("abcdef"), []byte("example")},
	{[]byte("x"), []byte("y"), []byte("z"), []byte("example"), []byte("org")},
	{[]byte("WWW"), []byte("ExAmPlE"), []byte("COM")},
	{[]byte("com")},
	{rep('a', 63), []byte("x")},
	{rep('Q', 63), rep('r', 63), rep('s', 63), rep('T', 61)}, // 255 octets on the wire
	{rep('q', 63), rep('r', 63), rep('s', 63), rep('t', 60)},
	{[]byte("a\x80b")},
	{[]byte("\xc4")},
	{[]byte("a.b"), []byte("c")},
	{[]byte("a b")},
	{[]byte("\\")},
	{[]byte("\x00")},
	{[]byte("xn--4ca"), []byte("de")},
	{[]byte("_dmarc"), []byte("ab")},
	{[]byte("0")},
	{[]byte("a@b;c")},
	{[]byte("K")},
	{[]byte("\x7f~")},
	{[]byte("(x)"), []byte("\"y'")},
}

var typePool = []uint16{1, 1, 1, 28, 2, 16, 255, 65, 6, 12, 33, 256, 65535}

// ---------------------------------------------------------------------------
// Reply scripts

// rspec says what one transport of the scripted server does with a request.
type rspec struct {
	// Kind: msg (a message is sent), net (socket closed), eof (TCP: the
	// connection is closed after the request).
	Kind string `json:"kind"`
	// Rel: how the message relates to the request: ok, cs (name in another
	// case), id, idswap, nm, nmhi (a non-ASCII octet "case-flipped"), nmlab (a
	// label more), ty, tyswap, q2, q0.
	Rel   string `json:"rel,omitempty"`
	TC    bool   `json:"tc,omitempty"`
	Rcode int    `json:"rcode,omitempty"`
	// Ans: one A record for the question name follows the question.
	Ans bool `json:"ans,omitempty"`
	// Pad: "junk" (octets after the last section, counts untouched) or "rr"
	// (well-formed records of a private type) up to Size octets in total.
	Pad  string `json:"pad,omitempty"`
	Size int    `json:"size,omitempty"`
	// Cut >= 0: only the first Cut octets are sent (TCP: announced and sent).
	Cut int `json:"cut"`
	// Frag > 1 (TCP): the message is written in that many pieces.
	Frag int `json:"frag,omitempty"`
}

func (s rspec) String() string {
	if s.Kind != "msg" {
		return s.Kind
	}
	out := s.Rel
	if s.TC {
		out += "+tc"
	}
	if s.Rcode != 0 {
		out += fmt.Sprintf("+rc%d", s.Rcode)
	}
	if s.Ans {
		out += "+ans"
	}
	if s.Pad != "" {
		out += fmt.Sprintf("+%s%d", s.Pad, s.Size)
	}
	if s.Cut >= 0 {
		out += fmt.Sprintf("+cut%d", s.Cut)
	}
	if s.Frag > 1 {
		out += fmt.Sprintf("+frag%d", s.Frag)
	}

	return out
}

func flipCase(l []byte, rng func(int) int) []byte {
	out := append([]byte{}, l...)
	for i, c := range out {
		if (c|0x20) >= 'a' && (c|0x20) <= 'z' && rng(2) == 0 {
			out[i] = c ^ 0x20
		}
	}

	return out
}

// build returns the octets the server sends for the request (id, name, type)
// and the offset at which the (first) question ends.
func (s rspec) build(id uint16, name labels, qtype uint16, salt int) (b []byte, qend int) {
	det := func(n int) int { salt = salt*1103515245 + 12345; return (salt >> 8 & 0x7fffffff) % n }
	rname := make(labels, len(name))
	for i, l := range name {
		rname[i] = append([]byte{}, l...)
	}
	rid, rtype := id, qtype
	nq := 1
	switch s.Rel {
	case "cs":
		for i := range rname {
			rname[i] = flipCase(rname[i], det)
		}
	case "id":
		rid++
	case "idswap":
		rid = id<<8 | id>>8
		if rid == id {
			rid ^= 0x0100
		}
	case "nm":
		if len(rname) == 0 {
			rname = labels{[]byte("a")}
		} else {
			l := rname[len(rname)-1]
			l[len(l)-1] ^= 0x01
		}
	case "nmhi":
		// An octet above 127 with bit 5 flipped: a "case pair" in Latin-1, not in DNS.
		done := false
		for _, l := range rname {
			for i, c := range l {
				if c >= 0xc0 && !done {
					l[i] = c ^ 0x20
					done = true
				}
			}
		}
		if !done {
			rname = append(labels{[]byte("\xe4")}, rname...)
		}
	case "nmlab":
		rname = append(labels{[]byte("www")}, rname...)
	case "ty":
		rtype = qtype + 1
		if rtype == 0 {
			rtype = 1
		}
	case "tyswap":
		rtype = qtype<<8 | qtype>>8
		if rtype == qtype {
			rtype ^= 0x0100
		}
	case "q2":
		nq = 2
	case "q0":
		nq = 0
	}
	hdr := make([]byte, 12)
	binary.BigEndian.PutUint16(hdr, rid)
	hdr[2] = 0x81 // QR, RD
	if s.TC {
		hdr[2] |= 0x02
	}
	hdr[3] = 0x80 | byte(s.Rcode&0x0f)
	binary.BigEndian.PutUint16(hdr[4:], uint16(nq))
	b = hdr
	for i := 0; i < nq; i++ {
		b = append(b, rname.wire()...)
		b = binary.BigEndian.AppendUint16(b, rtype)
		b = binary.BigEndian.AppendUint16(b, 1)
		if i == 0 {
			qend = len(b)
		}
	}
	an := 0
	if s.Cut >= 0 {
		// a cut message is a question-only one
		s.Ans, s.Pad = false, ""
	}
	if s.Ans && nq > 0 {
		b = append(b, 0xc0, 12)
		b = append(b, 0, 1, 0, 1, 0, 0, 0, 10, 0, 4, 10, 1, 2, 3)
		an++
	}
	switch {
	case s.Pad == "junk" && s.Size > len(b):
		for len(b) < s.Size {
			b = append(b, byte(0x40+len(b)%50))
		}
	case s.Pad == "rr" && s.Size >= len(b)+11:
		// root owner, TYPE65280, class IN, ttl, rdlength, opaque rdata
		for rest := s.Size - len(b); rest > 0; rest = s.Size - len(b) {
			n := rest
			if n > 11+60000 {
				n = 11 + 60000
			}
			if rest-n > 0 && rest-n < 11 {
				n -= 11
			}
			b = append(b, 0, 0xff, 0, 0, 1, 0, 0, 0, 10)
			b = binary.BigEndian.AppendUint16(b, uint16(n-11))
			b = append(b, rep(0x55, n-11)...)
			an++
		}
	}
	binary.BigEndian.PutUint16(b[6:], uint16(an))
	if s.Cut >= 0 && s.Cut < len(b) {
		b = b[:s.Cut]
	}

	return b, qend
}

// matching: the message, if whole, is a reply to the request.
func (s rspec) matching() bool { return s.Kind == "msg" && (s.Rel == "ok" || s.Rel == "cs") }

// verdict is the oracle's demand on a client that receives this on the
// transport that decides: "accept", "reject" or "?".
func (s rspec) verdict(qend int) string {
	switch {
	case s.Kind != "msg":
		return "reject"
	case !s.matching():
		return "reject"
	case s.Cut < 0 || s.Cut >= qend:
		return "accept"
	case s.Cut < qend-2:
		// id, name and type have not all arrived
		return "reject"
	default:
		return "?"
	}
}

// ---------------------------------------------------------------------------
// rawCampaign: UpstreamPlain.Exchange from the octets up.  A scripted server
// answers with hand-assembled octets: minimal messages (17 octets: the root
// name, no records), messages at the sizes the client code has constants for
// (512, the UDP buffer of 4096, the TCP maximum of 65535), messages cut at
// every offset of header and question, TCP messages announced shorter than a
// header, names with escapes and non-ASCII octets, ids at the ends of the
// range.  Oracle: a whole matching reply must be accepted whatever its size, a
// reply is accepted only if it matches; correspondence: the model is given the
// buffer contents (reply octets, then what is left of the packed request).

type rawCase struct {
	Net   int    `json:"net"`
	ID    uint16 `json:"id"`
	Name  labels `json:"-"`
	Pres  string `json:"name"`
	Type  uint16 `json:"qtype"`
	Edns  bool   `json:"edns,omitempty"`
	U     rspec  `json:"udp"`
	T     rspec  `json:"tcp"`
	Salt  int    `json:"salt"`
	Canon string `json:"canon"`
}

var rawRels = []string{"ok", "ok", "ok", "ok", "ok", "ok", "cs", "cs", "id", "idswap", "nm", "nmhi", "nmlab", "ty", "tyswap", "q2", "q0"}

func genSpec(rng *rand.Rand, tcp bool, name labels) rspec {
	s := rspec{Kind: "msg", Cut: -1}
	switch x := rng.IntN(40); {
	case x == 0:
		s.Kind = "net"

		return s
	case x == 1 && tcp:
		s.Kind = "eof"

		return s
	}
	s.Rel = rawRels[rng.IntN(len(rawRels))]
	s.TC = rng.IntN(6) == 0
	s.Rcode = []int{0, 0, 0, 0, 2, 3, 5}[rng.IntN(7)]
	s.Ans = rng.IntN(2) == 0
	qend := 12 + len(name.wire()) + 4
	switch x := rng.IntN(10); {
	case x < 2:
		// cut somewhere in header or question, or right after it
		s.Cut = rng.IntN(qend + 2)
		if rng.IntN(3) == 0 {
			s.Cut = []int{0, 1, 11, 12, 13, 16, 17, 18, qend - 4, qend - 3, qend - 2, qend - 1, qend}[rng.IntN(13)]
		}
	case x < 6:
		// boundary sizes
		sizes := []int{17, 18, 19, 20, 24, 511, 512, 513, 1232, 1452, 4095, 4096}
		if tcp {
			sizes = append(sizes, 4097, 8192, 16383, 16384, 65534, 65535)
		}
		s.Size = sizes[rng.IntN(len(sizes))]
		if rng.IntN(3) == 0 {
			s.Size = 17 + rng.IntN(60)
		}
		s.Pad = []string{"junk", "rr"}[rng.IntN(2)]
	}
	if tcp && rng.IntN(6) == 0 {
		s.Frag = 2 + rng.IntN(3)
	}

	return s
}

func rawCampaign(o *hlib.Opts, r *hlib.Result, m *hlib.Model) {
	rng := o.Rand("raw")
	srv := newServer(rng)
	defer srv.close()
	nets := []forward.Network{forward.NetworkAny, forward.NetworkUDP, forward.NetworkTCP}
	netNames := []string{"any", "udp", "tcp"}
	ups := make([]*forward.UpstreamPlain, 3)
	for i, nw := range nets {
		ups[i] = forward.NewUpstreamPlain(&forward.UpstreamPlainConfig{Network: nw, Address: srv.addr(), Timeout: upsTimeout})
	}
	defer func() {
		for _, u := range ups {
			_ = u.Close()
		}
	}()
	// Sanity of the harness's own name codec against the library's packer.
	for _, nm := range namePool {
		q := &dns.Msg{}
		q.SetQuestion(nm.pres(), dns.TypeA)
		b, err := q.Pack()
		if err != nil || !bytes.Equal(b[12:len(b)-4], nm.wire()) {
			panic(fmt.Sprintf("c17: name codec: %q packs to %x (%v), want %x", nm.pres(), b, err, nm.wire()))
		}
	}

	n := 2500
	if o.Thorough() {
		n = 20000
	}
	var cases []rawCase
	add := func(c rawCase) {
		c.Pres = c.Name.pres()
		c.Canon = fmt.Sprintf("%s id=%d %s/%d edns=%v udp=%s tcp=%s", netNames[c.Net], c.ID, c.Pres, c.Type, c.Edns, c.U, c.T)
		cases = append(cases, c)
	}
	// Structured part: for every network mode and a few names, the minimal whole
	// reply (no records) and every size around it, on the transport that decides.
	for ni := range nets {
		for _, nm := range []labels{{}, {[]byte("a")}, {[]byte("ab")}, namePool[10]} {
			qend := 12 + len(nm.wire()) + 4
			for _, rel := range []string{"ok", "cs", "id", "ty"} {
				for _, size := range []int{0, qend + 1, qend + 11, 512, 4096} {
					sp := rspec{Kind: "msg", Rel: rel, Cut: -1}
					if size > 0 {
						sp.Size, sp.Pad = size, "junk"
					}
					other := rspec{Kind: "net", Cut: -1}
					add(rawCase{Net: ni, ID: uint16(len(cases)), Name: nm, Type: 1, U: sp, T: other})
					add(rawCase{Net: ni, ID: uint16(len(cases)), Name: nm, Type: 28, U: other, T: sp})
					if rel == "ok" && ni != 1 {
						sp.Frag = 2 + len(cases)%3
						add(rawCase{Net: ni, ID: uint16(len(cases)), Name: nm, Type: 28, U: other, T: sp})
					}
				}
			}
			for cut := 0; cut <= qend; cut++ {
				sp := rspec{Kind: "msg", Rel: "ok", Cut: cut}
				add(rawCase{Net: ni, ID: uint16(300 + cut), Name: nm, Type: 1, U: sp, T: sp})
				if len(nm) > 2 && cut > 20 && cut < qend-8 {
					cut += 16
				}
			}
		}
	}
	r.Count(fmt.Sprintf("raw.structured_cases=%d", len(cases)))
	ids := []uint16{0, 1, 255, 256, 65535, 0x0102}
	for len(cases) < n {
		nm := namePool[rng.IntN(len(namePool))]
		c := rawCase{Net: rng.IntN(3), ID: uint16(rng.IntN(65536)), Name: nm, Type: typePool[rng.IntN(len(typePool))],
			Edns: rng.IntN(4) == 0, Salt: rng.IntN(1 << 20)}
		if rng.IntN(4) == 0 {
			c.ID = ids[rng.IntN(len(ids))]
		}
		c.U, c.T = genSpec(rng, false, nm), genSpec(rng, true, nm)
		add(c)
	}

	type row struct {
		line, obs, sig, what string
	}
	hexPres := func(s string) string { return hex.EncodeToString([]byte(s)) }
	eval := func(c rawCase) row {
		req := &dns.Msg{}
		req.SetQuestion(c.Pres, c.Type)
		req.Id = c.ID
		if c.Edns {
			req.SetEdns0(1232, true)
		}
		reqU, err := req.Pack()
		hlib.Must(err)
		reqT := append(binary.BigEndian.AppendUint16(nil, uint16(len(reqU))), reqU...)
		bu, _ := c.U.build(c.ID, c.Name, c.Type, c.Salt)
		// where the question of a whole matching reply ends
		qend := 12 + len(c.Name.wire()) + 4
		bt, _ := c.T.build(c.ID, c.Name, c.Type, c.Salt+1)
		kind := func(s rspec) string {
			if s.Kind == "msg" {
				return "raw"
			}

			return s.Kind
		}
		srv.setRaw(kind(c.U), kind(c.T), bu, bt, c.T.Frag)
		var (
			resp     *dns.Msg
			nw       forward.Network
			xerr     error
			panicked any
		)
		func() {
			defer func() {
				if panicked = recover(); panicked != nil {
					xerr = fmt.Errorf("panic: %v", panicked)
				}
			}()
			resp, nw, xerr = ups[c.Net].Exchange(context.Background(), req)
		}()

		rawTok := func(s rspec, b, reqBuf []byte) string {
			if s.Kind != "msg" {
				return s.Kind
			}
			buf := append([]byte{}, b...)
			if len(reqBuf) > len(b) {
				buf = append(buf, reqBuf[len(b):]...)
			}

			return fmt.Sprintf("b%d:%s", len(b), hex.EncodeToString(buf))
		}
		rw := row{line: fmt.Sprintf("xb %s %d %s %d %s %s", netNames[c.Net], c.ID, hexPres(c.Pres), c.Type,
			rawTok(c.U, bu, reqU), rawTok(c.T, bt, reqT))}
		var ne net.Error
		switch {
		case xerr == nil && resp != nil:
			qs := make([]string, len(resp.Question))
			for i, q := range resp.Question {
				qs[i] = fmt.Sprintf("%s:%d", hexPres(q.Name), q.Qtype)
			}
			rw.obs = fmt.Sprintf("ok id=%d tc=%s rc=%d q=%s", resp.Id, b2s(resp.Truncated), resp.Rcode, strings.Join(qs, ","))
		case xerr == nil:
			rw.obs = "nil"
		case errors.As(xerr, &ne):
			rw.obs = "net"
		case errors.Is(xerr, io.EOF):
			rw.obs = "eof"
		default:
			rw.obs = "other"
		}
		rw.obs += " tcp=" + b2s(nw == forward.NetworkTCP)

		// --- property oracle (never looks at the model) ---
		used, usedB := c.U, bu
		if nw == forward.NetworkTCP {
			used, usedB = c.T, bt
		}
		if xerr == nil && resp != nil {
			fields := resp.Id == c.ID && len(resp.Question) == 1 && resp.Question[0].Qtype == c.Type &&
				asciiLower(resp.Question[0].Name) == asciiLower(c.Pres)
			if !fields || used.verdict(qend) == "reject" {
				rw.sig = "exchange-returned-mismatching-reply"
				rw.what = fmt.Sprintf("query %q type %d id %d to a %s upstream, server scripted udp=%s tcp=%s: Exchange returned (over %s, "+
					"%d octets received: %x) a reply that does not match the query: id %d, questions %v",
					c.Pres, c.Type, c.ID, netNames[c.Net], c.U, c.T, nw, len(usedB), usedB[:min(len(usedB), 80)], resp.Id, resp.Question)
			}
		}
		// The transport that decides, by the documented flow: TCP for a TCP-only
		// upstream; UDP otherwise, unless the UDP reply is a whole matching one with
		// the TC bit and the upstream may use TCP.
		decides, decB := c.U, bu
		via := "UDP"
		if c.Net == 2 || (c.Net == 0 && c.U.verdict(qend) == "accept" && c.U.TC) {
			decides, decB, via = c.T, bt, "TCP"
		}
		if xerr != nil && decides.verdict(qend) == "accept" {
			rw.sig = "matching-reply-rejected"
			rw.what = fmt.Sprintf("query %q type %d id %d to a %s upstream: the server sent over %s a whole reply of %d octets that matches the "+
				"query (script %s, octets %x...) but Exchange failed: %v", c.Pres, c.Type, c.ID, netNames[c.Net], via, len(decB), decides,
				decB[:min(len(decB), 60)], xerr)
		}
		if panicked != nil {
			rw.sig = "exchange-panicked"
			rw.what = fmt.Sprintf("query %q type %d id %d to a %s upstream, server scripted udp=%s (%d octets) tcp=%s (%d octets): Exchange panicked: %v",
				c.Pres, c.Type, c.ID, netNames[c.Net], c.U, len(bu), c.T, len(bt), panicked)
		}
		r.Count(fmt.Sprintf("raw.%s.%s", netNames[c.Net], strings.Fields(rw.obs)[0]))
		if decides.Kind == "msg" {
			switch l := len(decB); {
			case l < 12:
				r.Count("raw.decisive_reply_size=0-11")
			case l < 17:
				r.Count("raw.decisive_reply_size=12-16")
			case l == 17:
				r.Count("raw.decisive_reply_size=17")
			case l <= 24:
				r.Count("raw.decisive_reply_size=18-24")
			case l < 511:
				r.Count("raw.decisive_reply_size=25-510")
			case l <= 513:
				r.Count("raw.decisive_reply_size=511-513")
			case l < 4095:
				r.Count("raw.decisive_reply_size=514-4094")
			case l <= 4097:
				r.Count("raw.decisive_reply_size=4095-4097")
			case l < 65534:
				r.Count("raw.decisive_reply_size=4098-65533")
			default:
				r.Count("raw.decisive_reply_size=65534-65535")
			}
			r.Count("raw.decisive_verdict=" + decides.verdict(qend))
		}

		return rw
	}

	var lines, obs []string
	var kept []rawCase
	for _, c := range cases {
		rw := eval(c)
		if rw.sig != "" {
			// confirm (a busy machine can turn a live server into a timeout)
			if rw2 := eval(c); rw2.sig == "" {
				rw = rw2
				r.Count("raw.discarded_unreproducible")
			}
		}
		if rw.sig != "" {
			r.Violate(rw.sig, rw.what, map[string]any{"campaign": "raw", "case": c})
		}
		switch {
		case len(c.Name) == 0:
			r.Count("raw.name=root")
		case len(c.Name.wire()) >= 250:
			r.Count("raw.name=maximal")
		case c.Pres != asciiLower(c.Pres):
			r.Count("raw.name=mixed-case")
		case strings.Contains(c.Pres, "\\"):
			r.Count("raw.name=escaped")
		default:
			r.Count("raw.name=plain")
		}
		lines = append(lines, rw.line)
		obs = append(obs, rw.obs)
		kept = append(kept, c)
		r.Case("raw:"+c.Canon, !strings.HasPrefix(rw.obs, "ok"))
	}
	m.ResetLog()
	answers := m.Batch(lines)
	for i := range lines {
		if answers[i] != obs[i] {
			again := false
			for try := 0; try < 2 && !again; try++ {
				again = eval(kept[i]).obs == answers[i]
			}
			if again {
				r.Count("raw.discarded_unreproducible")

				continue
			}
			l := lines[i]
			if len(l) > 2000 {
				l = l[:2000] + "..."
			}
			r.Disagree("raw", fmt.Sprintf("%s: implementation %q, model %q", kept[i].Canon, obs[i], answers[i]),
				map[string]any{"campaign": "raw", "case": kept[i], "ops": []string{l}})

			break
		}
	}
	m.ResetLog()
	r.Traces++
}
