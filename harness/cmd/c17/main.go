// Command c17 is the correspondence harness and property oracle for C17
// (fail-over to fallback upstreams and return to the main ones).
package main

import (
	"context"
	"errors"
	"fmt"
	"io"
	"log/slog"
	"math/rand/v2"
	"net"
	"net/netip"
	"os"
	"strings"
	"time"

	"github.com/AdguardTeam/AdGuardDNS/internal/dnsserver"
	"github.com/AdguardTeam/AdGuardDNS/internal/dnsserver/forward"
	"github.com/AdguardTeam/AdGuardDNS/verifh/hlib"
	"github.com/miekg/dns"
)

// tick is the unit of virtual time.  The handler reads the wall clock itself;
// the harness moves the recorded failure times back by whole ticks instead
// (hook VerifC17AdvanceClock), so verdicts only depend on scheduling jitter if
// a case takes longer than a tick.
const tick = time.Hour

const (
	probeDomain = "probe.c17.example"
	probeName   = probeDomain + "."
	queryName   = "ab."
)

var discard = slog.New(slog.NewTextHandler(io.Discard, nil))

func main() {
	o := hlib.ParseFlags()
	r := hlib.NewResult("C17", o)
	r.Rule = "handler: random and exhaustive schedules of queries, Refresh calls (also with queries issued from inside the probes, " +
		"with cancelled or expired contexts, after NewHandler's initial health check) and clock advances against the real " +
		"forward.Handler with scripted in-memory upstreams (reply / net.Error / other error / nil) and against the real " +
		"handler with real UpstreamPlain clients talking to scripted loopback UDP+TCP servers; every op is sent to the " +
		"Lean model and checked by an independent reference monitor; plain: UpstreamPlain.Exchange and " +
		"validatePlainResponse against the model on scripted wire behaviours; a case is non-trivial when a fallback " +
		"was used or an upstream was taken out of rotation or a reply was rejected; distinct = distinct op logs"
	m := hlib.StartModel(o.Model, "C17")
	defer m.Close()

	// C17_ONLY=<campaign,...> restricts a manual run to some campaigns (debugging aid; ./check never sets it).
	only := os.Getenv("C17_ONLY")
	want := func(name string) bool { return only == "" || strings.Contains(","+only+",", ","+name+",") }
	if want("fake") {
		fakeCampaign(o, r, m)
	}
	if want("spread") {
		spreadCampaign(o, r)
	}
	if want("saturation") {
		saturationCampaign(r)
	}
	if want("validate") {
		validateCampaign(o, r, m)
	}
	if want("readmsg") {
		readMsgCampaign(o, r, m)
	}
	if want("plain") {
		plainCampaign(o, r, m)
	}
	if want("raw") {
		rawCampaign(o, r, m)
	}
	if want("pool") {
		poolCampaign(o, r, m)
	}
	if want("socket") {
		socketCampaign(o, r, m)
	}
	if want("wiring") {
		wiringCampaign(o, r, m)
	}

	r.ModelOps = r.Evaluations
	r.Finish()
}

// ---------------------------------------------------------------------------
// Schedules

type op struct {
	Kind string   `json:"kind"` // q | rf | adv
	Main []string `json:"main,omitempty"`
	Fb   []string `json:"fb,omitempty"`
	K    int      `json:"k,omitempty"`
	// Ctx is the state of the context handed to ServeDNS / Refresh: "" (live),
	// "cancel" (already cancelled) or "expired" (deadline in the past).
	Ctx string `json:"ctx,omitempty"`
	// In (rf only, in-memory world): In[u] are the queries that arrive while
	// the health-check loop is probing main upstream u.
	In [][]op `json:"in,omitempty"`
}

func (p op) String() string {
	switch p.Kind {
	case "adv":
		return fmt.Sprintf("adv%d", p.K)
	default:
		out := p.Kind + "[" + strings.Join(p.Main, ",") + "|" + strings.Join(p.Fb, ",") + "]"
		if p.Ctx != "" {
			out += "@" + p.Ctx
		}
		for u, qs := range p.In {
			for _, q := range qs {
				out += fmt.Sprintf("{%d:%s}", u, q.String())
			}
		}

		return out
	}
}

type sched struct {
	NMain   int `json:"n_main"`
	NFb     int `json:"n_fb"`
	Backoff int `json:"backoff_ticks"`
	// MainNet and FbNet are the configured networks (any | udp | tcp) of the
	// plain upstreams of the socket world; empty means all "any".
	MainNet []string `json:"main_net,omitempty"`
	FbNet   []string `json:"fb_net,omitempty"`
	// Init, when not nil, makes NewHandler run its initial health check
	// (HealthcheckInitDuration > 0) against main upstreams behaving like this.
	Init []string `json:"init,omitempty"`
	// RandTmpl: the health-check domain template contains ${RANDOM}.
	RandTmpl bool `json:"rand_tmpl,omitempty"`
	// Tmpl names another health-check domain template (see tmpls); QName and
	// QType are the question of the schedule's queries ("" / 0: ab. A).
	Tmpl  string `json:"tmpl,omitempty"`
	QName string `json:"qname,omitempty"`
	QType uint16 `json:"qtype,omitempty"`
	Ops      []op `json:"ops"`
}

// with returns a copy of the schedule's configuration with other ops.
func (s *sched) with(ops []op) *sched {
	c := *s
	c.Ops = ops

	return &c
}

// tmpls are the health-check domain templates besides the two classic ones:
// the optional field left empty (the probe asks for the root), the placeholder
// alone, twice, upper case, and a template that is already fully qualified.
var tmpls = map[string]string{
	"root":    "",
	"rndonly": "${RANDOM}",
	"rnd2":    "${RANDOM}.x-${RANDOM}." + probeDomain,
	"rndmid":  "x-${RANDOM}." + probeDomain,
	"upper":   "PROBE.C17.Example",
	"fqdn":    probeDomain + ".",
}

func (s *sched) tmpl() string {
	if t, ok := tmpls[s.Tmpl]; ok {
		return t
	}
	if s.RandTmpl {
		return "${RANDOM}." + probeDomain
	}

	return probeDomain
}

func (s *sched) qname() string {
	if s.QName != "" {
		return s.QName
	}

	return queryName
}

func (s *sched) qtype() uint16 {
	if s.QType != 0 {
		return s.QType
	}

	return dns.TypeA
}

func isProbeName(name string) bool { return strings.HasSuffix(asciiLower(name), probeName) }

func isHex(s string) bool {
	for _, c := range s {
		if !(c >= '0' && c <= '9' || c >= 'a' && c <= 'f') {
			return false
		}
	}

	return s != ""
}

// isProbeQ tells the schedule's health probes from its queries (the generator
// keeps the query name out of the probe names' way).
func (s *sched) isProbeQ(q dns.Question) bool {
	switch s.Tmpl {
	case "root":
		return q.Name == "."
	case "rndonly":
		return strings.Count(q.Name, ".") == 1 && isHex(strings.TrimSuffix(q.Name, "."))
	}

	return isProbeName(q.Name)
}

// probeNameOK is the oracle's reading of HandlerConfig.HealthcheckDomainTmpl:
// the fully qualified template with every ${RANDOM} replaced by one random
// string (hexadecimal, as the code documents "a random string").  It returns
// the random string.
func (s *sched) probeNameOK(name string) (rnd string, ok bool) {
	t := s.tmpl()
	if !strings.HasSuffix(t, ".") {
		t += "."
	}
	parts := strings.Split(t, "${RANDOM}")
	if len(parts) == 1 {
		return "", name == t
	}
	if !strings.HasPrefix(name, parts[0]) || len(name) < len(t)-len("${RANDOM}")*(len(parts)-1) {
		return "", false
	}
	rest := name[len(parts[0]):]
	i := strings.Index(rest, parts[1])
	if parts[1] == "" {
		i = len(rest)
	}
	if i <= 0 {
		return "", false
	}
	rnd = rest[:i]

	return rnd, isHex(rnd) && len(rnd) <= 16 && name == strings.ReplaceAll(t, "${RANDOM}", rnd)
}

// netOf returns the configured network of an upstream of the schedule.
func (s *sched) netOf(fb bool, idx int) string {
	l := s.MainNet
	if fb {
		l = s.FbNet
	}
	if idx < len(l) {
		return l[idx]
	}

	return "any"
}

func (s *sched) canon() string {
	parts := []string{fmt.Sprintf("%d/%d/%d", s.NMain, s.NFb, s.Backoff)}
	if len(s.MainNet)+len(s.FbNet) > 0 {
		parts[0] += "/" + strings.Join(s.MainNet, ",") + "|" + strings.Join(s.FbNet, ",")
	}
	if s.Init != nil {
		parts[0] += "/init=" + strings.Join(s.Init, ",")
	}
	if s.RandTmpl {
		parts[0] += "/rnd"
	}
	if s.Tmpl != "" {
		parts[0] += "/tmpl=" + s.Tmpl
	}
	if s.QName != "" || s.QType != 0 {
		parts[0] += fmt.Sprintf("/q=%s:%d", s.qname(), s.qtype())
	}
	for _, p := range s.Ops {
		parts = append(parts, p.String())
	}

	return strings.Join(parts, ";")
}

type call struct {
	fb    bool
	idx   int
	probe bool
	// dead: the context was already done when the upstream was called (only the
	// in-memory world can tell): nothing would have been sent.
	dead bool
}

// burnCtx is a context whose time the upstreams of the in-memory world can use
// up without waiting: an upstream that never answers ("bh") holds its request
// until the deadline of the context, which is then done for everything after
// it.  It reports context.DeadlineExceeded like a real expired deadline.
type burnCtx struct {
	context.Context
	done  chan struct{}
	burnt bool
}

type burnKey struct{}

func newBurnCtx() *burnCtx { return &burnCtx{Context: context.Background(), done: make(chan struct{})} }

func (c *burnCtx) Done() <-chan struct{} { return c.done }

func (c *burnCtx) Err() error {
	if c.burnt {
		return context.DeadlineExceeded
	}

	return nil
}

func (c *burnCtx) Value(key any) any {
	if _, ok := key.(burnKey); ok {
		return c
	}

	return c.Context.Value(key)
}

func (c *burnCtx) burn() {
	if !c.burnt {
		c.burnt = true
		close(c.done)
	}
}

// world is a handler together with the scripted upstreams behind it.
type world interface {
	handler() *forward.Handler
	// arm sets what every upstream does with the requests of the next op.
	arm(mains, fbs []string, step int)
	// takeLog returns the upstreams contacted since the last call, one entry
	// per upstream and kind of request, in order of first contact.
	takeLog() []call
	// modelTok is the model's outcome token of a behaviour of an upstream.
	modelTok(fb bool, idx int, beh string, tok int) string
	// classify is the oracle's own reading of a query behaviour of an upstream:
	// reply, net, other, nil or "?" (composite: not judged by clauses a and b).
	classify(fb bool, idx int, beh string) string
	// wantTok is the token the client sees when the reply of this upstream
	// (behaving like beh, a reply) is delivered: tok, or 0 for a reply without
	// answer records.
	wantTok(fb bool, idx int, beh string, tok int) int
	// probeOK: a health probe of main upstream idx behaving like beh succeeds.
	probeOK(idx int, beh string) bool
	// probeTok is the model's token for a probe of main upstream idx behaving like beh.
	probeTok(idx int, beh string) string
	// takeProbes returns the health-probe requests the main upstreams received
	// since the last call.
	takeProbes() []*dns.Msg
	// initLog returns the upstreams contacted during NewHandler; ok is false
	// when the world cannot tell.
	initLog() (l []call, ok bool)
	close()
}

// effBeh resolves the context-dependent behaviour "cx" (an upstream that is
// fine but honours the caller's context): with a live context it answers, with
// a cancelled one it fails with context.Canceled (not a network error), with
// an expired one with context.DeadlineExceeded (a net.Error: Timeout() is true).
func effBeh(beh, ctx string, probe bool) string {
	if beh == "bh" {
		// An upstream that never answers: the request ends with the context, by
		// its deadline (a net.Error) or by its cancellation (not one).
		if ctx == "cancel" {
			return "o4"
		}

		return "n3"
	}
	if beh != "cx" {
		return beh
	}
	switch ctx {
	case "cancel":
		return "o4"
	case "expired":
		return "n3"
	}
	if probe {
		return "ok"
	}

	return "r"
}

func effBehs(behs []string, ctx string, probe bool) []string {
	out := make([]string, len(behs))
	for i, b := range behs {
		out[i] = effBeh(b, ctx, probe)
	}

	return out
}

func ctxOf(kind string, burnable bool) (ctx context.Context, cancel func()) {
	switch kind {
	case "cancel":
		ctx, cancel = context.WithCancel(context.Background())
		cancel()

		return ctx, func() {}
	case "expired":
		return context.WithDeadline(context.Background(), time.Now().Add(-time.Second))
	}

	if burnable {
		return newBurnCtx(), func() {}
	}

	return context.Background(), func() {}
}

func tokOf(fb bool, idx, step int) int {
	t := idx + 1
	if fb {
		t += 100
	}

	return t + 1000*(step%60)
}

type finding struct {
	sig, what string
}

// reported holds the signatures already handed to the result (which keeps one
// finding per signature): later occurrences are not shrunk again.
var reported = map[string]bool{}

// interleaveOff is set once a query inside a round has been seen to block: every
// further attempt would cost its timeout.
var interleaveOff bool

// runSchedule drives the real handler of w through s.  It returns the model
// lines, the implementation's canonical answers to them and the verdicts of
// the reference monitor (the property oracle, which never looks at the model).
func runSchedule(w world, s *sched) (lines, obs []string, viols []finding, nontrivial bool) {
	h := w.handler()

	violate := func(sig, format string, args ...any) {
		viols = append(viols, finding{sig: sig, what: fmt.Sprintf(format, args...)})
	}

	// Reference monitor state: per main upstream the result of its last probe.
	const (
		never = iota
		probedOK
		probedFailed
	)
	last := make([]int, s.NMain)
	failedAt := make([]int, s.NMain)
	early := make([]bool, s.NMain)
	now := 0

	if s.Init == nil {
		lines = append(lines, fmt.Sprintf("cfg %d %d %d", s.NMain, s.NFb, s.Backoff))
		obs = append(obs, "ok")
	} else {
		// NewHandler ran the initial health check at t=0.
		toks := make([]string, s.NMain)
		for u := range toks {
			toks[u] = w.probeTok(u, s.Init[u])
		}
		act, ago, _ := forward.VerifC17State(h)
		lf := make([]string, len(ago))
		for i, a := range ago {
			lf[i] = "-"
			if a >= 0 {
				lf[i] = fmt.Sprint(-int(a / tick))
			}
		}
		probedS := "?"
		il, seen := w.initLog()
		var probed []int
		for _, c := range il {
			if !c.fb && c.probe {
				probed = append(probed, c.idx)
			}
		}
		if seen {
			probedS = intList(probed)
		}
		lines = append(lines, fmt.Sprintf("cfg %d %d %d %s", s.NMain, s.NFb, s.Backoff, strList(toks)))
		obs = append(obs, fmt.Sprintf("act=%s lf=%s probed=%s err=%s", intList(act), strList(lf), probedS, b2s(s.NFb > 0 && len(act) == 0)))
		// Oracle: with fallbacks the initial check is a health-check round like
		// any other; without them nothing may be taken out of rotation.
		if s.NFb > 0 {
			for u := 0; u < s.NMain; u++ {
				if seen && !containsInt(probed, u) {
					violate("no-probe-in-initial-check", "NewHandler with an initial health check did not probe main upstream %d", u)
				}
				if w.probeOK(u, s.Init[u]) {
					last[u] = probedOK
				} else {
					last[u] = probedFailed
					nontrivial = true
				}
			}
		}
	}

	// Oracle on the probes themselves (HandlerConfig.HealthcheckDomainTmpl): one
	// A/IN question for the fully qualified template, every ${RANDOM} replaced by
	// the same random string, the same for all upstreams of a round and a new
	// one in every round.
	lastRnd := ""
	checkProbes := func(when string) {
		var first *dns.Msg
		rnd := ""
		for _, q := range w.takeProbes() {
			if len(q.Question) != 1 || q.Question[0].Qtype != dns.TypeA || q.Question[0].Qclass != dns.ClassINET ||
				q.Response || q.Opcode != dns.OpcodeQuery || !q.RecursionDesired {
				violate("probe-request-malformed", "%s: health probe is not a recursive A/IN query with one question: %v", when, q)

				continue
			}
			r, ok := s.probeNameOK(q.Question[0].Name)
			if !ok {
				violate("probe-name-not-from-template", "%s: health probe asks for %q, template %q", when, q.Question[0].Name, s.tmpl())
			}
			if first != nil && first.Question[0].Name != q.Question[0].Name {
				violate("probe-name-varies-within-round", "%s: probes of one round ask for %q and %q", when, first.Question[0].Name, q.Question[0].Name)
			}
			first, rnd = q, r
		}
		if rnd != "" && rnd == lastRnd {
			violate("probe-random-label-repeated", "%s: the random part %q of the probe name is the one of the previous round", when, rnd)
		}
		if rnd != "" {
			lastRnd = rnd
		}
	}
	checkProbes("NewHandler")

	healthy := func(u int) bool { return last[u] != probedFailed }
	checkRotation := func(when string) {
		act, _, _ := forward.VerifC17State(h)
		in := map[int]bool{}
		for _, a := range act {
			in[a] = true
		}
		for u := 0; u < s.NMain; u++ {
			switch {
			case s.NFb == 0 && !in[u]:
				violate("main-out-of-rotation-without-fallbacks",
					"%s: no fallbacks configured but main upstream %d is not in the active list %v", when, u, act)
			case s.NFb > 0 && healthy(u) && !in[u]:
				violate("healthy-main-not-in-rotation",
					"%s: main upstream %d (last probe did not fail) is missing from the active list %v", when, u, act)
			case s.NFb > 0 && !healthy(u) && in[u]:
				violate("failed-main-in-rotation",
					"%s: main upstream %d failed its last probe but is in the active list %v", when, u, act)
			}
		}
	}
	checkRotation("after NewHandler")

	// stuck collects queries that did not return (see doQuery); seq is the order
	// of events of the health-check round in progress.
	var stuck []chan error
	var seq []string
	// doQuery serves one query and judges it.  slot < 0: an ordinary query;
	// otherwise it arrives while main upstream slot is being probed.  The oracle's
	// view of the upstreams' health is that of the last completed round in both
	// cases (last is brought up to date after Refresh has returned).
	var doQuery func(p op, step, slot int)
	doQuery = func(p op, step, slot int) {
		w.arm(p.Main, p.Fb, step)
		emain, efb := effBehs(p.Main, p.Ctx, false), effBehs(p.Fb, p.Ctx, false)
		req := &dns.Msg{}
		req.SetQuestion(s.qname(), s.qtype())
		req.Id = uint16(4000 + step)
		rw := dnsserver.NewNonWriterResponseWriter(&net.UDPAddr{IP: net.IPv4(127, 0, 0, 1), Port: 1},
			&net.UDPAddr{IP: net.IPv4(127, 0, 0, 1), Port: 2})
		_, isFake := w.(*fakeWorld)
		ctx, cancel := ctxOf(p.Ctx, isFake)
		var err error
		if slot < 0 {
			err = h.ServeDNS(ctx, rw, req)
		} else {
			// Inside a health-check round: the query must not have to wait for
			// the round to end.
			done := make(chan error, 1)
			go func() { done <- h.ServeDNS(ctx, rw, req) }()
			select {
			case err = <-done:
			case <-time.After(2 * time.Second):
				violate("query-blocked-by-running-healthcheck",
					"step %d: a query that arrived while main upstream %d was being probed got no answer within 2 s", step, slot)
				stuck = append(stuck, done)
				interleaveOff = true
				cancel()

				return
			}
		}
		cancel()
		log := w.takeLog()
		got := -1 // token delivered to the client, -1 = error (SERVFAIL)
		if resp := rw.Msg(); err == nil && resp != nil {
			got = respTok(resp)
			if resp.Id != req.Id || len(resp.Question) != 1 || resp.Question[0].Qtype != s.qtype() ||
				asciiLower(resp.Question[0].Name) != asciiLower(s.qname()) {
				violate("mismatched-reply-delivered", "step %d: the client got a response that does not match its query: id %d (query %d), questions %v", step, resp.Id, req.Id, resp.Question)
			}
		} else if err == nil {
			violate("no-error-no-response", "step %d: ServeDNS returned nil without writing a response", step)
		}

		var mainCalls, fbCalls []int
		for _, c := range log {
			if c.fb {
				fbCalls = append(fbCalls, c.idx)
			} else {
				mainCalls = append(mainCalls, c.idx)
			}
		}
		if len(mainCalls) > 0 && mainCalls[0] < len(p.Main) && p.Main[mainCalls[0]] == "bh" && p.Ctx == "" {
			// The main upstream never answered: the time of the query is used up
			// when the fallback gets its turn.
			efb = effBehs(p.Fb, "expired", false)
		}
		o := "sf"
		if got >= 0 {
			o = fmt.Sprintf("a%d", got)
		}
		for _, c := range log {
			if c.fb {
				o += fmt.Sprintf(" f%d", c.idx)
			} else {
				o += fmt.Sprintf(" m%d", c.idx)
			}
		}
		pm, pf := "-", "-"
		if len(mainCalls) > 0 {
			pm = fmt.Sprint(mainCalls[0])
		}
		if len(fbCalls) > 0 {
			pf = fmt.Sprint(fbCalls[0])
		}
		if slot < 0 {
			lines = append(lines, fmt.Sprintf("q %s %s %s %s", pm, pf, tokList(w, emain, false, step), tokList(w, efb, true, step)))
		} else {
			lines = append(lines, fmt.Sprintf("qi %d %s %s %s %s", slot, pm, pf, tokList(w, emain, false, step), tokList(w, efb, true, step)))
			seq = append(seq, "q")
		}
		obs = append(obs, o)
		if len(fbCalls) > 0 {
			nontrivial = true
		}

		// --- property oracle ---
		if len(mainCalls) > 1 || len(fbCalls) > 1 {
			violate("query-tried-more-than-once", "step %d: mains %v and fallbacks %v were tried for one query", step, mainCalls, fbCalls)
		}
		anyHealthy := false
		for u := 0; u < s.NMain; u++ {
			anyHealthy = anyHealthy || healthy(u)
		}
		if len(mainCalls) == 0 && s.NMain > 0 {
			if s.NFb == 0 {
				violate("main-out-of-rotation-without-fallbacks", "step %d: no fallbacks configured but no main upstream was asked", step)
			} else if anyHealthy {
				violate("fallback-while-main-healthy", "step %d (t=%d): no main upstream asked although one is healthy (last probes %v)", step, now, last)
			}
		}
		mainKind := "none"
		if len(mainCalls) > 0 {
			u := mainCalls[0]
			mainKind = w.classify(false, u, emain[u])
			if s.NFb > 0 && last[u] == probedFailed {
				violate("main-used-after-failed-probe",
					"step %d (t=%d): query sent to main upstream %d whose last probe failed at t=%d", step, now, u, failedAt[u])
			}
			if s.NFb > 0 && early[u] {
				violate("main-used-before-backoff-elapsed",
					"step %d (t=%d): query sent to main upstream %d which was re-probed %d ticks after its failed probe, backoff %d",
					step, now, u, now-failedAt[u], s.Backoff)
			}
		}
		fbKind := "none"
		if len(fbCalls) > 0 {
			fbKind = w.classify(true, fbCalls[0], efb[fbCalls[0]])
		}
		switch mainKind {
		case "reply":
			u := mainCalls[0]
			if got != w.wantTok(false, u, emain[u], tokOf(false, u, step)) || len(fbCalls) > 0 {
				violate("main-reply-not-used", "step %d: main upstream %d replied but the client got %s (fallbacks asked: %v)", step, u, o, fbCalls)
			}
		case "net", "none":
			if mainKind == "none" && s.NMain > 0 && (s.NFb == 0 || anyHealthy) {
				break // already reported above
			}
			if s.NFb > 0 && len(fbCalls) == 0 {
				violate("no-fallback-on-network-error", "step %d: main result %q, fallbacks configured, but none was tried; client got %s", step, mainKind, o)
			}
			if len(fbCalls) == 1 {
				f := fbCalls[0]
				switch fbKind {
				case "reply":
					if got != w.wantTok(true, f, efb[f], tokOf(true, f, step)) {
						violate("fallback-reply-not-used", "step %d: fallback %d replied but the client got %s", step, f, o)
					}
				case "net", "other", "nil":
					if got >= 0 {
						violate("answer-from-nowhere", "step %d: main %q and fallback %q but the client got %s", step, mainKind, fbKind, o)
					}
				}
			}
			if s.NFb == 0 && got >= 0 {
				violate("answer-from-nowhere", "step %d: main %q, no fallbacks, but the client got %s", step, mainKind, o)
			}
		case "other", "nil":
			if got >= 0 && len(fbCalls) == 0 {
				violate("answer-from-nowhere", "step %d: main failed (%s), no fallback asked, but the client got %s", step, mainKind, o)
			}
		}
		// Whatever happened, a delivered token must come from an upstream that was asked.
		if got >= 0 {
			okTok := false
			for _, c := range log {
				behs := emain
				if c.fb {
					behs = efb
				}
				okTok = okTok || got == tokOf(c.fb, c.idx, step) || (c.idx < len(behs) && got == w.wantTok(c.fb, c.idx, behs[c.idx], tokOf(c.fb, c.idx, step)))
			}
			if !okTok {
				violate("answer-from-nowhere", "step %d: the client got token %d which no asked upstream sent (%s)", step, got, o)
			}
		}
	}

	for step, p := range s.Ops {
		switch p.Kind {
		case "adv":
			forward.VerifC17AdvanceClock(h, time.Duration(p.K)*tick)
			now += p.K
		case "q":
			doQuery(p, step, -1)
		case "rf":
			w.arm(p.Main, nil, step)
			eff := effBehs(p.Main, p.Ctx, true)
			toks := make([]string, len(eff))
			for u, b := range eff {
				toks[u] = w.probeTok(u, b)
				if p.Main[u] == "bh" {
					toks[u] = "h"
				}
			}
			deadArg := ""
			if p.Ctx != "" {
				deadArg = " dead"
			}
			fw, _ := w.(*fakeWorld)
			inter := fw != nil && p.In != nil && !interleaveOff
			if inter {
				lines = append(lines, fmt.Sprintf("rb %d %s%s", now, strList(toks), deadArg))
				obs = append(obs, "ok")
				seq = nil
				fw.during = func(u int) {
					if len(stuck) == 0 && u < len(p.In) && len(p.In[u]) > 0 {
						saved := fw.takeLog()
						sm, sf, sst := fw.main, fw.fb, fw.step
						for _, q := range p.In[u] {
							if len(stuck) == 0 {
								doQuery(q, step, u)
							}
						}
						fw.main, fw.fb, fw.step = sm, sf, sst
						fw.log = append(saved, fw.log...)
					}
					seq = append(seq, fmt.Sprintf("p%d", u))
				}
			}
			ctx, cancel := ctxOf(p.Ctx, fw != nil)
			err := h.Refresh(ctx)
			cancel()
			if inter {
				fw.during = nil
			}
			if len(stuck) > 0 {
				// Let the blocked queries finish now that the round is over, then give up
				// on this schedule: the finding has been recorded.
				for _, d := range stuck {
					select {
					case <-d:
					case <-time.After(5 * time.Second):
					}
				}

				return lines, obs, viols, true
			}
			log := w.takeLog()
			checkProbes(fmt.Sprintf("refresh at step %d", step))
			// probed: the upstreams whose Exchange was called with a probe; sent:
			// those for which the context of the round was still live at that
			// moment, i.e. a probe really went out.
			var probed, sent []int
			for _, c := range log {
				if !c.fb && c.probe {
					probed = append(probed, c.idx)
					if !c.dead {
						sent = append(sent, c.idx)
					}
				}
			}
			act, ago, _ := forward.VerifC17State(h)
			lf := make([]string, len(ago))
			for i, a := range ago {
				if a < 0 {
					lf[i] = "-"
				} else {
					lf[i] = fmt.Sprint(now - int(a/tick))
				}
			}
			state := fmt.Sprintf("act=%s lf=%s probed=%s err=%s", intList(act), strList(lf), intList(probed), b2s(err != nil))
			if inter {
				if s.NFb > 0 {
					seq = append(seq, "end")
				}
				lines = append(lines, "re")
				obs = append(obs, state+" seq="+strList(seq))
				nontrivial = true
			} else {
				lines = append(lines, fmt.Sprintf("rf %d %s%s", now, strList(toks), deadArg))
				obs = append(obs, state)
			}

			// --- property oracle ---
			// An upstream leaves the rotation because its own probe failed, not
			// because the round ran out of time before its turn came (the probes
			// share the context of the round) or was cancelled.
			if s.NFb > 0 {
				in := map[int]bool{}
				for _, a := range act {
					in[a] = true
				}
				for u := 0; u < s.NMain; u++ {
					if healthy(u) && !containsInt(sent, u) && !in[u] {
						violate("main-dropped-without-probe",
							"refresh at t=%d (step %d): main upstream %d was in rotation, no probe was sent to it in this round "+
								"(its Exchange was called with an already dead context: %v), yet it is out of the active list %v",
							now, step, u, containsInt(probed, u), act)
					}
				}
			}
			// ctxDead[u]: by the oracle's own account the context was done when the
			// loop reached u (done from the start, or an earlier upstream that was
			// really probed never answered).
			ctxDead := make([]bool, s.NMain)
			deadNow := p.Ctx != ""
			for u := 0; u < s.NMain; u++ {
				ctxDead[u] = deadNow
				if containsInt(sent, u) && u < len(p.Main) && p.Main[u] == "bh" {
					deadNow = true
				}
			}
			for _, u := range sent {
				if last[u] == probedFailed && now-failedAt[u] < s.Backoff {
					if w.probeOK(u, eff[u]) {
						early[u] = true
					}
				} else {
					early[u] = false
				}
				if w.probeOK(u, eff[u]) {
					last[u] = probedOK
				} else {
					last[u] = probedFailed
					failedAt[u] = now
					early[u] = false
					nontrivial = true
				}
			}
			if s.NFb > 0 {
				// Recovery: an upstream whose backoff has elapsed must get its
				// chance in this round.
				for u := 0; u < s.NMain; u++ {
					if last[u] == probedFailed && now-failedAt[u] >= s.Backoff && !containsInt(probed, u) && !ctxDead[u] {
						violate("no-probe-after-backoff", "refresh at t=%d: main upstream %d failed at t=%d, backoff %d, but was not probed",
							now, u, failedAt[u], s.Backoff)
					}
				}
			}
			checkRotation(fmt.Sprintf("after refresh at t=%d (step %d)", now, step))
		}
	}

	return lines, obs, viols, nontrivial
}

func tokList(w world, behs []string, fb bool, step int) string {
	if len(behs) == 0 {
		return "-"
	}
	toks := make([]string, len(behs))
	for i, b := range behs {
		toks[i] = w.modelTok(fb, i, b, tokOf(fb, i, step))
	}

	return strings.Join(toks, ",")
}

func respTok(resp *dns.Msg) int {
	for _, rr := range resp.Answer {
		if a, ok := rr.(*dns.A); ok {
			ip := a.A.To4()

			return int(ip[1])<<16 | int(ip[2])<<8 | int(ip[3])
		}
	}

	return 0
}

func reply(req *dns.Msg, tok int) *dns.Msg {
	resp := (&dns.Msg{}).SetReply(req)
	resp.Answer = append(resp.Answer, &dns.A{
		Hdr: dns.RR_Header{Name: req.Question[0].Name, Rrtype: dns.TypeA, Class: dns.ClassINET, Ttl: 10},
		A:   net.IPv4(10, byte(tok>>16), byte(tok>>8), byte(tok)),
	})

	return resp
}

func intList(l []int) string {
	if len(l) == 0 {
		return "-"
	}
	s := make([]string, len(l))
	for i, v := range l {
		s[i] = fmt.Sprint(v)
	}

	return strings.Join(s, ",")
}

func strList(l []string) string {
	if len(l) == 0 {
		return "-"
	}

	return strings.Join(l, ",")
}

func containsInt(l []int, v int) bool {
	for _, x := range l {
		if x == v {
			return true
		}
	}

	return false
}

func b2s(b bool) string {
	if b {
		return "1"
	}

	return "0"
}

// ---------------------------------------------------------------------------
// World 1: in-memory upstreams swapped into a handler built by NewHandler.

type fakeWorld struct {
	s    *sched
	h    *forward.Handler
	main []string
	fb   []string
	step int
	log  []call
	// during, when set, is called from inside every probe of a main upstream,
	// before the probe's result is returned to the health-check loop.
	during func(u int)
	// probes are the health-probe requests received since takeProbes.
	probes []*dns.Msg
}

func (w *fakeWorld) takeProbes() (l []*dns.Msg) {
	l, w.probes = w.probes, nil

	return l
}

type fakeUps struct {
	w   *fakeWorld
	fb  bool
	idx int
}

func (f *fakeUps) Close() error   { return nil }
func (f *fakeUps) String() string { return fmt.Sprintf("fake(fb=%v,%d)", f.fb, f.idx) }

var (
	errNet1 = fmt.Errorf("upstreamplain: udp network reading: %w",
		&net.OpError{Op: "read", Net: "udp", Err: os.ErrDeadlineExceeded})
	errNet2 = fmt.Errorf("upstreamplain: getting connection: %w",
		&net.OpError{Op: "dial", Net: "tcp", Err: errors.New("connection refused")})
	errNet3   = fmt.Errorf("upstreamplain: %w", context.DeadlineExceeded)
	errOther1 = fmt.Errorf("upstreamplain: validating udp response: %w", forward.ErrQuestion)
	errOther2 = fmt.Errorf("upstreamplain: validating tcp response: %w", dns.ErrId)
	errOther3 = fmt.Errorf("upstreamplain: reading binary data: %w", io.EOF)
	errOther4 = fmt.Errorf("upstreamplain: getting connection: %w", context.Canceled)
)

func (f *fakeUps) Exchange(ctx context.Context, req *dns.Msg) (resp *dns.Msg, nw forward.Network, err error) {
	isProbe := len(req.Question) == 1 && f.w.s.isProbeQ(req.Question[0])
	f.w.log = append(f.w.log, call{fb: f.fb, idx: f.idx, probe: isProbe, dead: ctx.Err() != nil})
	if isProbe {
		f.w.probes = append(f.w.probes, req)
	}
	behs := f.w.main
	if f.fb {
		behs = f.w.fb
	}
	beh := "z"
	if f.idx < len(behs) {
		beh = behs[f.idx]
	}
	step := f.w.step
	if isProbe && !f.fb && f.w.during != nil {
		f.w.during(f.idx)
	}
	if beh == "cx" || beh == "bh" {
		if cerr := ctx.Err(); cerr != nil {
			return nil, forward.NetworkUDP, fmt.Errorf("upstreamplain: getting connection: %w", cerr)
		}
		if beh == "bh" {
			// Nothing ever comes back: the read ends at the deadline of the context.
			if b, ok := ctx.Value(burnKey{}).(*burnCtx); ok {
				b.burn()
			}

			return nil, forward.NetworkUDP, errNet1
		}
		beh = "r"
	}
	switch beh {
	case "r", "ok":
		return reply(req, tokOf(f.fb, f.idx, step)), forward.NetworkUDP, nil
	case "rs", "sf":
		resp = reply(req, tokOf(f.fb, f.idx, step))
		resp.Rcode = dns.RcodeServerFailure

		return resp, forward.NetworkTCP, nil
	case "nx":
		resp = reply(req, tokOf(f.fb, f.idx, step))
		resp.Rcode = dns.RcodeNameError

		return resp, forward.NetworkUDP, nil
	case "n1":
		return nil, forward.NetworkUDP, errNet1
	case "n2":
		return nil, forward.NetworkTCP, errNet2
	case "n3":
		return nil, forward.NetworkUDP, errNet3
	case "o1":
		// As UpstreamPlain does on a validation failure: response and error.
		return reply(req, 999), forward.NetworkUDP, errOther1
	case "o2":
		return nil, forward.NetworkTCP, errOther2
	case "o3":
		return nil, forward.NetworkTCP, errOther3
	case "o4":
		return nil, forward.NetworkUDP, errOther4
	default:
		return nil, forward.NetworkUDP, nil
	}
}

func (w *fakeWorld) handler() *forward.Handler { return w.h }
func (w *fakeWorld) close()                    { _ = w.h.Close() }
func (w *fakeWorld) arm(mains, fbs []string, step int) {
	w.main, w.fb, w.step = mains, fbs, step
}

func (w *fakeWorld) takeLog() (l []call) {
	l, w.log = w.log, nil

	return l
}

func (w *fakeWorld) modelTok(_ bool, _ int, beh string, tok int) string {
	switch beh[0] {
	case 'r':
		return fmt.Sprintf("r%d", tok)
	case 'n':
		return "n"
	case 'o':
		return "o"
	default:
		return "z"
	}
}

func (w *fakeWorld) classify(_ bool, _ int, beh string) string {
	switch beh[0] {
	case 'r':
		return "reply"
	case 'n':
		return "net"
	case 'o':
		return "other"
	default:
		return "nil"
	}
}

func (w *fakeWorld) wantTok(_ bool, _ int, _ string, tok int) int { return tok }

func (w *fakeWorld) probeOK(_ int, beh string) bool { return beh == "ok" }

// probeTok: what Exchange gives the probe (the model applies checkUpstream).
func (w *fakeWorld) probeTok(_ int, beh string) string {
	switch beh {
	case "bh":
		return "h"
	case "ok", "r":
		return "r0"
	case "sf", "rs":
		return "r2"
	case "nx":
		return "r3"
	case "z":
		return "z"
	default:
		return "e"
	}
}

// initLog: the initial check of NewHandler runs against the plain clients of
// the dummy configuration (closed loopback ports), which are not observed.
func (w *fakeWorld) initLog() (l []call, ok bool) { return nil, false }

func dummyConfs(n int) (confs []*forward.UpstreamPlainConfig) {
	for i := 0; i < n; i++ {
		confs = append(confs, &forward.UpstreamPlainConfig{
			Network: forward.NetworkAny,
			Address: netip.AddrPortFrom(netip.AddrFrom4([4]byte{127, 0, 0, 1}), uint16(1+i)),
			Timeout: 50 * time.Millisecond,
		})
	}

	return confs
}

func newFakeWorld(s *sched) *fakeWorld {
	w := &fakeWorld{s: s}
	var initDur time.Duration
	if s.Init != nil {
		// The initial health check meets the dummy configuration: nothing
		// listens on those ports, every probe fails with a network error.
		initDur = time.Minute
	}
	w.h = forward.NewHandler(&forward.HandlerConfig{
		Logger:                     discard,
		HealthcheckDomainTmpl:      s.tmpl(),
		UpstreamsAddresses:         dummyConfs(s.NMain),
		FallbackAddresses:          dummyConfs(s.NFb),
		HealthcheckBackoffDuration: time.Duration(s.Backoff) * tick,
		HealthcheckInitDuration:    initDur,
	})
	mains := make([]forward.Upstream, s.NMain)
	for i := range mains {
		mains[i] = &fakeUps{w: w, idx: i}
	}
	fbs := make([]forward.Upstream, s.NFb)
	for i := range fbs {
		fbs[i] = &fakeUps{w: w, fb: true, idx: i}
	}
	forward.VerifC17SwapUpstreams(w.h, mains, fbs)

	return w
}

var (
	fakeQ  = []string{"r", "r", "r", "rs", "n1", "n2", "n3", "o1", "o2", "o3", "o4", "z", "cx", "bh"}
	fakeP  = []string{"ok", "ok", "ok", "sf", "nx", "n1", "o1", "z", "cx", "cx", "bh", "bh"}
	fakeFQ = []string{"r", "r", "rs", "n1", "n2", "o1", "o3", "z", "cx", "bh"}
)

// genSched draws a schedule.  extras (in-memory world only) adds what only that
// world can script: queries arriving inside health-check rounds, contexts that
// are already done, NewHandler's initial check, the ${RANDOM} probe domain.
func genSched(rng *rand.Rand, qm, qf, pm []string, maxMain, maxFb, length int, extras bool) *sched {
	s := &sched{NMain: 1 + rng.IntN(maxMain), NFb: rng.IntN(maxFb + 1), Backoff: rng.IntN(4)}
	switch rng.IntN(12) {
	case 0:
		s.Backoff = -1
	case 1:
		s.Backoff = 24
	}
	if s.NFb == 0 && rng.IntN(2) == 0 {
		s.NFb = 1
	}
	// Per schedule, each main upstream has a temperament so that long outages
	// and recoveries happen.
	sick := make([]int, s.NMain)
	for i := range sick {
		sick[i] = rng.IntN(4)
	}
	pick := func(pool []string, bad int) string {
		if rng.IntN(4) >= bad {
			return pool[0]
		}

		return pool[rng.IntN(len(pool))]
	}
	genQ := func() op {
		p := op{Kind: "q"}
		for u := 0; u < s.NMain; u++ {
			p.Main = append(p.Main, pick(qm, 1+sick[u]))
		}
		for f := 0; f < s.NFb; f++ {
			p.Fb = append(p.Fb, pick(qf, 2))
		}
		if extras && rng.IntN(10) == 0 {
			p.Ctx = []string{"cancel", "expired"}[rng.IntN(2)]
			p.Main[rng.IntN(s.NMain)] = "cx"
			if s.NFb > 0 && rng.IntN(2) == 0 {
				p.Fb[rng.IntN(s.NFb)] = "cx"
			}
		}

		return p
	}
	genQuestion(rng, s)
	if extras {
		s.RandTmpl = rng.IntN(3) == 0
		if rng.IntN(6) == 0 {
			for u := 0; u < s.NMain; u++ {
				s.Init = append(s.Init, "n1")
			}
		}
	}
	n := 2 + rng.IntN(length)
	for i := 0; i < n; i++ {
		switch x := rng.IntN(10); {
		case x < 4:
			s.Ops = append(s.Ops, genQ())
		case x < 7:
			p := op{Kind: "rf"}
			for u := 0; u < s.NMain; u++ {
				p.Main = append(p.Main, pick(pm, 1+sick[u]))
			}
			if extras && rng.IntN(8) == 0 {
				p.Ctx = []string{"cancel", "expired"}[rng.IntN(2)]
				p.Main[rng.IntN(s.NMain)] = "cx"
			}
			if extras && rng.IntN(3) == 0 {
				p.In = make([][]op, s.NMain)
				for u := range p.In {
					for k := rng.IntN(3); k > 0; k-- {
						p.In[u] = append(p.In[u], genQ())
					}
				}
			}
			s.Ops = append(s.Ops, p)
			if rng.IntN(3) == 0 {
				sick[rng.IntN(s.NMain)] = rng.IntN(4)
			}
		default:
			k := 1
			switch rng.IntN(6) {
			case 0:
				k = max(s.Backoff, 1)
			case 1:
				k = max(s.Backoff-1, 1)
			case 2:
				k = s.Backoff + 1
			case 3:
				k = 2
			}
			s.Ops = append(s.Ops, op{Kind: "adv", K: max(k, 1)})
		}
	}

	return s
}

var (
	schedNames = []string{".", ".", "a.", "Ab.", "WWW.ExAmPlE.COM.", "xyz.", "a\\128b.c.", "_dmarc.ab.",
		strings.Repeat("a", 63) + "." + strings.Repeat("b", 63) + "." + strings.Repeat("c", 63) + "." + strings.Repeat("d", 61) + "."}
	schedTypes = []uint16{dns.TypeAAAA, dns.TypeNS, dns.TypeTXT, dns.TypeANY, dns.TypeHTTPS, dns.TypeSOA}
	schedTmpls = []string{"root", "root", "rndonly", "rnd2", "rndmid", "upper", "fqdn"}
)

// genQuestion gives half of the schedules another question than "ab. A" (the
// root, one label, mixed case, escapes, a maximal name; other types) and a third
// another probe template; the query name is kept apart from the probe names.
func genQuestion(rng *rand.Rand, s *sched) {
	if rng.IntN(3) == 0 {
		s.Tmpl = schedTmpls[rng.IntN(len(schedTmpls))]
	}
	if rng.IntN(2) == 0 {
		s.QName = schedNames[rng.IntN(len(schedNames))]
		if rng.IntN(2) == 0 {
			s.QType = schedTypes[rng.IntN(len(schedTypes))]
		}
	}
	switch {
	case s.Tmpl == "root" && s.QName == ".":
		s.QName = "xyz."
	case s.Tmpl == "rndonly" && (s.QName == "" || s.QName == "a."):
		s.QName = "xyz."
	}
}

// sameObs compares the model's answer with the implementation's observation;
// "probed=?" in the observation (not observable) matches anything.
func sameObs(answer, ob string) bool {
	if answer == ob {
		return true
	}
	if i := strings.Index(ob, "probed=? "); i >= 0 {
		j := strings.Index(answer, "probed=")
		if j != i {
			return false
		}
		rest := answer[j:]
		k := strings.Index(rest, " ")

		return k >= 0 && answer[:j] == ob[:i] && rest[k+1:] == ob[i+len("probed=? "):]
	}

	return false
}

// evalSchedule runs one schedule in a fresh world, compares with the model and
// reports.  mk builds the world.  It returns whether anything was reported.
func evalSchedule(r *hlib.Result, m *hlib.Model, campaign string, s *sched, mk func(*sched) world, confirm int) (bad bool) {
	w := mk(s)
	lines, obs, viols, nontrivial := runSchedule(w, s)
	w.close()
	m.ResetLog()
	answers := m.Batch(lines)
	dis := -1
	for i := range lines {
		if !sameObs(answers[i], obs[i]) {
			dis = i

			break
		}
	}
	// Socket-based worlds: a finding must reproduce (scheduling jitter can turn
	// a live upstream into a timed-out one).
	for c := 0; c < confirm && (dis >= 0 || len(viols) > 0); c++ {
		w2 := mk(s)
		l2, o2, v2, _ := runSchedule(w2, s)
		w2.close()
		a2 := m.Batch(l2)
		d2 := -1
		for i := range l2 {
			if !sameObs(a2[i], o2[i]) {
				d2 = i

				break
			}
		}
		if d2 < 0 {
			dis = -1
		}
		if len(v2) == 0 {
			viols = nil
		}
		if dis < 0 && len(viols) == 0 {
			r.Count(campaign + ".discarded_unreproducible")
		}
	}
	for _, v := range viols {
		rs := s
		what := v.what
		if reported[v.sig] {
			bad = true

			continue
		}
		reported[v.sig] = true
		if v.sig != "query-blocked-by-running-healthcheck" {
			// Shrink.  The in-memory world is deterministic up to the handler's own
			// random picks: a candidate fails if one of four runs shows the
			// signature.  With sockets a candidate must show it twice in a row
			// (scheduling jitter), within four attempts.
			need := 1
			if confirm > 0 {
				need = 2
			}
			fails := func(cand []op) bool {
				seen := 0
				for try := 0; try < 4 && seen < need; try++ {
					c := s.with(cand)
					w3 := mk(c)
					_, _, v3, _ := runSchedule(w3, c)
					w3.close()
					hit := ""
					for _, x := range v3 {
						if x.sig == v.sig {
							hit = x.what

							break
						}
					}
					if hit == "" {
						seen = 0

						continue
					}
					seen++
					if seen == need {
						what = hit
					}
				}

				return seen >= need
			}
			ops := hlib.Shrink(s.Ops, fails)
			// Then the queries inside rounds, one at a time.
			for i := 0; i < len(ops); i++ {
				for u := 0; u < len(ops[i].In); u++ {
					for k := 0; k < len(ops[i].In[u]); {
						cand := append([]op{}, ops...)
						ci := cand[i]
						ci.In = make([][]op, len(ops[i].In))
						copy(ci.In, ops[i].In)
						ci.In[u] = append(append([]op{}, ops[i].In[u][:k]...), ops[i].In[u][k+1:]...)
						empty := true
						for _, qs := range ci.In {
							empty = empty && len(qs) == 0
						}
						if empty {
							ci.In = nil
						}
						cand[i] = ci
						if fails(cand) {
							ops = cand
							if ci.In == nil {
								break
							}
						} else {
							k++
						}
					}
				}
			}
			rs = s.with(ops)
		}
		r.Violate(v.sig, what+" [schedule "+rs.canon()+"]", map[string]any{"campaign": campaign, "schedule": rs, "canon": rs.canon(), "original": s.canon()})
		bad = true
	}
	if dis >= 0 {
		r.Disagree(campaign, fmt.Sprintf("op %q: implementation %q, model %q", lines[dis], obs[dis], answers[dis]),
			map[string]any{"campaign": campaign, "schedule": s, "ops": lines[:dis+1]})
		bad = true
	}
	r.Case(campaign+":"+strings.Join(lines, ";"), nontrivial)
	r.Traces++
	r.Count(fmt.Sprintf("%s.mains=%d", campaign, s.NMain))
	r.Count(fmt.Sprintf("%s.fallbacks=%d", campaign, s.NFb))
	if s.Init != nil {
		r.Count(campaign + ".init_check")
		if strings.Contains(obs[0], "act=- ") {
			r.Count(campaign + ".init_check.all_down")
		}
	}
	for _, p := range s.Ops {
		if p.Ctx != "" {
			r.Count(campaign + ".ctx_done." + p.Kind)
		}
	}
	for i, o := range obs {
		switch {
		case strings.HasPrefix(lines[i], "qi ") && strings.Contains(o, " f"):
			r.Count(campaign + ".in_round_query.fallback")
		case strings.HasPrefix(lines[i], "qi "):
			r.Count(campaign + ".in_round_query.main_or_servfail")
		case lines[i] == "re":
			r.Count(campaign + ".interleaved_round")
		case strings.HasPrefix(lines[i], "q ") && strings.HasPrefix(o, "sf"):
			r.Count(campaign + ".query.servfail")
		case strings.HasPrefix(lines[i], "q ") && strings.Contains(o, " f"):
			r.Count(campaign + ".query.answered_by_fallback")
		case strings.HasPrefix(lines[i], "q "):
			r.Count(campaign + ".query.answered_by_main")
		case strings.HasPrefix(lines[i], "rf ") && strings.Contains(o, "act=- "):
			r.Count(campaign + ".refresh.all_down")
		case strings.HasPrefix(lines[i], "rf ") && strings.Count(o, "probed=-") == 0 && probedLess(o, s.NMain):
			r.Count(campaign + ".refresh.some_in_backoff")
		case strings.HasPrefix(lines[i], "rf "):
			r.Count(campaign + ".refresh.other")
		}
	}
	if nontrivial {
		r.Sample(map[string]any{"campaign": campaign, "ops": lines, "impl": obs}, 6)
	}

	return bad
}

func probedLess(o string, n int) bool {
	i := strings.Index(o, "probed=")
	if i < 0 {
		return false
	}
	f := strings.Fields(o[i+len("probed="):])[0]

	return f != "-" && len(strings.Split(f, ",")) < n
}

func fakeCampaign(o *hlib.Opts, r *hlib.Result, m *hlib.Model) {
	rng := o.Rand("fake")
	mk := func(s *sched) world { return newFakeWorld(s) }
	n := 6000
	if o.Thorough() {
		n = 40000
	}
	for i := 0; i < n; i++ {
		s := genSched(rng, fakeQ, fakeFQ, fakeP, 3, 2, 24, true)
		evalSchedule(r, m, "fake", s, mk, 0)
	}

	// Exhaustive small scope: every op sequence up to the depth over a compact
	// alphabet (the handler's own random pick among active upstreams is sampled).
	depth := 3
	if o.Thorough() {
		depth = 5
	}
	for nMain := 1; nMain <= 2; nMain++ {
		for nFb := 0; nFb <= 1; nFb++ {
			for _, b := range []int{0, 1, 2} {
				var alpha []op
				for _, qm := range []string{"r", "n1", "o1"} {
					for _, qf := range []string{"r", "n1"} {
						if nFb == 0 && qf != "r" {
							continue
						}
						p := op{Kind: "q"}
						for u := 0; u < nMain; u++ {
							// the second upstream always answers
							if u == 0 {
								p.Main = append(p.Main, qm)
							} else {
								p.Main = append(p.Main, "r")
							}
						}
						if nFb > 0 {
							p.Fb = []string{qf}
						}
						alpha = append(alpha, p)
					}
				}
				for code := 0; code < 1<<nMain; code++ {
					p := op{Kind: "rf"}
					for u := 0; u < nMain; u++ {
						if code>>u&1 == 1 {
							p.Main = append(p.Main, "ok")
						} else {
							p.Main = append(p.Main, "n1")
						}
					}
					alpha = append(alpha, p)
					// The same round with one query arriving while upstream u is probed
					// (main0 answers it; the fallback too).
					if nFb > 0 {
						for u := 0; u < nMain; u++ {
							pi := p
							pi.In = make([][]op, nMain)
							q := op{Kind: "q", Fb: []string{"r"}}
							for v := 0; v < nMain; v++ {
								q.Main = append(q.Main, "r")
							}
							pi.In[u] = []op{q}
							alpha = append(alpha, pi)
						}
					}
				}
				if nFb > 0 {
					// A round in which main 0 never answers and so uses up the time of
					// the round (the others would answer), and a round that is cancelled
					// before it starts.
					hang := op{Kind: "rf"}
					dead := op{Kind: "rf", Ctx: "cancel"}
					for u := 0; u < nMain; u++ {
						if u == 0 {
							hang.Main = append(hang.Main, "bh")
						} else {
							hang.Main = append(hang.Main, "ok")
						}
						dead.Main = append(dead.Main, "cx")
					}
					alpha = append(alpha, hang, dead)
				}
				alpha = append(alpha, op{Kind: "adv", K: 1})
				// NewHandler with its initial health check (all probes fail), one level less.
				var initFail []string
				for u := 0; u < nMain; u++ {
					initFail = append(initFail, "n1")
				}
				enumerate(alpha, depth-1, func(ops []op) {
					evalSchedule(r, m, "exh", &sched{NMain: nMain, NFb: nFb, Backoff: b, Init: initFail, Ops: ops}, mk, 0)
				})
				if nMain == 1 && nFb == 1 && depth == 3 {
					// quick tier: one more level for the smallest configuration with fallbacks
					enumerate(alpha, 4, func(ops []op) {
						evalSchedule(r, m, "exh", &sched{NMain: nMain, NFb: nFb, Backoff: b, Ops: ops}, mk, 0)
					})

					continue
				}
				if nMain == 2 && nFb == 1 && depth > 4 {
					// 19 letters: depth 4 (the interleaved rounds make the alphabet large)
					enumerate(alpha, 4, func(ops []op) {
						evalSchedule(r, m, "exh", &sched{NMain: nMain, NFb: nFb, Backoff: b, Ops: ops}, mk, 0)
					})

					continue
				}
				if nFb == 0 && depth > 4 {
					// without fallbacks refresh is a no-op: depth 4 is plenty
					enumerate(alpha, 4, func(ops []op) {
						evalSchedule(r, m, "exh", &sched{NMain: nMain, NFb: nFb, Backoff: b, Ops: ops}, mk, 0)
					})

					continue
				}
				enumerate(alpha, depth, func(ops []op) {
					evalSchedule(r, m, "exh", &sched{NMain: nMain, NFb: nFb, Backoff: b, Ops: ops}, mk, 0)
				})
			}
		}
	}
	r.Count(fmt.Sprintf("exh.depth=%d_done", depth))
	r.Notes = append(r.Notes, fmt.Sprintf(
		"exhaustive: all op sequences of length %d over {query(main0 reply|net|other x fallback reply|net), refresh(all probe vectors, "+
			"plain or with one query arriving while upstream u is probed), advance 1 tick} for 1-2 mains, 0-1 fallbacks, backoff 0-2 ticks, "+
			"and of length %d after NewHandler's initial health check found every main down (thorough: length 4 for 2 mains with a fallback); "+
			"the handler's random pick among active upstreams is not enumerated", depth, depth-1))
}

// spreadCampaign checks the one thing about the random choice that the property
// needs: every main upstream in rotation does get traffic, in particular one
// that has just been reinstated ("traffic returns to the main upstreams").  With
// 200 queries over at most 3 upstreams a fair choice misses one with probability
// below 1e-34.
func spreadCampaign(o *hlib.Opts, r *hlib.Result) {
	const queries = 200
	for k := 2; k <= 3; k++ {
		s := &sched{NMain: k, NFb: 1, Backoff: 1}
		w := newFakeWorld(s)
		h := w.handler()
		allR := make([]string, k)
		for i := range allR {
			allR[i] = "r"
		}
		ask := func(phase string, want []int) {
			counts := make([]int, k)
			for i := 0; i < queries; i++ {
				w.arm(allR, []string{"r"}, i)
				req := &dns.Msg{}
				req.SetQuestion(s.qname(), s.qtype())
				rw := dnsserver.NewNonWriterResponseWriter(&net.UDPAddr{IP: net.IPv4(127, 0, 0, 1), Port: 1},
					&net.UDPAddr{IP: net.IPv4(127, 0, 0, 1), Port: 2})
				_ = h.ServeDNS(context.Background(), rw, req)
				for _, c := range w.takeLog() {
					if !c.fb {
						counts[c.idx]++
					}
				}
			}
			r.Evaluations += queries
			for _, u := range want {
				if counts[u] == 0 {
					r.Violate("active-upstream-never-chosen",
						fmt.Sprintf("%d main upstreams, %s: %d queries, all upstreams answering, were spread %v over the mains: upstream %d, which is in rotation, got none",
							k, phase, queries, counts, u),
						map[string]any{"campaign": "spread", "n_main": k, "phase": phase, "queries": queries, "counts": counts})
				}
			}
			r.Count(fmt.Sprintf("spread.mains=%d.%s", k, phase))
		}
		all := make([]int, k)
		for i := range all {
			all[i] = i
		}
		ask("after NewHandler", all)
		// The last upstream fails a probe and is taken out ...
		probe := make([]string, k)
		for i := range probe {
			probe[i] = "ok"
		}
		probe[k-1] = "n1"
		w.arm(probe, nil, 0)
		_ = h.Refresh(context.Background())
		w.takeLog()
		ask("with the last upstream out", all[:k-1])
		// ... and comes back after the backoff.
		forward.VerifC17AdvanceClock(h, 2*tick)
		probe[k-1] = "ok"
		w.arm(probe, nil, 0)
		_ = h.Refresh(context.Background())
		w.takeLog()
		ask("after the last upstream recovered", all)
		// The first one out and back as well (position 0 moves to the end? no: order is kept).
		probe[0] = "sf"
		w.arm(probe, nil, 0)
		_ = h.Refresh(context.Background())
		w.takeLog()
		ask("with the first upstream out", all[1:])
		forward.VerifC17AdvanceClock(h, 2*tick)
		probe[0] = "ok"
		w.arm(probe, nil, 0)
		_ = h.Refresh(context.Background())
		w.takeLog()
		ask("after the first upstream recovered", all)
		w.close()
		r.Traces++
	}
}

// saturationCampaign runs the code at the point an earlier assumption excluded:
// the largest configurable backoff (and the smallest).  An upstream that never
// failed a probe carries the zero time; time.Since of it saturates at the
// largest Duration and the comparison with the backoff is strict, so it must be
// probed and stay in rotation whatever the backoff is.
func saturationCampaign(r *hlib.Result) {
	for _, b := range []time.Duration{1<<63 - 1, 1<<63 - 2, -1 << 63, 0, 1} {
		s := &sched{NMain: 2, NFb: 1}
		w := &fakeWorld{s: s}
		w.h = forward.NewHandler(&forward.HandlerConfig{
			Logger:                     discard,
			HealthcheckDomainTmpl:      probeDomain,
			UpstreamsAddresses:         dummyConfs(2),
			FallbackAddresses:          dummyConfs(1),
			HealthcheckBackoffDuration: b,
		})
		forward.VerifC17SwapUpstreams(w.h, []forward.Upstream{&fakeUps{w: w, idx: 0}, &fakeUps{w: w, idx: 1}},
			[]forward.Upstream{&fakeUps{w: w, fb: true, idx: 0}})
		for round := 0; round < 3; round++ {
			w.arm([]string{"ok", "ok"}, nil, round)
			err := w.h.Refresh(context.Background())
			probed := map[int]bool{}
			for _, c := range w.takeLog() {
				probed[c.idx] = probed[c.idx] || (c.probe && !c.fb)
			}
			act, _, _ := forward.VerifC17State(w.h)
			if err != nil || !probed[0] || !probed[1] || len(act) != 2 {
				r.Violate("never-failed-main-in-backoff",
					fmt.Sprintf("backoff %d ns, round %d: main upstreams that never failed a probe: probed %v, active %v, Refresh error %v", b, round, probed, act, err),
					map[string]any{"campaign": "saturation", "backoff_ns": int64(b), "round": round})
			}
			r.Evaluations++
		}
		r.Count("saturation.backoff_extremes")
		w.close()
	}
	r.Traces++
}

func enumerate(alpha []op, depth int, f func([]op)) {
	idx := make([]int, depth)
	for {
		ops := make([]op, depth)
		for i, j := range idx {
			ops[i] = alpha[j]
		}
		f(ops)
		i := 0
		for ; i < depth; i++ {
			idx[i]++
			if idx[i] < len(alpha) {
				break
			}
			idx[i] = 0
		}
		if i == depth {
			return
		}
	}
}

// ---------------------------------------------------------------------------
// validatePlainResponse

func validateCampaign(o *hlib.Opts, r *hlib.Result, m *hlib.Model) {
	rng := o.Rand("validate")
	n := 3000
	if o.Thorough() {
		n = 30000
	}
	names := []string{"ab.", "AB.", "aB.", "ac.", "ab.c.", "abc.", "a.", ".", "xn--ab.", "Ab.C.", "AB.c."}
	types := []uint16{1, 28, 5, 255}
	var lines, obs []string
	for i := 0; i < n; i++ {
		req := &dns.Msg{}
		req.Id = uint16(rng.IntN(3))
		req.Question = []dns.Question{{Name: names[rng.IntN(len(names))], Qtype: types[rng.IntN(2)], Qclass: 1}}
		resp := &dns.Msg{}
		resp.Id = req.Id
		if rng.IntN(5) == 0 {
			resp.Id = uint16(rng.IntN(3))
		}
		nq := 1
		if rng.IntN(6) == 0 {
			nq = rng.IntN(4)
		}
		for j := 0; j < nq; j++ {
			q := req.Question[0]
			switch rng.IntN(8) {
			case 0:
				q.Name = names[rng.IntN(len(names))]
			case 1:
				q.Name = strings.ToUpper(q.Name)
			case 2:
				q.Qtype = types[rng.IntN(len(types))]
			case 3:
				q.Qclass = 3
			}
			resp.Question = append(resp.Question, q)
		}
		// Header flags and sections that say nothing about whose reply this is:
		// the verdict must not depend on them (the model has no field for them).
		flags := ""
		if rng.IntN(3) == 0 {
			resp.Truncated = true
			flags += "+tc"
		}
		if rng.IntN(4) == 0 {
			resp.Rcode = []int{dns.RcodeServerFailure, dns.RcodeNameError, dns.RcodeRefused}[rng.IntN(3)]
			flags += "+rcode"
		}
		if rng.IntN(6) == 0 {
			resp.Response = rng.IntN(2) == 0
			resp.Authoritative = rng.IntN(2) == 0
			resp.Opcode = []int{dns.OpcodeQuery, dns.OpcodeNotify}[rng.IntN(2)]
			flags += "+hdr"
		}
		if rng.IntN(3) > 0 {
			resp.Answer = append(resp.Answer, &dns.A{
				Hdr: dns.RR_Header{Name: req.Question[0].Name, Rrtype: dns.TypeA, Class: dns.ClassINET, Ttl: 10},
				A:   net.IPv4(10, 0, 0, 1),
			})
			flags += "+ans"
		}
		err := forward.VerifC17ValidatePlainResponse(req, resp)
		got := "ok"
		switch {
		case err == nil:
		case errors.Is(err, dns.ErrId):
			got = "id"
		case errors.Is(err, forward.ErrQuestion) && strings.Contains(err.Error(), "only 1 question"):
			got = "count"
		case errors.Is(err, forward.ErrQuestion) && strings.Contains(err.Error(), "mismatched type"):
			got = "type"
		case errors.Is(err, forward.ErrQuestion) && strings.Contains(err.Error(), "mismatched name"):
			got = "name"
		default:
			got = "unknown-error"
		}
		line := fmt.Sprintf("v %d %s %d %d %d", req.Id, req.Question[0].Name, req.Question[0].Qtype, resp.Id, len(resp.Question))
		for _, q := range resp.Question {
			line += fmt.Sprintf(" %s %d", q.Name, q.Qtype)
		}
		lines = append(lines, line)
		obs = append(obs, got)

		// Property oracle (clause e), written independently of the code.
		match := resp.Id == req.Id && len(resp.Question) == 1 &&
			resp.Question[0].Qtype == req.Question[0].Qtype &&
			asciiLower(resp.Question[0].Name) == asciiLower(req.Question[0].Name)
		if err == nil && !match {
			sig := "reply-accepted-with-mismatch"
			r.Violate(sig, fmt.Sprintf("validatePlainResponse accepted a response that does not match: %s (response flags %q)", line, flags),
				map[string]any{"campaign": "validate", "line": line, "flags": flags})
		}
		if err != nil && match {
			r.Violate("matching-reply-rejected", fmt.Sprintf("validatePlainResponse rejected a matching response (%v): %s", err, line),
				map[string]any{"campaign": "validate", "line": line})
		}
		r.Case(line+flags, got != "ok")
		r.Count("validate." + got)
		if strings.Contains(flags, "+tc") && got != "ok" {
			r.Count("validate.rejected_with_tc")
		}
	}
	m.ResetLog()
	answers := m.Batch(lines)
	for i := range lines {
		if answers[i] != obs[i] {
			r.Disagree("validate", fmt.Sprintf("%q: implementation %s, model %s", lines[i], obs[i], answers[i]),
				map[string]any{"campaign": "validate", "ops": []string{lines[i]}})

			break
		}
	}
	r.Traces++
}

func asciiLower(s string) string {
	b := []byte(s)
	for i, c := range b {
		if 'A' <= c && c <= 'Z' {
			b[i] = c + 32
		}
	}

	return string(b)
}

// readMsgCampaign ties the byte-level part of the model (header and question
// parser behind readMsg) to dns.Msg.Unpack on the bytes that were read:
// question-only messages, whole or cut at an arbitrary length, followed by
// residue that must not matter.
func readMsgCampaign(o *hlib.Opts, r *hlib.Result, m *hlib.Model) {
	rng := o.Rand("readmsg")
	n := 600
	if o.Thorough() {
		n = 6000
	}
	names := []string{"ab.", "abcdef.example.", ".", "a.b.c.", "x.org."}
	var lines, obs []string
	for i := 0; i < n; i++ {
		msg := &dns.Msg{}
		msg.Id = uint16(rng.IntN(65536))
		msg.Response = true
		msg.Truncated = rng.IntN(4) == 0
		msg.RecursionAvailable = rng.IntN(2) == 0
		msg.Rcode = []int{0, 0, 2, 3, 5, 9}[rng.IntN(6)]
		for j := rng.IntN(3); j > 0; j-- {
			msg.Question = append(msg.Question, dns.Question{
				Name: names[rng.IntN(len(names))], Qtype: uint16(1 + rng.IntN(300)), Qclass: 1,
			})
		}
		b, err := msg.Pack()
		hlib.Must(err)
		cut := len(b)
		if rng.IntN(2) == 0 {
			cut = 12 + rng.IntN(len(b)-11)
		}
		// residue: the tail of another packed message
		buf := append(append([]byte{}, b[:cut]...), b[min(cut, len(b)):]...)
		buf = append(buf, 0, 1, 0, 1, 3, 'w', 'w', 'w', 0, 0, 1, 0, 1)
		got := "none"
		if cut >= 17 {
			parsed := &dns.Msg{}
			if parsed.Unpack(buf[:cut]) == nil {
				qs := make([]string, len(parsed.Question))
				for k, q := range parsed.Question {
					qs[k] = fmt.Sprintf("%s:%d", q.Name, q.Qtype)
				}
				got = fmt.Sprintf("id=%d tc=%s rc=%d qs=%s", parsed.Id, b2s(parsed.Truncated), parsed.Rcode, strList(qs))
			}
		}
		line := fmt.Sprintf("rd %d", cut)
		for _, x := range buf {
			line += fmt.Sprintf(" %d", x)
		}
		lines = append(lines, line)
		obs = append(obs, got)
		r.Case(line, got == "none")
		if got == "none" {
			r.Count("readmsg.rejected")
		} else {
			r.Count("readmsg.parsed")
		}
	}
	m.ResetLog()
	answers := m.Batch(lines)
	for i := range lines {
		if answers[i] != obs[i] {
			r.Disagree("readmsg", fmt.Sprintf("%q: Unpack(buf[:n]) gives %q, model %q", lines[i], obs[i], answers[i]),
				map[string]any{"campaign": "readmsg", "ops": []string{lines[i]}})

			break
		}
	}
	r.Traces++
}
