package main

import (
	"context"
	"encoding/binary"
	"errors"
	"fmt"
	"io"
	"math/rand/v2"
	"net"
	"net/netip"
	"os"
	"strings"
	"sync"
	"time"

	"github.com/AdguardTeam/AdGuardDNS/internal/dnsserver/forward"
	"github.com/AdguardTeam/AdGuardDNS/verifh/hlib"
	"github.com/miekg/dns"
)

// upsTimeout is the per-upstream timeout of the real clients.  Only the "dr"
// (silently dropped) behaviour waits for it.
const upsTimeout = 150 * time.Millisecond

// server is a scripted DNS server on one loopback port (UDP and TCP).  What it
// does with the next requests is set by set; "net" means the socket is closed.
type server struct {
	port int

	mu    sync.Mutex
	udp   *net.UDPConn
	tcp   *net.TCPListener
	conns map[net.Conn]struct{}
	ukind string
	tkind string
	// closeFirst: close the next TCP connection that carries a request
	// without answering, once (wire modifier c1).
	closeFirst bool
	tokU       int
	tokT       int
	onProbe    func()
	// isProbe tells health probes from queries by their question (nil: by the
	// default probe domain); seen collects the probe requests received.
	isProbe   func(q dns.Question) bool
	seen      []*dns.Msg
	lastSentU []byte
	// rawU / rawT: the octets sent when the kind is "raw" (TCP: after a length
	// prefix announcing exactly them).
	rawU, rawT []byte
	// rawFrag > 1: the TCP octets are written in that many pieces (the length
	// prefix first, on its own), a millisecond apart: a message that arrives in
	// several segments.
	rawFrag int
	wg         sync.WaitGroup
}

func newServer(rng *rand.Rand) (s *server) {
	for try := 0; try < 200; try++ {
		s = &server{port: 20000 + rng.IntN(12000), conns: map[net.Conn]struct{}{}}
		if s.openUDP() != nil {
			continue
		}
		if s.openTCP() != nil {
			s.closeUDP()

			continue
		}

		return s
	}
	panic("c17: no free loopback port")
}

func (s *server) addr() netip.AddrPort {
	return netip.AddrPortFrom(netip.AddrFrom4([4]byte{127, 0, 0, 1}), uint16(s.port))
}

func (s *server) openUDP() (err error) {
	if s.udp != nil {
		return nil
	}
	c, err := net.ListenUDP("udp4", &net.UDPAddr{IP: net.IPv4(127, 0, 0, 1), Port: s.port})
	if err != nil {
		return err
	}
	s.udp = c
	s.wg.Add(1)
	go s.serveUDP(c)

	return nil
}

func (s *server) closeUDP() {
	if s.udp != nil {
		_ = s.udp.Close()
		s.udp = nil
	}
}

func (s *server) openTCP() (err error) {
	if s.tcp != nil {
		return nil
	}
	l, err := net.ListenTCP("tcp4", &net.TCPAddr{IP: net.IPv4(127, 0, 0, 1), Port: s.port})
	if err != nil {
		return err
	}
	s.tcp = l
	s.wg.Add(1)
	go s.serveTCP(l)

	return nil
}

func (s *server) closeTCP() {
	if s.tcp != nil {
		_ = s.tcp.Close()
		s.tcp = nil
	}
	s.mu.Lock()
	for c := range s.conns {
		_ = c.Close()
	}
	s.conns = map[net.Conn]struct{}{}
	s.mu.Unlock()
}

func (s *server) close() {
	s.closeUDP()
	s.closeTCP()
	s.wg.Wait()
}

// set scripts the server.  Only the harness goroutine calls it, between ops.
func (s *server) set(ukind, tkind string, tokU, tokT int) {
	s.mu.Lock()
	s.ukind, s.tkind, s.tokU, s.tokT = ukind, tkind, tokU, tokT
	s.closeFirst = kindHas(tkind, "c1")
	s.mu.Unlock()
	retry := func(open func() error) {
		for i := 0; ; i++ {
			if open() == nil {
				return
			} else if i > 100 {
				panic(fmt.Sprintf("c17: cannot re-open loopback port %d", s.port))
			}
			time.Sleep(2 * time.Millisecond)
		}
	}
	if ukind == "net" {
		s.closeUDP()
	} else {
		retry(s.openUDP)
	}
	if tkind == "net" {
		s.closeTCP()
	} else {
		retry(s.openTCP)
	}
}

// setRaw scripts the server with literal octets for the kinds "raw".
func (s *server) setRaw(ukind, tkind string, rawU, rawT []byte, frag int) {
	s.mu.Lock()
	s.rawU, s.rawT, s.rawFrag = rawU, rawT, frag
	s.mu.Unlock()
	s.set(ukind, tkind, 0, 0)
}

// probe reports whether req is a health probe, and notes it.
func (s *server) probe(req *dns.Msg) bool {
	s.mu.Lock()
	f, onProbe := s.isProbe, s.onProbe
	s.mu.Unlock()
	is := isProbeName(req.Question[0].Name)
	if f != nil {
		is = f(req.Question[0])
	}
	if is {
		s.mu.Lock()
		s.seen = append(s.seen, req)
		s.mu.Unlock()
		if onProbe != nil {
			onProbe()
		}
	}

	return is
}

func (s *server) takeSeen() (l []*dns.Msg) {
	s.mu.Lock()
	defer s.mu.Unlock()
	l, s.seen = s.seen, nil

	return l
}

func (s *server) serveUDP(c *net.UDPConn) {
	defer s.wg.Done()
	buf := make([]byte, 4096)
	for {
		n, from, err := c.ReadFromUDP(buf)
		if err != nil {
			return
		}
		req := &dns.Msg{}
		if req.Unpack(buf[:n]) != nil || len(req.Question) == 0 {
			continue
		}
		s.mu.Lock()
		kind, tok, raw := s.ukind, s.tokU, s.rawU
		s.mu.Unlock()
		s.probe(req)
		if kind == "raw" {
			_, _ = c.WriteToUDP(raw, from)

			continue
		}
		if b := buildReply(req, kind, tok); b != nil {
			s.mu.Lock()
			s.lastSentU = b
			s.mu.Unlock()
			_, _ = c.WriteToUDP(b, from)
		}
	}
}

func (s *server) serveTCP(l *net.TCPListener) {
	defer s.wg.Done()
	for {
		c, err := l.Accept()
		if err != nil {
			return
		}
		s.mu.Lock()
		s.conns[c] = struct{}{}
		s.mu.Unlock()
		s.wg.Add(1)
		go func() {
			defer s.wg.Done()
			defer func() { _ = c.Close() }()
			for {
				var l uint16
				if binary.Read(c, binary.BigEndian, &l) != nil {
					return
				}
				b := make([]byte, l)
				if _, err := io.ReadFull(c, b); err != nil {
					return
				}
				req := &dns.Msg{}
				if req.Unpack(b) != nil || len(req.Question) == 0 {
					return
				}
				s.mu.Lock()
				kind, tok, raw, frag := s.tkind, s.tokT, s.rawT, s.rawFrag
				closeNow := s.closeFirst
				s.closeFirst = false
				s.mu.Unlock()
				if closeNow {
					return
				}
				s.probe(req)
				if kind == "raw" {
					out := append(binary.BigEndian.AppendUint16(nil, uint16(len(raw))), raw...)
					if frag > 1 {
						if tc, ok := c.(*net.TCPConn); ok {
							_ = tc.SetNoDelay(true)
						}
						cuts := []int{2}
						for i := 1; i < frag; i++ {
							cuts = append(cuts, 2+len(raw)*i/frag)
						}
						prev := 0
						for _, at := range append(cuts, len(out)) {
							if at > prev {
								if _, err := c.Write(out[prev:at]); err != nil {
									return
								}
								time.Sleep(time.Millisecond)
							}
							prev = at
						}

						continue
					}
					if _, err := c.Write(out); err != nil {
						return
					}

					continue
				}
				if b, _ := kindParts(kind); b == "eof" {
					return
				}
				if rb := buildReply(req, kind, tok); rb != nil {
					out := make([]byte, 2+len(rb))
					binary.BigEndian.PutUint16(out, uint16(len(rb)))
					copy(out[2:], rb)
					if _, err := c.Write(out); err != nil {
						return
					}
				}
			}
		}()
	}
}

// A wire kind is "<base>[+<mod>]*".  The base says how the reply relates to the
// query, the modifiers set header flags / sections on top of it, so that every
// (mis)match can be combined with every flag the client code looks at or might
// be tempted to look at:
//
//	bases  ok (matching reply)   cs (name in another case)   id nm ty q2 q0 (mismatches)
//	       bad (5 junk bytes)    pfx (datagram cut inside the question)
//	       net (socket closed)   dr (silently dropped)        eof (TCP: close after the request)
//	mods   tc (TC bit)  sf nx rf (rcode SERVFAIL / NXDOMAIN / REFUSED)  na (no answer records)
//	       aa (AA bit)  qr (QR bit cleared)  op (opcode NOTIFY)
//	       c1 (TCP only: the first connection carrying the request is closed without an
//	       answer, the next one is served: what a stale pooled connection looks like)
//
// "tc" and "sf" alone are the legacy spellings of "ok+tc" and "ok+sf".
func kindParts(kind string) (base string, mods []string) {
	parts := strings.Split(kind, "+")
	base, mods = parts[0], parts[1:]
	switch base {
	case "tc", "sf":
		return "ok", append([]string{base}, mods...)
	}

	return base, mods
}

func kindHas(kind, mod string) bool {
	_, mods := kindParts(kind)
	for _, m := range mods {
		if m == mod {
			return true
		}
	}

	return false
}

// kindMatches reports whether the scripted reply is one for the query asked (id,
// single question, its type and its name up to case).  This is the oracle's own
// reading of the script; it does not depend on any flag.
func kindMatches(kind string) bool {
	b, _ := kindParts(kind)

	return b == "ok" || b == "cs"
}

// kindGarbage reports whether something is received that is not a reply to the
// query asked.
func kindGarbage(kind string) bool {
	switch b, _ := kindParts(kind); b {
	case "id", "nm", "ty", "q2", "q0", "bad", "pfx":
		return true
	}

	return false
}

func kindNetErr(kind string) bool {
	b, _ := kindParts(kind)

	return b == "net" || b == "dr"
}

// kindRcodeOK: the reply, if it is one, carries NOERROR.
func kindRcodeOK(kind string) bool {
	return !kindHas(kind, "sf") && !kindHas(kind, "nx") && !kindHas(kind, "rf")
}

// buildReply returns the bytes a server sends for a wire kind (nil: nothing).
func buildReply(req *dns.Msg, kind string, tok int) []byte {
	resp := reply(req, tok)
	base, mods := kindParts(kind)
	switch base {
	case "ok":
	case "id":
		resp.Id++
	case "nm":
		resp.Question[0].Name = "zz." + strings.TrimPrefix(resp.Question[0].Name, ".")
	case "cs":
		resp.Question[0].Name = strings.ToUpper(resp.Question[0].Name)
	case "ty":
		resp.Question[0].Qtype = dns.TypeAAAA
		if req.Question[0].Qtype == dns.TypeAAAA {
			resp.Question[0].Qtype = dns.TypeA
		}
	case "q2":
		resp.Question = append(resp.Question, resp.Question[0])
	case "q0":
		resp.Question = nil
	case "bad":
		return []byte{1, 2, 3, 4, 5}
	case "pfx":
		// The first 17 bytes of a correct reply, or up to the middle of the
		// question name if that is longer: a truncated datagram.
		resp.Answer = nil
		b, _ := resp.Pack()
		cut := 17
		if l := len(req.Question[0].Name); l > 8 {
			cut = 12 + l/2
			if cut < 17 {
				cut = 17
			}
		}
		// always inside the question: for the shortest names before octet 17
		cut = min(cut, len(b)-3)
		if len(b) > cut {
			b = b[:cut]
		}

		return b
	default: // dr, net, eof
		return nil
	}
	for _, m := range mods {
		switch m {
		case "tc":
			resp.Truncated = true
		case "sf":
			resp.Rcode = dns.RcodeServerFailure
		case "nx":
			resp.Rcode = dns.RcodeNameError
		case "rf":
			resp.Rcode = dns.RcodeRefused
		case "na":
			resp.Answer = nil
		case "aa":
			resp.Authoritative = true
		case "qr":
			resp.Response = false
		case "op":
			resp.Opcode = dns.OpcodeNotify
		case "c1":
			// handled by the TCP server: the first connection is closed
		default:
			panic("c17: unknown wire modifier " + m + " in " + kind)
		}
	}
	b, err := resp.Pack()
	if err != nil {
		panic(err)
	}

	return b
}

// modelWire maps a scripted behaviour to the model's wire vocabulary: the base
// plus the modifiers the model's Msg has a field for (tc; na makes the token 0;
// sf nx rf set the RCODE, which only the health probe looks at).  AA, QR and
// opcode have no counterpart in the model, which thereby claims that they have
// no influence on what Exchange does.
func modelWire(kind string) string {
	if kindHas(kind, "c1") {
		// first attempt: EOF; second attempt on a fresh connection: the rest
		return "eof>" + modelWire(strings.Replace(kind, "+c1", "", 1))
	}
	base, mods := kindParts(kind)
	switch base {
	case "dr":
		return "net"
	case "pfx":
		return "bad"
	case "bad", "net", "eof":
		return base
	}
	out := base
	for _, m := range []string{"tc", "na", "sf", "nx", "rf"} {
		for _, x := range mods {
			if x == m {
				out += "+" + m

				break
			}
		}
	}

	return out
}

// ---------------------------------------------------------------------------
// UpstreamPlain.Exchange against one scripted server.

func plainCampaign(o *hlib.Opts, r *hlib.Result, m *hlib.Model) {
	rng := o.Rand("plain")
	srv := newServer(rng)
	defer srv.close()
	nets := []forward.Network{forward.NetworkAny, forward.NetworkUDP, forward.NetworkTCP}
	netNames := []string{"any", "udp", "tcp"}
	ups := make([]*forward.UpstreamPlain, 3)
	for i, nw := range nets {
		ups[i] = forward.NewUpstreamPlain(&forward.UpstreamPlainConfig{Network: nw, Address: srv.addr(), Timeout: upsTimeout})
	}
	defer func() {
		for _, u := range ups {
			_ = u.Close()
		}
	}()

	// Every base that is a message, with every set of header modifiers of the
	// pool: a mismatch must be rejected whatever else the reply claims about
	// itself, and a match must be accepted.
	msgBases := []string{"ok", "cs", "id", "nm", "ty", "q2", "q0"}
	modSets := []string{"", "+tc", "+sf", "+na", "+tc+na", "+tc+rf", "+nx+aa", "+qr+op", "+tc+qr"}
	var msgKinds []string
	for _, b := range msgBases {
		for _, ms := range modSets {
			msgKinds = append(msgKinds, b+ms)
		}
	}
	ukindsFull := append(append([]string{}, msgKinds...), "bad", "net", "pfx")
	tkindsFull := append(append([]string{}, msgKinds...), "bad", "net", "eof", "pfx")
	// The other transport takes a few representative behaviours.
	ukindsCore := []string{"ok", "ok+tc", "id", "id+tc", "nm+tc+na", "net", "bad"}
	tkindsCore := []string{"ok", "id", "ty+tc", "net", "eof"}
	// Random cases: plain behaviours more often than decorated ones.
	ukinds := append(append([]string{"ok", "ok", "ok", "ok", "cs", "ok+tc", "ok+tc", "id", "nm", "ty", "q2", "q0", "net", "net", "bad", "pfx"},
		ukindsFull...), ukindsCore...)
	tkinds := append(append([]string{"ok", "ok", "ok", "ok", "cs", "ok+tc", "id", "nm", "ty", "q2", "q0", "net", "net", "eof", "eof", "bad", "pfx"},
		tkindsFull...), tkindsCore...)
	names := []string{"ab.", "abcdef.example.", "x.y.z.example.org.", ".", "a."}
	n := 3200
	drops := 6
	if o.Thorough() {
		n, drops = 12000, 40
	}

	type pcase struct {
		net    int
		uk, tk string
		name   string
	}
	var cases []pcase
	// Structured part: per network mode, every UDP behaviour against the core
	// TCP ones and every TCP behaviour against the core UDP ones.
	for ni := range nets {
		for ui, uk := range ukindsFull {
			for ti, tk := range tkindsCore {
				cases = append(cases, pcase{ni, uk, tk, names[(ui+ti)%len(names)]})
			}
		}
		for ti, tk := range tkindsFull {
			for ui, uk := range ukindsCore {
				cases = append(cases, pcase{ni, uk, tk, names[(ui+ti)%len(names)]})
			}
		}
	}
	r.Count(fmt.Sprintf("plain.structured_cases=%d", len(cases)))
	for len(cases) < n {
		cases = append(cases, pcase{rng.IntN(3), ukinds[rng.IntN(len(ukinds))], tkinds[rng.IntN(len(tkinds))], names[rng.IntN(len(names))]})
	}

	type row struct {
		line, obs, sig, what string
	}
	var evalOn func(srv *server, ups []*forward.UpstreamPlain, c pcase, uk, tk string) row
	eval := func(c pcase, uk, tk string) row { return evalOn(srv, ups, c, uk, tk) }
	evalOn = func(srv *server, ups []*forward.UpstreamPlain, c pcase, uk, tk string) row {
		srv.set(uk, tk, 1, 2)
		req := &dns.Msg{}
		req.SetQuestion(c.name, dns.TypeA)
		req.Id = uint16(100 + rng.IntN(60000))
		resp, nw, err := ups[c.net].Exchange(context.Background(), req)
		var ne net.Error
		got := "other"
		if os.Getenv("C17_DEBUG") != "" && err != nil {
			fmt.Fprintf(os.Stderr, "DEBUG %s %s %s: %v\n", netNames[c.net], uk, tk, err)
		}
		switch {
		case err == nil && resp != nil:
			got = fmt.Sprintf("ok%d", respTokAny(resp))
		case err == nil:
			got = "nil"
		case errors.As(err, &ne):
			got = "net"
		case errors.Is(err, io.EOF):
			got = "eof"
		}
		rw := row{
			line: fmt.Sprintf("x %s %s %s", netNames[c.net], modelWire(uk), modelWire(tk)),
			obs: got + " tcp=" + b2s(nw == forward.NetworkTCP) +
				" probe=" + b2s(err == nil && resp != nil && resp.Rcode == dns.RcodeSuccess),
		}
		// Property oracle, clause e: an accepted reply is one that matches.  First
		// on the returned message itself, then on what the server was scripted
		// to send over the transport the reply is said to come from.
		if err == nil && resp != nil {
			used := uk
			if nw == forward.NetworkTCP {
				used = tk
			}
			fields := resp.Id == req.Id && len(resp.Question) == 1 && resp.Question[0].Qtype == dns.TypeA &&
				asciiLower(resp.Question[0].Name) == asciiLower(c.name)
			base, _ := kindParts(used)
			switch {
			case base == "pfx":
				rw.sig = "truncated-reply-completed-from-buffer-residue"
				rw.what = fmt.Sprintf("query %s A over %s: the server sent only the first bytes of a reply (cut inside the question section); "+
					"UpstreamPlain accepted it as a valid response with question %v", c.name, nw, resp.Question)
			case !fields || !kindMatches(used):
				rw.sig = "exchange-returned-mismatching-reply"
				rw.what = fmt.Sprintf("query %s A id %d to a %s upstream, server scripted udp=%q tcp=%q: Exchange returned (over %s) a reply "+
					"that does not match the query: id %d, questions %v, truncated=%v, rcode=%d",
					c.name, req.Id, netNames[c.net], uk, tk, nw, resp.Id, resp.Question, resp.Truncated, resp.Rcode)
			default:
				want := 1
				if nw == forward.NetworkTCP {
					want = 2
				}
				if kindHas(used, "na") {
					want = 0
				}
				if respTokAny(resp) != want {
					rw.sig, rw.what = "reply-from-other-transport", fmt.Sprintf("%s: accepted reply carries token %d, want %d", rw.line, respTokAny(resp), want)
				}
			}
		}
		// Sanity in the other direction: a matching reply on the transport that
		// decides is not thrown away.
		if err != nil && c.net != 2 && kindMatches(uk) && (c.net == 1 || !kindHas(uk, "tc")) {
			rw.sig, rw.what = "matching-reply-rejected", fmt.Sprintf("%s: matching UDP reply rejected: %v", rw.line, err)
		}
		if err != nil && c.net == 2 && kindMatches(tk) {
			rw.sig, rw.what = "matching-reply-rejected", fmt.Sprintf("%s: matching TCP reply rejected: %v", rw.line, err)
		}

		return rw
	}

	var lines, obs []string
	// rerun[i] evaluates the case of lines[i] once more (a disagreement must
	// reproduce: under load a live server can look like a timed-out one).
	var rerun []func() row
	for _, c := range cases {
		uk, tk := c.uk, c.tk
		// A silent drop costs a timeout: use it sparingly.
		if drops > 0 && rng.IntN(n/(drops+1)+1) == 0 {
			drops--
			switch {
			case uk == "net" || rng.IntN(3) == 0:
				uk = "dr"
			case rng.IntN(2) == 0:
				uk, tk = "ok+tc", "dr"
			default:
				uk, tk = "id+tc", "dr"
			}
		}
		rw := eval(c, uk, tk)
		if rw.sig != "" && rw.sig != "truncated-reply-completed-from-buffer-residue" {
			// confirm (jitter)
			if rw2 := eval(c, uk, tk); rw2.sig == "" {
				rw = rw2
				r.Count("plain.discarded_unreproducible")
			}
		}
		if uk == "pfx" || tk == "pfx" {
			r.Count("plain.cut_reply:" + strings.Fields(rw.obs)[0])
		}
		if kindGarbage(uk) && kindHas(uk, "tc") {
			r.Count("plain." + netNames[c.net] + ".udp_mismatch_with_tc:" + strings.TrimRight(strings.Fields(rw.obs)[0], "0123456789"))
		}
		if kindGarbage(tk) && len(tk) > 3 && c.net == 2 {
			r.Count("plain.tcp.tcp_mismatch_with_flags:" + strings.TrimRight(strings.Fields(rw.obs)[0], "0123456789"))
		}
		if rw.sig != "" {
			r.Violate(rw.sig, rw.what, map[string]any{"campaign": "plain", "net": netNames[c.net], "udp": uk, "tcp": tk, "name": c.name})
		}
		lines = append(lines, rw.line)
		obs = append(obs, rw.obs)
		{
			c, uk, tk := c, uk, tk
			rerun = append(rerun, func() row { return eval(c, uk, tk) })
		}
		r.Case(rw.line, !strings.HasPrefix(rw.obs, "ok1 "))
		r.Count("plain." + netNames[c.net] + "." + strings.TrimRight(strings.Fields(rw.obs)[0], "0123456789"))
	}
	// The retry on a fresh connection, deterministically: a server of its own that
	// never closes its sockets, so that every pooled connection is alive; "c1"
	// closes the first connection that carries the request.
	{
		srv2 := newServer(rng)
		ups2 := make([]*forward.UpstreamPlain, 3)
		for i, nw := range nets {
			ups2[i] = forward.NewUpstreamPlain(&forward.UpstreamPlainConfig{Network: nw, Address: srv2.addr(), Timeout: upsTimeout})
		}
		tks := []string{"ok", "ok+c1", "ok+c1", "cs+c1", "id+c1", "eof", "eof+c1", "ok+c1+sf", "nm+c1+tc", "ok", "ok+c1+na", "bad+c1", "q2+c1"}
		uks := []string{"bad", "id", "ok+tc", "ok", "nm+tc"}
		rounds := 3
		if o.Thorough() {
			rounds = 20
		}
		for k := 0; k < rounds*len(tks); k++ {
			tk := tks[rng.IntN(len(tks))]
			if k < len(tks) {
				tk = tks[k]
			}
			c := pcase{net: []int{2, 0}[rng.IntN(2)], name: names[rng.IntN(len(names))]}
			uk := uks[rng.IntN(len(uks))]
			rw := evalOn(srv2, ups2, c, uk, tk)
			if rw.sig != "" {
				r.Violate(rw.sig, rw.what, map[string]any{"campaign": "plain-retry", "net": netNames[c.net], "udp": uk, "tcp": tk, "name": c.name})
			}
			// The reply that arrives on the second connection must be used.
			if viaTCP := c.net == 2 || uk != "ok"; viaTCP && kindMatches(tk) && !strings.HasPrefix(rw.obs, "ok") {
				r.Violate("reply-on-fresh-connection-discarded",
					fmt.Sprintf("%s upstream, tcp scripted %q: the upstream answered on the connection opened after the first one was closed, but Exchange gave %s", netNames[c.net], tk, rw.obs),
					map[string]any{"campaign": "plain-retry", "net": netNames[c.net], "udp": uk, "tcp": tk, "name": c.name})
			}
			lines = append(lines, rw.line)
			obs = append(obs, rw.obs)
			{
				c, uk, tk := c, uk, tk
				rerun = append(rerun, func() row { return evalOn(srv2, ups2, c, uk, tk) })
			}
			r.Case("retry:"+rw.line, true)
			if kindHas(tk, "c1") {
				r.Count("plain.retry." + strings.TrimRight(strings.Fields(rw.obs)[0], "0123456789"))
			}
		}
		defer func() {
			for _, u := range ups2 {
				_ = u.Close()
			}
			srv2.close()
		}()
	}
	m.ResetLog()
	answers := m.Batch(lines)
	for i := range lines {
		if answers[i] != obs[i] {
			again := false
			for try := 0; try < 2 && !again; try++ {
				again = rerun[i]().obs == answers[i]
			}
			if again {
				r.Count("plain.discarded_unreproducible")

				continue
			}
			r.Disagree("plain", fmt.Sprintf("%q: implementation %q, model %q", lines[i], obs[i], answers[i]),
				map[string]any{"campaign": "plain", "ops": []string{lines[i]}})

			break
		}
	}
	r.Traces++
}

// respTokAny is respTok but 0 for replies without an answer (truncated ones).
func respTokAny(resp *dns.Msg) int {
	return respTok(resp)
}

// ---------------------------------------------------------------------------
// World 2: the real handler with real UpstreamPlain clients and scripted servers.

type sockWorld struct {
	h     *forward.Handler
	s     *sched
	mains []*server
	fbs   []*server

	mu     sync.Mutex
	log    []call
	init   []call
	byAddr map[string]call
}

func (w *sockWorld) add(c call) {
	w.mu.Lock()
	defer w.mu.Unlock()
	for _, x := range w.log {
		if x == c {
			return
		}
	}
	w.log = append(w.log, c)
}

// OnForwardRequest implements forward.MetricsListener: the exchanges ServeDNS performs.
func (w *sockWorld) OnForwardRequest(_ context.Context, ups forward.Upstream, _, _ *dns.Msg, _ forward.Network, _ time.Time, _ error) {
	if c, ok := w.byAddr[ups.String()]; ok {
		w.add(c)
	}
}

// OnUpstreamStatusChanged implements forward.MetricsListener.
func (w *sockWorld) OnUpstreamStatusChanged(_ forward.Upstream, _, _ bool) {}

func newSockWorld(s *sched, pool []*server) *sockWorld {
	w := &sockWorld{byAddr: map[string]call{}, s: s}
	var mc, fc []*forward.UpstreamPlainConfig
	// upsName is UpstreamPlain.String() for the configuration.
	upsName := func(nw forward.Network, a netip.AddrPort) string {
		if nw == forward.NetworkAny {
			return a.String()
		}

		return fmt.Sprintf("%s://%s", nw, a)
	}
	netw := map[string]forward.Network{"any": forward.NetworkAny, "udp": forward.NetworkUDP, "tcp": forward.NetworkTCP}
	for i := 0; i < s.NMain; i++ {
		srv := pool[i]
		idx := i
		srv.mu.Lock()
		srv.onProbe = func() { w.add(call{idx: idx, probe: true}) }
		srv.isProbe = s.isProbeQ
		srv.seen = nil
		srv.mu.Unlock()
		w.mains = append(w.mains, srv)
		nw := netw[s.netOf(false, i)]
		w.byAddr[upsName(nw, srv.addr())] = call{idx: i}
		mc = append(mc, &forward.UpstreamPlainConfig{Network: nw, Address: srv.addr(), Timeout: upsTimeout})
	}
	for i := 0; i < s.NFb; i++ {
		srv := pool[3+i]
		idx := i
		srv.mu.Lock()
		srv.onProbe = func() { w.add(call{fb: true, idx: idx, probe: true}) }
		srv.isProbe = s.isProbeQ
		srv.seen = nil
		srv.mu.Unlock()
		w.fbs = append(w.fbs, srv)
		nw := netw[s.netOf(true, i)]
		w.byAddr[upsName(nw, srv.addr())] = call{fb: true, idx: i}
		fc = append(fc, &forward.UpstreamPlainConfig{Network: nw, Address: srv.addr(), Timeout: upsTimeout})
	}
	var initDur time.Duration
	if s.Init != nil {
		// NewHandler's initial health check meets the servers behaving like s.Init.
		w.arm(s.Init, nil, 0)
		initDur = time.Minute
	}
	w.h = forward.NewHandler(&forward.HandlerConfig{
		Logger:                     discard,
		MetricsListener:            w,
		HealthcheckDomainTmpl:      s.tmpl(),
		UpstreamsAddresses:         mc,
		FallbackAddresses:          fc,
		HealthcheckBackoffDuration: time.Duration(s.Backoff) * tick,
		HealthcheckInitDuration:    initDur,
	})
	w.init = w.takeLog()

	return w
}

func (w *sockWorld) initLog() (l []call, ok bool) { return w.init, true }

func (w *sockWorld) probeTok(idx int, beh string) string {
	u, t := split(beh)

	return fmt.Sprintf("w.%s.%s.%s", w.s.netOf(false, idx), modelWire(u), modelWire(t))
}

func (w *sockWorld) handler() *forward.Handler { return w.h }
func (w *sockWorld) close()                    { _ = w.h.Close() }

func split(beh string) (u, t string) {
	u, t, _ = strings.Cut(beh, "/")

	return u, t
}

func (w *sockWorld) arm(mains, fbs []string, step int) {
	for i, b := range mains {
		u, t := split(b)
		tok := tokOf(false, i, step)
		w.mains[i].set(u, t, tok, tok)
	}
	for i, b := range fbs {
		u, t := split(b)
		tok := tokOf(true, i, step)
		w.fbs[i].set(u, t, tok, tok)
	}
}

func (w *sockWorld) takeLog() (l []call) {
	w.mu.Lock()
	defer w.mu.Unlock()
	l, w.log = w.log, nil

	return l
}

func (w *sockWorld) modelTok(fb bool, idx int, beh string, tok int) string {
	u, t := split(beh)

	return fmt.Sprintf("w.%s.%s.%s.%d", w.s.netOf(fb, idx), modelWire(u), modelWire(t), tok)
}

// flow is the oracle's reading of what an upstream configured for network nw
// and scripted with beh does to one request: "reply" (a reply matching the
// request reaches the caller; over is the scripted kind of the transport it
// came by), "net" (no transport usable: network error), "other" (only garbage
// was received) or "?" (anything the oracle prefers not to judge).  It is
// written from the documented behaviour of a plain upstream (UDP first unless
// TCP-only; TCP after a truncated UDP reply unless UDP-only; TCP after a UDP
// reply that is not one to this request), not from the model.
func flow(nw, beh string) (res, over string) {
	u, t := split(beh)
	viaTCP := func() (string, string) {
		switch {
		case kindMatches(t):
			return "reply", t
		case kindNetErr(t):
			return "net", ""
		case kindGarbage(t):
			return "other", ""
		default: // eof
			return "?", ""
		}
	}
	switch {
	case nw == "tcp":
		return viaTCP()
	case kindMatches(u) && (nw == "udp" || !kindHas(u, "tc")):
		return "reply", u
	case kindMatches(u):
		// Truncated: whatever TCP gives, except that a network error there is
		// a composite the oracle leaves alone.
		if r, o := viaTCP(); r == "reply" || r == "other" {
			return r, o
		}

		return "?", ""
	case kindNetErr(u):
		return "net", ""
	case kindGarbage(u):
		if r, o := viaTCP(); r == "other" {
			return r, o
		} else if r == "reply" {
			// A wrong UDP reply followed by a right TCP one: accepted by the
			// code as is; the property neither demands nor forbids it.
			return "?", o
		}

		return "?", ""
	default:
		return "?", ""
	}
}

func (w *sockWorld) classify(fb bool, idx int, beh string) string {
	res, _ := flow(w.s.netOf(fb, idx), beh)

	return res
}

// wantTok: a reply without answer records carries no token (0).
func (w *sockWorld) wantTok(fb bool, idx int, beh string, tok int) int {
	if _, over := flow(w.s.netOf(fb, idx), beh); kindHas(over, "na") {
		return 0
	}

	return tok
}

func (w *sockWorld) takeProbes() (l []*dns.Msg) {
	for _, srv := range w.mains {
		l = append(l, srv.takeSeen()...)
	}

	return l
}

// probeOK: the probe gets a matching NOERROR reply on the transport that
// decides.  A wrong UDP reply followed by a right TCP one counts as the code
// has it (a success); behaviours the oracle cannot judge are not in the pools.
func (w *sockWorld) probeOK(idx int, beh string) bool {
	res, over := flow(w.s.netOf(false, idx), beh)
	switch {
	case res == "reply":
		return kindRcodeOK(over)
	case res == "?" && over != "":
		return kindRcodeOK(over)
	default:
		return false
	}
}

var (
	// The first entry is the healthy behaviour, the last one is slow (a timeout).
	// Probe behaviours never close a socket ("net"): which upstreams were probed
	// is seen by the servers, and a closed socket sees nothing.
	// Mismatches come bare and decorated with the flags that steer the client
	// (tc) or that it might be tempted to trust (rcode, empty answer, aa).
	sockQ = []string{"ok/ok", "ok/net", "cs/ok", "tc/ok", "tc/tc", "net/net", "net/net", "net/ok", "tc/net", "id/ok", "id/id",
		"nm/nm", "ty/ty", "q2/q2", "q0/q0", "bad/bad", "tc/eof", "id/net", "bad/ok", "sf/sf", "pfx/pfx", "pfx/net",
		"id+tc/ok", "id+tc/net", "id+tc/id+tc", "nm+tc/nm", "ty+tc+na/ty", "q2+tc/q2+tc", "q0+tc+rf/net", "ok+tc/id", "cs+tc/cs",
		"id+sf/id+sf", "nm+na/nm+na", "id+tc+na/net", "ok+nx+aa/ok", "net/id+tc", "ok/nm+tc",
		"ok+na/ok+na", "ok+na/net", "cs+na/ok+na", "ok+na+rf/ok+na", "ok+tc+na/ok+na", "dr/ok"}
	sockFQ = []string{"ok/ok", "ok/ok", "tc/ok", "net/net", "id/id", "nm/ok", "tc/eof", "id/net",
		"id+tc/net", "nm+tc/nm+tc", "ok+tc/ok", "ty+tc/ok", "net/id+tc", "ok+na/ok+na", "dr/dr"}
	sockP = []string{"ok/ok", "ok/ok", "sf/sf", "sf/sf", "id/id", "tc/ok", "tc/sf", "id/ok", "cs/ok", "bad/bad", "tc/eof",
		"id+tc/id", "nm+tc/id", "ty+tc+na/bad", "id+tc/id+tc", "q2+tc/ok", "ok+tc/ok+sf", "ok+tc/ok", "ok+nx/ok", "ok/nm+tc",
		"ok+na/ok+na", "ok+na/ok+na", "ok+na/ok", "ok+tc+na/ok+na", "ok+na+nx/ok+na", "dr/dr"}
	sockNets = []string{"any", "any", "any", "udp", "udp", "tcp"}
)

func socketCampaign(o *hlib.Opts, r *hlib.Result, m *hlib.Model) {
	rng := o.Rand("socket")
	pool := make([]*server, 5)
	for i := range pool {
		pool[i] = newServer(rng)
	}
	defer func() {
		for _, s := range pool {
			s.close()
		}
	}()
	mk := func(s *sched) world { return newSockWorld(s, pool) }
	n := 300
	if o.Thorough() {
		n = 2000
	}
	// The slow behaviours are the last entries: thin them out.
	thin := func(pool []string) []string {
		out := append([]string{}, pool...)
		for i := 0; i < 3; i++ {
			out = append(out, pool[:len(pool)-1]...)
		}

		return out
	}
	qm, qf, pm := thin(sockQ), thin(sockFQ), thin(sockP)
	for i := 0; i < n; i++ {
		s := genSched(rng, qm, qf, pm, 3, 2, 12, false)
		// A third of the schedules keep the default network everywhere, the
		// others mix UDP-only, TCP-only and UDP-then-TCP upstreams.
		if i%3 != 0 {
			for u := 0; u < s.NMain; u++ {
				s.MainNet = append(s.MainNet, sockNets[rng.IntN(len(sockNets))])
			}
			for f := 0; f < s.NFb; f++ {
				s.FbNet = append(s.FbNet, sockNets[rng.IntN(len(sockNets))])
			}
		}
		// NewHandler's initial health check against the scripted servers, and the
		// probe domain with a random label.
		if rng.IntN(4) == 0 {
			for u := 0; u < s.NMain; u++ {
				s.Init = append(s.Init, pm[rng.IntN(len(pm))])
			}
		}
		s.RandTmpl = rng.IntN(3) == 0
		r.Count("socket.qname=" + map[bool]string{true: "root", false: "other"}[s.qname() == "."])
		r.Count("socket.tmpl=" + s.Tmpl)
		for u := 0; u < s.NMain; u++ {
			r.Count("socket.main_net=" + s.netOf(false, u))
		}
		evalSchedule(r, m, "socket", s, mk, 2)
	}
}

var _ = hlib.Must
