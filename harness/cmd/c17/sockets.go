package main

import (
	"context"
	"encoding/binary"
	"errors"
	"fmt"
	"io"
	"math/rand/v2"
	"net"
	"net/netip"
	"strings"
	"sync"
	"time"

	"github.com/AdguardTeam/AdGuardDNS/internal/dnsserver/forward"
	"github.com/AdguardTeam/AdGuardDNS/verifh/hlib"
	"github.com/miekg/dns"
)

// upsTimeout is the per-upstream timeout of the real clients.  Only the "dr"
// (silently dropped) behaviour waits for it.
const upsTimeout = 150 * time.Millisecond

// server is a scripted DNS server on one loopback port (UDP and TCP).  What it
// does with the next requests is set by set; "net" means the socket is closed.
type server struct {
	port int

	mu        sync.Mutex
	udp       *net.UDPConn
	tcp       *net.TCPListener
	conns     map[net.Conn]struct{}
	ukind     string
	tkind     string
	tokU      int
	tokT      int
	onProbe   func()
	lastSentU []byte
	wg        sync.WaitGroup
}

func newServer(rng *rand.Rand) (s *server) {
	for try := 0; try < 200; try++ {
		s = &server{port: 20000 + rng.IntN(12000), conns: map[net.Conn]struct{}{}}
		if s.openUDP() != nil {
			continue
		}
		if s.openTCP() != nil {
			s.closeUDP()

			continue
		}

		return s
	}
	panic("c17: no free loopback port")
}

func (s *server) addr() netip.AddrPort {
	return netip.AddrPortFrom(netip.AddrFrom4([4]byte{127, 0, 0, 1}), uint16(s.port))
}

func (s *server) openUDP() (err error) {
	if s.udp != nil {
		return nil
	}
	c, err := net.ListenUDP("udp4", &net.UDPAddr{IP: net.IPv4(127, 0, 0, 1), Port: s.port})
	if err != nil {
		return err
	}
	s.udp = c
	s.wg.Add(1)
	go s.serveUDP(c)

	return nil
}

func (s *server) closeUDP() {
	if s.udp != nil {
		_ = s.udp.Close()
		s.udp = nil
	}
}

func (s *server) openTCP() (err error) {
	if s.tcp != nil {
		return nil
	}
	l, err := net.ListenTCP("tcp4", &net.TCPAddr{IP: net.IPv4(127, 0, 0, 1), Port: s.port})
	if err != nil {
		return err
	}
	s.tcp = l
	s.wg.Add(1)
	go s.serveTCP(l)

	return nil
}

func (s *server) closeTCP() {
	if s.tcp != nil {
		_ = s.tcp.Close()
		s.tcp = nil
	}
	s.mu.Lock()
	for c := range s.conns {
		_ = c.Close()
	}
	s.conns = map[net.Conn]struct{}{}
	s.mu.Unlock()
}

func (s *server) close() {
	s.closeUDP()
	s.closeTCP()
	s.wg.Wait()
}

// set scripts the server.  Only the harness goroutine calls it, between ops.
func (s *server) set(ukind, tkind string, tokU, tokT int) {
	s.mu.Lock()
	s.ukind, s.tkind, s.tokU, s.tokT = ukind, tkind, tokU, tokT
	s.mu.Unlock()
	retry := func(open func() error) {
		for i := 0; ; i++ {
			if open() == nil {
				return
			} else if i > 100 {
				panic(fmt.Sprintf("c17: cannot re-open loopback port %d", s.port))
			}
			time.Sleep(2 * time.Millisecond)
		}
	}
	if ukind == "net" {
		s.closeUDP()
	} else {
		retry(s.openUDP)
	}
	if tkind == "net" {
		s.closeTCP()
	} else {
		retry(s.openTCP)
	}
}

func (s *server) serveUDP(c *net.UDPConn) {
	defer s.wg.Done()
	buf := make([]byte, 4096)
	for {
		n, from, err := c.ReadFromUDP(buf)
		if err != nil {
			return
		}
		req := &dns.Msg{}
		if req.Unpack(buf[:n]) != nil || len(req.Question) == 0 {
			continue
		}
		s.mu.Lock()
		kind, tok, onProbe := s.ukind, s.tokU, s.onProbe
		s.mu.Unlock()
		if req.Question[0].Name == probeName && onProbe != nil {
			onProbe()
		}
		if b := buildReply(req, kind, tok); b != nil {
			s.mu.Lock()
			s.lastSentU = b
			s.mu.Unlock()
			_, _ = c.WriteToUDP(b, from)
		}
	}
}

func (s *server) serveTCP(l *net.TCPListener) {
	defer s.wg.Done()
	for {
		c, err := l.Accept()
		if err != nil {
			return
		}
		s.mu.Lock()
		s.conns[c] = struct{}{}
		s.mu.Unlock()
		s.wg.Add(1)
		go func() {
			defer s.wg.Done()
			defer func() { _ = c.Close() }()
			for {
				var l uint16
				if binary.Read(c, binary.BigEndian, &l) != nil {
					return
				}
				b := make([]byte, l)
				if _, err := io.ReadFull(c, b); err != nil {
					return
				}
				req := &dns.Msg{}
				if req.Unpack(b) != nil || len(req.Question) == 0 {
					return
				}
				s.mu.Lock()
				kind, tok, onProbe := s.tkind, s.tokT, s.onProbe
				s.mu.Unlock()
				if req.Question[0].Name == probeName && onProbe != nil {
					onProbe()
				}
				if kind == "eof" {
					return
				}
				if rb := buildReply(req, kind, tok); rb != nil {
					out := make([]byte, 2+len(rb))
					binary.BigEndian.PutUint16(out, uint16(len(rb)))
					copy(out[2:], rb)
					if _, err := c.Write(out); err != nil {
						return
					}
				}
			}
		}()
	}
}

// buildReply returns the bytes a server sends for a wire kind (nil: nothing).
func buildReply(req *dns.Msg, kind string, tok int) []byte {
	resp := reply(req, tok)
	switch kind {
	case "ok":
	case "sf":
		resp.Rcode = dns.RcodeServerFailure
	case "tc":
		resp.Truncated = true
	case "id":
		resp.Id++
	case "nm":
		resp.Question[0].Name = "zz." + strings.TrimPrefix(resp.Question[0].Name, ".")
		if resp.Question[0].Name == "zz." {
			resp.Question[0].Name = "zz."
		}
	case "cs":
		resp.Question[0].Name = strings.ToUpper(resp.Question[0].Name)
	case "ty":
		resp.Question[0].Qtype = dns.TypeAAAA
	case "q2":
		resp.Question = append(resp.Question, resp.Question[0])
	case "q0":
		resp.Question = nil
	case "bad":
		return []byte{1, 2, 3, 4, 5}
	case "pfx":
		// The first 17 bytes of a correct reply, or up to the middle of the
		// question name if that is longer: a truncated datagram.
		resp.Answer = nil
		b, _ := resp.Pack()
		cut := 17
		if l := len(req.Question[0].Name); l > 8 {
			cut = 12 + l/2
			if cut < 17 {
				cut = 17
			}
		}
		if len(b) > cut {
			b = b[:cut]
		}

		return b
	default: // dr, net, eof
		return nil
	}
	b, err := resp.Pack()
	if err != nil {
		panic(err)
	}

	return b
}

// modelWire maps a scripted behaviour to the model's wire vocabulary.
func modelWire(kind string) string {
	switch kind {
	case "sf":
		return "ok"
	case "dr":
		return "net"
	case "pfx":
		return "bad"
	default:
		return kind
	}
}

// ---------------------------------------------------------------------------
// UpstreamPlain.Exchange against one scripted server.

func plainCampaign(o *hlib.Opts, r *hlib.Result, m *hlib.Model) {
	rng := o.Rand("plain")
	srv := newServer(rng)
	defer srv.close()
	nets := []forward.Network{forward.NetworkAny, forward.NetworkUDP, forward.NetworkTCP}
	netNames := []string{"any", "udp", "tcp"}
	ups := make([]*forward.UpstreamPlain, 3)
	for i, nw := range nets {
		ups[i] = forward.NewUpstreamPlain(&forward.UpstreamPlainConfig{Network: nw, Address: srv.addr(), Timeout: upsTimeout})
	}
	defer func() {
		for _, u := range ups {
			_ = u.Close()
		}
	}()

	ukinds := []string{"ok", "ok", "ok", "cs", "sf", "tc", "tc", "id", "nm", "ty", "q2", "q0", "bad", "net", "net", "pfx"}
	tkinds := []string{"ok", "ok", "ok", "cs", "sf", "tc", "id", "nm", "ty", "q2", "q0", "bad", "net", "net", "eof", "eof", "pfx"}
	names := []string{"ab.", "abcdef.example.", "x.y.z.example.org."}
	n := 700
	drops := 6
	if o.Thorough() {
		n, drops = 5000, 40
	}

	type pcase struct {
		net, uk, tk int
		name       string
	}
	var cases []pcase
	// All combinations once, then random ones.
	for ni := range nets {
		for ui := range ukinds {
			for ti := range tkinds {
				if (ui > 0 && ukinds[ui] == ukinds[ui-1]) || (ti > 0 && tkinds[ti] == tkinds[ti-1]) {
					continue
				}
				cases = append(cases, pcase{ni, ui, ti, names[(ui+ti)%len(names)]})
			}
		}
	}
	for len(cases) < n {
		cases = append(cases, pcase{rng.IntN(3), rng.IntN(len(ukinds)), rng.IntN(len(tkinds)), names[rng.IntN(len(names))]})
	}

	type row struct {
		line, obs, sig, what string
	}
	eval := func(c pcase, uk, tk string) row {
		srv.set(uk, tk, 1, 2)
		req := &dns.Msg{}
		req.SetQuestion(c.name, dns.TypeA)
		req.Id = uint16(100 + rng.IntN(60000))
		resp, nw, err := ups[c.net].Exchange(context.Background(), req)
		var ne net.Error
		got := "other"
		switch {
		case err == nil && resp != nil:
			got = fmt.Sprintf("ok%d", respTokAny(resp))
		case err == nil:
			got = "nil"
		case errors.As(err, &ne):
			got = "net"
		case errors.Is(err, io.EOF):
			got = "eof"
		}
		rw := row{
			line: fmt.Sprintf("x %s %s %s", netNames[c.net], modelWire(uk), modelWire(tk)),
			obs:  got + " tcp=" + b2s(nw == forward.NetworkTCP),
		}
		// Property oracle, clause e: an accepted reply is one that matches.
		if err == nil && resp != nil {
			used := uk
			if nw == forward.NetworkTCP {
				used = tk
			}
			switch used {
			case "ok", "cs", "sf", "tc":
				want := 1
				if nw == forward.NetworkTCP {
					want = 2
				}
				if respTokAny(resp) != want {
					rw.sig, rw.what = "reply-from-other-transport", fmt.Sprintf("%s: accepted reply carries token %d, want %d", rw.line, respTokAny(resp), want)
				}
			case "pfx":
				rw.sig = "truncated-reply-completed-from-buffer-residue"
				rw.what = fmt.Sprintf("query %s A over %s: the server sent only the first bytes of a reply (cut inside the question section); "+
					"UpstreamPlain accepted it as a valid response with question %v", c.name, nw, resp.Question)
			default:
				rw.sig = "reply-accepted-with-mismatch"
				rw.what = fmt.Sprintf("%s: a reply of kind %q was accepted: %v", rw.line, used, resp.Question)
			}
		}
		if err != nil && (c.net != 2 && (uk == "ok" || uk == "cs" || uk == "sf")) {
			rw.sig, rw.what = "matching-reply-rejected", fmt.Sprintf("%s: matching UDP reply rejected: %v", rw.line, err)
		}

		return rw
	}

	var lines, obs []string
	for _, c := range cases {
		uk, tk := ukinds[c.uk], tkinds[c.tk]
		// A silent drop costs a timeout: use it sparingly.
		if drops > 0 && rng.IntN(n/(drops+1)+1) == 0 {
			drops--
			if uk == "net" || rng.IntN(2) == 0 {
				uk = "dr"
			} else {
				uk, tk = "tc", "dr"
			}
		}
		rw := eval(c, uk, tk)
		if rw.sig != "" && rw.sig != "truncated-reply-completed-from-buffer-residue" {
			// confirm (jitter)
			if rw2 := eval(c, uk, tk); rw2.sig == "" {
				rw = rw2
				r.Count("plain.discarded_unreproducible")
			}
		}
		if uk == "pfx" || tk == "pfx" {
			r.Count("plain.cut_reply:" + strings.Fields(rw.obs)[0])
		}
		if rw.sig != "" {
			r.Violate(rw.sig, rw.what, map[string]any{"campaign": "plain", "net": netNames[c.net], "udp": uk, "tcp": tk, "name": c.name})
		}
		lines = append(lines, rw.line)
		obs = append(obs, rw.obs)
		r.Case(rw.line, !strings.HasPrefix(rw.obs, "ok1 "))
		r.Count("plain." + netNames[c.net] + "." + strings.TrimRight(strings.Fields(rw.obs)[0], "0123456789"))
	}
	m.ResetLog()
	answers := m.Batch(lines)
	for i := range lines {
		if answers[i] != obs[i] {
			r.Disagree("plain", fmt.Sprintf("%q: implementation %q, model %q", lines[i], obs[i], answers[i]),
				map[string]any{"campaign": "plain", "ops": []string{lines[i]}})

			break
		}
	}
	r.Traces++
}

// respTokAny is respTok but 0 for replies without an answer (truncated ones).
func respTokAny(resp *dns.Msg) int {
	return respTok(resp)
}

// ---------------------------------------------------------------------------
// World 2: the real handler with real UpstreamPlain clients and scripted servers.

type sockWorld struct {
	h     *forward.Handler
	mains []*server
	fbs   []*server

	mu     sync.Mutex
	log    []call
	byAddr map[string]call
}

func (w *sockWorld) add(c call) {
	w.mu.Lock()
	defer w.mu.Unlock()
	for _, x := range w.log {
		if x == c {
			return
		}
	}
	w.log = append(w.log, c)
}

// OnForwardRequest implements forward.MetricsListener: the exchanges ServeDNS performs.
func (w *sockWorld) OnForwardRequest(_ context.Context, ups forward.Upstream, _, _ *dns.Msg, _ forward.Network, _ time.Time, _ error) {
	if c, ok := w.byAddr[ups.String()]; ok {
		w.add(c)
	}
}

// OnUpstreamStatusChanged implements forward.MetricsListener.
func (w *sockWorld) OnUpstreamStatusChanged(_ forward.Upstream, _, _ bool) {}

func newSockWorld(s *sched, pool []*server) *sockWorld {
	w := &sockWorld{byAddr: map[string]call{}}
	var mc, fc []*forward.UpstreamPlainConfig
	for i := 0; i < s.NMain; i++ {
		srv := pool[i]
		idx := i
		srv.mu.Lock()
		srv.onProbe = func() { w.add(call{idx: idx, probe: true}) }
		srv.mu.Unlock()
		w.mains = append(w.mains, srv)
		w.byAddr[srv.addr().String()] = call{idx: i}
		mc = append(mc, &forward.UpstreamPlainConfig{Network: forward.NetworkAny, Address: srv.addr(), Timeout: upsTimeout})
	}
	for i := 0; i < s.NFb; i++ {
		srv := pool[3+i]
		idx := i
		srv.mu.Lock()
		srv.onProbe = func() { w.add(call{fb: true, idx: idx, probe: true}) }
		srv.mu.Unlock()
		w.fbs = append(w.fbs, srv)
		w.byAddr[srv.addr().String()] = call{fb: true, idx: i}
		fc = append(fc, &forward.UpstreamPlainConfig{Network: forward.NetworkAny, Address: srv.addr(), Timeout: upsTimeout})
	}
	w.h = forward.NewHandler(&forward.HandlerConfig{
		Logger:                     discard,
		MetricsListener:            w,
		HealthcheckDomainTmpl:      probeDomain,
		UpstreamsAddresses:         mc,
		FallbackAddresses:          fc,
		HealthcheckBackoffDuration: time.Duration(s.Backoff) * tick,
	})

	return w
}

func (w *sockWorld) handler() *forward.Handler { return w.h }
func (w *sockWorld) close()                    { _ = w.h.Close() }

func split(beh string) (u, t string) {
	u, t, _ = strings.Cut(beh, "/")

	return u, t
}

func (w *sockWorld) arm(mains, fbs []string, step int) {
	for i, b := range mains {
		u, t := split(b)
		tok := tokOf(false, i, step)
		w.mains[i].set(u, t, tok, tok)
	}
	for i, b := range fbs {
		u, t := split(b)
		tok := tokOf(true, i, step)
		w.fbs[i].set(u, t, tok, tok)
	}
}

func (w *sockWorld) takeLog() (l []call) {
	w.mu.Lock()
	defer w.mu.Unlock()
	l, w.log = w.log, nil

	return l
}

func (w *sockWorld) modelTok(beh string, tok int) string {
	u, t := split(beh)

	return fmt.Sprintf("w.any.%s.%s.%d", modelWire(u), modelWire(t), tok)
}

func (w *sockWorld) classify(beh string) string {
	switch u, t := split(beh); {
	case u == "ok" || u == "cs" || u == "sf":
		return "reply"
	case u == "tc" && (t == "ok" || t == "cs" || t == "tc"):
		return "reply"
	case u == "net" || u == "dr":
		return "net"
	case u == t && (u == "id" || u == "nm" || u == "ty" || u == "q2" || u == "q0" || u == "bad" || u == "pfx"):
		return "other"
	default:
		return "?"
	}
}

func (w *sockWorld) probeOK(beh string) bool {
	switch beh {
	case "ok/ok", "cs/ok", "tc/ok", "id/ok", "ok/net":
		return true
	default:
		return false
	}
}

var (
	sockQ = []string{"ok/ok", "ok/net", "cs/ok", "tc/ok", "tc/tc", "net/net", "net/net", "net/ok", "tc/net", "id/ok", "id/id",
		"nm/nm", "ty/ty", "q2/q2", "q0/q0", "bad/bad", "tc/eof", "id/net", "bad/ok", "sf/sf", "pfx/pfx", "pfx/net", "dr/ok"}
	sockFQ = []string{"ok/ok", "ok/ok", "tc/ok", "net/net", "id/id", "nm/ok", "tc/eof", "id/net", "dr/dr"}
	sockP  = []string{"ok/ok", "ok/ok", "sf/sf", "sf/sf", "id/id", "tc/ok", "tc/sf", "id/ok", "cs/ok", "bad/bad", "tc/eof", "dr/dr"}
)

func socketCampaign(o *hlib.Opts, r *hlib.Result, m *hlib.Model) {
	rng := o.Rand("socket")
	pool := make([]*server, 5)
	for i := range pool {
		pool[i] = newServer(rng)
	}
	defer func() {
		for _, s := range pool {
			s.close()
		}
	}()
	mk := func(s *sched) world { return newSockWorld(s, pool) }
	n := 160
	if o.Thorough() {
		n = 1200
	}
	// The slow behaviours are the last entries: thin them out.
	thin := func(pool []string) []string {
		out := append([]string{}, pool...)
		for i := 0; i < 3; i++ {
			out = append(out, pool[:len(pool)-1]...)
		}

		return out
	}
	qm, qf, pm := thin(sockQ), thin(sockFQ), thin(sockP)
	for i := 0; i < n; i++ {
		s := genSched(rng, qm, qf, pm, 3, 2, 12)
		evalSchedule(r, m, "socket", s, mk, 2)
	}
}

var _ = hlib.Must
