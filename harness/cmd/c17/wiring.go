package main

import (
	"context"
	"fmt"
	"math/rand/v2"
	"net"
	"net/netip"
	"strings"
	"time"

	"github.com/AdguardTeam/AdGuardDNS/internal/cmd"
	"github.com/AdguardTeam/AdGuardDNS/internal/dnsserver"
	"github.com/AdguardTeam/AdGuardDNS/internal/dnsserver/forward"
	"github.com/AdguardTeam/AdGuardDNS/verifh/hlib"
	"github.com/miekg/dns"
	"github.com/prometheus/client_golang/prometheus"
)

// Campaign "wiring": the forwarding handler as the program builds it.  The
// `upstream` section of a configuration file goes through the unchanged
// validation, conversion (upstreamConfig.toInternal), forward.NewHandler and
// newUpstreamHealthcheck (hooks VerifC17… in internal/cmd).
//
//   - conversion: random sections with pairwise distinct durations in mixed
//     units; the oracle compares every field of the forward.HandlerConfig with
//     the values the generator wrote (its own unit table, no parsing);
//   - live: the built handler and its health-check worker against scripted
//     loopback servers: a main upstream that never answers in front of a healthy
//     one (server timeouts longer than the health-check timeout, as in
//     config.dist.yaml), recovery through the worker, health check disabled.

type durSpec struct {
	val  int
	unit string
}

var unitDur = map[string]time.Duration{"ms": time.Millisecond, "s": time.Second, "m": time.Minute, "h": time.Hour}

func (d durSpec) String() string      { return fmt.Sprintf("%d%s", d.val, d.unit) }
func (d durSpec) dur() time.Duration  { return time.Duration(d.val) * unitDur[d.unit] }
func (d durSpec) positive() bool      { return d.val > 0 }
func yamlQuote(s string) (q string)   { return "'" + strings.ReplaceAll(s, "'", "''") + "'" }
func (s wireSrv) address() (a string) { return s.scheme + s.host + ":" + fmt.Sprint(s.port) }
func (s wireSrv) valid() (ok bool)    { return s.timeout.positive() && !s.badAddr }
func (s wireSrv) network() (n string) { return strings.TrimSuffix(s.scheme, "://") }
func (s wireSrv) addrPort() (a netip.AddrPort) {
	return netip.AddrPortFrom(netip.MustParseAddr(strings.Trim(s.host, "[]")), uint16(s.port))
}

type wireSrv struct {
	scheme  string // "", "udp://", "tcp://" (or an unsupported one)
	host    string
	port    int
	timeout durSpec
	badAddr bool
}

type wireConf struct {
	servers, fallbacks []wireSrv
	noFallbackSection  bool
	enabled            bool
	interval, timeout  durSpec
	backoff            durSpec
	tmpl               string
}

func (c *wireConf) yaml() string {
	var b strings.Builder
	b.WriteString("upstream:\n    servers:\n")
	srv := func(indent string, l []wireSrv) {
		for _, s := range l {
			fmt.Fprintf(&b, "%s- address: %s\n%s  timeout: %s\n", indent, yamlQuote(s.address()), indent, s.timeout)
		}
	}
	if len(c.servers) == 0 {
		b.WriteString("      []\n")
	}
	srv("      ", c.servers)
	if !c.noFallbackSection {
		b.WriteString("    fallback:\n        servers:\n")
		if len(c.fallbacks) == 0 {
			b.WriteString("          []\n")
		}
		srv("          ", c.fallbacks)
	}
	fmt.Fprintf(&b, "    healthcheck:\n        enabled: %v\n        interval: %s\n        timeout: %s\n"+
		"        backoff_duration: %s\n        domain_template: %s\n",
		c.enabled, c.interval, c.timeout, c.backoff, yamlQuote(c.tmpl))

	return b.String()
}

// valid is the generator's own account of what the start-up accepts.
func (c *wireConf) valid() bool {
	if len(c.servers) == 0 || c.noFallbackSection || len(c.fallbacks) == 0 {
		return false
	}
	for _, s := range append(append([]wireSrv{}, c.servers...), c.fallbacks...) {
		if !s.valid() {
			return false
		}
	}
	if !c.enabled {
		return true
	}

	return c.tmpl != "" && c.interval.positive() && c.timeout.positive() && c.backoff.positive()
}

func genWireConf(rng *rand.Rand) *wireConf {
	// Pairwise distinct durations, so that an option routed to the wrong field
	// cannot go unnoticed.
	used := map[time.Duration]bool{}
	units := []string{"ms", "s", "m", "h"}
	newDur := func() durSpec {
		for {
			d := durSpec{val: 1 + rng.IntN(999), unit: units[rng.IntN(len(units))]}
			if !used[d.dur()] {
				used[d.dur()] = true

				return d
			}
		}
	}
	bad := rng.IntN(3) == 0
	hosts := []string{"127.0.0.1", "127.0.0.2", "10.1.2.3", "[::1]", "[2001:db8::53]"}
	schemes := []string{"", "", "udp://", "tcp://"}
	port := 1024 + rng.IntN(60000)
	newSrv := func() wireSrv {
		port++
		s := wireSrv{scheme: schemes[rng.IntN(len(schemes))], host: hosts[rng.IntN(len(hosts))], port: port, timeout: newDur()}
		if bad && rng.IntN(6) == 0 {
			switch rng.IntN(4) {
			case 0:
				s.timeout = durSpec{0, "s"}
			case 1:
				s.timeout.val = -s.timeout.val
			case 2:
				s.scheme, s.badAddr = "tls://", true
			case 3:
				s.host, s.badAddr = "localhost", true
			}
		}

		return s
	}
	c := &wireConf{enabled: rng.IntN(4) != 0, interval: newDur(), timeout: newDur(), backoff: newDur(),
		tmpl: []string{"${RANDOM}.neverssl.com", "probe.example", "${RANDOM}", "a.${RANDOM}.b."}[rng.IntN(4)]}
	for i := 1 + rng.IntN(3); i > 0; i-- {
		c.servers = append(c.servers, newSrv())
	}
	for i := 1 + rng.IntN(2); i > 0; i-- {
		c.fallbacks = append(c.fallbacks, newSrv())
	}
	if bad {
		switch rng.IntN(9) {
		case 0:
			c.servers = nil
		case 1:
			c.fallbacks = nil
		case 2:
			c.noFallbackSection = true
		case 3:
			c.interval = durSpec{0, "s"}
		case 4:
			c.timeout = durSpec{0, "ms"}
		case 5:
			c.backoff = durSpec{0, "s"}
		case 6:
			c.backoff.val = -c.backoff.val
		case 7:
			c.tmpl = ""
		}
	}

	return c
}

type nopErrColl struct{}

func (nopErrColl) Collect(_ context.Context, _ error) {}

func wiringCampaign(o *hlib.Opts, r *hlib.Result) {
	rng := o.Rand("wiring")
	n := 400
	if o.Thorough() {
		n = 4000
	}
	for i := 0; i < n; i++ {
		c := genWireConf(rng)
		wiringConvert(r, c)
	}
	lives := 1
	if o.Thorough() {
		lives = 4
	}
	for i := 0; i < lives; i++ {
		for _, layout := range []string{"starve", "disabled"} {
			// A finding of a live case must reproduce: the servers answer within
			// microseconds, but the machine is shared.
			v := wiringLive(rng, layout, i)
			if v != nil {
				if v2 := wiringLive(rng, layout, i); v2 != nil && v2.sig == v.sig {
					r.Violate(v.sig, v.what, map[string]any{"campaign": "wiring", "layout": layout, "variant": i})
				} else {
					r.Count("wiring.discarded_unreproducible")
				}
			}
			r.Case(fmt.Sprintf("wiring/live/%s/%d", layout, i), true)
		}
	}
}

func wiringConvert(r *hlib.Result, c *wireConf) {
	text := c.yaml()
	r.Evaluations++
	v, err := cmd.VerifC17ParseUpstream([]byte(text))
	if err != nil {
		r.Violate("wiring-config-not-parsed", fmt.Sprintf("upstream section does not parse: %v", err), map[string]any{"yaml": text})

		return
	}
	var verr error
	func() {
		defer func() {
			if p := recover(); p != nil {
				verr = fmt.Errorf("panic: %v", p)
				r.Violate("wiring-validation-panicked", fmt.Sprintf("validate panicked: %v", p), map[string]any{"yaml": text})
			}
		}()
		verr = v.VerifC17Validate()
	}()
	r.Count(fmt.Sprintf("wiring.valid=%v.accepted=%v", c.valid(), verr == nil))
	r.Case("wiring/"+text, !c.valid())
	if c.valid() && verr != nil {
		r.Violate("wiring-valid-upstream-config-rejected", fmt.Sprintf("a well-formed upstream section is rejected: %v", verr), map[string]any{"yaml": text})

		return
	}
	if !c.valid() && verr == nil {
		// What the handler would be built from makes the property's notions
		// meaningless (a non-positive backoff or timeout, no fallback, …).
		r.Violate("wiring-invalid-upstream-config-accepted", "an upstream section with a missing or non-positive value is accepted", map[string]any{"yaml": text})

		return
	}
	if verr != nil {
		return
	}
	// NewForwardMetricsListener registers its collectors on every call.
	prometheus.DefaultRegisterer = prometheus.NewRegistry()
	hc := v.VerifC17HandlerConfig(discard)
	var diffs []string
	cmpList := func(what string, want []wireSrv, got []*forward.UpstreamPlainConfig) {
		if len(want) != len(got) {
			diffs = append(diffs, fmt.Sprintf("%s: %d configured, %d converted", what, len(want), len(got)))

			return
		}
		for i, w := range want {
			g := got[i]
			if string(g.Network) != w.network() || g.Address != w.addrPort() || g.Timeout != w.timeout.dur() {
				diffs = append(diffs, fmt.Sprintf("%s[%d]: configured %s timeout %s, converted network %q address %s timeout %s",
					what, i, w.address(), w.timeout.dur(), g.Network, g.Address, g.Timeout))
			}
		}
	}
	cmpList("servers", c.servers, hc.UpstreamsAddresses)
	cmpList("fallback.servers", c.fallbacks, hc.FallbackAddresses)
	if hc.HealthcheckDomainTmpl != c.tmpl {
		diffs = append(diffs, fmt.Sprintf("domain_template %q became %q", c.tmpl, hc.HealthcheckDomainTmpl))
	}
	if hc.HealthcheckBackoffDuration != c.backoff.dur() {
		diffs = append(diffs, fmt.Sprintf("backoff_duration %s became %s", c.backoff.dur(), hc.HealthcheckBackoffDuration))
	}
	wantInit := time.Duration(0)
	if c.enabled {
		wantInit = c.timeout.dur()
	}
	if hc.HealthcheckInitDuration != wantInit {
		diffs = append(diffs, fmt.Sprintf("enabled=%v timeout %s: initial health check duration %s", c.enabled, c.timeout.dur(), hc.HealthcheckInitDuration))
	}
	if len(diffs) > 0 {
		r.Violate("wiring-option-lost-or-misrouted", strings.Join(diffs, "; "), map[string]any{"yaml": text})
	}
}

// wiringLive builds handler and health-check worker from YAML and runs them
// against scripted loopback servers.  It returns the first finding.
func wiringLive(rng *rand.Rand, layout string, variant int) (f *finding) {
	violate := func(sig, format string, args ...any) {
		if f == nil {
			f = &finding{sig: sig, what: "wiring/" + layout + ": " + fmt.Sprintf(format, args...)}
		}
	}
	srvs := []*server{newServer(rng), newServer(rng), newServer(rng)}
	defer func() {
		for _, s := range srvs {
			s.close()
		}
	}()
	m0, m1, fb := srvs[0], srvs[1], srvs[2]
	// Tokens of the answers: 1 and 2 for the mains, 101 for the fallback.
	m1.set("ok", "ok", 2, 2)
	fb.set("ok", "ok", 101, 101)
	schemes := [][2]string{{"udp://", ""}, {"", "tcp://"}, {"tcp://", "udp://"}, {"", ""}}[variant%4]
	c := &wireConf{
		servers: []wireSrv{
			{scheme: schemes[0], host: "127.0.0.1", port: m0.port, timeout: durSpec{2, "s"}},
			{scheme: schemes[1], host: "127.0.0.1", port: m1.port, timeout: durSpec{2, "s"}},
		},
		fallbacks: []wireSrv{{host: "127.0.0.1", port: fb.port, timeout: durSpec{1, "s"}}},
		enabled:   layout != "disabled",
		interval:  durSpec{60, "ms"}, timeout: durSpec{250, "ms"}, backoff: durSpec{300, "ms"},
		tmpl: "${RANDOM}." + probeDomain,
	}
	switch layout {
	case "starve":
		// Main 0 is there but never answers; as in config.dist.yaml the server
		// timeouts (2 s) are longer than the health-check timeout.
		m0.set("dr", "dr", 1, 1)
	case "disabled":
		// Main 0 refuses connections.
		m0.set("net", "net", 1, 1)
	}
	v, err := cmd.VerifC17ParseUpstream([]byte(c.yaml()))
	if err == nil {
		err = v.VerifC17Validate()
	}
	if err != nil {
		violate("wiring-valid-upstream-config-rejected", "%v\n%s", err, c.yaml())

		return f
	}
	prometheus.DefaultRegisterer = prometheus.NewRegistry()
	h := v.VerifC17NewHandler(discard)
	defer func() { _ = h.Close() }()
	svc := v.VerifC17Healthcheck(discard, h, nopErrColl{})

	inRotation := func(u int) bool {
		act, _, _ := forward.VerifC17State(h)

		return containsInt(act, u)
	}
	probesSeen := func(s *server) int {
		s.mu.Lock()
		defer s.mu.Unlock()

		return len(s.seen)
	}
	waitFor := func(d time.Duration, cond func() bool) bool {
		for end := time.Now().Add(d); time.Now().Before(end); time.Sleep(5 * time.Millisecond) {
			if cond() {
				return true
			}
		}

		return cond()
	}
	query := func(i int) (tok int) {
		req := &dns.Msg{}
		req.SetQuestion(queryName, dns.TypeA)
		req.Id = uint16(5000 + i)
		rw := dnsserver.NewNonWriterResponseWriter(&net.UDPAddr{IP: net.IPv4(127, 0, 0, 1), Port: 1},
			&net.UDPAddr{IP: net.IPv4(127, 0, 0, 1), Port: 2})
		ctx, cancel := context.WithTimeout(context.Background(), 3*time.Second)
		defer cancel()
		if qerr := h.ServeDNS(ctx, rw, req); qerr != nil || rw.Msg() == nil {
			return -1
		}

		return respTok(rw.Msg())
	}

	switch layout {
	case "starve":
		// NewHandler's initial check (healthcheck.timeout = 250 ms for the whole
		// round): main 0 never answers; main 1 answers whatever it is asked.
		if !inRotation(1) {
			violate("main-dropped-without-probe",
				"after NewHandler built from the configuration: main 1 answers every probe it gets (it got %d) but is out of rotation "+
					"because main 0 in front of it does not answer", probesSeen(m1))
		}
		if serr := svc.Start(context.Background()); serr != nil {
			violate("wiring-healthcheck-worker-not-started", "%v", serr)

			return f
		}
		defer func() {
			ctx, cancel := context.WithTimeout(context.Background(), 2*time.Second)
			_ = svc.Shutdown(ctx)
			cancel()
		}()
		// The worker probes at healthcheck.interval: main 1 sees probes.
		if !waitFor(5*time.Second, func() bool { return probesSeen(m1) >= 2 }) {
			violate("wiring-healthcheck-worker-idle", "health check enabled with interval 60ms, but main 1 saw %d probes in 5 s", probesSeen(m1))
		}
		if !waitFor(2*time.Second, func() bool { return inRotation(1) && !inRotation(0) }) {
			act, _, _ := forward.VerifC17State(h)
			if !inRotation(1) {
				violate("main-dropped-without-probe", "with the health-check worker running: main 1 answered all of its %d probes but the active list is %v", probesSeen(m1), act)
			} else {
				violate("failed-main-in-rotation", "main 0 never answers a probe (it got %d) but the active list is %v", probesSeen(m0), act)
			}
		}
		// Traffic stays on the healthy main upstream.
		for i := 0; i < 12 && f == nil; i++ {
			if tok := query(i); tok != 2 && inRotation(1) && !inRotation(0) {
				violate("fallback-while-main-healthy", "query %d was answered with token %d, main 1 (token 2) is healthy and in rotation", i, tok)
			}
		}
		// Main 0 comes back: after the backoff (300 ms) a probe reinstates it.
		m0.set("ok", "ok", 1, 1)
		if !waitFor(5*time.Second, func() bool { return inRotation(0) }) {
			violate("recovered-main-not-back", "main 0 has been answering for 5 s (backoff 300ms, interval 60ms, %d probes seen) but is not back in rotation", probesSeen(m0))
		}
		seen := map[int]bool{}
		for i := 0; i < 60 && f == nil; i++ {
			seen[query(100+i)] = true
		}
		if f == nil && (!seen[1] || !seen[2] || seen[101] || seen[-1]) {
			violate("active-upstream-never-chosen", "both mains are back in rotation, 60 queries were answered by %v (tokens: main0=1, main1=2, fallback=101)", seen)
		}
	case "disabled":
		if n := probesSeen(m0) + probesSeen(m1); n > 0 {
			violate("probe-although-healthcheck-disabled", "healthcheck.enabled is false but NewHandler sent %d probes", n)
		}
		if serr := svc.Start(context.Background()); serr != nil {
			violate("wiring-healthcheck-worker-not-started", "%v", serr)

			return f
		}
		defer func() {
			ctx, cancel := context.WithTimeout(context.Background(), 2*time.Second)
			_ = svc.Shutdown(ctx)
			cancel()
		}()
		// Both mains stay in rotation; a query that meets the dead one is
		// answered by the fallback, the others by main 1.
		seen := map[int]bool{}
		for i := 0; i < 40; i++ {
			seen[query(i)] = true
		}
		time.Sleep(150 * time.Millisecond)
		if n := probesSeen(m0) + probesSeen(m1); n > 0 {
			violate("probe-although-healthcheck-disabled", "healthcheck.enabled is false but %d probes arrived", n)
		}
		if !inRotation(0) || !inRotation(1) {
			act, _, _ := forward.VerifC17State(h)
			violate("main-out-of-rotation-without-healthcheck", "health check disabled, active list %v", act)
		}
		if seen[-1] || seen[1] || !seen[2] || !seen[101] {
			violate("no-fallback-on-network-error", "main 0 refuses connections, main 1 and the fallback answer; 40 queries were answered by %v "+
				"(tokens: main1=2, fallback=101, -1 = SERVFAIL)", seen)
		}
	}

	return f
}
