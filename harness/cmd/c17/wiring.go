package main

import (
	"context"
	"fmt"
	"math/rand/v2"
	"net"
	"net/netip"
	"strings"
	"time"

	"github.com/AdguardTeam/AdGuardDNS/internal/agdservice"
	"github.com/AdguardTeam/AdGuardDNS/internal/cmd"
	"github.com/AdguardTeam/AdGuardDNS/internal/dnsserver"
	"github.com/AdguardTeam/AdGuardDNS/internal/dnsserver/forward"
	"github.com/AdguardTeam/AdGuardDNS/verifh/hlib"
	"github.com/miekg/dns"
	"github.com/prometheus/client_golang/prometheus"
)

// Campaign "wiring": the forwarding handler as the program builds it.  The
// `upstream` section of a configuration file goes through the unchanged
// validation, conversion (upstreamConfig.toInternal), forward.NewHandler and
// newUpstreamHealthcheck (hooks VerifC17… in internal/cmd).
//
//   - conversion: random sections with pairwise distinct durations in mixed
//     units; the oracle compares every field of the forward.HandlerConfig with
//     the values the generator wrote (its own unit table, no parsing);
//   - live: the built handler and its health-check worker against scripted
//     loopback servers: a main upstream that never answers in front of a healthy
//     one (server timeouts longer than the health-check timeout, as in
//     config.dist.yaml), recovery through the worker, health check disabled.

type durSpec struct {
	val  int
	unit string
}

var unitDur = map[string]time.Duration{"ms": time.Millisecond, "s": time.Second, "m": time.Minute, "h": time.Hour}

func (d durSpec) String() string      { return fmt.Sprintf("%d%s", d.val, d.unit) }
func (d durSpec) dur() time.Duration  { return time.Duration(d.val) * unitDur[d.unit] }
func (d durSpec) positive() bool      { return d.val > 0 }
func yamlQuote(s string) (q string)   { return "'" + strings.ReplaceAll(s, "'", "''") + "'" }
func (s wireSrv) address() (a string) { return s.scheme + s.host + ":" + fmt.Sprint(s.port) }
func (s wireSrv) valid() (ok bool)    { return s.timeout.positive() && !s.badAddr }
func (s wireSrv) network() (n string) { return strings.TrimSuffix(s.scheme, "://") }
func (s wireSrv) addrPort() (a netip.AddrPort) {
	return netip.AddrPortFrom(netip.MustParseAddr(strings.Trim(s.host, "[]")), uint16(s.port))
}

type wireSrv struct {
	scheme  string // "", "udp://", "tcp://" (or an unsupported one)
	host    string
	port    int
	timeout durSpec
	badAddr bool
}

type wireConf struct {
	servers, fallbacks []wireSrv
	noFallbackSection  bool
	enabled            bool
	interval, timeout  durSpec
	backoff            durSpec
	tmpl               string
	// tmplBad: by the generator's own count of octets the probe name made from
	// tmpl does not fit the wire format (a label of 0 or more than 63 octets, a
	// name of more than 255) for the longest random part (16 hex digits).
	tmplBad bool
}

// genTmpl builds a health-check domain template label by label out of literal
// pieces and ${RANDOM} placeholders, aiming at the limits of the wire format:
// labels of 62 / 63 / 64 octets once the placeholder has its longest value,
// names of 253 … 257 octets, an empty label.  bad is the generator's own count.
func genTmpl(rng *rand.Rand) (tmpl string, bad bool) {
	const alphabet = "abcdefghijklmnopqrstuvwxyz0123456789-"
	lit := func(n int) string {
		b := make([]byte, n)
		for i := range b {
			b[i] = alphabet[rng.IntN(len(alphabet))]
		}

		return string(b)
	}
	// label returns a label that is n octets long after expansion, with k placeholders.
	label := func(n, k int) string {
		for 16*k > n {
			k--
		}
		parts := []string{}
		rest := n - 16*k
		for i := 0; i < k; i++ {
			cut := 0
			if rest > 0 {
				cut = rng.IntN(rest + 1)
			}
			parts = append(parts, lit(cut), "${RANDOM}")
			rest -= cut
		}

		return strings.Join(parts, "") + lit(rest)
	}
	var labels []string
	var lens []int
	add := func(n, k int) {
		labels = append(labels, label(n, k))
		lens = append(lens, n)
	}
	switch rng.IntN(8) {
	case 0: // one label at the limit
		add([]int{62, 63, 64, 65}[rng.IntN(4)], rng.IntN(5))
		add(3, 0)
	case 1: // placeholders only
		add(16*(1+rng.IntN(4)), 4)
		add(7, 0)
		add(3, 0)
	case 2: // an empty label in the middle
		add(1+rng.IntN(20), rng.IntN(2))
		add(0, 0)
		add(3, 0)
	case 3: // a name at the limit: wire length = sum(len+1) + 1
		want := 253 + rng.IntN(5)
		add(63, rng.IntN(4))
		add(63, rng.IntN(4))
		add(63, rng.IntN(4))
		add(want-1-3*64-1, rng.IntN(3))
	default:
		for i := 1 + rng.IntN(4); i > 0; i-- {
			add(1+rng.IntN(40), rng.IntN(3))
		}
	}
	wire := 1
	for _, n := range lens {
		wire += n + 1
		bad = bad || n == 0 || n > 63
	}
	bad = bad || wire > 255
	tmpl = strings.Join(labels, ".")
	if rng.IntN(2) == 0 {
		tmpl += "."
	}

	return tmpl, bad
}

func (c *wireConf) yaml() string {
	var b strings.Builder
	b.WriteString("upstream:\n    servers:\n")
	srv := func(indent string, l []wireSrv) {
		for _, s := range l {
			fmt.Fprintf(&b, "%s- address: %s\n%s  timeout: %s\n", indent, yamlQuote(s.address()), indent, s.timeout)
		}
	}
	if len(c.servers) == 0 {
		b.WriteString("      []\n")
	}
	srv("      ", c.servers)
	if !c.noFallbackSection {
		b.WriteString("    fallback:\n        servers:\n")
		if len(c.fallbacks) == 0 {
			b.WriteString("          []\n")
		}
		srv("          ", c.fallbacks)
	}
	fmt.Fprintf(&b, "    healthcheck:\n        enabled: %v\n        interval: %s\n        timeout: %s\n"+
		"        backoff_duration: %s\n        domain_template: %s\n",
		c.enabled, c.interval, c.timeout, c.backoff, yamlQuote(c.tmpl))

	return b.String()
}

// valid is the generator's own account of what the start-up accepts.
func (c *wireConf) valid() bool {
	if len(c.servers) == 0 || c.noFallbackSection || len(c.fallbacks) == 0 {
		return false
	}
	for _, s := range append(append([]wireSrv{}, c.servers...), c.fallbacks...) {
		if !s.valid() {
			return false
		}
	}
	if !c.enabled {
		return true
	}

	return c.tmpl != "" && !c.tmplBad && c.interval.positive() && c.timeout.positive() && c.backoff.positive()
}

func genWireConf(rng *rand.Rand) *wireConf {
	// Pairwise distinct durations, so that an option routed to the wrong field
	// cannot go unnoticed.
	used := map[time.Duration]bool{}
	units := []string{"ms", "s", "m", "h"}
	newDur := func() durSpec {
		for {
			d := durSpec{val: 1 + rng.IntN(999), unit: units[rng.IntN(len(units))]}
			if !used[d.dur()] {
				used[d.dur()] = true

				return d
			}
		}
	}
	bad := rng.IntN(3) == 0
	hosts := []string{"127.0.0.1", "127.0.0.2", "10.1.2.3", "[::1]", "[2001:db8::53]"}
	schemes := []string{"", "", "udp://", "tcp://"}
	port := 1024 + rng.IntN(60000)
	newSrv := func() wireSrv {
		port++
		s := wireSrv{scheme: schemes[rng.IntN(len(schemes))], host: hosts[rng.IntN(len(hosts))], port: port, timeout: newDur()}
		if bad && rng.IntN(6) == 0 {
			switch rng.IntN(4) {
			case 0:
				s.timeout = durSpec{0, "s"}
			case 1:
				s.timeout.val = -s.timeout.val
			case 2:
				s.scheme, s.badAddr = "tls://", true
			case 3:
				s.host, s.badAddr = "localhost", true
			}
		}

		return s
	}
	c := &wireConf{enabled: rng.IntN(4) != 0, interval: newDur(), timeout: newDur(), backoff: newDur(),
		tmpl: []string{"${RANDOM}.neverssl.com", "probe.example", "${RANDOM}", "a.${RANDOM}.b."}[rng.IntN(4)]}
	if rng.IntN(3) == 0 {
		c.tmpl, c.tmplBad = genTmpl(rng)
	}
	for i := 1 + rng.IntN(3); i > 0; i-- {
		c.servers = append(c.servers, newSrv())
	}
	for i := 1 + rng.IntN(2); i > 0; i-- {
		c.fallbacks = append(c.fallbacks, newSrv())
	}
	if bad {
		switch rng.IntN(9) {
		case 0:
			c.servers = nil
		case 1:
			c.fallbacks = nil
		case 2:
			c.noFallbackSection = true
		case 3:
			c.interval = durSpec{0, "s"}
		case 4:
			c.timeout = durSpec{0, "ms"}
		case 5:
			c.backoff = durSpec{0, "s"}
		case 6:
			c.backoff.val = -c.backoff.val
		case 7:
			c.tmpl = ""
		}
	}

	return c
}

type nopErrColl struct{}

func (nopErrColl) Collect(_ context.Context, _ error) {}

// tmplSpec writes a template made of plain labels and placeholders in the
// vocabulary of driver op tv: labels separated by '.', pieces by ',', a piece
// is R or the length of a literal.
func tmplSpec(tmpl string) string {
	var labels []string
	for _, l := range strings.Split(strings.TrimSuffix(tmpl, "."), ".") {
		var pieces []string
		for i, lit := range strings.Split(l, "${RANDOM}") {
			if i > 0 {
				pieces = append(pieces, "R")
			}
			if lit != "" {
				pieces = append(pieces, fmt.Sprint(len(lit)))
			}
		}
		labels = append(labels, strings.Join(pieces, ","))
	}

	return strings.Join(labels, ".")
}

// wiringTemplates: the start-up verdict on generated templates (everything else
// in the section well formed) against the model's tmplAccepted.
func wiringTemplates(o *hlib.Opts, r *hlib.Result, m *hlib.Model, rng *rand.Rand) {
	n := 300
	if o.Thorough() {
		n = 3000
	}
	var lines, obs, texts []string
	for i := 0; i < n; i++ {
		c := &wireConf{
			servers:   []wireSrv{{host: "127.0.0.1", port: 5300, timeout: durSpec{2, "s"}}},
			fallbacks: []wireSrv{{host: "127.0.0.1", port: 5301, timeout: durSpec{1, "s"}}},
			enabled:   true, interval: durSpec{2, "s"}, timeout: durSpec{1, "s"}, backoff: durSpec{30, "s"},
		}
		c.tmpl, c.tmplBad = genTmpl(rng)
		v, err := cmd.VerifC17ParseUpstream([]byte(c.yaml()))
		if err != nil {
			continue
		}
		lines = append(lines, "tv "+tmplSpec(c.tmpl))
		obs = append(obs, b2s(v.VerifC17Validate() == nil))
		texts = append(texts, c.tmpl)
	}
	answers := m.Batch(lines)
	r.Evaluations += len(lines)
	for i := range lines {
		if !strings.HasPrefix(answers[i], obs[i]+" ") {
			r.Disagree("wiring-template", fmt.Sprintf("domain_template %q (%s): start-up check accepted=%s, model %q", texts[i], lines[i], obs[i], answers[i]),
				map[string]any{"campaign": "wiring", "ops": []string{lines[i]}, "template": texts[i]})

			break
		}
	}
}

func wiringCampaign(o *hlib.Opts, r *hlib.Result, m *hlib.Model) {
	rng := o.Rand("wiring")
	wiringTemplates(o, r, m, o.Rand("wiring-templates"))
	n := 400
	if o.Thorough() {
		n = 4000
	}
	for i := 0; i < n; i++ {
		c := genWireConf(rng)
		wiringConvert(r, c)
	}
	lives := 1
	if o.Thorough() {
		lives = 4
	}
	for i := 0; i < lives; i++ {
		for _, layout := range []string{"starve", "disabled", "slow", "tmpl"} {
			// A finding of a live case must reproduce: the servers answer within
			// microseconds, but the machine is shared.
			v := wiringLive(rng, layout, i)
			if v != nil {
				if v2 := wiringLive(rng, layout, i); v2 != nil && v2.sig == v.sig {
					r.Violate(v.sig, v.what, map[string]any{"campaign": "wiring", "layout": layout, "variant": i})
				} else {
					r.Count("wiring.discarded_unreproducible")
				}
			}
			r.Case(fmt.Sprintf("wiring/live/%s/%d", layout, i), true)
		}
	}
}

func wiringConvert(r *hlib.Result, c *wireConf) {
	text := c.yaml()
	r.Evaluations++
	v, err := cmd.VerifC17ParseUpstream([]byte(text))
	if err != nil {
		r.Violate("wiring-config-not-parsed", fmt.Sprintf("upstream section does not parse: %v", err), map[string]any{"yaml": text})

		return
	}
	var verr error
	func() {
		defer func() {
			if p := recover(); p != nil {
				verr = fmt.Errorf("panic: %v", p)
				r.Violate("wiring-validation-panicked", fmt.Sprintf("validate panicked: %v", p), map[string]any{"yaml": text})
			}
		}()
		verr = v.VerifC17Validate()
	}()
	r.Count(fmt.Sprintf("wiring.valid=%v.accepted=%v", c.valid(), verr == nil))
	r.Case("wiring/"+text, !c.valid())
	if c.valid() && verr != nil {
		r.Violate("wiring-valid-upstream-config-rejected", fmt.Sprintf("a well-formed upstream section is rejected: %v", verr), map[string]any{"yaml": text})

		return
	}
	if !c.valid() && verr == nil {
		// What the handler would be built from makes the property's notions
		// meaningless (a non-positive backoff or timeout, no fallback, …).
		r.Violate("wiring-invalid-upstream-config-accepted", "an upstream section with a missing or non-positive value is accepted", map[string]any{"yaml": text})

		return
	}
	if verr != nil {
		return
	}
	// NewForwardMetricsListener registers its collectors on every call.
	prometheus.DefaultRegisterer = prometheus.NewRegistry()
	hc := v.VerifC17HandlerConfig(discard)
	var diffs []string
	cmpList := func(what string, want []wireSrv, got []*forward.UpstreamPlainConfig) {
		if len(want) != len(got) {
			diffs = append(diffs, fmt.Sprintf("%s: %d configured, %d converted", what, len(want), len(got)))

			return
		}
		for i, w := range want {
			g := got[i]
			if string(g.Network) != w.network() || g.Address != w.addrPort() || g.Timeout != w.timeout.dur() {
				diffs = append(diffs, fmt.Sprintf("%s[%d]: configured %s timeout %s, converted network %q address %s timeout %s",
					what, i, w.address(), w.timeout.dur(), g.Network, g.Address, g.Timeout))
			}
		}
	}
	cmpList("servers", c.servers, hc.UpstreamsAddresses)
	cmpList("fallback.servers", c.fallbacks, hc.FallbackAddresses)
	if hc.HealthcheckDomainTmpl != c.tmpl {
		diffs = append(diffs, fmt.Sprintf("domain_template %q became %q", c.tmpl, hc.HealthcheckDomainTmpl))
	}
	if hc.HealthcheckBackoffDuration != c.backoff.dur() {
		diffs = append(diffs, fmt.Sprintf("backoff_duration %s became %s", c.backoff.dur(), hc.HealthcheckBackoffDuration))
	}
	wantInit := time.Duration(0)
	if c.enabled {
		wantInit = c.timeout.dur()
	}
	if hc.HealthcheckInitDuration != wantInit {
		diffs = append(diffs, fmt.Sprintf("enabled=%v timeout %s: initial health check duration %s", c.enabled, c.timeout.dur(), hc.HealthcheckInitDuration))
	}
	// The health-check worker as builder.initHealthCheck makes it (never
	// started here): every round must get a context that ends healthcheck.timeout
	// after it was made; without the health check there is no worker at all.
	svc := v.VerifC17Healthcheck(discard, nil, nopErrColl{})
	w, isWorker := svc.(*agdservice.RefreshWorker)
	switch {
	case isWorker != c.enabled:
		diffs = append(diffs, fmt.Sprintf("enabled=%v but the health-check service is a %T", c.enabled, svc))
	case isWorker:
		before := time.Now()
		ctx, cancel := agdservice.VerifC17WorkerContext(w)
		after := time.Now()
		dl, has := ctx.Deadline()
		cancel()
		if !has || dl.Before(before.Add(c.timeout.dur())) || dl.After(after.Add(c.timeout.dur())) {
			diffs = append(diffs, fmt.Sprintf("healthcheck.timeout %s (interval %s, backoff %s): the context of a worker round has deadline=%v, %s after it was made",
				c.timeout.dur(), c.interval.dur(), c.backoff.dur(), has, dl.Sub(before).Round(time.Millisecond)))
		}
		sctx, scancel := context.WithTimeout(context.Background(), time.Second)
		_ = svc.Shutdown(sctx)
		scancel()
	}
	if len(diffs) > 0 {
		r.Violate("wiring-option-lost-or-misrouted", strings.Join(diffs, "; "), map[string]any{"yaml": text})
	}
}

// wiringLive builds handler and health-check worker from YAML and runs them
// against scripted loopback servers.  It returns the first finding.
func wiringLive(rng *rand.Rand, layout string, variant int) (f *finding) {
	violate := func(sig, format string, args ...any) {
		if f == nil {
			f = &finding{sig: sig, what: "wiring/" + layout + ": " + fmt.Sprintf(format, args...)}
		}
	}
	srvs := []*server{newServer(rng), newServer(rng), newServer(rng)}
	defer func() {
		for _, s := range srvs {
			s.close()
		}
	}()
	m0, m1, fb := srvs[0], srvs[1], srvs[2]
	// Tokens of the answers: 1 and 2 for the mains, 101 for the fallback.
	m1.set("ok", "ok", 2, 2)
	fb.set("ok", "ok", 101, 101)
	schemes := [][2]string{{"udp://", ""}, {"", "tcp://"}, {"tcp://", "udp://"}, {"", ""}}[variant%4]
	c := &wireConf{
		servers: []wireSrv{
			{scheme: schemes[0], host: "127.0.0.1", port: m0.port, timeout: durSpec{2, "s"}},
			{scheme: schemes[1], host: "127.0.0.1", port: m1.port, timeout: durSpec{2, "s"}},
		},
		fallbacks: []wireSrv{{host: "127.0.0.1", port: fb.port, timeout: durSpec{1, "s"}}},
		enabled:   layout != "disabled",
		interval:  durSpec{60, "ms"}, timeout: durSpec{250, "ms"}, backoff: durSpec{300, "ms"},
		tmpl: "${RANDOM}." + probeDomain,
	}
	switch layout {
	case "slow":
		// Everything answers; the interval is far longer than the run, the
		// other durations are short: no round may start after NewHandler's own.
		m0.set("ok", "ok", 1, 1)
		c.interval, c.timeout, c.backoff = durSpec{1, "h"}, durSpec{40 + 10*(variant%3), "ms"}, durSpec{30, "ms"}
	case "tmpl":
		// Everything answers; the template makes a first label of 64 octets
		// (four times 16 hex digits) in 15 of 16 rounds.  Either the start-up
		// refuses it, or probes must still reach the upstreams.
		m0.set("ok", "ok", 1, 1)
		c.tmpl = []string{"${RANDOM}${RANDOM}${RANDOM}${RANDOM}.example.com", "${RANDOM}.example..com",
			strings.Repeat("a", 48) + "${RANDOM}.example.com", strings.Repeat("a", 47) + "${RANDOM}.example.com"}[variant%4]
		c.tmplBad = variant%4 != 3
		for _, s := range srvs {
			s.isProbe = func(dns.Question) bool { return true }
		}
	case "starve":
		// Main 0 is there but never answers; as in config.dist.yaml the server
		// timeouts (2 s) are longer than the health-check timeout.
		m0.set("dr", "dr", 1, 1)
	case "disabled":
		// Main 0 refuses connections.
		m0.set("net", "net", 1, 1)
	}
	v, err := cmd.VerifC17ParseUpstream([]byte(c.yaml()))
	if err == nil {
		err = v.VerifC17Validate()
	}
	if err != nil && c.tmplBad {
		return nil
	}
	if err != nil {
		violate("wiring-valid-upstream-config-rejected", "%v\n%s", err, c.yaml())

		return f
	}
	prometheus.DefaultRegisterer = prometheus.NewRegistry()
	h := v.VerifC17NewHandler(discard)
	defer func() { _ = h.Close() }()
	svc := v.VerifC17Healthcheck(discard, h, nopErrColl{})

	inRotation := func(u int) bool {
		act, _, _ := forward.VerifC17State(h)

		return containsInt(act, u)
	}
	probesSeen := func(s *server) int {
		s.mu.Lock()
		defer s.mu.Unlock()

		return len(s.seen)
	}
	waitFor := func(d time.Duration, cond func() bool) bool {
		for end := time.Now().Add(d); time.Now().Before(end); time.Sleep(5 * time.Millisecond) {
			if cond() {
				return true
			}
		}

		return cond()
	}
	query := func(i int) (tok int) {
		req := &dns.Msg{}
		req.SetQuestion(queryName, dns.TypeA)
		req.Id = uint16(5000 + i)
		rw := dnsserver.NewNonWriterResponseWriter(&net.UDPAddr{IP: net.IPv4(127, 0, 0, 1), Port: 1},
			&net.UDPAddr{IP: net.IPv4(127, 0, 0, 1), Port: 2})
		ctx, cancel := context.WithTimeout(context.Background(), 3*time.Second)
		defer cancel()
		if qerr := h.ServeDNS(ctx, rw, req); qerr != nil || rw.Msg() == nil {
			return -1
		}

		return respTok(rw.Msg())
	}

	switch layout {
	case "starve":
		// NewHandler's initial check (healthcheck.timeout = 250 ms for the whole
		// round): main 0 never answers; main 1 answers whatever it is asked.
		if !inRotation(1) {
			violate("main-dropped-without-probe",
				"after NewHandler built from the configuration: main 1 answers every probe it gets (it got %d) but is out of rotation "+
					"because main 0 in front of it does not answer", probesSeen(m1))
		}
		if serr := svc.Start(context.Background()); serr != nil {
			violate("wiring-healthcheck-worker-not-started", "%v", serr)

			return f
		}
		defer func() {
			ctx, cancel := context.WithTimeout(context.Background(), 2*time.Second)
			_ = svc.Shutdown(ctx)
			cancel()
		}()
		// The worker probes at healthcheck.interval: main 1 sees probes.
		if !waitFor(5*time.Second, func() bool { return probesSeen(m1) >= 2 }) {
			violate("wiring-healthcheck-worker-idle", "health check enabled with interval 60ms, but main 1 saw %d probes in 5 s", probesSeen(m1))
		}
		if !waitFor(2*time.Second, func() bool { return inRotation(1) && !inRotation(0) }) {
			act, _, _ := forward.VerifC17State(h)
			if !inRotation(1) {
				violate("main-dropped-without-probe", "with the health-check worker running: main 1 answered all of its %d probes but the active list is %v", probesSeen(m1), act)
			} else {
				violate("failed-main-in-rotation", "main 0 never answers a probe (it got %d) but the active list is %v", probesSeen(m0), act)
			}
		}
		// Traffic stays on the healthy main upstream.
		for i := 0; i < 12 && f == nil; i++ {
			if tok := query(i); tok != 2 && inRotation(1) && !inRotation(0) {
				violate("fallback-while-main-healthy", "query %d was answered with token %d, main 1 (token 2) is healthy and in rotation", i, tok)
			}
		}
		// Main 0 comes back: after the backoff (300 ms) a probe reinstates it.
		m0.set("ok", "ok", 1, 1)
		if !waitFor(5*time.Second, func() bool { return inRotation(0) }) {
			violate("recovered-main-not-back", "main 0 has been answering for 5 s (backoff 300ms, interval 60ms, %d probes seen) but is not back in rotation", probesSeen(m0))
		}
		seen := map[int]bool{}
		for i := 0; i < 60 && f == nil; i++ {
			seen[query(100+i)] = true
		}
		if f == nil && (!seen[1] || !seen[2] || seen[101] || seen[-1]) {
			violate("active-upstream-never-chosen", "both mains are back in rotation, 60 queries were answered by %v (tokens: main0=1, main1=2, fallback=101)", seen)
		}
	case "tmpl":
		// The configuration was accepted: with two answering mains the initial
		// round and a second one must leave both in rotation.
		for round := 0; round < 2 && f == nil; round++ {
			if round > 0 {
				_ = h.Refresh(context.Background())
			}
			if !inRotation(0) || !inRotation(1) {
				act, _, _ := forward.VerifC17State(h)
				violate("main-dropped-unpackable-probe", "accepted configuration with domain_template %q: both mains answer every request they get (they got %d and %d) "+
					"but after round %d the active list is %v: no probe can be made from the template, every round counts as failed and all traffic stays on the fallbacks",
					c.tmpl, probesSeen(m0), probesSeen(m1), round, act)
			}
		}
	case "slow":
		n0 := probesSeen(m0) + probesSeen(m1)
		if n0 != 2 {
			violate("no-probe-in-initial-check", "NewHandler built from the configuration with the health check enabled sent %d probes to 2 answering mains", n0)
		}
		if serr := svc.Start(context.Background()); serr != nil {
			violate("wiring-healthcheck-worker-not-started", "%v", serr)

			return f
		}
		defer func() {
			ctx, cancel := context.WithTimeout(context.Background(), 2*time.Second)
			_ = svc.Shutdown(ctx)
			cancel()
		}()
		time.Sleep(500 * time.Millisecond)
		if n := probesSeen(m0) + probesSeen(m1); n != n0 {
			violate("wiring-healthcheck-interval-ignored", "healthcheck.interval is 1h (timeout %s, backoff %s), but %d more probes arrived within 500 ms of the worker's start",
				c.timeout.dur(), c.backoff.dur(), n-n0)
		}
	case "disabled":
		if n := probesSeen(m0) + probesSeen(m1); n > 0 {
			violate("probe-although-healthcheck-disabled", "healthcheck.enabled is false but NewHandler sent %d probes", n)
		}
		if serr := svc.Start(context.Background()); serr != nil {
			violate("wiring-healthcheck-worker-not-started", "%v", serr)

			return f
		}
		defer func() {
			ctx, cancel := context.WithTimeout(context.Background(), 2*time.Second)
			_ = svc.Shutdown(ctx)
			cancel()
		}()
		// Both mains stay in rotation; a query that meets the dead one is
		// answered by the fallback, the others by main 1.
		seen := map[int]bool{}
		for i := 0; i < 40; i++ {
			seen[query(i)] = true
		}
		time.Sleep(150 * time.Millisecond)
		if n := probesSeen(m0) + probesSeen(m1); n > 0 {
			violate("probe-although-healthcheck-disabled", "healthcheck.enabled is false but %d probes arrived", n)
		}
		if !inRotation(0) || !inRotation(1) {
			act, _, _ := forward.VerifC17State(h)
			violate("main-out-of-rotation-without-healthcheck", "health check disabled, active list %v", act)
		}
		if seen[-1] || seen[1] || !seen[2] || !seen[101] {
			violate("no-fallback-on-network-error", "main 0 refuses connections, main 1 and the fallback answer; 40 queries were answered by %v "+
				"(tokens: main1=2, fallback=101, -1 = SERVFAIL)", seen)
		}
	}

	return f
}
