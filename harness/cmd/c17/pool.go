package main

import (
	"context"
	"encoding/binary"
	"errors"
	"fmt"
	"io"
	"math/rand/v2"
	"net"
	"net/netip"
	"sync"
	"time"

	"github.com/AdguardTeam/AdGuardDNS/internal/dnsserver/forward"
	"github.com/AdguardTeam/AdGuardDNS/verifh/hlib"
	"github.com/miekg/dns"
)

// Campaign "pool": state of UpstreamPlain that outlives one exchange (the
// pooled connections).  One real client against a scripted loopback server:
//
//   - restart: k exchanges in flight at once leave k idle TCP connections in
//     the pool; the server drops all of them (FIN or RST: what a restarted
//     upstream looks like) and answers on new connections: each of the next k+1
//     exchanges must return the matching reply (one retry, on a connection that
//     is new, not on another one from the pool);
//   - late: a query that got no reply in time; its reply is sent late, to the
//     socket / connection it came from, when the next query arrives, which is
//     answered correctly on its own socket: that query must get its reply over
//     the same transport (a socket on which an exchange failed is not used again);
//   - extra: a mismatching reply followed by more octets on the same socket;
//     the query fails, the next one must not see the rest.
//
// The oracle is the scripted server's own account: it answered the query on the
// transport it arrived on with a matching message.  The model is asked what one
// exchange gives when the first attempt ends in EOF / a network error and the
// second meets a matching reply (driver op x).

type heldReq struct {
	udpFrom *net.UDPAddr
	tcpConn net.Conn
	req     *dns.Msg
}

type poolSrv struct {
	port int
	udp  *net.UDPConn
	tcp  *net.TCPListener

	mu sync.Mutex
	// mode: ok (answer; first flush what is held), hold (keep the request until
	// release), silent (keep it for a late reply), extra (wrong id, then the
	// right reply behind it).
	mode     string
	held     []heldReq
	conns    []net.Conn
	udpReqs  int
	tcpReqs  int
	answered map[uint16]string
	wg       sync.WaitGroup
}

func newPoolSrv(rng *rand.Rand) (s *poolSrv) {
	for try := 0; try < 200; try++ {
		port := 32000 + rng.IntN(12000)
		u, err := net.ListenUDP("udp4", &net.UDPAddr{IP: net.IPv4(127, 0, 0, 1), Port: port})
		if err != nil {
			continue
		}
		t, err := net.ListenTCP("tcp4", &net.TCPAddr{IP: net.IPv4(127, 0, 0, 1), Port: port})
		if err != nil {
			_ = u.Close()

			continue
		}
		s = &poolSrv{port: port, udp: u, tcp: t, mode: "ok", answered: map[uint16]string{}}
		s.wg.Add(2)
		go s.serveUDP()
		go s.serveTCP()

		return s
	}
	panic("c17: no free loopback port")
}

func (s *poolSrv) close() {
	_ = s.udp.Close()
	_ = s.tcp.Close()
	s.mu.Lock()
	for _, c := range s.conns {
		_ = c.Close()
	}
	s.mu.Unlock()
	s.wg.Wait()
}

func (s *poolSrv) setMode(m string) {
	s.mu.Lock()
	s.mode = m
	s.mu.Unlock()
}

func (s *poolSrv) send(h heldReq, b []byte) {
	if h.udpFrom != nil {
		_, _ = s.udp.WriteToUDP(b, h.udpFrom)

		return
	}
	out := append(binary.BigEndian.AppendUint16(nil, uint16(len(b))), b...)
	_ = h.tcpConn.SetWriteDeadline(time.Now().Add(200 * time.Millisecond))
	_, _ = h.tcpConn.Write(out)
}

// handle is the server's reaction to one request.
func (s *poolSrv) handle(h heldReq) {
	s.mu.Lock()
	mode := s.mode
	nw := "tcp"
	if h.udpFrom != nil {
		s.udpReqs++
		nw = "udp"
	} else {
		s.tcpReqs++
	}
	var flush []heldReq
	switch mode {
	case "hold", "silent":
		s.held = append(s.held, h)
	case "ok":
		flush, s.held = s.held, nil
		s.answered[h.req.Id] = nw
	}
	s.mu.Unlock()
	switch mode {
	case "ok":
		for _, old := range flush {
			s.send(old, buildReply(old.req, "ok", 900))
		}
		s.send(h, buildReply(h.req, "ok", int(h.req.Id)))
	case "extra":
		s.send(h, buildReply(h.req, "id", 901))
		s.send(h, buildReply(h.req, "ok", 902))
	}
}

// release answers everything that is held (mode hold).
func (s *poolSrv) release() {
	s.mu.Lock()
	held := s.held
	s.held = nil
	s.mode = "ok"
	for _, h := range held {
		nw := "tcp"
		if h.udpFrom != nil {
			nw = "udp"
		}
		s.answered[h.req.Id] = nw
	}
	s.mu.Unlock()
	for _, h := range held {
		s.send(h, buildReply(h.req, "ok", int(h.req.Id)))
	}
}

func (s *poolSrv) nHeld() int {
	s.mu.Lock()
	defer s.mu.Unlock()

	return len(s.held)
}

// dropConns closes every accepted TCP connection, with RST if rst.
func (s *poolSrv) dropConns(rst bool) {
	s.mu.Lock()
	conns := s.conns
	s.conns = nil
	s.mu.Unlock()
	for _, c := range conns {
		if tc, ok := c.(*net.TCPConn); ok && rst {
			_ = tc.SetLinger(0)
		}
		_ = c.Close()
	}
}

func (s *poolSrv) serveUDP() {
	defer s.wg.Done()
	buf := make([]byte, 4096)
	for {
		n, from, err := s.udp.ReadFromUDP(buf)
		if err != nil {
			return
		}
		req := &dns.Msg{}
		if req.Unpack(buf[:n]) != nil || len(req.Question) == 0 {
			continue
		}
		s.handle(heldReq{udpFrom: from, req: req})
	}
}

func (s *poolSrv) serveTCP() {
	defer s.wg.Done()
	for {
		c, err := s.tcp.Accept()
		if err != nil {
			return
		}
		s.mu.Lock()
		s.conns = append(s.conns, c)
		s.mu.Unlock()
		s.wg.Add(1)
		go func() {
			defer s.wg.Done()
			for {
				var l uint16
				if binary.Read(c, binary.BigEndian, &l) != nil {
					return
				}
				b := make([]byte, l)
				if _, rerr := io.ReadFull(c, b); rerr != nil {
					return
				}
				req := &dns.Msg{}
				if req.Unpack(b) != nil || len(req.Question) == 0 {
					return
				}
				s.handle(heldReq{tcpConn: c, req: req})
			}
		}()
	}
}

type poolCase struct {
	scen string // restart | late | extra
	net  int    // index into netNames / nets of plainCampaign: any, udp, tcp
	k    int
	rst  bool
}

func (c poolCase) String() string {
	return fmt.Sprintf("pool/%s/%s/k=%d/rst=%v", c.scen, []string{"any", "udp", "tcp"}[c.net], c.k, c.rst)
}

type poolRow struct {
	line, obs, what string
	sig             string
}

// runPoolCase plays one scenario and returns the model lines with the
// observations, and the first complaint of the oracle.
func runPoolCase(rng *rand.Rand, c poolCase) (rows []poolRow, f *finding) {
	srv := newPoolSrv(rng)
	defer srv.close()
	network := []forward.Network{forward.NetworkAny, forward.NetworkUDP, forward.NetworkTCP}[c.net]
	netName := []string{"any", "udp", "tcp"}[c.net]
	timeout := 2 * time.Second
	if c.scen == "late" {
		timeout = 150 * time.Millisecond
	}
	ups := forward.NewUpstreamPlain(&forward.UpstreamPlainConfig{
		Network: network,
		Address: netip.AddrPortFrom(netip.AddrFrom4([4]byte{127, 0, 0, 1}), uint16(srv.port)),
		Timeout: timeout,
	})
	defer func() { _ = ups.Close() }()
	idBase := uint16(1000 + rng.IntN(50000))
	next := 0
	type res struct {
		got string
		nw  forward.Network
		id  uint16
	}
	exch := func() (x res) {
		req := &dns.Msg{}
		req.SetQuestion(queryName, dns.TypeA)
		next++
		req.Id = idBase + uint16(next)
		x.id = req.Id
		resp, nw, err := ups.Exchange(context.Background(), req)
		x.nw = nw
		var ne net.Error
		switch {
		case err == nil && resp != nil:
			x.got = fmt.Sprintf("ok%d", respTok(resp))
			if resp.Id != req.Id || respTok(resp) != int(req.Id) {
				x.got = fmt.Sprintf("foreign(id=%d tok=%d)", resp.Id, respTok(resp))
			}
		case err == nil:
			x.got = "nil"
		case errors.As(err, &ne):
			x.got = "net"
		case errors.Is(err, io.EOF):
			x.got = "eof"
		default:
			x.got = "other"
		}

		return x
	}
	violate := func(sig, format string, args ...any) {
		if f == nil {
			f = &finding{sig: sig, what: c.String() + ": " + fmt.Sprintf(format, args...)}
		}
	}
	// wantOK: the server answered this query with a matching reply on the
	// transport named; the exchange must return it from that transport.
	wantOK := func(x res, step string, tcp bool, line string) {
		srv.mu.Lock()
		ansNw, answered := srv.answered[x.id]
		srv.mu.Unlock()
		wantNw := "udp"
		if tcp {
			wantNw = "tcp"
		}
		rows = append(rows, poolRow{line: line, obs: fmt.Sprintf("%s tcp=%s probe=%s", x.got, b2s(x.nw == forward.NetworkTCP), b2s(x.got == fmt.Sprintf("ok%d", x.id))),
			what: step})
		// The model's token is the scripted one; rewrite ours to it below.
		if x.got != fmt.Sprintf("ok%d", x.id) {
			violate("failed-connection-reused", "%s: the server answered the query (id %d) with a matching reply over %s (its account: answered=%v over %q), "+
				"but Exchange gave %q", step, x.id, wantNw, answered, ansNw, x.got)
		} else if (x.nw == forward.NetworkTCP) != tcp {
			violate("reply-from-other-transport", "%s: the matching reply was sent over %s, Exchange reports %q", step, wantNw, x.nw)
		}
	}
	switch c.scen {
	case "restart":
		// k exchanges in flight at once: k connections.
		srv.setMode("hold")
		var wg sync.WaitGroup
		first := make([]res, c.k)
		for i := 0; i < c.k; i++ {
			wg.Add(1)
			go func(i int) {
				defer wg.Done()
				first[i] = exch()
			}(i)
			// ids are handed out under no lock: start them one after the other.
			for end := time.Now().Add(time.Second); srv.nHeld() <= i && time.Now().Before(end); {
				time.Sleep(time.Millisecond)
			}
		}
		srv.release()
		wg.Wait()
		for i, x := range first {
			if x.got != fmt.Sprintf("ok%d", x.id) {
				violate("matching-reply-rejected", "exchange %d of %d concurrent ones: the server answered it, Exchange gave %q", i, c.k, x.got)
			}
		}
		srv.dropConns(c.rst)
		time.Sleep(10 * time.Millisecond)
		for i := 0; i < c.k+1 && f == nil; i++ {
			line := "x tcp ok eof>ok"
			if i == c.k {
				line = "x tcp ok ok"
			}
			wantOK(exch(), fmt.Sprintf("exchange %d after the server dropped all %d idle connections (rst=%v) and went on answering", i, c.k, c.rst), true, line)
		}
	case "late":
		tcp := c.net == 2
		for round := 0; round < c.k && f == nil; round++ {
			srv.setMode("silent")
			x := exch()
			if x.got != "net" {
				violate("exchange-without-reply-not-a-network-error", "the server kept silent, Exchange gave %q", x.got)
			}
			srv.setMode("ok")
			line := "x " + netName + " ok ok"
			wantOK(exch(), fmt.Sprintf("round %d: query after one that got no reply in time (the late reply is sent to the old socket first)", round), tcp, line)
		}
	case "extra":
		tcp := c.net == 2
		for round := 0; round < c.k && f == nil; round++ {
			srv.setMode("extra")
			x := exch()
			if len(x.got) >= 2 && x.got[:2] == "ok" || x.got == "nil" || len(x.got) > 7 && x.got[:7] == "foreign" {
				violate("exchange-returned-mismatching-reply", "the first message had another id; Exchange gave %q", x.got)
			}
			srv.setMode("ok")
			line := "x " + netName + " ok ok"
			wantOK(exch(), fmt.Sprintf("round %d: query after one whose socket received a mismatching message and one more behind it", round), tcp, line)
		}
	}
	// (After a mismatching UDP reply even a UDP-only upstream goes to TCP: the
	// model says so too, and the property does not speak of transports.)
	if c.net == 1 && c.scen != "extra" {
		srv.mu.Lock()
		n := srv.tcpReqs
		srv.mu.Unlock()
		if n > 0 {
			violate("reply-from-other-transport", "UDP-only upstream sent %d requests over TCP", n)
		}
	}

	return rows, f
}

func poolCampaign(o *hlib.Opts, r *hlib.Result, m *hlib.Model) {
	rng := o.Rand("pool")
	var cases []poolCase
	ks := []int{2, 3}
	if o.Thorough() {
		ks = []int{1, 2, 3, 5, 8}
	}
	for _, k := range ks {
		for _, rst := range []bool{false, true} {
			cases = append(cases, poolCase{scen: "restart", net: 2, k: k, rst: rst})
		}
	}
	rounds := 1
	if o.Thorough() {
		rounds = 3
	}
	for nw := 0; nw < 3; nw++ {
		cases = append(cases, poolCase{scen: "late", net: nw, k: rounds}, poolCase{scen: "extra", net: nw, k: rounds})
	}
	var lines, obs, whats []string
	for _, c := range cases {
		rows, f := runPoolCase(rng, c)
		if f != nil {
			// The machine is shared: a finding must reproduce.
			_, f2 := runPoolCase(rng, c)
			if f2 != nil && f2.sig == f.sig {
				r.Violate(f.sig, f.what, map[string]any{"campaign": "pool", "case": c.String()})
			} else {
				r.Count("pool.discarded_unreproducible")
			}

			continue
		}
		r.Case(c.String(), true)
		for _, row := range rows {
			lines = append(lines, row.line)
			obs = append(obs, row.obs)
			whats = append(whats, c.String()+": "+row.what)
		}
	}
	answers := m.Batch(lines)
	r.Evaluations += len(lines)
	for i := range lines {
		// The model's reply carries token 1 (UDP) or 2 (TCP); ours the query id.
		want := answers[i]
		got := obs[i]
		if len(got) > 2 && got[:2] == "ok" {
			sp := 2
			for sp < len(got) && got[sp] != ' ' {
				sp++
			}
			got = "ok" + got[sp:]
		}
		if len(want) > 2 && want[:2] == "ok" {
			sp := 2
			for sp < len(want) && want[sp] != ' ' {
				sp++
			}
			want = "ok" + want[sp:]
		}
		if got != want {
			r.Disagree("pool", fmt.Sprintf("%s: %q: implementation %q, model %q", whats[i], lines[i], obs[i], answers[i]),
				map[string]any{"campaign": "pool", "ops": []string{lines[i]}})

			break
		}
	}
	r.Traces++
}
