module github.com/AdguardTeam/AdGuardDNS/verifh

go 1.23.4

require (
	github.com/AdguardTeam/AdGuardDNS v0.0.0
	github.com/AdguardTeam/AdGuardDNS/internal/dnsserver v0.0.0
	github.com/c2h5oh/datasize v0.0.0-20231215233829-aa82cc1e6500
	github.com/miekg/dns v1.1.62
)

require (
	github.com/AdguardTeam/golibs v0.30.4 // indirect
	github.com/aead/chacha20 v0.0.0-20180709150244-8b13a72661da // indirect
	github.com/aead/poly1305 v0.0.0-20180717145839-3fee0db0b635 // indirect
	github.com/ameshkov/dnscrypt/v2 v2.3.0 // indirect
	github.com/ameshkov/dnsstamps v1.0.3 // indirect
	github.com/bluele/gcache v0.0.2 // indirect
	github.com/panjf2000/ants/v2 v2.10.0 // indirect
	github.com/patrickmn/go-cache v2.1.1-0.20191004192108-46f407853014+incompatible // indirect
	github.com/quic-go/qpack v0.5.1 // indirect
	github.com/quic-go/quic-go v0.48.2 // indirect
	golang.org/x/crypto v0.30.0 // indirect
	golang.org/x/exp v0.0.0-20241204233417-43b7b7cde48d // indirect
	golang.org/x/net v0.32.0 // indirect
	golang.org/x/sync v0.10.0 // indirect
	golang.org/x/sys v0.28.0 // indirect
	golang.org/x/text v0.21.0 // indirect
)

replace github.com/AdguardTeam/AdGuardDNS => /repo

replace github.com/AdguardTeam/AdGuardDNS/internal/dnsserver => /repo/internal/dnsserver
