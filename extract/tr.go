// Translator: a small, explicit subset of Go (integer / boolean / string /
// error decision code over scalar struct fields) to Lean 4 definitions.
//
// Unlike the syntactic facts of main.go, the output here is *executable Lean*
// regenerated from /repo on every run; Agd/Tie/Tr<Cxx>.lean proves that the
// hand-written model coincides with these definitions (or proves the property
// about them directly).  A semantic change of a translated function therefore
// changes the definition the theorems are about.
//
// What is translated, and how (the trusted part of the tie):
//
//   - every Go integer type and every named type with an integer underlying
//     type (time.Duration, dnsserver.Network, …) becomes Lean `Int`; overflow
//     and unsigned wrap-around are NOT modelled;  `/` and `%` become
//     `Int.tdiv` / `Int.tmod` (truncation toward zero, as in Go) and a zero
//     divisor makes the result `none` (a run-time panic);
//   - bool -> Bool, string -> String, error -> Option String (`none` = nil;
//     a non-nil error is `some <source text of the expression that made it>`);
//   - a struct type becomes a Lean structure holding its fields of translatable
//     type; a pointer to a struct becomes `Option <structure>` and a field
//     access through a nil pointer makes the result `none` (a panic);
//   - statements: if / else, expression-less and tagged switch (no
//     fallthrough), type switch over a symbolic interface value (see below),
//     return (also naked), :=, =, op=, ++, --, var, local const
//     (folded at its uses), assignments
//     to fields of the receiver or of local struct values (under "refs" a
//     pointer-to-struct parameter whose fields are assigned is returned, after
//     the receiver, with its final value); statements after a
//     branching statement are duplicated into both branches;
//   - `for range n { f(…); _ = g(…) }` over an integer n whose body consists
//     only of calls with discarded results (trace mode): the body's trace
//     entries are appended `n` times (`List.replicate n.toNat [...]`);
//   - a `panic(…)` statement (outside loops) makes the result `none`, like
//     every other run-time panic;
//   - expressions: literals, constants (folded with go/types, so imported
//     constants such as dns.MaxMsgSize are resolved from the dependency's
//     export data), parameters, locals, field selectors, arithmetic,
//     comparisons, !, && and || with Go's short-circuit order, integer
//     conversions (identity), the built-ins min and max; the integer conversion
//     of `d.Seconds()` for a time.Duration d is `Int.tdiv d 1e9` (whole
//     seconds; float64 rounding of huge durations is not modelled);
//   - a call to another function of the same translation list is a call of its
//     Lean definition; cmp.Or over errors is "first non-nil, all arguments
//     evaluated"; validateProp(name, f) is `f()` (the name prefix is kept in
//     the error text); under "refs" errors.Annotate(err, format, …) is
//     `wrapErr format err` (nil iff err is nil; an opaque call otherwise);
//     validatePositive(name, v) is the intrinsic `v <= 0`
//     (signed integers, durations) resp. `v == 0` (unsigned) — its own body
//     uses reflection and is tied by syntactic facts and the differential run;
//   - a struct type of the repository (and timeutil.Duration) becomes a Lean
//     structure; every other struct type (time.Time, sync.Mutex, netip.Addr,
//     dns.Msg, caches, …) is abstract: parameters of such types are dropped and
//     an expression that reads from them (`req.Question[0].Qtype`) becomes an
//     extra parameter `e<k>_<name>` holding its value;
//   - a keyed literal `T{…}` of a translated struct type is the Lean structure
//     value (missing fields zero), `&T{…}` is `some` of it;
//   - with `"symbolic": true` in the spec file, values of abstract types are
//     *tokens* instead of being dropped: Lean `String` (`Option String` for Go
//     types that have nil: pointers, interfaces, slices, maps, funcs).  Tokens
//     come from parameters, struct fields, opaque calls and opaque values, so a
//     theorem that quantifies over them covers every value; `==` on abstract
//     values is equality of tokens; `T{}` is the token "" (the zero value), a
//     keyed literal `T{f: v}` of an abstract struct is the token "T{f=v;}"
//     built from its scalar/token field values; a package-level variable is
//     the token of its name; type assertions and slice expressions on abstract
//     values are opaque values; fmt.Errorf / errors.New are non-nil error
//     texts also in traced functions.  Nil dereferences of abstract pointers
//     and mutation through them are not modelled (calls on them are trace
//     entries);
//   - in symbolic mode trace entries also show arguments that are tokens
//     (`toString` of an `Option String`), translated structs (`reprStr`), values
//     read through a pointer ("<nil-deref>" if it is nil) and nested opaque
//     calls as tokens ("x.M(a)" on an abstract `x`, "f(a)", "T(f(a))"); a
//     method call on an abstract value has
//     the receiver's token as its first trace argument;
//   - in symbolic mode a store into an abstract value (`x.f = v`, `x[i] = v`)
//     is the trace entry ("x.f =", [v]) and `append` on a slice of abstract
//     type is an opaque call; `var x T` of a translated struct type is its
//     zero value;
//   - the ignore entry "defer func" drops a deferred closure (pool returns,
//     error annotation that keeps nil-ness);
//   - a *value* of abstract type (local, result of an opaque call, parameter
//     that is compared with nil) is modelled by what the code can observe of
//     it: `AbsPtr` (true = non-nil) for pointers, interfaces, maps, slices, …,
//     `Unit` otherwise (also as a function result); in trace mode a re-slicing
//     `a[i:j]` is an opaque value preceded by the entry ("slice", [text with
//     bounds]) and `*p = v` through an abstract pointer is an effect like a
//     field assignment; `&T{…}` of abstract type is non-nil and, in trace mode
//     with the file-level (or per-function) option "trace_new",
//     the entry ("new T", ["K=" ++ value, …]) (nested literals flattened to
//     "K.L=…", values of scalar type rendered, "_" otherwise); a
//     field of abstract type of a translated struct (`mh.next`) is read as such
//     an opaque value, and so is a type assertion `x.(T)` (the dynamic type is
//     not modelled); an assignment to a
//     field of an abstract object (`resp.Compress = true`) is an effect and is
//     appended to the trace as `("set resp.Compress", ["true"])` (the
//     value of a call of scalar type is evaluated first, its opaque calls traced); values read
//     from abstract objects are re-read (fresh parameters) after any opaque
//     call or such a write;
//   - with the file-level option "abstract_bytes", byte slices are abstract
//     buffers (they are written through aliases);
//     `buf[lo:hi]` passed to a traced call is shown as "buf[<lo>:<hi>]" with
//     the values of its bounds, so which window of a buffer is handed to
//     Unpack / Write is part of the translated meaning;
//   - fmt.Errorf / errors.New (and the validators' newXxxError helpers) are
//     fixed non-nil error texts; with the file-level option "trace_errors" they
//     are, in traced functions, opaque calls like any other (a parameter for
//     the result and a trace entry with the format string) — the behaviour the
//     ties of C08 (and others written before the texts became fixed) rely on;
//     listing fmt.Errorf or slices.Contains under "pure" also makes the call
//     an (untraced) opaque value instead of the fixed text / the intrinsic;
//   - a field of abstract type of a translated structure and an element of
//     an abstract slice are read like values of abstract objects (above);
//   - the spec file may declare such a type *symbolic* (object form of the
//     option, `true` being the token mode above; "symbolic":
//     {"net/netip.Addr": "String", "…/filter.Result": "(Option String)"}): its
//     values are then carried as values of the given Lean type — `String`: an
//     injective rendering of the value, the zero value (`T{}`, `var x T`) is
//     "", `==` is equality of renderings; `(Option String)` for an interface:
//     `none` is nil, `some t` a value whose dynamic type prints as `t` —
//     and methods called on them are opaque calls; a key "[]pkg.T" declares the
//     *slice* type (`"[]net/netip.Prefix": "(List Unit)"`: such a slice is
//     known by its length only, `len` is the list's length) while T itself
//     stays abstract; with `"[]pkg.T": "(List String)"` the elements are tokens:
//     the variable of a range loop over such a slice holds the element's token
//     and may be passed to a callee listed under "fn" (`f_callee v`), so "the
//     first element for which the callee says …" is part of the meaning;
//   - a keyed literal `T{f: v}` / `&T{f: v}` of a translated struct type is a
//     structure instance (`some …` for `&`), omitted fields are zero; the
//     given fields are evaluated in the order of the literal; fields of abstract
//     type are left out as in the structure itself (in a traced function a
//     call in such a field is a translation error);
//   - with "drop_abstract" (the treatment TrC19 was written against, instead
//     of AbsPtr / Unit values, see below), `v := <ident or selector>` /
//     `v := f(…)` for a `v` of abstract type
//     (`hdr := r.Header`, `ctx := r.Context()`) drops the binding; the call is
//     still an effect: dropped when listed under "ignore"/"pure", recorded in
//     the trace when "trace" is set, a translation error otherwise;
//   - with "trace_nested", scalar-valued calls among the arguments of a traced
//     call statement (`h.Set(k, in.Get(k))`) are evaluated first, left to
//     right, with their own trace entries, and their values are the argument
//     values of the outer entry (otherwise such an argument is shown as "_");
//   - with "trace" and "drop_abstract", an assignment to a field of an
//     abstract value (`r.Out.Host = v`) is the trace entry ("Host=", [v])
//     (otherwise ("set r.Out.Host", [v]), see below);
//   - "func": "Outer#name" selects the function literal bound by
//     `name := func(…) {…}` inside Outer; captured variables of translatable
//     type become leading parameters, abstract ones are treated as above;
//   - with "trace", an assignment to a field of abstract type of a translated
//     struct (`cr.subnet = netutil.ZeroPrefix(fam)`) is the trace entry
//     ("set cr.subnet", [name]) as well;
//   - with the option "names" a value of abstract type that is assigned to a
//     local or returned is instead represented by a *symbolic name* (a Lean
//     String): the source text of the field path, parameter, `nil` or call that
//     produced it (the call is traced); such a local or a field path passed to
//     a traced call appears in the trace entry by that name, and a method
//     called on such a local records the name as first argument ("which of the
//     two caches is written"); results of abstract type are such names;
//   - with "trace", `for k, v := range X` over an abstract X whose body consists
//     only of traced calls, assignments to fields of abstract objects and nested
//     such loops, and reads no value that varies per element (no new opaque
//     parameter), is an *effect loop*: the trace entries ("for", ["v, k, range
//     X"]), the entries of the body (once: they are the same for every
//     element), ("end", []);
//   - a type switch on an abstract value is an if-chain, in clause order, over
//     extra Bool parameters `e<k>_is_<T>` ("the dynamic type is T"); fields of
//     the narrowed value are opaque values as above;
//   - a result (or assignment target) of abstract pointer or interface type is
//     `AbsPtr` too: nil is `false`, a concrete value converted to the interface
//     is `true` (which implementation it is, is not modelled);
//   - a field of abstract pointer type of a translated struct
//     (`srvReqInfo.Userinfo`) is not part of the Lean structure: reading it is
//     an opaque `AbsPtr` parameter (its nil-ness);
//   - []error literals, append on them and errors.Join are lists of optional
//     texts and "first non-nil" (errors.Join is non-nil iff an element is);
//   - opaque calls and reads from abstract objects are not allowed inside
//     loops (one parameter cannot stand for a different result per iteration)
//     unless the function has "loop_opaque": then one parameter does stand for
//     the result in every iteration (theorems about such a loop hold under
//     that reading only; TrC16's Upload);
//   - any other call is *opaque*: its result becomes an extra parameter of the
//     Lean definition (`o<k>_<callee>`, one per call site, in order of
//     appearance) and, when "trace" is set, the definition also returns the
//     list of opaque calls reached, in order, each with the values of its
//     arguments of scalar type (a slice expression `a[i:j]` is
//     rendered as "a[" ++ i ++ ":" ++ j ++ "]" with the bounds' values; with
//     "trace_qual" the callee is recorded with its last qualifier,
//     `Ratelimiter.Check` rather than `Check`) — so "which external effects happen, in which
//     order and with which arguments" is part of the translated meaning; calls
//     listed under "pure" are opaque values that are not traced; a call to a
//     translated function that itself has opaque parameters is opaque too;
//   - `defer func() { … }()` (a closure without parameters) is run inline at
//     every exit reached after it, after the named results have been set, and
//     may change them (errors.WithDeferred(err, e) is "err if non-nil, else e");
//   - with "trace", a deferred call is appended to the trace at every exit
//     reached after the defer statement (arguments as evaluated at the defer);
//   - with "trace", `go f(args)` is the effect ("go f", [scalar arguments]);
//   - calls listed under "fn" are opaque *functions*: one parameter
//     `f_<callee> : A1 → … → R` per callee, applied to the call's arguments of
//     translatable type (abstract arguments such as ctx are dropped), so which
//     value is handed to the callee is part of the translated meaning (a
//     database look-up is a function of the identifier it is asked for); with
//     "trace" the call is also recorded unless it is listed under "pure";
//   - calls listed under "ignore" (mutex operations, logging, metrics) are
//     dropped, and so is `defer func() { err = errors.Annotate(err, …) }()`;
//     "lit": n translates the n-th function literal inside the named function
//     (the handler closure a middleware's Wrap returns), with the enclosing
//     receiver in scope; methods listed under "identity" return their receiver;
//   - "recv_nonnil" models a pointer receiver as the struct itself (the
//     assumption that callers never pass nil is stated where it is used);
//     "nonnil" does the same for the listed pointer parameters;
//   - "trace_repr" records trace arguments of structure / option / list type
//     as `reprStr <value>` instead of "_", and an argument `x.f` of abstract
//     type, x of a translated struct type, as "field:f".
//   - with "trace", a store to a map element `m[k] = v` is an effect recorded
//     as ("set m[k]", [k, fields of v…]) (scalar fields of a translated struct
//     in declaration order, "nil" for a nil pointer); a store to a field of
//     abstract type of a translated struct (`rec.Time = start`) is recorded
//     like a write to an abstract object: ("set rec.Time", ["start"]);
//   - "out" lists local variables (typically pointers the function mutates
//     through, `rec.Queries++`) whose final value is returned after the
//     declared results; they start as their zero value;
//   - `for k, v := range m` over a map with translatable key and element
//     types is goRange over an extra parameter `e<k>_<m>_entries : List (K × V)`
//     — the entries in the order the run time happens to choose, so theorems
//     hold for every order (opaque calls in the loop body need "loop_opaque");
//   - "range_body" translates, instead of the whole function, the body of its
//     first `for k, v := range …` statement as a function of the loop
//     variables (one iteration; `continue` ends it) — the way to state the
//     per-element rule of a loop over a map, whose order is unspecified;
//   - with the spec-file option "refs": true, values of abstract type are not
//     dropped but modelled as *identity tokens*: an interface value or a
//     pointer to an abstract struct / to a non-struct is `Option Int` (nil or a
//     token), a value of an abstract struct type (time.Time, dns.Question) is
//     `Int` and `T{}` is the token 0; so nil tests, "which value is passed
//     on / returned / handed to which call" are part of the translated meaning
//     (tokens appear in traces via toString); reading a field through such a
//     value is still an opaque value parameter; `&x` and `*p` are opaque values;
//     a `var` of a type that stays untranslatable (func values) is skipped;
//     trace arguments follow the rule TrC17 was written against: scalars and
//     tokens by value, opaque values and "pure" calls read in an argument stay
//     parameters, anything that needs a traced call or may panic is "_", and
//     a ':' in a generated parameter name is dropped instead of becoming '_';
//     under "refs" a slice of translatable elements is a `List`, `len(s)` its
//     length, `s[i]` is `none` (panic) unless 0 ≤ i < len(s), nil slice = [];
//   - `xs == nil` / `xs != nil` on a list is `xs.isEmpty` / its negation: a nil
//     slice is the empty list, a non-nil empty slice is not told apart from it;
//   - inside a range loop a clause of a type switch over a symbolic interface
//     value may `continue` the loop (`break` there would leave the switch only
//     and stays outside the subset);
//   - `len(x)` of anything else is an opaque value parameter;
//   - the zero value of a slice (a named result) is the empty list;
//     newDeviceDataError(err, typ), like fmt.Errorf, makes a non-nil error;
//   - a slice expression xs[lo:hi] on a list (a slice of translatable
//     elements; abstract buffers and symbolic mode are treated above) is
//     take/drop; bounds outside 0 ≤ lo ≤ hi ≤ len(xs) make the result `none`
//     (capacity is not modelled);
//   - a struct literal with field names T{f: v, …} is a Lean structure instance
//     (fields of untranslatable type are not part of the structure, fields not
//     mentioned get their zero value); &T{…} is `some` of it;
//   - `defer func() { err = errors.Annotate(err, …) }()` is dropped: it changes
//     the text of a non-nil error only (nil stays nil);
//   - the statements `copy(dst, src)`, `n = copy(dst, src)`, `n := copy(dst, src)`
//     with dst a variable and both operands lists of the same element type:
//     dst becomes `goCopy dst src` (its first min(len dst, len src) elements
//     replaced by those of src, length unchanged) and the result is that
//     minimum (`goCopyN`).  Lists are values: that dst shares its array with
//     another slice (`dst := buf[2:]`) is NOT modelled — list dst under "out"
//     to get its final contents and state the aliasing where it is used;
//   - "list_slices" (per function): byte slices are lists of integers in this
//     function even if the spec file has "abstract_bytes", and `xs[lo:hi]` on a
//     list is take/drop also when the function is traced.
//   - `for cond { body }` (no init / post statement, not nested in a loop and
//     without a loop inside) is `goFor fuel state fun it st => …` (TrPrelude):
//     at most `fuel` iterations, `fuel : Nat` being an extra parameter (`fuel2`,
//     … for further loops; the copies of one loop in a duplicated continuation
//     share it); the condition is evaluated — and traced — at the start of every
//     iteration; the loop state are the variables declared outside and assigned
//     inside, and the trace; `break` / `continue` / `return` work as in range
//     loops (deferred calls run at a `return` from inside the loop); an opaque
//     call inside the loop is a parameter `o<k>_f : Nat → T` applied to the
//     iteration number, so the call may have a different result in every
//     iteration and theorems quantify over all result *sequences*.  The function
//     becomes partial: `none` is a panic or "the bound was reached before the loop
//     ended", so a theorem `… = some r → P r` for all `fuel` covers every finite run;
//   - a deferred closure that is run inline may itself contain `defer`
//     statements: they run, last in first out, when the closure's body ends and
//     before the defers registered earlier by the enclosing function;
//   - `var x T = v` is `x := v` with v converted to T; `T{}` of an abstract
//     struct type (outside "symbolic" / "refs") is the value `()`; a concrete
//     value made by a traced call and stored in an abstract interface
//     (`var s I = pkg.New(n)`) is non-nil, the call stays in the trace; in a keyed
//     literal of a translated struct a call in a field of abstract type (which
//     the structure does not have) is dropped silently when the callee is listed
//     under "pure" or "ignore" (otherwise it is an error in traced functions);
//   - "ascii_strings" (per function): strings are read as ASCII texts, so that
//     byte offsets are character offsets: `len(s)` is `goStrLen s` (number of
//     characters), `s[lo:hi]` is `goStrSlice? s lo hi` (`none` = panic unless
//     0 ≤ lo ≤ hi ≤ len), strings.TrimSpace / ToLower / LastIndexByte are the
//     TrPrelude models goTrimSpace (ASCII white space) / goToLower (Char.toLower)
//     / goLastIndexByte (-1 when absent); theorems about such a function are
//     statements about ASCII inputs (for other valid UTF-8 the offsets differ but,
//     as long as only ASCII bytes are searched for, cut the text at the same places);
//   - "elem_loop" (per function): in an effect loop over an abstract collection
//     the value variable may be re-bound from a call on itself,
//     `v = f(v)` / `v = f(v).(T)`: the call's trace entry followed by
//     ("rebind v", [source text of the new value]); a value written through an
//     abstract object that reads the loop variable (`v.Target = p + v.Target`)
//     is shown as its source text (the entries of the body are a schema that
//     holds for every element);
//   - `p == q` / `p != q` on two values of abstract pointer (interface, …) type,
//     neither being nil, is an opaque Bool value `e<k>_…` (which object a pointer
//     refers to is not modelled outside "symbolic" / "refs");
//   - the statement `func() { … }()` (no parameters, no results) runs its body
//     in place, with its own defers; a `return` inside ends the literal only.
//
// Anything else is a translation error: the generated definition is replaced
// by a marker that makes the Tie theorem fail, i.e. a broken obligation.
package main

import (
	"bytes"
	"encoding/json"
	"fmt"
	"go/ast"
	"go/constant"
	"go/importer"
	"go/parser"
	"go/printer"
	"go/token"
	"go/types"
	"io"
	"os"
	"os/exec"
	"path/filepath"
	"sort"
	"strings"
)

const repoModule = "github.com/AdguardTeam/AdGuardDNS/"

// TrFunc selects one function to translate.
type TrFunc struct {
	// Pkg is the package directory relative to the repository root.
	Pkg string `json:"pkg"`
	// Func is "Name" or "Recv.Name".
	Func string `json:"func"`
	// Name is the Lean identifier (within Agd.Gen.Tr<Cxx>).
	Name string `json:"name"`
	// Ignore lists printed callee expressions of calls that are dropped.
	Ignore []string `json:"ignore,omitempty"`
	// Trace makes the definition return the list of opaque calls reached.
	Trace bool `json:"trace,omitempty"`
	// Lit > 0 selects the Lit-th function literal (in source order) inside
	// Func: its body is translated as a function of its own parameters, with
	// the enclosing function's receiver and parameters in scope.
	Lit int `json:"lit,omitempty"`
	// TraceQual records a traced call as "x.Method" (the last two components
	// of the printed callee: field or variable, then method) instead of
	// "Method", to tell `prof.Ratelimiter.Check` from `mw.limiter.Check`.
	TraceQual bool `json:"trace_qual,omitempty"`
	// RecvNonNil models the pointer receiver as the struct itself: callers
	// are assumed never to pass nil (stated where it is used).
	RecvNonNil bool `json:"recv_nonnil,omitempty"`
	// Identity lists method names whose call returns the receiver's value
	// unchanged (datasize.ByteSize.Bytes: `return uint64(b)`).
	Identity []string `json:"identity,omitempty"`
	// Opaque lists printed callee expressions that stay opaque although the
	// callee is in the translation list (e.g. a method that mutates a shared
	// object through a pointer field).
	Opaque []string `json:"opaque,omitempty"`
	// Pure lists printed callee expressions whose calls are opaque *values*
	// that are not recorded in the trace (getters such as t.UnixNano).
	Pure []string `json:"pure,omitempty"`
	// NonNil lists pointer-to-struct parameters modelled as the struct itself,
	// like recv_nonnil for the receiver (callers never pass nil).
	NonNil []string `json:"nonnil,omitempty"`
	// TraceRepr renders trace arguments of non-scalar translatable type
	// (structures, options, lists) with `reprStr` instead of "_".
	TraceRepr bool `json:"trace_repr,omitempty"`
	// TraceNested: scalar-valued calls among the arguments of a traced call
	// statement are evaluated (and traced) first; their values appear in the
	// outer trace entry instead of "_".
	TraceNested bool `json:"trace_nested,omitempty"`
	// DropAbstract: locals of abstract type are not modelled as AbsPtr / Unit
	// values; `v := x.f` / `v := f(…)` drops the binding (the call stays an
	// effect) and `x.f = v` on an abstract x is the entry ("f=", [v]).
	DropAbstract bool `json:"drop_abstract,omitempty"`
	// Names represents values of abstract type by symbolic names (Strings)
	// instead of their nil-ness; see the header comment.
	Names bool `json:"names,omitempty"`
	// Out lists local variables whose final value is returned as well.
	Out []string `json:"out,omitempty"`
	// RangeBody translates the body of the first range statement only.
	RangeBody bool `json:"range_body,omitempty"`
	// LoopOpaque allows opaque calls and reads from abstract objects inside
	// range loops: one parameter then stands for the result in every iteration.
	LoopOpaque bool `json:"loop_opaque,omitempty"`
	// Fn lists printed callee expressions whose calls become applications of
	// one function parameter `f_<name>` (per callee) to the arguments of
	// translatable type: the result depends on those arguments only.
	Fn []string `json:"fn,omitempty"`
	// ListSlices: in this function byte slices are lists of integers even when
	// the spec file has "abstract_bytes", and `xs[lo:hi]` on a list is take/drop
	// also when the function is traced (instead of an opaque value).
	ListSlices bool `json:"list_slices,omitempty"`
	// TraceNew is the file-level option "trace_new" for this function only.
	TraceNew bool `json:"trace_new,omitempty"`
	// AsciiStrings: strings are read as ASCII texts — byte offsets are character
	// offsets; see the header comment.
	AsciiStrings bool `json:"ascii_strings,omitempty"`
	// ElemLoop: in an effect loop over an abstract collection the value variable
	// may be re-bound (`v = f(v).(T)`) and read in what is written through it.
	ElemLoop bool `json:"elem_loop,omitempty"`
}

type trSpecFile struct {
	Funcs []TrFunc `json:"funcs"`
	// Symbolic is either `true`: values of all abstract types become tokens
	// (see the header), or an object that maps qualified type names
	// ("net/netip.Addr") the subset cannot express to the Lean type that
	// stands for their values.
	Symbolic symbolicOpt `json:"symbolic,omitempty"`
	// AbstractBytes makes byte slices abstract buffers (see the header).
	AbstractBytes bool `json:"abstract_bytes,omitempty"`
	// TraceErrors: in traced functions fmt.Errorf / errors.New are opaque
	// calls (a parameter and a trace entry) instead of fixed error texts.
	TraceErrors bool `json:"trace_errors,omitempty"`
	// TraceNew: in traced functions `&T{…}` of abstract type is also the
	// trace entry ("new T", ["K=" ++ value, …]).
	TraceNew bool `json:"trace_new,omitempty"`
	// Refs models values of abstract type as identity tokens (see header).
	Refs bool `json:"refs,omitempty"`
}

// symbolicOpt is the value of the file-level option "symbolic": a boolean
// (all abstract types are tokens) or a map from type names to Lean types.
type symbolicOpt struct {
	All   bool
	Types map[string]string
}

func (o *symbolicOpt) UnmarshalJSON(b []byte) error {
	if err := json.Unmarshal(b, &o.All); err == nil {
		return nil
	}
	return json.Unmarshal(b, &o.Types)
}

type loadedPkg struct {
	fset  *token.FileSet
	files []*ast.File
	info  *types.Info
	pkg   *types.Package
}

type trLoader struct {
	harness string
	env     []string
	exports map[string]string
	dirs    map[string]string
	gofiles map[string][]string
	pkgs    map[string]*loadedPkg
	fset    *token.FileSet
	imp     types.Importer
}

func newTrLoader(harness, modfile string) *trLoader {
	env := append(os.Environ(), "GOWORK=off", "GOPROXY=off", "GOSUMDB=off", "GOTOOLCHAIN=local")
	flags := "-mod=mod"
	if modfile != "" {
		flags += " -modfile=" + modfile
	}
	env = append(env, "GOFLAGS="+flags)
	l := &trLoader{harness: harness, env: env, exports: map[string]string{}, dirs: map[string]string{},
		gofiles: map[string][]string{}, pkgs: map[string]*loadedPkg{}, fset: token.NewFileSet()}
	l.imp = importer.ForCompiler(l.fset, "gc", func(path string) (io.ReadCloser, error) {
		e, ok := l.exports[path]
		if !ok || e == "" {
			return nil, fmt.Errorf("no export data for %s", path)
		}
		return os.Open(e)
	})
	return l
}

func (l *trLoader) list(paths []string) error {
	args := append([]string{"list", "-export", "-deps", "-json=ImportPath,Export,Dir,GoFiles"}, paths...)
	cmd := exec.Command("go", args...)
	cmd.Dir = l.harness
	cmd.Env = l.env
	var stderr bytes.Buffer
	cmd.Stderr = &stderr
	out, err := cmd.Output()
	if err != nil {
		return fmt.Errorf("go list: %v: %s", err, stderr.String())
	}
	dec := json.NewDecoder(bytes.NewReader(out))
	for dec.More() {
		var p struct {
			ImportPath, Export, Dir string
			GoFiles                 []string
		}
		if err := dec.Decode(&p); err != nil {
			return err
		}
		l.exports[p.ImportPath] = p.Export
		l.dirs[p.ImportPath] = p.Dir
		l.gofiles[p.ImportPath] = p.GoFiles
	}
	return nil
}

func (l *trLoader) load(path string) (*loadedPkg, error) {
	if p, ok := l.pkgs[path]; ok {
		return p, nil
	}
	dir, ok := l.dirs[path]
	if !ok {
		return nil, fmt.Errorf("package %s not listed", path)
	}
	var files []*ast.File
	for _, fn := range l.gofiles[path] {
		f, err := parser.ParseFile(l.fset, filepath.Join(dir, fn), nil, parser.SkipObjectResolution)
		if err != nil {
			return nil, err
		}
		files = append(files, f)
	}
	info := &types.Info{Types: map[ast.Expr]types.TypeAndValue{}, Defs: map[*ast.Ident]types.Object{},
		Uses: map[*ast.Ident]types.Object{}, Selections: map[*ast.SelectorExpr]*types.Selection{}}
	conf := types.Config{Importer: l.imp, Error: func(error) {}}
	pkg, _ := conf.Check(path, l.fset, files, info)
	p := &loadedPkg{fset: l.fset, files: files, info: info, pkg: pkg}
	l.pkgs[path] = p
	return p, nil
}

// ---------------------------------------------------------------------------

type trErr struct{ msg string }

func fail(format string, a ...any) { panic(trErr{fmt.Sprintf(format, a...)}) }

type structDef struct {
	name   string
	fields []string // "name : Type"
	zero   []string // "name := zero"
}

type translator struct {
	l       *trLoader
	structs map[string]*structDef
	order   []string
	funcs   map[string]*funcOut // key: pkgpath + "." + Recv.Name
	byDecl  map[string]TrFunc
	out     []*funcOut
	// symbolic: values of abstract types are tokens (String / Option String).
	symbolic bool
	// absBytes: byte slices are abstract buffers.
	absBytes bool
	// traceErrors: fmt.Errorf / errors.New are traced opaque calls in traced functions.
	traceErrors bool
	// traceNew: `&T{…}` of abstract type is also a ("new T", […]) trace entry.
	traceNew bool
	// symb: the types declared symbolic one by one ("symbolic": {type: Lean type}).
	symb map[string]string
	refs bool // spec-file option "refs"
	// fileAbsBytes: the spec file has "abstract_bytes" (absBytes is switched off
	// while a function with "list_slices" is translated).
	fileAbsBytes bool
}

type funcOut struct {
	spec    TrFunc
	name    string
	params  []string
	resType string
	partial bool
	body    string
	err     string
	doc     string
	opaque  []string
	done    bool
	busy    bool
}

// leanType returns the Lean type of a Go type, or "" if untranslatable.  In
// symbolic mode an abstract type is a token: `Option String` if the Go type has
// nil (pointer, interface, slice, map, func, chan), `String` otherwise.
func (t *translator) leanType(ty types.Type) string {
	s := t.leanTypeC(ty)
	if s == "" && t.symbolic {
		switch ty.Underlying().(type) {
		case *types.Pointer, *types.Interface, *types.Slice, *types.Map, *types.Signature, *types.Chan:
			return "(Option String)"
		}
		return "String"
	}
	return s
}

// abstract reports whether ty has no concrete Lean counterpart.
func (t *translator) abstract(ty types.Type) bool { return t.leanTypeC(ty) == "" }

func (t *translator) leanTypeC(ty types.Type) string {
	switch u := ty.(type) {
	case *types.Named:
		if u.Obj().Pkg() == nil && u.Obj().Name() == "error" {
			return "(Option String)"
		}
		if u.Obj().Pkg() != nil && t.symb[u.Obj().Pkg().Path()+"."+u.Obj().Name()] != "" {
			return t.symb[u.Obj().Pkg().Path()+"."+u.Obj().Name()]
		}
		if st, ok := u.Underlying().(*types.Struct); ok {
			if s := t.structType(u, st); s != "" || !t.refs {
				return s
			}
			return "Int" // refs: value of an abstract struct type = identity token
		}
		return t.leanTypeC(u.Underlying())
	case *types.Alias:
		return t.leanTypeC(types.Unalias(u))
	case *types.Basic:
		switch {
		case u.Info()&types.IsInteger != 0:
			return "Int"
		case u.Info()&types.IsBoolean != 0:
			return "Bool"
		case u.Info()&types.IsString != 0:
			return "String"
		}
		return ""
	case *types.Pointer:
		if n, ok := u.Elem().(*types.Named); ok {
			if st, ok := n.Underlying().(*types.Struct); ok {
				if s := t.structType(n, st); s != "" {
					return "(Option " + s + ")"
				}
			}
		}
		if t.refs {
			return "(Option Int)" // refs: nil or an identity token
		}
		return ""
	case *types.Slice:
		if n, ok := types.Unalias(u.Elem()).(*types.Named); ok && n.Obj().Pkg() != nil {
			// a slice type declared symbolic ("[]net/netip.Prefix": "(List Unit)")
			if s := t.symb["[]"+n.Obj().Pkg().Path()+"."+n.Obj().Name()]; s != "" {
				return s
			}
		}
		// byte buffers are written through aliases (Read, Unpack, append on a
		// pooled buffer): they are abstract objects, not list values
		if b, ok := u.Elem().Underlying().(*types.Basic); ok && b.Kind() == types.Uint8 && t.absBytes {
			return ""
		}
		if el := t.leanType(u.Elem()); el != "" {
			return "(List " + el + ")"
		}
		if el := t.leanType(u.Elem()); t.refs && el != "" {
			return "(List " + el + ")"
		}
		return ""
	case *types.Interface:
		if u.NumMethods() == 1 && u.Method(0).Name() == "Error" {
			return "(Option String)"
		}
		if t.refs {
			return "(Option Int)"
		}
		return ""
	case *types.Tuple:
		var parts []string
		for i := 0; i < u.Len(); i++ {
			parts = append(parts, t.valType(u.At(i).Type()))
		}
		if len(parts) == 0 {
			return "Unit"
		}
		return "(" + strings.Join(parts, " × ") + ")"
	}
	return ""
}

// refAbstract reports whether, under "refs", ty is modelled as an identity token
// (abstract struct value, pointer to one, pointer to a non-struct, interface).
func (t *translator) refAbstract(ty types.Type) bool {
	if !t.refs || isError(ty) {
		return false
	}
	switch u := types.Unalias(ty).(type) {
	case *types.Named:
		if _, ok := u.Underlying().(*types.Struct); ok {
			return !structPkgAllowed(u)
		}
		return t.refAbstract(u.Underlying())
	case *types.Pointer:
		return !isPtrStruct(u) || t.refAbstract(u.Elem())
	case *types.Interface:
		return t.leanType(u) == "(Option Int)"
	}
	return false
}

// valType is the Lean type of a *value* (local, parameter that is compared with
// nil, result of an opaque call): the translated type when there is one,
// `AbsPtr` (its nil-ness: true = non-nil) for pointers, interfaces, maps,
// channels, functions and slices of abstract type, `Unit` for other abstract
// values.
func (t *translator) valType(ty types.Type) string {
	if lt := t.leanType(ty); lt != "" {
		return lt
	}
	switch ty.Underlying().(type) {
	case *types.Pointer, *types.Interface, *types.Map, *types.Chan, *types.Signature, *types.Slice:
		return "AbsPtr"
	}
	return "Unit"
}

func (t *translator) isAbstract(ty types.Type) bool { return t.leanType(ty) == "" }

// sanitizeColon is what a ':' in a name becomes: "_" (slice bounds `a[i:j]`),
// "" under the spec-file option "refs" (whose ties were written against that).
var sanitizeColon = "_"

func sanitize(s string) string {
	r := strings.NewReplacer(".", "_", "/", "_", "-", "_", "*", "", "(", "", ")", "", "[", "_", "]", "_", " ", "", "{", "", "}", "", "&", "", ":", sanitizeColon, ",", "_")
	return r.Replace(s)
}

// structPkgAllowed: struct types of the repository itself and the few library
// value types the configuration uses are translated; every other struct
// (time.Time, sync.Mutex, netip.Addr, dns.Msg, …) is abstract.
func structPkgAllowed(n *types.Named) bool {
	if n.Obj().Pkg() == nil {
		return false
	}
	p := n.Obj().Pkg().Path()
	return strings.HasPrefix(p, repoModule) || p == "github.com/AdguardTeam/golibs/timeutil"
}

func (t *translator) structType(n *types.Named, st *types.Struct) string {
	if !structPkgAllowed(n) {
		return ""
	}
	pk := ""
	if n.Obj().Pkg() != nil {
		pk = n.Obj().Pkg().Name() + "_"
	}
	name := "S_" + sanitize(pk+n.Obj().Name())
	if d, ok := t.structs[name]; ok {
		if d == nil {
			return "" // recursive
		}
		return name
	}
	t.structs[name] = nil
	d := &structDef{name: name}
	for i := 0; i < st.NumFields(); i++ {
		f := st.Field(i)
		lt := t.leanType(f.Type())
		if lt == "" {
			continue
		}
		d.fields = append(d.fields, fmt.Sprintf("%s : %s", leanIdent(f.Name()), lt))
	}
	t.structs[name] = d
	t.order = append(t.order, name)
	return name
}

var leanKeywords = map[string]bool{"end": true, "from": true, "fun": true, "at": true, "open": true, "in": true, "do": true,
	"then": true, "else": true, "if": true, "let": true, "have": true, "show": true, "match": true, "with": true, "type": true,
	"Type": true, "def": true, "theorem": true, "local": true, "where": true, "by": true, "instance": true, "structure": true,
	"class": true, "namespace": true, "section": true, "variable": true, "import": true, "export": true, "mutual": true,
	"partial": true, "private": true, "protected": true, "noncomputable": true, "unsafe": true, "macro": true, "syntax": true,
	"notation": true, "infix": true, "prefix": true, "postfix": true, "deriving": true, "extends": true, "using": true,
	"calc": true, "return": true, "for": true, "mut": true, "try": true, "catch": true, "finally": true, "unless": true,
	"nomatch": true, "nofun": true, "Prop": true, "Sort": true, "set_option": true, "attribute": true, "universe": true,
	"inductive": true, "rec": true, "abbrev": true, "example": true, "axiom": true, "opaque": true, "omit": true, "include": true}

func leanIdent(s string) string {
	if s == "_" {
		return "_"
	}
	if leanKeywords[s] {
		return s + "'"
	}
	return s
}

// ---------------------------------------------------------------------------
// Per-function translation.

type fctx struct {
	t           *translator
	p           *loadedPkg
	spec        TrFunc
	fd          *ast.FuncDecl
	recv        string // receiver variable name ("" if none)
	recvVal     bool   // pointer receiver modelled as the struct itself (recv_nonnil)
	recvMut     bool   // receiver is a pointer whose fields are assigned
	results     []*types.Var
	named       bool
	opaque      []string // extra parameters "name : Type"
	nOpaque     int
	fresh       int
	partial     bool
	ptrVars     map[string]bool // variables of pointer-to-struct type (Option S)
	derefd      map[string]string
	trace       bool
	localFns    map[string]*ast.FuncLit
	loop        *loopCtx
	opaqueVals  map[string]string
	defers      []deferred
	onEnd       func() string
	opaqueNodes map[ast.Expr]string
	typeTests   map[*ast.TypeAssertExpr]bool
	loopEnd     map[*ast.EmptyStmt]int
	opaqueCalls map[*ast.CallExpr]string
	nonNil      map[types.Object]bool
	paramMut    []string // pointer parameters whose fields are assigned (returned after the receiver)
	elemVars    map[types.Object]string // loop variables over symbolic slices of abstract elements: Lean type
	forIter     string                  // inside a `for cond {}` loop: the Lean variable holding the iteration number
	forParams   map[string]bool         // opaque parameters that are functions of the iteration number
	nFor        int                     // number of `for cond {}` loops translated so far
	forFuel     map[*ast.ForStmt]string // their bound parameters
	elemLoopVar types.Object            // "elem_loop": the value variable of the effect loop being translated
}

type ex struct {
	code    string
	partial bool // code has type Option T instead of T
}

func (c *fctx) isRecvVal(e ast.Expr) bool {
	id, ok := e.(*ast.Ident)
	if ok && c.nonNil[c.p.info.Uses[id]] {
		return true
	}
	return ok && c.recvVal && id.Name == c.recv
}

func (c *fctx) tmp(prefix string) string {
	c.fresh++
	return fmt.Sprintf("%s%d", prefix, c.fresh)
}

func (c *fctx) show(n ast.Node) string {
	var buf bytes.Buffer
	_ = printer.Fprint(&buf, c.p.fset, n)
	return strings.Join(strings.Fields(buf.String()), " ")
}

func intLit(v constant.Value) string {
	s := v.ExactString()
	if strings.HasPrefix(s, "-") {
		return "(" + s + " : Int)"
	}
	return "(" + s + " : Int)"
}

func (c *fctx) typeOf(e ast.Expr) types.Type {
	tv, ok := c.p.info.Types[e]
	if !ok || tv.Type == nil {
		if id, ok := e.(*ast.Ident); ok {
			if o := c.p.info.Uses[id]; o != nil {
				return o.Type()
			}
			if o := c.p.info.Defs[id]; o != nil {
				return o.Type()
			}
		}
		fail("no type for %s", c.show(e))
	}
	return tv.Type
}

func isInt(t types.Type) bool {
	b, ok := t.Underlying().(*types.Basic)
	return ok && b.Info()&types.IsInteger != 0
}
func isUnsigned(t types.Type) bool {
	b, ok := t.Underlying().(*types.Basic)
	return ok && b.Info()&types.IsUnsigned != 0
}

// unsignedBits is the width of an unsigned integer type (uint and uintptr are
// 64 bits wide on the platforms the server runs on), 0 for other types.
func unsignedBits(t types.Type) int {
	b, ok := t.Underlying().(*types.Basic)
	if !ok || b.Info()&types.IsUnsigned == 0 {
		return 0
	}
	switch b.Kind() {
	case types.Uint8:
		return 8
	case types.Uint16:
		return 16
	case types.Uint32:
		return 32
	}
	return 64
}
func pow2(bits int) string {
	return map[int]string{8: "256", 16: "65536", 32: "4294967296", 64: "18446744073709551616"}[bits]
}
func isBool(t types.Type) bool {
	b, ok := t.Underlying().(*types.Basic)
	return ok && b.Info()&types.IsBoolean != 0
}
func isString(t types.Type) bool {
	b, ok := t.Underlying().(*types.Basic)
	return ok && b.Info()&types.IsString != 0
}
func isError(t types.Type) bool {
	if n, ok := t.(*types.Named); ok && n.Obj().Pkg() == nil && n.Obj().Name() == "error" {
		return true
	}
	return false
}
func isPtrStruct(t types.Type) bool {
	p, ok := t.(*types.Pointer)
	if !ok {
		return false
	}
	_, ok = p.Elem().Underlying().(*types.Struct)
	return ok
}

// implementsError reports whether t is a concrete (non-interface) type with an
// Error() string method.
func implementsError(t types.Type) bool {
	if isError(t) {
		return false
	}
	if _, ok := t.Underlying().(*types.Interface); ok {
		return false
	}
	ms := types.NewMethodSet(t)
	for i := 0; i < ms.Len(); i++ {
		if ms.At(i).Obj().Name() == "Error" {
			return true
		}
	}
	return false
}

// exprAs translates e for a context of type to (implicit conversion of a
// concrete error value to the error interface).
func (c *fctx) exprAs(e ast.Expr, to types.Type) ex {
	if c.spec.Names && to != nil && c.t.leanType(to) == "" {
		if a, ok := c.absExpr(e, true); ok {
			return a
		}
		fail("abstract value %s", c.show(e))
	}
	if to != nil && c.t.leanType(to) == "" && c.t.valType(to) == "AbsPtr" {
		// a value flowing into an abstract nil-able type: only its nil-ness is kept
		if id, ok := e.(*ast.Ident); ok && id.Name == "nil" {
			return ex{code: "false"}
		}
		if u, ok := e.(*ast.UnaryExpr); ok && u.Op == token.AND {
			if cl, ok := u.X.(*ast.CompositeLit); ok {
				var xs []ex
				for _, el := range cl.Elts {
					v := el
					if kv, ok := el.(*ast.KeyValueExpr); ok {
						v = kv.Value
					}
					if call, isCall := v.(*ast.CallExpr); isCall && !c.matches(c.spec.Pure, call) {
						xs = append(xs, c.expr(v))
					}
				}
				r := c.bindN(xs, func(s []string) string {
					if len(s) == 0 {
						return "true"
					}
					return "(Function.const _ true (" + strings.Join(s, ", ") + "))"
				})
				if c.trace && (c.t.traceNew || c.spec.TraceNew) {
					r.code += "«call:" + c.litEntry(cl) + "»"
				}
				return r
			}
		}
		if from := c.typeOf(e); c.t.leanType(from) != "" && isPtrStruct(from) {
			x := c.expr(e)
			return c.bindN([]ex{x}, func(s []string) string { return "(" + s[0] + ").isSome" })
		}
		if _, toIface := to.Underlying().(*types.Interface); toIface && !types.IsInterface(c.typeOf(e)) {
			// a concrete value stored in an interface is a non-nil interface
			x := c.expr(e)
			if _, calls := traceSplit(x.code); len(calls) > 0 {
				// the calls that make the value stay in the trace (in order), the
				// value itself is a non-nil interface
				if x.partial {
					fail("traced call inside a value converted to an abstract interface: %s", c.show(e))
				}
				pre := ""
				for _, m := range calls {
					pre += "«call:" + m + "»"
				}
				return ex{code: pre + "true"}
			}
			return c.bindN([]ex{x}, func([]string) string { return "true" })
		}
	}
	if id, ok := e.(*ast.Ident); ok && id.Name == "nil" && to != nil && strings.HasPrefix(c.t.leanType(to), "(List") {
		return ex{code: "[]"} // a nil slice of translated element type
	}
	if to != nil && isError(to) {
		if id, ok := e.(*ast.Ident); ok && id.Name == "nil" {
			return ex{code: "none"}
		}
		from := c.typeOf(e)
		if implementsError(from) {
			if isString(from) {
				x := c.expr(e)
				return c.bindN([]ex{x}, func(s []string) string { return "(some " + s[0] + ")" })
			}
			return ex{code: fmt.Sprintf("(some %q)", c.show(e))}
		}
	}
	return c.expr(e)
}

// absExpr gives the symbolic name (a Lean String) of an expression of abstract
// type ("names"): a local holds the name it was assigned; a field path is its
// own source text; where value is set (assignments, returns) nil and parameters
// are their own text too and a call is traced and named by its source text.
func (c *fctx) absExpr(e ast.Expr, value bool) (ex, bool) {
	switch x := ast.Unparen(e).(type) {
	case *ast.Ident:
		v, ok := c.p.info.Uses[x].(*types.Var)
		if ok && v.Parent() != c.p.pkg.Scope() && !(c.fd.Type.Params.Pos() <= v.Pos() && v.Pos() < c.fd.Type.Params.End()) &&
			!(c.fd.Recv != nil && c.fd.Recv.Pos() <= v.Pos() && v.Pos() < c.fd.Recv.End()) {
			return ex{code: leanIdent(x.Name)}, true
		}
		return ex{code: fmt.Sprintf("%q", x.Name)}, value
	case *ast.SelectorExpr:
		if c.isFieldPath(x) {
			return ex{code: fmt.Sprintf("%q", c.show(x))}, true
		}
	case *ast.CallExpr:
		if value {
			return ex{code: "«call:" + c.traceEntry(x) + "»" + fmt.Sprintf("%q", c.show(x))}, true
		}
	}
	return ex{}, false
}

func (c *fctx) isFieldPath(e ast.Expr) bool {
	switch x := e.(type) {
	case *ast.Ident:
		_, ok := c.p.info.Uses[x].(*types.Var)
		return ok
	case *ast.SelectorExpr:
		sel := c.p.info.Selections[x]
		return sel != nil && sel.Kind() == types.FieldVal && c.isFieldPath(x.X)
	}
	return false
}

// bind2 combines sub-expressions: f receives pure codes.
func (c *fctx) bindN(xs []ex, f func(codes []string) string) ex {
	codes := make([]string, len(xs))
	any := false
	for i, x := range xs {
		if x.partial {
			any = true
			codes[i] = c.tmp("v")
		} else {
			codes[i] = x.code
		}
	}
	if !any {
		return ex{code: f(codes)}
	}
	res := "some (" + f(codes) + ")"
	for i := len(xs) - 1; i >= 0; i-- {
		if xs[i].partial {
			res = fmt.Sprintf("(%s).bind fun %s => %s", xs[i].code, codes[i], res)
		}
	}
	return ex{code: "(" + res + ")", partial: true}
}

func (c *fctx) expr(e ast.Expr) ex {
	// constants first
	if tv, ok := c.p.info.Types[e]; ok && tv.Value != nil {
		switch tv.Value.Kind() {
		case constant.Int:
			return ex{code: intLit(tv.Value)}
		case constant.Bool:
			return ex{code: fmt.Sprint(constant.BoolVal(tv.Value))}
		case constant.String:
			return ex{code: fmt.Sprintf("%q", constant.StringVal(tv.Value))}
		}
		fail("unsupported constant %s", c.show(e))
	}
	switch x := e.(type) {
	case *ast.ParenExpr:
		return c.expr(x.X)
	case *ast.Ident:
		if x.Name == "nil" {
			return ex{code: "none"}
		}
		if x.Name == "true" || x.Name == "false" {
			return ex{code: x.Name}
		}
		obj := c.p.info.Uses[x]
		if v, ok := obj.(*types.Var); ok {
			if v.Parent() == c.p.pkg.Scope() {
				// package-level variable: opaque value
				if isError(v.Type()) {
					return ex{code: fmt.Sprintf("(some %q)", x.Name)}
				}
				if c.t.symbolic && c.t.abstract(v.Type()) {
					return c.token(v.Type(), x.Name)
				}
				fail("package-level variable %s", x.Name)
			}
			return ex{code: leanIdent(x.Name)}
		}
		fail("identifier %s", x.Name)
	case *ast.SelectorExpr:
		return c.selector(x)
	case *ast.StarExpr:
		if c.t.isAbstract(c.typeOf(x)) || c.t.refs {
			// what an abstract pointer points to: an abstract value again
			// ("refs": `*p` is always an opaque value)
			return c.opaqueValue(x)
		}
	case *ast.SliceExpr:
		if c.t.isAbstract(c.typeOf(x.X)) {
			// a sub-slice of an abstract buffer is nil iff the buffer is; the
			// bounds are shown where the slice is passed to a traced call
			return c.expr(x.X)
		}
	case *ast.UnaryExpr:
		if x.Op == token.AND && c.t.refs {
			return c.opaqueValue(e) // "refs": address of something: a fresh identity token
		}
		if cl, ok := x.X.(*ast.CompositeLit); ok && x.Op == token.AND && c.t.isAbstract(c.typeOf(x)) {
			// a freshly allocated abstract object: non-nil; calls among its
			// elements are evaluated (for the trace)
			var xs []ex
			for _, el := range cl.Elts {
				v := el
				if kv, ok := el.(*ast.KeyValueExpr); ok {
					v = kv.Value
				}
				if _, isCall := v.(*ast.CallExpr); isCall {
					xs = append(xs, c.expr(v))
				}
			}
			r := c.bindN(xs, func(s []string) string {
				if len(s) == 0 {
					return "true"
				}
				return "(Function.const _ true (" + strings.Join(s, ", ") + "))"
			})
			if c.trace && (c.t.traceNew || c.spec.TraceNew) {
				r.code += "«call:" + c.litEntry(cl) + "»"
			}
			return r
		}
		if cl, ok := x.X.(*ast.CompositeLit); ok && x.Op == token.AND {
			return c.bindN([]ex{c.expr(cl)}, func(s []string) string { return "(some " + s[0] + ")" })
		}
		a := c.expr(x.X)
		if _, isLit := x.X.(*ast.CompositeLit); isLit && x.Op == token.AND && strings.HasPrefix(c.t.leanType(c.typeOf(x)), "(Option S_") {
			return c.bindN([]ex{a}, func(s []string) string { return "(some " + s[0] + ")" })
		}
		switch x.Op {
		case token.NOT:
			return c.bindN([]ex{a}, func(s []string) string { return "(!" + s[0] + ")" })
		case token.SUB:
			return c.bindN([]ex{a}, func(s []string) string { return "(-" + s[0] + ")" })
		case token.ADD:
			return a
		case token.AND:
			if _, isLit := x.X.(*ast.CompositeLit); isLit {
				return c.bindN([]ex{a}, func(s []string) string { return "(some " + s[0] + ")" })
			}
		}
		fail("unary %s", x.Op)
	case *ast.BinaryExpr:
		return c.binary(x)
	case *ast.CallExpr:
		return c.call(x)
	case *ast.BasicLit:
		fail("literal %s without constant value", x.Value)
	case *ast.CompositeLit:
		if sl, ok := c.typeOf(x).Underlying().(*types.Slice); ok && c.t.leanType(sl.Elem()) != "" {
			var xs []ex
			for _, el := range x.Elts {
				xs = append(xs, c.exprAs(el, sl.Elem()))
			}
			return c.bindN(xs, func(s []string) string { return "[" + strings.Join(s, ", ") + "]" })
		}
		if n, ok := types.Unalias(c.typeOf(x)).(*types.Named); ok {
			if st, ok := n.Underlying().(*types.Struct); ok {
				if lt := c.t.structType(n, st); lt != "" {
					return c.structLit(x, st, lt)
				}
			}
		}
		if n, ok := c.typeOf(x).(*types.Named); ok && len(x.Elts) == 0 && n.Obj().Pkg() != nil && c.t.symb[n.Obj().Pkg().Path()+"."+n.Obj().Name()] != "" {
			return ex{code: c.zero(n)}
		}
		if len(x.Elts) == 0 && c.t.refAbstract(c.typeOf(x)) && c.t.leanType(c.typeOf(x)) == "Int" {
			return ex{code: "(0 : Int)"} // zero value of an abstract struct: the token 0
		}
		if _, isSt := c.typeOf(x).Underlying().(*types.Struct); isSt && len(x.Elts) == 0 && !c.t.symbolic && !c.t.refs && c.t.valType(c.typeOf(x)) == "Unit" {
			return ex{code: "()"} // `T{}` of an abstract struct type: a value nothing is known about
		}
	}
	if ix, ok := e.(*ast.IndexExpr); ok {
		if _, isSl := c.typeOf(ix.X).Underlying().(*types.Slice); isSl && c.t.leanType(c.typeOf(ix.X)) != "" && isInt(c.typeOf(ix.Index)) {
			// out of range => panic
			c.partial = true
			r := c.bindN([]ex{c.expr(ix.X), c.expr(ix.Index)}, func(s []string) string { return "(goIndex? " + s[0] + " " + s[1] + ")" })
			if r.partial {
				return ex{code: "(Option.join " + r.code + ")", partial: true}
			}
			return ex{code: r.code, partial: true}
		}
		return c.opaqueValue(e)
	}
	if c.t.symbolic {
		switch x := e.(type) {
		case *ast.CompositeLit:
			if _, ok := c.typeOf(x).Underlying().(*types.Struct); ok && c.t.abstract(c.typeOf(e)) {
				return c.tokenLit(x)
			}
		case *ast.TypeAssertExpr:
			if c.t.abstract(c.typeOf(e)) || c.t.abstract(c.typeOf(x.X)) {
				return c.opaqueValue(e)
			}
		case *ast.SliceExpr:
			if c.t.abstract(c.typeOf(e)) || c.t.abstract(c.typeOf(x.X)) {
				return c.opaqueValue(e)
			}
		}
	}
	if se, ok := e.(*ast.SliceExpr); ok && c.trace && !isString(c.typeOf(e)) &&
		!(c.spec.ListSlices && strings.HasPrefix(c.t.leanType(c.typeOf(se.X)), "(List")) {
		// re-slicing (capacity) is beyond the subset: an opaque value; a call
		// operand is evaluated for the trace, then ("slice", [text with bounds])
		pre := ""
		if _, isCall := se.X.(*ast.CallExpr); isCall {
			_, calls := traceSplit(c.expr(se.X).code)
			for _, m := range calls {
				pre += "«call:" + m + "»"
			}
		}
		if c.opaqueNodes == nil {
			c.opaqueNodes = map[ast.Expr]string{}
		}
		name, ok := c.opaqueNodes[e]
		if !ok {
			c.nOpaque++
			name = fmt.Sprintf("e%d_slice", c.nOpaque)
			c.opaque = append(c.opaque, fmt.Sprintf("(%s : %s)", name, c.t.valType(c.typeOf(e))))
			c.opaqueNodes[e] = name
		}
		arg := ""
		if c.t.symbolic {
			// traceArg leaves slice expressions to expr in symbolic mode, which would come
			// back here for ever: the source text stands for the re-sliced value
			arg = fmt.Sprintf("%q", c.show(se))
		} else {
			arg = c.traceArg(se)
		}
		return ex{code: pre + "«call:(\"slice\", [" + arg + "])»" + name}
	}
	if sx, ok := e.(*ast.SliceExpr); ok && !sx.Slice3 && c.spec.AsciiStrings && isString(c.typeOf(sx.X)) {
		// "ascii_strings": s[lo:hi] by character offsets; out of range => panic
		c.partial = true
		str := c.expr(sx.X)
		parts := []ex{str, {code: "(0 : Int)"}, {code: ""}}
		if sx.Low != nil {
			parts[1] = c.expr(sx.Low)
		}
		if sx.High != nil {
			parts[2] = c.expr(sx.High)
		}
		r := c.bindN(parts, func(s []string) string {
			hi := s[2]
			if hi == "" {
				hi = "(goStrLen " + s[0] + ")"
			}
			return fmt.Sprintf("(goStrSlice? %s %s %s)", s[0], s[1], hi)
		})
		if r.partial {
			return ex{code: "(Option.join " + r.code + ")", partial: true}
		}
		return ex{code: r.code, partial: true}
	}
	if sx, ok := e.(*ast.SliceExpr); ok && !sx.Slice3 {
		if _, isSl := c.typeOf(sx.X).Underlying().(*types.Slice); isSl && strings.HasPrefix(c.t.leanType(c.typeOf(sx.X)), "(List") {
			// xs[lo:hi] on a list (abstract buffers, symbolic tokens and, in trace
			// mode, re-slicing as an opaque value are handled above); bounds outside 0 ≤ lo ≤ hi ≤ len => panic (capacity is not modelled)
			c.partial = true
			parts := []ex{c.expr(sx.X), {code: "(0 : Int)"}}
			if sx.Low != nil {
				parts[1] = c.expr(sx.Low)
			}
			if sx.High != nil {
				parts = append(parts, c.expr(sx.High))
			}
			r := c.bindN(parts, func(s []string) string {
				hi := "(" + s[0] + ".length : Int)"
				if len(s) == 3 {
					hi = s[2]
				}
				return fmt.Sprintf("(if 0 ≤ %s ∧ %s ≤ %s ∧ %s ≤ (%s.length : Int) then some ((%s.take (%s).toNat).drop (%s).toNat) else none)", s[1], s[1], hi, hi, s[0], s[0], hi, s[1])
			})
			if r.partial {
				return ex{code: "(Option.join " + r.code + ")", partial: true}
			}
			return ex{code: r.code, partial: true}
		}
	}
	if ta, ok := e.(*ast.TypeAssertExpr); ok && c.typeTests[ta] {
		// "the dynamic type of X is T" (a clause of a type switch): an opaque Bool
		key := c.show(ta.X) + " is " + c.show(ta.Type)
		if n, ok := c.opaqueVals[key]; ok {
			return ex{code: n}
		}
		if c.opaqueVals == nil {
			c.opaqueVals = map[string]string{}
		}
		c.nOpaque++
		name := fmt.Sprintf("e%d_is_%s", c.nOpaque, sanitize(lastName(c.show(ta.Type))))
		c.opaque = append(c.opaque, fmt.Sprintf("(%s : Bool)", name))
		c.opaqueVals[key] = name
		return ex{code: name}
	}
	if _, ok := e.(*ast.TypeAssertExpr); ok {
		return c.opaqueValue(e)
	}
	fail("expression %s (%T)", c.show(e), e)
	return ex{}
}

// structLit translates a keyed literal `T{f: v, …}` of a translated struct
// type: the given fields are evaluated in the order of the literal, the other
// fields are zero; elements of fields the structure does not have (abstract
// types) are dropped; in traced functions they must be call-free (a dropped call
// would be a lost effect).
func (c *fctx) structLit(x *ast.CompositeLit, st *types.Struct, lt string) ex {
	var xs []ex
	var names []string
	given := map[string]bool{}
	for _, el := range x.Elts {
		kv, ok := el.(*ast.KeyValueExpr)
		if !ok {
			fail("positional struct literal %s", c.show(x))
		}
		k := kv.Key.(*ast.Ident).Name
		ft := c.typeOf(kv.Value)
		for i := 0; i < st.NumFields(); i++ {
			if st.Field(i).Name() == k {
				ft = st.Field(i).Type()
			}
		}
		given[k] = true
		if c.t.leanType(ft) == "" {
			if call, isCall := ast.Unparen(kv.Value).(*ast.CallExpr); isCall && (c.matches(c.spec.Pure, call) || c.matches(c.spec.Ignore, call)) {
				allPure := true
				for _, a := range call.Args {
					allPure = allPure && !hasCall(a)
				}
				if allPure {
					continue // a call listed under "pure" / "ignore": no trace entry to lose
				}
			}
			if c.trace && hasCall(kv.Value) {
				fail("call in dropped field %s", c.show(kv)) // its trace entry would be lost
			}
			continue
		}
		xs, names = append(xs, c.exprAs(kv.Value, ft)), append(names, leanIdent(k))
	}
	return c.bindN(xs, func(s []string) string {
		var parts []string
		for i, n := range names {
			parts = append(parts, n+" := "+s[i])
		}
		for i := 0; i < st.NumFields(); i++ {
			if f := st.Field(i); !given[f.Name()] && c.t.leanType(f.Type()) != "" {
				parts = append(parts, leanIdent(f.Name())+" := "+c.zero(f.Type()))
			}
		}
		if len(parts) == 0 {
			return lt + ".mk"
		}
		return "({ " + strings.Join(parts, ", ") + " } : " + lt + ")"
	})
}

// token is a fixed token of abstract type ty (symbolic mode).
func (c *fctx) token(ty types.Type, name string) ex {
	if c.t.leanType(ty) == "String" {
		return ex{code: fmt.Sprintf("%q", name)}
	}
	return ex{code: fmt.Sprintf("(some %q)", name)}
}

// tokenLit is the token of a literal of an abstract struct type: "" for the
// zero value `T{}`, otherwise "T{f=v;…}" over the keyed fields whose values are
// integers, booleans, strings or tokens.
func (c *fctx) tokenLit(x *ast.CompositeLit) ex {
	if len(x.Elts) == 0 {
		return ex{code: `""`}
	}
	var names []string
	var xs []ex
	for _, el := range x.Elts {
		kv, ok := el.(*ast.KeyValueExpr)
		if !ok {
			fail("positional literal %s", c.show(x))
		}
		v := c.expr(kv.Value)
		if lt := c.t.leanType(c.typeOf(kv.Value)); lt != "String" {
			v = c.bindN([]ex{v}, func(s []string) string { return "(toString " + s[0] + ")" })
		}
		names, xs = append(names, c.show(kv.Key)), append(xs, v)
	}
	return c.bindN(xs, func(s []string) string {
		r := fmt.Sprintf("%q", c.show(x.Type)+"{")
		for i, n := range names {
			r += fmt.Sprintf(" ++ %q ++ %s", n+"=", s[i]) + ` ++ ";"`
		}
		return "(" + r + ` ++ "}")`
	})
}

// litEntry is the trace entry of `&T{K: v, …}` of abstract type: ("new T",
// ["K=" ++ value, …]), nested literals flattened to "K.L=…"; values as in traceArg.
func (c *fctx) litEntry(cl *ast.CompositeLit) string {
	var args []string
	var walk func(l *ast.CompositeLit, prefix string)
	walk = func(l *ast.CompositeLit, prefix string) {
		for _, el := range l.Elts {
			kv, ok := el.(*ast.KeyValueExpr)
			if !ok {
				args = append(args, c.traceArg(el))
			} else if in, ok := kv.Value.(*ast.CompositeLit); ok {
				walk(in, prefix+c.show(kv.Key)+".")
			} else {
				args = append(args, fmt.Sprintf("(%q ++ %s)", prefix+c.show(kv.Key)+"=", c.traceArg(kv.Value)))
			}
		}
	}
	walk(cl, "")
	return fmt.Sprintf("(%q, [%s])", "new "+c.show(cl.Type), strings.Join(args, ", "))
}

// opaqueValue turns an expression the subset cannot express (an element of a
// slice, a field of a library struct) into an extra parameter holding its value.
func (c *fctx) opaqueValue(e ast.Expr) ex {
	if c.loop != nil && !c.spec.LoopOpaque {
		// (also inside `for cond {}` loops: a per-iteration reading is not implemented)
		fail("value %s read from an abstract object inside a loop", c.show(e))
	}
	lt := c.t.valType(c.typeOf(e))
	key := c.show(e)
	if c.opaqueVals == nil {
		c.opaqueVals = map[string]string{}
	}
	if c.opaqueNodes == nil {
		c.opaqueNodes = map[ast.Expr]string{}
	}
	// the same source expression in the two copies of a duplicated
	// continuation is one parameter (only one copy runs)
	if n, ok := c.opaqueNodes[e]; ok {
		c.opaqueVals[key] = n
		return ex{code: n}
	}
	if n, ok := c.opaqueVals[key]; ok {
		c.opaqueNodes[e] = n
		return ex{code: n}
	}
	c.nOpaque++
	name := fmt.Sprintf("e%d_%s", c.nOpaque, strings.Map(func(r rune) rune {
		if r == '_' || r >= '0' && r <= '9' || r >= 'a' && r <= 'z' || r >= 'A' && r <= 'Z' {
			return r
		}
		return -1
	}, strings.NewReplacer("==", "_is_", "!=", "_not_").Replace(sanitize(lastName(key)))))
	c.opaque = append(c.opaque, fmt.Sprintf("(%s : %s)", name, lt))
	c.opaqueVals[key] = name
	c.opaqueNodes[e] = name
	return ex{code: name}
}

func (c *fctx) selector(x *ast.SelectorExpr) ex {
	// qualified identifier (pkg.Var): only errors as opaque values
	if id, ok := x.X.(*ast.Ident); ok {
		if _, isPkg := c.p.info.Uses[id].(*types.PkgName); isPkg {
			if isError(c.typeOf(x)) {
				return ex{code: fmt.Sprintf("(some %q)", c.show(x))}
			}
			if c.t.symbolic && c.t.abstract(c.typeOf(x)) {
				return c.token(c.typeOf(x), c.show(x))
			}
			fail("package-qualified value %s", c.show(x))
		}
	}
	sel := c.p.info.Selections[x]
	if sel == nil || sel.Kind() != types.FieldVal {
		fail("selector %s is not a field", c.show(x))
	}
	if bt := c.typeOf(x.X); c.t.abstract(bt) || c.t.refAbstract(bt) {
		return c.opaqueValue(x)
	}
	if len(sel.Index()) != 1 {
		fail("embedded field path %s", c.show(x))
	}
	if c.t.leanType(sel.Obj().Type()) == "" {
		return c.opaqueValue(x)
	}
	base := c.expr(x.X)
	f := leanIdent(x.Sel.Name)
	if isPtrStruct(c.typeOf(x.X)) && !c.isRecvVal(x.X) {
		// dereference: nil pointer => panic
		c.partial = true
		v := c.tmp("p")
		if base.partial {
			return ex{code: fmt.Sprintf("((%s).bind fun o => o.bind fun %s => some %s.%s)", base.code, v, v, f), partial: true}
		}
		return ex{code: fmt.Sprintf("((%s).bind fun %s => some %s.%s)", base.code, v, v, f), partial: true}
	}
	return c.bindN([]ex{base}, func(s []string) string { return s[0] + "." + f })
}

func (c *fctx) binary(x *ast.BinaryExpr) ex {
	tx := c.typeOf(x.X)
	switch x.Op {
	case token.LAND, token.LOR:
		a, b := c.expr(x.X), c.expr(x.Y)
		if !b.partial {
			op := "&&"
			if x.Op == token.LOR {
				op = "||"
			}
			return c.bindN([]ex{a, b}, func(s []string) string { return "(" + s[0] + " " + op + " " + s[1] + ")" })
		}
		// short circuit: b is evaluated only if needed
		c.partial = true
		av := a.code
		if !a.partial {
			av = "some " + a.code
		}
		v := c.tmp("b")
		if x.Op == token.LAND {
			return ex{code: fmt.Sprintf("((%s).bind fun %s => if %s then %s else some false)", av, v, v, b.code), partial: true}
		}
		return ex{code: fmt.Sprintf("((%s).bind fun %s => if %s then some true else %s)", av, v, v, b.code), partial: true}
	case token.EQL, token.NEQ:
		// nil comparisons
		if id, ok := x.Y.(*ast.Ident); ok && id.Name == "nil" && c.p.info.Uses[id] == types.Universe.Lookup("nil") {
			if c.isRecvVal(x.X) {
				return ex{code: fmt.Sprint(x.Op == token.NEQ)}
			}
			if c.t.valType(tx) == "AbsPtr" {
				a := c.expr(x.X)
				if x.Op == token.NEQ {
					return a
				}
				return c.bindN([]ex{a}, func(s []string) string { return "(!" + s[0] + ")" })
			}
			a := c.expr(x.X)
			m := "isNone"
			if x.Op == token.NEQ {
				m = "isSome"
			}
			if strings.HasPrefix(c.t.leanType(tx), "(List") {
				// lists have no nil: a nil slice is the empty list (a non-nil empty slice is not told apart)
				m = map[bool]string{false: "isEmpty", true: "isEmpty.not"}[x.Op == token.NEQ]
				return c.bindN([]ex{a}, func(s []string) string { return "(" + s[0] + ")." + m })
			}
			if c.t.leanType(tx) == "" || !(isError(tx) || isPtrStruct(tx) || strings.HasPrefix(c.t.leanType(tx), "(Option")) {
				fail("nil comparison of %s", c.show(x.X))
			}
			return c.bindN([]ex{a}, func(s []string) string { return "(" + s[0] + ")." + m })
		}
		if c.t.valType(tx) == "AbsPtr" && c.t.leanType(tx) == "" && !c.t.symbolic && !c.t.refs {
			// identity of two abstract objects (`p != q`) is not modelled: an opaque Bool
			return c.opaqueValue(x)
		}
		a, b := c.expr(x.X), c.expr(x.Y)
		neg := x.Op == token.NEQ
		return c.bindN([]ex{a, b}, func(s []string) string {
			var r string
			if isBool(tx) {
				r = "(" + s[0] + " == " + s[1] + ")"
			} else if isInt(tx) || isString(tx) || (c.t.symbolic && c.t.abstract(tx)) || c.t.leanType(tx) == "String" {
				r = "(decide (" + s[0] + " = " + s[1] + "))"
			} else {
				fail("equality on %s", tx)
			}
			if neg {
				return "(!" + r + ")"
			}
			return r
		})
	case token.LSS, token.LEQ, token.GTR, token.GEQ:
		if !isInt(tx) {
			fail("ordering on %s", tx)
		}
		a, b := c.expr(x.X), c.expr(x.Y)
		op := map[token.Token]string{token.LSS: "<", token.LEQ: "≤", token.GTR: ">", token.GEQ: "≥"}[x.Op]
		return c.bindN([]ex{a, b}, func(s []string) string { return "(decide (" + s[0] + " " + op + " " + s[1] + "))" })
	case token.ADD, token.SUB, token.MUL:
		if isString(tx) && x.Op == token.ADD {
			a, b := c.expr(x.X), c.expr(x.Y)
			return c.bindN([]ex{a, b}, func(s []string) string { return "(" + s[0] + " ++ " + s[1] + ")" })
		}
		if !isInt(tx) {
			fail("arithmetic on %s", tx)
		}
		a, b := c.expr(x.X), c.expr(x.Y)
		bits := unsignedBits(c.typeOf(x))
		return c.bindN([]ex{a, b}, func(s []string) string {
			r := "(" + s[0] + " " + x.Op.String() + " " + s[1] + ")"
			if bits > 0 {
				return fmt.Sprintf("(goWrapU %s %s)", pow2(bits), r)
			}
			return r
		})
	case token.QUO, token.REM:
		if !isInt(tx) {
			fail("division on %s", tx)
		}
		a, b := c.expr(x.X), c.expr(x.Y)
		fn := "Int.tdiv"
		if x.Op == token.REM {
			fn = "Int.tmod"
		}
		// constant non-zero divisor: total
		if tv, ok := c.p.info.Types[x.Y]; ok && tv.Value != nil && constant.Sign(tv.Value) != 0 {
			return c.bindN([]ex{a, b}, func(s []string) string { return "(" + fn + " " + s[0] + " " + s[1] + ")" })
		}
		c.partial = true
		r := c.bindN([]ex{a, b}, func(s []string) string {
			return "(goDiv? " + fn + " " + s[0] + " " + s[1] + ")"
		})
		if r.partial {
			// bindN wrapped in `some (...)`: flatten
			return ex{code: "(Option.join " + r.code + ")", partial: true}
		}
		return ex{code: r.code, partial: true}
	}
	fail("binary operator %s", x.Op)
	return ex{}
}

func (c *fctx) calleeKey(call *ast.CallExpr) (key string, recvExpr ast.Expr) {
	switch f := call.Fun.(type) {
	case *ast.Ident:
		if fn, ok := c.p.info.Uses[f].(*types.Func); ok && fn.Pkg() != nil {
			return fn.Pkg().Path() + "." + fn.Name(), nil
		}
	case *ast.SelectorExpr:
		if sel := c.p.info.Selections[f]; sel != nil && sel.Kind() == types.MethodVal {
			fn := sel.Obj().(*types.Func)
			rt := sel.Recv()
			if p, ok := rt.(*types.Pointer); ok {
				rt = p.Elem()
			}
			if n, ok := types.Unalias(rt).(*types.Named); ok && fn.Pkg() != nil {
				return fn.Pkg().Path() + "." + n.Obj().Name() + "." + fn.Name(), f.X
			}
		}
		if fn, ok := c.p.info.Uses[f.Sel].(*types.Func); ok && fn.Pkg() != nil {
			return fn.Pkg().Path() + "." + fn.Name(), nil
		}
	}
	return "", nil
}

func (c *fctx) matches(list []string, call *ast.CallExpr) bool {
	s := c.show(call.Fun)
	for _, p := range list {
		if s == p || strings.HasSuffix(s, "."+p) {
			return true
		}
	}
	return false
}

func (c *fctx) call(x *ast.CallExpr) ex {
	// conversions
	if tv, ok := c.p.info.Types[x.Fun]; ok && tv.IsType() {
		if len(x.Args) != 1 {
			fail("conversion %s", c.show(x))
		}
		from, to := c.typeOf(x.Args[0]), tv.Type
		if isInt(from) && isInt(to) {
			a := c.expr(x.Args[0])
			if bits := unsignedBits(to); bits > 0 && !(unsignedBits(from) > 0 && unsignedBits(from) <= bits) {
				return c.bindN([]ex{a}, func(s []string) string { return fmt.Sprintf("(goWrapU %s %s)", pow2(bits), s[0]) })
			}
			return a
		}
		if c.t.leanType(from) != "" && c.t.leanType(from) == c.t.leanType(to) {
			return c.expr(x.Args[0])
		}
		if in, ok := x.Args[0].(*ast.CallExpr); ok && isInt(to) && len(in.Args) == 0 {
			// intN(d.Seconds()) for a time.Duration d: whole seconds, truncated
			// (the float64 rounding of very large durations is not modelled)
			if key, recv := c.calleeKey(in); key == "time.Duration.Seconds" {
				a := c.expr(recv)
				return c.bindN([]ex{a}, func(s []string) string {
					r := "(Int.tdiv " + s[0] + " (1000000000 : Int))"
					if bits := unsignedBits(to); bits > 0 {
						return fmt.Sprintf("(goWrapU %s %s)", pow2(bits), r)
					}
					return r
				})
			}
		}
		fail("conversion %s from %s", c.show(x), from)
	}
	// builtins
	if id, ok := x.Fun.(*ast.Ident); ok {
		_, isB := c.p.info.Uses[id].(*types.Builtin)
		if isB && id.Name == "append" && c.t.symbolic && c.t.abstract(c.typeOf(x)) {
			isB = false // append on a slice of abstract type: an opaque call
		}
		if isB {
			switch id.Name {
			case "append":
				sl, ok := c.typeOf(x.Args[0]).Underlying().(*types.Slice)
				if !ok || c.t.leanType(sl.Elem()) == "" || x.Ellipsis.IsValid() {
					fail("append %s", c.show(x))
				}
				xs := []ex{c.expr(x.Args[0])}
				for _, a := range x.Args[1:] {
					xs = append(xs, c.exprAs(a, sl.Elem()))
				}
				return c.bindN(xs, func(s []string) string { return "(" + s[0] + " ++ [" + strings.Join(s[1:], ", ") + "])" })
			case "len":
				at := c.typeOf(x.Args[0])
				if _, ok := at.Underlying().(*types.Slice); ok && c.t.leanType(at) != "" {
					a := c.expr(x.Args[0])
					return c.bindN([]ex{a}, func(s []string) string { return "(" + s[0] + ".length : Int)" })
				}
				if isString(at) && c.spec.AsciiStrings {
					a := c.expr(x.Args[0])
					return c.bindN([]ex{a}, func(s []string) string { return "(goStrLen " + s[0] + ")" })
				}
				if isString(at) {
					a := c.expr(x.Args[0])
					return c.bindN([]ex{a}, func(s []string) string { return "(" + s[0] + ".utf8ByteSize : Int)" })
				}
				return c.opaqueValue(x)
			case "min", "max":
				var xs []ex
				for _, a := range x.Args {
					xs = append(xs, c.expr(a))
				}
				return c.bindN(xs, func(s []string) string {
					r := s[0]
					for _, y := range s[1:] {
						r = "(" + id.Name + " " + r + " " + y + ")"
					}
					return r
				})
			}
			fail("builtin %s", id.Name)
		}
	}
	key, recvExpr := c.calleeKey(x)
	if recvExpr != nil && len(x.Args) == 0 && isInt(c.typeOf(recvExpr)) && isInt(c.typeOf(x)) {
		for _, n := range c.spec.Identity {
			if strings.HasSuffix(key, "."+n) {
				return c.expr(recvExpr)
			}
		}
	}
	// intrinsics
	switch {
	case key == "cmp.Or":
		var xs []ex
		for _, a := range x.Args {
			if !isError(c.typeOf(a)) && !implementsError(c.typeOf(a)) {
				fail("cmp.Or on non-error %s", c.show(a))
			}
			xs = append(xs, c.exprAs(a, types.Universe.Lookup("error").Type()))
		}
		return c.bindN(xs, func(s []string) string { return "(firstErr [" + strings.Join(s, ", ") + "])" })
	case key == "github.com/AdguardTeam/golibs/errors.WithDeferred" && len(x.Args) == 2:
		et := types.Universe.Lookup("error").Type()
		xs := []ex{c.exprAs(x.Args[0], et), c.exprAs(x.Args[1], et)}
		return c.bindN(xs, func(s []string) string { return "(firstErr [" + s[0] + ", " + s[1] + "])" })
	case key == "github.com/AdguardTeam/golibs/errors.Join" || key == "errors.Join":
		if len(x.Args) == 1 && x.Ellipsis.IsValid() {
			a := c.expr(x.Args[0])
			return c.bindN([]ex{a}, func(s []string) string { return "(firstErr " + s[0] + ")" })
		}
		var xs []ex
		for _, a := range x.Args {
			xs = append(xs, c.exprAs(a, types.Universe.Lookup("error").Type()))
		}
		return c.bindN(xs, func(s []string) string { return "(firstErr [" + strings.Join(s, ", ") + "])" })
	case key == "github.com/AdguardTeam/golibs/errors.Annotate" && len(x.Args) >= 2 && c.t.refs:
		// nil stays nil, anything else is wrapped (the format is kept as the prefix)
		return c.bindN([]ex{c.expr(x.Args[1]), c.expr(x.Args[0])}, func(s []string) string { return "(wrapErr " + s[0] + " " + s[1] + ")" })
	case strings.HasSuffix(key, "/internal/cmd.validateProp"):
		name := c.expr(x.Args[0])
		inner := c.thunk(x.Args[1])
		return c.bindN([]ex{name, inner}, func(s []string) string { return "(wrapErr " + s[0] + " " + s[1] + ")" })
	case strings.HasSuffix(key, "/internal/cmd.validatePositive"):
		name := c.expr(x.Args[0])
		vt := c.typeOf(x.Args[1])
		var v ex
		var test string
		if n, ok := vt.(*types.Named); ok && n.Obj().Name() == "Duration" && n.Obj().Pkg() != nil && strings.HasSuffix(n.Obj().Pkg().Path(), "timeutil") {
			v = c.expr(x.Args[1])
			test = "%s.Duration ≤ 0"
		} else if isInt(vt) && isUnsigned(vt) {
			v = c.expr(x.Args[1])
			test = "%s = 0"
		} else if isInt(vt) {
			v = c.expr(x.Args[1])
			test = "%s ≤ 0"
		} else {
			fail("validatePositive on %s", vt)
		}
		return c.bindN([]ex{name, v}, func(s []string) string {
			return "(if " + fmt.Sprintf(test, s[1]) + " then some (" + s[0] + " ++ \": not positive\") else none)"
		})
	}
	if key == "slices.Contains" && len(x.Args) == 2 && c.t.leanType(c.typeOf(x.Args[0])) != "" && !c.matches(c.spec.Pure, x) {
		xs := []ex{c.expr(x.Args[0]), c.expr(x.Args[1])}
		return c.bindN(xs, func(s []string) string { return "(" + s[0] + ".contains " + s[1] + ")" })
	}
	if fn, ok := map[string]string{"strings.TrimPrefix": "goTrimPrefix", "strings.TrimSuffix": "goTrimSuffix", "strings.HasPrefix": "goHasPrefix",
		"strings.HasSuffix": "goHasSuffix", "strings.SplitN": "goSplitN", "strings.Split": "goSplit", "strings.Contains": "goContains"}[key]; ok {
		var xs []ex
		for _, a := range x.Args {
			xs = append(xs, c.expr(a))
		}
		return c.bindN(xs, func(s []string) string { return "(" + fn + " " + strings.Join(s, " ") + ")" })
	}
	if fn, ok := map[string]string{"strings.TrimSpace": "goTrimSpace", "strings.ToLower": "goToLower", "strings.LastIndexByte": "goLastIndexByte"}[key]; ok && c.spec.AsciiStrings {
		var xs []ex
		for _, a := range x.Args {
			xs = append(xs, c.expr(a))
		}
		return c.bindN(xs, func(s []string) string { return "(" + fn + " " + strings.Join(s, " ") + ")" })
	}
	// translated functions
	if c.matches(c.spec.Opaque, x) {
		key = ""
	}
	if fo := c.t.lookup(key); fo != nil && len(fo.paramsOpaque()) == 0 && !fo.spec.Trace {
		var xs []ex
		if recvExpr != nil {
			xs = append(xs, c.expr(recvExpr))
		}
		for _, a := range x.Args {
			xs = append(xs, c.expr(a))
		}
		r := c.bindN(xs, func(s []string) string { return "(" + fo.name + " " + strings.Join(s, " ") + ")" })
		if fo.partial {
			c.partial = true
			if r.partial {
				return ex{code: "(Option.join " + r.code + ")", partial: true}
			}
			return ex{code: r.code, partial: true}
		}
		return r
	}
	// "fn": an applied function parameter, shared by the call sites of that callee
	if c.matches(c.spec.Fn, x) {
		name := "f_" + sanitize(lastName(c.show(x.Fun)))
		var xs []ex
		var sig []string
		for _, a := range x.Args {
			if lt := c.t.leanType(c.typeOf(a)); lt != "" {
				xs, sig = append(xs, c.expr(a)), append(sig, lt)
			} else if id, ok := a.(*ast.Ident); ok && c.elemVars[c.p.info.Uses[id]] != "" {
				// the loop variable of a range over a symbolic slice: the element's token
				xs, sig = append(xs, ex{code: leanIdent(id.Name)}), append(sig, c.elemVars[c.p.info.Uses[id]])
			}
		}
		decl := "(" + name + " : " + strings.Join(append(sig, c.t.valType(c.typeOf(x))), " → ") + ")"
		dup := false
		for _, o := range c.opaque {
			if dup = dup || o == decl; o != decl && strings.HasPrefix(o, "("+name+" : ") {
				fail("fn %s is applied at two different types", name)
			}
		}
		if !dup {
			c.opaque = append(c.opaque, decl)
		}
		r := c.bindN(xs, func(s []string) string { return "(" + strings.Join(append([]string{name}, s...), " ") + ")" })
		if c.trace && !c.matches(c.spec.Pure, x) {
			r.code = "«call:" + c.traceEntry(x) + "»" + r.code
		}
		return r
	}
	// errors made by any other call: opaque non-nil error value labelled by source text
	if isError(c.typeOf(x)) && !(c.trace && c.t.traceErrors) && !c.matches(c.spec.Pure, x) {
		if tup, ok := c.typeOf(x).(*types.Tuple); !ok || tup.Len() == 1 {
			switch c.show(x.Fun) {
			case "fmt.Errorf", "errors.New", "errors.Error", "newNotPositiveError", "newNegativeError", "newMustBeUniqueError", "newDeviceDataError":
				return ex{code: fmt.Sprintf("(some %q)", c.show(x))}
			}
		}
	}
	// opaque call
	if c.loop != nil && !c.spec.LoopOpaque && c.forIter == "" {
		// one parameter cannot stand for the results of the call in every iteration
		fail("opaque call %s inside a loop", c.show(x))
	}
	lt := c.t.valType(c.typeOf(x))
	c.opaqueVals = nil // an external call may change what abstract objects hold
	if c.opaqueCalls == nil {
		c.opaqueCalls = map[*ast.CallExpr]string{}
	}
	name, seen := c.opaqueCalls[x]
	if !seen {
		c.nOpaque++
		name = fmt.Sprintf("o%d_%s", c.nOpaque, sanitize(lastName(c.show(x.Fun))))
		if c.forIter != "" {
			// inside a `for cond {}` loop: one result per iteration
			c.opaque = append(c.opaque, fmt.Sprintf("(%s : Nat → %s)", name, lt))
			c.forParams[name] = true
		} else {
			c.opaque = append(c.opaque, fmt.Sprintf("(%s : %s)", name, lt))
		}
		c.opaqueCalls[x] = name
	}
	if c.forParams[name] {
		if c.forIter == "" {
			fail("opaque call %s is reached both inside and outside a for loop", c.show(x))
		}
		name = "(" + name + " " + c.forIter + ")"
	}
	if c.trace && !c.matches(c.spec.Pure, x) {
		return ex{code: "«call:" + c.traceEntry(x) + "»" + name}
	}
	return ex{code: name}
}

// traceEntry renders one element of the call trace: the callee's name and the
// values of those arguments that are pure expressions of translatable type.
func (c *fctx) traceEntry(x *ast.CallExpr) string {
	var args []string
	if se, ok := x.Fun.(*ast.SelectorExpr); ok && c.t.symbolic {
		// a method of an abstract value: the receiver's token comes first
		if sel := c.p.info.Selections[se]; sel != nil && sel.Kind() == types.MethodVal && c.t.abstract(sel.Recv()) {
			args = append(args, c.traceArg(se.X))
		}
	}
	if se, ok := x.Fun.(*ast.SelectorExpr); ok && c.spec.Names {
		// a method of an abstract *local*: which value it holds is the first argument
		if id, ok := se.X.(*ast.Ident); ok && c.p.info.Selections[se] != nil && c.t.leanType(c.typeOf(id)) == "" {
			if a, ok := c.absExpr(id, false); ok {
				args = append(args, a.code)
			}
		}
	}
	for _, a := range x.Args {
		args = append(args, c.traceArg(a))
	}
	name := lastName(c.show(x.Fun))
	if parts := strings.Split(c.show(x.Fun), "."); c.spec.TraceQual && len(parts) >= 2 {
		name = strings.Join(parts[len(parts)-2:], ".")
	}
	return fmt.Sprintf("(%q, [%s])", name, strings.Join(args, ", "))
}

func (c *fctx) traceArg(a ast.Expr) (code string) {
	code = "\"_\""
	defer func() {
		if r := recover(); r != nil {
			if _, ok := r.(trErr); !ok {
				panic(r)
			}
		}
	}()
	if id, ok := a.(*ast.Ident); ok && id.Name == "_" {
		return code
	}
	if c.t.refs {
		return c.traceArgRefs(a)
	}
	if se, ok := a.(*ast.SliceExpr); ok && c.t.isAbstract(c.typeOf(se.X)) && !se.Slice3 {
		// a window of an abstract buffer: its source name and the values of its bounds
		bound := func(e ast.Expr) string {
			if e == nil {
				return "\"\""
			}
			b := c.traceArg(e)
			if b == "\"_\"" {
				return fmt.Sprintf("%q", c.show(e))
			}
			return b
		}
		return fmt.Sprintf("(%q ++ %s ++ \":\" ++ %s ++ \"]\")", c.show(se.X)+"[", bound(se.Low), bound(se.High))
	}
	tv, ok := c.p.info.Types[a]
	if !ok || tv.Type == nil {
		return code
	}
	if call, ok := a.(*ast.CallExpr); ok && c.t.symbolic {
		if r := c.symCall(call); r != "" {
			return r
		}
	}
	lt := c.t.leanType(tv.Type)
	if lt == "" && c.spec.Names {
		if a, ok := c.absExpr(a, false); ok {
			return a.code
		}
	}
	if se, ok := a.(*ast.SliceExpr); ok && lt != "String" && !c.t.symbolic {
		// a slice expression: the operand's source text with the bounds' values
		// (in symbolic mode it is an opaque value, rendered as a token below)
		parts := []string{fmt.Sprintf("%q", c.show(se.X)+"[")}
		for i, b := range []ast.Expr{se.Low, se.High, se.Max} {
			if i > 0 && (i < 2 || se.Slice3) {
				parts = append(parts, "\":\"")
			}
			if b != nil {
				parts = append(parts, c.traceArg(b))
			}
		}
		return "(" + strings.Join(append(parts, "\"]\""), " ++ ") + ")"
	}
	if se, ok := a.(*ast.SelectorExpr); ok && lt == "" && c.spec.TraceRepr {
		if sel := c.p.info.Selections[se]; sel != nil && sel.Kind() == types.FieldVal && c.t.leanType(c.typeOf(se.X)) != "" {
			return fmt.Sprintf("%q", "field:"+se.Sel.Name) // abstract field of a translated structure: its name
		}
	}
	render := "(toString %s)"
	switch {
	case lt == "String":
		render = "%s"
	case lt == "Int" || lt == "Bool":
	case c.t.symbolic && (lt == "(Option String)" || lt == "(List Int)" || lt == "(List String)"):
	case c.spec.TraceRepr && lt != "":
		// "trace_repr": structures, options and lists are shown with reprStr
		render = "(reprStr %s)"
	case lt == "(Option String)":
		// an error argument: only whether it is nil
		render = "(if (%s).isSome then \"err\" else \"nil\")"
	case c.t.symbolic && (strings.HasPrefix(lt, "S_") || strings.HasPrefix(lt, "(Option S_")):
		render = "(reprStr %s)"
	default:
		return code
	}
	// Do not let a nested opaque call allocate parameters from here (values
	// read from abstract objects are fine).
	savedN, savedO, savedP, savedCalls := c.nOpaque, len(c.opaque), c.partial, len(c.opaqueCalls)
	savedVals, savedNodes := map[string]string{}, map[ast.Expr]string{}
	for k, v := range c.opaqueVals {
		savedVals[k] = v
	}
	for k, v := range c.opaqueNodes {
		savedNodes[k] = v
	}
	savedCallSet := map[*ast.CallExpr]bool{}
	for k := range c.opaqueCalls {
		savedCallSet[k] = true
	}
	revert := func() {
		c.nOpaque, c.opaque, c.partial = savedN, c.opaque[:savedO], savedP
		c.opaqueVals, c.opaqueNodes = savedVals, savedNodes
		for k := range c.opaqueCalls {
			if !savedCallSet[k] {
				delete(c.opaqueCalls, k)
			}
		}
	}
	ok2 := false
	defer func() {
		if !ok2 {
			revert()
		}
	}()
	e := c.expr(a)
	if (e.partial && !c.t.symbolic) || strings.Contains(e.code, "«call:") || len(c.opaqueCalls) != savedCalls {
		return "\"_\""
	}
	ok2 = true
	if e.partial {
		// symbolic mode: an argument read through a pointer (nil: "<nil-deref>")
		return fmt.Sprintf("(match %s with | some v => "+render+" | none => \"<nil-deref>\")", e.code, "v")
	}
	return fmt.Sprintf(render, e.code)
}

// traceArgRefs is traceArg under the spec-file option "refs" (the rules TrC17
// was written against): scalars and identity tokens are shown by value;
// opaque values and untraced ("pure") calls read in the argument stay ordinary
// parameters; an argument that needs a traced call or may panic is "_".
func (c *fctx) traceArgRefs(a ast.Expr) string {
	tv, ok := c.p.info.Types[a]
	if !ok || tv.Type == nil {
		return "\"_\""
	}
	lt := c.t.leanType(tv.Type)
	if lt != "Int" && lt != "Bool" && lt != "String" && !c.t.refAbstract(tv.Type) {
		return "\"_\""
	}
	savedN, savedO, savedP := c.nOpaque, len(c.opaque), c.partial
	e := c.expr(a)
	if e.partial || strings.Contains(e.code, "«call:") {
		c.nOpaque, c.opaque, c.partial = savedN, c.opaque[:savedO], savedP
		for k, v := range c.opaqueVals { // forget what was rolled back
			if !c.declared(v) {
				delete(c.opaqueVals, k)
			}
		}
		for k, v := range c.opaqueCalls {
			if !c.declared(v) {
				delete(c.opaqueCalls, k)
			}
		}
		return "\"_\""
	}
	if lt == "String" {
		return e.code
	}
	return "(toString " + e.code + ")"
}

// symCall renders an opaque call that occurs as a trace argument as a token:
// "x.M(a,…)" for a method of an abstract value x, "f(a,…)" for a function that
// is not translated, "T(…)" for a conversion of such a call ("" if a is none
// of these; the arguments are rendered like trace arguments).
func (c *fctx) symCall(call *ast.CallExpr) string {
	args := func() string {
		r := `"("`
		for i, a := range call.Args {
			if i > 0 {
				r += ` ++ ","`
			}
			r += " ++ " + c.traceArg(a)
		}
		return r + ` ++ ")"`
	}
	if tv, ok := c.p.info.Types[call.Fun]; ok && tv.IsType() {
		if in, ok := call.Args[0].(*ast.CallExpr); ok && len(call.Args) == 1 && c.symCall(in) != "" {
			return fmt.Sprintf("(%q ++ %s)", c.show(call.Fun), args())
		}
		return ""
	}
	key, _ := c.calleeKey(call)
	if _, translated := c.t.byDecl[key]; translated {
		return ""
	}
	if se, ok := call.Fun.(*ast.SelectorExpr); ok {
		if sel := c.p.info.Selections[se]; sel != nil && sel.Kind() == types.MethodVal {
			if r := c.traceArg(se.X); c.t.abstract(sel.Recv()) && r != "\"_\"" {
				return fmt.Sprintf("(%s ++ %q ++ %s)", r, "."+se.Sel.Name, args())
			}
			return ""
		}
	}
	if id, ok := call.Fun.(*ast.Ident); ok {
		if _, isB := c.p.info.Uses[id].(*types.Builtin); isB {
			return ""
		}
	}
	return fmt.Sprintf("(%q ++ %s)", c.show(call.Fun), args())
}

// forget drops the memo entries of opaque parameters that were rolled back.
func (c *fctx) forget() {
	kept := map[string]bool{}
	for _, p := range c.opaque {
		kept[strings.Fields(p[1:])[0]] = true
	}
	for k, n := range c.opaqueVals {
		if !kept[n] {
			delete(c.opaqueVals, k)
		}
	}
	for k, n := range c.opaqueCalls {
		if !kept[n] {
			delete(c.opaqueCalls, k)
		}
	}
}

// nestedTrace ("trace_nested") translates a traced call statement whose
// arguments are themselves calls of scalar type: those are evaluated first,
// left to right (opaque ones get their own trace entries and parameters), and
// their values are the argument values of the outer entry.
func (c *fctx) nestedTrace(call *ast.CallExpr, rest []ast.Stmt) string {
	var xs []ex
	at := map[int]int{}
	for i, a := range call.Args {
		ac, ok := ast.Unparen(a).(*ast.CallExpr)
		if lt := c.t.leanType(c.typeOf(a)); ok && (lt == "String" || lt == "Int" || lt == "Bool") {
			at[i] = len(xs)
			xs = append(xs, c.expr(ac))
		}
	}
	return c.withExs(xs, func(codes []string) string {
		var args []string
		for i, a := range call.Args {
			if k, ok := at[i]; !ok {
				args = append(args, c.traceArg(a))
			} else if c.t.leanType(c.typeOf(a)) == "String" {
				args = append(args, codes[k])
			} else {
				args = append(args, "(toString "+codes[k]+")")
			}
		}
		return fmt.Sprintf("let tr := tr ++ [(%q, [%s])]\n", lastName(c.show(call.Fun)), strings.Join(args, ", ")) + c.stmts(rest)
	})
}

// declared reports whether the opaque parameter name is (still) a parameter.
func (c *fctx) declared(name string) bool {
	for _, p := range c.opaque {
		if strings.HasPrefix(p, "("+name+" : ") {
			return true
		}
	}
	return false
}

func lastName(s string) string {
	if i := strings.Index(s, "["); i > 0 && strings.HasSuffix(s, "]") && !strings.Contains(s[i:], ".") || i > 0 && strings.HasSuffix(s, "]") && strings.HasPrefix(s[i:], "[*") {
		s = s[:i] // generic instantiation f[T]
	}
	if i := strings.LastIndex(s, "."); i >= 0 {
		return s[i+1:]
	}
	return s
}

// thunk translates a `func() error` argument: a method value or a literal
// whose body is a single return.
func (c *fctx) thunk(a ast.Expr) ex {
	switch f := a.(type) {
	case *ast.FuncLit:
		if len(f.Body.List) == 1 {
			if r, ok := f.Body.List[0].(*ast.ReturnStmt); ok && len(r.Results) == 1 {
				return c.exprAs(r.Results[0], types.Universe.Lookup("error").Type())
			}
		}
		fail("function literal %s", c.show(a))
	case *ast.SelectorExpr:
		// method value x.m  ==> call x.m()
		return c.call(&ast.CallExpr{Fun: f})
	}
	fail("thunk %s", c.show(a))
	return ex{}
}

func (fo *funcOut) paramsOpaque() []string { return fo.opaque }

func (t *translator) lookup(key string) *funcOut {
	sp, ok := t.byDecl[key]
	if !ok {
		return nil
	}
	fo := t.funcs[key]
	if fo == nil || !fo.done {
		fo = t.translate(sp)
	}
	if fo.err != "" {
		fail("callee %s failed: %s", key, fo.err)
	}
	return fo
}

// ---------------------------------------------------------------------------
// Statements.

// traceSplit extracts «call:Name» markers (in order) from code.
func traceSplit(code string) (clean string, calls []string) {
	for {
		i := strings.Index(code, "«call:")
		if i < 0 {
			return code, calls
		}
		j := strings.Index(code[i:], "»")
		calls = append(calls, code[i+len("«call:"):i+j])
		code = code[:i] + code[i+j+len("»"):]
	}
}

// withEx emits code that evaluates e (recording trace and propagating panics)
// and continues with k(pureCode).
func (c *fctx) withEx(e ex, k func(code string) string) string {
	code, calls := traceSplit(e.code)
	pre := ""
	if len(calls) > 0 {
		pre = "let tr := tr ++ [" + strings.Join(calls, ", ") + "]\n"
	}
	if e.partial {
		v := c.tmp("x")
		return pre + fmt.Sprintf("match %s with\n| none => none\n| some %s =>\n%s", code, v, indent(k(v)))
	}
	return pre + k(code)
}

func indent(s string) string {
	lines := strings.Split(s, "\n")
	for i := range lines {
		lines[i] = "  " + lines[i]
	}
	return strings.Join(lines, "\n")
}

// deferred is one entry of the defer stack: a traced call (the variable holding
// its trace entry) or a closure whose body is run inline at every exit.
type deferred struct {
	traceVar string
	body     []ast.Stmt
}

func (c *fctx) ret(vals []string) string {
	pre := ""
	hasClosure := false
	for _, d := range c.defers {
		if d.body != nil {
			hasClosure = true
		}
	}
	if hasClosure && c.named {
		// the deferred closures see (and may change) the named results
		var tmps []string
		for _, v := range vals {
			t := c.tmp("r")
			tmps = append(tmps, t)
			pre += fmt.Sprintf("let %s := %s\n", t, v)
		}
		for i, r := range c.results {
			pre += fmt.Sprintf("let %s := %s\n", leanIdent(r.Name()), tmps[i])
			vals[i] = leanIdent(r.Name())
		}
	}
	loop := c.loop
	final := func() string {
		var parts []string
		if c.recvMut {
			parts = append(parts, leanIdent(c.recv))
		}
		parts = append(parts, c.paramMut...)
		parts = append(parts, vals...)
		for _, o := range c.spec.Out {
			parts = append(parts, leanIdent(o))
		}
		if c.trace {
			parts = append(parts, "tr")
		}
		var r string
		switch len(parts) {
		case 0:
			r = "()"
		case 1:
			r = parts[0]
		default:
			r = "(" + strings.Join(parts, ", ") + ")"
		}
		if loop != nil {
			return "«step»(.ret " + r + ")"
		}
		return "«ret»" + r
	}
	return pre + c.runDefers(len(c.defers)-1, final)
}

func (c *fctx) runDefers(i int, final func() string) string {
	if i < 0 {
		return final()
	}
	d := c.defers[i]
	if d.body == nil {
		if !c.trace {
			return c.runDefers(i-1, final)
		}
		return "let tr := tr ++ " + d.traceVar + "\n" + c.runDefers(i-1, final)
	}
	prevEnd, prevLoop, prevDefers, prevIter := c.onEnd, c.loop, c.defers, c.forIter
	var self func() string
	self = func() string {
		curEnd, curLoop, curDefers, curIter := c.onEnd, c.loop, c.defers, c.forIter
		c.onEnd, c.loop, c.defers, c.forIter = prevEnd, prevLoop, prevDefers, prevIter
		out := c.runDefers(i-1, final)
		c.onEnd, c.loop, c.defers, c.forIter = curEnd, curLoop, curDefers, curIter
		return out
	}
	c.onEnd, c.loop, c.defers, c.forIter = self, nil, nil, ""
	code := c.stmts(d.body)
	c.onEnd, c.loop, c.defers, c.forIter = prevEnd, prevLoop, prevDefers, prevIter
	return code
}

// countedLoop translates `for range n { f(…); _ = g(…) }` over an integer n
// whose body consists only of opaque calls with discarded results: the body's
// trace entries are appended n times.
func (c *fctx) countedLoop(x *ast.RangeStmt, rest []ast.Stmt) string {
	var entries []string
	for _, b := range x.Body.List {
		var call *ast.CallExpr
		switch bs := b.(type) {
		case *ast.ExprStmt:
			call, _ = bs.X.(*ast.CallExpr)
		case *ast.AssignStmt:
			blank := len(bs.Rhs) == 1
			for _, l := range bs.Lhs {
				if id, ok := l.(*ast.Ident); !ok || id.Name != "_" {
					blank = false
				}
			}
			if blank {
				call, _ = bs.Rhs[0].(*ast.CallExpr)
			}
		}
		if call == nil {
			fail("statement %s in a counted loop", c.show(b))
		}
		if !c.matches(c.spec.Ignore, call) {
			entries = append(entries, c.traceEntry(call))
		}
	}
	return c.withEx(c.expr(x.X), func(code string) string {
		return fmt.Sprintf("let tr := tr ++ (List.replicate (Int.toNat %s) [%s]).flatten\n", code, strings.Join(entries, ", ")) + c.stmts(rest)
	})
}

// loopCtx is the innermost enclosing range loop: its carried variables.
type loopCtx struct {
	state []string
}

func (c *fctx) stateTuple(vars []string) string {
	switch len(vars) {
	case 0:
		return "()"
	case 1:
		return vars[0]
	}
	return "(" + strings.Join(vars, ", ") + ")"
}

// carriedVars lists the variables declared outside the loop statement x and
// assigned inside its body (with their Lean types): the loop state.
func (c *fctx) carriedVars(x ast.Node, body *ast.BlockStmt) (vars, varTypes []string) {
	seen := map[string]bool{}
	add := func(id *ast.Ident) {
		obj := c.p.info.Uses[id]
		if obj == nil || seen[id.Name] {
			return
		}
		if obj.Pos() >= x.Pos() && obj.Pos() <= x.End() {
			return // declared inside the loop
		}
		lt := c.t.leanType(obj.Type())
		if pt, isPtr := obj.Type().(*types.Pointer); isPtr && c.recvVal && id.Name == c.recv {
			lt = c.t.leanType(pt.Elem())
		}
		if lt == "" {
			fail("loop assigns %s of untranslatable type", id.Name)
		}
		seen[id.Name] = true
		vars = append(vars, leanIdent(id.Name))
		varTypes = append(varTypes, lt)
	}
	ast.Inspect(body, func(n ast.Node) bool {
		var targets []ast.Expr
		switch s := n.(type) {
		case *ast.AssignStmt:
			if s.Tok != token.DEFINE {
				targets = s.Lhs
			} else {
				// := may also assign existing variables
				for _, l := range s.Lhs {
					if id, ok := l.(*ast.Ident); ok && c.p.info.Defs[id] == nil {
						targets = append(targets, l)
					}
				}
			}
		case *ast.IncDecStmt:
			targets = []ast.Expr{s.X}
		case *ast.CallExpr:
			if c.isListCopy(s) {
				targets = []ast.Expr{s.Args[0]} // copy(dst, src) assigns dst
			}
		case *ast.FuncLit:
			return false
		}
		for _, l := range targets {
			switch t := l.(type) {
			case *ast.Ident:
				if t.Name != "_" {
					add(t)
				}
			case *ast.SelectorExpr:
				if id, ok := t.X.(*ast.Ident); ok {
					add(id)
				}
			}
		}
		return true
	})
	return vars, varTypes
}

// forLoop translates `for cond { body }` (no init / post statement, not nested
// in another loop, no loop inside it): `goFor fuel state fun it st => …` runs at
// most `fuel` iterations (an extra parameter `fuel : Nat`, `fuel<k>` for the k-th
// such loop of the function; copies of the loop in a duplicated continuation share it), the condition is evaluated (and traced) at the
// start of every iteration; the loop state are the variables declared outside
// and assigned inside (and the trace); an opaque call inside the loop is a
// parameter `o<k>_f : Nat → T` applied to the iteration number `it`.  The
// function becomes partial: `none` also stands for "the bound was reached before
// the loop ended", so theorems hold for every fuel.
func (c *fctx) forLoop(x *ast.ForStmt, rest []ast.Stmt) string {
	if x.Init != nil || x.Post != nil {
		fail("for statement with init / post statement")
	}
	if c.loop != nil || c.forIter != "" {
		fail("for statement nested in a loop")
	}
	ast.Inspect(x.Body, func(n ast.Node) bool {
		switch n.(type) {
		case *ast.ForStmt, *ast.RangeStmt:
			fail("loop inside a for statement")
		case *ast.FuncLit:
			return false
		}
		return true
	})
	vars, varTypes := c.carriedVars(x, x.Body)
	if c.trace {
		vars = append(vars, "tr")
		varTypes = append(varTypes, "(List (String × List String))")
	}
	sigma := "Unit"
	if len(varTypes) == 1 {
		sigma = varTypes[0]
	} else if len(varTypes) > 1 {
		sigma = "(" + strings.Join(varTypes, " × ") + ")"
	}
	if c.forParams == nil {
		c.forParams, c.forFuel = map[string]bool{}, map[*ast.ForStmt]string{}
	}
	// the two copies of a loop in a duplicated continuation share the bound (only one runs)
	fuel, it := c.forFuel[x], "it"
	if fuel == "" {
		c.nFor++
		fuel = "fuel"
		if c.nFor > 1 {
			fuel = fmt.Sprintf("fuel%d", c.nFor)
		}
		c.opaque = append(c.opaque, fmt.Sprintf("(%s : Nat)", fuel))
		c.forFuel[x] = fuel
	}
	savedPartial := c.partial
	c.loop, c.partial, c.forIter = &loopCtx{state: vars}, false, it
	var body string
	if x.Cond == nil {
		body = c.stmts(x.Body.List)
	} else {
		body = c.withEx(c.expr(x.Cond), func(code string) string {
			return fmt.Sprintf("if %s then\n%s\nelse\n  «step»(.brk %s)", code, indent(c.stmts(x.Body.List)), c.stateTuple(vars))
		})
	}
	bodyPartial := c.partial
	c.loop, c.partial, c.forIter = nil, true, ""
	_ = savedPartial
	fn, wrap := "goFor", ""
	if bodyPartial {
		fn, wrap = "goFor?", "some "
	}
	body = strings.ReplaceAll(body, "«step»", wrap)
	destr := ""
	if len(vars) > 1 {
		destr = "let " + c.stateTuple(vars) + " := st\n"
	} else if len(vars) == 1 {
		destr = "let " + vars[0] + " := st\n"
	}
	loop := fmt.Sprintf("%s (σ := %s) (ρ := «rho») %s %s fun (%s : Nat) st =>\n%s", fn, sigma, fuel, c.stateTuple(vars), it, indent(destr+body))
	after := c.stmts(rest)
	return fmt.Sprintf("match %s with\n| none => none\n| some (.inr r) => «ret»r\n| some (.inl st) =>\n%s", loop, indent(destr+after))
}

// rangeLoop translates `for i, x := range xs { body }` over a translatable
// slice: the variables declared outside the loop and assigned inside it (plus
// the call trace) are the loop state; the body maps a state and an element to
// `Step.next state'` (also for continue), `Step.brk state'` or `Step.ret r`
// (a return of the enclosing function; a range loop nested in the body passes
// such a return on to the outer loop as `Step.ret r`).
func (c *fctx) rangeLoop(x *ast.RangeStmt, rest []ast.Stmt) string {
	if x.Tok != token.DEFINE && (x.Key != nil || x.Value != nil) {
		fail("range with assignment to existing variables")
	}
	sl, ok := c.typeOf(x.X).Underlying().(*types.Slice)
	mp, isMap := c.typeOf(x.X).Underlying().(*types.Map)
	isMap = isMap && c.t.leanType(mp.Key()) != "" && c.t.leanType(mp.Elem()) != ""
	if (!ok || c.t.leanType(c.typeOf(x.X)) == "") && !isMap {
		fail("range over %s", c.typeOf(x.X))
	}
	elT := ""
	if isMap {
		elT = "(" + c.t.leanType(mp.Key()) + " × " + c.t.leanType(mp.Elem()) + ")"
	} else {
		elT = c.t.leanType(sl.Elem())
		if lt := c.t.leanType(c.typeOf(x.X)); elT == "" && strings.HasPrefix(lt, "(List ") {
			// a slice type declared symbolic ("[]pkg.T": "(List String)"): the elements
			// are tokens; the loop variable may be handed to an "fn" callee
			elT = strings.TrimSuffix(strings.TrimPrefix(lt, "(List "), ")")
			if id, ok := x.Value.(*ast.Ident); ok && c.p.info.Defs[id] != nil {
				if c.elemVars == nil {
					c.elemVars = map[types.Object]string{}
				}
				c.elemVars[c.p.info.Defs[id]] = elT
			}
		}
	}
	// carried variables
	vars, varTypes := c.carriedVars(x, x.Body)
	if c.trace {
		vars = append(vars, "tr")
		varTypes = append(varTypes, "(List (String × List String))")
	}
	sigma := "Unit"
	if len(varTypes) == 1 {
		sigma = varTypes[0]
	} else if len(varTypes) > 1 {
		sigma = "(" + strings.Join(varTypes, " × ") + ")"
	}
	key, val := "_", "_"
	if id, ok := x.Key.(*ast.Ident); ok && x.Key != nil {
		key = leanIdent(id.Name)
	}
	if id, ok := x.Value.(*ast.Ident); ok && x.Value != nil {
		val = leanIdent(id.Name)
	}
	var coll ex
	mapDestr := ""
	if isMap {
		if c.opaqueNodes == nil {
			c.opaqueNodes = map[ast.Expr]string{}
		}
		name, seen := c.opaqueNodes[x.X]
		if !seen {
			c.nOpaque++
			name = fmt.Sprintf("e%d_%s_entries", c.nOpaque, sanitize(lastName(c.show(x.X))))
			c.opaque = append(c.opaque, fmt.Sprintf("(%s : (List %s))", name, elT))
			c.opaqueNodes[x.X] = name
		}
		coll = ex{code: name}
		if key != "_" {
			mapDestr += "let " + key + " := kv.1\n"
		}
		if val != "_" {
			mapDestr += "let " + val + " := kv.2\n"
		}
		key, val = "_", "kv"
	} else {
		coll = c.expr(x.X)
	}
	return c.withEx(coll, func(collCode string) string {
		savedLoop, savedPartial := c.loop, c.partial
		c.loop, c.partial = &loopCtx{state: vars}, false
		body := c.stmts(x.Body.List)
		bodyPartial := c.partial
		c.loop, c.partial = savedLoop, savedPartial || bodyPartial
		rho := "«rho»"
		fn, wrap := "goRange", ""
		if bodyPartial {
			fn, wrap = "goRange?", "some "
		}
		body = strings.ReplaceAll(body, "«step»", wrap)
		destr := ""
		if len(vars) > 1 {
			destr = "let " + c.stateTuple(vars) + " := st\n"
		} else if len(vars) == 1 {
			destr = "let " + vars[0] + " := st\n"
		}
		loop := fmt.Sprintf("%s (σ := %s) (ρ := %s) %s %s fun st (%s : Int) (%s : %s) =>\n%s", fn, sigma, rho, collCode, c.stateTuple(vars), key, val, elT, indent(destr+mapDestr+body))
		after := c.stmts(rest)
		retR := "«ret»r"
		if c.loop != nil {
			// a loop nested in a loop body: a return from inside it leaves the outer loop too
			retR = "«step»(.ret r)"
		}
		if bodyPartial {
			return fmt.Sprintf("match %s with\n| none => none\n| some (.inr r) => %s\n| some (.inl st) =>\n%s", loop, retR, indent(destr+after))
		}
		return fmt.Sprintf("match %s with\n| .inr r => %s\n| .inl st =>\n%s", loop, retR, indent(destr+after))
	})
}

// closureEnd ends the body of a deferred closure that is being run inline: the
// defers the closure registered itself run first, then the enclosing exit goes on.
func (c *fctx) closureEnd() string {
	if len(c.defers) == 0 {
		return c.onEnd()
	}
	return c.runDefers(len(c.defers)-1, c.onEnd)
}

func (c *fctx) stmts(list []ast.Stmt) string {
	if len(list) == 0 && c.loop == nil && c.onEnd != nil {
		return c.closureEnd()
	}
	if len(list) == 0 && c.loop != nil {
		return "«step»(.next " + c.stateTuple(c.loop.state) + ")"
	}
	if len(list) == 0 {
		// fell off the end
		if len(c.results) == 0 || c.named {
			var vals []string
			for _, r := range c.results {
				vals = append(vals, leanIdent(r.Name()))
			}
			return c.ret(vals)
		}
		fail("missing return")
	}
	s, rest := list[0], list[1:]
	switch x := s.(type) {
	case *ast.ReturnStmt:
		if len(x.Results) == 0 && c.onEnd != nil && c.loop == nil {
			return c.closureEnd()
		}
		if len(x.Results) == 0 {
			var vals []string
			for _, r := range c.results {
				vals = append(vals, leanIdent(r.Name()))
			}
			return c.ret(vals)
		}
		if len(x.Results) == 1 && len(c.results) > 1 {
			// return f() with a tuple
			e := c.expr(x.Results[0])
			return c.withEx(e, func(code string) string {
				var vals []string
				for i := range c.results {
					vals = append(vals, proj(code, i, len(c.results)))
				}
				return c.ret(vals)
			})
		}
		var xs []ex
		for i, r := range x.Results {
			xs = append(xs, c.exprAs(r, c.results[i].Type()))
		}
		return c.withExs(xs, func(codes []string) string { return c.ret(codes) })
	case *ast.IfStmt:
		var pre []ast.Stmt
		if x.Init != nil {
			pre = append(pre, x.Init)
			// re-dispatch with init hoisted (scoping is approximated: Go
			// forbids nothing we rely on; shadowing is handled by let).
			return c.stmts(append(append(pre, &ast.IfStmt{Cond: x.Cond, Body: x.Body, Else: x.Else}), rest...))
		}
		cond := c.expr(x.Cond)
		var els []ast.Stmt
		switch e := x.Else.(type) {
		case nil:
		case *ast.BlockStmt:
			els = e.List
		case *ast.IfStmt:
			els = []ast.Stmt{e}
		}
		return c.withEx(cond, func(code string) string {
			th := c.stmts(append(append([]ast.Stmt{}, x.Body.List...), rest...))
			el := c.stmts(append(append([]ast.Stmt{}, els...), rest...))
			return fmt.Sprintf("if %s then\n%s\nelse\n%s", code, indent(th), indent(el))
		})
	case *ast.SwitchStmt:
		return c.stmts(append(c.desugarSwitch(x), rest...))
	case *ast.EmptyStmt:
		if n, ok := c.loopEnd[x]; ok {
			if c.nOpaque != n {
				fail("loop body reads values that vary per element")
			}
			c.elemLoopVar = nil
			return "let tr := tr ++ [(\"end\", [])]\n" + c.stmts(rest)
		}
		return c.stmts(rest)
	case *ast.RangeStmt:
		if x.Key == nil && x.Value == nil && isInt(c.typeOf(x.X)) && c.trace && c.loop == nil {
			return c.countedLoop(x, rest)
		}
		if mp, isMap := c.typeOf(x.X).Underlying().(*types.Map); isMap && c.t.leanType(mp.Key()) != "" && c.t.leanType(mp.Elem()) != "" {
			return c.rangeLoop(x, rest) // goRange over an opaque list of entries
		}
		if !c.trace || !c.t.isAbstract(c.typeOf(x.X)) {
			return c.rangeLoop(x, rest)
		}
		// effect loop over an abstract collection: see the header comment
		head := "range " + c.show(x.X)
		for _, v := range []ast.Expr{x.Value, x.Key} {
			if id, ok := v.(*ast.Ident); ok && (id.Name == "_" || c.t.isAbstract(c.lhsType(id))) {
				head = id.Name + ", " + head
			} else if v != nil {
				fail("loop variable %s", c.show(v))
			}
		}
		for _, b := range x.Body.List {
			switch s := b.(type) {
			case *ast.RangeStmt, *ast.ExprStmt:
			case *ast.AssignStmt:
				if vid, isId := x.Value.(*ast.Ident); c.spec.ElemLoop && isId && len(s.Lhs) == 1 && len(s.Rhs) == 1 && s.Tok == token.ASSIGN {
					if l, ok := s.Lhs[0].(*ast.Ident); ok && c.p.info.Uses[l] != nil && c.p.info.Uses[l] == c.p.info.Defs[vid] {
						continue // "elem_loop": the value variable is re-bound
					}
				}
				if len(s.Lhs) != 1 || s.Tok != token.ASSIGN || !c.abstractTarget(s.Lhs[0]) {
					fail("assignment %s in a loop over an abstract collection", c.show(s))
				}
			default:
				fail("statement %s in a loop over an abstract collection", c.show(b))
			}
		}
		end := &ast.EmptyStmt{}
		if c.loopEnd == nil {
			c.loopEnd = map[*ast.EmptyStmt]int{}
		}
		c.loopEnd[end] = c.nOpaque
		if vid, isId := x.Value.(*ast.Ident); c.spec.ElemLoop && isId {
			c.elemLoopVar = c.p.info.Defs[vid]
		}
		return fmt.Sprintf("let tr := tr ++ [(\"for\", [%q])]\n", head) +
			c.stmts(append(append(append([]ast.Stmt{}, x.Body.List...), end), rest...))
	case *ast.ForStmt:
		return c.forLoop(x, rest)
	case *ast.TypeSwitchStmt:
		if c.typeSwitchSubjectSymbolic(x) {
			return c.typeSwitch(x, rest)
		}
		return c.stmts(append(c.desugarTypeSwitch(x), rest...))
	case *ast.BranchStmt:
		if c.loop != nil && x.Label == nil {
			switch x.Tok {
			case token.CONTINUE:
				return "«step»(.next " + c.stateTuple(c.loop.state) + ")"
			case token.BREAK:
				return "«step»(.brk " + c.stateTuple(c.loop.state) + ")"
			}
		}
		if c.loop == nil && c.spec.RangeBody && x.Label == nil && x.Tok == token.CONTINUE {
			return c.stmts(nil)
		}
		fail("branch statement %s", x.Tok)
	case *ast.BlockStmt:
		return c.stmts(append(append([]ast.Stmt{}, x.List...), rest...))
	case *ast.DeclStmt:
		gd, ok := x.Decl.(*ast.GenDecl)
		if ok && gd.Tok == token.CONST {
			return c.stmts(rest) // local constants are folded where they are used
		}
		if !ok || gd.Tok != token.VAR {
			fail("declaration %s", c.show(x))
		}
		out := ""
		for _, sp := range gd.Specs {
			vs := sp.(*ast.ValueSpec)
			if len(vs.Values) == 1 && len(vs.Names) == 1 && len(gd.Specs) == 1 {
				// `var x T = v` is `x := v` with v converted to T
				return c.assign(vs.Names[0], c.exprAs(vs.Values[0], c.p.info.Defs[vs.Names[0]].Type()), rest, nil)
			}
			if len(vs.Values) > 0 {
				fail("var with values %s", c.show(x))
			}
			for _, n := range vs.Names {
				if c.t.refs && c.t.leanType(c.p.info.Defs[n].Type()) == "" {
					continue // variable of untranslatable type (func value …): only passed around
				}
				z := c.zero(c.p.info.Defs[n].Type())
				out += fmt.Sprintf("let %s : %s := %s\n", leanIdent(n.Name), c.t.valType(c.p.info.Defs[n].Type()), z)
			}
		}
		return out + c.stmts(rest)
	case *ast.IncDecStmt:
		op := token.ADD
		if x.Tok == token.DEC {
			op = token.SUB
		}
		bits := unsignedBits(c.typeOf(x.X))
		return c.assign(x.X, c.bindN([]ex{c.expr(x.X)}, func(s []string) string {
			r := "(" + s[0] + " " + op.String() + " 1)"
			if bits > 0 {
				return fmt.Sprintf("(goWrapU %s %s)", pow2(bits), r)
			}
			return r
		}), rest, nil)
	case *ast.AssignStmt:
		if l, ok := x.Lhs[0].(*ast.Ident); ok && c.elemLoopVar != nil && len(x.Lhs) == 1 && len(x.Rhs) == 1 && c.p.info.Uses[l] == c.elemLoopVar {
			// "elem_loop": `v = f(v).(T)` — the call is traced, then ("rebind v", [source of the new value])
			var inner ast.Expr = ast.Unparen(x.Rhs[0])
			if ta, ok := inner.(*ast.TypeAssertExpr); ok {
				inner = ast.Unparen(ta.X)
			}
			call, ok := inner.(*ast.CallExpr)
			if !ok {
				fail("re-binding %s of a loop variable", c.show(x))
			}
			return fmt.Sprintf("let tr := tr ++ [%s, (%q, [%q])]\n", c.traceEntry(call), "rebind "+l.Name, c.show(x.Rhs[0])) + c.stmts(rest)
		}
		if len(x.Lhs) == 1 && len(x.Rhs) == 1 && (x.Tok == token.ASSIGN || x.Tok == token.DEFINE) {
			if call, ok := x.Rhs[0].(*ast.CallExpr); ok && c.isListCopy(call) {
				return c.copyStmt(x.Lhs[0], call, rest)
			}
		}
		return c.assignStmt(x, rest)
	case *ast.ExprStmt:
		call, ok := x.X.(*ast.CallExpr)
		if !ok {
			fail("expression statement %s", c.show(x))
		}
		if c.isListCopy(call) {
			return c.copyStmt(nil, call, rest)
		}
		if fl, ok := call.Fun.(*ast.FuncLit); ok && len(call.Args) == 0 && fl.Type.Params.NumFields() == 0 && fl.Type.Results.NumFields() == 0 {
			// `func() { … }()`: the body runs here, with its own defers
			prevEnd, prevLoop, prevDefers := c.onEnd, c.loop, c.defers
			var self func() string
			self = func() string {
				curEnd, curLoop, curDefers := c.onEnd, c.loop, c.defers
				c.onEnd, c.loop, c.defers = prevEnd, prevLoop, prevDefers
				out := c.stmts(rest)
				c.onEnd, c.loop, c.defers = curEnd, curLoop, curDefers
				return out
			}
			c.onEnd, c.loop, c.defers = self, nil, nil
			code := c.stmts(fl.Body.List)
			c.onEnd, c.loop, c.defers = prevEnd, prevLoop, prevDefers
			return code
		}
		if c.matches(c.spec.Ignore, call) {
			return c.stmts(rest)
		}
		if id, ok := call.Fun.(*ast.Ident); ok && id.Name == "panic" && c.loop == nil {
			if _, isB := c.p.info.Uses[id].(*types.Builtin); isB {
				c.partial = true
				return "none"
			}
		}
		if !c.trace {
			fail("call statement %s (not ignored, no trace)", c.show(x))
		}
		if c.spec.TraceNested {
			return c.nestedTrace(call, rest)
		}
		return "let tr := tr ++ [" + c.traceEntry(call) + "]\n" + c.stmts(rest)
	case *ast.GoStmt:
		// a goroutine is started: an effect ("go f", [scalar arguments]); what it
		// does later is not part of this function's translated meaning
		if c.matches(c.spec.Ignore, x.Call) {
			return c.stmts(rest)
		}
		if !c.trace {
			fail("go statement %s (needs trace)", c.show(x))
		}
		entry := c.traceEntry(x.Call)
		entry = "(\"go \" ++ " + entry[1:strings.Index(entry, ",")] + entry[strings.Index(entry, ","):]
		return "let tr := tr ++ [" + entry + "]\n" + c.stmts(rest)
	case *ast.DeferStmt:
		if c.matches(c.spec.Ignore, x.Call) {
			return c.stmts(rest)
		}
		if _, ok := x.Call.Fun.(*ast.FuncLit); ok {
			for _, p := range c.spec.Ignore {
				if p == "defer func" {
					return c.stmts(rest)
				}
			}
		}
		// `defer func() { err = errors.Annotate(err, …) }()` only decorates the
		// text of a non-nil error; nil stays nil.
		if fl, ok := x.Call.Fun.(*ast.FuncLit); ok && len(fl.Body.List) == 1 {
			if as, ok := fl.Body.List[0].(*ast.AssignStmt); ok && len(as.Rhs) == 1 {
				if call, ok := as.Rhs[0].(*ast.CallExpr); ok && strings.HasSuffix(c.show(call.Fun), "errors.Annotate") {
					return c.stmts(rest)
				}
			}
		}
		if fl, ok := x.Call.Fun.(*ast.FuncLit); ok && len(x.Call.Args) == 0 && fl.Type.Params.NumFields() == 0 {
			// a deferred closure: its body runs at every exit reached from
			// here and may read and change the named results
			c.defers = append(c.defers, deferred{body: fl.Body.List})
			out := c.stmts(rest)
			c.defers = c.defers[:len(c.defers)-1]
			return out
		}
		if c.trace {
			// the deferred call runs at every exit reached from here; its
			// arguments are evaluated now
			d := c.tmp("deferred")
			c.defers = append(c.defers, deferred{traceVar: d})
			out := fmt.Sprintf("let %s : List (String × List String) := [%s]\n", d, c.traceEntry(x.Call)) + c.stmts(rest)
			c.defers = c.defers[:len(c.defers)-1]
			return out
		}
		fail("defer %s", c.show(x))
	}
	fail("statement %s (%T)", c.show(s), s)
	return ""
}

// typeSwitch translates `switch [v :=] x.(type)` over a symbolic interface
// value (Option String: none = nil, some t = dynamic type t): an if-chain in
// clause order, `case nil` is `x.isNone`, `case T` is `x == some "<T>"` with T
// printed with package names; the default clause comes last.
func (c *fctx) typeSwitch(x *ast.TypeSwitchStmt, rest []ast.Stmt) string {
	var ta *ast.TypeAssertExpr
	switch a := x.Assign.(type) {
	case *ast.ExprStmt:
		ta, _ = a.X.(*ast.TypeAssertExpr)
	case *ast.AssignStmt:
		ta, _ = a.Rhs[0].(*ast.TypeAssertExpr)
	}
	if x.Init != nil || ta == nil || c.t.leanType(c.typeOf(ta.X)) != "(Option String)" {
		fail("type switch %s", c.show(x.Assign))
	}
	subj := c.expr(ta.X)
	if subj.partial || strings.Contains(subj.code, "«call:") {
		fail("type switch on a partial expression %s", c.show(ta.X))
	}
	out, deflt := "", rest
	closing := 0
	for _, cl := range x.Body.List {
		cc := cl.(*ast.CaseClause)
		ast.Inspect(cc, func(n ast.Node) bool {
			if b, ok := n.(*ast.BranchStmt); ok {
				if b.Tok == token.CONTINUE && b.Label == nil && c.loop != nil {
					return true // continues the enclosing range loop (a `break` would leave the switch only)
				}
				fail("branch statement %s in type switch", b.Tok)
			}
			_, isLoop := n.(*ast.RangeStmt)
			_, isFor := n.(*ast.ForStmt)
			return !isLoop && !isFor
		})
		if cc.List == nil {
			deflt = append(append([]ast.Stmt{}, cc.Body...), rest...)
			continue
		}
		var conds []string
		for _, e := range cc.List {
			if id, ok := e.(*ast.Ident); ok && id.Name == "nil" {
				conds = append(conds, "("+subj.code+").isNone")
			} else {
				conds = append(conds, fmt.Sprintf("(%s == some %q)", subj.code, types.TypeString(c.typeOf(e), func(p *types.Package) string { return p.Name() })))
			}
		}
		out += fmt.Sprintf("if (%s) then\n%s\nelse (\n", strings.Join(conds, " || "), indent(c.stmts(append(append([]ast.Stmt{}, cc.Body...), rest...))))
		closing++
	}
	return out + indent(c.stmts(deflt)) + strings.Repeat(")", closing)
}

// isListCopy reports whether call is the builtin `copy(dst, src)` with dst a
// variable and both operands slices of the same translatable element type.
func (c *fctx) isListCopy(call *ast.CallExpr) bool {
	id, ok := call.Fun.(*ast.Ident)
	if !ok || id.Name != "copy" || len(call.Args) != 2 {
		return false
	}
	if _, isB := c.p.info.Uses[id].(*types.Builtin); !isB {
		return false
	}
	_, isVar := call.Args[0].(*ast.Ident)
	lt := c.t.leanType(c.typeOf(call.Args[0]))
	return isVar && strings.HasPrefix(lt, "(List") && c.t.leanType(c.typeOf(call.Args[1])) == lt
}

// copyStmt translates `copy(dst, src)` / `n = copy(dst, src)` / `n := copy(dst, src)`
// on lists: dst becomes `goCopy dst src` (its first min(len dst, len src)
// elements replaced by those of src, same length), the result is that minimum.
func (c *fctx) copyStmt(lhs ast.Expr, call *ast.CallExpr, rest []ast.Stmt) string {
	d := leanIdent(call.Args[0].(*ast.Ident).Name)
	return c.withEx(c.expr(call.Args[1]), func(src string) string {
		n := c.tmp("n")
		out := fmt.Sprintf("let %s : Int := goCopyN %s %s\nlet %s := goCopy %s %s\n", n, d, src, d, d, src)
		if lhs == nil {
			return out + c.stmts(rest)
		}
		return out + c.assignCode(lhs, n, func() string { return c.stmts(rest) })
	})
}

func hasCall(e ast.Expr) (found bool) {
	ast.Inspect(e, func(n ast.Node) bool {
		_, isCall := n.(*ast.CallExpr)
		found = found || isCall
		return !found
	})
	return found
}

func proj(code string, i, n int) string {
	// right-nested pairs
	s := code
	for k := 0; k < i; k++ {
		s += ".2"
	}
	if i < n-1 {
		s += ".1"
	}
	return s
}

func (c *fctx) withExs(xs []ex, k func(codes []string) string) string {
	codes := make([]string, len(xs))
	var rec func(i int) string
	rec = func(i int) string {
		if i == len(xs) {
			return k(codes)
		}
		return c.withEx(xs[i], func(code string) string { codes[i] = code; return rec(i + 1) })
	}
	return rec(0)
}

func (c *fctx) zero(t types.Type) string {
	lt := c.t.leanType(t)
	switch {
	case lt == "Int":
		return "(0 : Int)"
	case lt == "Bool":
		return "false"
	case lt == "String":
		return "\"\""
	case strings.HasPrefix(lt, "(Option"):
		return "none"
	case strings.HasPrefix(lt, "S_"):
		if st, ok := t.Underlying().(*types.Struct); ok {
			return c.structLit(&ast.CompositeLit{}, st, lt).code
		}
	case strings.HasPrefix(lt, "(List"):
		return "[]"
	}
	switch c.t.valType(t) {
	case "AbsPtr":
		return "false"
	case "Unit":
		return "()"
	}
	fail("zero value of %s", t)
	return ""
}

func (c *fctx) desugarSwitch(x *ast.SwitchStmt) []ast.Stmt {
	var pre []ast.Stmt
	if x.Init != nil {
		pre = append(pre, x.Init)
	}
	var chain *ast.IfStmt
	var last *ast.IfStmt
	var deflt []ast.Stmt
	hasDefault := false
	for _, cl := range x.Body.List {
		cc := cl.(*ast.CaseClause)
		for _, s := range cc.Body {
			if b, ok := s.(*ast.BranchStmt); ok {
				fail("branch statement %s in switch", b.Tok)
			}
		}
		if cc.List == nil {
			deflt, hasDefault = cc.Body, true
			continue
		}
		var cond ast.Expr
		for _, e := range cc.List {
			var one ast.Expr = e
			if x.Tag != nil {
				be := &ast.BinaryExpr{X: x.Tag, Op: token.EQL, Y: e}
				c.p.info.Types[be] = types.TypeAndValue{Type: types.Typ[types.Bool]}
				one = be
			}
			if cond == nil {
				cond = one
			} else {
				be := &ast.BinaryExpr{X: cond, Op: token.LOR, Y: one}
				c.p.info.Types[be] = types.TypeAndValue{Type: types.Typ[types.Bool]}
				cond = be
			}
		}
		is := &ast.IfStmt{Cond: cond, Body: &ast.BlockStmt{List: cc.Body}}
		if chain == nil {
			chain = is
		} else {
			last.Else = is
		}
		last = is
	}
	_ = hasDefault
	if chain == nil {
		return append(pre, deflt...)
	}
	last.Else = &ast.BlockStmt{List: deflt}
	return append(pre, chain)
}

// typeSwitchSubjectSymbolic reports whether the subject of a type switch is a
// symbolic interface value (Option String): then typeSwitch compares dynamic type
// names; otherwise (abstract subject) desugarTypeSwitch uses opaque Bool tests.
func (c *fctx) typeSwitchSubjectSymbolic(x *ast.TypeSwitchStmt) bool {
	var ta *ast.TypeAssertExpr
	switch a := x.Assign.(type) {
	case *ast.ExprStmt:
		ta, _ = a.X.(*ast.TypeAssertExpr)
	case *ast.AssignStmt:
		ta, _ = a.Rhs[0].(*ast.TypeAssertExpr)
	}
	return ta != nil && c.t.leanType(c.typeOf(ta.X)) == "(Option String)"
}

// desugarTypeSwitch turns a type switch on an abstract value into an if-chain
// over opaque Bool parameters "the dynamic type is T", tested in clause order.
func (c *fctx) desugarTypeSwitch(x *ast.TypeSwitchStmt) []ast.Stmt {
	var ta *ast.TypeAssertExpr
	switch a := x.Assign.(type) {
	case *ast.ExprStmt:
		ta, _ = a.X.(*ast.TypeAssertExpr)
	case *ast.AssignStmt:
		ta, _ = a.Rhs[0].(*ast.TypeAssertExpr)
	}
	if x.Init != nil || ta == nil || c.t.leanType(c.typeOf(ta.X)) != "" {
		fail("type switch %s", c.show(x.Assign))
	}
	if c.typeTests == nil {
		c.typeTests = map[*ast.TypeAssertExpr]bool{}
	}
	sw := &ast.SwitchStmt{Body: &ast.BlockStmt{}}
	for _, cl := range x.Body.List {
		cc := cl.(*ast.CaseClause)
		nc := &ast.CaseClause{Body: cc.Body}
		for _, ty := range cc.List {
			t := &ast.TypeAssertExpr{X: ta.X, Type: ty}
			c.p.info.Types[t] = types.TypeAndValue{Type: types.Typ[types.Bool]}
			c.typeTests[t] = true
			nc.List = append(nc.List, t)
		}
		sw.Body.List = append(sw.Body.List, nc)
	}
	return c.desugarSwitch(sw)
}

func (c *fctx) assignStmt(x *ast.AssignStmt, rest []ast.Stmt) string {
	if len(x.Lhs) == 1 && len(x.Rhs) == 1 && !c.spec.DropAbstract && c.abstractTarget(x.Lhs[0]) {
		op := ""
		if x.Tok != token.ASSIGN {
			op = " " + x.Tok.String()
		}
		isBuiltin := func(call *ast.CallExpr) bool {
			id, ok := call.Fun.(*ast.Ident)
			if !ok {
				return false
			}
			_, b := c.p.info.Uses[id].(*types.Builtin)
			return b
		}
		if call, ok := x.Rhs[0].(*ast.CallExpr); ok && !isBuiltin(call) {
			// evaluate the call first (for the trace), then record the write
			e := c.expr(call)
			return c.withEx(e, func(code string) string {
				var v ast.Expr = &ast.Ident{Name: "_"}
				if lt := c.t.leanType(c.typeOf(call)); lt == "Int" || lt == "Bool" {
					v = &ast.Ident{Name: "«(toString " + code + ")»"} // value of scalar type: rendered
				} else if lt == "String" {
					v = &ast.Ident{Name: "«" + code + "»"}
				}
				return c.abstractWrite(x.Lhs[0], op, v, func() string { return c.stmts(rest) })
			})
		}
		return c.abstractWrite(x.Lhs[0], op, x.Rhs[0], func() string { return c.stmts(rest) })
	}
	if x.Tok != token.ASSIGN && x.Tok != token.DEFINE {
		// op=
		if len(x.Lhs) != 1 {
			fail("assignment %s", c.show(x))
		}
		op := map[token.Token]token.Token{token.ADD_ASSIGN: token.ADD, token.SUB_ASSIGN: token.SUB, token.MUL_ASSIGN: token.MUL,
			token.QUO_ASSIGN: token.QUO, token.REM_ASSIGN: token.REM}[x.Tok]
		if op == 0 {
			fail("assignment operator %s", x.Tok)
		}
		be := &ast.BinaryExpr{X: x.Lhs[0], Op: op, Y: x.Rhs[0]}
		c.p.info.Types[be] = types.TypeAndValue{Type: c.typeOf(x.Lhs[0])}
		return c.assign(x.Lhs[0], c.expr(be), rest, nil)
	}
	if len(x.Lhs) == 1 && len(x.Rhs) == 1 && c.spec.DropAbstract {
		// "drop_abstract": the binding of a variable of abstract type is dropped; a call on the
		// right-hand side remains an effect (ignored, pure or traced)
		if id, ok := x.Lhs[0].(*ast.Ident); ok && id.Name != "_" {
			if lt := c.lhsType(id); lt != nil && c.t.leanType(lt) == "" {
				switch r := ast.Unparen(x.Rhs[0]).(type) {
				case *ast.Ident, *ast.SelectorExpr:
					return c.stmts(rest)
				case *ast.CallExpr:
					if c.matches(c.spec.Ignore, r) || c.matches(c.spec.Pure, r) {
						return c.stmts(rest)
					}
					if c.trace {
						return "let tr := tr ++ [" + c.traceEntry(r) + "]\n" + c.stmts(rest)
					}
				}
				fail("assignment %s to a variable of abstract type", c.show(x))
			}
		}
	}
	if len(x.Lhs) == len(x.Rhs) {
		if len(x.Lhs) == 1 {
			return c.assign(x.Lhs[0], c.exprAs(x.Rhs[0], c.lhsType(x.Lhs[0])), rest, nil)
		}
		// parallel assignment: evaluate all, then assign
		var xs []ex
		for i, r := range x.Rhs {
			xs = append(xs, c.exprAs(r, c.lhsType(x.Lhs[i])))
		}
		return c.withExs(xs, func(codes []string) string {
			out := ""
			var tmps []string
			for _, code := range codes {
				tv := c.tmp("a")
				tmps = append(tmps, tv)
				out += fmt.Sprintf("let %s := %s\n", tv, code)
			}
			var chain func(i int) string
			chain = func(i int) string {
				if i == len(x.Lhs) {
					return c.stmts(rest)
				}
				return c.assignCode(x.Lhs[i], tmps[i], func() string { return chain(i + 1) })
			}
			return out + chain(0)
		})
	}
	if len(x.Rhs) == 1 {
		// a, b := f()
		e := c.expr(x.Rhs[0])
		return c.withEx(e, func(code string) string {
			tv := c.tmp("t")
			out := fmt.Sprintf("let %s := %s\n", tv, code)
			var chain func(i int) string
			chain = func(i int) string {
				if i == len(x.Lhs) {
					return c.stmts(rest)
				}
				return c.assignCode(x.Lhs[i], proj(tv, i, len(x.Lhs)), func() string { return chain(i + 1) })
			}
			return out + chain(0)
		})
	}
	fail("assignment %s", c.show(x))
	return ""
}

func (c *fctx) lhsType(l ast.Expr) types.Type {
	if id, ok := l.(*ast.Ident); ok {
		if id.Name == "_" {
			return nil
		}
		if o := c.p.info.Defs[id]; o != nil {
			return o.Type()
		}
		if o := c.p.info.Uses[id]; o != nil {
			return o.Type()
		}
		return nil
	}
	if tv, ok := c.p.info.Types[l]; ok {
		return tv.Type
	}
	return nil
}

func (c *fctx) assign(lhs ast.Expr, e ex, rest []ast.Stmt, _ ast.Expr) string {
	return c.withEx(e, func(code string) string {
		return c.assignCode(lhs, code, func() string { return c.stmts(rest) })
	})
}

// assignCode emits `lhs := code` followed by k().
// abstractTarget reports whether lhs is a field (path) of an abstract object.
func (c *fctx) abstractTarget(lhs ast.Expr) bool {
	if st, ok := lhs.(*ast.StarExpr); ok {
		return c.t.valType(c.typeOf(st.X)) == "AbsPtr" // *p = v through an abstract pointer
	}
	se, ok := lhs.(*ast.SelectorExpr)
	if !ok {
		return false
	}
	if id, ok := se.X.(*ast.Ident); ok {
		if _, isPkg := c.p.info.Uses[id].(*types.PkgName); isPkg {
			return false
		}
	}
	if c.t.isAbstract(c.typeOf(se.X)) || c.abstractTarget(se.X) {
		return true
	}
	// a field of abstract type inside a translated struct is not part of the
	// Lean structure: writing it is an effect as well
	// (with "names" the write is recorded by assignCode, with the name of the value)
	if sel := c.p.info.Selections[se]; sel != nil && sel.Kind() == types.FieldVal && c.t.isAbstract(sel.Obj().Type()) && !c.spec.Names {
		return true
	}
	return false
}

// abstractWrite records an assignment to a field of an abstract object in the trace.
func (c *fctx) abstractWrite(lhs ast.Expr, op string, rhs ast.Expr, k func() string) string {
	if !c.trace {
		fail("assignment to %s, a field of an abstract object (needs trace)", c.show(lhs))
	}
	val := "\"_\""
	mentionsElem := false
	if c.elemLoopVar != nil {
		ast.Inspect(rhs, func(n ast.Node) bool {
			if id, ok := n.(*ast.Ident); ok && c.p.info.Uses[id] == c.elemLoopVar {
				mentionsElem = true
			}
			return !mentionsElem
		})
	}
	if !mentionsElem {
		// ("elem_loop": a value that reads the loop variable is shown as its source text)
		val = c.traceArg(rhs)
	}
	if id, ok := rhs.(*ast.Ident); ok && strings.HasPrefix(id.Name, "«") {
		val = strings.Trim(id.Name, "«»") // already evaluated by the caller
	} else if val == "\"_\"" {
		val = fmt.Sprintf("%q", c.show(rhs))
	}
	c.opaqueVals = nil
	return fmt.Sprintf("let tr := tr ++ [(%q, [%s])]\n", "set "+c.show(lhs)+op, val) + k()
}

func (c *fctx) assignCode(lhs ast.Expr, code string, k func() string) string {
	if c.trace && c.t.symbolic {
		// a store into an abstract value (x.f = v, x[i] = v): a trace entry
		var base ast.Expr
		switch l := lhs.(type) {
		case *ast.SelectorExpr:
			base = l.X
		case *ast.IndexExpr:
			base = l.X
		}
		if base != nil && c.t.abstract(c.typeOf(base)) {
			v := code
			switch lt := c.t.leanType(c.typeOf(lhs)); {
			case lt == "String":
			case lt == "Int" || lt == "Bool" || lt == "(Option String)" || lt == "(List Int)" || lt == "(List String)" || lt == "(List (Option String))":
				v = "(toString " + code + ")"
			default:
				v = "\"_\""
			}
			return fmt.Sprintf("let tr := tr ++ [(%q, [%s])]\n", c.show(lhs)+" =", v) + k()
		}
	}
	switch l := lhs.(type) {
	case *ast.StarExpr:
		// *p = v for a pointer to a translated struct: the whole object is
		// replaced (a nil p is a panic)
		if id, ok := l.X.(*ast.Ident); ok && isPtrStruct(c.typeOf(l.X)) && c.t.leanType(c.typeOf(l.X)) != "" && !c.isRecvVal(l.X) {
			c.partial = true
			b := leanIdent(id.Name)
			note := ""
			if c.trace {
				// fields of abstract type are not in the Lean structure: record
				// that the whole object was overwritten
				note = fmt.Sprintf("  let tr := tr ++ [(%q, [])]\n", "set *"+id.Name)
			}
			return fmt.Sprintf("match %s with\n| none => none\n| some _ =>\n  let %s := some %s\n%s%s", b, b, code, note, indent(k()))
		}
	case *ast.Ident:
		if l.Name == "_" {
			return k()
		}
		return fmt.Sprintf("let %s := %s\n", leanIdent(l.Name), code) + k()
	case *ast.SelectorExpr:
		if c.trace && c.spec.DropAbstract && c.t.leanType(c.typeOf(l.X)) == "" {
			// "drop_abstract": field of an abstract value (`r.Out.Host = …`): an effect in the trace
			switch c.t.leanType(c.typeOf(l)) {
			case "String":
			case "Int", "Bool":
				code = "(toString " + code + ")"
			default:
				code = "\"_\""
			}
			return fmt.Sprintf("let tr := tr ++ [(%q, [%s])]\n", l.Sel.Name+"=", code) + k()
		}
		if c.trace && c.t.isAbstract(c.typeOf(lhs)) {
			// a field of abstract type of a translated struct is not part of
			// the Lean structure: the write is an effect, recorded in the trace
			arg := "\"_\""
			if c.spec.Names {
				arg = code
			}
			return fmt.Sprintf("let tr := tr ++ [(%q, [%s])]\n", "set "+c.show(lhs), arg) + k()
		}
		base, ok := l.X.(*ast.Ident)
		if !ok {
			fail("nested field assignment %s", c.show(lhs))
		}
		f := leanIdent(l.Sel.Name)
		if isPtrStruct(c.typeOf(l.X)) && !c.isRecvVal(l.X) {
			c.partial = true
			b := leanIdent(base.Name)
			v := c.tmp("p")
			return fmt.Sprintf("match %s with\n| none => none\n| some %s =>\n  let %s := some { %s with %s := %s }\n%s", b, v, b, v, f, code, indent(k()))
		}
		b := leanIdent(base.Name)
		return fmt.Sprintf("let %s := { %s with %s := %s }\n", b, b, f, code) + k()
	}
	if ix, ok := lhs.(*ast.IndexExpr); ok && c.trace {
		if _, isMap := c.typeOf(ix.X).Underlying().(*types.Map); isMap {
			c.opaqueVals = nil
			return fmt.Sprintf("let tr := tr ++ [(%q, [%s] ++ %s)]\n", "set "+c.show(lhs), c.traceArg(ix.Index), c.renderVal(code, c.lhsType(lhs))) + k()
		}
	}
	fail("assignment target %s", c.show(lhs))
	return ""
}

// renderVal renders a value for the trace: a list of texts (the scalar fields
// of a struct in declaration order).
func (c *fctx) renderVal(code string, t types.Type) string {
	scalar := func(code string, t types.Type) string {
		switch c.t.leanType(t) {
		case "String":
			return code
		case "Int", "Bool":
			return "(toString " + code + ")"
		}
		return ""
	}
	if r := scalar(code, t); r != "" {
		return "[" + r + "]"
	}
	st, ptr := t, false
	if p, ok := t.(*types.Pointer); ok {
		st, ptr = p.Elem(), true
	}
	if s, ok := st.Underlying().(*types.Struct); ok && c.t.leanType(t) != "" {
		var fs []string
		for i := 0; i < s.NumFields(); i++ {
			if r := scalar("v."+leanIdent(s.Field(i).Name()), s.Field(i).Type()); r != "" {
				fs = append(fs, r)
			}
		}
		if ptr {
			return "(match " + code + " with | none => [\"nil\"] | some v => [" + strings.Join(fs, ", ") + "])"
		}
		return "(let v := " + code + "; [" + strings.Join(fs, ", ") + "])"
	}
	return "[\"_\"]"
}

// ---------------------------------------------------------------------------

func (t *translator) findDecl(p *loadedPkg, name string) *ast.FuncDecl {
	for _, f := range p.files {
		for _, d := range f.Decls {
			fd, ok := d.(*ast.FuncDecl)
			if !ok || fd.Body == nil {
				continue
			}
			n := fd.Name.Name
			if fd.Recv != nil && len(fd.Recv.List) == 1 {
				rt := fd.Recv.List[0].Type
				if s, ok := rt.(*ast.StarExpr); ok {
					rt = s.X
				}
				if ix, ok := rt.(*ast.IndexExpr); ok {
					rt = ix.X
				}
				if id, ok := rt.(*ast.Ident); ok {
					n = id.Name + "." + n
				}
			}
			if n == name {
				return fd
			}
		}
	}
	return nil
}

func (t *translator) translate(sp TrFunc) (fo *funcOut) {
	path := repoModule + sp.Pkg
	key := path + "." + sp.Func
	if sp.Lit > 0 {
		key = fmt.Sprintf("%s#%d", key, sp.Lit)
	}
	if fo = t.funcs[key]; fo != nil {
		if fo.busy {
			fo.err = "recursive call"
		}
		return fo
	}
	fo = &funcOut{spec: sp, name: sp.Name, busy: true}
	t.funcs[key] = fo
	if t.fileAbsBytes {
		// "list_slices": byte slices are lists in this function only
		defer func(saved bool) { t.absBytes = saved }(t.absBytes)
		t.absBytes = !sp.ListSlices
	}
	defer func() {
		fo.busy, fo.done = false, true
		if r := recover(); r != nil {
			te, ok := r.(trErr)
			if !ok {
				panic(r)
			}
			fo.err = te.msg
		}
		t.out = append(t.out, fo)
	}()
	p, err := t.l.load(path)
	if err != nil {
		fail("load %s: %v", path, err)
	}
	outer, litName, isLit := strings.Cut(sp.Func, "#")
	fd := t.findDecl(p, outer)
	if fd == nil {
		fail("function %s not found in %s", sp.Func, sp.Pkg)
	}
	var litSig *types.Signature
	if isLit {
		// "Outer#name": the function literal bound by `name := func(…) {…}` in Outer
		ast.Inspect(fd.Body, func(n ast.Node) bool {
			if as, ok := n.(*ast.AssignStmt); ok && litSig == nil && len(as.Lhs) == 1 && len(as.Rhs) == 1 {
				id, _ := as.Lhs[0].(*ast.Ident)
				if fl, ok := as.Rhs[0].(*ast.FuncLit); ok && id != nil && id.Name == litName {
					litSig, _ = p.info.Types[fl].Type.(*types.Signature)
					fd = &ast.FuncDecl{Name: fd.Name, Type: fl.Type, Body: fl.Body}
				}
			}
			return litSig == nil
		})
		if litSig == nil {
			fail("function literal %s not found in %s", sp.Func, sp.Pkg)
		}
	}
	c := &fctx{t: t, p: p, spec: sp, fd: fd, trace: sp.Trace}
	fo.doc = fmt.Sprintf("%s: %s", p.fset.Position(fd.Pos()).Filename[strings.Index(p.fset.Position(fd.Pos()).Filename, "/internal/")+1:], sp.Func)
	obj := p.info.Defs[fd.Name].(*types.Func)
	sig := obj.Type().(*types.Signature)
	var params []string
	if litSig != nil {
		sig = litSig
		// captured variables of translatable type are leading parameters
		seen := map[types.Object]bool{}
		ast.Inspect(fd.Body, func(n ast.Node) bool {
			id, _ := n.(*ast.Ident)
			if id == nil {
				return true
			}
			v, ok := p.info.Uses[id].(*types.Var)
			if ok && !v.IsField() && !seen[v] && v.Parent() != p.pkg.Scope() && (v.Pos() < fd.Pos() || v.Pos() > fd.End()) && t.leanType(v.Type()) != "" {
				seen[v] = true
				params = append(params, fmt.Sprintf("(%s : %s)", leanIdent(v.Name()), t.leanType(v.Type())))
			}
			return true
		})
	}
	if sig.Recv() != nil {
		c.recv = sig.Recv().Name()
		rty := sig.Recv().Type()
		if pt, ok := rty.(*types.Pointer); ok && sp.RecvNonNil {
			rty = pt.Elem()
			c.recvVal = true
		}
		lt := t.leanType(rty)
		if lt == "" {
			fail("receiver type %s", sig.Recv().Type())
		}
		if c.recv == "" {
			params = append(params, fmt.Sprintf("(_ : %s)", lt)) // unnamed receiver
		} else {
			params = append(params, fmt.Sprintf("(%s : %s)", leanIdent(c.recv), lt))
		}
		// is a field of the receiver assigned anywhere?
		ast.Inspect(fd.Body, func(n ast.Node) bool {
			var targets []ast.Expr
			switch s := n.(type) {
			case *ast.AssignStmt:
				targets = s.Lhs
			case *ast.IncDecStmt:
				targets = []ast.Expr{s.X}
			}
			for _, l := range targets {
				if se, ok := l.(*ast.SelectorExpr); ok {
					if id, ok := se.X.(*ast.Ident); ok && id.Name == c.recv {
						c.recvMut = true
					}
				}
			}
			return true
		})
	}
	nilCompared := map[string]bool{}
	ast.Inspect(fd.Body, func(n ast.Node) bool {
		if be, ok := n.(*ast.BinaryExpr); ok && (be.Op == token.EQL || be.Op == token.NEQ) {
			for _, pair := range [][2]ast.Expr{{be.X, be.Y}, {be.Y, be.X}} {
				if id, ok := pair[1].(*ast.Ident); ok && id.Name == "nil" {
					if v, ok := pair[0].(*ast.Ident); ok {
						nilCompared[v.Name] = true
					}
				}
			}
		}
		return true
	})
	for i := 0; i < sig.Params().Len(); i++ {
		v := sig.Params().At(i)
		lt := t.leanType(v.Type())
		for _, n := range sp.NonNil {
			if pt, ok := v.Type().(*types.Pointer); ok && n == v.Name() && lt != "" {
				if c.nonNil == nil {
					c.nonNil = map[types.Object]bool{}
				}
				c.nonNil[v], lt = true, t.leanType(pt.Elem())
			}
		}
		if lt == "" {
			if nilCompared[v.Name()] && t.valType(v.Type()) == "AbsPtr" {
				params = append(params, fmt.Sprintf("(%s : AbsPtr)", leanIdent(v.Name())))
			}
			// otherwise unused or only passed to opaque calls: drop it
			continue
		}
		params = append(params, fmt.Sprintf("(%s : %s)", leanIdent(v.Name()), lt))
	}
	bodyStmts := fd.Body.List
	if sp.Lit > 0 {
		// translate the sp.Lit-th function literal of fd instead of fd itself
		var lit *ast.FuncLit
		n := 0
		ast.Inspect(fd.Body, func(nd ast.Node) bool {
			if fl, ok := nd.(*ast.FuncLit); ok {
				n++
				if n == sp.Lit {
					lit = fl
				}
			}
			return lit == nil
		})
		if lit == nil {
			fail("function literal #%d not found in %s", sp.Lit, sp.Func)
		}
		lsig, ok := p.info.Types[lit].Type.(*types.Signature)
		if !ok {
			fail("no signature for function literal #%d", sp.Lit)
		}
		for i := 0; i < lsig.Params().Len(); i++ {
			v := lsig.Params().At(i)
			lt := t.leanType(v.Type())
			if lt == "" {
				if nilCompared[v.Name()] && t.valType(v.Type()) == "AbsPtr" {
					params = append(params, fmt.Sprintf("(%s : AbsPtr)", leanIdent(v.Name())))
				}
				continue
			}
			params = append(params, fmt.Sprintf("(%s : %s)", leanIdent(v.Name()), lt))
		}
		fo.doc += fmt.Sprintf(" (function literal #%d)", sp.Lit)
		sig = types.NewSignatureType(sig.Recv(), nil, nil, lsig.Params(), lsig.Results(), false)
		bodyStmts = lit.Body.List
	}
	var resTypes []string
	if c.recvMut {
		rty := sig.Recv().Type()
		if pt, ok := rty.(*types.Pointer); ok && c.recvVal {
			rty = pt.Elem()
		}
		resTypes = append(resTypes, t.leanType(rty))
	}
	// a pointer-to-struct parameter whose fields are assigned: its final value is returned too
	for i := 0; i < sig.Params().Len() && t.refs; i++ {
		v := sig.Params().At(i)
		if lt := t.leanType(v.Type()); isPtrStruct(v.Type()) && strings.HasPrefix(lt, "(Option S_") {
			found := false
			ast.Inspect(fd.Body, func(n ast.Node) bool {
				if as, ok := n.(*ast.AssignStmt); ok {
					for _, l := range as.Lhs {
						if se, ok := l.(*ast.SelectorExpr); ok && identOf(se.X) != nil && c.p.info.Uses[identOf(se.X)] == types.Object(v) {
							found = true
						}
					}
				}
				return true
			})
			if found {
				c.paramMut = append(c.paramMut, leanIdent(v.Name()))
				resTypes = append(resTypes, lt)
			}
		}
	}
	for i := 0; i < sig.Results().Len(); i++ {
		v := sig.Results().At(i)
		c.results = append(c.results, v)
		if v.Name() != "" {
			c.named = true
		}
		if t.leanType(v.Type()) == "" && sp.Names {
			resTypes = append(resTypes, "String") // symbolic name of an abstract value
			continue
		}
		resTypes = append(resTypes, t.valType(v.Type()))
	}
	pre := ""
	for _, o := range sp.Out {
		var ov types.Object
		for id, d := range p.info.Defs {
			if d != nil && id.Name == o && id.Pos() >= fd.Body.Pos() && id.Pos() <= fd.Body.End() && (ov == nil || d.Pos() < ov.Pos()) {
				ov = d
			}
		}
		if ov == nil || t.leanType(ov.Type()) == "" {
			fail("out variable %s", o)
		}
		resTypes = append(resTypes, t.leanType(ov.Type()))
		pre += fmt.Sprintf("let %s : %s := %s\n", leanIdent(o), t.leanType(ov.Type()), c.zero(ov.Type()))
	}
	if c.trace {
		resTypes = append(resTypes, "(List (String × List String))")
	}
	if c.named {
		for _, v := range c.results {
			if t.leanType(v.Type()) == "" && sp.Names {
				pre += fmt.Sprintf("let %s : String := \"nil\"\n", leanIdent(v.Name()))
				continue
			}
			pre += fmt.Sprintf("let %s : %s := %s\n", leanIdent(v.Name()), t.valType(v.Type()), c.zero(v.Type()))
		}
	}
	if c.trace {
		pre += "let tr : List (String × List String) := []\n"
	}
	top := fd.Body.List
	if sp.RangeBody {
		var rs *ast.RangeStmt
		ast.Inspect(fd.Body, func(n ast.Node) bool {
			if r, ok := n.(*ast.RangeStmt); ok && rs == nil {
				rs = r
			}
			return rs == nil
		})
		if rs == nil || rs.Tok != token.DEFINE {
			fail("range_body: no `for … := range` statement")
		}
		for _, e := range []ast.Expr{rs.Key, rs.Value} {
			if id, ok := e.(*ast.Ident); ok && id.Name != "_" && t.leanType(p.info.Defs[id].Type()) != "" {
				params = append(params, fmt.Sprintf("(%s : %s)", leanIdent(id.Name), t.leanType(p.info.Defs[id].Type())))
			}
		}
		top = rs.Body.List
	}
	if !sp.RangeBody {
		top = bodyStmts
	}
	body := pre + c.stmts(top)
	rt := "Unit"
	if len(resTypes) == 1 {
		rt = resTypes[0]
	} else if len(resTypes) > 1 {
		rt = "(" + strings.Join(resTypes, " × ") + ")"
	}
	body = strings.ReplaceAll(body, "«rho»", rt)
	fo.partial = c.partial
	if c.partial {
		rt = "(Option " + rt + ")"
		body = strings.ReplaceAll(body, "«ret»", "some ")
	} else {
		body = strings.ReplaceAll(body, "«ret»", "")
	}
	if strings.Contains(body, "«call:") {
		fail("opaque call in a position where its order of evaluation is not tracked")
	}
	fo.params = append(params, c.opaque...)
	fo.opaque = c.opaque
	fo.resType = rt
	fo.body = body
	return fo
}

func runTranslator(specDir, outDir, harness, modfile string) error {
	files, err := filepath.Glob(filepath.Join(specDir, "C*.json"))
	if err != nil {
		return err
	}
	sort.Strings(files)
	specs := map[string]trSpecFile{}
	pkgset := map[string]bool{}
	for _, fn := range files {
		b, rerr := os.ReadFile(fn)
		if rerr != nil {
			return rerr
		}
		var sf trSpecFile
		if err := json.Unmarshal(b, &sf); err != nil {
			return fmt.Errorf("%s: %v", fn, err)
		}
		specs[strings.TrimSuffix(filepath.Base(fn), ".json")] = sf
		for _, f := range sf.Funcs {
			pkgset[repoModule+f.Pkg] = true
		}
	}
	if len(specs) == 0 {
		return nil
	}
	l := newTrLoader(harness, modfile)
	var paths []string
	for p := range pkgset {
		paths = append(paths, p)
	}
	sort.Strings(paths)
	listErr := l.list(paths)
	var props []string
	for p := range specs {
		props = append(props, p)
	}
	sort.Strings(props)
	for _, prop := range props {
		sf := specs[prop]
		t := &translator{l: l, structs: map[string]*structDef{}, funcs: map[string]*funcOut{}, byDecl: map[string]TrFunc{}, symbolic: sf.Symbolic.All, symb: sf.Symbolic.Types, absBytes: sf.AbstractBytes, fileAbsBytes: sf.AbstractBytes, traceErrors: sf.TraceErrors, traceNew: sf.TraceNew, refs: sf.Refs}
		sanitizeColon = "_"
		if sf.Refs {
			sanitizeColon = ""
		}
		for _, f := range sf.Funcs {
			t.byDecl[repoModule+f.Pkg+"."+f.Func] = f
		}
		if listErr == nil {
			for _, f := range sf.Funcs {
				t.translate(f)
			}
		}
		var buf bytes.Buffer
		fmt.Fprintf(&buf, "import Agd.TrPrelude\n/- GENERATED by /verif/extract (tr.go) from the repository's current source. Do not edit. -/\nset_option linter.unusedVariables false\nnamespace Agd.Gen.Tr%s\nopen Agd.TrPrelude\n\n", prop)
		for _, n := range t.order {
			d := t.structs[n]
			fmt.Fprintf(&buf, "structure %s where\n", d.name)
			if len(d.fields) == 0 {
				fmt.Fprintf(&buf, "  mk ::\n")
			}
			for _, f := range d.fields {
				fmt.Fprintf(&buf, "  %s\n", f)
			}
			fmt.Fprintf(&buf, "deriving Repr, DecidableEq\n\n")
		}
		var failed []string
		if listErr != nil {
			failed = append(failed, "go list failed: "+listErr.Error())
		}
		for _, fo := range t.out {
			if fo.err != "" {
				failed = append(failed, fo.spec.Func+": "+fo.err)
				fmt.Fprintf(&buf, "/- %s: TRANSLATION FAILED: %s -/\n\n", fo.doc, strings.ReplaceAll(fo.err, "-/", "- /"))
				continue
			}
			fmt.Fprintf(&buf, "/-- %s -/\ndef %s %s : %s :=\n%s\n\n", fo.doc, fo.name, strings.Join(fo.params, " "), fo.resType, indent(fo.body))
		}
		fmt.Fprintf(&buf, "/-- Functions of the translation list that could not be translated (must be empty). -/\ndef translationFailures : List String := [%s]\n\nend Agd.Gen.Tr%s\n",
			quoteList(failed), prop)
		if err := os.WriteFile(filepath.Join(outDir, "Tr"+prop+".lean"), buf.Bytes(), 0o644); err != nil {
			return err
		}
	}
	return nil
}

func identOf(e ast.Expr) *ast.Ident { id, _ := e.(*ast.Ident); return id }

func quoteList(xs []string) string {
	var q []string
	for _, x := range xs {
		q = append(q, fmt.Sprintf("%q", x))
	}
	return strings.Join(q, ", ")
}
