// Translator: a small, explicit subset of Go (integer / boolean / string /
// error decision code over scalar struct fields) to Lean 4 definitions.
//
// Unlike the syntactic facts of main.go, the output here is *executable Lean*
// regenerated from /repo on every run; Agd/Tie/Tr<Cxx>.lean proves that the
// hand-written model coincides with these definitions (or proves the property
// about them directly).  A semantic change of a translated function therefore
// changes the definition the theorems are about.
//
// What is translated, and how (the trusted part of the tie):
//
//   - every Go integer type and every named type with an integer underlying
//     type (time.Duration, dnsserver.Network, …) becomes Lean `Int`; overflow
//     and unsigned wrap-around are NOT modelled;  `/` and `%` become
//     `Int.tdiv` / `Int.tmod` (truncation toward zero, as in Go) and a zero
//     divisor makes the result `none` (a run-time panic);
//   - bool -> Bool, string -> String, error -> Option String (`none` = nil;
//     a non-nil error is `some <source text of the expression that made it>`);
//   - a struct type becomes a Lean structure holding its fields of translatable
//     type; a pointer to a struct becomes `Option <structure>` and a field
//     access through a nil pointer makes the result `none` (a panic);
//   - statements: if / else, expression-less and tagged switch (no
//     fallthrough), return (also naked), :=, =, op=, ++, --, var, assignments
//     to fields of the receiver or of local struct values; statements after a
//     branching statement are duplicated into both branches;
//   - expressions: literals, constants (folded with go/types, so imported
//     constants such as dns.MaxMsgSize are resolved from the dependency's
//     export data), parameters, locals, field selectors, arithmetic,
//     comparisons, !, && and || with Go's short-circuit order, integer
//     conversions (identity), the built-ins min and max;
//   - a call to another function of the same translation list is a call of its
//     Lean definition; cmp.Or over errors is "first non-nil, all arguments
//     evaluated"; validateProp(name, f) is `f()` (the name prefix is kept in
//     the error text); validatePositive(name, v) is the intrinsic `v <= 0`
//     (signed integers, durations) resp. `v == 0` (unsigned) — its own body
//     uses reflection and is tied by syntactic facts and the differential run;
//   - a struct type of the repository (and timeutil.Duration) becomes a Lean
//     structure; every other struct type (time.Time, sync.Mutex, netip.Addr,
//     dns.Msg, caches, …) is abstract: parameters of such types are dropped and
//     an expression that reads from them (`req.Question[0].Qtype`) becomes an
//     extra parameter `e<k>_<name>` holding its value;
//   - a *value* of abstract type (local, result of an opaque call, parameter
//     that is compared with nil) is modelled by what the code can observe of
//     it: `AbsPtr` (true = non-nil) for pointers, interfaces, maps, slices, …,
//     `Unit` otherwise; `&T{…}` of abstract type is non-nil; an assignment to a
//     field of an abstract object (`resp.Compress = true`) is an effect and is
//     appended to the trace as `("set resp.Compress", ["true"])`; values read
//     from abstract objects are re-read (fresh parameters) after any opaque
//     call or such a write;
//   - a result (or assignment target) of abstract pointer or interface type is
//     `AbsPtr` too: nil is `false`, a concrete value converted to the interface
//     is `true` (which implementation it is, is not modelled);
//   - a field of abstract pointer type of a translated struct
//     (`srvReqInfo.Userinfo`) is not part of the Lean structure: reading it is
//     an opaque `AbsPtr` parameter (its nil-ness);
//   - []error literals, append on them and errors.Join are lists of optional
//     texts and "first non-nil" (errors.Join is non-nil iff an element is);
//   - any other call is *opaque*: its result becomes an extra parameter of the
//     Lean definition (`o<k>_<callee>`, one per call site, in order of
//     appearance) and, when "trace" is set, the definition also returns the
//     list of opaque calls reached, in order, each with the values of its
//     arguments of scalar type — so "which external effects happen, in which
//     order and with which arguments" is part of the translated meaning; calls
//     listed under "pure" are opaque values that are not traced; a call to a
//     translated function that itself has opaque parameters is opaque too;
//   - calls listed under "fn" are opaque *functions*: one parameter
//     `f_<callee> : A1 → … → R` per callee, applied to the call's arguments of
//     translatable type (abstract arguments such as ctx are dropped), so which
//     value is handed to the callee is part of the translated meaning (a
//     database look-up is a function of the identifier it is asked for); with
//     "trace" the call is also recorded unless it is listed under "pure";
//   - calls listed under "ignore" (mutex operations, logging, metrics) are
//     dropped; methods listed under "identity" return their receiver;
//   - "recv_nonnil" models a pointer receiver as the struct itself (the
//     assumption that callers never pass nil is stated where it is used).
//   - the zero value of a slice (a named result) is the empty list;
//     newDeviceDataError(err, typ), like fmt.Errorf, makes a non-nil error;
//   - a slice expression xs[lo:hi] on a list is take/drop; bounds outside
//     0 ≤ lo ≤ hi ≤ len(xs) make the result `none` (capacity is not modelled);
//   - a struct literal with field names T{f: v, …} is a Lean structure instance
//     (fields of untranslatable type are not part of the structure, fields not
//     mentioned get their zero value); &T{…} is `some` of it;
//   - `defer func() { err = errors.Annotate(err, …) }()` is dropped: it changes
//     the text of a non-nil error only (nil stays nil);
//
// Anything else is a translation error: the generated definition is replaced
// by a marker that makes the Tie theorem fail, i.e. a broken obligation.
package main

import (
	"bytes"
	"encoding/json"
	"fmt"
	"go/ast"
	"go/constant"
	"go/importer"
	"go/parser"
	"go/printer"
	"go/token"
	"go/types"
	"io"
	"os"
	"os/exec"
	"path/filepath"
	"sort"
	"strings"
)

const repoModule = "github.com/AdguardTeam/AdGuardDNS/"

// TrFunc selects one function to translate.
type TrFunc struct {
	// Pkg is the package directory relative to the repository root.
	Pkg string `json:"pkg"`
	// Func is "Name" or "Recv.Name".
	Func string `json:"func"`
	// Name is the Lean identifier (within Agd.Gen.Tr<Cxx>).
	Name string `json:"name"`
	// Ignore lists printed callee expressions of calls that are dropped.
	Ignore []string `json:"ignore,omitempty"`
	// Trace makes the definition return the list of opaque calls reached.
	Trace bool `json:"trace,omitempty"`
	// RecvNonNil models the pointer receiver as the struct itself: callers
	// are assumed never to pass nil (stated where it is used).
	RecvNonNil bool `json:"recv_nonnil,omitempty"`
	// Identity lists method names whose call returns the receiver's value
	// unchanged (datasize.ByteSize.Bytes: `return uint64(b)`).
	Identity []string `json:"identity,omitempty"`
	// Pure lists printed callee expressions whose calls are opaque *values*
	// that are not recorded in the trace (getters such as t.UnixNano).
	Pure []string `json:"pure,omitempty"`
	// Fn lists printed callee expressions whose calls become applications of
	// one function parameter `f_<name>` (per callee) to the arguments of
	// translatable type: the result depends on those arguments only.
	Fn []string `json:"fn,omitempty"`
}

type trSpecFile struct {
	Funcs []TrFunc `json:"funcs"`
}

type loadedPkg struct {
	fset  *token.FileSet
	files []*ast.File
	info  *types.Info
	pkg   *types.Package
}

type trLoader struct {
	harness string
	env     []string
	exports map[string]string
	dirs    map[string]string
	gofiles map[string][]string
	pkgs    map[string]*loadedPkg
	fset    *token.FileSet
	imp     types.Importer
}

func newTrLoader(harness, modfile string) *trLoader {
	env := append(os.Environ(), "GOWORK=off", "GOPROXY=off", "GOSUMDB=off", "GOTOOLCHAIN=local")
	flags := "-mod=mod"
	if modfile != "" {
		flags += " -modfile=" + modfile
	}
	env = append(env, "GOFLAGS="+flags)
	l := &trLoader{harness: harness, env: env, exports: map[string]string{}, dirs: map[string]string{},
		gofiles: map[string][]string{}, pkgs: map[string]*loadedPkg{}, fset: token.NewFileSet()}
	l.imp = importer.ForCompiler(l.fset, "gc", func(path string) (io.ReadCloser, error) {
		e, ok := l.exports[path]
		if !ok || e == "" {
			return nil, fmt.Errorf("no export data for %s", path)
		}
		return os.Open(e)
	})
	return l
}

func (l *trLoader) list(paths []string) error {
	args := append([]string{"list", "-export", "-deps", "-json=ImportPath,Export,Dir,GoFiles"}, paths...)
	cmd := exec.Command("go", args...)
	cmd.Dir = l.harness
	cmd.Env = l.env
	var stderr bytes.Buffer
	cmd.Stderr = &stderr
	out, err := cmd.Output()
	if err != nil {
		return fmt.Errorf("go list: %v: %s", err, stderr.String())
	}
	dec := json.NewDecoder(bytes.NewReader(out))
	for dec.More() {
		var p struct {
			ImportPath, Export, Dir string
			GoFiles                 []string
		}
		if err := dec.Decode(&p); err != nil {
			return err
		}
		l.exports[p.ImportPath] = p.Export
		l.dirs[p.ImportPath] = p.Dir
		l.gofiles[p.ImportPath] = p.GoFiles
	}
	return nil
}

func (l *trLoader) load(path string) (*loadedPkg, error) {
	if p, ok := l.pkgs[path]; ok {
		return p, nil
	}
	dir, ok := l.dirs[path]
	if !ok {
		return nil, fmt.Errorf("package %s not listed", path)
	}
	var files []*ast.File
	for _, fn := range l.gofiles[path] {
		f, err := parser.ParseFile(l.fset, filepath.Join(dir, fn), nil, parser.SkipObjectResolution)
		if err != nil {
			return nil, err
		}
		files = append(files, f)
	}
	info := &types.Info{Types: map[ast.Expr]types.TypeAndValue{}, Defs: map[*ast.Ident]types.Object{},
		Uses: map[*ast.Ident]types.Object{}, Selections: map[*ast.SelectorExpr]*types.Selection{}}
	conf := types.Config{Importer: l.imp, Error: func(error) {}}
	pkg, _ := conf.Check(path, l.fset, files, info)
	p := &loadedPkg{fset: l.fset, files: files, info: info, pkg: pkg}
	l.pkgs[path] = p
	return p, nil
}

// ---------------------------------------------------------------------------

type trErr struct{ msg string }

func fail(format string, a ...any) { panic(trErr{fmt.Sprintf(format, a...)}) }

type structDef struct {
	name   string
	fields []string // "name : Type"
	zero   []string // "name := zero"
}

type translator struct {
	l       *trLoader
	structs map[string]*structDef
	order   []string
	funcs   map[string]*funcOut // key: pkgpath + "." + Recv.Name
	byDecl  map[string]TrFunc
	out     []*funcOut
}

type funcOut struct {
	spec    TrFunc
	name    string
	params  []string
	resType string
	partial bool
	body    string
	err     string
	doc     string
	opaque  []string
	done    bool
	busy    bool
}

// leanType returns the Lean type of a Go type, or "" if untranslatable.
func (t *translator) leanType(ty types.Type) string {
	switch u := ty.(type) {
	case *types.Named:
		if u.Obj().Pkg() == nil && u.Obj().Name() == "error" {
			return "(Option String)"
		}
		if st, ok := u.Underlying().(*types.Struct); ok {
			return t.structType(u, st)
		}
		return t.leanType(u.Underlying())
	case *types.Alias:
		return t.leanType(types.Unalias(u))
	case *types.Basic:
		switch {
		case u.Info()&types.IsInteger != 0:
			return "Int"
		case u.Info()&types.IsBoolean != 0:
			return "Bool"
		case u.Info()&types.IsString != 0:
			return "String"
		}
		return ""
	case *types.Pointer:
		if n, ok := u.Elem().(*types.Named); ok {
			if st, ok := n.Underlying().(*types.Struct); ok {
				s := t.structType(n, st)
				if s == "" {
					return ""
				}
				return "(Option " + s + ")"
			}
		}
		return ""
	case *types.Slice:
		if el := t.leanType(u.Elem()); el != "" {
			return "(List " + el + ")"
		}
		return ""
	case *types.Interface:
		if u.NumMethods() == 1 && u.Method(0).Name() == "Error" {
			return "(Option String)"
		}
		return ""
	case *types.Tuple:
		var parts []string
		for i := 0; i < u.Len(); i++ {
			parts = append(parts, t.valType(u.At(i).Type()))
		}
		if len(parts) == 0 {
			return "Unit"
		}
		return "(" + strings.Join(parts, " × ") + ")"
	}
	return ""
}

// valType is the Lean type of a *value* (local, parameter that is compared with
// nil, result of an opaque call): the translated type when there is one,
// `AbsPtr` (its nil-ness: true = non-nil) for pointers, interfaces, maps,
// channels, functions and slices of abstract type, `Unit` for other abstract
// values.
func (t *translator) valType(ty types.Type) string {
	if lt := t.leanType(ty); lt != "" {
		return lt
	}
	switch ty.Underlying().(type) {
	case *types.Pointer, *types.Interface, *types.Map, *types.Chan, *types.Signature, *types.Slice:
		return "AbsPtr"
	}
	return "Unit"
}

func (t *translator) isAbstract(ty types.Type) bool { return t.leanType(ty) == "" }

func sanitize(s string) string {
	r := strings.NewReplacer(".", "_", "/", "_", "-", "_", "*", "", "(", "", ")", "", "[", "_", "]", "_", " ", "")
	return r.Replace(s)
}

// structPkgAllowed: struct types of the repository itself and the few library
// value types the configuration uses are translated; every other struct
// (time.Time, sync.Mutex, netip.Addr, dns.Msg, …) is abstract.
func structPkgAllowed(n *types.Named) bool {
	if n.Obj().Pkg() == nil {
		return false
	}
	p := n.Obj().Pkg().Path()
	return strings.HasPrefix(p, repoModule) || p == "github.com/AdguardTeam/golibs/timeutil"
}

func (t *translator) structType(n *types.Named, st *types.Struct) string {
	if !structPkgAllowed(n) {
		return ""
	}
	pk := ""
	if n.Obj().Pkg() != nil {
		pk = n.Obj().Pkg().Name() + "_"
	}
	name := "S_" + sanitize(pk+n.Obj().Name())
	if d, ok := t.structs[name]; ok {
		if d == nil {
			return "" // recursive
		}
		return name
	}
	t.structs[name] = nil
	d := &structDef{name: name}
	for i := 0; i < st.NumFields(); i++ {
		f := st.Field(i)
		lt := t.leanType(f.Type())
		if lt == "" {
			continue
		}
		d.fields = append(d.fields, fmt.Sprintf("%s : %s", leanIdent(f.Name()), lt))
	}
	t.structs[name] = d
	t.order = append(t.order, name)
	return name
}

var leanKeywords = map[string]bool{"end": true, "from": true, "fun": true, "at": true, "open": true, "in": true, "do": true,
	"then": true, "else": true, "if": true, "let": true, "have": true, "show": true, "match": true, "with": true, "type": true,
	"Type": true, "def": true, "theorem": true, "local": true, "where": true, "by": true, "instance": true, "structure": true,
	"class": true, "namespace": true, "section": true, "variable": true, "import": true, "export": true, "mutual": true,
	"partial": true, "private": true, "protected": true, "noncomputable": true, "unsafe": true, "macro": true, "syntax": true,
	"notation": true, "infix": true, "prefix": true, "postfix": true, "deriving": true, "extends": true, "using": true,
	"calc": true, "return": true, "for": true, "mut": true, "try": true, "catch": true, "finally": true, "unless": true,
	"nomatch": true, "nofun": true, "Prop": true, "Sort": true, "set_option": true, "attribute": true, "universe": true,
	"inductive": true, "abbrev": true, "example": true, "axiom": true, "opaque": true, "omit": true, "include": true}

func leanIdent(s string) string {
	if s == "_" {
		return "_"
	}
	if leanKeywords[s] {
		return s + "'"
	}
	return s
}

// ---------------------------------------------------------------------------
// Per-function translation.

type fctx struct {
	t           *translator
	p           *loadedPkg
	spec        TrFunc
	fd          *ast.FuncDecl
	recv        string // receiver variable name ("" if none)
	recvVal     bool   // pointer receiver modelled as the struct itself (recv_nonnil)
	recvMut     bool   // receiver is a pointer whose fields are assigned
	results     []*types.Var
	named       bool
	opaque      []string // extra parameters "name : Type"
	nOpaque     int
	fresh       int
	partial     bool
	ptrVars     map[string]bool // variables of pointer-to-struct type (Option S)
	derefd      map[string]string
	trace       bool
	localFns    map[string]*ast.FuncLit
	loop        *loopCtx
	opaqueVals  map[string]string
	opaqueNodes map[ast.Expr]string
	opaqueCalls map[*ast.CallExpr]string
}

type ex struct {
	code    string
	partial bool // code has type Option T instead of T
}

func (c *fctx) isRecvVal(e ast.Expr) bool {
	id, ok := e.(*ast.Ident)
	return ok && c.recvVal && id.Name == c.recv
}

func (c *fctx) tmp(prefix string) string {
	c.fresh++
	return fmt.Sprintf("%s%d", prefix, c.fresh)
}

func (c *fctx) show(n ast.Node) string {
	var buf bytes.Buffer
	_ = printer.Fprint(&buf, c.p.fset, n)
	return strings.Join(strings.Fields(buf.String()), " ")
}

func intLit(v constant.Value) string {
	s := v.ExactString()
	if strings.HasPrefix(s, "-") {
		return "(" + s + " : Int)"
	}
	return "(" + s + " : Int)"
}

func (c *fctx) typeOf(e ast.Expr) types.Type {
	tv, ok := c.p.info.Types[e]
	if !ok || tv.Type == nil {
		if id, ok := e.(*ast.Ident); ok {
			if o := c.p.info.Uses[id]; o != nil {
				return o.Type()
			}
			if o := c.p.info.Defs[id]; o != nil {
				return o.Type()
			}
		}
		fail("no type for %s", c.show(e))
	}
	return tv.Type
}

func isInt(t types.Type) bool {
	b, ok := t.Underlying().(*types.Basic)
	return ok && b.Info()&types.IsInteger != 0
}
func isUnsigned(t types.Type) bool {
	b, ok := t.Underlying().(*types.Basic)
	return ok && b.Info()&types.IsUnsigned != 0
}

// unsignedBits is the width of an unsigned integer type (uint and uintptr are
// 64 bits wide on the platforms the server runs on), 0 for other types.
func unsignedBits(t types.Type) int {
	b, ok := t.Underlying().(*types.Basic)
	if !ok || b.Info()&types.IsUnsigned == 0 {
		return 0
	}
	switch b.Kind() {
	case types.Uint8:
		return 8
	case types.Uint16:
		return 16
	case types.Uint32:
		return 32
	}
	return 64
}
func pow2(bits int) string {
	return map[int]string{8: "256", 16: "65536", 32: "4294967296", 64: "18446744073709551616"}[bits]
}
func isBool(t types.Type) bool {
	b, ok := t.Underlying().(*types.Basic)
	return ok && b.Info()&types.IsBoolean != 0
}
func isString(t types.Type) bool {
	b, ok := t.Underlying().(*types.Basic)
	return ok && b.Info()&types.IsString != 0
}
func isError(t types.Type) bool {
	if n, ok := t.(*types.Named); ok && n.Obj().Pkg() == nil && n.Obj().Name() == "error" {
		return true
	}
	return false
}
func isPtrStruct(t types.Type) bool {
	p, ok := t.(*types.Pointer)
	if !ok {
		return false
	}
	_, ok = p.Elem().Underlying().(*types.Struct)
	return ok
}

// implementsError reports whether t is a concrete (non-interface) type with an
// Error() string method.
func implementsError(t types.Type) bool {
	if isError(t) {
		return false
	}
	if _, ok := t.Underlying().(*types.Interface); ok {
		return false
	}
	ms := types.NewMethodSet(t)
	for i := 0; i < ms.Len(); i++ {
		if ms.At(i).Obj().Name() == "Error" {
			return true
		}
	}
	return false
}

// exprAs translates e for a context of type to (implicit conversion of a
// concrete error value to the error interface).
func (c *fctx) exprAs(e ast.Expr, to types.Type) ex {
	if id, ok := e.(*ast.Ident); ok && id.Name == "nil" && to != nil && strings.HasPrefix(c.t.leanType(to), "(List") {
		return ex{code: "[]"} // a nil slice is the empty list
	}
	if to != nil && c.t.isAbstract(to) && c.t.valType(to) == "AbsPtr" {
		if id, ok := e.(*ast.Ident); ok && id.Name == "nil" {
			return ex{code: "false"}
		}
		if _, toIface := to.Underlying().(*types.Interface); toIface && !types.IsInterface(c.typeOf(e)) {
			// a concrete value stored in an interface is a non-nil interface
			x := c.expr(e)
			if strings.Contains(x.code, "«call:") {
				fail("traced call inside a value converted to an abstract interface: %s", c.show(e))
			}
			return c.bindN([]ex{x}, func([]string) string { return "true" })
		}
	}
	if to != nil && isError(to) {
		if id, ok := e.(*ast.Ident); ok && id.Name == "nil" {
			return ex{code: "none"}
		}
		from := c.typeOf(e)
		if implementsError(from) {
			if isString(from) {
				x := c.expr(e)
				return c.bindN([]ex{x}, func(s []string) string { return "(some " + s[0] + ")" })
			}
			return ex{code: fmt.Sprintf("(some %q)", c.show(e))}
		}
	}
	return c.expr(e)
}

// bind2 combines sub-expressions: f receives pure codes.
func (c *fctx) bindN(xs []ex, f func(codes []string) string) ex {
	codes := make([]string, len(xs))
	any := false
	for i, x := range xs {
		if x.partial {
			any = true
			codes[i] = c.tmp("v")
		} else {
			codes[i] = x.code
		}
	}
	if !any {
		return ex{code: f(codes)}
	}
	res := "some (" + f(codes) + ")"
	for i := len(xs) - 1; i >= 0; i-- {
		if xs[i].partial {
			res = fmt.Sprintf("(%s).bind fun %s => %s", xs[i].code, codes[i], res)
		}
	}
	return ex{code: "(" + res + ")", partial: true}
}

func (c *fctx) expr(e ast.Expr) ex {
	// constants first
	if tv, ok := c.p.info.Types[e]; ok && tv.Value != nil {
		switch tv.Value.Kind() {
		case constant.Int:
			return ex{code: intLit(tv.Value)}
		case constant.Bool:
			return ex{code: fmt.Sprint(constant.BoolVal(tv.Value))}
		case constant.String:
			return ex{code: fmt.Sprintf("%q", constant.StringVal(tv.Value))}
		}
		fail("unsupported constant %s", c.show(e))
	}
	switch x := e.(type) {
	case *ast.ParenExpr:
		return c.expr(x.X)
	case *ast.Ident:
		if x.Name == "nil" {
			return ex{code: "none"}
		}
		if x.Name == "true" || x.Name == "false" {
			return ex{code: x.Name}
		}
		obj := c.p.info.Uses[x]
		if v, ok := obj.(*types.Var); ok {
			if v.Parent() == c.p.pkg.Scope() {
				// package-level variable: opaque value
				if isError(v.Type()) {
					return ex{code: fmt.Sprintf("(some %q)", x.Name)}
				}
				fail("package-level variable %s", x.Name)
			}
			return ex{code: leanIdent(x.Name)}
		}
		fail("identifier %s", x.Name)
	case *ast.SelectorExpr:
		return c.selector(x)
	case *ast.UnaryExpr:
		if cl, ok := x.X.(*ast.CompositeLit); ok && x.Op == token.AND && c.t.isAbstract(c.typeOf(x)) {
			// a freshly allocated abstract object: non-nil; calls among its
			// elements are evaluated (for the trace)
			var xs []ex
			for _, el := range cl.Elts {
				v := el
				if kv, ok := el.(*ast.KeyValueExpr); ok {
					v = kv.Value
				}
				if _, isCall := v.(*ast.CallExpr); isCall {
					xs = append(xs, c.expr(v))
				}
			}
			return c.bindN(xs, func(s []string) string {
				if len(s) == 0 {
					return "true"
				}
				return "(Function.const _ true (" + strings.Join(s, ", ") + "))"
			})
		}
		if lit, ok := x.X.(*ast.CompositeLit); ok && x.Op == token.AND {
			// &T{…}: a non-nil pointer
			return c.bindN([]ex{c.expr(lit)}, func(s []string) string { return "(some " + s[0] + ")" })
		}
		a := c.expr(x.X)
		switch x.Op {
		case token.NOT:
			return c.bindN([]ex{a}, func(s []string) string { return "(!" + s[0] + ")" })
		case token.SUB:
			return c.bindN([]ex{a}, func(s []string) string { return "(-" + s[0] + ")" })
		case token.ADD:
			return a
		}
		fail("unary %s", x.Op)
	case *ast.BinaryExpr:
		return c.binary(x)
	case *ast.CallExpr:
		return c.call(x)
	case *ast.BasicLit:
		fail("literal %s without constant value", x.Value)
	case *ast.CompositeLit:
		if sl, ok := c.typeOf(x).Underlying().(*types.Slice); ok && c.t.leanType(sl.Elem()) != "" {
			var xs []ex
			for _, el := range x.Elts {
				xs = append(xs, c.exprAs(el, sl.Elem()))
			}
			return c.bindN(xs, func(s []string) string { return "[" + strings.Join(s, ", ") + "]" })
		}
		if st, ok := c.typeOf(x).Underlying().(*types.Struct); ok && c.t.leanType(c.typeOf(x)) != "" {
			// T{f: v, …} with field names; fields not mentioned get their zero value
			var names []string
			var xs []ex
			given := map[string]bool{}
			for _, el := range x.Elts {
				kv, ok := el.(*ast.KeyValueExpr)
				if !ok {
					fail("struct literal without field names %s", c.show(x))
				}
				fn := kv.Key.(*ast.Ident).Name
				given[fn] = true
				for i := 0; i < st.NumFields(); i++ {
					if f := st.Field(i); f.Name() == fn && c.t.leanType(f.Type()) != "" {
						names, xs = append(names, leanIdent(fn)), append(xs, c.exprAs(kv.Value, f.Type()))
					}
				}
			}
			for i := 0; i < st.NumFields(); i++ {
				if f := st.Field(i); !given[f.Name()] && c.t.leanType(f.Type()) != "" {
					names, xs = append(names, leanIdent(f.Name())), append(xs, ex{code: c.zero(f.Type())})
				}
			}
			return c.bindN(xs, func(s []string) string {
				for i := range s {
					s[i] = names[i] + " := " + s[i]
				}
				return "({ " + strings.Join(s, ", ") + " } : " + c.t.leanType(c.typeOf(x)) + ")"
			})
		}
	}
	if sx, ok := e.(*ast.SliceExpr); ok && !sx.Slice3 {
		if _, isSl := c.typeOf(sx.X).Underlying().(*types.Slice); isSl && c.t.leanType(c.typeOf(sx.X)) != "" {
			// xs[lo:hi] on a list; bounds outside 0 ≤ lo ≤ hi ≤ len => panic (capacity is not modelled)
			c.partial = true
			parts := []ex{c.expr(sx.X), {code: "(0 : Int)"}}
			if sx.Low != nil {
				parts[1] = c.expr(sx.Low)
			}
			if sx.High != nil {
				parts = append(parts, c.expr(sx.High))
			}
			r := c.bindN(parts, func(s []string) string {
				hi := "(" + s[0] + ".length : Int)"
				if len(s) == 3 {
					hi = s[2]
				}
				return fmt.Sprintf("(if 0 ≤ %s ∧ %s ≤ %s ∧ %s ≤ (%s.length : Int) then some ((%s.take (%s).toNat).drop (%s).toNat) else none)", s[1], s[1], hi, hi, s[0], s[0], hi, s[1])
			})
			if r.partial {
				return ex{code: "(Option.join " + r.code + ")", partial: true}
			}
			return ex{code: r.code, partial: true}
		}
	}
	if ix, ok := e.(*ast.IndexExpr); ok {
		if _, isSl := c.typeOf(ix.X).Underlying().(*types.Slice); isSl && c.t.leanType(c.typeOf(ix.X)) != "" && isInt(c.typeOf(ix.Index)) {
			// out of range => panic
			c.partial = true
			r := c.bindN([]ex{c.expr(ix.X), c.expr(ix.Index)}, func(s []string) string { return "(goIndex? " + s[0] + " " + s[1] + ")" })
			if r.partial {
				return ex{code: "(Option.join " + r.code + ")", partial: true}
			}
			return ex{code: r.code, partial: true}
		}
		return c.opaqueValue(e)
	}
	fail("expression %s (%T)", c.show(e), e)
	return ex{}
}

// opaqueValue turns an expression the subset cannot express (an element of a
// slice, a field of a library struct) into an extra parameter holding its value.
func (c *fctx) opaqueValue(e ast.Expr) ex {
	lt := c.t.leanType(c.typeOf(e))
	if lt == "" && c.t.valType(c.typeOf(e)) == "AbsPtr" {
		lt = "AbsPtr" // a field holding a pointer to an abstract object: its nil-ness
	}
	if lt == "" {
		fail("expression %s has untranslatable type %s", c.show(e), c.typeOf(e))
	}
	key := c.show(e)
	if c.opaqueVals == nil {
		c.opaqueVals = map[string]string{}
	}
	if c.opaqueNodes == nil {
		c.opaqueNodes = map[ast.Expr]string{}
	}
	// the same source expression in the two copies of a duplicated
	// continuation is one parameter (only one copy runs)
	if n, ok := c.opaqueNodes[e]; ok {
		c.opaqueVals[key] = n
		return ex{code: n}
	}
	if n, ok := c.opaqueVals[key]; ok {
		c.opaqueNodes[e] = n
		return ex{code: n}
	}
	c.nOpaque++
	name := fmt.Sprintf("e%d_%s", c.nOpaque, sanitize(lastName(key)))
	c.opaque = append(c.opaque, fmt.Sprintf("(%s : %s)", name, lt))
	c.opaqueVals[key] = name
	c.opaqueNodes[e] = name
	return ex{code: name}
}

func (c *fctx) selector(x *ast.SelectorExpr) ex {
	// qualified identifier (pkg.Var): only errors as opaque values
	if id, ok := x.X.(*ast.Ident); ok {
		if _, isPkg := c.p.info.Uses[id].(*types.PkgName); isPkg {
			if isError(c.typeOf(x)) {
				return ex{code: fmt.Sprintf("(some %q)", c.show(x))}
			}
			fail("package-qualified value %s", c.show(x))
		}
	}
	sel := c.p.info.Selections[x]
	if sel == nil || sel.Kind() != types.FieldVal {
		fail("selector %s is not a field", c.show(x))
	}
	if bt := c.typeOf(x.X); c.t.leanType(bt) == "" {
		return c.opaqueValue(x)
	}
	if len(sel.Index()) != 1 {
		fail("embedded field path %s", c.show(x))
	}
	if c.t.leanType(sel.Obj().Type()) == "" {
		if c.t.valType(sel.Obj().Type()) == "AbsPtr" {
			return c.opaqueValue(x)
		}
		fail("field %s has untranslatable type %s", c.show(x), sel.Obj().Type())
	}
	base := c.expr(x.X)
	f := leanIdent(x.Sel.Name)
	if isPtrStruct(c.typeOf(x.X)) && !c.isRecvVal(x.X) {
		// dereference: nil pointer => panic
		c.partial = true
		v := c.tmp("p")
		if base.partial {
			return ex{code: fmt.Sprintf("((%s).bind fun o => o.bind fun %s => some %s.%s)", base.code, v, v, f), partial: true}
		}
		return ex{code: fmt.Sprintf("((%s).bind fun %s => some %s.%s)", base.code, v, v, f), partial: true}
	}
	return c.bindN([]ex{base}, func(s []string) string { return s[0] + "." + f })
}

func (c *fctx) binary(x *ast.BinaryExpr) ex {
	tx := c.typeOf(x.X)
	switch x.Op {
	case token.LAND, token.LOR:
		a, b := c.expr(x.X), c.expr(x.Y)
		if !b.partial {
			op := "&&"
			if x.Op == token.LOR {
				op = "||"
			}
			return c.bindN([]ex{a, b}, func(s []string) string { return "(" + s[0] + " " + op + " " + s[1] + ")" })
		}
		// short circuit: b is evaluated only if needed
		c.partial = true
		av := a.code
		if !a.partial {
			av = "some " + a.code
		}
		v := c.tmp("b")
		if x.Op == token.LAND {
			return ex{code: fmt.Sprintf("((%s).bind fun %s => if %s then %s else some false)", av, v, v, b.code), partial: true}
		}
		return ex{code: fmt.Sprintf("((%s).bind fun %s => if %s then some true else %s)", av, v, v, b.code), partial: true}
	case token.EQL, token.NEQ:
		// nil comparisons
		if id, ok := x.Y.(*ast.Ident); ok && id.Name == "nil" && c.p.info.Uses[id] == types.Universe.Lookup("nil") {
			if c.isRecvVal(x.X) {
				return ex{code: fmt.Sprint(x.Op == token.NEQ)}
			}
			if c.t.valType(tx) == "AbsPtr" {
				a := c.expr(x.X)
				if x.Op == token.NEQ {
					return a
				}
				return c.bindN([]ex{a}, func(s []string) string { return "(!" + s[0] + ")" })
			}
			a := c.expr(x.X)
			m := "isNone"
			if x.Op == token.NEQ {
				m = "isSome"
			}
			if c.t.leanType(tx) == "" || !(isError(tx) || isPtrStruct(tx) || strings.HasPrefix(c.t.leanType(tx), "(Option")) {
				fail("nil comparison of %s", c.show(x.X))
			}
			return c.bindN([]ex{a}, func(s []string) string { return "(" + s[0] + ")." + m })
		}
		a, b := c.expr(x.X), c.expr(x.Y)
		neg := x.Op == token.NEQ
		return c.bindN([]ex{a, b}, func(s []string) string {
			var r string
			if isBool(tx) {
				r = "(" + s[0] + " == " + s[1] + ")"
			} else if isInt(tx) || isString(tx) {
				r = "(decide (" + s[0] + " = " + s[1] + "))"
			} else {
				fail("equality on %s", tx)
			}
			if neg {
				return "(!" + r + ")"
			}
			return r
		})
	case token.LSS, token.LEQ, token.GTR, token.GEQ:
		if !isInt(tx) {
			fail("ordering on %s", tx)
		}
		a, b := c.expr(x.X), c.expr(x.Y)
		op := map[token.Token]string{token.LSS: "<", token.LEQ: "≤", token.GTR: ">", token.GEQ: "≥"}[x.Op]
		return c.bindN([]ex{a, b}, func(s []string) string { return "(decide (" + s[0] + " " + op + " " + s[1] + "))" })
	case token.ADD, token.SUB, token.MUL:
		if isString(tx) && x.Op == token.ADD {
			a, b := c.expr(x.X), c.expr(x.Y)
			return c.bindN([]ex{a, b}, func(s []string) string { return "(" + s[0] + " ++ " + s[1] + ")" })
		}
		if !isInt(tx) {
			fail("arithmetic on %s", tx)
		}
		a, b := c.expr(x.X), c.expr(x.Y)
		bits := unsignedBits(c.typeOf(x))
		return c.bindN([]ex{a, b}, func(s []string) string {
			r := "(" + s[0] + " " + x.Op.String() + " " + s[1] + ")"
			if bits > 0 {
				return fmt.Sprintf("(goWrapU %s %s)", pow2(bits), r)
			}
			return r
		})
	case token.QUO, token.REM:
		if !isInt(tx) {
			fail("division on %s", tx)
		}
		a, b := c.expr(x.X), c.expr(x.Y)
		fn := "Int.tdiv"
		if x.Op == token.REM {
			fn = "Int.tmod"
		}
		// constant non-zero divisor: total
		if tv, ok := c.p.info.Types[x.Y]; ok && tv.Value != nil && constant.Sign(tv.Value) != 0 {
			return c.bindN([]ex{a, b}, func(s []string) string { return "(" + fn + " " + s[0] + " " + s[1] + ")" })
		}
		c.partial = true
		r := c.bindN([]ex{a, b}, func(s []string) string {
			return "(goDiv? " + fn + " " + s[0] + " " + s[1] + ")"
		})
		if r.partial {
			// bindN wrapped in `some (...)`: flatten
			return ex{code: "(Option.join " + r.code + ")", partial: true}
		}
		return ex{code: r.code, partial: true}
	}
	fail("binary operator %s", x.Op)
	return ex{}
}

func (c *fctx) calleeKey(call *ast.CallExpr) (key string, recvExpr ast.Expr) {
	switch f := call.Fun.(type) {
	case *ast.Ident:
		if fn, ok := c.p.info.Uses[f].(*types.Func); ok && fn.Pkg() != nil {
			return fn.Pkg().Path() + "." + fn.Name(), nil
		}
	case *ast.SelectorExpr:
		if sel := c.p.info.Selections[f]; sel != nil && sel.Kind() == types.MethodVal {
			fn := sel.Obj().(*types.Func)
			rt := sel.Recv()
			if p, ok := rt.(*types.Pointer); ok {
				rt = p.Elem()
			}
			if n, ok := types.Unalias(rt).(*types.Named); ok && fn.Pkg() != nil {
				return fn.Pkg().Path() + "." + n.Obj().Name() + "." + fn.Name(), f.X
			}
		}
		if fn, ok := c.p.info.Uses[f.Sel].(*types.Func); ok && fn.Pkg() != nil {
			return fn.Pkg().Path() + "." + fn.Name(), nil
		}
	}
	return "", nil
}

func (c *fctx) matches(list []string, call *ast.CallExpr) bool {
	s := c.show(call.Fun)
	for _, p := range list {
		if s == p || strings.HasSuffix(s, "."+p) {
			return true
		}
	}
	return false
}

func (c *fctx) call(x *ast.CallExpr) ex {
	// conversions
	if tv, ok := c.p.info.Types[x.Fun]; ok && tv.IsType() {
		if len(x.Args) != 1 {
			fail("conversion %s", c.show(x))
		}
		from, to := c.typeOf(x.Args[0]), tv.Type
		if isInt(from) && isInt(to) {
			a := c.expr(x.Args[0])
			if bits := unsignedBits(to); bits > 0 && !(unsignedBits(from) > 0 && unsignedBits(from) <= bits) {
				return c.bindN([]ex{a}, func(s []string) string { return fmt.Sprintf("(goWrapU %s %s)", pow2(bits), s[0]) })
			}
			return a
		}
		if c.t.leanType(from) != "" && c.t.leanType(from) == c.t.leanType(to) {
			return c.expr(x.Args[0])
		}
		fail("conversion %s from %s", c.show(x), from)
	}
	// builtins
	if id, ok := x.Fun.(*ast.Ident); ok {
		if _, isB := c.p.info.Uses[id].(*types.Builtin); isB {
			switch id.Name {
			case "append":
				sl, ok := c.typeOf(x.Args[0]).Underlying().(*types.Slice)
				if !ok || c.t.leanType(sl.Elem()) == "" || x.Ellipsis.IsValid() {
					fail("append %s", c.show(x))
				}
				xs := []ex{c.expr(x.Args[0])}
				for _, a := range x.Args[1:] {
					xs = append(xs, c.exprAs(a, sl.Elem()))
				}
				return c.bindN(xs, func(s []string) string { return "(" + s[0] + " ++ [" + strings.Join(s[1:], ", ") + "])" })
			case "len":
				at := c.typeOf(x.Args[0])
				if _, ok := at.Underlying().(*types.Slice); ok && c.t.leanType(at) != "" {
					a := c.expr(x.Args[0])
					return c.bindN([]ex{a}, func(s []string) string { return "(" + s[0] + ".length : Int)" })
				}
				if isString(at) {
					a := c.expr(x.Args[0])
					return c.bindN([]ex{a}, func(s []string) string { return "(" + s[0] + ".utf8ByteSize : Int)" })
				}
				return c.opaqueValue(x)
			case "min", "max":
				var xs []ex
				for _, a := range x.Args {
					xs = append(xs, c.expr(a))
				}
				return c.bindN(xs, func(s []string) string {
					r := s[0]
					for _, y := range s[1:] {
						r = "(" + id.Name + " " + r + " " + y + ")"
					}
					return r
				})
			}
			fail("builtin %s", id.Name)
		}
	}
	key, recvExpr := c.calleeKey(x)
	if recvExpr != nil && len(x.Args) == 0 && isInt(c.typeOf(recvExpr)) && isInt(c.typeOf(x)) {
		for _, n := range c.spec.Identity {
			if strings.HasSuffix(key, "."+n) {
				return c.expr(recvExpr)
			}
		}
	}
	// intrinsics
	switch {
	case key == "cmp.Or":
		var xs []ex
		for _, a := range x.Args {
			if !isError(c.typeOf(a)) && !implementsError(c.typeOf(a)) {
				fail("cmp.Or on non-error %s", c.show(a))
			}
			xs = append(xs, c.exprAs(a, types.Universe.Lookup("error").Type()))
		}
		return c.bindN(xs, func(s []string) string { return "(firstErr [" + strings.Join(s, ", ") + "])" })
	case key == "github.com/AdguardTeam/golibs/errors.Join" || key == "errors.Join":
		if len(x.Args) == 1 && x.Ellipsis.IsValid() {
			a := c.expr(x.Args[0])
			return c.bindN([]ex{a}, func(s []string) string { return "(firstErr " + s[0] + ")" })
		}
		var xs []ex
		for _, a := range x.Args {
			xs = append(xs, c.exprAs(a, types.Universe.Lookup("error").Type()))
		}
		return c.bindN(xs, func(s []string) string { return "(firstErr [" + strings.Join(s, ", ") + "])" })
	case strings.HasSuffix(key, "/internal/cmd.validateProp"):
		name := c.expr(x.Args[0])
		inner := c.thunk(x.Args[1])
		return c.bindN([]ex{name, inner}, func(s []string) string { return "(wrapErr " + s[0] + " " + s[1] + ")" })
	case strings.HasSuffix(key, "/internal/cmd.validatePositive"):
		name := c.expr(x.Args[0])
		vt := c.typeOf(x.Args[1])
		var v ex
		var test string
		if n, ok := vt.(*types.Named); ok && n.Obj().Name() == "Duration" && n.Obj().Pkg() != nil && strings.HasSuffix(n.Obj().Pkg().Path(), "timeutil") {
			v = c.expr(x.Args[1])
			test = "%s.Duration ≤ 0"
		} else if isInt(vt) && isUnsigned(vt) {
			v = c.expr(x.Args[1])
			test = "%s = 0"
		} else if isInt(vt) {
			v = c.expr(x.Args[1])
			test = "%s ≤ 0"
		} else {
			fail("validatePositive on %s", vt)
		}
		return c.bindN([]ex{name, v}, func(s []string) string {
			return "(if " + fmt.Sprintf(test, s[1]) + " then some (" + s[0] + " ++ \": not positive\") else none)"
		})
	}
	if fn, ok := map[string]string{"strings.TrimPrefix": "goTrimPrefix", "strings.TrimSuffix": "goTrimSuffix", "strings.HasPrefix": "goHasPrefix",
		"strings.HasSuffix": "goHasSuffix", "strings.SplitN": "goSplitN", "strings.Split": "goSplit", "strings.Contains": "goContains"}[key]; ok {
		var xs []ex
		for _, a := range x.Args {
			xs = append(xs, c.expr(a))
		}
		return c.bindN(xs, func(s []string) string { return "(" + fn + " " + strings.Join(s, " ") + ")" })
	}
	// translated functions
	if fo := c.t.lookup(key); fo != nil && len(fo.paramsOpaque()) == 0 && !fo.spec.Trace {
		var xs []ex
		if recvExpr != nil {
			xs = append(xs, c.expr(recvExpr))
		}
		for _, a := range x.Args {
			xs = append(xs, c.expr(a))
		}
		r := c.bindN(xs, func(s []string) string { return "(" + fo.name + " " + strings.Join(s, " ") + ")" })
		if fo.partial {
			c.partial = true
			if r.partial {
				return ex{code: "(Option.join " + r.code + ")", partial: true}
			}
			return ex{code: r.code, partial: true}
		}
		return r
	}
	// "fn": an applied function parameter, shared by the call sites of that callee
	if c.matches(c.spec.Fn, x) {
		name := "f_" + sanitize(lastName(c.show(x.Fun)))
		var xs []ex
		var sig []string
		for _, a := range x.Args {
			if lt := c.t.leanType(c.typeOf(a)); lt != "" {
				xs, sig = append(xs, c.expr(a)), append(sig, lt)
			}
		}
		decl := "(" + name + " : " + strings.Join(append(sig, c.t.valType(c.typeOf(x))), " → ") + ")"
		dup := false
		for _, o := range c.opaque {
			if dup = dup || o == decl; o != decl && strings.HasPrefix(o, "("+name+" : ") {
				fail("fn %s is applied at two different types", name)
			}
		}
		if !dup {
			c.opaque = append(c.opaque, decl)
		}
		r := c.bindN(xs, func(s []string) string { return "(" + strings.Join(append([]string{name}, s...), " ") + ")" })
		if c.trace && !c.matches(c.spec.Pure, x) {
			r.code = "«call:" + c.traceEntry(x) + "»" + r.code
		}
		return r
	}
	// errors made by any other call: opaque non-nil error value labelled by source text
	if isError(c.typeOf(x)) && !c.trace {
		if tup, ok := c.typeOf(x).(*types.Tuple); !ok || tup.Len() == 1 {
			switch c.show(x.Fun) {
			case "fmt.Errorf", "errors.New", "errors.Error", "newNotPositiveError", "newNegativeError", "newMustBeUniqueError", "newDeviceDataError":
				return ex{code: fmt.Sprintf("(some %q)", c.show(x))}
			}
		}
	}
	// opaque call
	lt := c.t.valType(c.typeOf(x))
	c.opaqueVals = nil // an external call may change what abstract objects hold
	if c.opaqueCalls == nil {
		c.opaqueCalls = map[*ast.CallExpr]string{}
	}
	name, seen := c.opaqueCalls[x]
	if !seen {
		c.nOpaque++
		name = fmt.Sprintf("o%d_%s", c.nOpaque, sanitize(lastName(c.show(x.Fun))))
		c.opaque = append(c.opaque, fmt.Sprintf("(%s : %s)", name, lt))
		c.opaqueCalls[x] = name
	}
	if c.trace && !c.matches(c.spec.Pure, x) {
		return ex{code: "«call:" + c.traceEntry(x) + "»" + name}
	}
	return ex{code: name}
}

// traceEntry renders one element of the call trace: the callee's name and the
// values of those arguments that are pure expressions of translatable type.
func (c *fctx) traceEntry(x *ast.CallExpr) string {
	var args []string
	for _, a := range x.Args {
		args = append(args, c.traceArg(a))
	}
	return fmt.Sprintf("(%q, [%s])", lastName(c.show(x.Fun)), strings.Join(args, ", "))
}

func (c *fctx) traceArg(a ast.Expr) (code string) {
	code = "\"_\""
	defer func() {
		if r := recover(); r != nil {
			if _, ok := r.(trErr); !ok {
				panic(r)
			}
		}
	}()
	if id, ok := a.(*ast.Ident); ok && id.Name == "_" {
		return code
	}
	tv, ok := c.p.info.Types[a]
	if !ok || tv.Type == nil {
		return code
	}
	lt := c.t.leanType(tv.Type)
	if lt != "Int" && lt != "Bool" && lt != "String" {
		return code
	}
	// Do not let a nested opaque call allocate parameters from here.
	savedN, savedO, savedP := c.nOpaque, len(c.opaque), c.partial
	e := c.expr(a)
	if e.partial || strings.Contains(e.code, "«call:") || c.nOpaque != savedN {
		c.nOpaque, c.opaque, c.partial = savedN, c.opaque[:savedO], savedP
		return "\"_\""
	}
	if lt == "String" {
		return e.code
	}
	return "(toString " + e.code + ")"
}

func lastName(s string) string {
	if i := strings.Index(s, "["); i > 0 && strings.HasSuffix(s, "]") && !strings.Contains(s[i:], ".") || i > 0 && strings.HasSuffix(s, "]") && strings.HasPrefix(s[i:], "[*") {
		s = s[:i] // generic instantiation f[T]
	}
	if i := strings.LastIndex(s, "."); i >= 0 {
		return s[i+1:]
	}
	return s
}

// thunk translates a `func() error` argument: a method value or a literal
// whose body is a single return.
func (c *fctx) thunk(a ast.Expr) ex {
	switch f := a.(type) {
	case *ast.FuncLit:
		if len(f.Body.List) == 1 {
			if r, ok := f.Body.List[0].(*ast.ReturnStmt); ok && len(r.Results) == 1 {
				return c.exprAs(r.Results[0], types.Universe.Lookup("error").Type())
			}
		}
		fail("function literal %s", c.show(a))
	case *ast.SelectorExpr:
		// method value x.m  ==> call x.m()
		return c.call(&ast.CallExpr{Fun: f})
	}
	fail("thunk %s", c.show(a))
	return ex{}
}

func (fo *funcOut) paramsOpaque() []string { return fo.opaque }

func (t *translator) lookup(key string) *funcOut {
	sp, ok := t.byDecl[key]
	if !ok {
		return nil
	}
	fo := t.funcs[key]
	if fo == nil || !fo.done {
		fo = t.translate(sp)
	}
	if fo.err != "" {
		fail("callee %s failed: %s", key, fo.err)
	}
	return fo
}

// ---------------------------------------------------------------------------
// Statements.

// traceSplit extracts «call:Name» markers (in order) from code.
func traceSplit(code string) (clean string, calls []string) {
	for {
		i := strings.Index(code, "«call:")
		if i < 0 {
			return code, calls
		}
		j := strings.Index(code[i:], "»")
		calls = append(calls, code[i+len("«call:"):i+j])
		code = code[:i] + code[i+j+len("»"):]
	}
}

// withEx emits code that evaluates e (recording trace and propagating panics)
// and continues with k(pureCode).
func (c *fctx) withEx(e ex, k func(code string) string) string {
	code, calls := traceSplit(e.code)
	pre := ""
	if len(calls) > 0 {
		pre = "let tr := tr ++ [" + strings.Join(calls, ", ") + "]\n"
	}
	if e.partial {
		v := c.tmp("x")
		return pre + fmt.Sprintf("match %s with\n| none => none\n| some %s =>\n%s", code, v, indent(k(v)))
	}
	return pre + k(code)
}

func indent(s string) string {
	lines := strings.Split(s, "\n")
	for i := range lines {
		lines[i] = "  " + lines[i]
	}
	return strings.Join(lines, "\n")
}

func (c *fctx) ret(vals []string) string {
	var parts []string
	if c.recvMut {
		parts = append(parts, leanIdent(c.recv))
	}
	parts = append(parts, vals...)
	if c.trace {
		parts = append(parts, "tr")
	}
	var r string
	switch len(parts) {
	case 0:
		r = "()"
	case 1:
		r = parts[0]
	default:
		r = "(" + strings.Join(parts, ", ") + ")"
	}
	if c.loop != nil {
		return "«step»(.ret " + r + ")"
	}
	return "«ret»" + r
}

// loopCtx is the innermost enclosing range loop: its carried variables.
type loopCtx struct {
	state []string
}

func (c *fctx) stateTuple(vars []string) string {
	switch len(vars) {
	case 0:
		return "()"
	case 1:
		return vars[0]
	}
	return "(" + strings.Join(vars, ", ") + ")"
}

// rangeLoop translates `for i, x := range xs { body }` over a translatable
// slice: the variables declared outside the loop and assigned inside it (plus
// the call trace) are the loop state; the body maps a state and an element to
// `Step.next state'` (also for continue), `Step.brk state'` or `Step.ret r`
// (a return of the enclosing function).
func (c *fctx) rangeLoop(x *ast.RangeStmt, rest []ast.Stmt) string {
	if x.Tok != token.DEFINE && (x.Key != nil || x.Value != nil) {
		fail("range with assignment to existing variables")
	}
	sl, ok := c.typeOf(x.X).Underlying().(*types.Slice)
	if !ok || c.t.leanType(c.typeOf(x.X)) == "" {
		fail("range over %s", c.typeOf(x.X))
	}
	elT := c.t.leanType(sl.Elem())
	// carried variables
	var vars, varTypes []string
	seen := map[string]bool{}
	add := func(id *ast.Ident) {
		obj := c.p.info.Uses[id]
		if obj == nil || seen[id.Name] {
			return
		}
		if obj.Pos() >= x.Pos() && obj.Pos() <= x.End() {
			return // declared inside the loop
		}
		lt := c.t.leanType(obj.Type())
		if pt, isPtr := obj.Type().(*types.Pointer); isPtr && c.recvVal && id.Name == c.recv {
			lt = c.t.leanType(pt.Elem())
		}
		if lt == "" {
			fail("loop assigns %s of untranslatable type", id.Name)
		}
		seen[id.Name] = true
		vars = append(vars, leanIdent(id.Name))
		varTypes = append(varTypes, lt)
	}
	ast.Inspect(x.Body, func(n ast.Node) bool {
		var targets []ast.Expr
		switch s := n.(type) {
		case *ast.AssignStmt:
			if s.Tok != token.DEFINE {
				targets = s.Lhs
			} else {
				// := may also assign existing variables
				for _, l := range s.Lhs {
					if id, ok := l.(*ast.Ident); ok && c.p.info.Defs[id] == nil {
						targets = append(targets, l)
					}
				}
			}
		case *ast.IncDecStmt:
			targets = []ast.Expr{s.X}
		case *ast.FuncLit:
			return false
		}
		for _, l := range targets {
			switch t := l.(type) {
			case *ast.Ident:
				if t.Name != "_" {
					add(t)
				}
			case *ast.SelectorExpr:
				if id, ok := t.X.(*ast.Ident); ok {
					add(id)
				}
			}
		}
		return true
	})
	if c.trace {
		vars = append(vars, "tr")
		varTypes = append(varTypes, "(List (String × List String))")
	}
	sigma := "Unit"
	if len(varTypes) == 1 {
		sigma = varTypes[0]
	} else if len(varTypes) > 1 {
		sigma = "(" + strings.Join(varTypes, " × ") + ")"
	}
	key, val := "_", "_"
	if id, ok := x.Key.(*ast.Ident); ok && x.Key != nil {
		key = leanIdent(id.Name)
	}
	if id, ok := x.Value.(*ast.Ident); ok && x.Value != nil {
		val = leanIdent(id.Name)
	}
	coll := c.expr(x.X)
	return c.withEx(coll, func(collCode string) string {
		savedLoop, savedPartial := c.loop, c.partial
		c.loop, c.partial = &loopCtx{state: vars}, false
		body := c.stmts(x.Body.List)
		bodyPartial := c.partial
		c.loop, c.partial = savedLoop, savedPartial || bodyPartial
		rho := "«rho»"
		fn, wrap := "goRange", ""
		if bodyPartial {
			fn, wrap = "goRange?", "some "
		}
		body = strings.ReplaceAll(body, "«step»", wrap)
		destr := ""
		if len(vars) > 1 {
			destr = "let " + c.stateTuple(vars) + " := st\n"
		} else if len(vars) == 1 {
			destr = "let " + vars[0] + " := st\n"
		}
		loop := fmt.Sprintf("%s (σ := %s) (ρ := %s) %s %s fun st (%s : Int) (%s : %s) =>\n%s", fn, sigma, rho, collCode, c.stateTuple(vars), key, val, elT, indent(destr+body))
		after := c.stmts(rest)
		if bodyPartial {
			return fmt.Sprintf("match %s with\n| none => none\n| some (.inr r) => «ret»r\n| some (.inl st) =>\n%s", loop, indent(destr+after))
		}
		return fmt.Sprintf("match %s with\n| .inr r => «ret»r\n| .inl st =>\n%s", loop, indent(destr+after))
	})
}

func (c *fctx) stmts(list []ast.Stmt) string {
	if len(list) == 0 && c.loop != nil {
		return "«step»(.next " + c.stateTuple(c.loop.state) + ")"
	}
	if len(list) == 0 {
		// fell off the end
		if len(c.results) == 0 || c.named {
			var vals []string
			for _, r := range c.results {
				vals = append(vals, leanIdent(r.Name()))
			}
			return c.ret(vals)
		}
		fail("missing return")
	}
	s, rest := list[0], list[1:]
	switch x := s.(type) {
	case *ast.ReturnStmt:
		if len(x.Results) == 0 {
			var vals []string
			for _, r := range c.results {
				vals = append(vals, leanIdent(r.Name()))
			}
			return c.ret(vals)
		}
		if len(x.Results) == 1 && len(c.results) > 1 {
			// return f() with a tuple
			e := c.expr(x.Results[0])
			return c.withEx(e, func(code string) string {
				var vals []string
				for i := range c.results {
					vals = append(vals, proj(code, i, len(c.results)))
				}
				return c.ret(vals)
			})
		}
		var xs []ex
		for i, r := range x.Results {
			xs = append(xs, c.exprAs(r, c.results[i].Type()))
		}
		return c.withExs(xs, func(codes []string) string { return c.ret(codes) })
	case *ast.IfStmt:
		var pre []ast.Stmt
		if x.Init != nil {
			pre = append(pre, x.Init)
			// re-dispatch with init hoisted (scoping is approximated: Go
			// forbids nothing we rely on; shadowing is handled by let).
			return c.stmts(append(append(pre, &ast.IfStmt{Cond: x.Cond, Body: x.Body, Else: x.Else}), rest...))
		}
		cond := c.expr(x.Cond)
		var els []ast.Stmt
		switch e := x.Else.(type) {
		case nil:
		case *ast.BlockStmt:
			els = e.List
		case *ast.IfStmt:
			els = []ast.Stmt{e}
		}
		return c.withEx(cond, func(code string) string {
			th := c.stmts(append(append([]ast.Stmt{}, x.Body.List...), rest...))
			el := c.stmts(append(append([]ast.Stmt{}, els...), rest...))
			return fmt.Sprintf("if %s then\n%s\nelse\n%s", code, indent(th), indent(el))
		})
	case *ast.SwitchStmt:
		return c.stmts(append(c.desugarSwitch(x), rest...))
	case *ast.RangeStmt:
		return c.rangeLoop(x, rest)
	case *ast.BranchStmt:
		if c.loop != nil && x.Label == nil {
			switch x.Tok {
			case token.CONTINUE:
				return "«step»(.next " + c.stateTuple(c.loop.state) + ")"
			case token.BREAK:
				return "«step»(.brk " + c.stateTuple(c.loop.state) + ")"
			}
		}
		fail("branch statement %s", x.Tok)
	case *ast.BlockStmt:
		return c.stmts(append(append([]ast.Stmt{}, x.List...), rest...))
	case *ast.EmptyStmt:
		return c.stmts(rest)
	case *ast.DeclStmt:
		gd, ok := x.Decl.(*ast.GenDecl)
		if !ok || gd.Tok != token.VAR {
			fail("declaration %s", c.show(x))
		}
		out := ""
		for _, sp := range gd.Specs {
			vs := sp.(*ast.ValueSpec)
			if len(vs.Values) > 0 {
				fail("var with values %s", c.show(x))
			}
			for _, n := range vs.Names {
				z := c.zero(c.p.info.Defs[n].Type())
				out += fmt.Sprintf("let %s : %s := %s\n", leanIdent(n.Name), c.t.valType(c.p.info.Defs[n].Type()), z)
			}
		}
		return out + c.stmts(rest)
	case *ast.IncDecStmt:
		op := token.ADD
		if x.Tok == token.DEC {
			op = token.SUB
		}
		bits := unsignedBits(c.typeOf(x.X))
		return c.assign(x.X, c.bindN([]ex{c.expr(x.X)}, func(s []string) string {
			r := "(" + s[0] + " " + op.String() + " 1)"
			if bits > 0 {
				return fmt.Sprintf("(goWrapU %s %s)", pow2(bits), r)
			}
			return r
		}), rest, nil)
	case *ast.AssignStmt:
		return c.assignStmt(x, rest)
	case *ast.ExprStmt:
		call, ok := x.X.(*ast.CallExpr)
		if !ok {
			fail("expression statement %s", c.show(x))
		}
		if c.matches(c.spec.Ignore, call) {
			return c.stmts(rest)
		}
		if !c.trace {
			fail("call statement %s (not ignored, no trace)", c.show(x))
		}
		return "let tr := tr ++ [" + c.traceEntry(call) + "]\n" + c.stmts(rest)
	case *ast.DeferStmt:
		if c.matches(c.spec.Ignore, x.Call) {
			return c.stmts(rest)
		}
		// defer func() { err = errors.Annotate(err, …) }(): nil stays nil, non-nil stays non-nil
		if fl, ok := x.Call.Fun.(*ast.FuncLit); ok && len(x.Call.Args) == 0 && len(fl.Body.List) == 1 {
			if as, ok := fl.Body.List[0].(*ast.AssignStmt); ok && as.Tok == token.ASSIGN && len(as.Lhs) == 1 && len(as.Rhs) == 1 && isError(c.typeOf(as.Lhs[0])) {
				if call, ok := as.Rhs[0].(*ast.CallExpr); ok && len(call.Args) > 0 && c.show(call.Args[0]) == c.show(as.Lhs[0]) {
					if key, _ := c.calleeKey(call); key == "github.com/AdguardTeam/golibs/errors.Annotate" {
						return c.stmts(rest)
					}
				}
			}
		}
		fail("defer %s", c.show(x))
	}
	fail("statement %s (%T)", c.show(s), s)
	return ""
}

func proj(code string, i, n int) string {
	// right-nested pairs
	s := code
	for k := 0; k < i; k++ {
		s += ".2"
	}
	if i < n-1 {
		s += ".1"
	}
	return s
}

func (c *fctx) withExs(xs []ex, k func(codes []string) string) string {
	codes := make([]string, len(xs))
	var rec func(i int) string
	rec = func(i int) string {
		if i == len(xs) {
			return k(codes)
		}
		return c.withEx(xs[i], func(code string) string { codes[i] = code; return rec(i + 1) })
	}
	return rec(0)
}

func (c *fctx) zero(t types.Type) string {
	lt := c.t.leanType(t)
	switch {
	case lt == "Int":
		return "(0 : Int)"
	case lt == "Bool":
		return "false"
	case lt == "String":
		return "\"\""
	case strings.HasPrefix(lt, "(Option"):
		return "none"
	case strings.HasPrefix(lt, "(List"):
		return "[]"
	}
	switch c.t.valType(t) {
	case "AbsPtr":
		return "false"
	case "Unit":
		return "()"
	}
	fail("zero value of %s", t)
	return ""
}

func (c *fctx) desugarSwitch(x *ast.SwitchStmt) []ast.Stmt {
	var pre []ast.Stmt
	if x.Init != nil {
		pre = append(pre, x.Init)
	}
	var chain *ast.IfStmt
	var last *ast.IfStmt
	var deflt []ast.Stmt
	hasDefault := false
	for _, cl := range x.Body.List {
		cc := cl.(*ast.CaseClause)
		for _, s := range cc.Body {
			if b, ok := s.(*ast.BranchStmt); ok {
				fail("branch statement %s in switch", b.Tok)
			}
		}
		if cc.List == nil {
			deflt, hasDefault = cc.Body, true
			continue
		}
		var cond ast.Expr
		for _, e := range cc.List {
			var one ast.Expr = e
			if x.Tag != nil {
				be := &ast.BinaryExpr{X: x.Tag, Op: token.EQL, Y: e}
				c.p.info.Types[be] = types.TypeAndValue{Type: types.Typ[types.Bool]}
				one = be
			}
			if cond == nil {
				cond = one
			} else {
				be := &ast.BinaryExpr{X: cond, Op: token.LOR, Y: one}
				c.p.info.Types[be] = types.TypeAndValue{Type: types.Typ[types.Bool]}
				cond = be
			}
		}
		is := &ast.IfStmt{Cond: cond, Body: &ast.BlockStmt{List: cc.Body}}
		if chain == nil {
			chain = is
		} else {
			last.Else = is
		}
		last = is
	}
	_ = hasDefault
	if chain == nil {
		return append(pre, deflt...)
	}
	last.Else = &ast.BlockStmt{List: deflt}
	return append(pre, chain)
}

func (c *fctx) assignStmt(x *ast.AssignStmt, rest []ast.Stmt) string {
	if len(x.Lhs) == 1 && len(x.Rhs) == 1 && c.abstractTarget(x.Lhs[0]) {
		op := ""
		if x.Tok != token.ASSIGN {
			op = " " + x.Tok.String()
		}
		isBuiltin := func(call *ast.CallExpr) bool {
			id, ok := call.Fun.(*ast.Ident)
			if !ok {
				return false
			}
			_, b := c.p.info.Uses[id].(*types.Builtin)
			return b
		}
		if call, ok := x.Rhs[0].(*ast.CallExpr); ok && !isBuiltin(call) {
			// evaluate the call first (for the trace), then record the write
			e := c.expr(call)
			return c.withEx(e, func(string) string {
				return c.abstractWrite(x.Lhs[0], op, &ast.Ident{Name: "_"}, func() string { return c.stmts(rest) })
			})
		}
		return c.abstractWrite(x.Lhs[0], op, x.Rhs[0], func() string { return c.stmts(rest) })
	}
	if x.Tok != token.ASSIGN && x.Tok != token.DEFINE {
		// op=
		if len(x.Lhs) != 1 {
			fail("assignment %s", c.show(x))
		}
		op := map[token.Token]token.Token{token.ADD_ASSIGN: token.ADD, token.SUB_ASSIGN: token.SUB, token.MUL_ASSIGN: token.MUL,
			token.QUO_ASSIGN: token.QUO, token.REM_ASSIGN: token.REM}[x.Tok]
		if op == 0 {
			fail("assignment operator %s", x.Tok)
		}
		be := &ast.BinaryExpr{X: x.Lhs[0], Op: op, Y: x.Rhs[0]}
		c.p.info.Types[be] = types.TypeAndValue{Type: c.typeOf(x.Lhs[0])}
		return c.assign(x.Lhs[0], c.expr(be), rest, nil)
	}
	if len(x.Lhs) == len(x.Rhs) {
		if len(x.Lhs) == 1 {
			return c.assign(x.Lhs[0], c.exprAs(x.Rhs[0], c.lhsType(x.Lhs[0])), rest, nil)
		}
		// parallel assignment: evaluate all, then assign
		var xs []ex
		for i, r := range x.Rhs {
			xs = append(xs, c.exprAs(r, c.lhsType(x.Lhs[i])))
		}
		return c.withExs(xs, func(codes []string) string {
			out := ""
			var tmps []string
			for _, code := range codes {
				tv := c.tmp("a")
				tmps = append(tmps, tv)
				out += fmt.Sprintf("let %s := %s\n", tv, code)
			}
			var chain func(i int) string
			chain = func(i int) string {
				if i == len(x.Lhs) {
					return c.stmts(rest)
				}
				return c.assignCode(x.Lhs[i], tmps[i], func() string { return chain(i + 1) })
			}
			return out + chain(0)
		})
	}
	if len(x.Rhs) == 1 {
		// a, b := f()
		e := c.expr(x.Rhs[0])
		return c.withEx(e, func(code string) string {
			tv := c.tmp("t")
			out := fmt.Sprintf("let %s := %s\n", tv, code)
			var chain func(i int) string
			chain = func(i int) string {
				if i == len(x.Lhs) {
					return c.stmts(rest)
				}
				return c.assignCode(x.Lhs[i], proj(tv, i, len(x.Lhs)), func() string { return chain(i + 1) })
			}
			return out + chain(0)
		})
	}
	fail("assignment %s", c.show(x))
	return ""
}

func (c *fctx) lhsType(l ast.Expr) types.Type {
	if id, ok := l.(*ast.Ident); ok {
		if id.Name == "_" {
			return nil
		}
		if o := c.p.info.Defs[id]; o != nil {
			return o.Type()
		}
		if o := c.p.info.Uses[id]; o != nil {
			return o.Type()
		}
		return nil
	}
	if tv, ok := c.p.info.Types[l]; ok {
		return tv.Type
	}
	return nil
}

func (c *fctx) assign(lhs ast.Expr, e ex, rest []ast.Stmt, _ ast.Expr) string {
	return c.withEx(e, func(code string) string {
		return c.assignCode(lhs, code, func() string { return c.stmts(rest) })
	})
}

// assignCode emits `lhs := code` followed by k().
// abstractTarget reports whether lhs is a field (path) of an abstract object.
func (c *fctx) abstractTarget(lhs ast.Expr) bool {
	se, ok := lhs.(*ast.SelectorExpr)
	if !ok {
		return false
	}
	if id, ok := se.X.(*ast.Ident); ok {
		if _, isPkg := c.p.info.Uses[id].(*types.PkgName); isPkg {
			return false
		}
	}
	return c.t.isAbstract(c.typeOf(se.X)) || c.abstractTarget(se.X)
}

// abstractWrite records an assignment to a field of an abstract object in the trace.
func (c *fctx) abstractWrite(lhs ast.Expr, op string, rhs ast.Expr, k func() string) string {
	if !c.trace {
		fail("assignment to %s, a field of an abstract object (needs trace)", c.show(lhs))
	}
	val := c.traceArg(rhs)
	if val == "\"_\"" {
		val = fmt.Sprintf("%q", c.show(rhs))
	}
	c.opaqueVals = nil
	return fmt.Sprintf("let tr := tr ++ [(%q, [%s])]\n", "set "+c.show(lhs)+op, val) + k()
}

func (c *fctx) assignCode(lhs ast.Expr, code string, k func() string) string {
	switch l := lhs.(type) {
	case *ast.Ident:
		if l.Name == "_" {
			return k()
		}
		return fmt.Sprintf("let %s := %s\n", leanIdent(l.Name), code) + k()
	case *ast.SelectorExpr:
		base, ok := l.X.(*ast.Ident)
		if !ok {
			fail("nested field assignment %s", c.show(lhs))
		}
		f := leanIdent(l.Sel.Name)
		if isPtrStruct(c.typeOf(l.X)) && !c.isRecvVal(l.X) {
			c.partial = true
			b := leanIdent(base.Name)
			v := c.tmp("p")
			return fmt.Sprintf("match %s with\n| none => none\n| some %s =>\n  let %s := some { %s with %s := %s }\n%s", b, v, b, v, f, code, indent(k()))
		}
		b := leanIdent(base.Name)
		return fmt.Sprintf("let %s := { %s with %s := %s }\n", b, b, f, code) + k()
	}
	fail("assignment target %s", c.show(lhs))
	return ""
}

// ---------------------------------------------------------------------------

func (t *translator) findDecl(p *loadedPkg, name string) *ast.FuncDecl {
	for _, f := range p.files {
		for _, d := range f.Decls {
			fd, ok := d.(*ast.FuncDecl)
			if !ok || fd.Body == nil {
				continue
			}
			n := fd.Name.Name
			if fd.Recv != nil && len(fd.Recv.List) == 1 {
				rt := fd.Recv.List[0].Type
				if s, ok := rt.(*ast.StarExpr); ok {
					rt = s.X
				}
				if ix, ok := rt.(*ast.IndexExpr); ok {
					rt = ix.X
				}
				if id, ok := rt.(*ast.Ident); ok {
					n = id.Name + "." + n
				}
			}
			if n == name {
				return fd
			}
		}
	}
	return nil
}

func (t *translator) translate(sp TrFunc) (fo *funcOut) {
	path := repoModule + sp.Pkg
	key := path + "." + sp.Func
	if fo = t.funcs[key]; fo != nil {
		if fo.busy {
			fo.err = "recursive call"
		}
		return fo
	}
	fo = &funcOut{spec: sp, name: sp.Name, busy: true}
	t.funcs[key] = fo
	defer func() {
		fo.busy, fo.done = false, true
		if r := recover(); r != nil {
			te, ok := r.(trErr)
			if !ok {
				panic(r)
			}
			fo.err = te.msg
		}
		t.out = append(t.out, fo)
	}()
	p, err := t.l.load(path)
	if err != nil {
		fail("load %s: %v", path, err)
	}
	fd := t.findDecl(p, sp.Func)
	if fd == nil {
		fail("function %s not found in %s", sp.Func, sp.Pkg)
	}
	c := &fctx{t: t, p: p, spec: sp, fd: fd, trace: sp.Trace}
	fo.doc = fmt.Sprintf("%s: %s", p.fset.Position(fd.Pos()).Filename[strings.Index(p.fset.Position(fd.Pos()).Filename, "/internal/")+1:], sp.Func)
	obj := p.info.Defs[fd.Name].(*types.Func)
	sig := obj.Type().(*types.Signature)
	var params []string
	if sig.Recv() != nil {
		c.recv = sig.Recv().Name()
		rty := sig.Recv().Type()
		if pt, ok := rty.(*types.Pointer); ok && sp.RecvNonNil {
			rty = pt.Elem()
			c.recvVal = true
		}
		lt := t.leanType(rty)
		if lt == "" {
			fail("receiver type %s", sig.Recv().Type())
		}
		params = append(params, fmt.Sprintf("(%s : %s)", leanIdent(c.recv), lt))
		// is a field of the receiver assigned anywhere?
		ast.Inspect(fd.Body, func(n ast.Node) bool {
			var targets []ast.Expr
			switch s := n.(type) {
			case *ast.AssignStmt:
				targets = s.Lhs
			case *ast.IncDecStmt:
				targets = []ast.Expr{s.X}
			}
			for _, l := range targets {
				if se, ok := l.(*ast.SelectorExpr); ok {
					if id, ok := se.X.(*ast.Ident); ok && id.Name == c.recv {
						c.recvMut = true
					}
				}
			}
			return true
		})
	}
	nilCompared := map[string]bool{}
	ast.Inspect(fd.Body, func(n ast.Node) bool {
		if be, ok := n.(*ast.BinaryExpr); ok && (be.Op == token.EQL || be.Op == token.NEQ) {
			for _, pair := range [][2]ast.Expr{{be.X, be.Y}, {be.Y, be.X}} {
				if id, ok := pair[1].(*ast.Ident); ok && id.Name == "nil" {
					if v, ok := pair[0].(*ast.Ident); ok {
						nilCompared[v.Name] = true
					}
				}
			}
		}
		return true
	})
	for i := 0; i < sig.Params().Len(); i++ {
		v := sig.Params().At(i)
		lt := t.leanType(v.Type())
		if lt == "" {
			if nilCompared[v.Name()] && t.valType(v.Type()) == "AbsPtr" {
				params = append(params, fmt.Sprintf("(%s : AbsPtr)", leanIdent(v.Name())))
			}
			// otherwise unused or only passed to opaque calls: drop it
			continue
		}
		params = append(params, fmt.Sprintf("(%s : %s)", leanIdent(v.Name()), lt))
	}
	var resTypes []string
	if c.recvMut {
		rty := sig.Recv().Type()
		if pt, ok := rty.(*types.Pointer); ok && c.recvVal {
			rty = pt.Elem()
		}
		resTypes = append(resTypes, t.leanType(rty))
	}
	for i := 0; i < sig.Results().Len(); i++ {
		v := sig.Results().At(i)
		c.results = append(c.results, v)
		if v.Name() != "" {
			c.named = true
		}
		lt := t.leanType(v.Type())
		if lt == "" && t.valType(v.Type()) == "AbsPtr" {
			lt = "AbsPtr" // an abstract pointer / interface result: its nil-ness
		}
		if lt == "" {
			fail("result type %s", v.Type())
		}
		resTypes = append(resTypes, lt)
	}
	if c.trace {
		resTypes = append(resTypes, "(List (String × List String))")
	}
	pre := ""
	if c.named {
		for _, v := range c.results {
			pre += fmt.Sprintf("let %s : %s := %s\n", leanIdent(v.Name()), t.valType(v.Type()), c.zero(v.Type()))
		}
	}
	if c.trace {
		pre += "let tr : List (String × List String) := []\n"
	}
	body := pre + c.stmts(fd.Body.List)
	rt := "Unit"
	if len(resTypes) == 1 {
		rt = resTypes[0]
	} else if len(resTypes) > 1 {
		rt = "(" + strings.Join(resTypes, " × ") + ")"
	}
	body = strings.ReplaceAll(body, "«rho»", rt)
	fo.partial = c.partial
	if c.partial {
		rt = "(Option " + rt + ")"
		body = strings.ReplaceAll(body, "«ret»", "some ")
	} else {
		body = strings.ReplaceAll(body, "«ret»", "")
	}
	if strings.Contains(body, "«call:") {
		fail("opaque call in a position where its order of evaluation is not tracked")
	}
	fo.params = append(params, c.opaque...)
	fo.opaque = c.opaque
	fo.resType = rt
	fo.body = body
	return fo
}

func runTranslator(specDir, outDir, harness, modfile string) error {
	files, err := filepath.Glob(filepath.Join(specDir, "C*.json"))
	if err != nil {
		return err
	}
	sort.Strings(files)
	specs := map[string]trSpecFile{}
	pkgset := map[string]bool{}
	for _, fn := range files {
		b, rerr := os.ReadFile(fn)
		if rerr != nil {
			return rerr
		}
		var sf trSpecFile
		if err := json.Unmarshal(b, &sf); err != nil {
			return fmt.Errorf("%s: %v", fn, err)
		}
		specs[strings.TrimSuffix(filepath.Base(fn), ".json")] = sf
		for _, f := range sf.Funcs {
			pkgset[repoModule+f.Pkg] = true
		}
	}
	if len(specs) == 0 {
		return nil
	}
	l := newTrLoader(harness, modfile)
	var paths []string
	for p := range pkgset {
		paths = append(paths, p)
	}
	sort.Strings(paths)
	listErr := l.list(paths)
	var props []string
	for p := range specs {
		props = append(props, p)
	}
	sort.Strings(props)
	for _, prop := range props {
		sf := specs[prop]
		t := &translator{l: l, structs: map[string]*structDef{}, funcs: map[string]*funcOut{}, byDecl: map[string]TrFunc{}}
		for _, f := range sf.Funcs {
			t.byDecl[repoModule+f.Pkg+"."+f.Func] = f
		}
		if listErr == nil {
			for _, f := range sf.Funcs {
				t.translate(f)
			}
		}
		var buf bytes.Buffer
		fmt.Fprintf(&buf, "import Agd.TrPrelude\n/- GENERATED by /verif/extract (tr.go) from the repository's current source. Do not edit. -/\nset_option linter.unusedVariables false\nnamespace Agd.Gen.Tr%s\nopen Agd.TrPrelude\n\n", prop)
		for _, n := range t.order {
			d := t.structs[n]
			fmt.Fprintf(&buf, "structure %s where\n", d.name)
			if len(d.fields) == 0 {
				fmt.Fprintf(&buf, "  mk ::\n")
			}
			for _, f := range d.fields {
				fmt.Fprintf(&buf, "  %s\n", f)
			}
			fmt.Fprintf(&buf, "deriving Repr, DecidableEq\n\n")
		}
		var failed []string
		if listErr != nil {
			failed = append(failed, "go list failed: "+listErr.Error())
		}
		for _, fo := range t.out {
			if fo.err != "" {
				failed = append(failed, fo.spec.Func+": "+fo.err)
				fmt.Fprintf(&buf, "/- %s: TRANSLATION FAILED: %s -/\n\n", fo.doc, strings.ReplaceAll(fo.err, "-/", "- /"))
				continue
			}
			fmt.Fprintf(&buf, "/-- %s -/\ndef %s %s : %s :=\n%s\n\n", fo.doc, fo.name, strings.Join(fo.params, " "), fo.resType, indent(fo.body))
		}
		fmt.Fprintf(&buf, "/-- Functions of the translation list that could not be translated (must be empty). -/\ndef translationFailures : List String := [%s]\n\nend Agd.Gen.Tr%s\n",
			quoteList(failed), prop)
		if err := os.WriteFile(filepath.Join(outDir, "Tr"+prop+".lean"), buf.Bytes(), 0o644); err != nil {
			return err
		}
	}
	return nil
}

func quoteList(xs []string) string {
	var q []string
	for _, x := range xs {
		q = append(q, fmt.Sprintf("%q", x))
	}
	return strings.Join(q, ", ")
}
