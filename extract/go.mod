module agdextract

go 1.23
