#!/usr/bin/env python3
"""Writes known_findings.json as the union of its own C09 entries and known_findings.d/*.json (the per-property sources)."""
import json, glob
main = json.load(open("/verif/known_findings.json"))
own = [e for e in main["findings"] if e.get("_source", "known_findings.json") == "known_findings.json"]
for e in own: e["_source"] = "known_findings.json"
out = list(own)
for p in sorted(glob.glob("/verif/known_findings.d/*.json")):
    for e in json.load(open(p))["findings"]:
        e = dict(e); e["_source"] = p.replace("/verif/", "")
        out.append(e)
main["findings"] = out
main["_comment"] = ("Committed list of genuine defects found on the pinned tree: status 'known' = recorded, reproduced by the check under exactly this signature "
                    "(printed as KNOWN-FINDING, exit 0); status 'fixed' = repaired by the named fix: commit in /repo (suppresses nothing; the oracle signature stays armed). "
                    "Never written at run time. Per-property source files live in known_findings.d/ and are merged here by tools/consolidate_findings.py.")
json.dump(main, open("/verif/known_findings.json", "w"), indent=1)
print(len(out), "entries;", sum(1 for e in out if e["status"] == "known"), "known")
