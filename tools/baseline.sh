#!/bin/sh
# baseline.sh [repo] : runs the repository's baseline test suite (guard off) and prints pass/fail counts.
R="${1:-/repo}"
out=/tmp/baseline.$$.json
: > $out
for m in . ./internal/dnsserver; do
  (cd "$R/$m" && go test -json -vet=off -count=1 -timeout 25m ./... >> $out 2>/dev/null)
done
python3 - $out <<'PY'
import json,sys
p=f=0; failed=[]
for l in open(sys.argv[1]):
    try: e=json.loads(l)
    except Exception: continue
    if e.get('Test') and e.get('Action') in ('pass','fail'):
        if e['Action']=='pass': p+=1
        else: f+=1; failed.append(e['Package']+'.'+e['Test'])
print('passed',p,'failed',f); print('\n'.join(failed[:20]))
PY
rm -f $out
(cd "$R" && git checkout go.work.sum 2>/dev/null; true)
