#!/bin/sh
# merge_ws.sh <Cxx> : shows what the builder workspace /work/<Cxx> changed, copies the per-property
# files into /verif and lists the repo commits to cherry-pick.  Does not commit.
set -e
id="$1"; low=$(echo "$id" | tr 'A-Z' 'a-z')
w=/work/$id/verif
base=$(git -C "$w" merge-base HEAD origin/HEAD 2>/dev/null || git -C "$w" rev-list --max-parents=0 HEAD | tail -1)
echo "== files changed in $w since $base (committed + uncommitted):"
( git -C "$w" diff --name-only "$base" ; git -C "$w" ls-files --others --exclude-standard ) | sort -u | tee /tmp/merge_$id.files
echo "== copying"
while read -r f; do
  case "$f" in
    evidence/$id.json|props/$id.json|extract/facts/$id.json|known_findings.d/$id.json|harness/cmd/$low/*|lean/Agd/Model/*|lean/Agd/Lemmas/*|lean/Agd/Props/$id.lean|lean/Agd/Tie/$id.lean|lean/Agd/Tie/Tr$id.lean|extract/translate/$id.json|lean/Agd/Driver/$id.lean|corpus/$id/*)
      if [ -f "$w/$f" ]; then mkdir -p "/verif/$(dirname "$f")"; cp "$w/$f" "/verif/$f"; echo "  copied $f"; fi ;;
    *) echo "  SKIPPED (out of scope): $f" ;;
  esac
done < /tmp/merge_$id.files
echo "== repo commits in /work/$id/repo beyond /repo HEAD:"
git -C /work/$id/repo log --oneline --reverse $(git -C /repo rev-list --max-parents=0 HEAD | tail -1)..HEAD
git -C /work/$id/repo status --short | head
