#!/bin/sh
# try_mutant.sh <Cxx> <suffix> <name>: verify demo both ways, store in seeded/, run ./check against the mutant worktree.
id="$1"; suf="$2"; name="$3"
d=/tmp/mut/$id$suf
cd "$d" || exit 1
demo=$(git status --porcelain | grep '^??' | awk '{print $2}' | grep '_test.go$' | head -1)
if [ -n "$demo" ]; then
  pkgdir=$(dirname "$demo")
  case "$pkgdir" in internal/dnsserver*) root="$d/internal/dnsserver"; rel="./${pkgdir#internal/dnsserver}";; *) root="$d"; rel="./$pkgdir";; esac
  rel=$(echo "$rel" | sed 's#^\./$#.#; s#^\.//#./#')
  echo "== demo with patch (expect FAIL):"; (cd "$root" && go test -count=1 -run 'Demo|ZZ|Zz' "$rel" 2>&1 | tail -2)
  git apply -R patch.diff && { echo "== demo without patch (expect ok):"; (cd "$root" && go test -count=1 -run 'Demo|ZZ|Zz' "$rel" 2>&1 | tail -2); git apply patch.diff; }
else
  echo "no demo test file found; see meta.json: $(jq -r .demo meta.json)"
fi
git checkout go.work.sum 2>/dev/null
/verif/tools/verify_mutant.sh "$id" "$suf" "$name" >/dev/null
# hide the demo test from the harness build (it is a _test file, so harmless)
echo "== ./check $id against the mutant:"
cd ${MTV:-/work/MT/verif} && git fetch -q /verif HEAD && git reset -q --hard FETCH_HEAD && VERIF_REPO=$d ./check "$id" 2>&1 | grep -v '^KNOWN-FINDING' | head -8
