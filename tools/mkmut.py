#!/usr/bin/env python3
"""mkmut.py <Cxx> <suffix> [hint] — creates worktree /tmp/mut/<Cxx><suffix> and its PROMPT.md."""
import sys, json, subprocess, os
pid, suf = sys.argv[1], sys.argv[2]
hint = sys.argv[3] if len(sys.argv) > 3 else ""
d = f"/tmp/mut/{pid}{suf}"
if not os.path.exists(d):
    subprocess.check_call(["git", "-C", "/repo", "worktree", "add", "-q", "--detach", d])
for l in open('/verif/properties.jsonl'):
    p = json.loads(l)
    if p['id'] == pid:
        text = f"{p['title']}\n{p['statement']}\n(It must hold for: {p['quantifier']['text']}.)\nRelevant files: {', '.join(p['anchors']['files'])}"
t = open('/verif/tools/mutant_prompt.md').read()
t = t.replace('__DIR__', d).replace('__ID__', pid).replace('__PROPERTY__', text)
t = t.replace('__HINT__', ("\nFocus for this attempt: " + hint) if hint else "")
os.makedirs("/tmp/mut/prompts", exist_ok=True)
open(f"/tmp/mut/prompts/{pid}{suf}.md", "w").write(t)
print(f"/tmp/mut/prompts/{pid}{suf}.md")
