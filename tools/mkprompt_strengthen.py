#!/usr/bin/env python3
"""mkprompt_strengthen.py Cxx <seed-dir-name> [extra]: writes /work/Cxx/PROMPT.md from tools/strengthen_prompt.md."""
import json, sys
pid, seed = sys.argv[1], sys.argv[2]; extra = " ".join(sys.argv[3:])
p = next(p for p in map(json.loads, open('/verif/properties.jsonl')) if p['id'] == pid)
text = f"{p['title']}\n{p['statement']}\n(It must hold for: {p['quantifier']['text']}.)\nRelevant files: {', '.join(p['anchors']['files'])}"
t = open('/verif/tools/strengthen_prompt.md').read().replace('__ID__', pid).replace('__SEED__', seed).replace('__PROPERTY__', text)
rules = "ADDITIONAL RULES: the framework also has a Go→Lean translator (extract/translate/%s.json → lean/Agd/Gen/Tr%s.lean, proofs in lean/Agd/Tie/Tr%s.lean); you may add functions/theorems there but do NOT modify extract/tr.go or lean/Agd/TrPrelude.lean; keep the first import line `import Agd.Tie.Tr%s` and the `#print axioms Agd.Tie.Tr%s.…` lines of lean/Agd/Props/%s.lean and the 'Translated source (round 3)' paragraph of your DESIGN section. Use private scratch directories under /work/%s only (never shared names under /tmp). Update props/%s.json and the '### %s' part of DESIGN.md section 5 for what you add." % ((pid,)*9)
open(f'/work/{pid}/PROMPT.md', 'w').write(t + "\n\n" + rules + ("\n\n" + extra if extra else ""))
