#!/bin/sh
# run_seeded_matrix.sh [pattern]: applies every seeded change (matching pattern) to a scratch worktree of /repo HEAD and
# runs its property's quick check from the trial workspace /work/MT/verif (synced to /verif HEAD). Prints one line each.
pat="${1:-}"
cd /work/MT/verif && git fetch -q /verif HEAD && git reset -q --hard FETCH_HEAD && ./setup.sh >/dev/null 2>&1
for d in /verif/seeded/*$pat*/; do
  name=$(basename "$d"); id=${name%%-*}
  wt=/tmp/mut/m_$name
  git -C /repo worktree add -q --detach "$wt" 2>/dev/null || { echo "$name: worktree failed"; continue; }
  if git -C "$wt" apply "$d/patch.diff" 2>/dev/null; then
    checks=$(jq -r '(.checks // []) | join(" ")' "$d/meta.json"); [ -z "$checks" ] && checks="$id"
    best="MISSED"; msg=""
    for c in $checks; do
      out=$(cd /work/MT/verif && VERIF_REPO=$wt ./check "$c" 2>&1 | grep -v '^KNOWN-FINDING')
      if echo "$out" | grep -q 'no-failing-input-found'; then r="TIE-ONLY"; elif echo "$out" | grep -q '^VIOLATION'; then r="CAUGHT"; elif echo "$out" | grep -q '^OK'; then r="MISSED"; else r="ERROR"; fi
      if [ "$r" = "CAUGHT" ]; then best="CAUGHT($c)"; msg=$(echo "$out" | grep -A1 '^VIOLATION' | sed -n 2p | cut -c1-140); break; fi
      if [ "$r" = "TIE-ONLY" ] && [ "$best" = "MISSED" ]; then best="TIE-ONLY($c)"; fi
      if [ "$r" = "ERROR" ] && [ "$best" = "MISSED" ]; then best="ERROR($c)"; fi
    done
    echo "$name: $best $msg"
  else
    echo "$name: PATCH-DOES-NOT-APPLY"
  fi
  git -C /repo worktree remove --force "$wt"
done
git -C /repo worktree prune
