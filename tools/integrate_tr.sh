#!/bin/sh
# integrate_tr.sh <Cxx>: bring a translator-tie workspace into /verif:
#  1. cherry-pick its `tr:` commits (extract/tr.go only), 2. copy the per-property files (merge_ws.sh),
#  3. pull its DESIGN section, 4. regenerate, check twice.
set -e
id="$1"; w=/work/$id/verif
cd /verif
git fetch -q "$w" HEAD
base=$(git merge-base HEAD FETCH_HEAD)
for c in $(git log --reverse --format=%h "$base"..FETCH_HEAD -- extract/tr.go); do
  subj=$(git log -1 --format=%s $c)
  files=$(git show --name-only --format= $c | sort -u | tr '\n' ' ')
  if git log --format=%s | grep -qxF "$subj"; then echo "already have: $subj"; continue; fi
  if [ "$files" != "extract/tr.go " ]; then echo "NOTE: commit $c touches more than tr.go: $files"; fi
  if git cherry-pick -x $c >/dev/null 2>&1; then echo "picked tr commit: $subj"; else echo "CONFLICT cherry-picking $c ($subj) — resolve by hand"; git cherry-pick --abort; exit 1; fi
done
tools/merge_ws.sh "$id" | grep -v '^  copied' | tail -12
python3 tools/pull_design_section.py "$id" || true
(cd extract && GOWORK=off GOFLAGS=-mod=mod go build -o ../.bin/agdextract .)
for s in 1 2; do VERIF_SEED=$s ./check "$id" | grep -v '^KNOWN-FINDING' | tail -3; done
