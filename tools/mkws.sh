#!/bin/sh
# Creates an isolated builder workspace /work/<id>/{verif,repo} (clones of /verif and /repo).
set -e
id="$1"
mkdir -p /work/"$id"
git clone -q /verif /work/"$id"/verif
git clone -q /repo /work/"$id"/repo
git -C /work/"$id"/repo config user.name builder
git -C /work/"$id"/repo config user.email builder@example.invalid
git -C /work/"$id"/verif config user.name builder
git -C /work/"$id"/verif config user.email builder@example.invalid
cp -a /verif/lean/.lake /work/"$id"/verif/lean/.lake 2>/dev/null || true
mkdir -p /work/"$id"/verif/.bin
echo "workspace /work/$id ready; export VERIF_REPO=/work/$id/repo; cd /work/$id/verif && ./setup.sh"
