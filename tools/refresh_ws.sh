#!/bin/sh
# refresh_ws.sh <Cxx>: bring the builder workspace up to /verif HEAD and /repo HEAD (discarding its local state).
set -e
id="$1"
git -C /work/$id/verif fetch -q /verif HEAD && git -C /work/$id/verif reset -q --hard FETCH_HEAD && git -C /work/$id/verif clean -qfd -e .bin -e .work -e lean/.lake
git -C /work/$id/repo fetch -q /repo HEAD && git -C /work/$id/repo reset -q --hard FETCH_HEAD && git -C /work/$id/repo clean -qfd
git -C /work/$id/verif remote set-url origin /verif; git -C /work/$id/verif update-ref refs/remotes/origin/HEAD FETCH_HEAD 2>/dev/null || true
git -C /work/$id/verif update-ref refs/remotes/origin/main $(git -C /verif rev-parse HEAD)
echo "refreshed /work/$id"
