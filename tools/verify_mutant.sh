#!/bin/sh
# verify_mutant.sh <Cxx> <suffix> <name> : checks a sub-agent's mutant in its worktree /tmp/mut/<Cxx><suffix>
# (demo fails with patch, passes without), and stores it as /verif/seeded/<Cxx>-<name>/.
set -e
id="$1"; suf="$2"; name="$3"
d=/tmp/mut/$id$suf
out=/verif/seeded/$id-$name
mkdir -p "$out"
cp "$d"/patch.diff "$d"/meta.json "$out"/
cd "$d"
for f in $(git status --porcelain | grep '^??' | awk '{print $2}' | grep -v 'patch.diff\|meta.json'); do
  mkdir -p "$out/demo/$(dirname "$f")"; cp -r "$f" "$out/demo/$f"
done
echo "stored in $out:"; find "$out" -type f | sed 's/^/  /'
jq -r '.demo' meta.json
