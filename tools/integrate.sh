#!/bin/sh
# integrate.sh <Cxx> : merge workspace files, cherry-pick all repo commits of the workspace, rebuild, run 2 seeds.
set -e
id="$1"
cd /verif
tools/merge_ws.sh "$id" | grep -v '^  copied' | tail -15
commits=$(git -C /work/$id/repo log --format=%h --reverse $(git -C /repo rev-list --max-parents=0 HEAD | tail -1)..HEAD)
git -C /repo fetch -q /work/$id/repo HEAD
for c in $commits; do
  subj=$(git -C /work/$id/repo log -1 --format=%s $c)
  if git -C /repo log --format=%s | grep -qxF "$subj"; then echo "already have: $subj"; continue; fi
  git -C /repo cherry-pick $c >/dev/null 2>&1 && echo "picked: $subj" || { echo "CHERRY-PICK FAILED: $c $subj"; git -C /repo cherry-pick --abort; exit 1; }
done
(cd /repo && go build ./... && (cd internal/dnsserver && go build ./...) && git checkout go.work.sum 2>/dev/null; true)
low=$(echo "$id" | tr 'A-Z' 'a-z')
for s in 1 2; do VERIF_SEED=$s ./check "$id" | tail -3; done
