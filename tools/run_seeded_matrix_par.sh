#!/bin/sh
# run_seeded_matrix_par.sh [N] : like run_seeded_matrix.sh, but with N (default 4) trial workspaces
# /work/MT1../work/MTN (clones of /verif HEAD, each with its own build output) working in parallel; the
# properties are dealt out round-robin so that one property's seeded changes run in one workspace.
# Prints one line per seeded change to /tmp/matrix_par.<k>.log; the caller collects them.
N="${1:-4}"
k=1
while [ "$k" -le "$N" ]; do
  (
    w=/work/MT$k
    if [ ! -d "$w/verif" ]; then mkdir -p "$w"; git clone -q /verif "$w/verif"; cp -a /verif/lean/.lake "$w/verif/lean/.lake" 2>/dev/null; fi
    cd "$w/verif" && git fetch -q /verif HEAD && git reset -q --hard FETCH_HEAD && ./setup.sh >/dev/null 2>&1
    : > /tmp/matrix_par.$k.log
    i=0
    for p in 01 02 03 04 05 06 07 08 09 10 11 12 13 14 15 16 17 18 19 20; do
      i=$((i+1)); [ $(( (i-1) % N + 1 )) -eq "$k" ] || continue
      for d in /verif/seeded/C$p-*/; do
        [ -d "$d" ] || continue
        name=$(basename "$d"); id=${name%%-*}
        wt=/tmp/mut/p${k}_$name
        git -C /repo worktree add -q --detach "$wt" 2>/dev/null || { echo "$name: worktree failed" >> /tmp/matrix_par.$k.log; continue; }
        if git -C "$wt" apply "$d/patch.diff" 2>/dev/null; then
          checks=$(jq -r '(.checks // []) | join(" ")' "$d/meta.json"); [ -z "$checks" ] && checks="$id"
          best="MISSED"; msg=""
          for c in $checks; do
            out=$(VERIF_REPO=$wt ./check "$c" 2>&1 | grep -v '^KNOWN-FINDING')
            if echo "$out" | grep -q 'no-failing-input-found'; then r="TIE-ONLY"; elif echo "$out" | grep -q '^VIOLATION'; then r="CAUGHT"; elif echo "$out" | grep -q '^OK'; then r="MISSED"; else r="ERROR"; fi
            if [ "$r" = "CAUGHT" ]; then best="CAUGHT($c)"; msg=$(echo "$out" | grep -A1 '^VIOLATION' | sed -n 2p | cut -c1-140); break; fi
            if [ "$r" = "TIE-ONLY" ] && [ "$best" = "MISSED" ]; then best="TIE-ONLY($c)"; fi
            if [ "$r" = "ERROR" ] && [ "$best" = "MISSED" ]; then best="ERROR($c)"; fi
          done
          echo "$name: $best $msg" >> /tmp/matrix_par.$k.log
        else
          echo "$name: PATCH-DOES-NOT-APPLY" >> /tmp/matrix_par.$k.log
        fi
        git -C /repo worktree remove --force "$wt"
      done
    done
    echo "DONE" >> /tmp/matrix_par.$k.log
  ) &
  k=$((k+1))
done
wait
git -C /repo worktree prune
