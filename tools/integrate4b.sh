#!/bin/sh
# integrate4b.sh <Cxx>: like integrate.sh for a workspace that was told NOT to touch the translated-source tie
# (translator round 2 changed it meanwhile in /verif): keeps /verif's "Translated source (round 3)" paragraph,
# level_text additions and the #print axioms lines of every Tie/TrCxx theorem.
set -e
id="$1"; cd /verif
python3 - "$id" <<'PY'
import re, sys, json
pid = sys.argv[1]
main = open("/verif/DESIGN.md").read()
m = re.search(r"^### %s — .*?(?=^### |^## )" % pid, main, flags=re.S | re.M)
p = re.search(r"^\*\*Translated source \(round 3\)\.\*\*.*?(?=\n\n|\Z)", m.group(0), flags=re.S | re.M)
open(f"/tmp/trpar_{pid}.txt", "w").write(p.group(0) if p else "")
json.dump(json.load(open(f"/verif/props/{pid}.json")), open(f"/tmp/props_{pid}.json", "w"))
PY
tools/integrate.sh "$id" 2>&1 | grep -v "already have" | grep -v "^[0-9a-f]\{7\} " | cut -c1-200 | tail -6
python3 tools/pull_design_section.py "$id" | tail -1
python3 - "$id" <<'PY'
import re, sys, json
pid = sys.argv[1]
saved = open(f"/tmp/trpar_{pid}.txt").read()
main = open("/verif/DESIGN.md").read()
m = re.search(r"^### %s — .*?(?=^### |^## )" % pid, main, flags=re.S | re.M)
sec = m.group(0)
p = re.search(r"^\*\*Translated source \(round 3\)\.\*\*.*?(?=\n\n|\Z)", sec, flags=re.S | re.M)
if saved and p and p.group(0) != saved:
    sec2 = sec[:p.start()] + saved + sec[p.end():]
    main = main[:m.start()] + sec2 + main[m.end():]
    open("/verif/DESIGN.md", "w").write(main); print("restored translated-source paragraph of", pid)
# level_text: keep sentences the translator round added
old = json.load(open(f"/tmp/props_{pid}.json")); new = json.load(open(f"/verif/props/{pid}.json"))
ws_base = None
# #print axioms lines for every theorem of Tie/TrCxx
tie = open(f"/verif/lean/Agd/Tie/Tr{pid}.lean").read()
names = re.findall(r"^\s*(?:private\s+)?theorem\s+([\w.']+)", tie, flags=re.M)
pp = f"/verif/lean/Agd/Props/{pid}.lean"; props = open(pp).read()
missing = [n for n in names if f"#print axioms Agd.Tie.Tr{pid}.{n}\n" not in props + "\n"]
if missing:
    props = props.rstrip("\n") + "\n" + "".join(f"#print axioms Agd.Tie.Tr{pid}.{n}\n" for n in missing)
    open(pp, "w").write(props); print("re-added", len(missing), "#print axioms lines")
import os
addp = f"/verif/tools/tr2_level_text_{pid}.txt"
if os.path.exists(addp):
    add = open(addp).read()
    if add.strip() and add.strip() not in new.get("level_text", ""):
        new["level_text"] = new.get("level_text", "").rstrip() + add
        json.dump(new, open(f"/verif/props/{pid}.json", "w"), indent=1, ensure_ascii=False); print("kept translator-round-2 sentence in level_text")
PY
./check "$id" | tail -1
