#!/usr/bin/env python3
"""pull_design_section.py Cxx...: replaces the '### Cxx — …' part of DESIGN.md section 5 by the workspace's version if it differs."""
import re, sys
def sect(text, pid):
    m = re.search(r"^### %s — .*?(?=^### |^## )" % pid, text, flags=re.S | re.M)
    return m
main = open("/verif/DESIGN.md").read()
for pid in sys.argv[1:]:
    try:
        ws = open(f"/work/{pid}/verif/DESIGN.md").read()
    except FileNotFoundError:
        continue
    a, b = sect(main, pid), sect(ws, pid)
    if a and b and a.group(0) != b.group(0):
        main = main[:a.start()] + b.group(0) + main[a.end():]
        print("updated section", pid, len(a.group(0)), "->", len(b.group(0)))
open("/verif/DESIGN.md", "w").write(main)
