#!/usr/bin/env python3
"""Regenerates the tables of DESIGN.md section 8 (findings; seeded changes) between the AUTOGEN markers."""
import json, glob, os, re
root = "/verif"
rows = []
for p in [root + "/known_findings.json"]:
    for e in json.load(open(p))["findings"]:
        rows.append(e)
rows.sort(key=lambda e: (e["property"], e["status"], e["signature"]))
out = ["| Prop | Status | Signature | Commit in /repo | What failed on the pinned tree |", "|---|---|---|---|---|"]
for e in rows:
    what = e["what"].replace("\n", " ").replace("|", "\\|")
    if len(what) > 330: what = what[:327] + "..."
    c = (e.get("commit") or "—").split(" ")[0]
    out.append("| %s | %s | `%s` | %s | %s |" % (e["property"], e["status"], e["signature"], c, what))
find_tbl = "\n".join(out)
srows = ["| Seeded change | Needs to manifest | Result | Caught by |", "|---|---|---|---|"]
n = miss = 0
for d in sorted(glob.glob(root + "/seeded/*/meta.json")):
    m = json.load(open(d)); name = os.path.basename(os.path.dirname(d)); n += 1
    needs = str(m.get("needs", "")).replace("\n", " ").replace("|", "\\|")
    if len(needs) > 220: needs = needs[:217] + "..."
    res = "caught" if not m.get("initially_missed") else ("missed at first; caught after strengthening" if m.get("now_caught") else "missed at first")
    if m.get("initially_missed"): miss += 1
    cb = str(m.get("caught_by", "")).replace("|", "\\|")
    srows.append("| `%s` | %s | %s | %s |" % (name, needs, res, cb))
seed_tbl = "\n".join(srows) + "\n\n%d seeded changes, %d of them missed by the checks as first built." % (n, miss)
s = open(root + "/DESIGN.md").read()
def put(tag, body):
    global s
    a, b = "<!-- AUTOGEN %s BEGIN -->" % tag, "<!-- AUTOGEN %s END -->" % tag
    s = re.sub(re.escape(a) + ".*?" + re.escape(b), lambda _: a + "\n" + body + "\n" + b, s, flags=re.S)
put("FINDINGS", find_tbl); put("SEEDED", seed_tbl)
open(root + "/DESIGN.md", "w").write(s)
print("findings", len(rows), "seeded", n, "missed-first", miss)
