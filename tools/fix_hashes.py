#!/usr/bin/env python3
"""Rewrites the 'commit' field of fixed entries in known_findings.d/*.json to '<hash in /repo> <subject>',
matching by commit subject (cherry-picking changes hashes), and updates hooks.json source_commits."""
import json, glob, subprocess, re
log = subprocess.check_output(["git", "-C", "/repo", "log", "--format=%h\t%s"], text=True).strip().splitlines()
by_subj = {l.split("\t", 1)[1]: l.split("\t", 1)[0] for l in log}
alias = {"fix: forward: unpack only the bytes read from the upstream": "fix: forward: unpack only the received bytes of an upstream reply"}
for p in glob.glob("/verif/known_findings.d/*.json"):
    d = json.load(open(p)); ch = False
    for e in d["findings"]:
        c = e.get("commit")
        if not c: continue
        subj = re.sub(r"^[0-9a-f]{7,40}\s+", "", c)
        if not subj.startswith("fix:"):
            # only a hash: look the subject up in the builder workspace
            prop = e["property"]
            try:
                subj = subprocess.check_output(["git", "-C", f"/work/{prop}/repo", "log", "-1", "--format=%s", c], text=True).strip()
            except Exception:
                continue
        subj = alias.get(subj, subj)
        if subj in by_subj:
            new = f"{by_subj[subj]} {subj}"
            if new != c: e["commit"] = new; ch = True
        else:
            print("NOT FOUND in /repo:", p, c)
    if ch: json.dump(d, open(p, "w"), indent=1); print("updated", p)
hooks = [l.split("\t")[0] for l in log if l.split("\t", 1)[1].startswith("verif: hooks")]
json.dump({"source_commits": list(reversed(hooks))}, open("/verif/hooks.json", "w"))
print("hook commits:", len(hooks))
