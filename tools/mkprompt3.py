#!/usr/bin/env python3
"""mkprompt3.py Cxx [extra text]: writes /work/Cxx/PROMPT.md for a third-round deepening builder
(tools/deepen_prompt.md + the property text + the round-3 rules)."""
import json, sys
pid = sys.argv[1]; extra = " ".join(sys.argv[2:])
prop = next(p for p in map(json.loads, open('/verif/properties.jsonl')) if p['id'] == pid)
text = f"{prop['title']}\n{prop['statement']}\n(It must hold for: {prop['quantifier']['text']}.)\nRelevant files: {', '.join(prop['anchors']['files'])}"
import os
rules = open(os.environ.get('RULES','/verif/tools/round3_rules.txt')).read().replace('__ID__', pid)
body = open('/verif/tools/deepen_prompt.md').read().replace('__ID__', pid).replace('__PROPERTY__', text)
open(f'/work/{pid}/PROMPT.md', 'w').write(body + "\n\n" + rules + ("\n\n" + extra if extra else ""))
