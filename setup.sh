#!/bin/sh
# Build the framework from files on disk only (offline).
set -e
cd "$(dirname "$0")"
export GOWORK=off GOFLAGS=-mod=mod GOPROXY=off GOSUMDB=off GOTOOLCHAIN=local
mkdir -p .bin .work evidence replays
(cd extract && go build -o ../.bin/agdextract .)
mkdir -p lean/Agd/Gen
./.bin/agdextract -repo "${VERIF_REPO:-/repo}" -out lean/Agd/Gen -spec extract/facts
(cd lean && lake build Agd agdmodel)
R="${VERIF_REPO:-/repo}"; cat "$R"/go.sum "$R"/internal/dnsserver/go.sum | sort -u > harness/go.sum
MODFLAG=""
if [ "$(realpath "$R")" != "/repo" ]; then
  sed "s#=> /repo#=> $(realpath "$R")#" harness/go.mod > harness/go.alt.mod
  cp harness/go.sum harness/go.alt.sum
  MODFLAG="-modfile=$(pwd)/harness/go.alt.mod"
fi
for d in harness/cmd/*/; do
  n=$(basename "$d")
  (cd harness && go build $MODFLAG -tags verif -o ../.bin/"$n" ./cmd/"$n")
done
echo setup-ok
