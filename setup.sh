#!/bin/sh
# Build the framework from files on disk only (offline).
set -e
cd "$(dirname "$0")"
export GOWORK=off GOFLAGS=-mod=mod GOPROXY=off GOSUMDB=off GOTOOLCHAIN=local
mkdir -p .bin .work evidence replays
(cd extract && go build -o ../.bin/agdextract .)
mkdir -p lean/Agd/Gen
R="${VERIF_REPO:-/repo}"; cat "$R"/go.sum "$R"/internal/dnsserver/go.sum | sort -u > harness/go.sum
MODFLAG=""; TRMOD=""
if [ "$(realpath "$R")" != "/repo" ]; then
  sed "s#=> /repo#=> $(realpath "$R")#" harness/go.mod > harness/go.alt.mod
  cp harness/go.sum harness/go.alt.sum
  MODFLAG="-modfile=$(pwd)/harness/go.alt.mod"
  TRMOD="-modfile $(pwd)/harness/go.alt.mod"
fi
# source facts (syntactic) and translated definitions (extract/tr.go), both regenerated from the tree
./.bin/agdextract -repo "$R" -out lean/Agd/Gen -spec extract/facts -trspec extract/translate -harness "$(pwd)/harness" $TRMOD
(cd lean && lake build Agd agdmodel)
for d in harness/cmd/*/; do
  n=$(basename "$d")
  (cd harness && go build $MODFLAG -tags verif -o ../.bin/"$n" ./cmd/"$n")
done
echo setup-ok
