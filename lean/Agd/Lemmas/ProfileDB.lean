import Agd.Model.ProfileDB
/-!
# Specification and helper lemmas for the profile database (C14)

`Latest` is the abstract view: the latest synchronised records (a full sync replaces, a partial
sync overlays).  `OwnerDev` / `OwnerKey` say who currently owns a key.  `Inv` ties the concrete
index maps to that view: record keys are right and every owner is indexed (completeness); the
read-side re-checks of the look-ups give soundness without any invariant.
-/
namespace Agd.ProfileDB

/-! ### Function tables -/

@[simp] theorem put_same {K V : Type} [DecidableEq K] (m : K → Option V) (k : K) (v : V) :
    put m k v k = some v := by simp [put]

@[simp] theorem put_other {K V : Type} [DecidableEq K] (m : K → Option V) (k x : K) (v : V)
    (h : x ≠ k) : put m k v x = m x := by simp [put, h]

@[simp] theorem del_same {K V : Type} [DecidableEq K] (m : K → Option V) (k : K) :
    del m k k = none := by simp [del]

@[simp] theorem del_other {K V : Type} [DecidableEq K] (m : K → Option V) (k x : K)
    (h : x ≠ k) : del m k x = m x := by simp [del, h]

theorem putAll_apply {K V : Type} [DecidableEq K] (m : K → Option V) (ks : List K) (v : V) (k : K) :
    putAll m ks v k = if k ∈ ks then some v else m k := by
  induction ks generalizing m with
  | nil => simp [putAll]
  | cons a r ih =>
    have h : putAll m (a :: r) v = putAll (put m a v) r v := rfl
    rw [h, ih]
    by_cases hr : k ∈ r
    · simp [hr]
    · by_cases ha : k = a
      · subst ha; simp [hr]
      · simp [hr, ha]

theorem putMany_cons {K V : Type} [DecidableEq K] (m : K → Option V) (it : List K × V)
    (r : List (List K × V)) : putMany m (it :: r) = putMany (putAll m it.1 it.2) r := rfl

theorem putMany_none {K V : Type} [DecidableEq K] (m : K → Option V) (items : List (List K × V))
    (k : K) (h : ∀ it ∈ items, k ∉ it.1) : putMany m items k = m k := by
  induction items generalizing m with
  | nil => rfl
  | cons it r ih =>
    rw [putMany_cons, ih]
    · rw [putAll_apply]; simp [h it (by simp)]
    · intro it' h'; exact h it' (List.mem_cons_of_mem _ h')

theorem putMany_some {K V : Type} [DecidableEq K] (m : K → Option V) (items : List (List K × V))
    (k : K) (h : ∃ it ∈ items, k ∈ it.1) :
    ∃ it ∈ items, k ∈ it.1 ∧ putMany m items k = some it.2 := by
  induction items generalizing m with
  | nil => simp at h
  | cons it r ih =>
    rw [putMany_cons]
    by_cases hr : ∃ it' ∈ r, k ∈ it'.1
    · obtain ⟨it', hm, hk, he⟩ := ih (putAll m it.1 it.2) hr
      exact ⟨it', List.mem_cons_of_mem _ hm, hk, he⟩
    · have hk : k ∈ it.1 := by
        obtain ⟨it', hm, hk⟩ := h
        rcases List.mem_cons.mp hm with rfl | hm'
        · exact hk
        · exact absurd ⟨it', hm', hk⟩ hr
      refine ⟨it, by simp, hk, ?_⟩
      rw [putMany_none _ _ _ (by intro it' h' hk'; exact hr ⟨it', h', hk'⟩), putAll_apply]
      simp [hk]

theorem nodup_map_inj {α β : Type} (f : α → β) : ∀ (l : List α), (l.map f).Nodup →
    ∀ x ∈ l, ∀ y ∈ l, f x = f y → x = y := by
  intro l
  induction l with
  | nil => intro _ x hx; simp at hx
  | cons a r ih =>
    intro hnd x hx y hy hxy
    rw [List.map_cons, List.nodup_cons] at hnd
    rcases List.mem_cons.mp hx with rfl | hx'
    · rcases List.mem_cons.mp hy with rfl | hy'
      · rfl
      · exact absurd (hxy ▸ List.mem_map_of_mem hy') hnd.1
    · rcases List.mem_cons.mp hy with rfl | hy'
      · exact absurd (hxy ▸ List.mem_map_of_mem hx') hnd.1
      · exact ih hnd.2 x hx' y hy' hxy

/-- A table overlaid with records stored under their own key. -/
theorem putMany_single {V : Type} (key : V → Nat) (m : Nat → Option V) (vs : List V) (k : Nat) :
    ((∀ v ∈ vs, key v ≠ k) ∧ putMany m (vs.map fun v => ([key v], v)) k = m k) ∨
    (∃ v ∈ vs, key v = k ∧ putMany m (vs.map fun v => ([key v], v)) k = some v) := by
  by_cases h : ∃ it ∈ (vs.map fun v => ([key v], v)), k ∈ it.1
  · right
    obtain ⟨it, hm, hk, he⟩ := putMany_some m _ k h
    obtain ⟨v, hv, rfl⟩ := List.mem_map.mp hm
    exact ⟨v, hv, (List.mem_singleton.mp hk).symm, he⟩
  · left
    refine ⟨?_, putMany_none m _ k ?_⟩
    · intro v hv hkv
      exact h ⟨([key v], v), List.mem_map.mpr ⟨v, hv, rfl⟩, by simp [hkv]⟩
    · intro it hm hk; exact h ⟨it, hm, hk⟩

theorem putMany_single_mem {V : Type} (key : V → Nat) (m : Nat → Option V) (vs : List V)
    (hnd : (vs.map key).Nodup) (v : V) (hv : v ∈ vs) :
    putMany m (vs.map fun v => ([key v], v)) (key v) = some v := by
  rcases putMany_single key m vs (key v) with ⟨hno, _⟩ | ⟨w, hw, hk, he⟩
  · exact absurd rfl (hno v hv)
  · rw [he, nodup_map_inj key vs hnd w hw v hv hk]

/-! ### Specification -/

/-- The latest synchronised records. -/
structure Latest where
  profs : Nat → Option Profile
  devs : Nat → Option Device

def Latest.empty : Latest := { profs := fun _ => none, devs := fun _ => none }

/-- Records of a response replace the older records with the same id. -/
def Latest.overlay (L : Latest) (ps : List Profile) (ds : List Device) : Latest :=
  { profs := putMany L.profs (profItems ps), devs := putMany L.devs (devItems ds) }

/-- A full synchronisation replaces everything, a partial one overlays. -/
def Latest.apply (L : Latest) (full : Bool) (ps : List Profile) (ds : List Device) : Latest :=
  (if full then Latest.empty else L).overlay ps ds

/-- The abstract view of the whole system: the latest synchronised records the running database
is supposed to answer from, and what the cache file holds. -/
structure Spec where
  cur : Latest
  disk : Option CacheFile

def Spec.empty : Spec := { cur := Latest.empty, disk := none }

/-- Whether a database started on cache file `f`, read as version `v`, uses it. -/
def CacheFile.usable (v : Nat) (f : CacheFile) : Prop :=
  v = fileCacheVersion ∧ f.profs ≠ [] ∧ f.devs ≠ []

instance (v : Nat) (f : CacheFile) : Decidable (f.usable v) := by
  unfold CacheFile.usable; infer_instance

/-- The latest records after a restart: those of the cache file if it is usable, else none. -/
def restartLatest (v : Nat) : Option CacheFile → Latest
  | none => Latest.empty
  | some f => if f.usable v then Latest.empty.overlay f.profs f.devs else Latest.empty

/-- A synchronisation updates the latest records (a full one also the cache file); a restart
falls back to the cache file; look-ups and clean-ups do not matter. -/
def specStep (S : Spec) : Op → Spec
  | .sync full t ps ds =>
    { cur := S.cur.apply full ps ds, disk := if full then some ⟨t, ps, ds⟩ else S.disk }
  | .syncNS _ ps ds => { cur := S.cur.apply true ps ds, disk := S.disk }
  | .restart v => { cur := restartLatest v S.disk, disk := S.disk }
  | _ => S

def spec (ops : List Op) : Spec := ops.foldl specStep Spec.empty

/-- The latest records after a history. -/
def latest (ops : List Op) : Latest := (spec ops).cur

/-- Device `id` currently exists as `d` and is contained in the current profile `p`. -/
def OwnerDev (L : Latest) (id : Nat) (p : Profile) (d : Device) : Prop :=
  L.profs p.id = some p ∧ id ∈ p.devIds ∧ L.devs id = some d

/-- The current device `d` of the current profile `p` owns key `k`. -/
def OwnerKey (L : Latest) (k : Key) (p : Profile) (d : Device) : Prop :=
  HasKey p.id d k ∧ OwnerDev L d.id p d

/-- What the backend guarantees about the latest data: a device is in at most one profile and
a key has at most one owner. -/
structure Uniq (L : Latest) : Prop where
  dev : ∀ id p p', L.profs p.id = some p → id ∈ p.devIds → L.profs p'.id = some p' →
    id ∈ p'.devIds → p = p'
  key : ∀ k p d p' d', OwnerKey L k p d → OwnerKey L k p' d' → d = d'

/-- What the backend guarantees about one response: no record twice, and devices travel with
the profile that lists them. -/
structure RespWF (ps : List Profile) (ds : List Device) : Prop where
  nodupP : (ps.map (·.id)).Nodup
  nodupD : (ds.map (·.id)).Nodup
  listed : ∀ p ∈ ps, ∀ id ∈ p.devIds, ∃ d ∈ ds, d.id = id
  owned : ∀ d ∈ ds, ∃ p ∈ ps, d.id ∈ p.devIds

/-- Well-formed histories: every response is well formed and the latest data is unambiguous
after every prefix. -/
structure HistWF (ops : List Op) : Prop where
  resp : ∀ full t ps ds, Op.sync full t ps ds ∈ ops → RespWF ps ds
  respNS : ∀ t ps ds, Op.syncNS t ps ds ∈ ops → RespWF ps ds
  uniq : ∀ pre, pre <+: ops → Uniq (latest pre)

/-! ### Invariant -/

structure Inv (s : St) (L : Latest) : Prop where
  profs : s.profiles = L.profs
  devs : s.devices = L.devs
  pkey : ∀ k p, L.profs k = some p → p.id = k
  dkey : ∀ k d, L.devs k = some d → d.id = k
  cdev : ∀ id p d, OwnerDev L id p d → s.devIdx id = some p.id
  ckey : ∀ k p d, OwnerKey L k p d → s.idx k = some d.id

theorem inv_init : Inv init Latest.empty :=
  { profs := rfl, devs := rfl
    pkey := by intro k p h; simp [Latest.empty] at h
    dkey := by intro k d h; simp [Latest.empty] at h
    cdev := by intro id p d h; simp [OwnerDev, Latest.empty] at h
    ckey := by intro k p d h; simp [OwnerKey, OwnerDev, Latest.empty] at h }

theorem inv_cleared (s : St) : Inv (cleared s) Latest.empty :=
  { profs := rfl, devs := rfl
    pkey := by intro k p h; simp [Latest.empty] at h
    dkey := by intro k d h; simp [Latest.empty] at h
    cdev := by intro id p d h; simp [OwnerDev, Latest.empty] at h
    ckey := by intro k p d h; simp [OwnerKey, OwnerDev, Latest.empty] at h }

theorem mem_keysOf_some (pid : Nat) (d : Device) (k : Key) :
    k ∈ keysOf (some pid) d ↔ HasKey pid d k := by
  cases k with
  | linked ip =>
    by_cases h0 : d.linked = 0 <;> by_cases hh : d.human = 0 <;>
      simp [keysOf, HasKey, h0, hh] <;> omega
  | ded ip =>
    by_cases h0 : d.linked = 0 <;> by_cases hh : d.human = 0 <;> simp [keysOf, HasKey, h0, hh]
  | human h p =>
    by_cases h0 : d.linked = 0 <;> by_cases hh : d.human = 0 <;>
      simp [keysOf, HasKey, h0, hh] <;> omega

theorem attached_of_owner {s : St} {L : Latest} (hI : Inv s L) {id : Nat} {p : Profile}
    {d : Device} (h : OwnerDev L id p d) : attachedDevice s id = some (p, d) := by
  obtain ⟨hp, hin, hd⟩ := h
  have h1 := hI.cdev id p d ⟨hp, hin, hd⟩
  unfold attachedDevice
  rw [h1]
  simp only []
  rw [hI.profs, hp]
  simp only []
  rw [if_pos hin, hI.devs, hd]
  rfl

theorem owner_of_attached {s : St} {L : Latest} (hI : Inv s L) {id : Nat} {p : Profile}
    {d : Device} (h : attachedDevice s id = some (p, d)) : OwnerDev L id p d := by
  unfold attachedDevice at h
  split at h
  · cases h
  · rename_i pid hidx
    split at h
    · cases h
    · rename_i p' hp'
      split at h
      · rename_i hin
        cases hd : s.devices id with
        | none => simp [hd] at h
        | some d' =>
          simp [hd] at h
          obtain ⟨rfl, rfl⟩ := h
          rw [hI.profs] at hp'
          have := hI.pkey pid p' hp'
          refine ⟨by rw [this]; exact hp', hin, by rw [← hI.devs]; exact hd⟩
      · cases h

theorem findByDev_ok (s : St) (id : Nat) (p : Profile) (d : Device) :
    (findByDev s id).1 = .ok p d ↔ attachedDevice s id = some (p, d) := by
  unfold findByDev attachedDevice
  cases s.devIdx id with
  | none => simp
  | some pid =>
    simp only []
    cases s.profiles pid with
    | none => simp
    | some p' =>
      simp only []
      by_cases hin : id ∈ p'.devIds
      · simp only [if_pos hin]
        cases s.devices id with
        | none => simp
        | some d' => simp
      · simp [if_neg hin]

/-! ### Look-ups are sound and complete under the invariant -/

theorem lookupDev_spec {s : St} {L : Latest} (hI : Inv s L) (id : Nat) (p : Profile) (d : Device) :
    (findByDev s id).1 = .ok p d ↔ OwnerDev L id p d := by
  rw [findByDev_ok]
  exact ⟨owner_of_attached hI, attached_of_owner hI⟩

theorem lookupKey_spec {s : St} {L : Latest} (hI : Inv s L) (k : Key) (p : Profile) (d : Device) :
    (lookupKey s k).1 = .ok p d ↔ OwnerKey L k p d := by
  constructor
  · intro h
    unfold lookupKey at h
    split at h
    · cases h
    · rename_i id hidx
      split at h
      · rename_i p' d' hf
        split at h
        · rename_i hk
          simp at h
          obtain ⟨rfl, rfl⟩ := h
          have ho := (lookupDev_spec hI id p' d').mp hf
          have hid : d'.id = id := hI.dkey id d' ho.2.2
          exact ⟨hk, by rw [hid]; exact ho⟩
        · cases h
      · cases h
      · cases h
  · intro h
    obtain ⟨hk, ho⟩ := h
    have hidx := hI.ckey k p d ⟨hk, ho⟩
    have hf := (lookupDev_spec hI d.id p d).mpr ho
    unfold lookupKey
    rw [hidx]
    simp only []
    rw [hf]
    simp [hk]

theorem lookupHuman_spec {s : St} {L : Latest} (hI : Inv s L) (pid h : Nat) (p : Profile)
    (d : Device) : (lookupHuman s pid h).1 = .ok p d ↔ OwnerKey L (.human h pid) p d := by
  constructor
  · intro hl
    unfold lookupHuman at hl
    split at hl
    · cases hl
    · exact (lookupKey_spec hI _ p d).mp hl
  · intro ho
    have hp : pid = p.id := ho.1.2.2
    have : s.profiles pid = some p := by rw [hI.profs, hp]; exact ho.2.1
    unfold lookupHuman
    rw [this]
    exact (lookupKey_spec hI _ p d).mpr ho

/-! ### The invariant is preserved -/

theorem inv_congr {s s' : St} {L : Latest} (hI : Inv s L) (h1 : s'.profiles = s.profiles)
    (h2 : s'.devices = s.devices) (h3 : s'.devIdx = s.devIdx) (h4 : s'.idx = s.idx) : Inv s' L :=
  { profs := by rw [h1]; exact hI.profs, devs := by rw [h2]; exact hI.devs, pkey := hI.pkey,
    dkey := hI.dkey, cdev := by rw [h3]; exact hI.cdev, ckey := by rw [h4]; exact hI.ckey }

theorem inv_pending {s : St} {L : Latest} (hI : Inv s L) (pd : List Cleanup) :
    Inv { s with pending := pd } L := inv_congr hI rfl rfl rfl rfl

theorem applyCleanup_dev (s : St) (id : Nat) : applyCleanup s (.dev id) =
    (match attachedDevice s id with
    | some _ => s
    | none => { s with devIdx := del s.devIdx id }) := rfl

theorem applyCleanup_key (s : St) (k : Key) : applyCleanup s (.key k) =
    (match s.idx k with
    | none => s
    | some id =>
      match attachedDevice s id with
      | some pd => if HasKey pd.1.id pd.2 k then s else { s with idx := del s.idx k }
      | none => { s with idx := del s.idx k }) := rfl

/-- Re-validated clean-ups never remove the entry of a current owner, whenever they run. -/
theorem inv_cleanup {s : St} {L : Latest} (hI : Inv s L) (c : Cleanup) : Inv (applyCleanup s c) L := by
  cases c with
  | dev id' =>
    rw [applyCleanup_dev]
    split
    · exact hI
    · rename_i hnone
      refine { profs := hI.profs, devs := hI.devs, pkey := hI.pkey, dkey := hI.dkey,
               cdev := ?_, ckey := hI.ckey }
      intro id p d ho
      by_cases hid : id = id'
      · subst hid
        rw [attached_of_owner hI ho] at hnone
        cases hnone
      · simp [del_other _ _ _ hid, hI.cdev id p d ho]
  | key k' =>
    rw [applyCleanup_key]
    have hdel : ∀ (hbad : ∀ p d, OwnerKey L k' p d → False),
        Inv { s with idx := del s.idx k' } L := by
      intro hbad
      refine { profs := hI.profs, devs := hI.devs, pkey := hI.pkey, dkey := hI.dkey,
               cdev := hI.cdev, ckey := ?_ }
      intro k p d ho
      by_cases hk : k = k'
      · subst hk; exact (hbad p d ho).elim
      · simp [del_other _ _ _ hk, hI.ckey k p d ho]
    split
    · exact hI
    · rename_i id hidx
      split
      · rename_i pd hatt
        split
        · exact hI
        · rename_i hno
          apply hdel
          intro p d ho
          have h1 := hI.ckey k' p d ho
          rw [hidx] at h1
          cases h1
          rw [attached_of_owner hI ho.2] at hatt
          cases hatt
          exact hno ho.1
      · rename_i hatt
        apply hdel
        intro p d ho
        have h1 := hI.ckey k' p d ho
        rw [hidx] at h1
        cases h1
        rw [attached_of_owner hI ho.2] at hatt
        cases hatt

/-- `setProfiles` + `setDevices` on a well-formed response re-establish the invariant, provided
the resulting latest data is unambiguous. -/
theorem inv_setAll {b : St} {Lb : Latest} (hI : Inv b Lb) (ps : List Profile) (ds : List Device)
    (hW : RespWF ps ds) (hU : Uniq (Lb.overlay ps ds)) :
    Inv (setAll b ps ds) (Lb.overlay ps ds) := by
  -- facts about the overlaid records
  have P1 : ∀ p ∈ ps, (Lb.overlay ps ds).profs p.id = some p := fun p hp =>
    putMany_single_mem Profile.id Lb.profs ps hW.nodupP p hp
  have D1 : ∀ d ∈ ds, (Lb.overlay ps ds).devs d.id = some d := fun d hd =>
    putMany_single_mem Device.id Lb.devs ds hW.nodupD d hd
  have P2 : ∀ k p, (Lb.overlay ps ds).profs k = some p →
      (p ∈ ps ∧ p.id = k) ∨ ((∀ q ∈ ps, q.id ≠ k) ∧ Lb.profs k = some p) := by
    intro k p h
    rcases putMany_single Profile.id Lb.profs ps k with ⟨hno, he⟩ | ⟨q, hq, hk, he⟩
    · right; exact ⟨hno, by rw [← he]; exact h⟩
    · left
      have : (Lb.overlay ps ds).profs k = some q := he
      rw [this] at h; cases h; exact ⟨hq, hk⟩
  have D2 : ∀ k d, (Lb.overlay ps ds).devs k = some d →
      (d ∈ ds ∧ d.id = k) ∨ ((∀ e ∈ ds, e.id ≠ k) ∧ Lb.devs k = some d) := by
    intro k d h
    rcases putMany_single Device.id Lb.devs ds k with ⟨hno, he⟩ | ⟨e, he', hk, he⟩
    · right; exact ⟨hno, by rw [← he]; exact h⟩
    · left
      have : (Lb.overlay ps ds).devs k = some e := he
      rw [this] at h; cases h; exact ⟨he', hk⟩
  -- completeness of deviceIDToProfileID
  have hcdev : ∀ id p d, OwnerDev (Lb.overlay ps ds) id p d →
      (setAll b ps ds).devIdx id = some p.id := by
    intro id p d ⟨hp, hin, hd⟩
    by_cases h : ∃ it ∈ devIdxItems ps, id ∈ it.1
    · obtain ⟨it, hm, hk, he⟩ := putMany_some b.devIdx _ id h
      obtain ⟨q, hq, rfl⟩ := List.mem_map.mp hm
      have : p = q := hU.dev id p q hp hin (P1 q hq) hk
      subst this
      exact he
    · have hno : ∀ q ∈ ps, id ∉ q.devIds := by
        intro q hq hin'
        exact h ⟨(q.devIds, q.id), List.mem_map.mpr ⟨q, hq, rfl⟩, hin'⟩
      have he : (setAll b ps ds).devIdx id = b.devIdx id :=
        putMany_none b.devIdx _ id (by
          intro it hm hk
          exact h ⟨it, hm, hk⟩)
      rw [he]
      have hpb : Lb.profs p.id = some p := by
        rcases P2 p.id p hp with ⟨hps, _⟩ | ⟨_, hb⟩
        · exact absurd hin (hno p hps)
        · exact hb
      have hdb : Lb.devs id = some d := by
        rcases D2 id d hd with ⟨hds, hid⟩ | ⟨_, hb⟩
        · obtain ⟨q, hq, hin'⟩ := hW.owned d hds
          rw [hid] at hin'
          exact absurd hin' (hno q hq)
        · exact hb
      exact hI.cdev id p d ⟨hpb, hin, hdb⟩
  refine { profs := ?_, devs := ?_, pkey := ?_, dkey := ?_, cdev := hcdev, ckey := ?_ }
  · show putMany b.profiles (profItems ps) = putMany Lb.profs (profItems ps)
    rw [hI.profs]
  · show putMany b.devices (devItems ds) = putMany Lb.devs (devItems ds)
    rw [hI.devs]
  · intro k p h
    rcases P2 k p h with ⟨_, hk⟩ | ⟨_, hb⟩
    · exact hk
    · exact hI.pkey k p hb
  · intro k d h
    rcases D2 k d h with ⟨_, hk⟩ | ⟨_, hb⟩
    · exact hk
    · exact hI.dkey k d hb
  · intro k p d ⟨hk, ho⟩
    obtain ⟨hp, hin, hd⟩ := ho
    have hdi := hcdev d.id p d ⟨hp, hin, hd⟩
    have hdi' : putMany b.devIdx (devIdxItems ps) d.id = some p.id := hdi
    by_cases h : ∃ it ∈ keyItems (putMany b.devIdx (devIdxItems ps)) ds, k ∈ it.1
    · obtain ⟨it, hm, hkin, he⟩ := putMany_some b.idx _ k h
      obtain ⟨e, he', rfl⟩ := List.mem_map.mp hm
      obtain ⟨q, hq, hqin⟩ := hW.owned e he'
      have hoe : OwnerDev (Lb.overlay ps ds) e.id q e := ⟨P1 q hq, hqin, D1 e he'⟩
      have hdie : putMany b.devIdx (devIdxItems ps) e.id = some q.id := hcdev e.id q e hoe
      simp only [] at hkin
      rw [hdie, mem_keysOf_some] at hkin
      have : d = e := hU.key k p d q e ⟨hk, hp, hin, hd⟩ ⟨hkin, hoe⟩
      subst this
      exact he
    · have he : (setAll b ps ds).idx k = b.idx k :=
        putMany_none b.idx _ k (by
          intro it hm hkin
          exact h ⟨it, hm, hkin⟩)
      rw [he]
      have hdnot : d ∉ ds := by
        intro hds
        apply h
        refine ⟨(keysOf (putMany b.devIdx (devIdxItems ps) d.id) d, d.id),
          List.mem_map.mpr ⟨d, hds, rfl⟩, ?_⟩
        simp only []
        rw [hdi', mem_keysOf_some]
        exact hk
      have hdb : Lb.devs d.id = some d := by
        rcases D2 d.id d hd with ⟨hds, _⟩ | ⟨_, hb⟩
        · exact absurd hds hdnot
        · exact hb
      have hpb : Lb.profs p.id = some p := by
        rcases P2 p.id p hp with ⟨hps, _⟩ | ⟨_, hb⟩
        · obtain ⟨e, he', hid⟩ := hW.listed p hps d.id hin
          have h1 := D1 e he'
          rw [hid, hd] at h1
          cases h1
          exact absurd he' hdnot
        · exact hb
      exact hI.ckey k p d ⟨hk, hpb, hin, hdb⟩

theorem inv_sync {s : St} {L : Latest} (hI : Inv s L) (full : Bool) (t : Nat) (ps : List Profile)
    (ds : List Device) (hW : RespWF ps ds) (hU : Uniq (L.apply full ps ds)) :
    Inv (applySync s full t ps ds) (L.apply full ps ds) := by
  unfold applySync Latest.apply
  cases full with
  | true =>
    simp only [if_true]
    exact inv_congr (inv_setAll (inv_cleared s) ps ds hW (by simpa [Latest.apply] using hU))
      rfl rfl rfl rfl
  | false =>
    simp only [Bool.false_eq_true, if_false]
    exact inv_congr (inv_setAll hI ps ds hW (by simpa [Latest.apply] using hU)) rfl rfl rfl rfl

theorem step_run (s : St) (i : Nat) : step s (.run i) =
    (match s.pending[i]? with
    | none => s
    | some c => applyCleanup { s with pending := s.pending.eraseIdx i } c) := rfl

/-- `New` + `loadFileCache` establish the invariant for the records of the cache file. -/
theorem inv_loadCache (v : Nat) (c : Option CacheFile)
    (hW : ∀ f, c = some f → RespWF f.profs f.devs) (hU : Uniq (restartLatest v c)) :
    Inv (loadCache v c) (restartLatest v c) := by
  unfold loadCache restartLatest
  cases c with
  | none => exact inv_init
  | some f =>
    simp only []
    by_cases hv : v = fileCacheVersion
    · by_cases he : f.profs.length = 0 ∨ f.devs.length = 0
      · have hnu : ¬ f.usable v := by
          intro ⟨_, h1, h2⟩
          rcases he with he | he
          · exact h1 (List.length_eq_zero_iff.mp he)
          · exact h2 (List.length_eq_zero_iff.mp he)
        rw [if_neg (by simpa using hv), if_pos he, if_neg hnu]
        exact inv_congr inv_init rfl rfl rfl rfl
      · have hu : f.usable v := by
          refine ⟨hv, ?_, ?_⟩
          · intro h; exact he (Or.inl (by simp [h]))
          · intro h; exact he (Or.inr (by simp [h]))
        rw [if_neg (by simpa using hv), if_neg he, if_pos hu]
        have hU' : Uniq (Latest.empty.overlay f.profs f.devs) := by
          have := hU; unfold restartLatest at this; simpa [hu] using this
        exact inv_congr (inv_setAll inv_init f.profs f.devs (hW f rfl) hU') rfl rfl rfl rfl
    · have hnu : ¬ f.usable v := fun h => hv h.1
      rw [if_pos hv, if_neg hnu]
      exact inv_congr inv_init rfl rfl rfl rfl

/-- The invariant of the whole system: the index invariant for the current records, the cache
file is what the specification says, and its content is a well-formed response. -/
structure InvS (s : St) (S : Spec) : Prop where
  inv : Inv s S.cur
  cache : s.cache = S.disk
  diskWF : ∀ f, S.disk = some f → RespWF f.profs f.devs

theorem applyCleanup_cache (s : St) (c : Cleanup) :
    (applyCleanup s c).cache = s.cache ∧ (applyCleanup s c).syncTime = s.syncTime := by
  cases c with
  | dev id => rw [applyCleanup_dev]; split <;> exact ⟨rfl, rfl⟩
  | key k =>
    rw [applyCleanup_key]
    split
    · exact ⟨rfl, rfl⟩
    · split
      · split <;> exact ⟨rfl, rfl⟩
      · exact ⟨rfl, rfl⟩

theorem loadCache_cache (v : Nat) (c : Option CacheFile) : (loadCache v c).cache = c := by
  unfold loadCache
  cases c with
  | none => rfl
  | some f =>
    simp only []
    split
    · rfl
    · split <;> rfl

theorem step_cache_other (s : St) (op : Op) (h1 : ∀ full t ps ds, op ≠ .sync full t ps ds) :
    (step s op).cache = s.cache := by
  cases op with
  | sync full t ps ds => exact absurd rfl (h1 full t ps ds)
  | syncNS t ps ds => rfl
  | byDev id => rfl
  | byKey k => rfl
  | byHuman pid h => rfl
  | run i =>
    rw [step_run]
    split
    · rfl
    · exact (applyCleanup_cache _ _).1
  | restart v => exact loadCache_cache v s.cache

theorem inv_step {s : St} {S : Spec} (hI : InvS s S) (op : Op)
    (hW : ∀ full t ps ds, op = .sync full t ps ds → RespWF ps ds)
    (hW2 : ∀ t ps ds, op = .syncNS t ps ds → RespWF ps ds) (hU : Uniq (specStep S op).cur) :
    InvS (step s op) (specStep S op) := by
  cases op with
  | sync full t ps ds =>
    refine ⟨inv_sync hI.inv full t ps ds (hW full t ps ds rfl) hU, ?_, ?_⟩
    · show (applySync s full t ps ds).cache = _
      unfold applySync
      cases full with
      | true => rfl
      | false => exact hI.cache
    · intro f hf
      cases full with
      | true =>
        have : f = ⟨t, ps, ds⟩ := by
          have := hf; simp [specStep] at this; exact this.symm
        subst this
        exact hW true t ps ds rfl
      | false => exact hI.diskWF f (by simpa [specStep] using hf)
  | syncNS t ps ds =>
    refine ⟨?_, hI.cache, hI.diskWF⟩
    exact inv_congr (inv_sync hI.inv true t ps ds (hW2 t ps ds rfl) hU) rfl rfl rfl rfl
  | byDev id => exact ⟨inv_pending hI.inv _, hI.cache, hI.diskWF⟩
  | byKey k => exact ⟨inv_pending hI.inv _, hI.cache, hI.diskWF⟩
  | byHuman pid h => exact ⟨inv_pending hI.inv _, hI.cache, hI.diskWF⟩
  | run i =>
    refine ⟨?_, ?_, hI.diskWF⟩
    · show Inv (step s (.run i)) S.cur
      rw [step_run]
      split
      · exact hI.inv
      · exact inv_cleanup (inv_pending hI.inv _) _
    · rw [step_cache_other s (.run i) (by intro _ _ _ _ h; cases h)]; exact hI.cache
  | restart v =>
    refine ⟨?_, ?_, hI.diskWF⟩
    · show Inv (loadCache v s.cache) (restartLatest v S.disk)
      rw [hI.cache]
      exact inv_loadCache v S.disk hI.diskWF hU
    · show (loadCache v s.cache).cache = S.disk
      rw [loadCache_cache]; exact hI.cache

theorem inv_foldl (ops : List Op) : ∀ (s : St) (S : Spec), InvS s S →
    (∀ full t ps ds, Op.sync full t ps ds ∈ ops → RespWF ps ds) →
    (∀ t ps ds, Op.syncNS t ps ds ∈ ops → RespWF ps ds) →
    (∀ pre, pre <+: ops → Uniq (pre.foldl specStep S).cur) →
    InvS (ops.foldl step s) (ops.foldl specStep S) := by
  induction ops with
  | nil => intro s S h _ _ _; exact h
  | cons o r ih =>
    intro s S h hW hW2 hU
    simp only [List.foldl]
    apply ih
    · apply inv_step h o
      · intro full t ps ds he; exact hW full t ps ds (by simp [he])
      · intro t ps ds he; exact hW2 t ps ds (by simp [he])
      · have := hU [o] (by simp)
        simpa using this
    · intro full t ps ds hm; exact hW full t ps ds (List.mem_cons_of_mem _ hm)
    · intro t ps ds hm; exact hW2 t ps ds (List.mem_cons_of_mem _ hm)
    · intro pre hp
      have := hU (o :: pre) (by simpa using hp)
      simpa using this

theorem invS_init : InvS init Spec.empty :=
  ⟨inv_init, rfl, by intro f h; cases h⟩

theorem invS_run (ops : List Op) (h : HistWF ops) : InvS (run ops) (spec ops) :=
  inv_foldl ops init Spec.empty invS_init h.resp h.respNS h.uniq

theorem inv_run (ops : List Op) (h : HistWF ops) : Inv (run ops) (latest ops) :=
  (invS_run ops h).inv

/-! ### The synchronisation point (reference monitor over the event history, newest first) -/

/-- The cache file holds what the most recent successful full synchronisation delivered. -/
def diskOf : List Ev → Option CacheFile
  | [] => none
  | .op (.sync true t ps ds) :: _ => some ⟨t, ps, ds⟩
  | _ :: older => diskOf older

/-- The sync time of the data the database currently answers from: that of the most recent
response applied, or of the cache file a restart loaded (zero if the restart found no usable
cache).  Failed requests, look-ups and clean-ups do not move it. -/
def lastApplied : List Ev → Nat
  | [] => 0
  | .op (.sync _ t _ _) :: _ => t
  | .op (.syncNS t _ _) :: _ => t
  | .op (.restart v) :: older =>
    match diskOf older with
    | some f => if f.usable v then f.time else 0
    | none => 0
  | _ :: older => lastApplied older

theorem loadCache_syncTime (v : Nat) (c : Option CacheFile) : (loadCache v c).syncTime =
    (match c with
    | some f => if f.usable v then f.time else 0
    | none => 0) := by
  unfold loadCache
  cases c with
  | none => rfl
  | some f =>
    simp only []
    by_cases hv : v = fileCacheVersion
    · by_cases he : f.profs.length = 0 ∨ f.devs.length = 0
      · have hnu : ¬ f.usable v := by
          intro ⟨_, h1, h2⟩
          rcases he with he | he
          · exact h1 (List.length_eq_zero_iff.mp he)
          · exact h2 (List.length_eq_zero_iff.mp he)
        rw [if_neg (by simpa using hv), if_pos he, if_neg hnu]; rfl
      · have hu : f.usable v := by
          refine ⟨hv, ?_, ?_⟩
          · intro h; exact he (Or.inl (by simp [h]))
          · intro h; exact he (Or.inr (by simp [h]))
        rw [if_neg (by simpa using hv), if_neg he, if_pos hu]
    · have hnu : ¬ f.usable v := fun h => hv h.1
      rw [if_pos hv, if_neg hnu]; rfl

theorem proto_inv (l : List Ev) :
    (l.foldr (fun e s => stepEv s e) init).syncTime = lastApplied l ∧
    (l.foldr (fun e s => stepEv s e) init).cache = diskOf l := by
  induction l with
  | nil => exact ⟨rfl, rfl⟩
  | cons e older ih =>
    obtain ⟨ih1, ih2⟩ := ih
    simp only [List.foldr]
    generalize (older.foldr (fun e s => stepEv s e) init) = s at ih1 ih2 ⊢
    cases e with
    | failed full => exact ⟨ih1, ih2⟩
    | op o =>
      cases o with
      | sync full t ps ds =>
        cases full with
        | true => exact ⟨rfl, rfl⟩
        | false => exact ⟨rfl, ih2⟩
      | syncNS t ps ds => exact ⟨rfl, ih2⟩
      | byDev id => exact ⟨ih1, ih2⟩
      | byKey k => exact ⟨ih1, ih2⟩
      | byHuman pid h => exact ⟨ih1, ih2⟩
      | run i =>
        show (step s (.run i)).syncTime = lastApplied older ∧ (step s (.run i)).cache = diskOf older
        rw [step_run]
        split
        · exact ⟨ih1, ih2⟩
        · exact ⟨(applyCleanup_cache _ _).2.trans ih1, (applyCleanup_cache _ _).1.trans ih2⟩
      | restart v =>
        refine ⟨?_, ?_⟩
        · show (loadCache v s.cache).syncTime = _
          rw [loadCache_syncTime, ih2]; rfl
        · show (loadCache v s.cache).cache = _
          rw [loadCache_cache, ih2]; rfl

/-- A sufficient condition for unambiguous latest data, used for the non-vacuity example: one
profile id, no dedicated IPs or human ids, and the device id is a function of the linked IP. -/
theorem uniq_small (L : Latest) (P : Profile) (f : Nat → Nat)
    (hp : ∀ k p, L.profs k = some p → p = P)
    (hd : ∀ k d, L.devs k = some d → d.dedicated = [] ∧ d.human = 0 ∧ (d.linked ≠ 0 → d.id = f d.linked)) :
    Uniq L := by
  refine ⟨?_, ?_⟩
  · intro id p p' h1 _ h2 _
    rw [hp _ p h1, hp _ p' h2]
  · intro k p d p' d' ⟨hk, _, _, hd1⟩ ⟨hk', _, _, hd2⟩
    obtain ⟨e1, u1, l1⟩ := hd _ d hd1
    obtain ⟨e2, u2, l2⟩ := hd _ d' hd2
    cases k with
    | linked ip =>
      obtain ⟨hne, hl⟩ := hk
      obtain ⟨_, hl'⟩ := hk'
      have i1 := l1 (by omega)
      have i2 := l2 (by omega)
      have : d.id = d'.id := by rw [i1, i2, hl, hl']
      rw [this] at hd1
      rw [hd1] at hd2
      cases hd2; rfl
    | ded ip => simp [HasKey, e1] at hk
    | human h q => simp [HasKey, u1] at hk; omega

end Agd.ProfileDB

namespace Agd.ProfileDB

/-! ### The database against a backend that answers "changes since t" honestly -/

/-- The two views have the same devices attached to the same profiles. -/
def OwnEq (L L' : Latest) : Prop := ∀ id p d, OwnerDev L id p d ↔ OwnerDev L' id p d

/-- A backend: its records at every time, and what it answers at time `n` to a request for the
changes since `t` (profiles, devices). -/
structure Backend where
  state : Nat → Latest
  resp : Nat → Nat → List Profile × List Device

/-- The backend's contract (what `GetDNSProfiles` promises), relative to a notion `R view records`
of "the view is up to date with the backend's records": time 0 is "nothing yet", and the answer
at time `n` to "since `t`", laid over any view that is up to date with time `t`, is up to date
with time `n` — i.e. the answer carries every change made after `t` (changed profiles with all
their devices, tombstones for deleted ones). -/
structure Backend.Honest (R : Latest → Latest → Prop) (B : Backend) : Prop where
  init : R Latest.empty (B.state 0)
  delta : ∀ t n L, t ≤ n → R L (B.state t) →
    R (L.overlay (B.resp t n).1 (B.resp t n).2) (B.state n)

/-- What happens to the database: a successful `Refresh` at backend time `n` (the backend answers
the request the database actually sends), a `Refresh` whose request fails, or any other operation
(look-up, clean-up execution, restart). -/
inductive Act
  | sync (full : Bool) (n : Nat)
  /-- a successful full request at backend time `n` whose cache store then failed -/
  | syncNS (n : Nat)
  | fail (full : Bool)
  | op (o : Op)

/-- `Act.op` is for everything but synchronisations. -/
def Act.ok : Act → Prop
  | .op (.sync _ _ _ _) => False
  | .op (.syncNS _ _ _) => False
  | _ => True

/-- Backend times do not run backwards. -/
def Mono : Nat → List Act → Prop
  | _, [] => True
  | now, .sync _ n :: r => now ≤ n ∧ Mono n r
  | now, .syncNS n :: r => now ≤ n ∧ Mono n r
  | now, _ :: r => Mono now r

/-- The model operation a successful `Refresh` amounts to in state `s`. -/
def syncOp (B : Backend) (s : St) (full : Bool) (n : Nat) : Op :=
  .sync full n (B.resp (reqTime s full) n).1 (B.resp (reqTime s full) n).2

/-- The same when the cache store fails afterwards (always a full synchronisation). -/
def syncNSOp (B : Backend) (n : Nat) : Op := .syncNS n (B.resp 0 n).1 (B.resp 0 n).2

/-- The history of model operations the acts produce from state `s`. -/
def opsOf (B : Backend) : List Act → St → List Op
  | [], _ => []
  | .sync full n :: r, s => syncOp B s full n :: opsOf B r (step s (syncOp B s full n))
  | .syncNS n :: r, s => syncNSOp B n :: opsOf B r (step s (syncNSOp B n))
  | .fail _ :: r, s => opsOf B r s
  | .op o :: r, s => o :: opsOf B r (step s o)

structure Tracks (R : Latest → Latest → Prop) (B : Backend) (s : St) (S : Spec) (now : Nat) : Prop where
  cur : R S.cur (B.state s.syncTime)
  cache : s.cache = S.disk
  disk : ∀ f, S.disk = some f → R (Latest.empty.overlay f.profs f.devs) (B.state f.time) ∧ f.time ≤ now
  le : s.syncTime ≤ now

theorem tracks_init {R : Latest → Latest → Prop} (B : Backend) (hB : B.Honest R) : Tracks R B init Spec.empty 0 :=
  ⟨hB.init, rfl, (by intro f h; cases h), Nat.le_refl 0⟩

theorem tracks_mono {R : Latest → Latest → Prop} {B : Backend} {s : St} {S : Spec} {now now' : Nat}
    (h : Tracks R B s S now) (hle : now ≤ now') : Tracks R B s S now' :=
  ⟨h.cur, h.cache, fun f hf => ⟨(h.disk f hf).1, Nat.le_trans (h.disk f hf).2 hle⟩,
    Nat.le_trans h.le hle⟩

theorem step_syncTime_lookup (s : St) (op : Op) (h1 : ∀ full t ps ds, op ≠ .sync full t ps ds)
    (h3 : ∀ t ps ds, op ≠ .syncNS t ps ds)
    (h2 : ∀ v, op ≠ .restart v) : (step s op).syncTime = s.syncTime ∧ specStep S op = S := by
  cases op with
  | sync full t ps ds => exact absurd rfl (h1 full t ps ds)
  | syncNS t ps ds => exact absurd rfl (h3 t ps ds)
  | byDev id => exact ⟨rfl, rfl⟩
  | byKey k => exact ⟨rfl, rfl⟩
  | byHuman pid h => exact ⟨rfl, rfl⟩
  | run i =>
    refine ⟨?_, rfl⟩
    rw [step_run]
    split
    · rfl
    · exact (applyCleanup_cache _ _).2
  | restart v => exact absurd rfl (h2 v)

theorem tracks_sync {R : Latest → Latest → Prop} {B : Backend} (hB : B.Honest R) {s : St} {S : Spec}
    {now : Nat} (h : Tracks R B s S now) (full : Bool) (n : Nat) (hn : now ≤ n) :
    Tracks R B (step s (syncOp B s full n)) (specStep S (syncOp B s full n)) n := by
  cases full with
  | true =>
    have hd : R (Latest.empty.overlay (B.resp 0 n).1 (B.resp 0 n).2) (B.state n) :=
      hB.delta 0 n Latest.empty (Nat.zero_le n) hB.init
    refine ⟨hd, rfl, ?_, Nat.le_refl n⟩
    intro f hf
    have : f = ⟨n, (B.resp 0 n).1, (B.resp 0 n).2⟩ := by
      have := hf; simp [specStep, syncOp, reqTime] at this; exact this.symm
    subst this
    exact ⟨hd, Nat.le_refl n⟩
  | false =>
    have ht : s.syncTime ≤ n := Nat.le_trans h.le hn
    refine ⟨hB.delta s.syncTime n S.cur ht h.cur, h.cache, ?_, Nat.le_refl n⟩
    intro f hf
    have := h.disk f (by simpa [specStep, syncOp] using hf)
    exact ⟨this.1, Nat.le_trans this.2 hn⟩

theorem tracks_syncNS {R : Latest → Latest → Prop} {B : Backend} (hB : B.Honest R) {s : St} {S : Spec}
    {now : Nat} (h : Tracks R B s S now) (n : Nat) (hn : now ≤ n) :
    Tracks R B (step s (syncNSOp B n)) (specStep S (syncNSOp B n)) n := by
  have hd : R (Latest.empty.overlay (B.resp 0 n).1 (B.resp 0 n).2) (B.state n) :=
    hB.delta 0 n Latest.empty (Nat.zero_le n) hB.init
  refine ⟨hd, h.cache, ?_, Nat.le_refl n⟩
  intro f hf
  have := h.disk f hf
  exact ⟨this.1, Nat.le_trans this.2 hn⟩

theorem tracks_other {R : Latest → Latest → Prop} {B : Backend} (hB : B.Honest R) {s : St} {S : Spec}
    {now : Nat} (h : Tracks R B s S now) (o : Op) (hok : ∀ full t ps ds, o ≠ .sync full t ps ds)
    (hok2 : ∀ t ps ds, o ≠ .syncNS t ps ds) :
    Tracks R B (step s o) (specStep S o) now := by
  by_cases hr : ∃ v, o = .restart v
  · obtain ⟨v, rfl⟩ := hr
    have hc : (step s (.restart v)).cache = S.disk := by
      show (loadCache v s.cache).cache = S.disk
      rw [loadCache_cache]; exact h.cache
    have ht : (step s (.restart v)).syncTime =
        (match S.disk with
        | some f => if f.usable v then f.time else 0
        | none => 0) := by
      show (loadCache v s.cache).syncTime = _
      rw [loadCache_syncTime, h.cache]
    refine ⟨?_, hc, h.disk, ?_⟩
    · show R (restartLatest v S.disk) (B.state (step s (.restart v)).syncTime)
      rw [ht]
      cases hd : S.disk with
      | none => exact hB.init
      | some f =>
        simp only [restartLatest]
        by_cases hu : f.usable v
        · rw [if_pos hu, if_pos hu]; exact (h.disk f hd).1
        · rw [if_neg hu, if_neg hu]; exact hB.init
    · rw [ht]
      cases hd : S.disk with
      | none => exact Nat.zero_le _
      | some f =>
        simp only []
        by_cases hu : f.usable v
        · rw [if_pos hu]; exact (h.disk f hd).2
        · rw [if_neg hu]; exact Nat.zero_le _
  · have hnr : ∀ v, o ≠ .restart v := fun v hv => hr ⟨v, hv⟩
    obtain ⟨e1, e2⟩ := step_syncTime_lookup (S := S) s o hok hok2 hnr
    refine ⟨by rw [e1, e2]; exact h.cur, ?_, by rw [e2]; exact h.disk, by rw [e1]; exact h.le⟩
    rw [e2, step_cache_other s o hok]; exact h.cache

theorem tracks_run {R : Latest → Latest → Prop} (B : Backend) (hB : B.Honest R) (acts : List Act) :
    ∀ (s : St) (S : Spec) (now : Nat),
    Tracks R B s S now → (∀ a ∈ acts, a.ok) → Mono now acts →
    ∃ now', Tracks R B ((opsOf B acts s).foldl step s) ((opsOf B acts s).foldl specStep S) now' := by
  induction acts with
  | nil => intro s S now h _ _; exact ⟨now, h⟩
  | cons a r ih =>
    intro s S now h hok hm
    have hokr : ∀ a ∈ r, a.ok := fun a ha => hok a (List.mem_cons_of_mem _ ha)
    cases a with
    | sync full n =>
      obtain ⟨hn, hm'⟩ := hm
      simp only [opsOf, List.foldl]
      exact ih _ _ n (tracks_sync hB h full n hn) hokr hm'
    | syncNS n =>
      obtain ⟨hn, hm'⟩ := hm
      simp only [opsOf, List.foldl]
      exact ih _ _ n (tracks_syncNS hB h n hn) hokr hm'
    | fail full =>
      simp only [opsOf]
      exact ih s S now h hokr hm
    | op o =>
      have hns : ∀ full t ps ds, o ≠ .sync full t ps ds := by
        intro full t ps ds he
        have := hok (.op o) (by simp)
        rw [he] at this
        exact this
      have hns2 : ∀ t ps ds, o ≠ .syncNS t ps ds := by
        intro t ps ds he
        have := hok (.op o) (by simp)
        rw [he] at this
        exact this
      simp only [opsOf, List.foldl]
      exact ih _ _ now (tracks_other hB h o hns hns2) hokr hm

/-! A realistic honest backend: its records are the overlay of its change log (tombstones are
records), and "since `t`" is answered with the change sets of the times after `t`. -/

theorem putMany_append {K V : Type} [DecidableEq K] (m : K → Option V) (xs ys : List (List K × V)) :
    putMany m (xs ++ ys) = putMany (putMany m xs) ys := by
  unfold putMany; rw [List.foldl_append]

theorem overlay_append (L : Latest) (p1 p2 : List Profile) (d1 d2 : List Device) :
    L.overlay (p1 ++ p2) (d1 ++ d2) = (L.overlay p1 d1).overlay p2 d2 := by
  unfold Latest.overlay profItems devItems
  simp only [List.map_append, putMany_append]

theorem overlay_nil (L : Latest) : L.overlay [] [] = L := rfl

def logState (log : Nat → List Profile × List Device) : Nat → Latest
  | 0 => Latest.empty
  | n + 1 => (logState log n).overlay (log (n + 1)).1 (log (n + 1)).2

def logResp (log : Nat → List Profile × List Device) (t : Nat) : Nat → List Profile × List Device
  | 0 => ([], [])
  | n + 1 => if n + 1 ≤ t then ([], [])
    else ((logResp log t n).1 ++ (log (n + 1)).1, (logResp log t n).2 ++ (log (n + 1)).2)

def logBackend (log : Nat → List Profile × List Device) : Backend :=
  { state := logState log, resp := logResp log }

theorem logBackend_honest (log : Nat → List Profile × List Device) :
    (logBackend log).Honest (fun L L' => L = L') := by
  refine ⟨rfl, ?_⟩
  intro t n L htn hL
  subst hL
  show (logState log t).overlay (logResp log t n).1 (logResp log t n).2 = logState log n
  induction n with
  | zero =>
    have : t = 0 := by omega
    subst this; rfl
  | succ n ih =>
    by_cases h : n + 1 ≤ t
    · have : t = n + 1 := by omega
      subst this
      simp only [logResp, if_pos (Nat.le_refl _)]
      rfl
    · have htn' : t ≤ n := by omega
      simp only [logResp, if_neg h]
      rw [overlay_append, ih htn']
      rfl

end Agd.ProfileDB
