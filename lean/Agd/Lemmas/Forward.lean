import Agd.Model.Forward
/-! Helper lemmas for C17 (core Lean only). -/
namespace Agd.Forward

@[simp] theorem put_same (m : Nat → Option Int) (k : Nat) (v : Option Int) : put m k v k = v := by
  simp [put]

@[simp] theorem put_other (m : Nat → Option Int) (k j : Nat) (v : Option Int) (h : j ≠ k) :
    put m k v j = m j := by
  simp [put, h]

/-! ### `pickActiveUpstream` -/

theorem pickActive_mem {s : St} {p u : Nat} (h : pickActive s p = some u) : u ∈ s.active := by
  unfold pickActive at h
  exact List.mem_of_getElem? h

theorem pickActive_none_iff (s : St) (p : Nat) : pickActive s p = none ↔ s.active = [] := by
  unfold pickActive
  constructor
  · intro h
    rw [List.getElem?_eq_none_iff] at h
    cases hl : s.active with
    | nil => rfl
    | cons a r =>
      rw [hl] at h
      have : p % (a :: r).length < (a :: r).length := Nat.mod_lt _ (by simp)
      omega
  · intro h
    simp [h]

/-! ### Closed form of the health-check loop -/

/-- What the loop decides for upstream `u` given the state before the round. -/
def skips (b : Int) (pr : Nat → Probe) (lf0 : Nat → Option Int) (u : Nat) : Bool :=
  inBackoff b (lf0 u) (pr u).tCheck

def lfAfter (b : Int) (pr : Nat → Probe) (lf0 : Nat → Option Int) (u : Nat) : Option Int :=
  if (pr u).ctxDone then lf0 u
  else if skips b pr lf0 u then lf0 u else if (pr u).ok then none else some (pr u).tFail

/-- The loop puts `u` on the new active list. -/
def keeps (b : Int) (pr : Nat → Probe) (lf0 : Nat → Option Int) (u : Nat) : Bool :=
  if (pr u).ctxDone then (lf0 u).isNone else (!skips b pr lf0 u && (pr u).ok)

theorem hcFold_succ (b : Int) (pr : Nat → Probe) (lf0 : Nat → Option Int) (k : Nat) :
    hcFold b pr lf0 (k + 1) = hcOne b pr (hcFold b pr lf0 k) k := by
  simp [hcFold, List.range_succ, List.foldl_append]

theorem hcFold_closed (b : Int) (pr : Nat → Probe) (lf0 : Nat → Option Int) (k : Nat) :
    (∀ u, (hcFold b pr lf0 k).lf u = if u < k then lfAfter b pr lf0 u else lf0 u) ∧
    (∀ u, u ∈ (hcFold b pr lf0 k).act ↔ (u < k ∧ keeps b pr lf0 u = true)) := by
  induction k with
  | zero => simp [hcFold]
  | succ k ih =>
    obtain ⟨ihl, iha⟩ := ih
    rw [hcFold_succ]
    have hk : (hcFold b pr lf0 k).lf k = lf0 k := by rw [ihl]; simp
    unfold hcOne
    rw [hk]
    by_cases hd : (pr k).ctxDone = true
    · rw [if_pos hd]
      by_cases hn : (lf0 k).isNone = true
      · rw [if_pos hn]
        refine ⟨fun u => ?_, fun u => ?_⟩
        · dsimp only
          rw [ihl]
          by_cases h1 : u < k
          · simp [h1, Nat.lt_succ_of_lt h1]
          · by_cases h2 : u = k
            · subst h2; simp [lfAfter, hd]
            · have : ¬ u < k + 1 := by omega
              simp [h1, this]
        · simp only [List.mem_append, List.mem_singleton, iha]
          constructor
          · rintro (⟨h1, h2⟩ | h)
            · exact ⟨Nat.lt_succ_of_lt h1, h2⟩
            · subst h; exact ⟨Nat.lt_succ_self _, by simp [keeps, hd, hn]⟩
          · rintro ⟨h1, h2⟩
            by_cases h4 : u = k
            · exact Or.inr h4
            · exact Or.inl ⟨by omega, h2⟩
      · rw [if_neg hn]
        refine ⟨fun u => ?_, fun u => ?_⟩
        · rw [ihl]
          by_cases h1 : u < k
          · simp [h1, Nat.lt_succ_of_lt h1]
          · by_cases h2 : u = k
            · subst h2; simp [lfAfter, hd]
            · have : ¬ u < k + 1 := by omega
              simp [h1, this]
        · rw [iha]
          constructor
          · rintro ⟨h1, h2⟩; exact ⟨Nat.lt_succ_of_lt h1, h2⟩
          · rintro ⟨h1, h2⟩
            refine ⟨?_, h2⟩
            by_cases h4 : u = k
            · subst h4; simp [keeps, hd, hn] at h2
            · omega
    · rw [if_neg hd]
      have hd' : (pr k).ctxDone = false := by simpa using hd
      -- the state for the other upstreams
      have hlf : ∀ (v : Option Int) (u : Nat), u ≠ k →
          put (hcFold b pr lf0 k).lf k v u = if u < k + 1 then lfAfter b pr lf0 u else lf0 u := by
        intro v u h2
        rw [put_other _ _ _ _ h2, ihl]
        by_cases h1 : u < k
        · simp [h1, Nat.lt_succ_of_lt h1]
        · have : ¬ u < k + 1 := by omega
          simp [h1, this]
      have hlf0 : ∀ u : Nat, u ≠ k →
          (hcFold b pr lf0 k).lf u = if u < k + 1 then lfAfter b pr lf0 u else lf0 u := by
        intro u h2
        rw [ihl]
        by_cases h1 : u < k
        · simp [h1, Nat.lt_succ_of_lt h1]
        · have : ¬ u < k + 1 := by omega
          simp [h1, this]
      have hin : ∀ u, (u < k ∧ keeps b pr lf0 u = true) ∨ (u = k ∧ keeps b pr lf0 k = true) ↔
          (u < k + 1 ∧ keeps b pr lf0 u = true) := by
        intro u
        constructor
        · rintro (⟨h1, h2⟩ | ⟨h1, h2⟩)
          · exact ⟨Nat.lt_succ_of_lt h1, h2⟩
          · subst h1; exact ⟨Nat.lt_succ_self _, h2⟩
        · rintro ⟨h1, h2⟩
          by_cases h4 : u = k
          · subst h4; exact Or.inr ⟨rfl, h2⟩
          · exact Or.inl ⟨by omega, h2⟩
      by_cases hs : inBackoff b (lf0 k) (pr k).tCheck = true
      · rw [if_pos hs]
        have hkp : keeps b pr lf0 k = false := by simp [keeps, hd', skips, hs]
        refine ⟨fun u => ?_, fun u => ?_⟩
        · by_cases h2 : u = k
          · subst h2; simp [ihl, lfAfter, skips, hs, hd']
          · exact hlf0 u h2
        · rw [iha, ← hin]
          simp [hkp]
      · rw [if_neg hs]
        have hs' : inBackoff b (lf0 k) (pr k).tCheck = false := by simpa using hs
        by_cases hok : (pr k).ok = true
        · rw [if_pos hok]
          have hkp : keeps b pr lf0 k = true := by simp [keeps, hd', skips, hs', hok]
          refine ⟨fun u => ?_, fun u => ?_⟩
          · by_cases h2 : u = k
            · subst h2; simp [lfAfter, skips, hs', hok, hd']
            · exact hlf none u h2
          · simp only [List.mem_append, List.mem_singleton, iha]
            rw [← hin]
            simp [hkp]
        · rw [if_neg hok]
          have hok' : (pr k).ok = false := by simpa using hok
          have hkp : keeps b pr lf0 k = false := by simp [keeps, hd', hok']
          refine ⟨fun u => ?_, fun u => ?_⟩
          · by_cases h2 : u = k
            · subst h2; simp [lfAfter, skips, hs', hok', hd']
            · exact hlf _ u h2
          · rw [iha, ← hin]
            simp [hkp]

/-- Whoever is put on the new active list has no failure recorded. -/
theorem hcFold_act_lf_none (b : Int) (pr : Nat → Probe) (lf0 : Nat → Option Int) (k u : Nat)
    (hu : u ∈ (hcFold b pr lf0 k).act) : (hcFold b pr lf0 k).lf u = none := by
  have hcl := hcFold_closed b pr lf0 k
  obtain ⟨hlt, hkp⟩ := (hcl.2 u).1 hu
  rw [hcl.1 u]
  simp only [hlt, if_true, lfAfter]
  unfold keeps at hkp
  by_cases hd : (pr u).ctxDone = true
  · simp only [hd, if_true] at hkp ⊢
    simpa using hkp
  · simp only [hd] at hkp ⊢
    simp only [Bool.false_eq_true, if_false, Bool.and_eq_true, Bool.not_eq_true'] at hkp ⊢
    simp [hkp.1, hkp.2]

/-- The probe events of a round: exactly one for every upstream reached with a live context and
outside its backoff window, carrying that upstream's own result. -/
theorem hcFold_evs_mem (b : Int) (pr : Nat → Probe) (lf0 : Nat → Option Int) (k : Nat) (e : Ev) :
    e ∈ (hcFold b pr lf0 k).evs ↔
      ∃ u, u < k ∧ (pr u).ctxDone = false ∧ skips b pr lf0 u = false ∧
        e = .probe u (pr u).tCheck (pr u).ok (pr u).tFail := by
  induction k with
  | zero => simp [hcFold]
  | succ k ih =>
    have hk : (hcFold b pr lf0 k).lf k = lf0 k := by
      rw [(hcFold_closed b pr lf0 k).1]; simp
    have hstep : ∀ P : Prop, (P ↔ ((pr k).ctxDone = false ∧ skips b pr lf0 k = false ∧
          e = .probe k (pr k).tCheck (pr k).ok (pr k).tFail)) →
        ((e ∈ (hcFold b pr lf0 k).evs ∨ P) ↔ ∃ u, u < k + 1 ∧ (pr u).ctxDone = false ∧
          skips b pr lf0 u = false ∧ e = .probe u (pr u).tCheck (pr u).ok (pr u).tFail) := by
      intro P hP
      rw [ih, hP]
      constructor
      · rintro (⟨u, h1, h2⟩ | h)
        · exact ⟨u, Nat.lt_succ_of_lt h1, h2⟩
        · exact ⟨k, Nat.lt_succ_self _, h⟩
      · rintro ⟨u, h1, h2⟩
        by_cases h4 : u = k
        · subst h4; exact Or.inr h2
        · exact Or.inl ⟨u, by omega, h2⟩
    rw [hcFold_succ]
    unfold hcOne
    rw [hk]
    by_cases hd : (pr k).ctxDone = true
    · have hP := hstep False (by simp [hd])
      rw [if_pos hd]
      by_cases hn : (lf0 k).isNone = true
      · rw [if_pos hn]; simpa using hP
      · rw [if_neg hn]; simpa using hP
    · rw [if_neg hd]
      have hd' : (pr k).ctxDone = false := by simpa using hd
      by_cases hs : inBackoff b (lf0 k) (pr k).tCheck = true
      · rw [if_pos hs]
        have hP := hstep False (by simp [skips, hs])
        simpa using hP
      · rw [if_neg hs]
        have hs' : inBackoff b (lf0 k) (pr k).tCheck = false := by simpa using hs
        by_cases hok : (pr k).ok = true
        · rw [if_pos hok]
          have hP := hstep (e = .probe k (pr k).tCheck (pr k).ok (pr k).tFail) (by simp [hd', skips, hs'])
          simpa [hok] using hP
        · rw [if_neg hok]
          have hok' : (pr k).ok = false := by simpa using hok
          have hP := hstep (e = .probe k (pr k).tCheck (pr k).ok (pr k).tFail) (by simp [hd', skips, hs'])
          simpa [hok'] using hP

/-- A context that is done stays done. -/
theorem deadBefore_of_dead0 (b : Int) (lf : Nat → Option Int) (t : Int) (beh : Nat → PBeh) (u : Nat) :
    deadBefore b lf t true beh u = true := by
  induction u with
  | zero => rfl
  | succ u ih => simp [deadBefore, ih]

/-! ### The reference monitor simulates the handler -/

/-- The handler's failure stamps are exactly the monitor's "last probe failed at". -/
def Sim (lf : Nat → Option Int) (m : Mon) : Prop :=
  ∀ u, lf u = match m.last u with
    | some (some f) => some f
    | _ => none

theorem Mon.run_append (b : Int) (m : Mon) (x y : List Ev) :
    Mon.run b m (x ++ y) = (Mon.run b m x).bind (fun m' => Mon.run b m' y) := by
  induction x generalizing m with
  | nil => simp [Mon.run]
  | cons e r ih =>
    simp only [List.cons_append, Mon.run]
    cases Mon.step b m e with
    | none => simp
    | some m' => simpa using ih m'

theorem hcOne_mon (b : Int) (pr : Nat → Probe) (a : HcAcc) (u : Nat) (m0 m : Mon)
    (hr : Mon.run b m0 a.evs = some m) (hs : Sim a.lf m) :
    ∃ m', Mon.run b m0 (hcOne b pr a u).evs = some m' ∧ Sim (hcOne b pr a u).lf m' := by
  unfold hcOne
  by_cases hd : (pr u).ctxDone = true
  · rw [if_pos hd]
    by_cases hn : (a.lf u).isNone = true
    · rw [if_pos hn]; exact ⟨m, hr, hs⟩
    · rw [if_neg hn]; exact ⟨m, hr, hs⟩
  rw [if_neg hd]
  by_cases hb : inBackoff b (a.lf u) (pr u).tCheck = true
  · rw [if_pos hb]; exact ⟨m, hr, hs⟩
  · rw [if_neg hb]
    have hb' : inBackoff b (a.lf u) (pr u).tCheck = false := by simpa using hb
    -- the monitor accepts the probe event
    have hstep : ∀ ok : Bool, Mon.step b m (.probe u (pr u).tCheck ok (pr u).tFail) =
        some { last := fun j => if j = u then some (if ok then none else some (pr u).tFail) else m.last j } := by
      intro ok
      have hu := hs u
      simp only [Mon.step]
      split
      · rename_i f hl
        rw [hl] at hu
        simp only [] at hu
        rw [hu] at hb'
        simp only [inBackoff, decide_eq_false_iff_not] at hb'
        rw [if_neg hb']
      · rfl
    by_cases hok : (pr u).ok = true
    · rw [if_pos hok]
      refine ⟨{ last := fun j => if j = u then some none else m.last j }, ?_, ?_⟩
      · dsimp only
        rw [Mon.run_append, hr]
        simp [Mon.run, hstep true]
      · intro v
        by_cases hv : v = u
        · subst hv; simp
        · simp [hv, hs v]
    · rw [if_neg hok]
      refine ⟨{ last := fun j => if j = u then some (some (pr u).tFail) else m.last j }, ?_, ?_⟩
      · dsimp only
        rw [Mon.run_append, hr]
        simp [Mon.run, hstep false]
      · intro v
        by_cases hv : v = u
        · subst hv; simp
        · simp [hv, hs v]

theorem hcFold_mon (b : Int) (pr : Nat → Probe) (lf0 : Nat → Option Int) (m : Mon) (hs : Sim lf0 m)
    (k : Nat) :
    ∃ m', Mon.run b m (hcFold b pr lf0 k).evs = some m' ∧ Sim (hcFold b pr lf0 k).lf m' := by
  induction k with
  | zero => exact ⟨m, by simp [hcFold, Mon.run], by simpa [hcFold] using hs⟩
  | succ k ih =>
    obtain ⟨m1, h1, h2⟩ := ih
    rw [hcFold_succ]
    exact hcOne_mon b pr _ k m m1 h1 h2

/-- The invariant carried along every history. -/
def Inv (s : St) (m : Mon) : Prop :=
  Sim s.lastFailed m ∧ ∀ u ∈ s.active, s.lastFailed u = none

theorem inv_init (c : Cfg) : Inv (St.init c) Mon.init := by
  constructor
  · intro u; simp [St.init, Mon.init]
  · intro u _; simp [St.init]

theorem callsMain_serve (c : Cfg) (s : St) (pick : Nat) (om : Nat → Outcome) (pickFb : Nat)
    (ofb : Nat → Outcome) :
    ∀ u ∈ callsMain (serve c s pick om pickFb ofb).calls, u ∈ s.active := by
  intro u hu
  unfold serve at hu
  cases hp : pickActive s pick with
  | none =>
    simp only [hp] at hu
    by_cases h : c.nFb > 0 <;> simp [h, callsMain] at hu
  | some v =>
    simp only [hp] at hu
    have hv := pickActive_mem hp
    by_cases h : om v = .netErr ∧ c.nFb > 0
    · rw [if_pos h] at hu
      simp [callsMain] at hu
      subst hu; exact hv
    · rw [if_neg h] at hu
      simp [callsMain] at hu
      subst hu; exact hv

theorem Mon.step_query_ok (b : Int) (m : Mon) (calls : List Call) (res : Res)
    (h : ∀ u ∈ callsMain calls, ∀ f, m.last u ≠ some (some f)) :
    Mon.step b m (.query calls res) = some m := by
  simp only [Mon.step]
  rw [if_pos]
  rw [List.all_eq_true]
  intro u hu
  split
  · rename_i f hl
    exact absurd hl (h u hu f)
  · rfl

theorem step_inv (c : Cfg) (s : St) (m : Mon) (o : Op) (hi : Inv s m) :
    ∃ m', Mon.run c.backoff m (step c s o).2 = some m' ∧ Inv (step c s o).1 m' := by
  cases o with
  | query pick om pickFb ofb =>
    refine ⟨m, ?_, hi⟩
    have hq : Mon.step c.backoff m (.query (serve c s pick om pickFb ofb).calls
        (serve c s pick om pickFb ofb).res) = some m := by
      apply Mon.step_query_ok
      intro u hu f hl
      have hact := callsMain_serve c s pick om pickFb ofb u hu
      have hnone := hi.2 u hact
      have hsim := hi.1 u
      rw [hnone, hl] at hsim
      simp at hsim
    simp only [step, Mon.run, hq]
  | refresh pr =>
    simp only [step, refresh]
    by_cases hf : c.nFb = 0
    · simp only [hf, if_true]
      exact ⟨m, by simp [Mon.run], hi⟩
    · simp only [hf, if_false]
      obtain ⟨m', h1, h2⟩ := hcFold_mon c.backoff pr s.lastFailed m hi.1 c.nMain
      refine ⟨m', by simpa [hcLoop] using h1, by simpa [hcLoop] using h2, ?_⟩
      intro u hu
      simp only [hcLoop] at hu ⊢
      exact hcFold_act_lf_none c.backoff pr s.lastFailed c.nMain u hu

theorem run_inv (c : Cfg) (ops : List Op) (s : St) (m : Mon) (hi : Inv s m) :
    ∃ m', Mon.run c.backoff m (run c s ops).2 = some m' ∧ Inv (run c s ops).1 m' := by
  induction ops generalizing s m with
  | nil => exact ⟨m, by simp [run, Mon.run], hi⟩
  | cons o os ih =>
    obtain ⟨m1, h1, h2⟩ := step_inv c s m o hi
    obtain ⟨m2, h3, h4⟩ := ih _ m1 h2
    refine ⟨m2, ?_, h4⟩
    simp only [run]
    rw [Mon.run_append, h1]
    simpa using h3

/-- Without fallbacks no operation changes the state. -/
theorem run_noFb (c : Cfg) (h : c.nFb = 0) (ops : List Op) (s : St) : (run c s ops).1 = s := by
  induction ops generalizing s with
  | nil => rfl
  | cons o os ih =>
    simp only [run]
    have : (step c s o).1 = s := by
      cases o <;> simp [step, refresh, h]
    rw [this, ih]

/-! ### The active list as an exact list -/

theorem hcFold_act_eq (b : Int) (pr : Nat → Probe) (lf0 : Nat → Option Int) (k : Nat) :
    (hcFold b pr lf0 k).act =
      (List.range k).filter (fun u => keeps b pr lf0 u) := by
  induction k with
  | zero => simp [hcFold]
  | succ k ih =>
    have hk : (hcFold b pr lf0 k).lf k = lf0 k := by
      rw [(hcFold_closed b pr lf0 k).1]; simp
    rw [hcFold_succ, List.range_succ, List.filter_append]
    unfold hcOne
    rw [hk]
    by_cases hd : (pr k).ctxDone = true
    · rw [if_pos hd]
      by_cases hn : (lf0 k).isNone = true
      · rw [if_pos hn]; simp [ih, keeps, hd, hn]
      · rw [if_neg hn, ih]; simp [keeps, hd, hn]
    rw [if_neg hd]
    have hd' : (pr k).ctxDone = false := by simpa using hd
    by_cases hs : inBackoff b (lf0 k) (pr k).tCheck = true
    · rw [if_pos hs, ih]
      simp [keeps, hd', skips, hs]
    · rw [if_neg hs]
      have hs' : inBackoff b (lf0 k) (pr k).tCheck = false := by simpa using hs
      by_cases hok : (pr k).ok = true
      · rw [if_pos hok]
        simp [ih, keeps, hd', skips, hs', hok]
      · rw [if_neg hok]
        have hok' : (pr k).ok = false := by simpa using hok
        simp [ih, keeps, hd', hok']

/-- The health filter: the configured upstreams without a recorded failure, in order. -/
def healthyList (c : Cfg) (lf : Nat → Option Int) : List Nat :=
  (List.range c.nMain).filter (fun u => (lf u).isNone)

theorem refresh_active_eq (c : Cfg) (s : St) (pr : Nat → Probe) (hf : c.nFb ≠ 0) :
    (refresh c s pr).1.active = healthyList c (refresh c s pr).1.lastFailed := by
  simp only [refresh, hf, if_false, hcLoop, healthyList]
  rw [hcFold_act_eq]
  apply List.filter_congr
  intro u hu
  have hlt : u < c.nMain := by simpa using hu
  rw [(hcFold_closed c.backoff pr s.lastFailed c.nMain).1 u]
  simp only [hlt, if_true, lfAfter, keeps]
  by_cases hd : (pr u).ctxDone = true
  · simp [hd]
  have hd' : (pr u).ctxDone = false := by simpa using hd
  simp only [hd', Bool.false_eq_true, if_false]
  by_cases hs : skips c.backoff pr s.lastFailed u = true
  · simp only [hs, if_true, Bool.not_true, Bool.false_and]
    simp only [skips, inBackoff] at hs
    cases hl : s.lastFailed u with
    | none => simp [hl] at hs
    | some f => simp
  · have hs' : skips c.backoff pr s.lastFailed u = false := by simpa using hs
    simp only [hs', Bool.false_eq_true, if_false, Bool.not_false, Bool.true_and]
    by_cases hok : (pr u).ok = true
    · simp [hok]
    · have hok' : (pr u).ok = false := by simpa using hok
      simp [hok']

/-- Invariant of all histories: the active list is exactly the health filter. -/
def Exact (c : Cfg) (s : St) : Prop := s.active = healthyList c s.lastFailed

theorem exact_init (c : Cfg) : Exact c (St.init c) := by
  simp only [Exact, St.init, healthyList, Option.isNone_none]
  exact (List.filter_eq_self.2 (fun _ _ => rfl)).symm

theorem step_exact (c : Cfg) (s : St) (o : Op) (h : Exact c s) : Exact c (step c s o).1 := by
  cases o with
  | query pick om pickFb ofb => exact h
  | refresh pr =>
    by_cases hf : c.nFb = 0
    · simpa [step, refresh, hf] using h
    · exact refresh_active_eq c s pr hf

theorem run_exact (c : Cfg) (ops : List Op) (s : St) (h : Exact c s) : Exact c (run c s ops).1 := by
  induction ops generalizing s with
  | nil => exact h
  | cons o os ih => exact ih _ (step_exact c s o h)

theorem mem_healthyList (c : Cfg) (lf : Nat → Option Int) (u : Nat) :
    u ∈ healthyList c lf ↔ (u < c.nMain ∧ lf u = none) := by
  simp [healthyList]

/-! ### `NewHandler` -/

theorem new_eq_run (c : Cfg) (init : Option (Nat → Probe)) :
    ∃ pre : List Op, (St.new c init) = run c (St.init c) pre := by
  cases init with
  | none => exact ⟨[], rfl⟩
  | some pr => exact ⟨[.refresh pr], by simp [St.new, run, step]⟩

theorem run_append (c : Cfg) (s : St) (x y : List Op) :
    run c s (x ++ y) = ((run c (run c s x).1 y).1, (run c s x).2 ++ (run c (run c s x).1 y).2) := by
  induction x generalizing s with
  | nil => simp [run]
  | cons o os ih =>
    simp only [List.cons_append, run]
    rw [ih]
    simp [List.append_assoc]

theorem runNew_eq_run (c : Cfg) (init : Option (Nat → Probe)) (ops : List Op) :
    ∃ pre : List Op, runNew c init ops = run c (St.init c) (pre ++ ops) := by
  obtain ⟨pre, h⟩ := new_eq_run c init
  refine ⟨pre, ?_⟩
  rw [run_append, ← h]
  rfl

/-! ### Interleaved rounds -/

theorem hcOne_congr (b : Int) (pr : Nat → Probe) (a a' : HcAcc) (u : Nat)
    (h1 : a.lf = a'.lf) (h2 : a.act = a'.act) :
    (hcOne b pr a u).lf = (hcOne b pr a' u).lf ∧ (hcOne b pr a u).act = (hcOne b pr a' u).act := by
  unfold hcOne
  rw [h1]
  by_cases hd : (pr u).ctxDone = true
  · by_cases hn : (a'.lf u).isNone = true
    · simp [hd, hn, h1, h2]
    · simp [hd, hn, h1, h2]
  by_cases hs : inBackoff b (a'.lf u) (pr u).tCheck = true
  · simp [hd, hs, h1, h2]
  · by_cases hok : (pr u).ok = true
    · simp [hd, hs, hok, h2]
    · simp [hd, hs, hok, h2]

theorem hcFoldI_succ (c : Cfg) (s : St) (pr : Nat → Probe) (d : Nat → List QArgs) (k : Nat) :
    hcFoldI c s pr d (k + 1) = hcOneI c s pr d (hcFoldI c s pr d k) k := by
  simp [hcFoldI, List.range_succ, List.foldl_append]

theorem hcFoldI_same (c : Cfg) (s : St) (pr : Nat → Probe) (d : Nat → List QArgs) (k : Nat) :
    (hcFoldI c s pr d k).lf = (hcFold c.backoff pr s.lastFailed k).lf ∧
    (hcFoldI c s pr d k).act = (hcFold c.backoff pr s.lastFailed k).act := by
  induction k with
  | zero => simp [hcFoldI, hcFold]
  | succ k ih =>
    rw [hcFoldI_succ, hcFold_succ]
    unfold hcOneI
    exact hcOne_congr _ _ _ _ _ ih.1 ih.2

/-- Without concurrent queries the interleaved round is the atomic one. -/
theorem refreshI_state (c : Cfg) (s : St) (pr : Nat → Probe) (d : Nat → List QArgs) :
    (refreshI c s pr d).1.active = (refresh c s pr).1.active ∧
    (refreshI c s pr d).1.lastFailed = (refresh c s pr).1.lastFailed := by
  unfold refreshI refresh
  by_cases hf : c.nFb = 0
  · simp [hf]
  · simp only [hf, if_false, hcLoop]
    exact ⟨(hcFoldI_same c s pr d c.nMain).2, (hcFoldI_same c s pr d c.nMain).1⟩

theorem Mon2.run_append (b : Int) (m : Mon2) (x y : List IEv) :
    Mon2.run b m (x ++ y) = (Mon2.run b m x).bind (fun m' => Mon2.run b m' y) := by
  induction x generalizing m with
  | nil => simp [Mon2.run]
  | cons e r ih =>
    simp only [List.cons_append, Mon2.run]
    cases Mon2.step b m e with
    | none => simp
    | some m' => simpa using ih m'

/-- Queries served from a state whose active upstreams are not barred are accepted and leave
the monitor as it is. -/
theorem Mon2.run_queries (b : Int) (c : Cfg) (s : St) (m : Mon2) (qs : List QArgs)
    (hb : ∀ u ∈ s.active, m.barred u = false) :
    Mon2.run b m (qs.map (fun q => IEv.ev (qEv c s q))) = some m := by
  induction qs with
  | nil => simp [Mon2.run]
  | cons q r ih =>
    simp only [List.map_cons, Mon2.run, qEv, Mon2.step]
    rw [if_pos]
    · exact ih
    · rw [List.all_eq_true]
      intro u hu
      have := callsMain_serve c s q.pick q.om q.pickFb q.ofb u hu
      simp [hb u this]

/-- State of the monitor inside a round. -/
structure InRound (b : Int) (s : St) (m0 : Mon2) (a : HcAcc) (m : Mon2) : Prop where
  ran : Mon2.run b m0 (a.evs.map IEv.ev) = some m
  sim : Sim a.lf { last := m.last }
  bar : ∀ u ∈ s.active, m.barred u = false

theorem hcOneI_mon (c : Cfg) (s : St) (pr : Nat → Probe) (d : Nat → List QArgs) (a : HcAcc) (u : Nat)
    (m0 m : Mon2) (h : InRound c.backoff s m0 a m) :
    ∃ m', InRound c.backoff s m0 (hcOneI c s pr d a u) m' := by
  obtain ⟨hr, hs, hb⟩ := h
  -- first the queries
  have hq : Mon2.run c.backoff m0 ((a.evs ++ (d u).map (qEv c s)).map IEv.ev) = some m := by
    rw [List.map_append, Mon2.run_append, hr]
    simp only [Option.bind_some, List.map_map]
    exact Mon2.run_queries c.backoff c s m (d u) hb
  unfold hcOneI hcOne
  simp only []
  by_cases hd : (pr u).ctxDone = true
  · rw [if_pos hd]
    by_cases hn : (a.lf u).isNone = true
    · rw [if_pos hn]; exact ⟨m, hq, hs, hb⟩
    · rw [if_neg hn]; exact ⟨m, hq, hs, hb⟩
  rw [if_neg hd]
  by_cases hbk : inBackoff c.backoff (a.lf u) (pr u).tCheck = true
  · rw [if_pos hbk]; exact ⟨m, hq, hs, hb⟩
  · rw [if_neg hbk]
    have hbk' : inBackoff c.backoff (a.lf u) (pr u).tCheck = false := by simpa using hbk
    have hstep : ∀ ok : Bool, Mon2.step c.backoff m (.ev (.probe u (pr u).tCheck ok (pr u).tFail)) =
        some { last := fun j => if j = u then some (if ok then none else some (pr u).tFail) else m.last j,
               barred := m.barred } := by
      intro ok
      have hu := hs u
      simp only [Mon2.step]
      split
      · rename_i f hl
        simp only [hl] at hu
        rw [hu] at hbk'
        simp only [inBackoff, decide_eq_false_iff_not] at hbk'
        rw [if_neg hbk']
      · rfl
    by_cases hok : (pr u).ok = true
    · rw [if_pos hok]
      refine ⟨{ last := fun j => if j = u then some none else m.last j, barred := m.barred }, ?_, ?_, hb⟩
      · simp only [List.map_append, List.map_cons, List.map_nil]
        rw [Mon2.run_append]
        rw [List.map_append] at hq
        rw [hq]
        simp [Mon2.run, hstep true]
      · intro v
        by_cases hv : v = u
        · subst hv; simp
        · have := hs v
          simp only [] at this
          simp [hv, this]
    · rw [if_neg hok]
      refine ⟨{ last := fun j => if j = u then some (some (pr u).tFail) else m.last j, barred := m.barred },
        ?_, ?_, hb⟩
      · simp only [List.map_append, List.map_cons, List.map_nil]
        rw [Mon2.run_append]
        rw [List.map_append] at hq
        rw [hq]
        simp [Mon2.run, hstep false]
      · intro v
        by_cases hv : v = u
        · subst hv; simp
        · have := hs v
          simp only [] at this
          simp [hv, this]

theorem hcFoldI_mon (c : Cfg) (s : St) (pr : Nat → Probe) (d : Nat → List QArgs) (m0 : Mon2)
    (hs : Sim s.lastFailed { last := m0.last }) (hb : ∀ u ∈ s.active, m0.barred u = false) (k : Nat) :
    ∃ m, InRound c.backoff s m0 (hcFoldI c s pr d k) m := by
  induction k with
  | zero => exact ⟨m0, by simp [hcFoldI, Mon2.run], by simpa [hcFoldI] using hs, hb⟩
  | succ k ih =>
    obtain ⟨m, h⟩ := ih
    rw [hcFoldI_succ]
    exact hcOneI_mon c s pr d _ k m0 m h

/-- Invariant of interleaved histories. -/
def Inv2 (s : St) (m : Mon2) : Prop :=
  Sim s.lastFailed { last := m.last } ∧ (∀ u ∈ s.active, s.lastFailed u = none) ∧
  (∀ u ∈ s.active, m.barred u = false)

theorem inv2_init (c : Cfg) : Inv2 (St.init c) Mon2.init := by
  refine ⟨?_, ?_, ?_⟩
  · intro u; simp [St.init, Mon2.init]
  · intro u _; simp [St.init]
  · intro u _; simp [Mon2.init]

theorem stepI_inv (c : Cfg) (s : St) (m : Mon2) (o : IOp) (hi : Inv2 s m) :
    ∃ m', Mon2.run c.backoff m (stepI c s o).2 = some m' ∧ Inv2 (stepI c s o).1 m' := by
  cases o with
  | query q =>
    refine ⟨m, ?_, hi⟩
    have := Mon2.run_queries c.backoff c s m [q] hi.2.2
    simpa [stepI] using this
  | refresh pr d =>
    simp only [stepI, refreshI]
    by_cases hf : c.nFb = 0
    · simp only [hf, if_true]
      exact ⟨m, by simp [Mon2.run], hi⟩
    · simp only [hf, if_false]
      obtain ⟨m1, hr, hsim, hbar⟩ := hcFoldI_mon c s pr d m hi.1 hi.2.2 c.nMain
      refine ⟨{ last := m1.last, barred := fun u => lastFailedP (m1.last u) }, ?_, ?_, ?_, ?_⟩
      · rw [Mon2.run_append, Mon2.run_append, hr]
        simp only [Option.bind_some]
        rw [Mon2.run_queries c.backoff c s m1 (d c.nMain) hbar]
        simp [Mon2.run, Mon2.step]
      · exact hsim
      · intro u hu
        simp only [] at hu ⊢
        rw [(hcFoldI_same c s pr d c.nMain).2] at hu
        rw [(hcFoldI_same c s pr d c.nMain).1]
        exact hcFold_act_lf_none c.backoff pr s.lastFailed c.nMain u hu
      · intro u hu
        simp only [] at hu ⊢
        have hnone : (hcFoldI c s pr d c.nMain).lf u = none := by
          rw [(hcFoldI_same c s pr d c.nMain).2] at hu
          rw [(hcFoldI_same c s pr d c.nMain).1]
          exact hcFold_act_lf_none c.backoff pr s.lastFailed c.nMain u hu
        have := hsim u
        rw [hnone] at this
        simp only [] at this
        unfold lastFailedP
        split
        · rename_i f hl
          rw [hl] at this
          simp at this
        · rfl

theorem runI_inv (c : Cfg) (ops : List IOp) (s : St) (m : Mon2) (hi : Inv2 s m) :
    ∃ m', Mon2.run c.backoff m (runI c s ops).2 = some m' ∧ Inv2 (runI c s ops).1 m' := by
  induction ops generalizing s m with
  | nil => exact ⟨m, by simp [runI, Mon2.run], hi⟩
  | cons o os ih =>
    obtain ⟨m1, h1, h2⟩ := stepI_inv c s m o hi
    obtain ⟨m2, h3, h4⟩ := ih _ m1 h2
    refine ⟨m2, ?_, h4⟩
    simp only [runI]
    rw [Mon2.run_append, h1]
    simpa using h3

/-! ## The name parser reads back what the encoder wrote -/

theorem encodeName_length_pos (ls : List (List Nat)) : ls.length + 1 ≤ (encodeName ls).length := by
  induction ls with
  | nil => simp [encodeName]
  | cons l r ih => simp only [encodeName, List.length_cons, List.length_append]; omega

/-- **parseName_encodeName.** The name parser reads back the labels the encoder wrote: for labels of
1–63 octets whose encoding fits the budget, it returns their escaped presentation form and exactly
the rest of the input. -/
theorem parseName_encodeName (ls : List (List Nat)) (rest : List Nat) (fuel : Nat) (budget : Int)
    (hl : ∀ l ∈ ls, 1 ≤ l.length ∧ l.length ≤ 63) (hf : ls.length < fuel)
    (hb : ((encodeName ls).length : Int) ≤ budget) :
    parseName fuel budget (encodeName ls ++ rest) =
      some (ls.flatMap (fun l => escLabel l ++ [46]), rest) := by
  induction ls generalizing fuel budget with
  | nil =>
    cases fuel with
    | zero => simp at hf
    | succ f => simp [encodeName, parseName]
  | cons l r ih =>
    cases fuel with
    | zero => simp at hf
    | succ f =>
      have hl1 := hl l (by simp)
      have hr : ∀ x ∈ r, 1 ≤ x.length ∧ x.length ≤ 63 := fun x hx => hl x (by simp [hx])
      have hpos := encodeName_length_pos r
      simp only [encodeName, List.length_cons, List.length_append] at hb
      have h0 : l.length ≠ 0 := by omega
      have h64 : ¬ 64 ≤ l.length := by omega
      have hlen : ¬ (l ++ (encodeName r ++ rest)).length < l.length := by
        simp only [List.length_append]; omega
      have hbud : ¬ budget - ((l.length + 1 : Nat) : Int) ≤ 0 := by
        push_cast; omega
      have hdrop : (l ++ (encodeName r ++ rest)).drop l.length = encodeName r ++ rest := List.drop_left
      have htake : (l ++ (encodeName r ++ rest)).take l.length = l := List.take_left
      have ih' := ih f (budget - ((l.length + 1 : Nat) : Int)) hr
        (by simp only [List.length_cons] at hf; omega) (by push_cast; omega)
      simp only [encodeName, List.cons_append, parseName, h0, h64, hbud, if_false, List.flatMap_cons,
        List.append_assoc]
      rw [if_neg hlen, hdrop, htake, ih']

theorem presName_eq (ls : List (List Nat)) :
    (if ls.flatMap (fun l => escLabel l ++ [46]) = [] then [46]
      else ls.flatMap (fun l => escLabel l ++ [46])) = presName ls := by
  unfold presName
  cases ls with
  | nil => simp
  | cons l r => simp

end Agd.Forward
