import Agd.Model.Forward
/-! Helper lemmas for C17 (core Lean only). -/
namespace Agd.Forward

@[simp] theorem put_same (m : Nat → Option Int) (k : Nat) (v : Option Int) : put m k v k = v := by
  simp [put]

@[simp] theorem put_other (m : Nat → Option Int) (k j : Nat) (v : Option Int) (h : j ≠ k) :
    put m k v j = m j := by
  simp [put, h]

/-! ### `pickActiveUpstream` -/

theorem pickActive_mem {s : St} {p u : Nat} (h : pickActive s p = some u) : u ∈ s.active := by
  unfold pickActive at h
  exact List.mem_of_getElem? h

theorem pickActive_none_iff (s : St) (p : Nat) : pickActive s p = none ↔ s.active = [] := by
  unfold pickActive
  constructor
  · intro h
    rw [List.getElem?_eq_none_iff] at h
    cases hl : s.active with
    | nil => rfl
    | cons a r =>
      rw [hl] at h
      have : p % (a :: r).length < (a :: r).length := Nat.mod_lt _ (by simp)
      omega
  · intro h
    simp [h]

/-! ### Closed form of the health-check loop -/

/-- What the loop decides for upstream `u` given the state before the round. -/
def skips (b : Int) (pr : Nat → Probe) (lf0 : Nat → Option Int) (u : Nat) : Bool :=
  inBackoff b (lf0 u) (pr u).tCheck

def lfAfter (b : Int) (pr : Nat → Probe) (lf0 : Nat → Option Int) (u : Nat) : Option Int :=
  if skips b pr lf0 u then lf0 u else if (pr u).ok then none else some (pr u).tFail

theorem hcFold_succ (b : Int) (pr : Nat → Probe) (lf0 : Nat → Option Int) (k : Nat) :
    hcFold b pr lf0 (k + 1) = hcOne b pr (hcFold b pr lf0 k) k := by
  simp [hcFold, List.range_succ, List.foldl_append]

theorem hcFold_closed (b : Int) (pr : Nat → Probe) (lf0 : Nat → Option Int) (k : Nat) :
    (∀ u, (hcFold b pr lf0 k).lf u = if u < k then lfAfter b pr lf0 u else lf0 u) ∧
    (∀ u, u ∈ (hcFold b pr lf0 k).act ↔ (u < k ∧ skips b pr lf0 u = false ∧ (pr u).ok = true)) := by
  induction k with
  | zero => simp [hcFold]
  | succ k ih =>
    obtain ⟨ihl, iha⟩ := ih
    rw [hcFold_succ]
    have hk : (hcFold b pr lf0 k).lf k = lf0 k := by rw [ihl]; simp
    unfold hcOne
    rw [hk]
    by_cases hs : inBackoff b (lf0 k) (pr k).tCheck = true
    · rw [if_pos hs]
      refine ⟨fun u => ?_, fun u => ?_⟩
      · rw [ihl]
        by_cases h1 : u < k
        · simp [h1, Nat.lt_succ_of_lt h1]
        · by_cases h2 : u = k
          · subst h2; simp [lfAfter, skips, hs]
          · have : ¬ u < k + 1 := by omega
            simp [h1, this]
      · rw [iha]
        constructor
        · rintro ⟨h1, h2, h3⟩; exact ⟨Nat.lt_succ_of_lt h1, h2, h3⟩
        · rintro ⟨h1, h2, h3⟩
          refine ⟨?_, h2, h3⟩
          by_cases h4 : u = k
          · subst h4; simp [skips, hs] at h2
          · omega
    · rw [if_neg hs]
      have hs' : inBackoff b (lf0 k) (pr k).tCheck = false := by simpa using hs
      by_cases hok : (pr k).ok = true
      · rw [if_pos hok]
        refine ⟨fun u => ?_, fun u => ?_⟩
        · by_cases h2 : u = k
          · subst h2; simp [lfAfter, skips, hs', hok]
          · dsimp only
            rw [put_other _ _ _ _ h2, ihl]
            by_cases h1 : u < k
            · simp [h1, Nat.lt_succ_of_lt h1]
            · have : ¬ u < k + 1 := by omega
              simp [h1, this]
        · simp only [List.mem_append, List.mem_singleton, iha]
          constructor
          · rintro (⟨h1, h2, h3⟩ | h)
            · exact ⟨Nat.lt_succ_of_lt h1, h2, h3⟩
            · subst h; exact ⟨Nat.lt_succ_self _, by simp [skips, hs'], hok⟩
          · rintro ⟨h1, h2, h3⟩
            by_cases h4 : u = k
            · exact Or.inr h4
            · exact Or.inl ⟨by omega, h2, h3⟩
      · rw [if_neg hok]
        have hok' : (pr k).ok = false := by simpa using hok
        refine ⟨fun u => ?_, fun u => ?_⟩
        · by_cases h2 : u = k
          · subst h2; simp [lfAfter, skips, hs', hok']
          · dsimp only
            rw [put_other _ _ _ _ h2, ihl]
            by_cases h1 : u < k
            · simp [h1, Nat.lt_succ_of_lt h1]
            · have : ¬ u < k + 1 := by omega
              simp [h1, this]
        · rw [iha]
          constructor
          · rintro ⟨h1, h2, h3⟩; exact ⟨Nat.lt_succ_of_lt h1, h2, h3⟩
          · rintro ⟨h1, h2, h3⟩
            refine ⟨?_, h2, h3⟩
            by_cases h4 : u = k
            · subst h4; simp [hok'] at h3
            · omega

/-! ### The reference monitor simulates the handler -/

/-- The handler's failure stamps are exactly the monitor's "last probe failed at". -/
def Sim (lf : Nat → Option Int) (m : Mon) : Prop :=
  ∀ u, lf u = match m.last u with
    | some (some f) => some f
    | _ => none

theorem Mon.run_append (b : Int) (m : Mon) (x y : List Ev) :
    Mon.run b m (x ++ y) = (Mon.run b m x).bind (fun m' => Mon.run b m' y) := by
  induction x generalizing m with
  | nil => simp [Mon.run]
  | cons e r ih =>
    simp only [List.cons_append, Mon.run]
    cases Mon.step b m e with
    | none => simp
    | some m' => simpa using ih m'

theorem hcOne_mon (b : Int) (pr : Nat → Probe) (a : HcAcc) (u : Nat) (m0 m : Mon)
    (hr : Mon.run b m0 a.evs = some m) (hs : Sim a.lf m) :
    ∃ m', Mon.run b m0 (hcOne b pr a u).evs = some m' ∧ Sim (hcOne b pr a u).lf m' := by
  unfold hcOne
  by_cases hb : inBackoff b (a.lf u) (pr u).tCheck = true
  · rw [if_pos hb]; exact ⟨m, hr, hs⟩
  · rw [if_neg hb]
    have hb' : inBackoff b (a.lf u) (pr u).tCheck = false := by simpa using hb
    -- the monitor accepts the probe event
    have hstep : ∀ ok : Bool, Mon.step b m (.probe u (pr u).tCheck ok (pr u).tFail) =
        some { last := fun j => if j = u then some (if ok then none else some (pr u).tFail) else m.last j } := by
      intro ok
      have hu := hs u
      simp only [Mon.step]
      split
      · rename_i f hl
        rw [hl] at hu
        simp only [] at hu
        rw [hu] at hb'
        simp only [inBackoff, decide_eq_false_iff_not] at hb'
        rw [if_neg hb']
      · rfl
    by_cases hok : (pr u).ok = true
    · rw [if_pos hok]
      refine ⟨{ last := fun j => if j = u then some none else m.last j }, ?_, ?_⟩
      · dsimp only
        rw [Mon.run_append, hr]
        simp [Mon.run, hstep true]
      · intro v
        by_cases hv : v = u
        · subst hv; simp
        · simp [hv, hs v]
    · rw [if_neg hok]
      refine ⟨{ last := fun j => if j = u then some (some (pr u).tFail) else m.last j }, ?_, ?_⟩
      · dsimp only
        rw [Mon.run_append, hr]
        simp [Mon.run, hstep false]
      · intro v
        by_cases hv : v = u
        · subst hv; simp
        · simp [hv, hs v]

theorem hcFold_mon (b : Int) (pr : Nat → Probe) (lf0 : Nat → Option Int) (m : Mon) (hs : Sim lf0 m)
    (k : Nat) :
    ∃ m', Mon.run b m (hcFold b pr lf0 k).evs = some m' ∧ Sim (hcFold b pr lf0 k).lf m' := by
  induction k with
  | zero => exact ⟨m, by simp [hcFold, Mon.run], by simpa [hcFold] using hs⟩
  | succ k ih =>
    obtain ⟨m1, h1, h2⟩ := ih
    rw [hcFold_succ]
    exact hcOne_mon b pr _ k m m1 h1 h2

/-- The invariant carried along every history. -/
def Inv (s : St) (m : Mon) : Prop :=
  Sim s.lastFailed m ∧ ∀ u ∈ s.active, s.lastFailed u = none

theorem inv_init (c : Cfg) : Inv (St.init c) Mon.init := by
  constructor
  · intro u; simp [St.init, Mon.init]
  · intro u _; simp [St.init]

theorem callsMain_serve (c : Cfg) (s : St) (pick : Nat) (om : Nat → Outcome) (pickFb : Nat)
    (ofb : Nat → Outcome) :
    ∀ u ∈ callsMain (serve c s pick om pickFb ofb).calls, u ∈ s.active := by
  intro u hu
  unfold serve at hu
  cases hp : pickActive s pick with
  | none =>
    simp only [hp] at hu
    by_cases h : c.nFb > 0 <;> simp [h, callsMain] at hu
  | some v =>
    simp only [hp] at hu
    have hv := pickActive_mem hp
    by_cases h : om v = .netErr ∧ c.nFb > 0
    · rw [if_pos h] at hu
      simp [callsMain] at hu
      subst hu; exact hv
    · rw [if_neg h] at hu
      simp [callsMain] at hu
      subst hu; exact hv

theorem Mon.step_query_ok (b : Int) (m : Mon) (calls : List Call) (res : Res)
    (h : ∀ u ∈ callsMain calls, ∀ f, m.last u ≠ some (some f)) :
    Mon.step b m (.query calls res) = some m := by
  simp only [Mon.step]
  rw [if_pos]
  rw [List.all_eq_true]
  intro u hu
  split
  · rename_i f hl
    exact absurd hl (h u hu f)
  · rfl

theorem step_inv (c : Cfg) (s : St) (m : Mon) (o : Op) (hi : Inv s m) :
    ∃ m', Mon.run c.backoff m (step c s o).2 = some m' ∧ Inv (step c s o).1 m' := by
  cases o with
  | query pick om pickFb ofb =>
    refine ⟨m, ?_, hi⟩
    have hq : Mon.step c.backoff m (.query (serve c s pick om pickFb ofb).calls
        (serve c s pick om pickFb ofb).res) = some m := by
      apply Mon.step_query_ok
      intro u hu f hl
      have hact := callsMain_serve c s pick om pickFb ofb u hu
      have hnone := hi.2 u hact
      have hsim := hi.1 u
      rw [hnone, hl] at hsim
      simp at hsim
    simp only [step, Mon.run, hq]
  | refresh pr =>
    simp only [step, refresh]
    by_cases hf : c.nFb = 0
    · simp only [hf, if_true]
      exact ⟨m, by simp [Mon.run], hi⟩
    · simp only [hf, if_false]
      obtain ⟨m', h1, h2⟩ := hcFold_mon c.backoff pr s.lastFailed m hi.1 c.nMain
      refine ⟨m', by simpa [hcLoop] using h1, by simpa [hcLoop] using h2, ?_⟩
      intro u hu
      have hcl := hcFold_closed c.backoff pr s.lastFailed c.nMain
      simp only [hcLoop] at hu ⊢
      obtain ⟨hlt, hsk, hok⟩ := (hcl.2 u).1 hu
      rw [hcl.1 u]
      simp [hlt, lfAfter, hsk, hok]

theorem run_inv (c : Cfg) (ops : List Op) (s : St) (m : Mon) (hi : Inv s m) :
    ∃ m', Mon.run c.backoff m (run c s ops).2 = some m' ∧ Inv (run c s ops).1 m' := by
  induction ops generalizing s m with
  | nil => exact ⟨m, by simp [run, Mon.run], hi⟩
  | cons o os ih =>
    obtain ⟨m1, h1, h2⟩ := step_inv c s m o hi
    obtain ⟨m2, h3, h4⟩ := ih _ m1 h2
    refine ⟨m2, ?_, h4⟩
    simp only [run]
    rw [Mon.run_append, h1]
    simpa using h3

/-- Without fallbacks no operation changes the state. -/
theorem run_noFb (c : Cfg) (h : c.nFb = 0) (ops : List Op) (s : St) : (run c s ops).1 = s := by
  induction ops generalizing s with
  | nil => rfl
  | cons o os ih =>
    simp only [run]
    have : (step c s o).1 = s := by
      cases o <;> simp [step, refresh, h]
    rw [this, ih]

end Agd.Forward
