import Agd.Model.Pools
/-! Invariant of the pool model and helper lemmas for `Props/C07.lean`. -/
namespace Agd.Pools

/-- Two pool entries do not share a cell. -/
def EntDisj (a b : Ent) : Prop :=
  a.size = 0 ∨ b.size = 0 ∨ a.start + a.size ≤ b.start ∨ b.start + b.size ≤ a.start

/-- A pool entry and the whole reachable interval of an object do not share a cell. -/
def EntObjDisj (e : Ent) (o : Obj) : Prop :=
  e.size = 0 ∨ o.cap = 0 ∨ e.start + e.size ≤ o.start ∨ o.start + o.cap ≤ e.start

/-- The reachable intervals of two objects do not share a cell. -/
def CapDisj (a b : Obj) : Prop :=
  a.cap = 0 ∨ b.cap = 0 ∨ a.start + a.cap ≤ b.start ∨ b.start + b.cap ≤ a.start

/-- The cells in use of two objects do not overlap. -/
def UseDisj (a b : Obj) : Prop :=
  a.len = 0 ∨ b.len = 0 ∨ a.start + a.len ≤ b.start ∨ b.start + b.len ≤ a.start

/-- What two objects of one message would give to the pools does not overlap. -/
def DonDisj (a b : Obj) : Prop :=
  ∀ ea eb, donate a = some ea → donate b = some eb → EntDisj ea eb

/-- The ownership invariant. -/
structure Inv (s : St) : Prop where
  poolBelow : ∀ e ∈ s.pool, e.start + e.size ≤ s.next
  liveBelow : ∀ h m, s.live h = some m → ∀ o ∈ m, o.start + o.cap ≤ s.next ∧ o.len ≤ o.cap
  poolSep : s.pool.Pairwise EntDisj
  poolLive : ∀ e ∈ s.pool, ∀ h m, s.live h = some m → ∀ o ∈ m, EntObjDisj e o
  liveSep : ∀ h1 h2 m1 m2, h1 ≠ h2 → s.live h1 = some m1 → s.live h2 = some m2 →
    ∀ o1 ∈ m1, ∀ o2 ∈ m2, CapDisj o1 o2
  useSep : ∀ h m, s.live h = some m → m.Pairwise UseDisj
  donSep : ∀ h m, s.live h = some m → m.Pairwise DonDisj

/-! ### tables -/

@[simp] theorem setLive_same (l : Nat → Option (List Obj)) (h : Nat) (v : Option (List Obj)) :
    setLive l h v h = v := by simp [setLive]

@[simp] theorem setLive_other (l : Nat → Option (List Obj)) (h x : Nat) (v : Option (List Obj))
    (hne : x ≠ h) : setLive l h v x = l x := by simp [setLive, hne]

/-! ### heap -/

theorem readN_length (h : Heap) (a n : Nat) : (readN h a n).length = n := by simp [readN]

theorem readN_congr (h h' : Heap) (a n : Nat) (hc : ∀ i, i < n → h' (a + i) = h (a + i)) :
    readN h' a n = readN h a n := by
  unfold readN
  apply List.map_congr_left
  intro i hi
  exact hc i (List.mem_range.mp hi)

theorem writeL_out (h : Heap) (s : Nat) (vs : List Nat) (c : Nat) (hc : c < s ∨ s + vs.length ≤ c) :
    writeL h s vs c = h c := by
  unfold writeL
  split
  · omega
  · rfl

theorem writeL_in (h : Heap) (s : Nat) (vs : List Nat) (i : Nat) (hi : i < vs.length) :
    writeL h s vs (s + i) = vs[i] := by
  unfold writeL
  have h1 : s ≤ s + i ∧ s + i < s + vs.length := by omega
  rw [if_pos h1, Nat.add_sub_cancel_left]
  simp [List.getD, hi]

theorem readN_writeL_same (h : Heap) (s : Nat) (vs : List Nat) :
    readN (writeL h s vs) s vs.length = vs := by
  apply List.ext_getElem
  · simp [readN]
  · intro i h1 h2
    simp only [readN, List.getElem_map, List.getElem_range]
    exact writeL_in h s vs i h2

theorem readN_writeL_disj (h : Heap) (s : Nat) (vs : List Nat) (a n : Nat)
    (hd : n = 0 ∨ vs.length = 0 ∨ a + n ≤ s ∨ s + vs.length ≤ a) :
    readN (writeL h s vs) a n = readN h a n := by
  apply readN_congr
  intro i hi
  apply writeL_out
  omega

/-! ### disjointness -/

theorem EntDisj.symm {a b : Ent} (h : EntDisj a b) : EntDisj b a := by
  unfold EntDisj at *; omega

theorem CapDisj.symm {a b : Obj} (h : CapDisj a b) : CapDisj b a := by
  unfold CapDisj at *; omega

theorem CapDisj.use {a b : Obj} (h : CapDisj a b) (ha : a.len ≤ a.cap) (hb : b.len ≤ b.cap) :
    UseDisj a b := by
  unfold CapDisj at h; unfold UseDisj; omega

theorem donate_inside (o : Obj) (e : Ent) (h : donate o = some e) :
    e.start = o.start ∧ e.size ≤ o.cap := by
  unfold donate at h
  split at h
  · split at h
    · split at h
      · cases h; simp_all
      · cases h
    · cases h; simp
  · cases h

theorem CapDisj.don {a b : Obj} (h : CapDisj a b) : DonDisj a b := by
  intro ea eb ha hb
  have h1 := donate_inside a ea ha
  have h2 := donate_inside b eb hb
  unfold CapDisj at h; unfold EntDisj; omega

theorem EntObjDisj.don {e : Ent} {o : Obj} (h : EntObjDisj e o) (e' : Ent) (hd : donate o = some e') :
    EntDisj e e' := by
  have h1 := donate_inside o e' hd
  unfold EntObjDisj at h; unfold EntDisj; omega

/-! ### popK -/

theorem popK_spec : ∀ (p : List Ent) (k : Nat) (e : Ent) (r : List Ent), popK k p = some (e, r) →
    e ∈ p ∧ r.Sublist p ∧ (p.Pairwise EntDisj → ∀ x ∈ r, EntDisj x e) := by
  intro p
  induction p with
  | nil => intro k e r h; simp [popK] at h
  | cons e0 t ih =>
    intro k e r h
    unfold popK at h
    split at h
    · cases h
      refine ⟨List.mem_cons_self, List.sublist_cons_self _ _, ?_⟩
      intro hp x hx
      exact ((List.pairwise_cons.mp hp).1 x hx).symm
    · cases hq : popK k t with
      | none => simp [hq] at h
      | some q =>
        simp only [hq, Option.some.injEq, Prod.mk.injEq] at h
        obtain ⟨h1, h2⟩ := h
        have hs := ih k q.1 q.2 (by rw [hq])
        subst h1; subst h2
        refine ⟨List.mem_cons_of_mem _ hs.1, List.Sublist.cons_cons _ hs.2.1, ?_⟩
        intro hp x hx
        have hp' := List.pairwise_cons.mp hp
        rcases List.mem_cons.mp hx with rfl | hx
        · exact hp'.1 _ hs.1
        · exact hs.2.2 hp'.2 x hx

/-! ### the invariant -/

theorem mem_getD {l : Option (List Obj)} {o : Obj} (h : o ∈ l.getD []) : ∃ m, l = some m ∧ o ∈ m := by
  cases l with
  | none => simp at h
  | some m => exact ⟨m, rfl, by simpa using h⟩

theorem getD_of_some {l : Option (List Obj)} {m : List Obj} (h : l = some m) : l.getD [] = m := by
  subst h; rfl

/-- The invariant does not mention the heap. -/
theorem Inv.heap {s : St} (hi : Inv s) (hp : Heap) : Inv { s with heap := hp } :=
  ⟨hi.poolBelow, hi.liveBelow, hi.poolSep, hi.poolLive, hi.liveSep, hi.useSep, hi.donSep⟩

/-- Dropping pool entries and allocating more cells keeps the invariant. -/
theorem Inv.shrink {s : St} (hi : Inv s) (hp : Heap) (pool' : List Ent) (next' : Nat)
    (hsub : pool'.Sublist s.pool) (hn : s.next ≤ next') :
    Inv { heap := hp, next := next', pool := pool', live := s.live } := by
  refine ⟨?_, ?_, hi.poolSep.sublist hsub, ?_, hi.liveSep, hi.useSep, hi.donSep⟩
  · intro e he
    have := hi.poolBelow e (hsub.subset he)
    show e.start + e.size ≤ next'
    omega
  · intro h m hm o ho
    have := hi.liveBelow h m hm o ho
    show o.start + o.cap ≤ next' ∧ o.len ≤ o.cap
    omega
  · intro e he
    exact hi.poolLive e (hsub.subset he)

/-- Appending to message `d` an object that is disjoint from the pool and from every live object. -/
theorem Inv.append {s : St} (hi : Inv s) (d : Nat) (o : Obj)
    (hfit : o.start + o.cap ≤ s.next) (hlen : o.len ≤ o.cap)
    (hp : ∀ e ∈ s.pool, EntObjDisj e o)
    (hl : ∀ h m, s.live h = some m → ∀ o2 ∈ m, CapDisj o2 o) :
    Inv (appendLive s d o) := by
  have key : ∀ h m, (appendLive s d o).live h = some m →
      (h ≠ d ∧ s.live h = some m) ∨ (h = d ∧ m = (s.live d).getD [] ++ [o]) := by
    intro h m hm
    by_cases hd : h = d
    · subst hd
      right
      simp [appendLive] at hm
      exact ⟨rfl, hm.symm⟩
    · left
      simp [appendLive, hd] at hm
      exact ⟨hd, hm⟩
  have mem : ∀ h m, (appendLive s d o).live h = some m → ∀ o2 ∈ m,
      (∃ m0, s.live h = some m0 ∧ o2 ∈ m0) ∨ (h = d ∧ o2 = o) := by
    intro h m hm o2 ho2
    rcases key h m hm with ⟨_, h1⟩ | ⟨h1, h2⟩
    · exact Or.inl ⟨m, h1, ho2⟩
    · subst h2
      rcases List.mem_append.mp ho2 with h3 | h3
      · subst h1; exact Or.inl (mem_getD h3)
      · right; exact ⟨h1, by simpa using h3⟩
  refine ⟨hi.poolBelow, ?_, hi.poolSep, ?_, ?_, ?_, ?_⟩
  · intro h m hm o2 ho2
    rcases mem h m hm o2 ho2 with ⟨m0, h1, h2⟩ | ⟨_, rfl⟩
    · exact hi.liveBelow h m0 h1 o2 h2
    · exact ⟨hfit, hlen⟩
  · intro e he h m hm o2 ho2
    rcases mem h m hm o2 ho2 with ⟨m0, h1, h2⟩ | ⟨_, rfl⟩
    · exact hi.poolLive e he h m0 h1 o2 h2
    · exact hp e he
  · intro h1 h2 m1 m2 hne hm1 hm2 o1 ho1 o2 ho2
    rcases mem h1 m1 hm1 o1 ho1 with ⟨n1, a1, b1⟩ | ⟨a1, rfl⟩
    · rcases mem h2 m2 hm2 o2 ho2 with ⟨n2, a2, b2⟩ | ⟨a2, rfl⟩
      · exact hi.liveSep h1 h2 n1 n2 hne a1 a2 o1 b1 o2 b2
      · exact hl h1 n1 a1 o1 b1
    · rcases mem h2 m2 hm2 o2 ho2 with ⟨n2, a2, b2⟩ | ⟨a2, rfl⟩
      · exact (hl h2 n2 a2 o2 b2).symm
      · exact absurd (a1.trans a2.symm) hne
  · intro h m hm
    rcases key h m hm with ⟨_, h1⟩ | ⟨h1, h2⟩
    · exact hi.useSep h m h1
    · subst h2; subst h1
      rw [List.pairwise_append]
      refine ⟨?_, List.pairwise_singleton _ _, ?_⟩
      · cases hq : s.live h with
        | none => simp
        | some m0 => exact hi.useSep h m0 hq
      · intro a ha b hb
        obtain ⟨m0, h1, h2⟩ := mem_getD ha
        have hb' : b = o := by simpa using hb
        subst hb'
        exact (hl h m0 h1 a h2).use (hi.liveBelow h m0 h1 a h2).2 hlen
  · intro h m hm
    rcases key h m hm with ⟨_, h1⟩ | ⟨h1, h2⟩
    · exact hi.donSep h m h1
    · subst h2; subst h1
      rw [List.pairwise_append]
      refine ⟨?_, List.pairwise_singleton _ _, ?_⟩
      · cases hq : s.live h with
        | none => simp
        | some m0 => exact hi.donSep h m0 hq
      · intro a ha b hb
        obtain ⟨m0, h1, h2⟩ := mem_getD ha
        have hb' : b = o := by simpa using hb
        subst hb'
        exact (hl h m0 h1 a h2).don

/-! ### acquire, mkObj -/

theorem freshCap_ge (k need : Nat) : need ≤ freshCap k need := by
  unfold freshCap; split <;> omega

/-- What `acquire` returns: an interval that nothing else reaches. -/
theorem acquire_spec (s : St) (u : Bool) (k need : Nat) (hi : Inv s) :
    ∃ pool' next' st cp b,
      acquire s u k need = ({ heap := s.heap, next := next', pool := pool', live := s.live }, st, cp, b) ∧
      pool'.Sublist s.pool ∧ s.next ≤ next' ∧ need ≤ cp ∧ st + cp ≤ next' ∧
      (∀ e ∈ pool', e.size = 0 ∨ cp = 0 ∨ e.start + e.size ≤ st ∨ st + cp ≤ e.start) ∧
      (∀ h m, s.live h = some m → ∀ o ∈ m, o.cap = 0 ∨ cp = 0 ∨ o.start + o.cap ≤ st ∨ st + cp ≤ o.start) := by
  have fresh : ∀ pool', pool'.Sublist s.pool →
      ∃ pool'' next' st cp b,
      (({ heap := s.heap, next := s.next + freshCap k need, pool := pool', live := s.live } : St),
        s.next, freshCap k need, false) =
        (({ heap := s.heap, next := next', pool := pool'', live := s.live } : St), st, cp, b) ∧
      pool''.Sublist s.pool ∧ s.next ≤ next' ∧ need ≤ cp ∧ st + cp ≤ next' ∧
      (∀ e ∈ pool'', e.size = 0 ∨ cp = 0 ∨ e.start + e.size ≤ st ∨ st + cp ≤ e.start) ∧
      (∀ h m, s.live h = some m → ∀ o ∈ m, o.cap = 0 ∨ cp = 0 ∨ o.start + o.cap ≤ st ∨ st + cp ≤ o.start) := by
    intro pool' hsub
    refine ⟨pool', _, _, _, _, rfl, hsub, Nat.le_add_right _ _, freshCap_ge k need, Nat.le_refl _, ?_, ?_⟩
    · intro e he
      have := hi.poolBelow e (hsub.subset he)
      omega
    · intro h m hm o ho
      have := hi.liveBelow h m hm o ho
      omega
  unfold acquire
  split
  · cases hq : popK k s.pool with
    | none => exact fresh s.pool (List.Sublist.refl _)
    | some p =>
      have hs := popK_spec s.pool k p.1 p.2 hq
      show ∃ pool' next' st cp b, (if need ≤ p.1.size then _ else _) = _ ∧ _
      split
      · refine ⟨p.2, s.next, p.1.start, p.1.size, true, rfl, hs.2.1, Nat.le_refl _, by assumption, ?_, ?_, ?_⟩
        · exact hi.poolBelow p.1 hs.1
        · intro e he
          have := hs.2.2 hi.poolSep e he
          unfold EntDisj at this
          exact this
        · intro h m hm o ho
          have := hi.poolLive p.1 hs.1 h m hm o ho
          unfold EntObjDisj at this
          omega
      · exact fresh p.2 hs.2.1
  · exact fresh s.pool (List.Sublist.refl _)

@[simp] theorem appendLive_heap (s : St) (d : Nat) (o : Obj) : (appendLive s d o).heap = s.heap := rfl
@[simp] theorem appendLive_same (s : St) (d : Nat) (o : Obj) :
    (appendLive s d o).live d = some ((s.live d).getD [] ++ [o]) := by simp [appendLive]
@[simp] theorem appendLive_other (s : St) (d h : Nat) (o : Obj) (hne : h ≠ d) :
    (appendLive s d o).live h = s.live h := by simp [appendLive, hne]

theorem content_writeL_disj (hp : Heap) (st cp : Nat) (vals : List Nat) (o : Obj) (hlen : o.len ≤ o.cap)
    (hv : vals.length ≤ cp) (hd : o.cap = 0 ∨ cp = 0 ∨ o.start + o.cap ≤ st ∨ st + cp ≤ o.start) :
    content (writeL hp st vals) o = content hp o := by
  unfold content
  apply readN_writeL_disj
  omega

/-- `mkObj` followed by `appendLive`: invariant, requested fields, frame. -/
theorem mkAppend_spec (s : St) (d : Nat) (u : Bool) (k : Nat) (vals : List Nat) (hi : Inv s) :
    Inv (appendLive (mkObj s u k vals).1 d (mkObj s u k vals).2.1) ∧
    (mkObj s u k vals).1.live = s.live ∧
    (mkObj s u k vals).2.1.kind = k ∧
    content (mkObj s u k vals).1.heap (mkObj s u k vals).2.1 = vals ∧
    (∀ h m, s.live h = some m → ∀ o ∈ m, content (mkObj s u k vals).1.heap o = content s.heap o) := by
  obtain ⟨pool', next', st, cp, b, hacq, hsub, hn, hneed, hfit, hpool, hlive⟩ :=
    acquire_spec s u k vals.length hi
  have hm : mkObj s u k vals =
      ({ heap := writeL s.heap st vals, next := next', pool := pool', live := s.live },
       { kind := k, start := st, len := vals.length, cap := cp }, b) := by
    simp only [mkObj, hacq]
  rw [hm]
  refine ⟨?_, rfl, rfl, ?_, ?_⟩
  · apply (hi.shrink (writeL s.heap st vals) pool' next' hsub hn).append d
    · exact hfit
    · exact hneed
    · intro e he
      have := hpool e he
      unfold EntObjDisj
      exact this
    · intro h m hm' o ho
      have := hlive h m hm' o ho
      unfold CapDisj
      exact this
  · exact readN_writeL_same s.heap st vals
  · intro h m hm' o ho
    exact content_writeL_disj s.heap st cp vals o (hi.liveBelow h m hm' o ho).2 hneed (hlive h m hm' o ho)

/-! ### popDiscard -/

theorem popDiscard_spec (s : St) (k : Nat) (hi : Inv s) :
    Inv (popDiscard s k) ∧ (popDiscard s k).heap = s.heap ∧ (popDiscard s k).live = s.live := by
  unfold popDiscard
  split
  · cases hq : popK k s.pool with
    | none => exact ⟨hi, rfl, rfl⟩
    | some p =>
      have hs := popK_spec s.pool k p.1 p.2 hq
      exact ⟨hi.shrink s.heap p.2 s.next hs.2.1 (Nat.le_refl _), rfl, rfl⟩
  · exact ⟨hi, rfl, rfl⟩

/-! ### cloneStep, cloneList -/

/-- Outcome of cloning the object `o` into message `d`. -/
def StepPost (s s' : St) (d : Nat) (o : Obj) : Prop :=
  Inv s' ∧ (∀ h, h ≠ d → s'.live h = s.live h) ∧
  (∃ o', s'.live d = some ((s.live d).getD [] ++ [o']) ∧ o'.kind = o.kind ∧
    content s'.heap o' = content s.heap o) ∧
  (∀ h m, s.live h = some m → ∀ o2 ∈ m, content s'.heap o2 = content s.heap o2)

theorem cloneVia_spec (s s1 : St) (d : Nat) (u : Bool) (o : Obj) (hi : Inv s1)
    (hh : s1.heap = s.heap) (hl : s1.live = s.live) :
    StepPost s (appendLive (cloneObj s1 u o).1 d (cloneObj s1 u o).2.1) d o := by
  unfold cloneObj
  obtain ⟨h1, h2, h3, h4, h5⟩ := mkAppend_spec s1 d u o.kind (content s1.heap o) hi
  refine ⟨h1, ?_, ⟨_, ?_, h3, ?_⟩, ?_⟩
  · intro h hne
    rw [appendLive_other _ _ _ _ hne, h2, hl]
  · rw [appendLive_same, h2, hl]
  · rw [appendLive_heap, h4, hh]
  · intro h m hm o2 ho2
    rw [appendLive_heap, h5 h m (hl ▸ hm) o2 ho2, hh]

theorem cloneStep_spec (s : St) (d md : Nat) (o : Obj) (hi : Inv s) :
    StepPost s (cloneStep s d md o).1 d o := by
  unfold cloneStep
  split
  · exact cloneVia_spec s s d true o hi rfl rfl
  · show StepPost s (appendLive (cloneObj (if md = 1 then popDiscard s o.kind else s) false o).1 d
      (cloneObj (if md = 1 then popDiscard s o.kind else s) false o).2.1) d o
    split
    · obtain ⟨h1, h2, h3⟩ := popDiscard_spec s o.kind hi
      exact cloneVia_spec s _ d false o h1 h2 h3
    · exact cloneVia_spec s s d false o hi rfl rfl

theorem contentM_congr (hp hp' : Heap) (os : List Obj)
    (hc : ∀ o ∈ os, content hp' o = content hp o) : contentM hp' os = contentM hp os := by
  unfold contentM
  apply List.map_congr_left
  intro o ho
  rw [hc o ho]

theorem cloneList_spec (os : List Obj) : ∀ (s : St) (d md src : Nat) (m pre : List Obj), Inv s → src ≠ d →
    s.live src = some m → (∀ o ∈ os, o ∈ m) → s.live d = some pre →
    Inv (cloneList s d md os).1 ∧
    (∀ h, h ≠ d → (cloneList s d md os).1.live h = s.live h) ∧
    (∃ cl, (cloneList s d md os).1.live d = some (pre ++ cl) ∧
       contentM (cloneList s d md os).1.heap cl = contentM s.heap os) ∧
    (∀ h mm, s.live h = some mm → ∀ o2 ∈ mm,
       content (cloneList s d md os).1.heap o2 = content s.heap o2) := by
  induction os with
  | nil =>
    intro s d md src m pre hi hne hs hsub hd
    refine ⟨hi, fun _ _ => rfl, ⟨[], ?_, rfl⟩, fun _ _ _ _ _ => rfl⟩
    simpa [cloneList] using hd
  | cons o r ih =>
    intro s d md src m pre hi hne hs hsub hd
    show Inv (cloneList (cloneStep s d (nextMode md o r) o).1 d (nextMode md o r) r).1 ∧ _
    obtain ⟨i1, l1, ⟨o', a1, k1, c1⟩, f1⟩ := cloneStep_spec s d (nextMode md o r) o hi
    rw [hd] at a1
    have hs1 : (cloneStep s d (nextMode md o r) o).1.live src = some m := by rw [l1 src hne, hs]
    obtain ⟨i2, l2, ⟨cl, a2, c2⟩, f2⟩ := ih (cloneStep s d (nextMode md o r) o).1 d (nextMode md o r) src m
      (pre ++ [o']) i1 hne hs1 (fun x hx => hsub x (List.mem_cons_of_mem _ hx)) a1
    refine ⟨i2, ?_, ⟨o' :: cl, ?_, ?_⟩, ?_⟩
    · intro h hh
      show (cloneList (cloneStep s d (nextMode md o r) o).1 d (nextMode md o r) r).1.live h = _
      rw [l2 h hh, l1 h hh]
    · show (cloneList (cloneStep s d (nextMode md o r) o).1 d (nextMode md o r) r).1.live d = _
      rw [a2]; simp
    · show contentM (cloneList (cloneStep s d (nextMode md o r) o).1 d (nextMode md o r) r).1.heap (o' :: cl) = _
      have e1 := f2 d (pre ++ [o']) a1 o' (by simp)
      have e2 : contentM (cloneStep s d (nextMode md o r) o).1.heap r = contentM s.heap r :=
        contentM_congr _ _ _ (fun x hx => f1 src m hs x (hsub x (List.mem_cons_of_mem _ hx)))
      simp only [contentM, List.map_cons] at *
      rw [c2, e2, e1, c1, k1]
    · intro h mm hm o2 ho2
      show content (cloneList (cloneStep s d (nextMode md o r) o).1 d (nextMode md o r) r).1.heap o2 = _
      rw [← f1 h mm hm o2 ho2]
      by_cases hh : h = d
      · subst hh
        rw [hd] at hm
        cases hm
        exact f2 h (pre ++ [o']) a1 o2 (List.mem_append_left _ ho2)
      · exact f2 h mm (by rw [l1 h hh, hm]) o2 ho2

/-! ### clone -/

/-- Forgetting messages (or replacing them by empty ones) keeps the invariant. -/
theorem Inv.sub {s : St} (hi : Inv s) (live' : Nat → Option (List Obj))
    (hsub : ∀ h m, live' h = some m → m = [] ∨ s.live h = some m) :
    Inv { s with live := live' } := by
  refine ⟨hi.poolBelow, ?_, hi.poolSep, ?_, ?_, ?_, ?_⟩
  · intro h m hm o ho
    rcases hsub h m hm with rfl | h1
    · simp at ho
    · exact hi.liveBelow h m h1 o ho
  · intro e he h m hm o ho
    rcases hsub h m hm with rfl | h1
    · simp at ho
    · exact hi.poolLive e he h m h1 o ho
  · intro h1 h2 m1 m2 hne hm1 hm2 o1 ho1 o2 ho2
    rcases hsub h1 m1 hm1 with rfl | a1
    · simp at ho1
    · rcases hsub h2 m2 hm2 with rfl | a2
      · simp at ho2
      · exact hi.liveSep h1 h2 m1 m2 hne a1 a2 o1 ho1 o2 ho2
  · intro h m hm
    rcases hsub h m hm with rfl | h1
    · simp
    · exact hi.useSep h m h1
  · intro h m hm
    rcases hsub h m hm with rfl | h1
    · simp
    · exact hi.donSep h m h1

theorem setLive_some {l : Nat → Option (List Obj)} {d h : Nat} {v : Option (List Obj)} {m : List Obj}
    (hm : setLive l d v h = some m) : (h = d ∧ v = some m) ∨ (h ≠ d ∧ l h = some m) := by
  by_cases hd : h = d
  · subst hd; simp at hm; exact Or.inl ⟨rfl, hm⟩
  · simp [hd] at hm; exact Or.inr ⟨hd, hm⟩

/-- `clone`: invariant, the copy has the content of the original, everything that was live is as it was. -/
theorem clone_spec (s : St) (src dst : Nat) (m : List Obj) (hi : Inv s) (hs : s.live src = some m)
    (hne : src ≠ dst) :
    Inv (clone s src dst).1 ∧
    (∀ h, h ≠ dst → (clone s src dst).1.live h = s.live h) ∧
    (∃ cl, (clone s src dst).1.live dst = some cl ∧ contentM (clone s src dst).1.heap cl = contentM s.heap m) ∧
    (∀ h mm, h ≠ dst → s.live h = some mm → ∀ o2 ∈ mm,
       content (clone s src dst).1.heap o2 = content s.heap o2) := by
  have i0 : Inv { s with live := setLive s.live dst (some []) } := by
    apply hi.sub
    intro h mm hm
    rcases setLive_some hm with ⟨_, h1⟩ | ⟨_, h1⟩
    · left; cases h1; rfl
    · exact Or.inr h1
  have hs0 : ({ s with live := setLive s.live dst (some []) } : St).live src = some m := by
    show setLive s.live dst (some []) src = some m
    rw [setLive_other _ _ _ _ hne, hs]
  obtain ⟨i1, l1, ⟨cl, a1, c1⟩, f1⟩ := cloneList_spec m _ dst 0 src m [] i0 hne hs0 (fun _ h => h)
    (show setLive s.live dst (some []) dst = some [] from setLive_same _ _ _)
  have hc : clone s src dst = cloneList { s with live := setLive s.live dst (some []) } dst 0 m := by
    simp only [clone, hs]
  rw [hc]
  refine ⟨i1, ?_, ⟨cl, by simpa using a1, c1⟩, ?_⟩
  · intro h hh
    rw [l1 h hh]
    exact setLive_other _ _ _ _ hh
  · intro h mm hh hm o2 ho2
    exact f1 h mm (show setLive s.live dst (some []) h = some mm by rw [setLive_other _ _ _ _ hh, hm]) o2 ho2

/-! ### dispose -/

theorem disposeList_mem (don : Obj → Option Ent) (m : List Obj) : ∀ (pool : List Ent) (e : Ent),
    e ∈ disposeList don pool m → e ∈ pool ∨ ∃ o ∈ m, don o = some e := by
  induction m with
  | nil => intro pool e h; exact Or.inl h
  | cons o r ih =>
    intro pool e h
    unfold disposeList at h
    rcases ih _ e h with h1 | ⟨o2, h1, h2⟩
    · cases hq : don o with
      | none => rw [hq] at h1; exact Or.inl h1
      | some e0 =>
        rw [hq] at h1
        rcases List.mem_cons.mp h1 with rfl | h1
        · exact Or.inr ⟨o, List.mem_cons_self, hq⟩
        · exact Or.inl h1
    · exact Or.inr ⟨o2, List.mem_cons_of_mem _ h1, h2⟩

theorem disposeList_pairwise (m : List Obj) : ∀ (pool : List Ent), pool.Pairwise EntDisj →
    m.Pairwise DonDisj → (∀ e ∈ pool, ∀ o ∈ m, ∀ e', donate o = some e' → EntDisj e e') →
    (disposeList donate pool m).Pairwise EntDisj := by
  induction m with
  | nil => intro pool hp _ _; exact hp
  | cons o r ih =>
    intro pool hp hm hpm
    unfold disposeList
    have hm' := List.pairwise_cons.mp hm
    cases hq : donate o with
    | none =>
      exact ih pool hp hm'.2 (fun e he o2 ho2 => hpm e he o2 (List.mem_cons_of_mem _ ho2))
    | some e0 =>
      apply ih (e0 :: pool)
      · rw [List.pairwise_cons]
        exact ⟨fun e he => (hpm e he o List.mem_cons_self e0 hq).symm, hp⟩
      · exact hm'.2
      · intro e he o2 ho2 e' hd
        rcases List.mem_cons.mp he with rfl | he
        · exact hm'.1 o2 ho2 e e' hq hd
        · exact hpm e he o2 (List.mem_cons_of_mem _ ho2) e' hd

theorem dispose_inv (s : St) (h : Nat) (hi : Inv s) : Inv (dispose s h) := by
  unfold dispose disposeWith
  cases hq : s.live h with
  | none => exact hi
  | some m =>
    have i0 : Inv { s with live := setLive s.live h none } := by
      apply hi.sub
      intro h2 m2 hm
      rcases setLive_some hm with ⟨_, h1⟩ | ⟨_, h1⟩
      · cases h1
      · exact Or.inr h1
    refine ⟨?_, i0.liveBelow, ?_, ?_, i0.liveSep, i0.useSep, i0.donSep⟩
    · intro e he
      rcases disposeList_mem donate m s.pool e he with h1 | ⟨o, h1, h2⟩
      · exact hi.poolBelow e h1
      · have := donate_inside o e h2
        have := hi.liveBelow h m hq o h1
        show e.start + e.size ≤ s.next
        omega
    · apply disposeList_pairwise m s.pool hi.poolSep (hi.donSep h m hq)
      intro e he o ho e' hd
      exact (hi.poolLive e he h m hq o ho).don e' hd
    · intro e he h2 m2 hm o2 ho2
      rcases setLive_some hm with ⟨_, h1⟩ | ⟨hne, h1⟩
      · cases h1
      · rcases disposeList_mem donate m s.pool e he with h3 | ⟨o, h3, h4⟩
        · exact hi.poolLive e h3 h2 m2 h1 o2 ho2
        · have := donate_inside o e h4
          have := hi.liveSep h h2 m m2 (Ne.symm hne) hq h1 o h3 o2 ho2
          unfold CapDisj at this
          unfold EntObjDisj
          omega

/-! ### newMsg -/

theorem writeSpecs_below (base : Nat) (ps : List Spec) : ∀ (hp : Heap) (c : Nat), c < base →
    writeSpecs hp base ps c = hp c := by
  induction ps with
  | nil => intro hp c _; rfl
  | cons p r ih =>
    intro hp c hc
    unfold writeSpecs
    rw [ih _ c hc]
    apply writeL_out
    omega

/-- A message in cells that were never handed out may enter. -/
theorem Inv.setMsg {s : St} (hi : Inv s) (hp : Heap) (next' d : Nat) (mm : List Obj) (hn : s.next ≤ next')
    (hfit : ∀ o ∈ mm, s.next ≤ o.start ∧ o.start + o.cap ≤ next' ∧ o.len ≤ o.cap)
    (hu : mm.Pairwise UseDisj) (hdn : mm.Pairwise DonDisj) :
    Inv { heap := hp, next := next', pool := s.pool, live := setLive s.live d (some mm) } := by
  refine ⟨?_, ?_, hi.poolSep, ?_, ?_, ?_, ?_⟩
  · intro e he
    have := hi.poolBelow e he
    show e.start + e.size ≤ next'
    omega
  · intro h m hm o ho
    show o.start + o.cap ≤ next' ∧ o.len ≤ o.cap
    rcases setLive_some hm with ⟨_, h1⟩ | ⟨_, h1⟩
    · cases h1
      have := hfit o ho
      omega
    · have := hi.liveBelow h m h1 o ho
      omega
  · intro e he h m hm o ho
    rcases setLive_some hm with ⟨_, h1⟩ | ⟨_, h1⟩
    · cases h1
      have := hfit o ho
      have := hi.poolBelow e he
      unfold EntObjDisj
      omega
    · exact hi.poolLive e he h m h1 o ho
  · intro h1 h2 m1 m2 hne hm1 hm2 o1 ho1 o2 ho2
    rcases setLive_some hm1 with ⟨a1, b1⟩ | ⟨a1, b1⟩
    · rcases setLive_some hm2 with ⟨a2, b2⟩ | ⟨a2, b2⟩
      · exact absurd (a1.trans a2.symm) hne
      · cases b1
        have := hfit o1 ho1
        have := hi.liveBelow h2 m2 b2 o2 ho2
        unfold CapDisj
        omega
    · rcases setLive_some hm2 with ⟨a2, b2⟩ | ⟨a2, b2⟩
      · cases b2
        have := hfit o2 ho2
        have := hi.liveBelow h1 m1 b1 o1 ho1
        unfold CapDisj
        omega
      · exact hi.liveSep h1 h2 m1 m2 hne b1 b2 o1 ho1 o2 ho2
  · intro h m hm
    rcases setLive_some hm with ⟨_, h1⟩ | ⟨_, h1⟩
    · cases h1; exact hu
    · exact hi.useSep h m h1
  · intro h m hm
    rcases setLive_some hm with ⟨_, h1⟩ | ⟨_, h1⟩
    · cases h1; exact hdn
    · exact hi.donSep h m h1

/-! ### poke -/

theorem poke_spec (s : St) (h i j v : Nat) (hi : Inv s) :
    Inv (poke s h i j v) ∧ (poke s h i j v).live = s.live ∧
    (∀ h2 m2, h2 ≠ h → s.live h2 = some m2 → ∀ o2 ∈ m2,
      content (poke s h i j v).heap o2 = content s.heap o2) := by
  unfold poke
  split
  · exact ⟨hi, rfl, fun _ _ _ _ _ _ => rfl⟩
  · rename_i m hq
    split
    · exact ⟨hi, rfl, fun _ _ _ _ _ _ => rfl⟩
    · rename_i o hg
      split
      · refine ⟨hi.heap _, rfl, ?_⟩
        intro h2 m2 hne hm2 o2 ho2
        have ho : o ∈ m := List.mem_of_getElem? hg
        have h1 := hi.liveSep h h2 m m2 (Ne.symm hne) hq hm2 o ho o2 ho2
        have h2' := hi.liveBelow h m hq o ho
        have h3 := hi.liveBelow h2 m2 hm2 o2 ho2
        unfold CapDisj at h1
        show content (writeL s.heap (o.start + j) [v]) o2 = content s.heap o2
        unfold content
        apply readN_writeL_disj
        simp only [List.length_singleton]
        omega
      · exact ⟨hi, rfl, fun _ _ _ _ _ _ => rfl⟩

/-! ### aliasing -/

theorem overlapUse_false {a b : Obj} (h : UseDisj a b) : overlapUse a b = false := by
  unfold UseDisj at h
  simp only [overlapUse, disj, Bool.not_eq_false', Bool.or_eq_true, beq_iff_eq, decide_eq_true_eq]
  omega

theorem anyOverlapIn_false (l : List Obj) (h : l.Pairwise UseDisj) : anyOverlapIn l = false := by
  induction l with
  | nil => rfl
  | cons o r ih =>
    have h' := List.pairwise_cons.mp h
    unfold anyOverlapIn
    rw [ih h'.2, Bool.or_false, List.any_eq_false]
    intro x hx
    rw [overlapUse_false (h'.1 x hx)]
    simp

theorem live_flat_mem (s : St) (n : Nat) (o : Obj)
    (h : o ∈ ((List.range n).filterMap s.live).flatten) : ∃ k m, k < n ∧ s.live k = some m ∧ o ∈ m := by
  rw [List.mem_flatten] at h
  obtain ⟨m, hm, ho⟩ := h
  rw [List.mem_filterMap] at hm
  obtain ⟨k, hk, hkm⟩ := hm
  exact ⟨k, m, List.mem_range.mp hk, hkm, ho⟩

theorem live_flat_pairwise (s : St) (hi : Inv s) (n : Nat) :
    (((List.range n).filterMap s.live).flatten).Pairwise UseDisj := by
  induction n with
  | zero => simp
  | succ n ih =>
    rw [List.range_succ, List.filterMap_append, List.flatten_append, List.pairwise_append]
    refine ⟨ih, ?_, ?_⟩
    · cases hq : s.live n with
      | none => simp [hq]
      | some m => simpa [hq] using hi.useSep n m hq
    · intro a ha b hb
      obtain ⟨k, m, hk, hm, ham⟩ := live_flat_mem s n a ha
      cases hq : s.live n with
      | none => simp [hq] at hb
      | some m2 =>
        have hb' : b ∈ m2 := by simpa [hq] using hb
        exact (hi.liveSep k n m m2 (by omega) hm hq a ham b hb').use
          (hi.liveBelow k m hm a ham).2 (hi.liveBelow n m2 hq b hb').2

theorem anyAlias_false (s : St) (hi : Inv s) (n : Nat) : anyAlias s n = false :=
  anyOverlapIn_false _ (live_flat_pairwise s hi n)

/-! ### what the target of an operation holds afterwards -/

theorem writeSpecs_frame (base : Nat) (o : Obj) (r : List Spec) : ∀ (hp : Heap),
    (∀ q ∈ r, UseDisj (specObj base q) o) → content (writeSpecs hp base r) o = content hp o := by
  induction r with
  | nil => intro hp _; rfl
  | cons q t ih =>
    intro hp hd
    unfold writeSpecs
    rw [ih _ (fun x hx => hd x (List.mem_cons_of_mem _ hx))]
    have := hd q List.mem_cons_self
    simp only [UseDisj, specObj] at this
    unfold content
    apply readN_writeL_disj
    omega

theorem writeSpecs_content (base : Nat) (ps : List Spec) : ∀ (hp : Heap),
    (ps.map (specObj base)).Pairwise UseDisj →
    contentM (writeSpecs hp base ps) (ps.map (specObj base)) = ps.map (fun p => (p.kind, p.vals)) := by
  induction ps with
  | nil => intro hp _; rfl
  | cons p r ih =>
    intro hp hpw
    rw [List.map_cons, List.pairwise_cons] at hpw
    have h1 : content (writeSpecs (writeL hp (base + p.off) p.vals) base r) (specObj base p) = p.vals := by
      rw [writeSpecs_frame]
      · exact readN_writeL_same hp (base + p.off) p.vals
      · intro q hq
        have := hpw.1 (specObj base q) (List.mem_map.mpr ⟨q, hq, rfl⟩)
        unfold UseDisj at *
        omega
    have h2 := ih (writeL hp (base + p.off) p.vals) hpw.2
    simp only [contentM, List.map_cons, writeSpecs] at *
    rw [h1, h2]
    rfl

theorem readN_writeL_set (hp : Heap) (a n j v : Nat) :
    readN (writeL hp (a + j) [v]) a n = (readN hp a n).set j v := by
  apply List.ext_getElem
  · simp [readN]
  · intro k h1 h2
    simp only [readN, List.getElem_map, List.getElem_range, List.getElem_set]
    by_cases hk : j = k
    · subst hk
      rw [if_pos rfl]
      exact writeL_in hp (a + j) [v] 0 (by simp)
    · rw [if_neg hk]
      apply writeL_out
      simp only [List.length_singleton]
      omega

/-- `poke` on what the holder sees. -/
def pokeView (l : List (Nat × List Nat)) (i j v : Nat) : List (Nat × List Nat) :=
  match l[i]? with
  | none => l
  | some kc => if j < kc.2.length then l.set i (kc.1, kc.2.set j v) else l

theorem poke_content (s : St) (h i j v : Nat) (m : List Obj) (hi : Inv s) (hm : s.live h = some m) :
    contentM (poke s h i j v).heap m = pokeView (contentM s.heap m) i j v := by
  unfold poke pokeView
  rw [hm]
  simp only [contentM, List.getElem?_map]
  cases hg : m[i]? with
  | none => rfl
  | some o =>
    simp only [Option.map_some, content, readN_length]
    by_cases hj : j < o.len
    · rw [if_pos hj, if_pos hj]
      have hil : i < m.length := (List.getElem?_eq_some_iff.mp hg).1
      have hio : m[i] = o := (List.getElem?_eq_some_iff.mp hg).2
      apply List.ext_getElem
      · simp
      · intro n h1 h2
        have hn : n < m.length := by simpa using h1
        simp only [List.getElem_map, List.getElem_set]
        by_cases hin : i = n
        · subst hin
          rw [if_pos rfl, hio]
          show (o.kind, readN (writeL s.heap (o.start + j) [v]) o.start o.len) = _
          rw [readN_writeL_set]
        · rw [if_neg hin]
          have hu : UseDisj o m[n] := by
            have hp := List.pairwise_iff_getElem.mp (hi.useSep h m hm)
            rcases Nat.lt_or_gt_of_ne hin with hlt | hgt
            · have := hp i n hil hn hlt
              rwa [hio] at this
            · have := hp n i hn hil hgt
              rw [hio] at this
              unfold UseDisj at *
              omega
          unfold UseDisj at hu
          show (m[n].kind, readN (writeL s.heap (o.start + j) [v]) m[n].start m[n].len) = _
          rw [readN_writeL_disj]
          simp only [List.length_singleton]
          omega
    · rw [if_neg hj, if_neg hj]

/-! ### generic list helpers -/

theorem pairwise_get {α : Type} {R : α → α → Prop} (hs : ∀ a b, R a b → R b a) {m : List α}
    (hp : m.Pairwise R) (i j : Nat) (hi : i < m.length) (hj : j < m.length) (hne : i ≠ j) :
    R m[i] m[j] := by
  have hp' := List.pairwise_iff_getElem.mp hp
  rcases Nat.lt_or_gt_of_ne hne with h | h
  · exact hp' i j hi hj h
  · exact hs _ _ (hp' j i hj hi h)

theorem pairwise_set {α : Type} {R : α → α → Prop} (hs : ∀ a b, R a b → R b a) {m : List α}
    (hp : m.Pairwise R) (i : Nat) (o' : α)
    (h : ∀ j (hj : j < m.length), j ≠ i → R o' m[j]) : (m.set i o').Pairwise R := by
  rw [List.pairwise_iff_getElem]
  intro a b ha hb hab
  simp only [List.length_set] at ha hb
  simp only [List.getElem_set]
  by_cases h1 : i = a
  · rw [if_pos h1]
    by_cases h2 : i = b
    · omega
    · rw [if_neg h2]
      exact h b hb (fun e => h2 e.symm)
  · rw [if_neg h1]
    by_cases h2 : i = b
    · rw [if_pos h2]
      exact hs _ _ (h a ha (fun e => h1 e.symm))
    · rw [if_neg h2]
      exact List.pairwise_iff_getElem.mp hp a b ha hb hab

theorem mem_insertAt {α : Type} (l : List α) (pos : Nat) (o x : α) :
    x ∈ insertAt l pos o ↔ x ∈ l ∨ x = o := by
  unfold insertAt
  rw [List.mem_append, List.mem_cons]
  constructor
  · rintro (h | h | h)
    · exact Or.inl (List.mem_of_mem_take h)
    · exact Or.inr h
    · exact Or.inl (List.mem_of_mem_drop h)
  · rintro (h | h)
    · have h' : x ∈ l.take pos ++ l.drop pos := by rw [List.take_append_drop]; exact h
      rcases List.mem_append.mp h' with h1 | h1
      · exact Or.inl h1
      · exact Or.inr (Or.inr h1)
    · exact Or.inr (Or.inl h)

theorem pairwise_insertAt {α : Type} {R : α → α → Prop} (hs : ∀ a b, R a b → R b a) {l : List α}
    (hp : l.Pairwise R) (pos : Nat) (o : α) (h : ∀ a ∈ l, R a o) : (insertAt l pos o).Pairwise R := by
  unfold insertAt
  rw [List.pairwise_append]
  refine ⟨hp.sublist (List.take_sublist _ _), ?_, ?_⟩
  · rw [List.pairwise_cons]
    exact ⟨fun a ha => hs _ _ (h a (List.mem_of_mem_drop ha)), hp.sublist (List.drop_sublist _ _)⟩
  · intro a ha b hb
    rcases List.mem_cons.mp hb with rfl | hb
    · exact h a (List.mem_of_mem_take ha)
    · have h' : (l.take pos ++ l.drop pos).Pairwise R := by rw [List.take_append_drop]; exact hp
      exact (List.pairwise_append.mp h').2.2 a ha b hb

theorem readN_succ (h : Heap) (s n : Nat) : readN h s (n + 1) = readN h s n ++ [h (s + n)] := by
  unfold readN
  rw [List.range_succ, List.map_append]
  rfl

theorem contentM_insertAt (hp : Heap) (l : List Obj) (pos : Nat) (o : Obj) :
    contentM hp (insertAt l pos o) = insertAt (contentM hp l) pos (o.kind, content hp o) := by
  unfold contentM insertAt
  rw [List.map_append, List.map_cons, List.map_take, List.map_drop]

/-- Replacing object `i`: the content list changes at position `i` only, when the other objects read the
same cells as before. -/
theorem contentM_set (hp hp' : Heap) (m : List Obj) (i : Nat) (o' : Obj)
    (hc : ∀ n (hn : n < m.length), n ≠ i → content hp' m[n] = content hp m[n]) :
    contentM hp' (m.set i o') = (contentM hp m).set i (o'.kind, content hp' o') := by
  apply List.ext_getElem
  · simp [contentM]
  · intro n h1 h2
    have hn : n < m.length := by simpa [contentM] using h1
    simp only [contentM, List.getElem_map, List.getElem_set]
    by_cases hin : i = n
    · simp only [hin, if_true]
    · simp only [hin, if_false]
      rw [hc n hn (fun e => hin e.symm)]

theorem UseDisj.symm {a b : Obj} (h : UseDisj a b) : UseDisj b a := by
  unfold UseDisj at *; omega

theorem DonDisj.symm {a b : Obj} (h : DonDisj a b) : DonDisj b a :=
  fun ea eb ha hb => (h eb ea hb ha).symm

/-! ### insertLive, ins -/

@[simp] theorem insertLive_heap (s : St) (d pos : Nat) (o : Obj) : (insertLive s d pos o).heap = s.heap := rfl
@[simp] theorem insertLive_same (s : St) (d pos : Nat) (o : Obj) :
    (insertLive s d pos o).live d = some (insertAt ((s.live d).getD []) pos o) := by simp [insertLive]
@[simp] theorem insertLive_other (s : St) (d pos h : Nat) (o : Obj) (hne : h ≠ d) :
    (insertLive s d pos o).live h = s.live h := by simp [insertLive, hne]

/-- Inserting into message `d` an object that is disjoint from the pool and from every live object. -/
theorem Inv.insert {s : St} (hi : Inv s) (d pos : Nat) (o : Obj)
    (hfit : o.start + o.cap ≤ s.next) (hlen : o.len ≤ o.cap)
    (hp : ∀ e ∈ s.pool, EntObjDisj e o)
    (hl : ∀ h m, s.live h = some m → ∀ o2 ∈ m, CapDisj o2 o) :
    Inv (insertLive s d pos o) := by
  have key : ∀ h m, (insertLive s d pos o).live h = some m →
      (h ≠ d ∧ s.live h = some m) ∨ (h = d ∧ m = insertAt ((s.live d).getD []) pos o) := by
    intro h m hm
    by_cases hd : h = d
    · subst hd
      right
      simp [insertLive] at hm
      exact ⟨rfl, hm.symm⟩
    · left
      simp [insertLive, hd] at hm
      exact ⟨hd, hm⟩
  have mem : ∀ h m, (insertLive s d pos o).live h = some m → ∀ o2 ∈ m,
      (∃ m0, s.live h = some m0 ∧ o2 ∈ m0) ∨ (h = d ∧ o2 = o) := by
    intro h m hm o2 ho2
    rcases key h m hm with ⟨_, h1⟩ | ⟨h1, h2⟩
    · exact Or.inl ⟨m, h1, ho2⟩
    · subst h2
      rcases (mem_insertAt _ _ _ _).mp ho2 with h3 | h3
      · subst h1; exact Or.inl (mem_getD h3)
      · right; exact ⟨h1, h3⟩
  refine ⟨hi.poolBelow, ?_, hi.poolSep, ?_, ?_, ?_, ?_⟩
  · intro h m hm o2 ho2
    rcases mem h m hm o2 ho2 with ⟨m0, h1, h2⟩ | ⟨_, rfl⟩
    · exact hi.liveBelow h m0 h1 o2 h2
    · exact ⟨hfit, hlen⟩
  · intro e he h m hm o2 ho2
    rcases mem h m hm o2 ho2 with ⟨m0, h1, h2⟩ | ⟨_, rfl⟩
    · exact hi.poolLive e he h m0 h1 o2 h2
    · exact hp e he
  · intro h1 h2 m1 m2 hne hm1 hm2 o1 ho1 o2 ho2
    rcases mem h1 m1 hm1 o1 ho1 with ⟨n1, a1, b1⟩ | ⟨a1, rfl⟩
    · rcases mem h2 m2 hm2 o2 ho2 with ⟨n2, a2, b2⟩ | ⟨a2, rfl⟩
      · exact hi.liveSep h1 h2 n1 n2 hne a1 a2 o1 b1 o2 b2
      · exact hl h1 n1 a1 o1 b1
    · rcases mem h2 m2 hm2 o2 ho2 with ⟨n2, a2, b2⟩ | ⟨a2, rfl⟩
      · exact (hl h2 n2 a2 o2 b2).symm
      · exact absurd (a1.trans a2.symm) hne
  · intro h m hm
    rcases key h m hm with ⟨_, h1⟩ | ⟨h1, h2⟩
    · exact hi.useSep h m h1
    · subst h2; subst h1
      apply pairwise_insertAt (fun _ _ => UseDisj.symm)
      · cases hq : s.live h with
        | none => simp
        | some m0 => exact hi.useSep h m0 hq
      · intro a ha
        obtain ⟨m0, h1, h2⟩ := mem_getD ha
        exact (hl h m0 h1 a h2).use (hi.liveBelow h m0 h1 a h2).2 hlen
  · intro h m hm
    rcases key h m hm with ⟨_, h1⟩ | ⟨h1, h2⟩
    · exact hi.donSep h m h1
    · subst h2; subst h1
      apply pairwise_insertAt (fun _ _ => DonDisj.symm)
      · cases hq : s.live h with
        | none => simp
        | some m0 => exact hi.donSep h m0 hq
      · intro a ha
        obtain ⟨m0, h1, h2⟩ := mem_getD ha
        exact (hl h m0 h1 a h2).don

/-- `mkObj` followed by `insertLive`: invariant, requested fields, frame. -/
theorem ins_spec (s : St) (d pos : Nat) (u : Bool) (k : Nat) (vals : List Nat) (hi : Inv s) :
    Inv (insertLive (mkObj s u k vals).1 d pos (mkObj s u k vals).2.1) ∧
    (mkObj s u k vals).1.live = s.live ∧
    (mkObj s u k vals).2.1.kind = k ∧
    content (mkObj s u k vals).1.heap (mkObj s u k vals).2.1 = vals ∧
    (∀ h m, s.live h = some m → ∀ o ∈ m, content (mkObj s u k vals).1.heap o = content s.heap o) := by
  obtain ⟨pool', next', st, cp, b, hacq, hsub, hn, hneed, hfit, hpool, hlive⟩ :=
    acquire_spec s u k vals.length hi
  have hm : mkObj s u k vals =
      ({ heap := writeL s.heap st vals, next := next', pool := pool', live := s.live },
       { kind := k, start := st, len := vals.length, cap := cp }, b) := by
    simp only [mkObj, hacq]
  rw [hm]
  refine ⟨?_, rfl, rfl, ?_, ?_⟩
  · apply (hi.shrink (writeL s.heap st vals) pool' next' hsub hn).insert d pos
    · exact hfit
    · exact hneed
    · intro e he
      have := hpool e he
      unfold EntObjDisj
      exact this
    · intro h m hm' o ho
      have := hlive h m hm' o ho
      unfold CapDisj
      exact this
  · exact readN_writeL_same s.heap st vals
  · intro h m hm' o ho
    exact content_writeL_disj s.heap st cp vals o (hi.liveBelow h m hm' o ho).2 hneed (hlive h m hm' o ho)

/-! ### grow -/

/-- Side condition of an in-place `append` to object `i` of message `h`: the cell it writes, the first
spare one, is not in use by a sibling object of the same message.  (In a message unpacked by `miekg/dns`
several address hints are sub-slices of one array; appending to one would overwrite the next.) -/
def GrowOk (s : St) (h i : Nat) : Prop :=
  ∀ m o, s.live h = some m → m[i]? = some o → o.len < o.cap →
    ∀ j (hj : j < m.length), j ≠ i →
      m[j].len = 0 ∨ o.start + o.len < m[j].start ∨ m[j].start + m[j].len ≤ o.start + o.len

instance (s : St) (h i : Nat) : Decidable (GrowOk s h i) :=
  match hm : s.live h with
  | none => isTrue (fun m o h1 => by rw [hm] at h1; cases h1)
  | some m =>
    match ho : m[i]? with
    | none => isTrue (fun m' o h1 h2 => by
        rw [hm] at h1; cases h1; rw [ho] at h2; cases h2)
    | some o =>
      if hlt : o.len < o.cap then
        decidable_of_iff (∀ j (hj : j < m.length), j ≠ i →
            m[j].len = 0 ∨ o.start + o.len < m[j].start ∨ m[j].start + m[j].len ≤ o.start + o.len)
          ⟨fun hall m' o' h1 h2 _ => by
              rw [hm] at h1; cases h1; rw [ho] at h2; cases h2; exact hall,
           fun hg => hg m o hm ho hlt⟩
      else isTrue (fun m' o' h1 h2 h3 => by
        rw [hm] at h1; cases h1; rw [ho] at h2; cases h2; exact absurd h3 hlt)

/-- Replacing object `i` of the live message `h` by `o'` (any heap, more cells allocated, same pool). -/
theorem Inv.setObj {s : St} (hi : Inv s) (hp : Heap) (next' h i : Nat) (m : List Obj) (o' : Obj)
    (hm : s.live h = some m) (hn : s.next ≤ next')
    (hfit : o'.start + o'.cap ≤ next') (hlen : o'.len ≤ o'.cap)
    (hpool : ∀ e ∈ s.pool, EntObjDisj e o')
    (hlive : ∀ h2 m2, h2 ≠ h → s.live h2 = some m2 → ∀ o2 ∈ m2, CapDisj o' o2)
    (hu : ∀ j (hj : j < m.length), j ≠ i → UseDisj o' m[j])
    (hd : ∀ j (hj : j < m.length), j ≠ i → DonDisj o' m[j]) :
    Inv { heap := hp, next := next', pool := s.pool, live := setLive s.live h (some (m.set i o')) } := by
  have mem : ∀ h2 m2, setLive s.live h (some (m.set i o')) h2 = some m2 → ∀ o2 ∈ m2,
      (h2 = h ∧ o2 = o') ∨ (∃ m0, s.live h2 = some m0 ∧ o2 ∈ m0) := by
    intro h2 m2 hm2 o2 ho2
    rcases setLive_some hm2 with ⟨a1, b1⟩ | ⟨a1, b1⟩
    · cases b1
      rcases List.mem_or_eq_of_mem_set ho2 with h3 | h3
      · exact Or.inr ⟨m, a1 ▸ hm, h3⟩
      · exact Or.inl ⟨a1, h3⟩
    · exact Or.inr ⟨m2, b1, ho2⟩
  refine ⟨?_, ?_, hi.poolSep, ?_, ?_, ?_, ?_⟩
  · intro e he
    have := hi.poolBelow e he
    show e.start + e.size ≤ next'
    omega
  · intro h2 m2 hm2 o2 ho2
    show o2.start + o2.cap ≤ next' ∧ o2.len ≤ o2.cap
    rcases mem h2 m2 hm2 o2 ho2 with ⟨_, rfl⟩ | ⟨m0, a1, b1⟩
    · exact ⟨hfit, hlen⟩
    · have := hi.liveBelow h2 m0 a1 o2 b1
      omega
  · intro e he h2 m2 hm2 o2 ho2
    rcases mem h2 m2 hm2 o2 ho2 with ⟨_, rfl⟩ | ⟨m0, a1, b1⟩
    · exact hpool e he
    · exact hi.poolLive e he h2 m0 a1 o2 b1
  · intro h1 h2 m1 m2 hne hm1 hm2 o1 ho1 o2 ho2
    rcases mem h1 m1 hm1 o1 ho1 with ⟨a1, rfl⟩ | ⟨n1, a1, b1⟩
    · rcases mem h2 m2 hm2 o2 ho2 with ⟨a2, rfl⟩ | ⟨n2, a2, b2⟩
      · exact absurd (a1.trans a2.symm) hne
      · exact hlive h2 n2 (fun e => hne (a1.trans e.symm)) a2 o2 b2
    · rcases mem h2 m2 hm2 o2 ho2 with ⟨a2, rfl⟩ | ⟨n2, a2, b2⟩
      · exact (hlive h1 n1 (fun e => hne (e.trans a2.symm)) a1 o1 b1).symm
      · exact hi.liveSep h1 h2 n1 n2 hne a1 a2 o1 b1 o2 b2
  · intro h2 m2 hm2
    rcases setLive_some hm2 with ⟨_, b1⟩ | ⟨_, b1⟩
    · cases b1
      exact pairwise_set (fun _ _ => UseDisj.symm) (hi.useSep h m hm) i o' hu
    · exact hi.useSep h2 m2 b1
  · intro h2 m2 hm2
    rcases setLive_some hm2 with ⟨_, b1⟩ | ⟨_, b1⟩
    · cases b1
      exact pairwise_set (fun _ _ => DonDisj.symm) (hi.donSep h m hm) i o' hd
    · exact hi.donSep h2 m2 b1

/-- `grow`: invariant, other messages keep their objects, and what those objects hold. -/
theorem grow_spec (s : St) (h i v c : Nat) (hi : Inv s) (hok : GrowOk s h i) :
    Inv (grow s h i v c) ∧
    (∀ h2, h2 ≠ h → (grow s h i v c).live h2 = s.live h2) ∧
    (∀ h2 m2, h2 ≠ h → s.live h2 = some m2 → ∀ o2 ∈ m2,
      content (grow s h i v c).heap o2 = content s.heap o2) := by
  unfold grow
  split
  · exact ⟨hi, fun _ _ => rfl, fun _ _ _ _ _ _ => rfl⟩
  · rename_i m hq
    split
    · exact ⟨hi, fun _ _ => rfl, fun _ _ _ _ _ _ => rfl⟩
    · rename_i o hg
      have hil : i < m.length := (List.getElem?_eq_some_iff.mp hg).1
      have hio : m[i] = o := (List.getElem?_eq_some_iff.mp hg).2
      have ho : o ∈ m := List.mem_of_getElem? hg
      have hb := hi.liveBelow h m hq o ho
      split
      · rename_i hlt
        refine ⟨?_, fun h2 hne => setLive_other _ _ _ _ hne, ?_⟩
        · apply hi.setObj _ s.next h i m _ hq (Nat.le_refl _)
          · exact hb.1
          · show o.len + 1 ≤ o.cap
            omega
          · intro e he
            exact hi.poolLive e he h m hq o ho
          · intro h2 m2 hne hm2 o2 ho2
            exact hi.liveSep h h2 m m2 (Ne.symm hne) hq hm2 o ho o2 ho2
          · intro j hj hne
            have h1 := pairwise_get (fun _ _ => UseDisj.symm) (hi.useSep h m hq) i j hil hj (Ne.symm hne)
            rw [hio] at h1
            have h2 := hok m o hq hg hlt j hj hne
            unfold UseDisj at *
            show o.len + 1 = 0 ∨ m[j].len = 0 ∨ o.start + (o.len + 1) ≤ m[j].start ∨ m[j].start + m[j].len ≤ o.start
            omega
          · intro j hj hne
            have h1 := pairwise_get (fun _ _ => DonDisj.symm) (hi.donSep h m hq) i j hil hj (Ne.symm hne)
            rw [hio] at h1
            exact h1
        · intro h2 m2 hne hm2 o2 ho2
          have h1 := hi.liveSep h h2 m m2 (Ne.symm hne) hq hm2 o ho o2 ho2
          have h3 := hi.liveBelow h2 m2 hm2 o2 ho2
          unfold CapDisj at h1
          show content (writeL s.heap (o.start + o.len) [v]) o2 = content s.heap o2
          unfold content
          apply readN_writeL_disj
          simp only [List.length_singleton]
          omega
      · refine ⟨?_, fun h2 hne => setLive_other _ _ _ _ hne, ?_⟩
        · apply hi.setObj _ (s.next + max c (o.len + 1)) h i m _ hq (Nat.le_add_right _ _)
          · exact Nat.le_refl _
          · exact Nat.le_max_right _ _
          · intro e he
            have := hi.poolBelow e he
            unfold EntObjDisj
            show e.size = 0 ∨ max c (o.len + 1) = 0 ∨ e.start + e.size ≤ s.next ∨ _
            omega
          · intro h2 m2 hne hm2 o2 ho2
            have := hi.liveBelow h2 m2 hm2 o2 ho2
            unfold CapDisj
            show max c (o.len + 1) = 0 ∨ o2.cap = 0 ∨ _ ∨ o2.start + o2.cap ≤ s.next
            omega
          · intro j hj hne
            have := hi.liveBelow h m hq m[j] (List.getElem_mem hj)
            unfold UseDisj
            show o.len + 1 = 0 ∨ m[j].len = 0 ∨ _ ∨ m[j].start + m[j].len ≤ s.next
            omega
          · intro j hj hne ea eb ha hb'
            have h1 := donate_inside _ ea ha
            have h2 := donate_inside _ eb hb'
            have := hi.liveBelow h m hq m[j] (List.getElem_mem hj)
            replace h1 : ea.start = s.next := h1.1
            unfold EntDisj
            omega
        · intro h2 m2 hne hm2 o2 ho2
          have h3 := hi.liveBelow h2 m2 hm2 o2 ho2
          show content (writeL s.heap s.next (content s.heap o ++ [v])) o2 = content s.heap o2
          unfold content
          apply readN_writeL_disj
          omega

/-- `append` on what the holder sees. -/
def growView (l : List (Nat × List Nat)) (i v : Nat) : List (Nat × List Nat) :=
  match l[i]? with
  | none => l
  | some kc => l.set i (kc.1, kc.2 ++ [v])

theorem grow_none (s : St) (h i v c : Nat) (hm : s.live h = none) : grow s h i v c = s := by
  unfold grow
  rw [hm]

/-- `grow` on the content of its target: one value more at the end of object `i`, in place or not. -/
theorem grow_content (s : St) (h i v c : Nat) (m : List Obj) (hi : Inv s) (hok : GrowOk s h i)
    (hm : s.live h = some m) :
    ∃ m', (grow s h i v c).live h = some m' ∧
      contentM (grow s h i v c).heap m' = growView (contentM s.heap m) i v := by
  unfold grow growView
  rw [hm]
  simp only [contentM, List.getElem?_map]
  cases hg : m[i]? with
  | none => exact ⟨m, hm, rfl⟩
  | some o =>
    have hil : i < m.length := (List.getElem?_eq_some_iff.mp hg).1
    have ho : o ∈ m := List.mem_of_getElem? hg
    simp only [Option.map_some]
    by_cases hlt : o.len < o.cap
    · rw [if_pos hlt]
      refine ⟨_, setLive_same _ _ _, ?_⟩
      show contentM (writeL s.heap (o.start + o.len) [v]) (m.set i { o with len := o.len + 1 }) = _
      rw [contentM_set s.heap]
      · show (contentM s.heap m).set i
          (o.kind, readN (writeL s.heap (o.start + o.len) [v]) o.start (o.len + 1)) = _
        rw [readN_succ, readN_writeL_disj _ _ _ _ _ (by omega)]
        have : writeL s.heap (o.start + o.len) [v] (o.start + o.len) = v :=
          writeL_in s.heap (o.start + o.len) [v] 0 (by simp)
        rw [this]
        rfl
      · intro n hn hne
        have h2 := hok m o hm hg hlt n hn hne
        unfold content
        apply readN_writeL_disj
        simp only [List.length_singleton]
        omega
    · rw [if_neg hlt]
      refine ⟨_, setLive_same _ _ _, ?_⟩
      show contentM (writeL s.heap s.next (content s.heap o ++ [v]))
        (m.set i { kind := o.kind, start := s.next, len := o.len + 1, cap := max c (o.len + 1) }) = _
      rw [contentM_set s.heap]
      · show (contentM s.heap m).set i
          (o.kind, readN (writeL s.heap s.next (content s.heap o ++ [v])) s.next (o.len + 1)) = _
        have hl : o.len + 1 = (content s.heap o ++ [v]).length := by
          simp [content, readN_length]
        rw [hl, readN_writeL_same]
        rfl
      · intro n hn hne
        have := hi.liveBelow h m hm m[n] (List.getElem_mem hn)
        unfold content
        apply readN_writeL_disj
        omega

/-! ### spare capacity is not shared between messages -/

theorem overlapCap_false {a b : Obj} (h : CapDisj a b) : overlapCap a b = false := by
  unfold CapDisj at h
  simp only [overlapCap, disj, Bool.not_eq_false', Bool.or_eq_true, beq_iff_eq, decide_eq_true_eq]
  omega

theorem anyCapAlias_false (s : St) (hi : Inv s) (n : Nat) : anyCapAlias s n = false := by
  unfold anyCapAlias
  rw [List.any_eq_false]
  intro h1 _
  rw [Bool.not_eq_true, List.any_eq_false]
  intro h2 _
  rw [Bool.not_eq_true]
  by_cases hne : h1 = h2
  · simp [hne]
  · rw [Bool.and_eq_false_iff]
    right
    rw [List.any_eq_false]
    intro o1 ho1
    rw [Bool.not_eq_true, List.any_eq_false]
    intro o2 ho2
    obtain ⟨m1, a1, b1⟩ := mem_getD ho1
    obtain ⟨m2, a2, b2⟩ := mem_getD ho2
    rw [overlapCap_false (hi.liveSep h1 h2 m1 m2 hne a1 a2 o1 b1 o2 b2)]
    simp

end Agd.Pools
