import Agd.Model.Cache
/-! Helper lemmas for C04 (response caches). -/
namespace Agd.Cache

/-! ### `findLowestTTL` is below every record's own TTL -/

theorem ttlIfLower_le (r : RR) (t : Nat) : ttlIfLower r t ≤ t := by
  unfold ttlIfLower
  split
  · exact Nat.le_refl _
  · split
    · rename_i h; have := Nat.min_le_right r.ttl r.soaMin; omega
    · exact Nat.min_le_right _ _

theorem ttlIfLower_le_ttl (r : RR) (t : Nat) (h : r.typ ≠ typOPT) : ttlIfLower r t ≤ r.ttl := by
  unfold ttlIfLower
  rw [if_neg h]
  split
  · exact Nat.min_le_left _ _
  · exact Nat.min_le_left _ _

theorem lowestRaw_le (rs : List RR) (t : Nat) : lowestRaw rs t ≤ t := by
  induction rs generalizing t with
  | nil => exact Nat.le_refl _
  | cons r rs ih => exact Nat.le_trans (ih _) (ttlIfLower_le r t)

theorem lowestRaw_le_mem (rs : List RR) (t : Nat) (r : RR) (hr : r ∈ rs) (h : r.typ ≠ typOPT) :
    lowestRaw rs t ≤ r.ttl := by
  induction rs generalizing t with
  | nil => cases hr
  | cons x xs ih =>
    cases hr with
    | head => exact Nat.le_trans (lowestRaw_le xs _) (ttlIfLower_le_ttl r t h)
    | tail _ hm => exact ih _ hm

/-- The lifetime computed for a message never exceeds the TTL of any of its (non-OPT) records. -/
theorem findLowest_le_mem (m : Msg) (r : RR) (hr : r ∈ allRRs m) (h : r.typ ≠ typOPT) :
    findLowestTTL m ≤ r.ttl := by
  have hl := lowestRaw_le_mem (allRRs m) maxU32 r hr h
  unfold findLowestTTL
  split
  · rename_i hc; unfold servFailMaxTTL at *; omega
  · split
    · exact Nat.zero_le _
    · exact hl

/-- A SERVFAIL answer lives 30 s at most. -/
theorem findLowest_servfail_le (m : Msg) (h : m.rcode = rcServFail) : findLowestTTL m ≤ servFailMaxTTL := by
  unfold findLowestTTL
  split
  · exact Nat.le_refl _
  · rename_i hc
    split
    · exact Nat.zero_le _
    · have : ¬ servFailMaxTTL < lowestRaw (allRRs m) maxU32 := fun hlt => hc ⟨h, hlt⟩
      omega

/-! ### The TTL of a served item -/

theorem simpleTTL_eq (low age : Nat) : simpleTTL low age = leftRounded low age := by
  unfold simpleTTL leftRounded sec
  split <;> split <;> omega

/-- Go's `roundDiv` on a non-negative duration and one second is rounding to nearest, half up. -/
theorem roundDiv_pos (n : Nat) : roundDiv (n : Int) (1000000000 : Int) = (((n + 500000000) / 1000000000 : Nat) : Int) := by
  unfold roundDiv
  have h1 : decide ((n : Int) < 0) = false := by simp
  have h2 : decide ((1000000000 : Int) < 0) = false := by decide
  rw [h1, h2]
  simp only [if_true]
  have h3 : (1000000000 : Int).tdiv 2 = 500000000 := by decide
  rw [h3, Int.tdiv_eq_ediv_of_nonneg (by omega)]
  omega

theorem ecsTTL_eq (low age : Nat) : ecsTTL low age = leftRounded low age := by
  unfold ecsTTL leftRounded sec
  by_cases h : age < low * 1000000000
  · have hpos : 0 < (low : Int) * ((1000000000 : Nat) : Int) - (age : Int) := by omega
    have hcast : (low : Int) * ((1000000000 : Nat) : Int) - (age : Int) = ((low * 1000000000 - age : Nat) : Int) := by omega
    rw [if_pos hpos, if_pos h, hcast]
    have := roundDiv_pos (low * 1000000000 - age)
    have e : ((1000000000 : Nat) : Int) = (1000000000 : Int) := rfl
    rw [e, this, Int.toNat_natCast]
  · have hneg : ¬ 0 < (low : Int) * ((1000000000 : Nat) : Int) - (age : Int) := by omega
    rw [if_neg hneg, if_neg h]

theorem leftRounded_mono (a b age : Nat) (h : a ≤ b) : leftRounded a age ≤ leftRounded b age := by
  unfold leftRounded sec
  split <;> split <;> omega

theorem leftRounded_le (t age : Nat) : leftRounded t age ≤ t := by
  unfold leftRounded sec
  split <;> omega

theorem leftRounded_expired (t age : Nat) (h : t * sec ≤ age) : leftRounded t age = 0 := by
  unfold leftRounded
  rw [if_neg (by omega)]

/-- Later means less: the served TTL never grows with the age. -/
theorem leftRounded_anti (t a b : Nat) (h : a ≤ b) : leftRounded t b ≤ leftRounded t a := by
  unfold leftRounded sec
  split <;> split <;> omega

/-! ### Records modulo TTL, OPT excluded -/

/-- What the property compares: the records without OPT pseudo-records, TTLs masked. -/
def strip (rs : List RR) : List RR := (rs.filter (fun x => x.typ ≠ typOPT)).map (setTTL 0)

theorem strip_map_setTTL (t : Nat) (rs : List RR) : strip (rs.map (setTTL t)) = strip rs := by
  induction rs with
  | nil => rfl
  | cons r rs ih =>
    unfold strip at *
    by_cases h : r.typ = typOPT
    · simp [List.filter, setTTL, h] at *; exact ih
    · simp [List.filter, setTTL, h] at *; exact ih

theorem strip_map_raiseTTL (t : Nat) (rs : List RR) : strip (rs.map (raiseTTL t)) = strip rs := by
  induction rs with
  | nil => rfl
  | cons r rs ih =>
    unfold strip at *
    by_cases h : r.typ = typOPT
    · simp [List.filter, raiseTTL, h] at *; exact ih
    · simp [List.filter, raiseTTL, setTTL, h] at *; exact ih

theorem strip_filter_nonOPT (rs : List RR) : strip (rs.filter (fun x => x.typ ≠ typOPT)) = strip rs := by
  unfold strip
  rw [List.filter_filter]
  congr 1
  apply List.filter_congr
  intro x _
  simp

/-! ### Store frame lemmas -/

@[simp] theorem put_same (s : Store) (k : Key) (e : Entry) : (s.put k e) k = some e := by
  simp [Store.put]

@[simp] theorem put_other (s : Store) (k k' : Key) (e : Entry) (h : k' ≠ k) : (s.put k e) k' = s k' := by
  simp [Store.put, h]

@[simp] theorem del_same (s : Store) (k : Key) : (s.del k) k = none := by simp [Store.del]

@[simp] theorem del_other (s : Store) (k k' : Key) (h : k' ≠ k) : (s.del k) k' = s k' := by
  simp [Store.del, h]

theorem live_some (s : Store) (now : Nat) (k : Key) (e : Entry) (h : s.live now k = some e) :
    s k = some e ∧ now ≤ e.expAt := by
  unfold Store.live at h
  split at h
  · rename_i e' he
    split at h
    · rename_i hle; cases h; exact ⟨he, hle⟩
    · cases h
  · cases h

theorem live_put_other (s : Store) (now : Nat) (k k' : Key) (e : Entry) (h : k' ≠ k) :
    (s.put k e).live now k' = s.live now k' := by
  simp [Store.live, put_other s k k' e h]

/-! ### `prepStore` -/

/-- Facts about what `set` stores. -/
theorem prepStore_some (cfg : Cfg) (qt : Nat) (m : Msg) (life : Nat)
    (h : (prepStore cfg qt m).2 = some life) :
    findLowestTTL m ≠ 0 ∧ isCacheable qt m = true ∧
    life ≤ max (findLowestTTL m * sec) cfg.minTTL ∧ findLowestTTL m * sec ≤ life ∧
    ((cfg.override = false ∨ m.rcode = rcServFail) → life = findLowestTTL m * sec ∧ (prepStore cfg qt m).1 = m) := by
  unfold prepStore at h ⊢
  split at h
  · cases h
  · rename_i hc
    have h1 : findLowestTTL m ≠ 0 := fun h0 => hc (Or.inl h0)
    have h2 : isCacheable qt m = true := by
      cases hcb : isCacheable qt m
      · exact absurd (Or.inr hcb) hc
      · rfl
    split at h
    · rename_i ho
      cases h
      refine ⟨h1, h2, Nat.le_refl _, Nat.le_max_left _ _, ?_⟩
      intro hor
      rcases hor with hf | hs
      · rw [ho.1] at hf; cases hf
      · exact absurd hs ho.2
    · rename_i ho
      cases h
      refine ⟨h1, h2, Nat.le_max_left _ _, Nat.le_refl _, ?_⟩
      intro _
      rw [if_neg hc, if_neg ho]
      exact ⟨rfl, rfl⟩

/-- `set` changes answer-section TTLs only. -/
theorem prepStore_shape (cfg : Cfg) (qt : Nat) (m : Msg) :
    ∃ ans, (prepStore cfg qt m).1 = { m with answer := ans } ∧ strip ans = strip m.answer ∧
      ans.length = m.answer.length := by
  unfold prepStore
  split
  · exact ⟨m.answer, rfl, rfl, rfl⟩
  · split
    · exact ⟨_, rfl, strip_map_raiseTTL _ _, by simp⟩
    · exact ⟨m.answer, rfl, rfl, rfl⟩

/-! ### `isCacheable` -/

theorem ansScan_one (qt : Nat) (rs : List RR) (h : ansScan qt rs = 1) : ∃ r ∈ rs, r.typ = qt := by
  induction rs with
  | nil => simp [ansScan] at h
  | cons r rs ih =>
    unfold ansScan at h
    split at h
    · rename_i hq; exact ⟨r, List.mem_cons_self, hq⟩
    · split at h
      · obtain ⟨x, hx, hxt⟩ := ih h; exact ⟨x, List.mem_cons_of_mem _ hx, hxt⟩
      · cases h

theorem hasSOA_true (rs : List RR) (h : hasSOA rs = true) : ∃ r ∈ rs, r.typ = typSOA := by
  induction rs with
  | nil => simp [hasSOA] at h
  | cons r rs ih =>
    unfold hasSOA at h
    split at h
    · rename_i hq; exact ⟨r, List.mem_cons_self, hq⟩
    · obtain ⟨x, hx, hxt⟩ := ih h; exact ⟨x, List.mem_cons_of_mem _ hx, hxt⟩

/-- What `isCacheable` admits: complete (not truncated, one question) NOERROR answers holding a
record of the asked type, NODATA answers with an SOA in the authority section, NXDOMAIN, SERVFAIL. -/
theorem cacheable_sound (qt : Nat) (m : Msg) (h : isCacheable qt m = true) :
    m.tc = false ∧ m.nq = 1 ∧
    (m.rcode = rcSuccess ∨ m.rcode = rcNameError ∨ m.rcode = rcServFail) ∧
    (m.rcode = rcSuccess → (∃ r ∈ m.answer, r.typ = qt) ∨ (∃ r ∈ m.ns, r.typ = typSOA)) := by
  unfold isCacheable at h
  split at h
  · cases h
  · rename_i hc
    have htc : m.tc = false := by cases ht : m.tc <;> simp_all
    have hnq : m.nq = 1 := by
      cases Nat.decEq m.nq 1 with
      | isTrue h1 => exact h1
      | isFalse h1 => exact absurd (Or.inr h1) hc
    split at h
    · rename_i hr
      refine ⟨htc, hnq, Or.inl hr, fun _ => ?_⟩
      unfold cacheableNoErr at h
      split at h
      · rename_i h1; exact Or.inl (ansScan_one _ _ h1)
      · split at h
        · cases h
        · exact Or.inr (hasSOA_true _ h)
    · rename_i hr
      split at h
      · rename_i hr2
        refine ⟨htc, hnq, Or.inr hr2, fun h0 => absurd h0 hr⟩
      · cases h

end Agd.Cache
