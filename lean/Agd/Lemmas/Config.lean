import Agd.Model.Config
/-! Helper lemmas for C20: the combinators of the validation model. -/
namespace Agd.Config

@[simp] theorem firstOf_nil : firstOf [] = [] := rfl
@[simp] theorem firstOf_cons_nil (r : List (List Err)) : firstOf ([] :: r) = firstOf r := rfl
@[simp] theorem firstOf_cons_cons (e : Err) (es : List Err) (r : List (List Err)) :
    firstOf ((e :: es) :: r) = e :: es := rfl

/-- Nothing reported ⇔ every check passed. -/
theorem firstOf_eq_nil (l : List (List Err)) : firstOf l = [] ↔ ∀ x ∈ l, x = [] := by
  induction l with
  | nil => simp
  | cons x r ih =>
    cases x with
    | nil => simp [ih]
    | cons e es => simp

@[simp] theorem firstOf_cons_eq_nil (x : List Err) (r : List (List Err)) :
    firstOf (x :: r) = [] ↔ x = [] ∧ firstOf r = [] := by
  rw [firstOf_eq_nil, firstOf_eq_nil]; simp

/-- Whatever is reported comes from one of the checks. -/
theorem mem_firstOf {e : Err} {l : List (List Err)} (h : e ∈ firstOf l) : e ∈ l.flatten := by
  induction l with
  | nil => simp at h
  | cons x r ih =>
    cases x with
    | nil => simpa using ih (by simpa using h)
    | cons a as => simp at h ⊢; rcases h with h | h <;> simp [h]

@[simp] theorem sect_eq_nil (p : Bool) (f : F) (cs : List (List Err)) :
    sect p f cs = [] ↔ p = true ∧ firstOf cs = [] := by
  unfold sect; cases p <;> simp

theorem mem_sect {e : Err} {p : Bool} {f : F} {cs : List (List Err)} (h : e ∈ sect p f cs) :
    (p = false ∧ e = (f, .noValue)) ∨ (p = true ∧ e ∈ cs.flatten) := by
  unfold sect at h
  cases p with
  | false => simp at h; simp [h]
  | true => simp at h; exact Or.inr ⟨rfl, mem_firstOf h⟩

@[simp] theorem pos_eq_nil (f : F) (v : Int) : pos f v = [] ↔ 0 < v := by
  unfold pos; split <;> simp <;> omega

@[simp] theorem mem_pos (e : Err) (f : F) (v : Int) : e ∈ pos f v ↔ v ≤ 0 ∧ e = (f, .notPositive) := by
  unfold pos; split <;> simp [*]

@[simp] theorem posInt_false (f : F) (v : Int) : posInt false f v = pos f v := by simp [posInt]
@[simp] theorem posInt_true (f : F) (v : Int) : posInt true f v = [] := by simp [posInt]

@[simp] theorem nonNeg_eq_nil (f : F) (v : Int) : nonNeg f v = [] ↔ 0 ≤ v := by
  unfold nonNeg; split <;> simp <;> omega

@[simp] theorem mem_nonNeg (e : Err) (f : F) (v : Int) : e ∈ nonNeg f v ↔ v < 0 ∧ e = (f, .negative) := by
  unfold nonNeg; split <;> simp [*]

@[simp] theorem atMost_eq_nil (f : F) (v hi : Int) : atMost f v hi = [] ↔ v ≤ hi := by
  unfold atMost; split <;> simp <;> omega

@[simp] theorem mem_atMost (e : Err) (f : F) (v hi : Int) : e ∈ atMost f v hi ↔ hi < v ∧ e = (f, .range) := by
  unfold atMost; split <;> simp [*] <;> omega

@[simp] theorem missing_eq_nil (p : Bool) (f : F) : missing p f = [] ↔ p = true := by
  unfold missing; cases p <;> simp

@[simp] theorem mem_missing (e : Err) (p : Bool) (f : F) : e ∈ missing p f ↔ p = false ∧ e = (f, .empty) := by
  unfold missing; cases p <;> simp

@[simp] theorem valPorts_eq_nil (a b : F) (h q t : Int) :
    valPorts a b h q t = [] ↔ ¬ (h ≠ 0 ∧ h = t) ∧ ¬ (h = 0 ∧ q = 0 ∧ t = 0) := by
  unfold valPorts
  by_cases hc : h ≠ 0 ∧ h = t
  · rw [if_pos hc]
    constructor
    · intro x; cases x
    · intro x; exact absurd hc x.1
  · rw [if_neg hc]
    by_cases hz : h = 0 ∧ q = 0 ∧ t = 0
    · rw [if_pos hz]
      constructor
      · intro x; cases x
      · intro x; exact absurd hz x.2
    · rw [if_neg hz]; exact ⟨fun _ => ⟨hc, hz⟩, fun _ => rfl⟩

theorem mem_valPorts (e : Err) (a b : F) (h q t : Int) :
    e ∈ valPorts a b h q t ↔ ((h ≠ 0 ∧ h = t) ∧ e = (b, .cross)) ∨
      (¬ (h ≠ 0 ∧ h = t) ∧ (h = 0 ∧ q = 0 ∧ t = 0) ∧ e = (a, .allZero)) := by
  unfold valPorts
  by_cases hc : h ≠ 0 ∧ h = t
  · rw [if_pos hc, List.mem_singleton]
    constructor
    · intro x; exact Or.inl ⟨hc, x⟩
    · rintro (⟨_, x⟩ | ⟨n, _⟩)
      · exact x
      · exact absurd hc n
  · rw [if_neg hc]
    by_cases hz : h = 0 ∧ q = 0 ∧ t = 0
    · rw [if_pos hz, List.mem_singleton]
      constructor
      · intro x; exact Or.inr ⟨hc, hz, x⟩
      · rintro (⟨y, _⟩ | ⟨_, _, x⟩)
        · exact absurd y hc
        · exact x
    · rw [if_neg hz]
      constructor
      · intro x; cases x
      · rintro (⟨y, _⟩ | ⟨_, y, _⟩)
        · exact absurd y hc
        · exact absurd y hz

@[simp] theorem ite_cons_eq_nil (p : Prop) [Decidable p] (a : List Err) (e : Err) (es : List Err) :
    (if p then a else e :: es) = [] ↔ p ∧ a = [] := by
  split <;> simp [*]

/-- Exact membership in a first-error list: reported by the head, or the head passed and the
rest reports it. -/
@[simp] theorem valSrvProto_eq_nil (fp fd : F) (p : String) :
    valSrvProto fp fd p = [] ↔ knownProto p = true ∧ p ≠ "dnscrypt" := by
  unfold valSrvProto
  split
  · simp_all
  · split <;> simp_all

@[simp] theorem mem_valSrvProto (e : Err) (fp fd : F) (p : String) :
    e ∈ valSrvProto fp fd p ↔
      (knownProto p = false ∧ e = (fp, .enum)) ∨ (knownProto p = true ∧ p = "dnscrypt" ∧ e = (fd, .cross)) := by
  unfold valSrvProto
  split
  · simp_all
  · split <;> simp_all

@[simp] theorem valTls_eq_nil (c : Config) : valTls c = [] ↔ c.pTls = needsTls c := by
  unfold valTls sect; cases needsTls c <;> cases c.pTls <;> simp

@[simp] theorem mem_valTls (e : Err) (c : Config) :
    e ∈ valTls c ↔ (needsTls c = true ∧ c.pTls = false ∧ e = (.sgTls, .noValue)) ∨
      (needsTls c = false ∧ c.pTls = true ∧ e = (.sgTls, .cross)) := by
  unfold valTls sect; cases needsTls c <;> cases c.pTls <;> simp

theorem mem_firstOf_cons (e : Err) (x : List Err) (r : List (List Err)) :
    e ∈ firstOf (x :: r) ↔ e ∈ x ∨ (x = [] ∧ e ∈ firstOf r) := by
  cases x with
  | nil => simp
  | cons a as => simp

theorem mem_sect_iff (e : Err) (p : Bool) (f : F) (cs : List (List Err)) :
    e ∈ sect p f cs ↔ (p = false ∧ e = (f, .noValue)) ∨ (p = true ∧ e ∈ firstOf cs) := by
  unfold sect; cases p <;> simp

theorem valKv_eq_nil (c : Config) : valKv c = [] ↔
    c.pKv = true ∧ ((c.kvType = "backend" ∧ 0 < c.kvTtl) ∨ c.kvType = "cache" ∨
      (c.kvType = "consul" ∧ consulMin ≤ c.kvTtl ∧ c.kvTtl ≤ consulMax) ∨
      (c.kvType = "redis" ∧ redisMin ≤ c.kvTtl)) := by
  unfold valKv
  simp only [sect_eq_nil, firstOf_cons_eq_nil, firstOf_nil, and_true]
  by_cases h1 : c.kvType = "backend"
  · simp [h1]
  · by_cases h2 : c.kvType = "cache"
    · simp [h2]
    · by_cases h3 : c.kvType = "consul"
      · simp [h3]
      · by_cases h4 : c.kvType = "redis"
        · simp [h4]
        · simp [h1, h2, h3, h4]

set_option maxHeartbeats 4000000 in
/-- Everything an accepted configuration satisfies, as one conjunction of plain facts. -/
theorem accepted_meets (c : Config) (h : validate false c = []) (f : F) : violates c f = false := by
  simp [validate, valRatelimit, valAllow, valConn, valOpts, valKeyLen, valUpstream, valCache, valDnsdb,
    valDns, valBackend, valGeo, valKv_eq_nil, valCheck, valWeb, valSb, valFilters, valIface, valNetwork,
    valQueryLog, valFltGroups, valSrvGroups, valConnCheck, valAccess, valConnN] at h
  cases f <;> simp [violates] <;> first | omega | (simp_all; done) | (simp_all; omega) | grind

/-! ### "The reported property is an offending one", section by section -/

theorem names_ratelimit (c : Config) (f : F) (k : Kind) (h : (f, k) ∈ valRatelimit false c) :
    violates c f = true := by
  simp [valRatelimit, valAllow, valConn, valOpts, valKeyLen, mem_firstOf_cons, mem_sect_iff] at h
  cases f <;> simp [violates] at h ⊢ <;> first | omega | (simp_all; done) | (simp_all; omega) | grind

theorem names_upstream (c : Config) (f : F) (k : Kind) (h : (f, k) ∈ valUpstream c) :
    violates c f = true := by
  simp [valUpstream, mem_firstOf_cons, mem_sect_iff] at h
  cases f <;> simp [violates] at h ⊢ <;> first | omega | (simp_all; done) | (simp_all; omega) | grind

theorem names_cache (c : Config) (f : F) (k : Kind) (h : (f, k) ∈ valCache false c) :
    violates c f = true := by
  simp [valCache, mem_firstOf_cons, mem_sect_iff] at h
  cases f <;> simp [violates] at h ⊢ <;> first | omega | (simp_all; done) | (simp_all; omega) | grind

theorem names_dnsdb (c : Config) (f : F) (k : Kind) (h : (f, k) ∈ valDnsdb c) :
    violates c f = true := by
  simp [valDnsdb, mem_firstOf_cons, mem_sect_iff] at h
  cases f <;> simp [violates] at h ⊢ <;> first | omega | (simp_all; done) | (simp_all; omega) | grind

theorem names_dns (c : Config) (f : F) (k : Kind) (h : (f, k) ∈ valDns c) :
    violates c f = true := by
  simp [valDns, mem_firstOf_cons, mem_sect_iff] at h
  cases f <;> simp [violates] at h ⊢ <;> first | omega | (simp_all; done) | (simp_all; omega) | grind

theorem names_backend (c : Config) (f : F) (k : Kind) (h : (f, k) ∈ valBackend c) :
    violates c f = true := by
  simp [valBackend, mem_firstOf_cons, mem_sect_iff] at h
  cases f <;> simp [violates] at h ⊢ <;> first | omega | (simp_all; done) | (simp_all; omega) | grind

theorem names_geo (c : Config) (f : F) (k : Kind) (h : (f, k) ∈ valGeo c) :
    violates c f = true := by
  simp [valGeo, mem_firstOf_cons, mem_sect_iff] at h
  cases f <;> simp [violates] at h ⊢ <;> first | omega | (simp_all; done) | (simp_all; omega) | grind

theorem names_kv (c : Config) (f : F) (k : Kind) (h : (f, k) ∈ valKv c) :
    violates c f = true := by
  simp only [valKv, mem_firstOf_cons, mem_sect_iff, firstOf_nil, List.not_mem_nil, and_false,
    or_false] at h
  rcases h with h | ⟨_, h⟩
  · simp_all [violates]
  · by_cases h1 : c.kvType = "backend"
    · simp [h1] at h; simp_all [violates]
    · by_cases h2 : c.kvType = "cache"
      · simp [h2] at h
      · by_cases h3 : c.kvType = "consul"
        · simp [h3] at h; simp_all [violates]
        · by_cases h4 : c.kvType = "redis"
          · simp [h4] at h; simp_all [violates]
          · simp [h1, h2, h3, h4] at h; simp_all [violates]

theorem names_check (c : Config) (f : F) (k : Kind) (h : (f, k) ∈ valCheck c) :
    violates c f = true := by
  simp only [valCheck, mem_firstOf_cons, mem_sect_iff, firstOf_nil, List.not_mem_nil, and_false,
    or_false] at h
  rcases h with h | ⟨_, h | ⟨_, h | ⟨_, h⟩⟩⟩
  · simp_all [violates]
  · split at h <;> simp_all [violates]
  · split at h <;> simp_all [violates]
  · exact names_kv c f k h

theorem names_querylog (c : Config) (f : F) (k : Kind) (h : (f, k) ∈ valQueryLog c) :
    violates c f = true := by
  simp [valQueryLog, mem_firstOf_cons, mem_sect_iff] at h
  cases f <;> simp [violates] at h ⊢ <;> first | omega | (simp_all; done) | (simp_all; omega) | grind

theorem names_fltgroups (c : Config) (f : F) (k : Kind) (h : (f, k) ∈ valFltGroups c) :
    violates c f = true := by
  simp [valFltGroups, mem_firstOf_cons, mem_sect_iff] at h
  cases f <;> simp [violates] at h ⊢ <;> first | omega | (simp_all; done) | (simp_all; omega) | grind

theorem names_srvgroups (c : Config) (f : F) (k : Kind) (h : (f, k) ∈ valSrvGroups c) :
    violates c f = true := by
  simp [valSrvGroups, mem_firstOf_cons, mem_sect_iff, mem_valPorts] at h
  cases f <;> simp [violates] at h ⊢ <;> first | omega | (simp_all; done) | (simp_all; omega) | grind

theorem names_connN (c : Config) (f : F) (k : Kind) (h : (f, k) ∈ valConnN false c) :
    violates c f = true := by
  unfold valConnN at h
  split at h
  · simp at h
  · split at h
    · simp at h; obtain ⟨rfl, rfl⟩ := h; simp_all [violates]
    · simp at h

theorem names_conncheck (c : Config) (f : F) (k : Kind) (h : (f, k) ∈ valConnCheck c) :
    violates c f = true := by
  simp [valConnCheck, mem_firstOf_cons, mem_sect_iff] at h
  cases f <;> simp [violates] at h ⊢ <;> first | omega | (simp_all; done) | (simp_all; omega) | grind

theorem names_access (c : Config) (f : F) (k : Kind) (h : (f, k) ∈ valAccess c) :
    violates c f = true := by
  simp [valAccess, mem_firstOf_cons, mem_sect_iff] at h
  cases f <;> simp [violates] at h ⊢ <;> first | omega | (simp_all; done) | (simp_all; omega) | grind

theorem names_web (c : Config) (f : F) (k : Kind) (h : (f, k) ∈ valWeb c) :
    violates c f = true := by
  unfold valWeb at h; split at h <;> simp_all [violates]

theorem names_sb (c : Config) (f : F) (k : Kind)
    (h : (f, k) ∈ valSb c.pSb .sb .sbSize .sbTtl .sbRefresh .sbTimeout c.sbSize c.sbTtl c.sbRefresh c.sbTimeout) :
    violates c f = true := by
  simp [valSb, mem_firstOf_cons, mem_sect_iff] at h
  cases f <;> simp [violates] at h ⊢ <;> first | omega | (simp_all; done) | (simp_all; omega) | grind

theorem names_ab (c : Config) (f : F) (k : Kind)
    (h : (f, k) ∈ valSb c.pAb .ab .abSize .abTtl .abRefresh .abTimeout c.abSize c.abTtl c.abRefresh c.abTimeout) :
    violates c f = true := by
  simp [valSb, mem_firstOf_cons, mem_sect_iff] at h
  cases f <;> simp [violates] at h ⊢ <;> first | omega | (simp_all; done) | (simp_all; omega) | grind

theorem names_filters (c : Config) (f : F) (k : Kind) (h : (f, k) ∈ valFilters false c) :
    violates c f = true := by
  unfold valFilters at h
  split at h
  · simp [mem_firstOf_cons, mem_sect_iff] at h
    cases f <;> simp [violates] at h ⊢ <;> first | omega | (simp_all; done) | (simp_all; omega) | grind
  · simp_all [violates]

theorem names_iface (c : Config) (f : F) (k : Kind) (h : (f, k) ∈ valIface c) :
    violates c f = true := by
  unfold valIface at h
  split at h
  · simp [mem_firstOf_cons] at h
    cases f <;> simp [violates] at h ⊢ <;> first | omega | (simp_all; done) | (simp_all; omega) | grind
  · simp at h

theorem names_network (c : Config) (f : F) (k : Kind) (h : (f, k) ∈ valNetwork c) :
    violates c f = true := by
  simp [valNetwork, mem_firstOf_cons, mem_sect_iff] at h
  cases f <;> simp [violates] at h ⊢ <;> first | omega | (simp_all; done) | (simp_all; omega) | grind

/-! ### The stream listeners against C18's model of the connection limiter (`Agd.ConnLimit`) -/
section Limiter
open Agd.ConnLimit

theorem run_app (v : Variant) (s : St) (a b : List Op) : ConnLimit.run v s (a ++ b) = ConnLimit.run v (ConnLimit.run v s a) b := by
  induction a generalizing s with
  | nil => rfl
  | cons o r ih => simp [ConnLimit.run, ih]

/-- While there is room below `stop`, every acceptor passes the limiter. -/
theorem run_accepts_room (ls : List Nat) (s : St) (hcl : s.closed = []) (hs : s.c.stop < two64)
    (hacc : ls ≠ [] → s.c.accepting = true) (hroom : s.c.current + ls.length ≤ s.c.stop) :
    (ConnLimit.run repaired s (ls.map Op.accept)).pending = s.pending ++ ls ∧
    (ConnLimit.run repaired s (ls.map Op.accept)).waitq = s.waitq ∧
    (ConnLimit.run repaired s (ls.map Op.accept)).closed = [] ∧
    (ConnLimit.run repaired s (ls.map Op.accept)).c.current = s.c.current + ls.length ∧
    (ConnLimit.run repaired s (ls.map Op.accept)).c.stop = s.c.stop ∧
    (ls ≠ [] → (ConnLimit.run repaired s (ls.map Op.accept)).c.accepting = decide (s.c.current + ls.length < s.c.stop)) := by
  induction ls generalizing s with
  | nil => simp [ConnLimit.run, hcl]
  | cons l r ih =>
    have ha : s.c.accepting = true := hacc (by simp)
    simp only [List.length_cons] at hroom
    have hmod : (s.c.current + 1) % two64 = s.c.current + 1 := Nat.mod_eq_of_lt (by omega)
    have hstep : (step repaired s (.accept l)).1 =
        { s with c := { s.c with current := s.c.current + 1, accepting := decide (s.c.current + 1 < s.c.stop) },
                 pending := s.pending ++ [l] } := by
      simp [step, attempt, repaired, hcl, Counter.increment, ha, hmod]
    simp only [List.map_cons, ConnLimit.run]
    rw [hstep]
    have := ih { s with c := { s.c with current := s.c.current + 1, accepting := decide (s.c.current + 1 < s.c.stop) },
                        pending := s.pending ++ [l] } hcl hs
      (by intro hr; have : 0 < r.length := List.length_pos_iff.mpr hr; simp; omega) (by simp; omega)
    obtain ⟨h1, h2, h3, h4, h5, h6⟩ := this
    refine ⟨by simp [h1], by simp [h2], h3, by simp [h4]; omega, by simp [h5], ?_⟩
    intro _
    by_cases hr : r = []
    · subst hr; simp [ConnLimit.run]
    · rw [h6 hr]; simp; omega

/-- Once the limiter is closed, every further acceptor is parked and nothing else changes. -/
theorem run_accepts_full (ls : List Nat) (s : St) (hcl : s.closed = []) (hacc : s.c.accepting = false) :
    (ConnLimit.run repaired s (ls.map Op.accept)).pending = s.pending ∧
    (ConnLimit.run repaired s (ls.map Op.accept)).waitq = s.waitq ++ ls ∧
    (ConnLimit.run repaired s (ls.map Op.accept)).woken = s.woken ∧
    (ConnLimit.run repaired s (ls.map Op.accept)).c = s.c := by
  induction ls generalizing s with
  | nil => simp [ConnLimit.run]
  | cons l r ih =>
    have hstep : (step repaired s (.accept l)).1 = { s with waitq := s.waitq ++ [l] } := by
      simp [step, attempt, repaired, hcl, Counter.increment, hacc]
    simp only [List.map_cons, ConnLimit.run]
    rw [hstep]
    obtain ⟨h1, h2, h3, h4⟩ := ih { s with waitq := s.waitq ++ [l] } hcl hacc
    exact ⟨by simp [h1], by simp [h2], by simp [h3], by simp [h4]⟩

/-- With `stop` at least the number of listeners, every listener reaches its `Accept`. -/
theorem limStart_all (stop resume n : Nat) (hs : stop < two64) (hn : n ≤ stop) :
    limStart stop resume n = (n, 0) := by
  have h := run_accepts_room (List.range n) (init stop resume) rfl hs (fun _ => rfl) (by simp [init]; omega)
  have h1 := h.1; have h2 := h.2.1
  simp only [init] at h1 h2
  simp [limStart, init, h1, h2]

/-- With `stop` below the number of listeners, only `stop` of them ever reach their `Accept`; the
others are parked, the counter does not accept and nobody is left to wake them. -/
theorem limStart_starved (stop resume n : Nat) (hs : stop < two64) (h0 : 0 < stop) (hn : stop < n) :
    limStart stop resume n = (stop, n - stop) := by
  have hsplit : List.range n = (List.range n).take stop ++ (List.range n).drop stop :=
    (List.take_append_drop _ _).symm
  have hlen : ((List.range n).take stop).length = stop := by simp; omega
  have hne : (List.range n).take stop ≠ [] := by
    intro h; rw [h] at hlen; simp at hlen; omega
  obtain ⟨a1, a2, a3, a4, a5, a6⟩ :=
    run_accepts_room ((List.range n).take stop) (init stop resume) rfl hs (fun _ => rfl)
      (by simp [init]; omega)
  have hacc := a6 hne
  rw [hlen] at hacc
  have hacc' : (ConnLimit.run repaired (init stop resume) (((List.range n).take stop).map Op.accept)).c.accepting = false := by
    rw [hacc]; simp [init]
  obtain ⟨b1, b2, _, _⟩ :=
    run_accepts_full ((List.range n).drop stop) _ a3 hacc'
  have e1 : (ConnLimit.run repaired (init stop resume) ((List.range n).map Op.accept)).pending.length = stop := by
    rw [hsplit, List.map_append, run_app, b1, a1]; simp [init]; omega
  have e2 : (ConnLimit.run repaired (init stop resume) ((List.range n).map Op.accept)).waitq.length = n - stop := by
    rw [hsplit, List.map_append, run_app, b2, a2]; simp [init]
  simp only [limStart, e1, e2]

end Limiter

end Agd.Config
