import Agd.Model.PoolCtx
/-! Invariant, frame property and interleaving theorem of the pooled request contexts. -/
namespace Agd.PoolCtx

/-! ### tables -/

@[simp] theorem upd_same {α : Type} (t : Nat → α) (k : Nat) (v : α) : upd t k v k = v := by simp [upd]

@[simp] theorem upd_other {α : Type} (t : Nat → α) (k x : Nat) (v : α) (hne : x ≠ k) :
    upd t k v x = t x := by simp [upd, hne]

/-! ### definitions -/

/-- The ownership invariant of the pool of contexts. -/
structure Inv (s : St) : Prop where
  poolBelow : ∀ id ∈ s.pool, id < s.next
  heldBelow : ∀ r id, s.held r = some id → id < s.next
  poolNodup : s.pool.Nodup
  heldNotPool : ∀ r id, s.held r = some id → id ∉ s.pool
  heldInj : ∀ r1 r2 id, s.held r1 = some id → s.held r2 = some id → r1 = r2

/-- The two states look the same *to request `r`* on everything it is entitled to rely on: what it has read,
which fields it has written since its `Get`, whether it holds an object, and the values of the written
fields of that object.  Object ids, pool content, `next`, and the stale values of unwritten fields may all
differ. -/
structure Agree (r : Nat) (s1 s2 : St) : Prop where
  out : s1.out r = s2.out r
  defd : s1.defd r = s2.defd r
  held : (s1.held r).isSome = (s2.held r).isSome
  fields : ∀ id1 id2, s1.held r = some id1 → s2.held r = some id2 →
    ∀ f ∈ s1.defd r, s1.heap id1 f = s2.heap id2 f

theorem Agree.refl (r : Nat) (s : St) : Agree r s s := by
  refine ⟨rfl, rfl, rfl, ?_⟩
  intro id1 id2 h1 h2 f _
  rw [h1] at h2
  cases h2
  rfl

/-! ### lists -/

theorem getD_mem (l : List Nat) (i : Nat) (h : i < l.length) : l.getD i 0 ∈ l := by
  simp [List.getD_eq_getElem?_getD, h]

theorem getD_not_mem_eraseIdx : ∀ (l : List Nat) (i : Nat), l.Nodup → i < l.length →
    l.getD i 0 ∉ l.eraseIdx i := by
  intro l
  induction l with
  | nil => intro i _ h; simp at h
  | cons a t ih =>
    intro i hn hl
    have hc := List.nodup_cons.mp hn
    cases i with
    | zero => simpa using hc.1
    | succ j =>
      have hj : j < t.length := by simpa using hl
      have h1 := ih j hc.2 hj
      have h2 := getD_mem t j hj
      simp only [List.getD_cons_succ, List.eraseIdx_cons_succ, List.mem_cons, not_or]
      refine ⟨?_, h1⟩
      intro he
      rw [he] at h2
      exact hc.1 h2

/-! ### 1. the invariant -/

theorem ctx_inv_init : Inv St.init := by
  refine ⟨?_, ?_, ?_, ?_, ?_⟩ <;> simp [St.init]

theorem inv_get (s : St) (r k : Nat) (hi : Inv s) : Inv (doGet s r k) := by
  unfold doGet
  split
  · exact hi
  · split
    · rename_i hl
      have hp : s.pool = [] := List.eq_nil_of_length_eq_zero hl
      refine ⟨?_, ?_, ?_, ?_, ?_⟩
      · intro id hm
        have := hi.poolBelow id hm
        show id < s.next + 1
        omega
      · intro r' id hh
        show id < s.next + 1
        by_cases hr : r' = r
        · subst hr
          simp at hh
          omega
        · simp [hr] at hh
          have := hi.heldBelow r' id hh
          omega
      · exact hi.poolNodup
      · intro r' id _
        show id ∉ s.pool
        simp [hp]
      · intro r1 r2 id h1 h2
        by_cases hr1 : r1 = r <;> by_cases hr2 : r2 = r
        · rw [hr1, hr2]
        · subst hr1
          simp [hr2] at h1 h2
          have := hi.heldBelow r2 id h2
          omega
        · subst hr2
          simp [hr1] at h1 h2
          have := hi.heldBelow r1 id h1
          omega
        · simp [hr1] at h1
          simp [hr2] at h2
          exact hi.heldInj r1 r2 id h1 h2
    · rename_i hl
      have hlt : k % s.pool.length < s.pool.length := Nat.mod_lt _ (by omega)
      have hx := getD_mem s.pool _ hlt
      refine ⟨?_, ?_, ?_, ?_, ?_⟩
      · intro id hm
        exact hi.poolBelow id (List.mem_of_mem_eraseIdx hm)
      · intro r' id hh
        show id < s.next
        by_cases hr : r' = r
        · subst hr
          simp at hh
          rw [← hh]
          exact hi.poolBelow _ hx
        · simp [hr] at hh
          exact hi.heldBelow r' id hh
      · exact hi.poolNodup.eraseIdx _
      · intro r' id hh
        show id ∉ s.pool.eraseIdx (k % s.pool.length)
        by_cases hr : r' = r
        · subst hr
          simp at hh
          rw [← hh]
          exact getD_not_mem_eraseIdx s.pool _ hi.poolNodup hlt
        · simp [hr] at hh
          intro hm
          exact hi.heldNotPool r' id hh (List.mem_of_mem_eraseIdx hm)
      · intro r1 r2 id h1 h2
        by_cases hr1 : r1 = r <;> by_cases hr2 : r2 = r
        · rw [hr1, hr2]
        · subst hr1
          simp [hr2] at h1 h2
          rw [← h1] at h2
          exact absurd hx (hi.heldNotPool r2 _ h2)
        · subst hr2
          simp [hr1] at h1 h2
          rw [← h2] at h1
          exact absurd hx (hi.heldNotPool r1 _ h1)
        · simp [hr1] at h1
          simp [hr2] at h2
          exact hi.heldInj r1 r2 id h1 h2

theorem inv_set (s : St) (r f v : Nat) (hi : Inv s) : Inv (doSet s r f v) := by
  unfold doSet
  split
  · exact hi
  · exact ⟨hi.poolBelow, hi.heldBelow, hi.poolNodup, hi.heldNotPool, hi.heldInj⟩

theorem inv_read (s : St) (r : Nat) (fs : List Nat) (hi : Inv s) : Inv (doRead s r fs) := by
  unfold doRead
  split
  · exact hi
  · exact ⟨hi.poolBelow, hi.heldBelow, hi.poolNodup, hi.heldNotPool, hi.heldInj⟩

theorem inv_put (s : St) (r : Nat) (hi : Inv s) : Inv (doPut s r) := by
  unfold doPut
  split
  · exact hi
  · rename_i id hh
    refine ⟨?_, ?_, ?_, ?_, ?_⟩
    · intro x hm
      show x < s.next
      have hm' : x = id ∨ x ∈ s.pool := by simpa using hm
      rcases hm' with h | h
      · rw [h]; exact hi.heldBelow r id hh
      · exact hi.poolBelow x h
    · intro r' x hx
      show x < s.next
      by_cases hr : r' = r
      · subst hr; simp at hx
      · simp [hr] at hx
        exact hi.heldBelow r' x hx
    · show (id :: s.pool).Nodup
      exact List.nodup_cons.mpr ⟨hi.heldNotPool r id hh, hi.poolNodup⟩
    · intro r' x hx
      show x ∉ id :: s.pool
      by_cases hr : r' = r
      · subst hr; simp at hx
      · simp [hr] at hx
        simp only [List.mem_cons, not_or]
        refine ⟨?_, hi.heldNotPool r' x hx⟩
        intro he
        subst he
        exact hr (hi.heldInj r' r x hx hh)
    · intro r1 r2 x h1 h2
      by_cases hr1 : r1 = r
      · subst hr1; simp at h1
      · by_cases hr2 : r2 = r
        · subst hr2; simp at h2
        · simp [hr1] at h1
          simp [hr2] at h2
          exact hi.heldInj r1 r2 x h1 h2

theorem ctx_inv_step (s : St) (op : Op) (hi : Inv s) : Inv (step s op) := by
  cases op with
  | get r k => exact inv_get s r k hi
  | set r f v => exact inv_set s r f v hi
  | read r fs => exact inv_read s r fs hi
  | put r => exact inv_put s r hi

theorem ctx_inv_run (s : St) (ops : List Op) (hi : Inv s) : Inv (run s ops) := by
  induction ops generalizing s with
  | nil => exact hi
  | cons op rest ih => exact ih (step s op) (ctx_inv_step s op hi)

example : Inv (run St.init [.get 0 0, .set 0 0 5, .put 0, .get 1 3]) := ctx_inv_run _ _ ctx_inv_init

/-! ### 2. frame: an operation of another request never touches a context that is in use -/

theorem ctx_frame (s : St) (op : Op) (r : Nat) (hi : Inv s) (hne : op.req ≠ r) :
    (step s op).held r = s.held r ∧
    (∀ id, s.held r = some id → (step s op).heap id = s.heap id) ∧
    (step s op).out r = s.out r ∧ (step s op).defd r = s.defd r := by
  have hne' : r ≠ op.req := fun h => hne h.symm
  cases op with
  | get r' k =>
    simp only [Op.req] at hne'
    simp only [step, doGet]
    split
    · exact ⟨rfl, fun _ _ => rfl, rfl, rfl⟩
    · split
      · refine ⟨by simp [hne'], ?_, rfl, by simp [hne']⟩
        intro id hh
        have := hi.heldBelow r id hh
        have hid : id ≠ s.next := by omega
        simp [hid]
      · exact ⟨by simp [hne'], fun _ _ => rfl, rfl, by simp [hne']⟩
  | set r' f v =>
    simp only [Op.req] at hne'
    simp only [step, doSet]
    split
    · exact ⟨rfl, fun _ _ => rfl, rfl, rfl⟩
    · rename_i id' hh'
      refine ⟨rfl, ?_, rfl, by simp [hne']⟩
      intro id hh
      have hid : id ≠ id' := by
        intro he
        subst he
        exact hne' (hi.heldInj r r' id hh hh')
      simp [hid]
  | read r' fs =>
    simp only [Op.req] at hne'
    simp only [step, doRead]
    split
    · exact ⟨rfl, fun _ _ => rfl, rfl, rfl⟩
    · exact ⟨rfl, fun _ _ => rfl, by simp [hne'], rfl⟩
  | put r' =>
    simp only [Op.req] at hne'
    simp only [step, doPut]
    split
    · exact ⟨rfl, fun _ _ => rfl, rfl, rfl⟩
    · exact ⟨by simp [hne'], fun _ _ => rfl, rfl, by simp [hne']⟩

/-- Non-vacuity: request 0 holds object 0 with field 0 = 5 while request 1 gets, writes and puts. -/
example : Inv (run St.init [.get 0 0, .set 0 0 5]) ∧ (Op.set 1 0 9).req ≠ 0 :=
  ⟨ctx_inv_run _ _ ctx_inv_init, by decide⟩

/-! ### 3. a request reads back what it wrote -/

theorem ctx_set_get (s : St) (r f v : Nat) :
    ∀ id, s.held r = some id → (step s (.set r f v)).heap id f = v := by
  intro id hh
  simp [step, doSet, hh]

theorem ctx_set_other (s : St) (r f v f' : Nat) (hf : f' ≠ f) :
    ∀ id, s.held r = some id → (step s (.set r f v)).heap id f' = s.heap id f' := by
  intro id hh
  simp [step, doSet, hh, hf]

example : (run St.init [.get 0 0]).held 0 = some 0 := by decide
example : (3 : Nat) ≠ 4 := by decide

/-! ### 4. interleaving -/

theorem doGet_some (s : St) (r k id : Nat) (h : s.held r = some id) : doGet s r k = s := by
  simp [doGet, h]

theorem doGet_none (s : St) (r k : Nat) (h : s.held r = none) :
    (doGet s r k).out r = s.out r ∧ (doGet s r k).defd r = [] ∧ ((doGet s r k).held r).isSome = true := by
  simp only [doGet, h]
  split <;> simp

theorem agree_step (r : Nat) (s1 s2 : St) (op : Op) (ha : Agree r s1 s2) (ok : OpOk s1 op)
    (hr : op.req = r) : Agree r (step s1 op) (step s2 op) := by
  have hs := ha.held
  cases op with
  | get r' k =>
    simp only [Op.req] at hr
    subst hr
    show Agree r' (doGet s1 r' k) (doGet s2 r' k)
    cases h1 : s1.held r' <;> cases h2 : s2.held r' <;> simp [h1, h2] at hs
    · have g1 := doGet_none s1 r' k h1
      have g2 := doGet_none s2 r' k h2
      refine ⟨by rw [g1.1, g2.1]; exact ha.out, by rw [g1.2.1, g2.2.1], by rw [g1.2.2, g2.2.2], ?_⟩
      intro id1 id2 _ _ f hf
      rw [g1.2.1] at hf
      simp at hf
    · rw [doGet_some s1 r' k _ h1, doGet_some s2 r' k _ h2]
      exact ha
  | set r' f v =>
    simp only [Op.req] at hr
    subst hr
    simp only [step, doSet]
    cases h1 : s1.held r' <;> cases h2 : s2.held r' <;> simp [h1, h2] at hs
    · exact ⟨ha.out, ha.defd, by simp [h1, h2], fun id1 id2 e1 _ => by simp [h1] at e1⟩
    · rename_i a b
      refine ⟨ha.out, ?_, by simp [h1, h2], ?_⟩
      · simp [ha.defd]
      · intro id1 id2 e1 e2 f' hf'
        simp [h1] at e1
        simp [h2] at e2
        subst e1; subst e2
        simp at hf'
        by_cases hff : f' = f
        · simp [hff]
        · simp [hff] at hf' ⊢
          exact ha.fields a b h1 h2 f' hf'
  | read r' fs =>
    simp only [Op.req] at hr
    subst hr
    simp only [step, doRead]
    cases h1 : s1.held r' <;> cases h2 : s2.held r' <;> simp [h1, h2] at hs
    · exact ⟨ha.out, ha.defd, by simp [h1, h2], fun id1 id2 e1 _ => by simp [h1] at e1⟩
    · rename_i a b
      refine ⟨?_, ha.defd, by simp [h1, h2], fun id1 id2 e1 e2 => ha.fields id1 id2 (by simpa [h1] using e1) (by simpa [h2] using e2)⟩
      simp only [upd_same]
      rw [ha.out]
      congr 1
      apply List.map_congr_left
      intro f hf
      exact ha.fields a b h1 h2 f (ok f hf)
  | put r' =>
    simp only [Op.req] at hr
    subst hr
    simp only [step, doPut]
    cases h1 : s1.held r' <;> cases h2 : s2.held r' <;> simp [h1, h2] at hs
    · exact ⟨ha.out, ha.defd, by simp [h1, h2], fun id1 id2 e1 _ => by simp [h1] at e1⟩
    · exact ⟨ha.out, by simp, by simp, fun id1 id2 e1 _ => by simp at e1⟩

/-- The reads of request `r` in an arbitrary interleaving equal its reads when it runs alone, from any pair
of states that agree on what `r` may rely on.  `Inv s2` is not used. -/
theorem ctx_interleaving_strong (r : Nat) (xs : List Op) (s1 s2 : St) (h1 : Inv s1)
    (ok : ReadsOk s1 xs) (agree : Agree r s1 s2) :
    (run s1 xs).out r = (run s2 (xs.filter (fun op => op.req == r))).out r := by
  induction xs generalizing s1 s2 with
  | nil => exact agree.out
  | cons op rest ih =>
    have ok' : OpOk s1 op ∧ ReadsOk (step s1 op) rest := ok
    by_cases hr : op.req = r
    · have hf : (op :: rest).filter (fun op => op.req == r) = op :: rest.filter (fun op => op.req == r) := by
        simp [hr]
      rw [hf]
      exact ih (step s1 op) (step s2 op) (ctx_inv_step s1 op h1) ok'.2 (agree_step r s1 s2 op agree ok'.1 hr)
    · have hf : (op :: rest).filter (fun op => op.req == r) = rest.filter (fun op => op.req == r) := by
        simp [hr]
      rw [hf]
      have fr := ctx_frame s1 op r h1 hr
      refine ih (step s1 op) s2 (ctx_inv_step s1 op h1) ok'.2 ?_
      refine ⟨by rw [fr.2.2.1]; exact agree.out, by rw [fr.2.2.2]; exact agree.defd,
        by rw [fr.1]; exact agree.held, ?_⟩
      intro id1 id2 e1 e2 f hf
      rw [fr.1] at e1
      rw [fr.2.2.2] at hf
      rw [fr.2.1 id1 e1]
      exact agree.fields id1 id2 e1 e2 f hf

set_option linter.unusedVariables false in
theorem ctx_interleaving (r : Nat) (xs : List Op) (s1 s2 : St) (h1 : Inv s1) (h2 : Inv s2)
    (ok : ReadsOk s1 xs)
    (agree : Agree r s1 s2) :
    (run s1 xs).out r = (run s2 (xs.filter (fun op => op.req == r))).out r :=
  ctx_interleaving_strong r xs s1 s2 h1 ok agree

/-- Non-vacuity of the hypotheses (full instances on `demoMix` / `demoPost` are in section 5). -/
example : Inv St.init ∧ ReadsOk St.init [.get 0 0, .get 1 0, .set 0 0 1, .set 1 0 2, .read 0 [0]] ∧
    Agree 0 St.init St.init :=
  ⟨ctx_inv_init, by decide, Agree.refl 0 St.init⟩

/-- In any interleaving, from any reachable state with any stale pool content, a request that starts
without a context reads exactly what it reads when it runs alone on a virgin server. -/
theorem ctx_solo (r : Nat) (xs : List Op) (s1 : St) (h1 : Inv s1) (ok : ReadsOk s1 xs)
    (hh : s1.held r = none) (ho : s1.out r = []) (hd : s1.defd r = []) :
    (run s1 xs).out r = (run St.init (xs.filter (fun op => op.req == r))).out r := by
  apply ctx_interleaving r xs s1 St.init h1 ctx_inv_init ok
  refine ⟨by rw [ho]; rfl, by rw [hd]; rfl, by rw [hh]; rfl, ?_⟩
  intro id1 _ e1
  rw [hh] at e1
  cases e1

example : Inv (run St.init [.get 1 0, .set 1 3 9, .put 1]) ∧
    ReadsOk (run St.init [.get 1 0, .set 1 3 9, .put 1]) [.get 0 0, .set 0 3 1, .read 0 [3]] ∧
    (run St.init [.get 1 0, .set 1 3 9, .put 1]).held 0 = none ∧
    (run St.init [.get 1 0, .set 1 3 9, .put 1]).out 0 = [] ∧
    (run St.init [.get 1 0, .set 1 3 9, .put 1]).defd 0 = [] :=
  ⟨ctx_inv_run _ _ ctx_inv_init, by decide, by decide, by decide, by decide⟩

/-! ### 5. non-vacuity and necessity -/

/-- Request 0 gets a fresh context (object 0), fills fields 0 and 1, reads, puts.  Request 1 then gets
*the same object* with request 0's values still in it, fills both fields with its own values and reads.
Request 2 does the same on object 1, interleaved with both. -/
def demoMix : List Op :=
  [.get 0 0, .get 2 0, .set 0 0 10, .set 2 0 30, .set 0 1 77, .set 2 1 31, .read 0 [0, 1], .put 0,
   .get 1 5, .set 1 0 20, .read 2 [0, 1], .set 1 1 21, .read 1 [0, 1], .read 1 [1], .put 2, .put 1]

theorem demoMix_ok : ReadsOk St.init demoMix := by decide

/-- Recycling really happens: request 0 held object 0; request 1 gets object 0, and at that moment the
object still carries request 0's values. -/
example : (run St.init (demoMix.take 7)).held 0 = some 0 := by decide
example : (run St.init (demoMix.take 9)).held 1 = some 0 := by decide
example : (run St.init (demoMix.take 9)).heap 0 0 = 10 ∧ (run St.init (demoMix.take 9)).heap 0 1 = 77 := by
  decide
example : (run St.init (demoMix.take 9)).held 2 = some 1 := by decide

/-- `ctx_interleaving` and `ctx_solo` instantiated; the conclusion is not `[] = []`. -/
example : (run St.init demoMix).out 1 = (run St.init (demoMix.filter (fun op => op.req == 1))).out 1 :=
  ctx_interleaving 1 demoMix St.init St.init ctx_inv_init ctx_inv_init demoMix_ok (Agree.refl 1 St.init)
example : (run St.init demoMix).out 1 = (run St.init (demoMix.filter (fun op => op.req == 1))).out 1 :=
  ctx_solo 1 demoMix St.init ctx_inv_init demoMix_ok rfl rfl rfl
example : (run St.init demoMix).out 1 = [[21], [20, 21]] := by decide
example : (run St.init demoMix).out 0 = [[10, 77]] := by decide
example : (run St.init demoMix).out 2 = [[30, 31]] := by decide

/-- `ctx_solo` from a non-virgin state: the pool holds the objects that requests 0 and 2 left behind. -/
def demoPre : List Op :=
  [.get 0 0, .get 2 0, .set 0 0 10, .set 2 0 30, .set 0 1 77, .set 2 1 31, .put 0, .put 2]
def demoPost : List Op :=
  [.get 1 1, .get 3 7, .set 3 1 40, .set 1 0 20, .set 1 1 21, .read 3 [1], .read 1 [1, 0], .put 1, .put 3]
theorem demoPost_ok : ReadsOk (run St.init demoPre) demoPost := by decide
example : (run St.init demoPre).pool = [1, 0] := by decide
example : (run (run St.init demoPre) (demoPost.take 1)).held 1 = some 0 := by decide
example : (run (run St.init demoPre) (demoPost.take 1)).heap 0 1 = 77 := by decide
example : (run (run St.init demoPre) demoPost).out 1 =
    (run St.init (demoPost.filter (fun op => op.req == 1))).out 1 :=
  ctx_solo 1 demoPost (run St.init demoPre) (ctx_inv_run _ _ ctx_inv_init) demoPost_ok (by decide) (by decide)
    (by decide)
example : (run (run St.init demoPre) demoPost).out 1 = [[21, 20]] := by decide

/-- `Agree` with genuinely different states: different object ids and different stale values. -/
example : Agree 1 (run St.init (demoMix.take 10)) (run St.init [.get 1 0, .set 1 0 20]) := by
  refine ⟨by decide, by decide, by decide, ?_⟩
  intro id1 id2 e1 e2 f hf
  have h1 : id1 = 0 := by
    have : (run St.init (demoMix.take 10)).held 1 = some 0 := by decide
    rw [this] at e1
    cases e1; rfl
  have h2 : id2 = 0 := by
    have : (run St.init [.get 1 0, .set 1 0 20]).held 1 = some 0 := by decide
    rw [this] at e2
    cases e2; rfl
  have h3 : (run St.init (demoMix.take 10)).defd 1 = [0] := by decide
  rw [h3] at hf
  have hf0 : f = 0 := by simpa using hf
  subst h1; subst h2; subst hf0
  decide

/-- The schedule of the missing reset: request 1 recycles request 0's object and reads field 1 without
having written it. -/
def badMix : List Op :=
  [.get 0 0, .set 0 0 10, .set 0 1 77, .read 0 [0, 1], .put 0, .get 1 0, .set 1 0 20, .read 1 [0, 1], .put 1]

example : ¬ ReadsOk St.init badMix := by decide
example : (run St.init badMix).out 1 = [[20, 77]] := by decide
example : (run St.init (badMix.filter (fun op => op.req == 1))).out 1 = [[20, 0]] := by decide

/-- `ReadsOk` is necessary: without it request 1 observes request 0's value 77. -/
theorem ctx_missing_reset_counterexample :
    ¬ ((run St.init badMix).out 1 = (run St.init (badMix.filter (fun op => op.req == 1))).out 1) := by
  decide

/-- A state that violates `Inv`: requests 0 and 1 hold the same object. -/
def badSt : St :=
  { heap := fun _ _ => 0, next := 1, pool := [], held := fun r => if r = 0 ∨ r = 1 then some 0 else none,
    defd := fun _ => [], out := fun _ => [] }

example : ¬ Inv badSt := by
  intro h
  have := h.heldInj 0 1 0 (by decide) (by decide)
  omega

/-- `Inv` is necessary for the frame property: in `badSt` a write of request 1 changes what request 0 reads. -/
example : (Op.set 1 0 99).req ≠ 0 ∧
    ¬ (∀ id, badSt.held 0 = some id → (step badSt (.set 1 0 99)).heap id = badSt.heap id) := by
  refine ⟨by decide, ?_⟩
  intro h
  have h0 := congrFun (h 0 (by decide)) 0
  revert h0
  decide
example : (run badSt [.set 1 0 99, .set 0 1 5, .read 0 [0]]).out 0 ≠ (run badSt [.set 0 1 5, .read 0 [0]]).out 0 := by
  decide


/-! ### 6. pool-constant fields -/

/-- Every pool-constant field of every object has the value `New` gave it. -/
def ConstZero (C : List Nat) (s : St) : Prop := ∀ id f, f ∈ C → s.heap id f = 0

theorem constZero_init (C : List Nat) : ConstZero C St.init := by
  intro id f _
  rfl

theorem constZero_step (C : List Nat) (s : St) (op : Op) (hc : ConstZero C s) (ok : OpOkC C s op) :
    ConstZero C (step s op) := by
  cases op with
  | get r k =>
    simp only [step, doGet]
    split
    · exact hc
    · split
      · intro id f hf
        show upd s.heap s.next (fun _ => 0) id f = 0
        by_cases hid : id = s.next
        · simp [hid]
        · simp [hid]; exact hc id f hf
      · exact hc
  | set r f v =>
    have ok' : f ∉ C := ok
    simp only [step, doSet]
    split
    · exact hc
    · rename_i id' _
      intro id f' hf'
      show upd s.heap id' (upd (s.heap id') f v) id f' = 0
      have hne : f' ≠ f := fun h => ok' (h ▸ hf')
      by_cases hid : id = id'
      · simp [hid, hne]; exact hc id' f' hf'
      · simp [hid]; exact hc id f' hf'
  | read r fs =>
    simp only [step, doRead]
    split <;> exact hc
  | put r =>
    simp only [step, doPut]
    split <;> exact hc

example : ConstZero [3] St.init ∧ OpOkC [3] St.init (.set 0 1 5) := ⟨constZero_init _, by decide⟩

theorem opOkC_nil (s : St) (op : Op) : OpOkC [] s op ↔ OpOk s op := by
  cases op <;> simp [OpOkC, OpOk]

theorem readsOkC_nil (s : St) (xs : List Op) : ReadsOkC [] s xs ↔ ReadsOk s xs := by
  induction xs generalizing s with
  | nil => simp [ReadsOkC, ReadsOk]
  | cons op rest ih => simp only [ReadsOkC, ReadsOk, opOkC_nil, ih]

/-- The discipline of an operation of `r` depends on the state only through `defd r`. -/
theorem opOkC_transfer (C : List Nat) (s1 s2 : St) (op : Op) (hd : s1.defd op.req = s2.defd op.req)
    (ok : OpOkC C s1 op) : OpOkC C s2 op := by
  cases op with
  | read r fs =>
    intro f hf
    have := ok f hf
    simp only [Op.req] at hd
    rw [← hd]
    exact this
  | set r f v => exact ok
  | get r k => trivial
  | put r => trivial

theorem agree_step_const (C : List Nat) (r : Nat) (s1 s2 : St) (op : Op) (ha : Agree r s1 s2)
    (c1 : ConstZero C s1) (c2 : ConstZero C s2) (ok : OpOkC C s1 op) (hr : op.req = r) :
    Agree r (step s1 op) (step s2 op) := by
  cases op with
  | get r' k => exact agree_step r s1 s2 _ ha trivial hr
  | set r' f v => exact agree_step r s1 s2 _ ha trivial hr
  | put r' => exact agree_step r s1 s2 _ ha trivial hr
  | read r' fs =>
    have hs := ha.held
    have ok' : ∀ f ∈ fs, f ∈ s1.defd r' ∨ f ∈ C := ok
    simp only [Op.req] at hr
    subst hr
    simp only [step, doRead]
    cases h1 : s1.held r' <;> cases h2 : s2.held r' <;> simp [h1, h2] at hs
    · exact ⟨ha.out, ha.defd, by simp [h1, h2], fun id1 id2 e1 _ => by simp [h1] at e1⟩
    · rename_i a b
      refine ⟨?_, ha.defd, by simp [h1, h2], fun id1 id2 e1 e2 =>
        ha.fields id1 id2 (by simpa [h1] using e1) (by simpa [h2] using e2)⟩
      simp only [upd_same]
      rw [ha.out]
      congr 1
      apply List.map_congr_left
      intro f hf
      rcases ok' f hf with hd | hcm
      · exact ha.fields a b h1 h2 f hd
      · rw [c1 a f hcm, c2 b f hcm]

/-- `ctx_interleaving` with pool-constant fields: a request may also read, without filling them, the fields
that nobody ever writes. -/
theorem ctx_interleaving_const (C : List Nat) (r : Nat) (xs : List Op) (s1 s2 : St) (h1 : Inv s1)
    (c1 : ConstZero C s1) (c2 : ConstZero C s2) (ok : ReadsOkC C s1 xs) (agree : Agree r s1 s2) :
    (run s1 xs).out r = (run s2 (xs.filter (fun op => op.req == r))).out r := by
  induction xs generalizing s1 s2 with
  | nil => exact agree.out
  | cons op rest ih =>
    have ok' : OpOkC C s1 op ∧ ReadsOkC C (step s1 op) rest := ok
    have c1' := constZero_step C s1 op c1 ok'.1
    by_cases hr : op.req = r
    · have hf : (op :: rest).filter (fun op => op.req == r) = op :: rest.filter (fun op => op.req == r) := by
        simp [hr]
      rw [hf]
      have ok2 : OpOkC C s2 op := opOkC_transfer C s1 s2 op (by rw [hr]; exact agree.defd) ok'.1
      exact ih (step s1 op) (step s2 op) (ctx_inv_step s1 op h1) c1' (constZero_step C s2 op c2 ok2) ok'.2
        (agree_step_const C r s1 s2 op agree c1 c2 ok'.1 hr)
    · have hf : (op :: rest).filter (fun op => op.req == r) = rest.filter (fun op => op.req == r) := by
        simp [hr]
      rw [hf]
      have fr := ctx_frame s1 op r h1 hr
      refine ih (step s1 op) s2 (ctx_inv_step s1 op h1) c1' c2 ok'.2 ?_
      refine ⟨by rw [fr.2.2.1]; exact agree.out, by rw [fr.2.2.2]; exact agree.defd,
        by rw [fr.1]; exact agree.held, ?_⟩
      intro id1 id2 e1 e2 f hf
      rw [fr.1] at e1
      rw [fr.2.2.2] at hf
      rw [fr.2.1 id1 e1]
      exact agree.fields id1 id2 e1 e2 f hf

example : Inv St.init ∧ ConstZero [3] St.init ∧
    ReadsOkC [3] St.init [.get 0 0, .get 1 0, .set 0 0 1, .set 1 0 2, .read 0 [0, 3]] ∧ Agree 0 St.init St.init :=
  ⟨ctx_inv_init, constZero_init _, by decide, Agree.refl 0 St.init⟩

theorem ctx_solo_const (C : List Nat) (r : Nat) (xs : List Op) (s1 : St) (h1 : Inv s1) (c1 : ConstZero C s1)
    (ok : ReadsOkC C s1 xs) (hh : s1.held r = none) (ho : s1.out r = []) (hd : s1.defd r = []) :
    (run s1 xs).out r = (run St.init (xs.filter (fun op => op.req == r))).out r := by
  apply ctx_interleaving_const C r xs s1 St.init h1 c1 (constZero_init C) ok
  refine ⟨by rw [ho]; rfl, by rw [hd]; rfl, by rw [hh]; rfl, ?_⟩
  intro id1 _ e1
  rw [hh] at e1
  cases e1

/-! ### per-request programs -/

theorem fill_readsOkC (C : List Nat) (r : Nat) (reads : List Nat) : ∀ (fill : List (Nat × Nat)) (s : St),
    (s.held r).isSome = true → (∀ fv ∈ fill, fv.1 ∉ C) →
    (∀ f ∈ reads, f ∈ fill.map (·.1) ∨ f ∈ s.defd r ∨ f ∈ C) →
    ReadsOkC C s (fill.map (fun fv => Op.set r fv.1 fv.2) ++ [.read r reads, .put r]) := by
  intro fill
  induction fill with
  | nil =>
    intro s _ _ hreads
    refine ⟨?_, trivial, trivial⟩
    intro f hf
    rcases hreads f hf with h | h | h
    · simp at h
    · exact Or.inl h
    · exact Or.inr h
  | cons fv rest ih =>
    intro s hh hfill hreads
    refine ⟨hfill fv List.mem_cons_self, ?_⟩
    cases hid : s.held r with
    | none => simp [hid] at hh
    | some id =>
      apply ih
      · simp [step, doSet, hid]
      · intro x hx
        exact hfill x (List.mem_cons_of_mem _ hx)
      · intro f hf
        have hd : (step s (.set r fv.1 fv.2)).defd r = fv.1 :: s.defd r := by simp [step, doSet, hid]
        rw [hd]
        rcases hreads f hf with h | h | h
        · simp only [List.map_cons, List.mem_cons] at h
          rcases h with h | h
          · exact Or.inr (Or.inl (by simp [h]))
          · exact Or.inl h
        · exact Or.inr (Or.inl (List.mem_cons_of_mem _ h))
        · exact Or.inr (Or.inr h)

/-- A request that fills no pool-constant field and reads only what it filled or pool-constant fields obeys
the discipline, whatever object it gets. -/
theorem prog_readsOkC (C : List Nat) (s : St) (r k : Nat) (fill : List (Nat × Nat)) (reads : List Nat)
    (hh : s.held r = none)
    (hfill : ∀ fv ∈ fill, fv.1 ∉ C) (hreads : ∀ f ∈ reads, f ∈ fill.map (·.1) ∨ f ∈ C) :
    ReadsOkC C s (prog r k fill reads) := by
  refine ⟨trivial, ?_⟩
  have g := doGet_none s r k hh
  apply fill_readsOkC C r reads fill (step s (.get r k)) g.2.2 hfill
  intro f hf
  rcases hreads f hf with h | h
  · exact Or.inl h
  · exact Or.inr (Or.inr h)

example : St.init.held 1 = none ∧ (∀ fv ∈ [((0 : Nat), (20 : Nat)), (1, 21), (2, 22)], fv.1 ∉ [3]) ∧
    (∀ f ∈ [0, 1, 2, 3], f ∈ [((0 : Nat), (20 : Nat)), (1, 21), (2, 22)].map (·.1) ∨ f ∈ [3]) :=
  ⟨rfl, by decide, by decide⟩

/-- Two programs one after the other: request 1 recycles the object request 0 filled.  Field 3 is
pool-constant; both read it without filling it. -/
def demoSeq : List Op :=
  prog 0 0 [(0, 10), (1, 11), (2, 12)] [0, 1, 2, 3] ++ prog 1 0 [(0, 20), (1, 21), (2, 22)] [0, 1, 2, 3]

theorem demoSeq_ok : ReadsOkC [3] St.init demoSeq := by decide
example : (run St.init (demoSeq.take 5)).held 0 = some 0 := by decide
example : (run St.init (demoSeq.take 7)).held 1 = some 0 := by decide
example : (run St.init (demoSeq.take 7)).heap 0 0 = 10 ∧ (run St.init (demoSeq.take 7)).heap 0 1 = 11 ∧
    (run St.init (demoSeq.take 7)).heap 0 2 = 12 := by decide
example : (run St.init demoSeq).out 1 = (run St.init (demoSeq.filter (fun op => op.req == 1))).out 1 :=
  ctx_solo_const [3] 1 demoSeq St.init ctx_inv_init (constZero_init _) demoSeq_ok rfl rfl rfl
example : (run St.init demoSeq).out 1 = [[20, 21, 22, 0]] := by decide
example : (run St.init demoSeq).out 0 = [[10, 11, 12, 0]] := by decide
/-- The second program's discipline also follows from `prog_readsOkC`, from the state the first one left. -/
example : ReadsOkC [3] (run St.init (prog 0 0 [(0, 10), (1, 11), (2, 12)] [0, 1, 2, 3]))
    (prog 1 0 [(0, 20), (1, 21), (2, 22)] [0, 1, 2, 3]) :=
  prog_readsOkC [3] _ 1 0 _ _ (by decide) (by decide) (by decide)

/-- The clause "nobody writes a pool-constant field" is necessary: request 0 writes field 3 := 9 and puts the
object; request 1 recycles it and reads field 3. -/
def constBad : List Op := [.get 0 0, .set 0 3 9, .put 0, .get 1 0, .read 1 [3], .put 1]

example : ¬ ReadsOkC [3] St.init constBad := by decide
/-- Only the write breaks the rule; the read of request 1 obeys the read clause. -/
example : OpOkC [3] (run St.init (constBad.take 4)) (.read 1 [3]) ∧
    ¬ OpOkC [3] (run St.init (constBad.take 1)) (.set 0 3 9) := by decide
example : (run St.init constBad).out 1 = [[9]] ∧
    (run St.init (constBad.filter (fun op => op.req == 1))).out 1 = [[0]] := by decide
theorem ctx_const_write_counterexample :
    ¬ ((run St.init constBad).out 1 = (run St.init (constBad.filter (fun op => op.req == 1))).out 1) := by
  decide

#print axioms ctx_inv_init
#print axioms ctx_inv_step
#print axioms ctx_inv_run
#print axioms ctx_frame
#print axioms ctx_set_get
#print axioms ctx_set_other
#print axioms ctx_interleaving_strong
#print axioms ctx_interleaving
#print axioms ctx_solo
#print axioms demoMix_ok
#print axioms demoPost_ok
#print axioms ctx_missing_reset_counterexample
#print axioms constZero_init
#print axioms constZero_step
#print axioms readsOkC_nil
#print axioms ctx_interleaving_const
#print axioms ctx_solo_const
#print axioms prog_readsOkC
#print axioms demoSeq_ok
#print axioms ctx_const_write_counterexample

end Agd.PoolCtx
