import Agd.Lemmas.Ratelimit
import Agd.Model.RatelimitConc
/-!
# C09, part 3: goroutines — linearizability of `RequestCounter.Add`, the creation race, clock skew
-/
namespace Agd.Ratelimit.Conc

open Agd.Ratelimit

/-! ## Sequential reference -/

/-- The ring after sequentially pushing the stamps `l` (in list order). -/
def seqRing (r : Ring) (l : List Int) : Ring := l.foldl Ring.push r

theorem seqRing_append (r : Ring) (l : List Int) (t : Int) :
    seqRing r (l ++ [t]) = (seqRing r l).push t := by
  simp [seqRing, List.foldl_append]

theorem ringRun_append (ivl : Int) (l : List Int) (t : Int) : ∀ r : Ring,
    ringRun ivl r (l ++ [t]) = ringRun ivl r l ++ [(ringAdd (seqRing r l) ivl t).2] := by
  induction l with
  | nil => intro r; simp [ringRun, seqRing]
  | cons a l ih =>
    intro r
    simp only [List.cons_append, ringRun, ih]
    rfl

/-! ## The invariant of the mutex-protected interleaving -/

/-- `o` = the goroutines that have completed `Add`, in the order in which they took the lock. -/
structure Inv (size : Nat) (ivl : Int) (stamps : List Int) (s : CSt) (o : List Nat) : Prop where
  len : s.ths.length = stamps.length
  ts : ∀ i th, s.ths[i]? = some th → th.ts = stampOf stamps i
  ord : s.order = o ++ s.holder.toList
  nodup : s.order.Nodup
  mem : ∀ i, i ∈ s.order ↔ ∃ th, s.ths[i]? = some th ∧ th.pc ≠ .start
  res : o.map (resultOf s) = (ringRun ivl (Ring.new size) (o.map (stampOf stamps))).map some
  hnone : s.holder = none → s.ring = seqRing (Ring.new size) (o.map (stampOf stamps))
  hsome : ∀ h, s.holder = some h → ∃ th, s.ths[h]? = some th ∧
    ((th.pc = .locked ∧ s.ring = seqRing (Ring.new size) (o.map (stampOf stamps))) ∨
     (th.pc = .pushed ∧ s.ring = seqRing (Ring.new size) ((o ++ [h]).map (stampOf stamps))))

theorem ts_set {stamps : List Int} {ths : List Th} {i : Nat} {th th' : Th}
    (h : ∀ j t, ths[j]? = some t → t.ts = stampOf stamps j) (hi : ths[i]? = some th)
    (hts : th'.ts = th.ts) : ∀ j t, (ths.set i th')[j]? = some t → t.ts = stampOf stamps j := by
  intro j t hj
  rw [List.getElem?_set] at hj
  by_cases hij : i = j
  · subst hij
    have hlt : i < ths.length := by
      rcases List.getElem?_eq_some_iff.mp hi with ⟨hl, _⟩; exact hl
    simp [hlt] at hj
    subst hj
    rw [hts]; exact h i th hi
  · simp [hij] at hj
    exact h j t hj

theorem lt_of_get {α : Type} {ths : List α} {i : Nat} {th : α} (hi : ths[i]? = some th) : i < ths.length := by
  rcases List.getElem?_eq_some_iff.mp hi with ⟨hl, _⟩; exact hl

theorem get_set_self {α : Type} {ths : List α} {i : Nat} {th x : α} (hi : ths[i]? = some th) :
    (ths.set i x)[i]? = some x := by
  rw [List.getElem?_set]; simp [lt_of_get hi]

theorem res_set {ths : List Th} {i : Nat} {x : Th} {o : List Nat} (hi : i ∉ o) :
    o.map (fun j => ((ths.set i x)[j]?).bind Th.result) = o.map (fun j => (ths[j]?).bind Th.result) := by
  apply List.map_congr_left
  intro j hj
  have : i ≠ j := fun h => hi (h ▸ hj)
  rw [List.getElem?_set_ne this]

theorem mem_set {ths : List Th} {ord : List Nat} {i : Nat} {th th' : Th}
    (hmem : ∀ j, j ∈ ord ↔ ∃ t, ths[j]? = some t ∧ t.pc ≠ .start) (hi : ths[i]? = some th)
    (hpc : th'.pc ≠ .start) :
    ∀ j, (j ∈ ord ∨ j = i) ↔ ∃ t, (ths.set i th')[j]? = some t ∧ t.pc ≠ .start := by
  intro j
  by_cases hij : j = i
  · subst hij
    rw [get_set_self hi]
    simp [hpc]
  · have : i ≠ j := fun h => hij h.symm
    rw [List.getElem?_set_ne this, ← hmem j]
    simp [hij]

/-- Goroutines of `o` have returned. -/
theorem done_of_mem {size : Nat} {ivl : Int} {stamps : List Int} {s : CSt} {o : List Nat}
    (h : Inv size ivl stamps s o) {i : Nat} (hi : i ∈ o) : ∃ b, resultOf s i = some b := by
  have h1 : resultOf s i ∈ o.map (resultOf s) := List.mem_map_of_mem hi
  rw [h.res] at h1
  rcases List.mem_map.mp h1 with ⟨b, _, hb⟩
  exact ⟨b, hb.symm⟩

theorem not_mem_of_not_done {size : Nat} {ivl : Int} {stamps : List Int} {s : CSt} {o : List Nat}
    (h : Inv size ivl stamps s o) {i : Nat} {th : Th} (hi : s.ths[i]? = some th)
    (hr : th.result = none) : i ∉ o := by
  intro hio
  obtain ⟨b, hb⟩ := done_of_mem h hio
  simp [resultOf, hi, hr] at hb

/-- A goroutine inside the critical section is the lock holder. -/
theorem holder_of_inside {size : Nat} {ivl : Int} {stamps : List Int} {s : CSt} {o : List Nat}
    (h : Inv size ivl stamps s o) {i : Nat} {th : Th} (hi : s.ths[i]? = some th)
    (hr : th.result = none) (hpc : th.pc ≠ .start) : s.holder = some i ∧ i ∉ o := by
  have hno := not_mem_of_not_done h hi hr
  have hin : i ∈ s.order := (h.mem i).mpr ⟨th, hi, hpc⟩
  rw [h.ord] at hin
  rcases List.mem_append.mp hin with hin | hin
  · exact absurd hin hno
  · cases hh : s.holder with
    | none => simp [hh] at hin
    | some k => simp [hh] at hin; subst hin; exact ⟨rfl, hno⟩

theorem inv_step (size : Nat) (ivl : Int) (stamps : List Int) (s : CSt) (o : List Nat) (i : Nat)
    (h : Inv size ivl stamps s o) : ∃ o', Inv size ivl stamps (step true ivl s i) o' := by
  unfold step
  cases hth : s.ths[i]? with
  | none => exact ⟨o, h⟩
  | some th =>
    simp only []
    cases hpc : th.pc with
    | done b => exact ⟨o, h⟩
    | start =>
      simp only []
      cases hh : s.holder with
      | some k => simp only [Bool.true_and, Option.isSome_some, if_true]; exact ⟨o, h⟩
      | none =>
        simp only [Bool.true_and, Option.isSome_none, Bool.false_eq_true, if_false, if_true]
        have hord : s.order = o := by simpa [hh] using h.ord
        have hnot : i ∉ s.order := by
          intro hin
          obtain ⟨t, ht, hne⟩ := (h.mem i).mp hin
          rw [hth] at ht; cases ht; exact hne hpc
        refine ⟨o, ?_⟩
        constructor
        · simpa using h.len
        · exact ts_set h.ts hth rfl
        · simp [hord]
        · show (s.order ++ [i]).Nodup
          rw [List.nodup_append]
          refine ⟨h.nodup, by simp, ?_⟩
          intro a ha b hb
          simp at hb; subst hb
          intro hab; subst hab; exact hnot ha
        · intro j
          have := mem_set (th' := { th with pc := .locked }) h.mem hth (by simp) j
          simpa using this
        · show o.map (fun j => ((s.ths.set i _)[j]?).bind Th.result) = _
          rw [res_set (hord ▸ hnot)]
          exact h.res
        · intro hc; cases hc
        · intro k hk
          cases hk
          exact ⟨_, get_set_self hth, Or.inl ⟨rfl, h.hnone hh⟩⟩
    | locked =>
      simp only []
      obtain ⟨hh, hno⟩ := holder_of_inside h hth (by simp [Th.result, hpc]) (by simp [hpc])
      obtain ⟨t, ht, hcase⟩ := h.hsome i hh
      rw [hth] at ht; cases ht
      have hring : s.ring = seqRing (Ring.new size) (o.map (stampOf stamps)) := by
        rcases hcase with ⟨_, hr⟩ | ⟨hp, _⟩
        · exact hr
        · rw [hpc] at hp; cases hp
      have hin : i ∈ s.order := (h.mem i).mpr ⟨th, hth, by simp [hpc]⟩
      refine ⟨o, ?_⟩
      constructor
      · simpa using h.len
      · exact ts_set h.ts hth rfl
      · exact h.ord
      · exact h.nodup
      · intro j
        have := mem_set (th' := { th with pc := .pushed }) h.mem hth (by simp) j
        rw [← this]
        constructor
        · exact Or.inl
        · rintro (hj | hj)
          · exact hj
          · subst hj; exact hin
      · show o.map (fun j => ((s.ths.set i _)[j]?).bind Th.result) = _
        rw [res_set hno]
        exact h.res
      · intro hc; rw [hh] at hc; cases hc
      · intro k hk
        have hk' : s.holder = some k := hk
        rw [hh] at hk'; cases hk'
        refine ⟨_, get_set_self hth, Or.inr ⟨rfl, ?_⟩⟩
        show s.ring.push th.ts = _
        rw [List.map_append, List.map_singleton, seqRing_append, ← hring, h.ts i th hth]
    | pushed =>
      simp only []
      obtain ⟨hh, hno⟩ := holder_of_inside h hth (by simp [Th.result, hpc]) (by simp [hpc])
      obtain ⟨t, ht, hcase⟩ := h.hsome i hh
      rw [hth] at ht; cases ht
      have hring : s.ring = seqRing (Ring.new size) ((o ++ [i]).map (stampOf stamps)) := by
        rcases hcase with ⟨hp, _⟩ | ⟨_, hr⟩
        · rw [hpc] at hp; cases hp
        · exact hr
      have hin : i ∈ s.order := (h.mem i).mpr ⟨th, hth, by simp [hpc]⟩
      refine ⟨o ++ [i], ?_⟩
      constructor
      · simpa using h.len
      · exact ts_set h.ts hth rfl
      · show s.order = o ++ [i] ++ _
        simp [h.ord, hh]
      · exact h.nodup
      · intro j
        have := mem_set (th' := { th with pc := .done (decide (s.ring.current > 0) &&
            decide (th.ts - s.ring.current ≤ ivl)) }) h.mem hth (by simp) j
        rw [← this]
        constructor
        · exact Or.inl
        · rintro (hj | hj)
          · exact hj
          · subst hj; exact hin
      · show (o ++ [i]).map (fun j => ((s.ths.set i _)[j]?).bind Th.result) = _
        rw [List.map_append, res_set hno]
        simp only [List.map_append, List.map_singleton, ringRun_append]
        have := h.res
        unfold resultOf at this
        rw [this]
        simp only [get_set_self hth]
        rw [List.map_append, List.map_singleton, seqRing_append] at hring
        simp [Th.result, ringAdd, ← hring, h.ts i th hth]
      · intro _
        exact hring
      · intro k hk; cases hk

theorem inv_run (size : Nat) (ivl : Int) (stamps : List Int) (sched : List Nat) :
    ∀ (s : CSt) (o : List Nat), Inv size ivl stamps s o →
      ∃ o', Inv size ivl stamps (run true ivl s sched) o' := by
  induction sched with
  | nil => intro s o h; exact ⟨o, h⟩
  | cons i r ih =>
    intro s o h
    obtain ⟨o', h'⟩ := inv_step size ivl stamps s o i h
    exact ih _ o' h'

theorem inv_init (size : Nat) (ivl : Int) (stamps : List Int) :
    Inv size ivl stamps (init size stamps) [] := by
  constructor
  · simp [init]
  · intro i th hi
    simp only [init, List.getElem?_map] at hi
    unfold stampOf
    cases hs : stamps[i]? with
    | none => simp [hs] at hi
    | some t => simp [hs] at hi; subst hi; simp [List.getD, hs]
  · simp [init]
  · simp [init]
  · intro i
    simp only [init, List.getElem?_map]
    cases stamps[i]? <;> simp
  · simp [ringRun]
  · intro _; simp [init, seqRing]
  · intro k hk; simp [init] at hk

/-- **mutex_linearizable.** With the mutex, every schedule that lets all goroutines return is a
sequential history in lock-acquisition order: `order` is a permutation of all goroutines and the
verdicts they returned are those of the sequential `ringRun` over their stamps in that order. -/
theorem mutex_linearizable (size : Nat) (ivl : Int) (stamps : List Int) (sched : List Nat)
    (hdone : allDone (run true ivl (init size stamps) sched) = true) :
    let f := run true ivl (init size stamps) sched
    f.order.Perm (List.range stamps.length) ∧
    f.order.map (resultOf f) = (ringRun ivl (Ring.new size) (f.order.map (stampOf stamps))).map some := by
  intro f
  obtain ⟨o, h⟩ : ∃ o, Inv size ivl stamps f o :=
    inv_run size ivl stamps sched _ _ (inv_init size ivl stamps)
  have hdone : allDone f = true := hdone
  clear_value f
  have hall : ∀ th ∈ f.ths, th.result.isSome = true := by
    simpa [allDone] using hdone
  have hh : f.holder = none := by
    cases hk : f.holder with
    | none => rfl
    | some k =>
      obtain ⟨th, hth, hc⟩ := h.hsome k hk
      have := hall th (List.mem_of_getElem? hth)
      rcases hc with ⟨hp, _⟩ | ⟨hp, _⟩ <;> simp [Th.result, hp] at this
  have hord : f.order = o := by simpa [hh] using h.ord
  refine ⟨?_, ?_⟩
  · rw [List.perm_ext_iff_of_nodup h.nodup List.nodup_range]
    intro a
    rw [h.mem a, List.mem_range, ← h.len]
    constructor
    · rintro ⟨th, hth, _⟩; exact lt_of_get hth
    · intro ha
      refine ⟨f.ths[a], List.getElem?_eq_getElem ha, ?_⟩
      have := hall f.ths[a] (List.getElem_mem ha)
      intro hp
      simp [Th.result, hp] at this
  · rw [hord]; exact h.res

/-! ## Without the mutex, and the get-or-create race -/

/-- **racy_add.** Without the mutex there is a schedule (both goroutines push, then both read
`Current()`) in which both calls report "above the limit", which neither sequential order does. -/
theorem racy_add_counterexample :
    (run false 100 (init 2 [5, 6]) [0, 0, 1, 1, 0, 1]).ths.map Th.result = [some true, some true] ∧
    ringRun 100 (Ring.new 2) [5, 6] = [false, true] ∧ ringRun 100 (Ring.new 2) [6, 5] = [false, true] := by
  decide

/-- **creation_race.** Limit 1, cold slot, two goroutines: when both miss the cache before either
stores its new counter, both requests pass; run one after the other, the second is dropped. -/
theorem creation_race_counterexample :
    gresults (grun 1 100 (ginit false [5, 6]) [0, 1, 0, 1, 0, 1]) = [some false, some false] ∧
    gresults (grun 1 100 (ginit false [5, 6]) [0, 0, 0, 1, 1, 1]) = [some false, some true] ∧
    gresults (grun 1 100 (ginit false [5, 6]) [1, 1, 1, 0, 0, 0]) = [some true, some false] := by
  decide

/-! ## Clock skew: stamps are read before the lock is taken -/

/-- `δ`-almost sorted, most recent push first: an element pushed earlier exceeds one pushed later by
at most `δ`. -/
def AlmostDesc (δ : Int) : List Int → Prop
  | [] => True
  | a :: r => (∀ x ∈ r, x ≤ a + δ) ∧ AlmostDesc δ r

theorem almost_take {δ : Int} (hδ : 0 ≤ δ) : ∀ (l : List Int) (n : Nat) (tail : Int),
    AlmostDesc δ l → l[n]? = some tail → ∀ x ∈ l.take (n + 1), tail ≤ x + δ := by
  intro l
  induction l with
  | nil => intro n tail _ h; simp at h
  | cons a r ih =>
    intro n tail hd hg x hx
    cases n with
    | zero =>
      simp at hg hx; subst hg; subst hx; omega
    | succ m =>
      simp only [List.getElem?_cons_succ] at hg
      simp only [List.take_succ_cons, List.mem_cons] at hx
      rcases hx with hx | hx
      · subst hx; exact hd.1 tail (List.mem_of_getElem? hg)
      · exact ih m tail hd.2 hg x hx

theorem almost_drop {δ : Int} : ∀ (l : List Int) (n : Nat) (tail : Int),
    AlmostDesc δ l → l[n]? = some tail → ∀ x ∈ l.drop (n + 1), x ≤ tail + δ := by
  intro l
  induction l with
  | nil => intro n tail _ h; simp at h
  | cons a r ih =>
    intro n tail hd hg x hx
    cases n with
    | zero =>
      simp at hg hx; subst hg; exact hd.1 x hx
    | succ m =>
      simp only [List.getElem?_cons_succ] at hg
      simp only [List.drop_succ_cons] at hx
      exact ih m tail hd.2 hg x hx

theorem desc_almostDesc : ∀ l : List Int, Desc l → AlmostDesc 0 l := by
  intro l
  induction l with
  | nil => intro _; trivial
  | cons a r ih =>
    intro hd
    refine ⟨?_, ih (desc_tail hd)⟩
    intro x hx
    have := desc_head_le hd x hx
    omega

/-- **counter_skew_sandwich.** If the push order differs from the stamp order by at most `δ`, the
verdict of `Add` lies between the window-log specification for `ivl - δ` and the one for `ivl + δ`. -/
theorem counter_skew_sandwich (num : Nat) (ivl δ : Int) (hist : List Int) (ts : Int) (hδ : 0 ≤ δ)
    (hivl : 0 ≤ ivl)
    (hd : AlmostDesc δ (ts :: hist)) (hpos : ∀ x ∈ hist, 0 < x) (hts : 0 < ts) :
    (aboveSpec num (ivl - δ) hist ts = true → above num ivl hist ts = true) ∧
    (above num ivl hist ts = true → aboveSpec num (ivl + δ) hist ts = true) := by
  have hdh : AlmostDesc δ hist := hd.2
  unfold above aboveSpec
  cases num with
  | zero => simp [hts, hivl]
  | succ n =>
    simp only [List.getElem?_cons_succ]
    constructor
    · intro hsp
      have hsp : n + 1 ≤ (hist.filter (fun t => decide (ts - t ≤ ivl - δ))).length := by
        simpa using hsp
      have hlen : n < hist.length := by
        have := List.length_filter_le (fun t => decide (ts - t ≤ ivl - δ)) hist
        omega
      have hg : hist[n]? = some hist[n] := List.getElem?_eq_getElem hlen
      have hp := hpos _ (List.getElem_mem hlen)
      rw [hg]
      by_cases hw : ts - hist[n] ≤ ivl
      · simp [hp, hw]
      · exfalso
        have hsplit : hist = hist.take n ++ hist[n] :: hist.drop (n + 1) := by
          rw [← List.drop_eq_getElem_cons hlen, List.take_append_drop]
        have hfd : (hist.drop (n + 1)).filter (fun t => decide (ts - t ≤ ivl - δ)) = [] := by
          apply List.filter_eq_nil_iff.mpr
          intro x hx
          have := almost_drop hist n hist[n] hdh hg x hx
          simp; omega
        have hft : ¬ (ts - hist[n] ≤ ivl - δ) := by omega
        have hcnt : (hist.filter (fun t => decide (ts - t ≤ ivl - δ))).length ≤ n := by
          have h1 := List.length_filter_le (fun t => decide (ts - t ≤ ivl - δ)) (hist.take n)
          have h2 : (hist.take n).length ≤ n := by simp; omega
          have h3 : hist.filter (fun t => decide (ts - t ≤ ivl - δ)) =
              (hist.take n).filter (fun t => decide (ts - t ≤ ivl - δ)) := by
            conv => lhs; rw [hsplit]
            rw [List.filter_append, List.filter_cons]
            simp [hft, hfd]
          rw [h3]; omega
        omega
    · intro hab
      cases hg : hist[n]? with
      | none => simp [hg] at hab
      | some tail =>
        simp [hg] at hab
        have hlen : n < hist.length := by
          rcases List.getElem?_eq_some_iff.mp hg with ⟨hl, _⟩; exact hl
        have hall : (hist.take (n + 1)).filter (fun t => decide (ts - t ≤ ivl + δ)) = hist.take (n + 1) := by
          apply List.filter_eq_self.mpr
          intro x hx
          have := almost_take hδ hist n tail hdh hg x hx
          simp; omega
        have h3 : hist.filter (fun t => decide (ts - t ≤ ivl + δ)) =
            hist.take (n + 1) ++ (hist.drop (n + 1)).filter (fun t => decide (ts - t ≤ ivl + δ)) := by
          conv => lhs; rw [← List.take_append_drop (n + 1) hist]
          rw [List.filter_append, hall]
        rw [h3]
        simp
        omega

/-- With no skew (`δ = 0`, stamps descending) the sandwich collapses to `above_eq_spec`. -/
theorem counter_skew_zero (num : Nat) (ivl : Int) (hist : List Int) (ts : Int) (hivl : 0 ≤ ivl)
    (hd : Desc (ts :: hist)) (hpos : ∀ x ∈ hist, 0 < x) (hts : 0 < ts) :
    above num ivl hist ts = aboveSpec num ivl hist ts := by
  have h := counter_skew_sandwich num ivl 0 hist ts (Int.le_refl 0) hivl
    (desc_almostDesc _ hd) hpos hts
  simp only [Int.sub_zero, Int.add_zero] at h
  cases ha : above num ivl hist ts <;> cases hs : aboveSpec num ivl hist ts <;> simp_all

/-! ## Warm slot: the get-or-create is harmless once the counter exists -/

def GTh.result (t : GTh) : Option Bool :=
  match t.pc with
  | .done r => some r
  | _ => none

/-- What goroutine `i` returned. -/
def gresultOf (s : GSt) (i : Nat) : Option Bool := (s.ths[i]?).bind GTh.result

theorem gresultOf_eq (s : GSt) (i : Nat) : gresultOf s i = (gresults s).getD i none := by
  simp only [gresultOf, gresults, List.getD, List.getElem?_map]
  cases s.ths[i]? <;> rfl

/-- `[i]` if this scheduler step of goroutine `i` is its `r.Add(now)`, else `[]`. -/
def addStep (s : GSt) (i : Nat) : List Nat :=
  match s.ths[i]? with
  | some th => (match th.pc with | .add _ => [i] | _ => [])
  | none => []

/-- The goroutines in the order in which they performed their `Add`, recovered by replaying the
schedule. -/
def addOrder (num : Nat) (ivl : Int) : GSt → List Nat → List Nat
  | _, [] => []
  | s, i :: r => addStep s i ++ addOrder num ivl (gstep num ivl s i) r

def ctrState (c : Counter) (l : List Int) : Counter := l.foldl (fun c t => (c.add t).1) c

theorem ctrRun_append (l : List Int) (t : Int) : ∀ c : Counter,
    ctrRun c (l ++ [t]) = ctrRun c l ++ [((ctrState c l).add t).2] := by
  induction l with
  | nil => intro c; simp [ctrRun, ctrState]
  | cons a l ih =>
    intro c
    simp only [List.cons_append, ctrRun, ih]
    rfl

theorem ctrState_eq (l : List Int) : ∀ c : Counter,
    ctrState c l = { c with hist := l.reverse ++ c.hist } := by
  induction l with
  | nil => intro c; simp [ctrState]
  | cons a l ih =>
    intro c
    have : ctrState c (a :: l) = ctrState (c.add a).1 l := rfl
    rw [this, ih]
    simp [Counter.add]

structure GInv (num : Nat) (ivl : Int) (stamps : List Int) (s : GSt) (o : List Nat) : Prop where
  len : s.ths.length = stamps.length
  ts : ∀ i th, s.ths[i]? = some th → th.ts = stampOf stamps i
  slot : s.slot = some 0
  pcs : ∀ (i : Nat) (th : GTh), s.ths[i]? = some th → th.pc = .get ∨ th.pc = .add 0 ∨ ∃ b, th.pc = .done b
  nodup : o.Nodup
  mem : ∀ i, i ∈ o ↔ ∃ th, s.ths[i]? = some th ∧ ∃ b, th.pc = .done b
  obj : s.objs 0 = (o.map (stampOf stamps)).reverse
  res : o.map (gresultOf s) = (ctrRun (Counter.new num ivl) (o.map (stampOf stamps))).map some

theorem gts_set {stamps : List Int} {ths : List GTh} {i : Nat} {th th' : GTh}
    (h : ∀ j t, ths[j]? = some t → t.ts = stampOf stamps j) (hi : ths[i]? = some th)
    (hts : th'.ts = th.ts) : ∀ j t, (ths.set i th')[j]? = some t → t.ts = stampOf stamps j := by
  intro j t hj
  by_cases hij : i = j
  · subst hij
    rw [get_set_self hi] at hj
    cases hj
    rw [hts]; exact h i th hi
  · rw [List.getElem?_set_ne hij] at hj
    exact h j t hj

theorem gpcs_set {ths : List GTh} {i : Nat} {th th' : GTh}
    (h : ∀ (j : Nat) (t : GTh), ths[j]? = some t → t.pc = .get ∨ t.pc = .add 0 ∨ ∃ b, t.pc = .done b)
    (hi : ths[i]? = some th) (hpc : th'.pc = .get ∨ th'.pc = .add 0 ∨ ∃ b, th'.pc = .done b) :
    ∀ (j : Nat) (t : GTh), (ths.set i th')[j]? = some t → t.pc = .get ∨ t.pc = .add 0 ∨ ∃ b, t.pc = .done b := by
  intro j t hj
  by_cases hij : i = j
  · subst hij
    rw [get_set_self hi] at hj
    cases hj
    exact hpc
  · rw [List.getElem?_set_ne hij] at hj
    exact h j t hj

theorem gres_set {ths : List GTh} {i : Nat} {x : GTh} {o : List Nat} (hi : i ∉ o) :
    o.map (fun j => ((ths.set i x)[j]?).bind GTh.result) = o.map (fun j => (ths[j]?).bind GTh.result) := by
  apply List.map_congr_left
  intro j hj
  have : i ≠ j := fun h => hi (h ▸ hj)
  rw [List.getElem?_set_ne this]

theorem ginv_step (num : Nat) (ivl : Int) (stamps : List Int) (s : GSt) (o : List Nat) (i : Nat)
    (h : GInv num ivl stamps s o) : GInv num ivl stamps (gstep num ivl s i) (o ++ addStep s i) := by
  unfold gstep addStep
  cases hth : s.ths[i]? with
  | none => simpa using h
  | some th =>
    simp only []
    have hpcs := h.pcs i th hth
    cases hpc : th.pc with
    | miss => rw [hpc] at hpcs; simp at hpcs
    | done b => simpa using h
    | get =>
      simp only [h.slot, List.append_nil]
      have hno : i ∉ o := by
        intro hin
        obtain ⟨t, ht, b, hb⟩ := (h.mem i).mp hin
        rw [hth] at ht; cases ht; rw [hpc] at hb; cases hb
      constructor
      · simpa using h.len
      · exact gts_set h.ts hth rfl
      · rfl
      · exact gpcs_set h.pcs hth (Or.inr (Or.inl rfl))
      · exact h.nodup
      · intro j
        show j ∈ o ↔ ∃ t, (s.ths.set i _)[j]? = some t ∧ ∃ b, t.pc = .done b
        by_cases hij : i = j
        · subst hij
          rw [get_set_self hth]
          simp [hno]
        · rw [List.getElem?_set_ne hij]; exact h.mem j
      · exact h.obj
      · show o.map (fun j => ((s.ths.set i _)[j]?).bind GTh.result) = _
        rw [gres_set hno]; exact h.res
    | add ob =>
      have hob : ob = 0 := by
        rw [hpc] at hpcs; simpa using hpcs
      subst hob
      simp only []
      have hno : i ∉ o := by
        intro hin
        obtain ⟨t, ht, b, hb⟩ := (h.mem i).mp hin
        rw [hth] at ht; cases ht; rw [hpc] at hb; cases hb
      constructor
      · simpa using h.len
      · exact gts_set h.ts hth rfl
      · exact h.slot
      · exact gpcs_set h.pcs hth (Or.inr (Or.inr ⟨_, rfl⟩))
      · rw [List.nodup_append]
        refine ⟨h.nodup, by simp, ?_⟩
        intro a ha b hb
        simp at hb; subst hb
        intro hab; subst hab; exact hno ha
      · intro j
        show j ∈ o ++ [i] ↔ ∃ t, (s.ths.set i _)[j]? = some t ∧ ∃ b, t.pc = .done b
        by_cases hij : i = j
        · subst hij
          rw [get_set_self hth]
          simp
        · rw [List.getElem?_set_ne hij, ← h.mem j]
          have : ¬ j = i := fun e => hij e.symm
          simp [this]
      · show (if (0 : Nat) = 0 then th.ts :: s.objs 0 else s.objs 0) = _
        simp [h.obj, h.ts i th hth]
      · show (o ++ [i]).map (fun j => ((s.ths.set i _)[j]?).bind GTh.result) = _
        rw [List.map_append, gres_set hno]
        simp only [List.map_append, List.map_singleton, ctrRun_append, ctrState_eq]
        have := h.res
        unfold gresultOf at this
        rw [this]
        simp only [get_set_self hth]
        simp [GTh.result, Counter.add, Counter.new, h.obj, h.ts i th hth]

theorem ginv_run (num : Nat) (ivl : Int) (stamps : List Int) (sched : List Nat) :
    ∀ (s : GSt) (o : List Nat), GInv num ivl stamps s o →
      GInv num ivl stamps (grun num ivl s sched) (o ++ addOrder num ivl s sched) := by
  induction sched with
  | nil => intro s o h; simpa [grun, addOrder] using h
  | cons i r ih =>
    intro s o h
    have h' := ih _ _ (ginv_step num ivl stamps s o i h)
    simpa [grun, addOrder, List.append_assoc] using h'

theorem ginv_init (num : Nat) (ivl : Int) (stamps : List Int) :
    GInv num ivl stamps (ginit true stamps) [] := by
  constructor
  · simp [ginit]
  · intro i th hi
    simp only [ginit, List.getElem?_map] at hi
    unfold stampOf
    cases hs : stamps[i]? with
    | none => simp [hs] at hi
    | some t => simp [hs] at hi; subst hi; simp [List.getD, hs]
  · simp [ginit]
  · intro i th hi
    simp only [ginit, List.getElem?_map] at hi
    cases hs : stamps[i]? with
    | none => simp [hs] at hi
    | some t => simp [hs] at hi; subst hi; simp
  · simp
  · intro i
    simp only [ginit, List.getElem?_map]
    cases stamps[i]? <;> simp
  · simp [ginit]
  · simp [ctrRun]

/-- **warm_slot_linearizable.** Once the counter object is in the cache, every schedule that lets
all goroutines return is a sequential history: the order `o` in which the goroutines performed their
`Add` step is a permutation of all of them, and their verdicts are exactly those of the sequential
counter over their stamps in that order. -/
theorem warm_slot_linearizable (num : Nat) (ivl : Int) (stamps : List Int) (sched : List Nat)
    (hdone : gAllDone (grun num ivl (ginit true stamps) sched) = true) :
    let f := grun num ivl (ginit true stamps) sched
    let o := addOrder num ivl (ginit true stamps) sched
    o.Perm (List.range stamps.length) ∧
    o.map (fun i => (gresults f).getD i none) =
      (ctrRun (Counter.new num ivl) (o.map (stampOf stamps))).map some := by
  intro f o
  have h : GInv num ivl stamps f o := by
    have := ginv_run num ivl stamps sched _ _ (ginv_init num ivl stamps)
    simpa using this
  have hdone : gAllDone f = true := hdone
  clear_value o f
  have hall : ∀ th ∈ f.ths, ∃ b, th.pc = .done b := by
    intro th hth
    have : ∀ x ∈ gresults f, x.isSome = true := by simpa [gAllDone] using hdone
    have := this _ (List.mem_map_of_mem (f := fun t : GTh => match t.pc with | .done r => some r | _ => none) hth)
    cases hp : th.pc <;> simp [hp] at this ⊢
  refine ⟨?_, ?_⟩
  · rw [List.perm_ext_iff_of_nodup h.nodup List.nodup_range]
    intro a
    rw [h.mem a, List.mem_range, ← h.len]
    constructor
    · rintro ⟨th, hth, _⟩; exact lt_of_get hth
    · intro ha
      exact ⟨f.ths[a], List.getElem?_eq_getElem ha, hall _ (List.getElem_mem ha)⟩
  · have := h.res
    rw [← this]
    apply List.map_congr_left
    intro i _
    exact (gresultOf_eq f i).symm

end Agd.Ratelimit.Conc

#print axioms Agd.Ratelimit.Conc.mutex_linearizable
#print axioms Agd.Ratelimit.Conc.racy_add_counterexample
#print axioms Agd.Ratelimit.Conc.creation_race_counterexample
#print axioms Agd.Ratelimit.Conc.warm_slot_linearizable
#print axioms Agd.Ratelimit.Conc.counter_skew_sandwich
#print axioms Agd.Ratelimit.Conc.counter_skew_zero
