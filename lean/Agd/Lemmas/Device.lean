import Agd.Model.Device
/-!
Specification predicates and helper lemmas for C03 (device recognition).
-/
namespace Agd.Device

/-! ## Specification vocabulary -/

/-- The request carries identifier `dd` through a channel that is valid for the server's transport:
basic-auth user or URL path on DoH, TLS server name directly under a configured device domain on
DoH/DoT/DoQ, the dnsmasq CPE-ID option on plain DNS.  Declarative: no precedence between channels. -/
inductive Carried (s : Srv) (rq : Req) : DevData → Prop
  | dohUser (u : Str) (pw : Option Str) :
      s.proto = .doh → rq.userinfo = some (u, pw) → Carried s rq (.id u)
  | dohPath (e0 e1 : Str) (dd : DevData) :
      s.proto = .doh → rq.userinfo = none → pathElements rq.path = some [e0, e1] →
      parseDeviceData e1 = some dd → Carried s rq dd
  | sni (dom : Str) (dd : DevData) :
      s.proto.isStdEncrypted = true → (s.proto = .doh → rq.userinfo = none) → dom ∈ s.domains →
      isImmediateSubdomain (lower rq.sni) dom = true →
      parseDeviceData (sniLabel rq.sni) = some dd → Carried s rq dd
  | edns (opts : List EOpt) (o : EOpt) :
      s.proto = .dns → rq.edns = some opts → o ∈ opts → o.code = cpeIDOption → Carried s rq (.id o.data)

/-- The database maps identifier `dd` to profile `p` and device `d`. -/
inductive Maps (db : DB) : DevData → Profile → Device → Prop
  | byID (i : Str) (p : Profile) (d : Device) : db.byDeviceID i = .found p d → Maps db (.id i) p d
  | byHuman (dt : Nat) (pid hid : Str) (p : Profile) (d : Device) :
      db.byHumanID pid (lower hid) = .found p d → Maps db (.ext dt pid hid) p d
  | auto (dt : Nat) (pid hid : Str) (p : Profile) (d : Device) :
      db.byHumanID pid (lower hid) = .devNotFound → db.createAuto pid hid dt = .found p d →
      Maps db (.ext dt pid hid) p d

/-- Recognition by address: plain DNS only; a dedicated (not the server's own) local address of an
interface-bound server, or the remote address where linked IPs are enabled. -/
def ByAddress (s : Srv) (db : DB) (rq : Req) (p : Profile) (d : Device) : Prop :=
  s.proto = .dns ∧
    ((s.bindsToInterfaces = true ∧ s.hasAddr rq.lip rq.lport = false ∧ db.byDedicatedIP rq.lip = .found p d) ∨
     (s.linkedIP = true ∧ db.byLinkedIP rq.rip = .found p d))

/-- The device's authentication policy is met by the request. -/
def AuthMet (s : Srv) (rq : Req) (d : Device) : Prop :=
  d.auth.enabled = true →
    (d.auth.dohOnly = true →
      s.proto = .doh ∧ ∃ u pw, rq.userinfo = some (u, some pw) ∧ d.auth.check pw = true) ∧
    (s.proto = .doh → ∀ u pw, rq.userinfo = some (u, pw) → ∃ pass, pw = some pass ∧ d.auth.check pass = true)

/-- A database whose successful lookups return a device that has the looked-up identifier and is
listed in the returned profile (what `profiledb.Default` re-checks on every lookup). -/
structure DB.WF (db : DB) : Prop where
  byID : ∀ i p d, db.byDeviceID i = .found p d → d.id = i ∧ d.id ∈ p.devices
  byHuman : ∀ pid h p d, db.byHumanID pid h = .found p d → p.id = pid ∧ d.humanLower = h ∧ d.id ∈ p.devices
  auto : ∀ pid h dt p d, db.createAuto pid h dt = .found p d →
    p.id = pid ∧ d.humanLower = lower h ∧ d.id ∈ p.devices
  linked : ∀ a p d, db.byLinkedIP a = .found p d → d.linkedIP = some a ∧ d.id ∈ p.devices
  ded : ∀ a p d, db.byDedicatedIP a = .found p d → a ∈ d.dedicated ∧ d.id ∈ p.devices

/-- Identifier `dd` is device `d`'s own (device ID, or profile ID + human-readable ID). -/
def Owns (p : Profile) (d : Device) : DevData → Prop
  | .id i => d.id = i
  | .ext _ pid hid => p.id = pid ∧ d.humanLower = lower hid
  | .nothing => False

/-- The request's addresses are device `d`'s own. -/
def OwnAddress (s : Srv) (rq : Req) (d : Device) : Prop :=
  s.proto = .dns ∧
    ((s.bindsToInterfaces = true ∧ s.hasAddr rq.lip rq.lport = false ∧ rq.lip ∈ d.dedicated) ∨
     (s.linkedIP = true ∧ d.linkedIP = some rq.rip))

/-- Two requests agree on every channel that is valid for transport `pr`. -/
def SameChannels (pr : Proto) (a b : Req) : Prop :=
  match pr with
  | .dns => a.edns = b.edns ∧ a.lip = b.lip ∧ a.lport = b.lport ∧ a.rip = b.rip
  | .doh => a.userinfo = b.userinfo ∧ (a.userinfo = none → a.path = b.path ∧ a.sni = b.sni)
  | .dot => a.sni = b.sni
  | .doq => a.sni = b.sni
  | _ => True

/-! ## Inversion lemmas -/

theorem newDeviceResult_ok {r : DBRes} {p : Profile} {d : Device}
    (h : newDeviceResult r = .ok p d) : r = .found p d := by
  cases r <;> simp [newDeviceResult] at h
  obtain ⟨rfl, rfl⟩ := h; rfl

theorem parseDeviceData_ne_nothing {l : Str} : parseDeviceData l ≠ some .nothing := by
  unfold parseDeviceData
  split
  · split <;> simp
  · split <;> simp

theorem deviceIDFromOpts_ok {opts : List EOpt} {dd : DevData} (h : deviceIDFromOpts opts = .ok dd) :
    dd = .nothing ∨ ∃ o ∈ opts, o.code = cpeIDOption ∧ dd = .id o.data := by
  induction opts with
  | nil => simp [deviceIDFromOpts] at h; exact Or.inl h.symm
  | cons o r ih =>
    unfold deviceIDFromOpts at h
    split at h
    · rename_i hc
      split at h
      · injection h with h; exact Or.inr ⟨o, by simp, hc, h.symm⟩
      · cases h
    · rcases ih h with h1 | ⟨o', ho', hc', hd'⟩
      · exact Or.inl h1
      · exact Or.inr ⟨o', by simp [ho'], hc', hd'⟩

theorem matchDomain_some {sni : Str} {doms : List Str} {d : Str} (h : matchDomain sni doms = some d) :
    d ∈ doms ∧ isImmediateSubdomain (lower sni) d = true := by
  induction doms with
  | nil => simp [matchDomain] at h
  | cons x r ih =>
    unfold matchDomain at h
    split at h
    · injection h with h; subst h; exact ⟨by simp, by assumption⟩
    · have := ih h; exact ⟨by simp [this.1], this.2⟩

theorem sniStep_ok {s : Srv} {rq : Req} {dd : DevData} (h : deviceDataFromSNIStep s rq = .ok dd) :
    dd = .nothing ∨ ∃ dom ∈ s.domains, isImmediateSubdomain (lower rq.sni) dom = true ∧
      parseDeviceData (sniLabel rq.sni) = some dd := by
  unfold deviceDataFromSNIStep at h
  split at h
  · injection h with h; exact Or.inl h.symm
  · split at h
    · cases h
    · rename_i d0 hd0
      injection h with h; subst h
      unfold deviceDataFromSNI at hd0
      split at hd0
      · injection hd0 with h; exact Or.inl h.symm
      · split at hd0
        · injection hd0 with h; exact Or.inl h.symm
        · rename_i dom hm
          split at hd0
          · injection hd0 with h; exact Or.inl h.symm
          · have := matchDomain_some hm
            exact Or.inr ⟨dom, this.1, this.2, hd0⟩

theorem dohURL_some {p : Str} {dd : DevData} (h : deviceDataFromDoHURL p = some dd) :
    dd = .nothing ∨ ∃ e0 e1, pathElements p = some [e0, e1] ∧ parseDeviceData e1 = some dd := by
  unfold deviceDataFromDoHURL at h
  split at h
  · cases h
  · rename_i e0 e1 hp; exact Or.inr ⟨e0, e1, hp, h⟩
  · injection h with h; exact Or.inl h.symm

theorem dohData_ok {s : Srv} {rq : Req} {d0 : DevData} (hdoh : s.proto = .doh)
    (h : deviceDataForDoH rq = .ok d0) :
    (d0 = .nothing ∧ rq.userinfo = none) ∨ (d0 ≠ .nothing ∧ Carried s rq d0) := by
  unfold deviceDataForDoH at h
  split at h
  · rename_i u pw hui
    split at h
    · injection h with h; subst h; exact Or.inr ⟨by simp, .dohUser u pw hdoh hui⟩
    · cases h
  · rename_i hui
    split at h
    · cases h
    · rename_i d1 hd1
      injection h with h; subst h
      rcases dohURL_some hd1 with h1 | ⟨e0, e1, hpe, hpd⟩
      · exact Or.inl ⟨h1, hui⟩
      · have hne : d1 ≠ .nothing := fun hh => parseDeviceData_ne_nothing (hh ▸ hpd)
        exact Or.inr ⟨hne, .dohPath e0 e1 _ hdoh hui hpe hpd⟩

/-- Whatever `deviceData` extracts was carried through a channel of the transport. -/
theorem deviceData_carried {s : Srv} {rq : Req} {dd : DevData}
    (hs : supportsDeviceID s.proto = true) (h : deviceData s rq = .ok dd) :
    dd = .nothing ∨ Carried s rq dd := by
  unfold deviceData at h
  split at h
  · rename_i henc
    have sniCase : (s.proto = .doh → rq.userinfo = none) → deviceDataFromSNIStep s rq = .ok dd →
        dd = .nothing ∨ Carried s rq dd := by
      intro hu h
      rcases sniStep_ok h with h1 | ⟨dom, hdom, himm, hp⟩
      · exact Or.inl h1
      · exact Or.inr (.sni dom dd henc hu hdom himm hp)
    unfold deviceDataFromSrvReqInfo at h
    split at h
    · rename_i hdoh
      cases hd : deviceDataForDoH rq with
      | error e => simp [hd] at h
      | ok d0 =>
        rcases dohData_ok hdoh hd with ⟨h0, hui⟩ | ⟨hne, hc⟩
        · subst h0; simp [hd] at h; exact sniCase (fun _ => hui) h
        · cases d0 with
          | nothing => exact absurd rfl hne
          | id i => simp [hd] at h; subst h; exact Or.inr hc
          | ext dt pid hid => simp [hd] at h; subst h; exact Or.inr hc
    · rename_i hnd; exact sniCase (fun hh => absurd hh hnd) h
  · rename_i henc
    have hdns : s.proto = .dns := by
      cases hp : s.proto <;> simp [hp, supportsDeviceID, Proto.isStdEncrypted] at hs henc ⊢
    split at h
    · injection h with h; exact Or.inl h.symm
    · rename_i opts hopts
      rcases deviceIDFromOpts_ok h with h1 | ⟨o, ho, hc, hd⟩
      · exact Or.inl h1
      · subst hd; exact Or.inr (.edns opts o hdns hopts ho hc)

theorem deviceByExtID_ok {db : DB} {dt : Nat} {pid hid : Str} {p : Profile} {d : Device}
    (h : deviceByExtID db dt pid hid = .ok p d) : Maps db (.ext dt pid hid) p d := by
  unfold deviceByExtID at h
  split at h
  · rename_i p' d' hf; injection h with h1 h2; subst h1; subst h2; exact .byHuman dt pid hid _ _ hf
  · cases h
  · cases h
  · rename_i hnf; exact .auto dt pid hid p d hnf (newDeviceResult_ok h)

theorem deviceByAddrs_ok {s : Srv} {db : DB} {rq : Req} {p : Profile} {d : Device}
    (hdns : s.proto = .dns) (h : deviceByAddrs s db rq = .ok p d) : ByAddress s db rq p d := by
  unfold deviceByAddrs at h
  split at h
  · rename_i hb
    simp at hb
    unfold deviceByLocalAddr at h
    split at h
    · rename_i p' d' hf; injection h with h1 h2; subst h1; subst h2
      exact ⟨hdns, Or.inl ⟨hb.1, hb.2, hf⟩⟩
    · cases h
    · cases h
    · cases h
  · split at h
    · cases h
    · rename_i hl
      simp at hl
      exact ⟨hdns, Or.inr ⟨hl, newDeviceResult_ok h⟩⟩

theorem deviceFromDB_ok {s : Srv} {db : DB} {rq : Req} {dd : DevData} {p : Profile} {d : Device}
    (h : deviceFromDB s db rq dd = .ok p d) :
    (dd ≠ .nothing ∧ Maps db dd p d) ∨ (dd = .nothing ∧ ByAddress s db rq p d) := by
  cases dd with
  | id i => exact Or.inl ⟨by simp, .byID i p d (newDeviceResult_ok h)⟩
  | ext dt pid hid => exact Or.inl ⟨by simp, deviceByExtID_ok h⟩
  | nothing =>
    simp only [deviceFromDB] at h
    split at h
    · rename_i hdns; exact Or.inr ⟨rfl, deviceByAddrs_ok hdns h⟩
    · cases h

theorem findDevice_ok {s : Srv} {db : DB} {rq : Req} {dd : DevData} {p : Profile} {d : Device}
    (h : findDevice s db rq dd = .ok p d) : deviceFromDB s db rq dd = .ok p d ∧ p.deleted = false := by
  unfold findDevice at h
  split at h
  · rename_i p' d' hf
    split at h
    · cases h
    · rename_i hdel; injection h with h1 h2; subst h1; subst h2; exact ⟨hf, by simpa using hdel⟩
  · rename_i hne; exact absurd h (hne p d)

theorem authenticate_none {s : Srv} {rq : Req} {d : Device} (h : authenticate s rq d = none) :
    AuthMet s rq d := by
  intro hen
  unfold authenticate at h
  simp only [hen, Bool.not_true, Bool.false_eq_true, if_false] at h
  split at h
  · rename_i hnd
    split at h
    · cases h
    · rename_i hdo
      exact ⟨fun hh => absurd hh hdo, fun hh => absurd hh hnd⟩
  · rename_i hdoh
    simp at hdoh
    split at h
    · rename_i hui
      split at h
      · cases h
      · rename_i hdo
        refine ⟨fun hh => absurd hh hdo, fun _ u pw hh => ?_⟩
        rw [hui] at hh; cases hh
    · cases h
    · rename_i u pw hui
      split at h
      · rename_i hck
        refine ⟨fun _ => ⟨hdoh, u, pw, hui, hck⟩, fun _ u' pw' hh => ?_⟩
        rw [hui] at hh; injection hh with hh; injection hh with h1 h2
        exact ⟨pw, h2.symm, hck⟩
      · cases h

/-- Inversion of `find`. -/
theorem find_ok {s : Srv} {db : DB} {rq : Req} {p : Profile} {d : Device} (h : find s db rq = .ok p d) :
    supportsDeviceID s.proto = true ∧ ∃ dd, deviceData s rq = .ok dd ∧ findDevice s db rq dd = .ok p d ∧
      authenticate s rq d = none := by
  unfold find at h
  split at h
  · cases h
  · rename_i hs
    split at h
    · cases h
    · rename_i dd hdd
      split at h
      · rename_i p' d' hfd
        unfold authenticatedResult at h
        split at h
        · cases h
        · rename_i hau
          injection h with h1 h2; subst h1; subst h2
          exact ⟨by simpa using hs, dd, hdd, hfd, hau⟩
      · rename_i hne; exact absurd h (hne p d)


/-! ## Literal (parser-free) reading of "the request carries the device's identifier" -/

/-- Label `e` names device `d` of profile `p`: it is the device ID up to letter case (fewer than two
hyphens), or `<type>-<profile id>-<human id>` with the profile ID up to letter case and a human ID
that normalises to the device's. -/
def Names (e : Str) (p : Profile) (d : Device) : Prop :=
  (e.count '-' < 2 ∧ lower e = d.id) ∨
  (∃ a b c, e = a ++ '-' :: (b ++ '-' :: c) ∧ '-' ∉ a ∧ '-' ∉ b ∧ lower b = p.id ∧
    ∃ h, parseNormalized c = some h ∧ d.humanLower = lower h)

theorem cutHyphen_some {s a r : Str} (h : cutHyphen s = some (a, r)) : s = a ++ '-' :: r ∧ '-' ∉ a := by
  induction s generalizing a r with
  | nil => simp [cutHyphen] at h
  | cons c cs ih =>
    unfold cutHyphen at h
    split at h
    · rename_i hc
      injection h with h; injection h with h1 h2
      subst h1; subst h2; subst hc; simp
    · rename_i hc
      split at h
      · cases h
      · rename_i a' b' hcut
        injection h with h; injection h with h1 h2
        subst h1; subst h2
        obtain ⟨e1, e2⟩ := ih hcut
        refine ⟨by simp [e1], ?_⟩
        intro hm
        rcases List.mem_cons.mp hm with hh | hh
        · exact hc hh.symm
        · exact e2 hh

theorem parseDeviceData_names {e : Str} {dd : DevData} {p : Profile} {d : Device}
    (h : parseDeviceData e = some dd) (ho : Owns p d dd) : Names e p d := by
  unfold parseDeviceData at h
  split at h
  · split at h
    · cases h
    · rename_i dt pid hid hext
      injection h with h; subst h
      unfold parseExtHumanID at hext
      split at hext
      · cases hext
      · rename_i a r hc1
        split at hext
        · cases hext
        · rename_i b c hc2
          split at hext
          · cases hext
          · split at hext
            · cases hext
            · split at hext
              · cases hext
              · rename_i hh hn
                injection hext with hext
                injection hext with e1 e2
                injection e2 with e2 e3
                subst e1; subst e2; subst e3
                obtain ⟨s1, n1⟩ := cutHyphen_some hc1
                obtain ⟨s2, n2⟩ := cutHyphen_some hc2
                obtain ⟨o1, o2⟩ := ho
                exact Or.inr ⟨a, b, c, by rw [s1, s2], n1, n2, o1.symm, hh, hn, o2⟩
  · rename_i hl
    split at h
    · injection h with h; subst h
      have : e.count '-' < 2 := by
        simp only [isLikelyExtHumanID, decide_eq_true_eq] at hl; omega
      exact Or.inl ⟨this, ho.symm⟩
    · cases h

theorem toLower_dot (c : Char) : c.toLower = '.' ↔ c = '.' := by
  constructor
  · intro h
    unfold Char.toLower at h
    split at h
    · rename_i hc
      have h2 := congrArg Char.val h
      simp only at h2
      have h3 := congrArg UInt32.toNat h2
      have a1 : 'A'.val.toNat = 65 := by decide
      have a2 : 'Z'.val.toNat = 90 := by decide
      have a3 : ('a'.val - 'A'.val).toNat = 32 := by decide
      have a4 : '.'.val.toNat = 46 := by decide
      have l1 := UInt32.le_iff_toNat_le.mp hc.1
      have l2 := UInt32.le_iff_toNat_le.mp hc.2
      rw [UInt32.toNat_add, a3, a4] at h3
      rw [a1] at l1; rw [a2] at l2
      omega
    · exact h
  · intro h; subst h; decide

theorem takeWhile_append_dot (a r : Str) (h : '.' ∉ a) : (a ++ '.' :: r).takeWhile (· ≠ '.') = a := by
  induction a with
  | nil => simp
  | cons x a ih =>
    have hx : x ≠ '.' := fun e => h (by simp [e])
    have ha : '.' ∉ a := fun e => h (by simp [e])
    have := ih ha
    simp only [ne_eq, decide_not, List.cons_append, List.takeWhile_cons] at this ⊢
    simp [hx, this]

/-- What `isImmediateSubdomain` + the slice that `deviceDataFromCliSrvName` used before the fix
(`cliSrvName[:len(cliSrvName)-len(matchedDomain)-1]`, on character lists) mean literally. -/
theorem immediate_label_take {sni dom : Str} (h : isImmediateSubdomain (lower sni) dom = true) :
    lower sni = lower (sni.take (sni.length - dom.length - 1)) ++ '.' :: dom ∧
      '.' ∉ lower (sni.take (sni.length - dom.length - 1)) := by
  simp only [isImmediateSubdomain, Bool.and_eq_true, decide_eq_true_eq] at h
  obtain ⟨⟨⟨hlen, hsuf⟩, hhead⟩, hcount⟩ := h
  have hl : (lower sni).length = sni.length := by simp [lower]
  rw [hl] at hlen hhead
  obtain ⟨t, ht⟩ := List.head?_eq_some_iff.mp hhead
  obtain ⟨pre, hpre⟩ := List.isSuffixOf_iff_suffix.mp hsuf
  have hsplit := List.take_append_drop (sni.length - dom.length - 1) (lower sni)
  rw [ht] at hsplit
  have htl : t.length = dom.length := by
    have := congrArg List.length ht
    simp [List.length_drop, hl] at this; omega
  have e1 : (List.take (sni.length - dom.length - 1) (lower sni) ++ ['.']) ++ t = pre ++ dom := by
    rw [hpre]; simpa using hsplit
  have htd : t = dom := List.append_inj_right' e1 htl
  subst htd
  have hmap : lower (sni.take (sni.length - t.length - 1)) = List.take (sni.length - t.length - 1) (lower sni) := by
    simp [lower, List.map_take]
  rw [hmap]
  refine ⟨hsplit.symm, ?_⟩
  rw [← hsplit, List.count_append, List.count_cons] at hcount
  simp at hcount
  exact List.count_eq_zero.mp (by omega)

/-- Under `isImmediateSubdomain`, the text before the first dot (the fixed code) is the text in front
of the matched domain (on character lists, where lowering keeps lengths). -/
theorem sniLabel_eq_take {sni dom : Str} (h : isImmediateSubdomain (lower sni) dom = true) :
    sniLabel sni = sni.take (sni.length - dom.length - 1) := by
  obtain ⟨h1, h2⟩ := immediate_label_take h
  generalize hk : sni.length - dom.length - 1 = k at h1 h2
  have hsplit := List.take_append_drop k sni
  have hl : lower sni = lower (sni.take k) ++ lower (sni.drop k) := by
    unfold lower; rw [← List.map_append, hsplit]
  rw [hl] at h1
  have hd := List.append_cancel_left h1
  have hno : '.' ∉ sni.take k := by
    intro hm
    apply h2
    have : Char.toLower '.' ∈ lower (sni.take k) := List.mem_map_of_mem hm
    simpa using this
  cases hdr : sni.drop k with
  | nil => rw [hdr] at hd; simp [lower] at hd
  | cons c r =>
    rw [hdr] at hd hsplit
    simp only [lower, List.map_cons, List.cons.injEq] at hd
    have hc : c = '.' := (toLower_dot c).mp hd.1
    subst hc
    unfold sniLabel
    have := takeWhile_append_dot _ r hno
    rw [hsplit] at this
    exact this

/-- What `isImmediateSubdomain` + the label cut in `deviceDataFromCliSrvName` mean literally. -/
theorem immediate_label {sni dom : Str} (h : isImmediateSubdomain (lower sni) dom = true) :
    lower sni = lower (sniLabel sni) ++ '.' :: dom ∧ '.' ∉ lower (sniLabel sni) := by
  rw [sniLabel_eq_take h]; exact immediate_label_take h

theorem sniLabel_prefix (sni : Str) : sniLabel sni <+: sni := List.takeWhile_prefix _

theorem cleanGo_mem (rooted : Bool) (l st : List Str) (x : Str) (h : x ∈ cleanGo rooted l st) :
    x ∈ l ∨ x ∈ st := by
  induction l generalizing st with
  | nil => simp [cleanGo] at h; exact Or.inr h
  | cons s r ih =>
    unfold cleanGo at h
    split at h
    · rcases ih _ h with h | h
      · exact Or.inl (List.mem_cons_of_mem _ h)
      · exact Or.inr h
    · split at h
      · split at h
        · rename_i t st'
          split at h
          · split at h
            · rcases ih _ h with h | h
              · exact Or.inl (List.mem_cons_of_mem _ h)
              · exact Or.inr h
            · rcases ih _ h with h | h
              · exact Or.inl (List.mem_cons_of_mem _ h)
              · rcases List.mem_cons.mp h with h | h
                · exact Or.inl (by simp [h])
                · exact Or.inr h
          · rcases ih _ h with h | h
            · exact Or.inl (List.mem_cons_of_mem _ h)
            · exact Or.inr (List.mem_cons_of_mem _ h)
        · split at h
          · rcases ih _ h with h | h
            · exact Or.inl (List.mem_cons_of_mem _ h)
            · exact Or.inr h
          · rcases ih _ h with h | h
            · exact Or.inl (List.mem_cons_of_mem _ h)
            · rcases List.mem_cons.mp h with h | h
              · exact Or.inl (by simp [h])
              · simp at h
      · rcases ih _ h with h | h
        · exact Or.inl (List.mem_cons_of_mem _ h)
        · rcases List.mem_cons.mp h with h | h
          · exact Or.inl (by simp [h])
          · exact Or.inr h

/-- The identifier element of a DoH path is literally one of its `/`-separated segments. -/
theorem pathElements_segment {p e0 e1 : Str} (h : pathElements p = some [e0, e1]) :
    e1 ∈ splitOn '/' p := by
  unfold pathElements at h
  split at h
  · cases h
  · rename_i f0 rest hce
    split at h
    · cases h
    · split at h
      · cases h
      · split at h
        · cases h
        · injection h with h
          injection h with h1 h2
          subst h1; subst h2
          simp only [cleanElems] at hce
          split at hce
          · split at hce <;> simp at hce
          · have : e1 ∈ cleanGo (p.head? = some '/') (splitOn '/' p) [] := by rw [hce]; simp
            rcases cleanGo_mem _ _ _ _ this with h | h
            · exact h
            · simp at h


/-- **Literal specification of the property's first clause.**  The request presents device `d` of
profile `p` through a channel that is valid for the server's transport.  Nothing here refers to the
model's parsers (`pathElements`, `isImmediateSubdomain`, `parseDeviceData`): the basic-auth user *is*
the device ID; a `/`-separated segment of the URL path, or the text in front of `.<device domain>`
in the TLS server name — one label, no dots, the domain compared without letter case — names the
device (`Names`); the CPE-ID option's payload *is* the device ID; or the request's address is the
device's own dedicated / linked address (`OwnAddress`). -/
inductive Presents (s : Srv) (rq : Req) (p : Profile) (d : Device) : Prop
  | dohUser (pw : Option Str) : s.proto = .doh → rq.userinfo = some (d.id, pw) → Presents s rq p d
  | dohPath (e : Str) : s.proto = .doh → rq.userinfo = none → e ∈ splitOn '/' rq.path → Names e p d →
      Presents s rq p d
  | sni (e dom : Str) : s.proto.isStdEncrypted = true → (s.proto = .doh → rq.userinfo = none) →
      dom ∈ s.domains → e <+: rq.sni → lower rq.sni = lower e ++ '.' :: dom → '.' ∉ lower e →
      Names e p d → Presents s rq p d
  | edns (opts : List EOpt) (o : EOpt) : s.proto = .dns → rq.edns = some opts → o ∈ opts →
      o.code = 65074 → o.data = d.id → Presents s rq p d
  | address : OwnAddress s rq d → Presents s rq p d

theorem carried_presents {s : Srv} {rq : Req} {dd : DevData} {p : Profile} {d : Device}
    (hc : Carried s rq dd) (ho : Owns p d dd) : Presents s rq p d := by
  cases hc with
  | dohUser u pw hdoh hui =>
    have : d.id = u := ho
    subst this; exact .dohUser pw hdoh hui
  | dohPath e0 e1 dd hdoh hui hpe hpd =>
    exact .dohPath e1 hdoh hui (pathElements_segment hpe) (parseDeviceData_names hpd ho)
  | sni dom dd henc hu hdom himm hpd =>
    obtain ⟨h1, h2⟩ := immediate_label himm
    exact .sni _ dom henc hu hdom (sniLabel_prefix _) h1 h2 (parseDeviceData_names hpd ho)
  | edns opts o hdns hopts ho' hcode =>
    have : d.id = o.data := ho
    exact .edns opts o hdns hopts ho' hcode this.symm

/-! ## Congruence lemmas (which fields of the request each stage reads) -/

theorem deviceFromDB_indep {s : Srv} {db : DB} {a b : Req} {dd : DevData} (h : s.proto ≠ .dns) :
    deviceFromDB s db a dd = deviceFromDB s db b dd := by
  cases dd <;> simp [deviceFromDB, h]

theorem findDevice_indep {s : Srv} {db : DB} {a b : Req} (h : s.proto ≠ .dns) (dd : DevData) :
    findDevice s db a dd = findDevice s db b dd := by
  unfold findDevice; rw [deviceFromDB_indep (a := a) (b := b) h]

theorem findDevice_addr {s : Srv} {db : DB} {a b : Req} (h1 : a.lip = b.lip) (h2 : a.lport = b.lport)
    (h3 : a.rip = b.rip) (dd : DevData) : findDevice s db a dd = findDevice s db b dd := by
  cases dd <;> simp [findDevice, deviceFromDB, deviceByAddrs, h1, h2, h3]

theorem authenticate_userinfo {s : Srv} {a b : Req} (h : a.userinfo = b.userinfo) (d : Device) :
    authenticate s a d = authenticate s b d := by
  unfold authenticate; rw [h]

theorem authenticate_notDoH {s : Srv} {a b : Req} (h : s.proto ≠ .doh) (d : Device) :
    authenticate s a d = authenticate s b d := by
  simp [authenticate, h]

theorem find_congr {s : Srv} {db : DB} {a b : Req} (hdd : deviceData s a = deviceData s b)
    (hfd : ∀ dd, findDevice s db a dd = findDevice s db b dd)
    (hau : ∀ d, authenticate s a d = authenticate s b d) : find s db a = find s db b := by
  unfold find
  rw [hdd]
  simp only [hfd, authenticatedResult, hau]

end Agd.Device
