import Agd.Model.ConnLimit
/-! Helper lemmas for C18: counter arithmetic and the inductive invariant of the repaired limiter. -/
namespace Agd.ConnLimit

/-- Thresholds that `connlimiter.New` accepts (`Stop > 0`, `Resume ≤ Stop`), as `uint64` values. -/
def WF (stop resume : Nat) : Prop := 0 < stop ∧ resume ≤ stop ∧ stop < two64

/-! ## Counter -/

theorem inc_of_not_accepting (c : Counter) (h : c.accepting = false) : c.increment = (c, false) := by
  simp [Counter.increment, h]

theorem inc_snd (c : Counter) : c.increment.2 = c.accepting := by
  unfold Counter.increment; cases c.accepting <;> simp

theorem inc_fst (c : Counter) (h : c.accepting = true) (hlt : c.current < c.stop)
    (hs : c.stop < two64) :
    c.increment.1 = { c with current := c.current + 1,
                             accepting := decide (c.current + 1 < c.stop) } := by
  have : (c.current + 1) % two64 = c.current + 1 := Nat.mod_eq_of_lt (by omega)
  simp [Counter.increment, h, this]

theorem dec_eq (c : Counter) (hpos : 0 < c.current) (hlt : c.current < two64) :
    c.decrement = { c with current := c.current - 1,
                           accepting := c.accepting || decide (c.current - 1 ≤ c.resume) } := by
  have : (c.current + two64 - 1) % two64 = c.current - 1 := by
    have h1 : c.current + two64 - 1 = (c.current - 1) + two64 := by omega
    rw [h1, Nat.add_mod_right]; exact Nat.mod_eq_of_lt (by omega)
  simp [Counter.decrement, this]

/-! ## The invariant of the repaired limiter -/

structure Inv (stop resume : Nat) (s : St) : Prop where
  hstop : s.c.stop = stop
  hres : s.c.resume = resume
  cnt : s.c.current = s.open_.length + s.pending.length
  le : s.c.current ≤ stop
  acc : s.c.accepting = true → s.c.current < stop
  high : s.c.accepting = false → s.c.current = stop ∨ resume < s.c.current
  noWait : s.c.accepting = true → s.waitq = []
  waitOpen : ∀ l ∈ s.waitq, l ∉ s.closed
  noLeak : s.leaked = 0
  fresh : ∀ k ∈ s.open_, k < s.nextConn
  nodup : s.open_.Nodup

theorem inv_init (stop resume : Nat) (h : WF stop resume) : Inv stop resume (init stop resume) := by
  obtain ⟨h0, _, _⟩ := h
  constructor <;> simp [init] <;> omega

theorem attempt_inv {stop resume : Nat} (h : WF stop resume) (s : St) (l : Nat)
    (hi : Inv stop resume s) : Inv stop resume (attempt repaired s l).1 := by
  obtain ⟨h0, hrs, hlt⟩ := h
  unfold attempt
  simp only [repaired, if_true]
  by_cases hc : l ∈ s.closed
  · simpa [hc] using hi
  · simp only [hc, if_false]
    rw [inc_snd]
    cases ha : s.c.accepting with
    | false =>
      simp only [Bool.false_eq_true, if_false]
      constructor
      · exact hi.hstop
      · exact hi.hres
      · exact hi.cnt
      · exact hi.le
      · intro h'; simp [ha] at h'
      · intro _; exact hi.high ha
      · intro h'; simp [ha] at h'
      · intro x hx
        simp only [List.mem_append, List.mem_singleton] at hx
        rcases hx with hx | hx
        · exact hi.waitOpen x hx
        · subst hx; exact hc
      · exact hi.noLeak
      · exact hi.fresh
      · exact hi.nodup
    | true =>
      have hcur := hi.acc ha
      have hst := hi.hstop
      have hinc := inc_fst s.c ha (by omega) (by omega)
      simp only [if_true, hinc]
      constructor
      · exact hi.hstop
      · exact hi.hres
      · simp only [List.length_append, List.length_singleton]; have := hi.cnt; omega
      · show s.c.current + 1 ≤ stop; omega
      · intro h'
        have : s.c.current + 1 < s.c.stop := by simpa using h'
        show s.c.current + 1 < stop; omega
      · intro h'
        have : ¬ (s.c.current + 1 < s.c.stop) := by simpa using h'
        left; show s.c.current + 1 = stop; omega
      · intro _; exact hi.noWait ha
      · exact hi.waitOpen
      · exact hi.noLeak
      · exact hi.fresh
      · exact hi.nodup

/-- `limitListener.decrement` after one unit (a connection or a pending accept) has gone. -/
theorem release_inv {stop resume : Nat} (h : WF stop resume) (s : St)
    (hstop : s.c.stop = stop) (hres : s.c.resume = resume)
    (hcnt : s.c.current = s.open_.length + s.pending.length + 1)
    (hle : s.c.current ≤ stop) (hleak : s.leaked = 0)
    (hfresh : ∀ k ∈ s.open_, k < s.nextConn) (hnd : s.open_.Nodup) :
    Inv stop resume (release repaired s) := by
  obtain ⟨h0, hrs, hlt⟩ := h
  have hd := dec_eq s.c (by omega) (by omega)
  unfold release wake
  simp only [repaired, hd]
  constructor
  · exact hstop
  · exact hres
  · show s.c.current - 1 = s.open_.length + s.pending.length; omega
  · show s.c.current - 1 ≤ stop; omega
  · intro _; show s.c.current - 1 < stop; omega
  · intro h'
    have : s.c.accepting = false ∧ ¬ (s.c.current - 1 ≤ s.c.resume) := by simpa using h'
    right; show resume < s.c.current - 1; omega
  · intro _; rfl
  · intro x hx; simp at hx
  · exact hleak
  · exact hfresh
  · exact hnd

theorem step_inv {stop resume : Nat} (h : WF stop resume) (s : St) (o : Op)
    (hi : Inv stop resume s) : Inv stop resume (step repaired s o).1 := by
  cases o with
  | accept l => exact attempt_inv h s l hi
  | recheck l =>
    simp only [step]
    split
    · apply attempt_inv h
      exact { hi with }
    · exact hi
  | deliver l =>
    simp only [step]
    split
    · rename_i hl
      have hlen := List.length_erase_of_mem hl
      have hpos : 0 < s.pending.length := List.length_pos_of_mem hl
      constructor
      · exact hi.hstop
      · exact hi.hres
      · simp only [List.length_append, List.length_singleton, hlen]; have := hi.cnt; omega
      · exact hi.le
      · exact hi.acc
      · exact hi.high
      · exact hi.noWait
      · exact hi.waitOpen
      · exact hi.noLeak
      · intro k hk
        simp only [List.mem_append, List.mem_singleton] at hk
        rcases hk with hk | hk
        · have := hi.fresh k hk; show k < s.nextConn + 1; omega
        · show k < s.nextConn + 1; omega
      · show (s.open_ ++ [s.nextConn]).Nodup
        rw [List.nodup_append]
        refine ⟨hi.nodup, by simp, ?_⟩
        intro a ha b hb
        simp only [List.mem_singleton] at hb
        have := hi.fresh a ha
        omega
    · exact hi
  | fail l =>
    simp only [step]
    split
    · rename_i hl
      have hlen := List.length_erase_of_mem hl
      have hpos : 0 < s.pending.length := List.length_pos_of_mem hl
      apply release_inv h
      · exact hi.hstop
      · exact hi.hres
      · show s.c.current = s.open_.length + (s.pending.erase l).length + 1
        have := hi.cnt; omega
      · exact hi.le
      · exact hi.noLeak
      · exact hi.fresh
      · exact hi.nodup
    · exact hi
  | close k e =>
    simp only [step]
    split
    · rename_i hk
      have hlen := List.length_erase_of_mem hk
      have hpos : 0 < s.open_.length := List.length_pos_of_mem hk
      apply release_inv h
      · exact hi.hstop
      · exact hi.hres
      · show s.c.current = (s.open_.erase k).length + s.pending.length + 1
        have := hi.cnt; omega
      · exact hi.le
      · exact hi.noLeak
      · intro x hx; exact hi.fresh x (List.mem_of_mem_erase hx)
      · exact hi.nodup.erase k
    · exact hi
  | lclose l e =>
    simp only [step]
    split
    · exact hi
    · simp only [wake]
      constructor
      · exact hi.hstop
      · exact hi.hres
      · exact hi.cnt
      · exact hi.le
      · exact hi.acc
      · exact hi.high
      · intro _; rfl
      · intro x hx; simp at hx
      · exact hi.noLeak
      · exact hi.fresh
      · exact hi.nodup

theorem run_inv {stop resume : Nat} (h : WF stop resume) (ops : List Op) (s : St)
    (hi : Inv stop resume s) : Inv stop resume (run repaired s ops) := by
  induction ops generalizing s with
  | nil => exact hi
  | cons o r ih => exact ih _ (step_inv h s o hi)

theorem reach_inv {stop resume : Nat} (h : WF stop resume) (ops : List Op) :
    Inv stop resume (run repaired (init stop resume) ops) :=
  run_inv h ops _ (inv_init stop resume h)

theorem run_append (v : Variant) (s : St) (a b : List Op) :
    run v s (a ++ b) = run v (run v s a) b := by
  induction a generalizing s with
  | nil => rfl
  | cons o r ih => exact ih _

/-! ## Hysteresis -/

/-- While the counter refuses, nobody gets past the limiter. -/
theorem no_pass_when_stopped (s : St) (o : Op) (ha : s.c.accepting = false) :
    (step repaired s o).2 ≠ .pending := by
  have hinc : s.c.increment.2 = false := by rw [inc_snd]; exact ha
  cases o with
  | accept l =>
    simp only [step, attempt, repaired, if_true]
    split
    · simp
    · simp [hinc]
  | recheck l =>
    simp only [step]
    split
    · simp only [attempt, repaired, if_true]
      split
      · simp
      · simp [hinc]
    · simp
  | deliver l => simp only [step]; split <;> simp
  | fail l => simp only [step]; split <;> simp
  | close k e => simp only [step]; split <;> simp [closeOut] <;> cases e <;> simp
  | lclose l e => simp only [step]; split <;> simp [closeOut] <;> cases e <;> simp

/-- A refusing counter keeps refusing as long as the count stays above `resume`. -/
theorem stays_stopped {stop resume : Nat} (h : WF stop resume) (s : St) (o : Op)
    (hi : Inv stop resume s) (ha : s.c.accepting = false)
    (hab : resume < (step repaired s o).1.c.current) :
    (step repaired s o).1.c.accepting = false := by
  obtain ⟨h0, hrs, hlt⟩ := h
  have hinc : s.c.increment.2 = false := by rw [inc_snd]; exact ha
  have hatt : ∀ (t : St) (l : Nat), t.c = s.c → (attempt repaired t l).1.c = s.c := by
    intro t l ht
    simp only [attempt, repaired, if_true]
    split
    · exact ht
    · rw [ht]; simp [hinc, ht]
  have hrel : ∀ (t : St), t.c = s.c → 0 < s.c.current →
      resume < (release repaired t).c.current → (release repaired t).c.accepting = false := by
    intro t ht hpos hab
    have hd := dec_eq s.c hpos (by have := hi.le; omega)
    unfold release wake at *
    simp only [repaired, ht, hd] at *
    have hres := hi.hres
    have : resume < s.c.current - 1 := hab
    simp [ha]; omega
  cases o with
  | accept l => rw [show (step repaired s (.accept l)).1.c = s.c from hatt s l rfl]; exact ha
  | recheck l =>
    simp only [step]
    split
    · have := hatt { s with woken := s.woken.erase l } l rfl
      rw [this]; exact ha
    · exact ha
  | deliver l => simp only [step]; split <;> exact ha
  | fail l =>
    simp only [step] at hab ⊢
    split
    · rename_i hl
      simp only [hl, if_true] at hab
      have hpos : 0 < s.pending.length := List.length_pos_of_mem hl
      exact hrel _ rfl (by have := hi.cnt; omega) hab
    · exact ha
  | close k e =>
    simp only [step] at hab ⊢
    split
    · rename_i hk
      simp only [hk, if_true] at hab
      have hpos : 0 < s.open_.length := List.length_pos_of_mem hk
      exact hrel _ rfl (by have := hi.cnt; omega) hab
    · exact ha
  | lclose l e =>
    simp only [step]
    split
    · exact ha
    · simp only [wake]; exact ha

/-- Along `ops` from `s`, the count is above `resume` after every single step. -/
def StaysAbove (v : Variant) (resume : Nat) : St → List Op → Prop
  | _, [] => True
  | s, o :: r => resume < count (step v s o).1 ∧ StaysAbove v resume (step v s o).1 r

theorem stopped_throughout {stop resume : Nat} (h : WF stop resume) (mid : List Op) (s : St)
    (hi : Inv stop resume s) (ha : s.c.accepting = false)
    (hab : StaysAbove repaired resume s mid) :
    (run repaired s mid).c.accepting = false := by
  induction mid generalizing s with
  | nil => exact ha
  | cons o r ih =>
    have hi' := step_inv h s o hi
    have h1 : resume < (step repaired s o).1.c.current := by
      have := hab.1; unfold count at this; rw [hi'.cnt]; exact this
    exact ih _ hi' (stays_stopped h s o hi ha h1) hab.2

/-! ## Closed connections stay closed -/

theorem attempt_open (v : Variant) (t : St) (l : Nat) :
    (attempt v t l).1.open_ = t.open_ ∧ (attempt v t l).1.nextConn = t.nextConn := by
  unfold attempt
  split
  · split
    · exact ⟨rfl, rfl⟩
    · split <;> exact ⟨rfl, rfl⟩
  · split
    · split <;> exact ⟨rfl, rfl⟩
    · split <;> exact ⟨rfl, rfl⟩

theorem wake_open (w : Wake) (t : St) :
    (wake w t).open_ = t.open_ ∧ (wake w t).nextConn = t.nextConn := by
  unfold wake
  cases w with
  | signal => cases t.waitq <;> exact ⟨rfl, rfl⟩
  | broadcast => exact ⟨rfl, rfl⟩

theorem release_open (v : Variant) (t : St) :
    (release v t).open_ = t.open_ ∧ (release v t).nextConn = t.nextConn := by
  unfold release
  exact wake_open _ _

theorem closed_conn_stays (s : St) (o : Op) (k : Nat) (hk : k ∉ s.open_) (hlt : k < s.nextConn) :
    k ∉ (step repaired s o).1.open_ ∧ k < (step repaired s o).1.nextConn := by
  have hatt := attempt_open repaired
  have hrel := release_open repaired
  cases o with
  | accept l => simp only [step]; rw [(hatt s l).1, (hatt s l).2]; exact ⟨hk, hlt⟩
  | recheck l =>
    simp only [step]
    split
    · rw [(hatt _ l).1, (hatt _ l).2]; exact ⟨hk, hlt⟩
    · exact ⟨hk, hlt⟩
  | deliver l =>
    simp only [step]
    split
    · refine ⟨?_, by show k < s.nextConn + 1; omega⟩
      show k ∉ s.open_ ++ [s.nextConn]
      simp only [List.mem_append, List.mem_singleton, not_or]
      exact ⟨hk, by omega⟩
    · exact ⟨hk, hlt⟩
  | fail l =>
    simp only [step]
    split
    · rw [(hrel _).1, (hrel _).2]; exact ⟨hk, hlt⟩
    · exact ⟨hk, hlt⟩
  | close j e =>
    simp only [step]
    split
    · rw [(hrel _).1, (hrel _).2]
      exact ⟨fun hm => hk (List.mem_of_mem_erase hm), hlt⟩
    · exact ⟨hk, hlt⟩
  | lclose l e =>
    simp only [step]
    split
    · exact ⟨hk, hlt⟩
    · simp only [wake]; exact ⟨hk, hlt⟩

theorem closed_conn_stays_run (ops : List Op) (s : St) (k : Nat) (hk : k ∉ s.open_)
    (hlt : k < s.nextConn) :
    k ∉ (run repaired s ops).open_ ∧ k < (run repaired s ops).nextConn := by
  induction ops generalizing s with
  | nil => exact ⟨hk, hlt⟩
  | cons o r ih =>
    have := closed_conn_stays s o k hk hlt
    exact ih _ this.1 this.2

/-! ## The log characterisation of `isAccepting` -/

/-- Executable form of `StoppedLog`. -/
def stoppedLogB (stop resume : Nat) : List Nat → Bool
  | [] => false
  | n :: older => n == stop || (decide (resume < n) && stoppedLogB stop resume older)

theorem stoppedLogB_iff (stop resume : Nat) (log : List Nat) :
    stoppedLogB stop resume log = true ↔ StoppedLog stop resume log := by
  induction log with
  | nil => simp [stoppedLogB, StoppedLog]
  | cons n older ih =>
    simp only [stoppedLogB, Bool.or_eq_true, beq_iff_eq, Bool.and_eq_true, decide_eq_true_eq]
    constructor
    · intro h
      rcases h with h | ⟨h1, h2⟩
      · exact ⟨[], older, by simp [h], by simp⟩
      · obtain ⟨r, o, hr, hall⟩ := ih.1 h2
        refine ⟨n :: r, o, by simp [hr], ?_⟩
        intro m hm
        simp only [List.mem_cons] at hm
        rcases hm with rfl | hm
        · exact h1
        · exact hall m hm
    · intro ⟨r, o, hr, hall⟩
      cases r with
      | nil => left; simp at hr; exact hr.1
      | cons a r' =>
        right
        simp only [List.cons_append, List.cons.injEq] at hr
        obtain ⟨rfl, hr'⟩ := hr
        exact ⟨hall _ (by simp), ih.2 ⟨r', o, hr', fun m hm => hall m (by simp [hm])⟩⟩

theorem attempt_ctr (t : St) (l : Nat) :
    (attempt repaired t l).1.c = t.c ∨
    (t.c.accepting = true ∧ (attempt repaired t l).1.c = t.c.increment.1) := by
  simp only [attempt, repaired, if_true]
  split
  · exact Or.inl rfl
  · split
    · rename_i hinc
      rw [inc_snd] at hinc
      exact Or.inr ⟨hinc, rfl⟩
    · exact Or.inl rfl

/-- Every step leaves the counter alone, or is one successful `increment`, or one `decrement` of a
positive counter. -/
theorem step_ctr {stop resume : Nat} (s : St) (o : Op) (hi : Inv stop resume s) :
    (step repaired s o).1.c = s.c ∨
    (s.c.accepting = true ∧ (step repaired s o).1.c = s.c.increment.1) ∨
    (0 < s.c.current ∧ (step repaired s o).1.c = s.c.decrement) := by
  have hrel : ∀ t : St, t.c = s.c → (release repaired t).c = s.c.decrement := by
    intro t ht; simp [release, wake, repaired, ht]
  cases o with
  | accept l =>
    rcases attempt_ctr s l with h | h
    · exact Or.inl h
    · exact Or.inr (Or.inl h)
  | recheck l =>
    simp only [step]
    split
    · rcases attempt_ctr { s with woken := s.woken.erase l } l with h | h
      · exact Or.inl h
      · exact Or.inr (Or.inl h)
    · exact Or.inl rfl
  | deliver l => simp only [step]; split <;> exact Or.inl rfl
  | fail l =>
    simp only [step]
    split
    · rename_i hl
      have hpos : 0 < s.pending.length := List.length_pos_of_mem hl
      exact Or.inr (Or.inr ⟨by have := hi.cnt; omega, hrel _ rfl⟩)
    · exact Or.inl rfl
  | close k e =>
    simp only [step]
    split
    · rename_i hk
      have hpos : 0 < s.open_.length := List.length_pos_of_mem hk
      exact Or.inr (Or.inr ⟨by have := hi.cnt; omega, hrel _ rfl⟩)
    · exact Or.inl rfl
  | lclose l e =>
    simp only [step]
    split
    · exact Or.inl rfl
    · simp only [wake]; exact Or.inl trivial

theorem step_log {stop resume : Nat} (h : WF stop resume) (s : St) (o : Op)
    (hi : Inv stop resume s) (log : List Nat)
    (hl : s.c.accepting = !stoppedLogB stop resume log) :
    (step repaired s o).1.c.accepting =
      !stoppedLogB stop resume (count (step repaired s o).1 :: log) := by
  obtain ⟨h0, hrs, hlt⟩ := h
  have hi' := step_inv ⟨h0, hrs, hlt⟩ s o hi
  have hcnt : count (step repaired s o).1 = (step repaired s o).1.c.current := by
    unfold count; exact hi'.cnt.symm
  rw [hcnt]
  have hle := hi.le
  have hst := hi.hstop
  have hre := hi.hres
  rcases step_ctr s o hi with hc | ⟨ha, hc⟩ | ⟨hpos, hc⟩
  · rw [hc]
    simp only [stoppedLogB]
    cases ha : s.c.accepting with
    | true =>
      have h1 := hi.acc ha
      have h2 : stoppedLogB stop resume log = false := by rw [ha] at hl; simpa using hl.symm
      have : (s.c.current == stop) = false := by simp; omega
      simp [h2, this]
    | false =>
      have h2 : stoppedLogB stop resume log = true := by rw [ha] at hl; simpa using hl.symm
      rcases hi.high ha with h3 | h3
      · simp [h3]
      · simp [h2, h3]
  · have h1 := hi.acc ha
    have h2 : stoppedLogB stop resume log = false := by rw [ha] at hl; simpa using hl.symm
    rw [hc, inc_fst s.c ha (by omega) (by omega)]
    simp only [stoppedLogB, h2, Bool.and_false, Bool.or_false]
    by_cases h3 : s.c.current + 1 < s.c.stop
    · have : (s.c.current + 1 == stop) = false := by simp; omega
      simp [h3, this]
    · have : (s.c.current + 1 == stop) = true := by simp; omega
      simp [h3, this]
  · rw [hc, dec_eq s.c hpos (by omega)]
    simp only [stoppedLogB]
    have h4 : (s.c.current - 1 == stop) = false := by simp; omega
    rw [h4, hl, hre]
    by_cases h5 : s.c.current - 1 ≤ resume
    · have : ¬ (resume < s.c.current - 1) := by omega
      simp [h5, this]
    · have : resume < s.c.current - 1 := by omega
      simp [h5, this]

theorem run_log {stop resume : Nat} (h : WF stop resume) (ops : List Op) (s : St)
    (hi : Inv stop resume s) (log : List Nat)
    (hl : s.c.accepting = !stoppedLogB stop resume log) :
    (run repaired s ops).c.accepting = !stoppedLogB stop resume (hist repaired s log ops) := by
  induction ops generalizing s log with
  | nil => exact hl
  | cons o r ih => exact ih _ (step_inv h s o hi) _ (step_log h s o hi log hl)

/-! ## Woken acceptors drain -/

theorem attempt_woken (v : Variant) (t : St) (l : Nat) : (attempt v t l).1.woken = t.woken := by
  unfold attempt
  split
  · split
    · rfl
    · split <;> rfl
  · split
    · split <;> rfl
    · split <;> rfl

/-! ## Pipeline -/

/-- Invariant of one connection: every running worker holds exactly one token, and the channel never
holds more than its capacity. -/
def Pipe.Ok (p : Pipe) : Prop :=
  p.running = p.tokens ∧ p.tokens ≤ p.n ∧ (p.dead = true → p.blocked = false)

theorem pump_ok (fuel : Nat) (p : Pipe) (h : p.Ok) :
    (Pipe.pump fuel p).Ok ∧ (Pipe.pump fuel p).n = p.n := by
  induction fuel generalizing p with
  | zero => exact ⟨h, rfl⟩
  | succ f ih =>
    unfold Pipe.pump
    split
    · exact ⟨h, rfl⟩
    · split
      · split
        · rename_i hlt
          exact ih { p with blocked := false, tokens := p.tokens + 1, running := p.running + 1 }
            ⟨by show p.running + 1 = p.tokens + 1; have := h.1; omega,
             by show p.tokens + 1 ≤ p.n; omega, fun _ => rfl⟩
        · exact ⟨h, rfl⟩
      · split
        · exact ⟨h, rfl⟩
        · rename_i hd _ _
          exact ih { p with queued := p.queued - 1, blocked := true }
            ⟨h.1, h.2.1, fun hd' => absurd hd' hd⟩

theorem pstep_ok (p : Pipe) (o : POp) (h : p.Ok) : (p.step o).Ok ∧ (p.step o).n = p.n := by
  cases o with
  | query => exact pump_ok _ { p with queued := p.queued + 1 } h
  | done =>
    simp only [Pipe.step]
    split
    · exact ⟨h, rfl⟩
    · rename_i hr
      exact pump_ok _ { p with running := p.running - 1, tokens := p.tokens - 1 }
        ⟨by show p.running - 1 = p.tokens - 1; have := h.1; omega,
         by show p.tokens - 1 ≤ p.n; have := h.2.1; omega, h.2.2⟩
  | timeout =>
    simp only [Pipe.step]
    split
    · exact ⟨⟨h.1, h.2.1, fun _ => rfl⟩, rfl⟩
    · exact ⟨h, rfl⟩

theorem prun_ok (ops : List POp) (p : Pipe) (h : p.Ok) :
    (Pipe.run p ops).Ok ∧ (Pipe.run p ops).n = p.n := by
  induction ops generalizing p with
  | nil => exact ⟨h, rfl⟩
  | cons o r ih =>
    have h1 := pstep_ok p o h
    have h2 := ih (p.step o) h1.1
    exact ⟨h2.1, h2.2.trans h1.2⟩

/-- With enough fuel the reader loop really runs until it blocks. -/
theorem pump_settled (fuel : Nat) (p : Pipe)
    (hf : 2 * p.queued + (if p.blocked then 1 else 0) < fuel) : (Pipe.pump fuel p).Settled := by
  induction fuel generalizing p with
  | zero => omega
  | succ f ih =>
    unfold Pipe.pump
    split
    · rename_i hd; exact Or.inl hd
    · split
      · rename_i hb
        split
        · apply ih
          simp only [hb, if_true] at hf
          show 2 * p.queued + (if false = true then 1 else 0) < f
          simp; omega
        · rename_i hn; exact Or.inr (Or.inl ⟨hb, by omega⟩)
      · rename_i hb
        have hb' : p.blocked = false := by simpa using hb
        split
        · rename_i hq; exact Or.inr (Or.inr ⟨hb', hq⟩)
        · rename_i hq
          apply ih
          simp only [hb', Bool.false_eq_true, if_false] at hf
          show 2 * (p.queued - 1) + (if true = true then 1 else 0) < f
          simp; omega

theorem pstep_settled (p : Pipe) (o : POp) (h : p.Settled) : (p.step o).Settled := by
  cases o with
  | query =>
    apply pump_settled
    show 2 * (p.queued + 1) + _ < 2 * p.queued + 4
    split <;> omega
  | done =>
    simp only [Pipe.step]
    split
    · exact h
    · apply pump_settled
      show 2 * p.queued + _ < 2 * p.queued + 4
      split <;> omega
  | timeout =>
    simp only [Pipe.step]
    split
    · exact Or.inl rfl
    · exact h

theorem prun_settled (ops : List POp) (p : Pipe) (h : p.Settled) : (Pipe.run p ops).Settled := by
  induction ops generalizing p with
  | nil => exact h
  | cons o r ih => exact ih _ (pstep_settled p o h)

/-! ## Saturating load: refill -/

theorem refill_not_accepting (c : Counter) (fuel : Nat) (h : c.accepting = false) :
    c.refill fuel = c := by
  cases fuel with
  | zero => rfl
  | succ f => simp [Counter.refill, inc_snd, h]

theorem refill_full (fuel : Nat) (c : Counter) (ha : c.accepting = true) (hlt : c.current < c.stop)
    (hs : c.stop < two64) (hf : c.stop - c.current ≤ fuel) :
    c.refill fuel = { c with current := c.stop, accepting := false } := by
  induction fuel generalizing c with
  | zero => omega
  | succ f ih =>
    have h2 : c.increment.2 = true := by rw [inc_snd]; exact ha
    simp only [Counter.refill, h2, if_true]
    rw [inc_fst c ha hlt hs]
    by_cases hn : c.current + 1 < c.stop
    · rw [ih _ (by simp [hn]) (by simpa using hn) (by simpa using hs) (by simp; omega)]
    · have he : c.current + 1 = c.stop := by omega
      rw [refill_not_accepting _ _ (by simp [hn])]
      simp [he]

end Agd.ConnLimit
