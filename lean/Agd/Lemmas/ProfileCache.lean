import Agd.Model.ProfileCache
/-! Helper lemmas for the file-cache round trip (C14). -/
namespace Agd.ProfileCache

/-- Authentication settings as the backend converter produces them: disabled settings carry the
allow-all authenticator and no DoH-only flag, and the authenticator is never a nil interface. -/
def CanonAuth (a : Auth) : Prop :=
  (a.enabled = false → a.dohOnly = false ∧ a.pw = .allow) ∧ a.pw ≠ .nilHash

instance (a : Auth) : Decidable (CanonAuth a) := by unfold CanonAuth; infer_instance

theorem opt_rt {α β : Type} (f : α → β) (g : β → α) (h : ∀ x, g (f x) = x) (o : Option α) :
    (o.map f).map g = o := by
  cases o <;> simp [h]

theorem list_rt {α β : Type} (f : α → β) (g : β → α) (l : List α) (h : ∀ x ∈ l, g (f x) = x) :
    (l.map f).map g = l := by
  induction l with
  | nil => rfl
  | cons a r ih =>
    simp only [List.map_cons]
    rw [h a (by simp), ih (fun x hx => h x (List.mem_cons_of_mem _ hx))]

/-! ### The binary form of addresses -/

/-- Reading back the binary form of an address returns the address — zero value, both lengths, the
zone included. -/
theorem addr_rt (a : Addr) (h : a.WF) : Addr.unmarshal a.marshal = some a := by
  cases a with
  | zero => rfl
  | v4 b =>
    have hb : b.length = 4 := h
    simp [Addr.unmarshal, Addr.marshal, hb]
  | v6 b z =>
    have hb : b.length = 16 := h
    cases z with
    | nil => simp [Addr.unmarshal, Addr.marshal, hb]
    | cons x r =>
      have h1 : (b ++ x :: r).length = 16 + (r.length + 1) := by simp [hb]
      have h2 : ¬ (16 + (r.length + 1) = 0) := by omega
      have h3 : ¬ (16 + (r.length + 1) = 4) := by omega
      have h4 : ¬ (16 + (r.length + 1) = 16) := by omega
      have h5 : 16 < 16 + (r.length + 1) := by omega
      have h6 : (b ++ x :: r).take 16 = b := by
        rw [← hb]; exact List.take_left
      have h7 : (b ++ x :: r).drop 16 = x :: r := by
        rw [← hb]; exact List.drop_left
      simp only [Addr.unmarshal, Addr.marshal, h1, h2, h3, h4, h5, h6, h7, if_true, if_false]

/-- Whatever `UnmarshalBinary` accepts is a well-formed address. -/
theorem unmarshal_wf (b : List Nat) (a : Addr) (h : Addr.unmarshal b = some a) : a.WF := by
  unfold Addr.unmarshal at h
  split at h
  · cases h; trivial
  · split at h
    · cases h; assumption
    · split at h
      · cases h; assumption
      · split at h
        · cases h
          show (b.take 16).length = 16
          rw [List.length_take]; omega
        · cases h

/-- … and its binary form is the input: the decoder has exactly one input per address. -/
theorem marshal_unmarshal (b : List Nat) (a : Addr) (h : Addr.unmarshal b = some a) : a.marshal = b := by
  unfold Addr.unmarshal at h
  split at h
  · cases h
    rename_i h0
    exact (List.eq_nil_of_length_eq_zero h0).symm
  · split at h
    · cases h; rfl
    · split at h
      · cases h; simp [Addr.marshal]
      · split at h
        · cases h; simp [Addr.marshal]
        · cases h

/-- Two well-formed addresses with the same binary form are the same address: keys that differ in
memory (in the zone only, in the address family only) differ in the cache file. -/
theorem marshal_inj (a b : Addr) (ha : a.WF) (hb : b.WF) (h : a.marshal = b.marshal) : a = b := by
  have h1 := addr_rt a ha
  rw [h, addr_rt b hb] at h1
  exact (Option.some.inj h1).symm

/-- An address as `backendpb` produces it: the result of `UnmarshalBinary` on some wire bytes
(`DeviceSettings.toInternal`, `ByteSlicesToIPs`, `BlockingModeCustomIP.toInternal`). -/
def FromWire (a : Addr) : Prop := ∃ b, Addr.unmarshal b = some a

theorem fromWire_wf (a : Addr) (h : FromWire a) : a.WF := by
  obtain ⟨b, hb⟩ := h
  exact unmarshal_wf b a hb

theorem addrs_rt (l : List Addr) (h : ∀ a ∈ l, a.WF) : addrsFromPb (addrsToPb l) = some l := by
  induction l with
  | nil => rfl
  | cons a r ih =>
    have ha := addr_rt a (h a (by simp))
    have hr := ih (fun x hx => h x (List.mem_cons_of_mem _ hx))
    simp only [addrsToPb, List.map_cons, addrsFromPb] at hr ⊢
    rw [ha, hr]

theorem addrs_wf (bs : List (List Nat)) : ∀ (l : List Addr), addrsFromPb bs = some l → ∀ a ∈ l, a.WF := by
  induction bs with
  | nil =>
    intro l h a ha
    simp [addrsFromPb] at h
    subst h
    simp at ha
  | cons b r ih =>
    intro l h a ha
    simp only [addrsFromPb] at h
    cases hu : Addr.unmarshal b with
    | none => simp [hu] at h
    | some x =>
      cases hr : addrsFromPb r with
      | none => simp [hu, hr] at h
      | some xs =>
        simp [hu, hr] at h
        subst h
        rcases List.mem_cons.mp ha with rfl | hm
        · exact unmarshal_wf b _ hu
        · exact ih xs hr a hm

theorem optAll_rt {α β : Type} (f : α → β) (g : β → Option α) (l : List α)
    (h : ∀ x ∈ l, g (f x) = some x) : optAll ((l.map f).map g) = some l := by
  induction l with
  | nil => rfl
  | cons a r ih =>
    have ha := h a (by simp)
    have hr := ih (fun x hx => h x (List.mem_cons_of_mem _ hx))
    simp only [List.map_cons, optAll]
    rw [ha, hr]

/-- Well-formed addresses in a blocking mode. -/
def BmWF : BlockingMode → Prop
  | .customIP v4 v6 => (∀ a ∈ v4, a.WF) ∧ (∀ a ∈ v6, a.WF)
  | _ => True

theorem bm_rt (m : BlockingMode) (h : BmWF m) : bmFromPb (bmToPb m) = some m := by
  cases m with
  | customIP v4 v6 =>
    obtain ⟨h4, h6⟩ := h
    simp only [bmToPb, bmFromPb, addrs_rt v4 h4, addrs_rt v6 h6]
  | nxdomain => rfl
  | nullIP => rfl
  | refused => rfl

theorem auth_rt (a : Auth) (h : CanonAuth a) : authFromPb (authToPb a) = a := by
  obtain ⟨en, doh, pw⟩ := a
  obtain ⟨h1, h2⟩ := h
  cases en with
  | false =>
    obtain ⟨rfl, rfl⟩ := h1 rfl
    rfl
  | true =>
    cases pw with
    | allow => rfl
    | bcrypt h => rfl
    | nilHash => exact absurd rfl h2

theorem day_rt (i : DayIvl) : dayFromPb (dayToPb i) = i := by
  obtain ⟨a, b⟩ := i
  simp [dayFromPb, dayToPb]

theorem schedule_rt (c : Schedule) : scheduleFromPb (scheduleToPb c) = c := by
  obtain ⟨a, b, c, d, e, f, g, tz⟩ := c
  simp [scheduleFromPb, scheduleToPb, opt_rt dayToPb dayFromPb day_rt]

theorem ratelimiter_rt (est : Nat) (r : Ratelimiter) (h : r.EstIs est) :
    ratelimiterFromPb est (ratelimiterToPb r) = r := by
  cases r with
  | global => simp [ratelimiterFromPb, ratelimiterToPb]
  | default sn rps e =>
    simp only [Ratelimiter.EstIs] at h
    simp [ratelimiterFromPb, ratelimiterToPb, h]

theorem duration_rt (d : Int) : durationFromPb (durationToPb d) = d := by
  simp only [durationFromPb, durationToPb]
  omega

theorem device_rt (d : Device) (h : CanonAuth d.auth) (hl : d.linked.WF) (hd : ∀ a ∈ d.dedicated, a.WF) :
    deviceFromPb (deviceToPb d) = some d := by
  obtain ⟨a, id, l, n, hu, de, f⟩ := d
  simp only [deviceFromPb, deviceToPb, addr_rt l hl, addrs_rt de hd, auth_rt a h]

theorem profile_rt (est : Nat) (p : Profile) (h : BmWF p.blockingMode) (he : p.ratelimiter.EstIs est) :
    profileFromPb est (profileToPb p) = some p := by
  cases p
  simp only [profileFromPb, profileToPb, bm_rt _ h]
  simp only at he
  simp [ratelimiter_rt est _ he, duration_rt, opt_rt scheduleToPb scheduleFromPb schedule_rt]

/-! ### Write-then-rename -/

theorem fold_no_rename (ops : List FsOp) : ∀ (fs : Fs), (∀ o ∈ ops, o ≠ .rename) →
    (ops.foldl fsStep fs).target = fs.target := by
  induction ops with
  | nil => intro fs _; rfl
  | cons o r ih =>
    intro fs h
    simp only [List.foldl]
    rw [ih _ (fun x hx => h x (List.mem_cons_of_mem _ hx))]
    cases o with
    | createTemp => rfl
    | write c => rfl
    | sync => rfl
    | rename => exact absurd rfl (h .rename (by simp))

theorem fold_writes (chunks : List (List Nat)) : ∀ (t : Option (List Nat)) (acc : List Nat),
    (chunks.map FsOp.write).foldl fsStep { target := t, temp := some acc } =
      { target := t, temp := some (acc ++ chunks.flatten) } := by
  induction chunks with
  | nil => intro t acc; simp
  | cons c r ih =>
    intro t acc
    simp only [List.map_cons, List.foldl, fsStep, Option.map_some, List.flatten_cons]
    rw [ih]
    simp [List.append_assoc]

end Agd.ProfileCache
