import Agd.Model.ProfileCache
/-! Helper lemmas for the file-cache round trip (C14). -/
namespace Agd.ProfileCache

/-- Authentication settings as the backend converter produces them: disabled settings carry the
allow-all authenticator and no DoH-only flag, and the authenticator is never a nil interface. -/
def CanonAuth (a : Auth) : Prop :=
  (a.enabled = false → a.dohOnly = false ∧ a.pw = .allow) ∧ a.pw ≠ .nilHash

instance (a : Auth) : Decidable (CanonAuth a) := by unfold CanonAuth; infer_instance

theorem opt_rt {α β : Type} (f : α → β) (g : β → α) (h : ∀ x, g (f x) = x) (o : Option α) :
    (o.map f).map g = o := by
  cases o <;> simp [h]

theorem list_rt {α β : Type} (f : α → β) (g : β → α) (l : List α) (h : ∀ x ∈ l, g (f x) = x) :
    (l.map f).map g = l := by
  induction l with
  | nil => rfl
  | cons a r ih =>
    simp only [List.map_cons]
    rw [h a (by simp), ih (fun x hx => h x (List.mem_cons_of_mem _ hx))]

theorem auth_rt (a : Auth) (h : CanonAuth a) : authFromPb (authToPb a) = a := by
  obtain ⟨en, doh, pw⟩ := a
  obtain ⟨h1, h2⟩ := h
  cases en with
  | false =>
    obtain ⟨rfl, rfl⟩ := h1 rfl
    rfl
  | true =>
    cases pw with
    | allow => rfl
    | bcrypt h => rfl
    | nilHash => exact absurd rfl h2

theorem day_rt (i : DayIvl) : dayFromPb (dayToPb i) = i := by
  obtain ⟨a, b⟩ := i
  simp [dayFromPb, dayToPb]

theorem schedule_rt (c : Schedule) : scheduleFromPb (scheduleToPb c) = c := by
  obtain ⟨a, b, c, d, e, f, g, tz⟩ := c
  simp [scheduleFromPb, scheduleToPb, opt_rt dayToPb dayFromPb day_rt]

theorem ratelimiter_rt (r : Ratelimiter) : ratelimiterFromPb (ratelimiterToPb r) = r := by
  cases r <;> simp [ratelimiterFromPb, ratelimiterToPb]

theorem duration_rt (d : Int) : durationFromPb (durationToPb d) = d := by
  simp only [durationFromPb, durationToPb]
  omega

theorem device_rt (d : Device) (h : CanonAuth d.auth) : deviceFromPb (deviceToPb d) = d := by
  obtain ⟨a, id, l, n, hu, de, f⟩ := d
  simp [deviceFromPb, deviceToPb, auth_rt a h]

theorem profile_rt (p : Profile) : profileFromPb (profileToPb p) = p := by
  cases p
  simp [profileFromPb, profileToPb, ratelimiter_rt, duration_rt,
    opt_rt scheduleToPb scheduleFromPb schedule_rt]

/-! ### Write-then-rename -/

theorem fold_no_rename (ops : List FsOp) : ∀ (fs : Fs), (∀ o ∈ ops, o ≠ .rename) →
    (ops.foldl fsStep fs).target = fs.target := by
  induction ops with
  | nil => intro fs _; rfl
  | cons o r ih =>
    intro fs h
    simp only [List.foldl]
    rw [ih _ (fun x hx => h x (List.mem_cons_of_mem _ hx))]
    cases o with
    | createTemp => rfl
    | write c => rfl
    | sync => rfl
    | rename => exact absurd rfl (h .rename (by simp))

theorem fold_writes (chunks : List (List Nat)) : ∀ (t : Option (List Nat)) (acc : List Nat),
    (chunks.map FsOp.write).foldl fsStep { target := t, temp := some acc } =
      { target := t, temp := some (acc ++ chunks.flatten) } := by
  induction chunks with
  | nil => intro t acc; simp
  | cons c r ih =>
    intro t acc
    simp only [List.map_cons, List.foldl, fsStep, Option.map_some, List.flatten_cons]
    rw [ih]
    simp [List.append_assoc]

end Agd.ProfileCache
