import Agd.Model.ECS
/-! Helper lemmas for C05 (ECS cache path). -/
set_option linter.unusedSimpArgs false
namespace Agd.ECS

theorem mkECS_isECS (p : Pfx) (sc : Nat) : (mkECS p sc).isECS = true := rfl

theorem ecsOpts_nil : ecsOpts [] = [] := rfl

theorem ecsOpts_cons (rr : OptRR) (l : List OptRR) :
    ecsOpts (rr :: l) = rr.opts.filter Opt.isECS ++ ecsOpts l := by
  simp [ecsOpts]

theorem stripECS_noECS (rr : OptRR) : (stripECS rr).opts.filter Opt.isECS = [] := by
  simp [stripECS, List.filter_filter]

/-- Appending an ECS option to the last OPT RR of a message without ECS options leaves exactly it. -/
theorem ecsOpts_appendLast (o : Opt) (ho : o.isECS = true) :
    ∀ (l : List OptRR), (∀ rr ∈ l, rr.opts.filter Opt.isECS = []) → ecsOpts (appendLast o l) = [o]
  | [], _ => by simp [appendLast, ecsOpts, ho]
  | [rr], h => by
    have := h rr (by simp)
    simp [appendLast, ecsOpts, this, ho]
  | rr :: rr' :: rest, h => by
    have h1 := h rr (by simp)
    have ih := ecsOpts_appendLast o ho (rr' :: rest) (fun x hx => h x (by simp [hx]))
    rw [appendLast, ecsOpts_cons, h1, ih]; rfl

/-- **After `setECS` the message carries exactly the option being set** (fixed code). -/
theorem ecsOpts_setECS (extra : List OptRR) (p : Pfx) (isResp : Bool) :
    ecsOpts (setECS extra p isResp) = [mkECS p (if isResp then p.bits else 0)] := by
  unfold setECS
  apply ecsOpts_appendLast _ (mkECS_isECS _ _)
  intro rr hrr
  obtain ⟨a, _, rfl⟩ := List.mem_map.1 hrr
  exact stripECS_noECS a

/-- `rmHopToHopData` leaves no ECS option in an answer. -/
theorem ecsOpts_rmHop (extra : List OptRR) : ecsOpts (rmHop extra) = [] := by
  unfold ecsOpts
  rw [List.flatten_eq_nil_iff]
  intro l hl
  obtain ⟨rr, hrr, rfl⟩ := List.mem_map.1 hl
  unfold rmHop at hrr
  obtain ⟨hrr, _⟩ := List.mem_filter.1 hrr
  obtain ⟨a, _, rfl⟩ := List.mem_map.1 hrr
  simp only [List.filter_filter]
  rw [List.filter_eq_nil_iff]
  intro o _
  cases o <;> simp [Opt.isECS]

/-- What `ecsData` accepts: a supported family with a matching address, a prefix length within the
family's width and no address bits beyond it; the accepted prefix has the option's source length. -/
theorem ecsData_ok (e : RawECS) (p : Pfx) (sc : Nat) (h : ecsData e = some (p, sc)) :
    (e.family = 1 ∨ e.family = 2) ∧ p.bits = e.mask ∧ p.bits ≤ p.fam.bits ∧
    maskAddr p.fam p.addr p.bits = p.addr ∧ sc = e.scope := by
  unfold ecsData at h
  split at h
  · simp at h
  · rename_i fa hfa
    split at h
    · rename_i hc
      simp only [Option.some.injEq, Prod.mk.injEq] at h
      obtain ⟨rfl, rfl⟩ := h
      refine ⟨?_, rfl, hc.1, hc.2, rfl⟩
      unfold toAddr at hfa
      by_cases h1 : e.family = 1
      · exact Or.inl h1
      · by_cases h2 : e.family = 2
        · exact Or.inr h2
        · simp [h1, h2] at hfa
    · simp at h

/-- Masking with shifts leaves an address alone exactly when its low bits are zero. -/
theorem maskAddr_eq_iff (f : Fam) (a bits : Nat) : maskAddr f a bits = a ↔ a % 2 ^ (f.bits - bits) = 0 := by
  unfold maskAddr
  rw [Nat.shiftRight_eq_div_pow, Nat.shiftLeft_eq]
  generalize 2 ^ (f.bits - bits) = d
  have h := Nat.div_add_mod a d
  rw [Nat.mul_comm] at h
  constructor
  · intro h1; omega
  · intro h1; omega

/-! ## The cache invariant: every entry was stored by an earlier request under that request's key -/

/-- Every cache entry comes from a request of `hist` whose own key it is stored under; entries of the
no-ECS cache come from answers that were not ECS-dependent, entries of the ECS cache from answers
that were; stored answers went through `rmHopToHopData`. -/
def Inv (env : Env) (hist : List (Req × Up)) (s : St) : Prop :=
  (∀ k it, s.noecs k = some it → ∃ x ∈ hist, x.2.token = it.tok ∧ it.extra = rmHop x.2.extra ∧
      k = nkey x.1 (zeroPfx (ecsFamOf x.1)) ∧ dependent env x.1 x.2 = false) ∧
  (∀ k it, s.ecs k = some it → ∃ x ∈ hist, x.2.token = it.tok ∧ it.extra = rmHop x.2.extra ∧
      (∃ sub, mapped env x.1 = some sub ∧ sub.fam = ecsFamOf x.1 ∧ k = ekey x.1 sub) ∧
      dependent env x.1 x.2 = true)

theorem inv_empty (env : Env) (hist : List (Req × Up)) : Inv env hist St.empty := by
  constructor <;> intro k it h <;> simp [St.empty] at h

theorem inv_mono (env : Env) (h1 h2 : List (Req × Up)) (s : St) (hsub : ∀ x ∈ h1, x ∈ h2)
    (hi : Inv env h1 s) : Inv env h2 s := by
  constructor
  · intro k it h
    obtain ⟨x, hx, rest⟩ := hi.1 k it h
    exact ⟨x, hsub x hx, rest⟩
  · intro k it h
    obtain ⟨x, hx, rest⟩ := hi.2 k it h
    exact ⟨x, hsub x hx, rest⟩

theorem inv_dropN (env : Env) (hist : List (Req × Up)) (s : St) (k : NKey) (hi : Inv env hist s) :
    Inv env hist { s with noecs := putN s.noecs k none } := by
  constructor
  · intro k' it h
    simp only [putN] at h
    split at h
    · simp at h
    · exact hi.1 k' it h
  · exact hi.2

theorem inv_dropE (env : Env) (hist : List (Req × Up)) (s : St) (k : EKey) (hi : Inv env hist s) :
    Inv env hist { s with ecs := putE s.ecs k none } := by
  constructor
  · exact hi.1
  · intro k' it h
    simp only [putE] at h
    split at h
    · simp at h
    · exact hi.2 k' it h

/-- The state after `serve` is the old one, or the old one plus this request's own entry. -/
theorem serve_state (env : Env) (s : St) (r : Req) (u : Up) :
    (serve env s r u).1 = s ∨
    (∃ sub, mapped env r = some sub ∧ sub.fam = ecsFamOf r ∧ dependent env r u = true ∧
      (serve env s r u).1 = { s with ecs := putE s.ecs (ekey r sub) (some ⟨u.token, rmHop u.extra⟩) }) ∨
    (dependent env r u = false ∧
      (serve env s r u).1 =
        { s with noecs := putN s.noecs (nkey r (zeroPfx (ecsFamOf r))) (some ⟨u.token, rmHop u.extra⟩) }) := by
  unfold serve
  split
  · exact Or.inl rfl
  · unfold serveCache
    split
    · exact Or.inl rfl
    · rename_i sub hsub
      split
      · exact Or.inl rfl
      · split
        · exact Or.inl rfl
        · split
          · exact Or.inl rfl
          · rename_i hfam
            split
            · exact Or.inl rfl
            · split
              · exact Or.inl rfl
              · by_cases hc : u.cacheable
                · by_cases hd : dependent env r u = true
                  · right; left
                    exact ⟨sub, hsub, by simpa using hfam, hd, by simp [hc, hd]⟩
                  · right; right
                    have hd' : dependent env r u = false := by simpa using hd
                    exact ⟨hd', by simp [hc, hd']⟩
                · left; simp [hc]

/-- One store keeps the invariant: the new state is the old one, or the old one plus the request's
own entry under its own key. -/
theorem inv_step (env : Env) (hist : List (Req × Up)) (s s' : St) (r : Req) (u : Up)
    (hc : s' = s ∨
      (∃ sub, mapped env r = some sub ∧ sub.fam = ecsFamOf r ∧ dependent env r u = true ∧
        s' = { s with ecs := putE s.ecs (ekey r sub) (some ⟨u.token, rmHop u.extra⟩) }) ∨
      (dependent env r u = false ∧
        s' = { s with noecs := putN s.noecs (nkey r (zeroPfx (ecsFamOf r))) (some ⟨u.token, rmHop u.extra⟩) }))
    (hi : Inv env hist s) : Inv env ((r, u) :: hist) s' := by
  have hi' : Inv env ((r, u) :: hist) s := inv_mono env hist _ s (fun x hx => List.mem_cons_of_mem _ hx) hi
  rcases hc with h | ⟨sub, hm, hf, hd, h⟩ | ⟨hd, h⟩
  · rw [h]; exact hi'
  · rw [h]
    constructor
    · exact hi'.1
    · intro k it hk
      simp only [putE] at hk
      split at hk
      · rename_i hkk
        simp only [Option.some.injEq] at hk
        subst hk
        exact ⟨(r, u), List.mem_cons_self, rfl, rfl, ⟨sub, hm, hf, hkk⟩, hd⟩
      · exact hi'.2 k it hk
  · rw [h]
    constructor
    · intro k it hk
      simp only [putN] at hk
      split at hk
      · rename_i hkk
        simp only [Option.some.injEq] at hk
        subst hk
        exact ⟨(r, u), List.mem_cons_self, rfl, rfl, hkk, hd⟩
      · exact hi'.1 k it hk
    · exact hi'.2

theorem inv_serve (env : Env) (hist : List (Req × Up)) (s : St) (r : Req) (u : Up)
    (hi : Inv env hist s) : Inv env ((r, u) :: hist) (serve env s r u).1 :=
  inv_step env hist s _ r u (serve_state env s r u) hi

/-! ## Overlapping requests -/

/-- When both look-ups miss, `serveCache` is `serveMiss`. -/
theorem serveCache_miss (env : Env) (s : St) (r : Req) (u : Up) (sub : Pfx)
    (hm : mapped env r = some sub) (hn : s.noecs (nkey r sub) = none)
    (he : (if declined r then none else s.ecs (ekey r sub)) = none) :
    serveCache env s r u = serveMiss env s r sub u := by
  unfold serveCache serveMiss
  simp only [hm, hn, he]

/-- A sequential request either leaves the caches alone (FORMERR, GeoIP error, cache hit) or is a
completion in the same state. -/
theorem serve_eq_finish (env : Env) (s : St) (r : Req) (u : Up) :
    (serve env s r u).1 = s ∨ serve env s r u = finish env s r u := by
  unfold serve finish
  split
  · exact Or.inl rfl
  · cases hm : mapped env r with
    | none => left; simp [serveCache, hm, errOut]
    | some sub =>
      cases hn : s.noecs (nkey r sub) with
      | some it => left; simp [serveCache, hm, hn]
      | none =>
        cases he : (if declined r then none else s.ecs (ekey r sub)) with
        | some it => left; simp [serveCache, hm, hn, he]
        | none => right; simpa using serveCache_miss env s r u sub hm hn he

theorem finish_state (env : Env) (s : St) (r : Req) (u : Up) :
    (finish env s r u).1 = s ∨
    (∃ sub, mapped env r = some sub ∧ sub.fam = ecsFamOf r ∧ dependent env r u = true ∧
      (finish env s r u).1 = { s with ecs := putE s.ecs (ekey r sub) (some ⟨u.token, rmHop u.extra⟩) }) ∨
    (dependent env r u = false ∧
      (finish env s r u).1 =
        { s with noecs := putN s.noecs (nkey r (zeroPfx (ecsFamOf r))) (some ⟨u.token, rmHop u.extra⟩) }) := by
  unfold finish
  split
  · exact Or.inl rfl
  · split
    · exact Or.inl rfl
    · rename_i sub hsub
      unfold serveMiss
      split
      · exact Or.inl rfl
      · rename_i hfam
        split
        · exact Or.inl rfl
        · split
          · exact Or.inl rfl
          · by_cases hc : u.cacheable
            · by_cases hd : dependent env r u = true
              · right; left
                exact ⟨sub, hsub, by simpa using hfam, hd, by simp [hc, hd]⟩
              · right; right
                have hd' : dependent env r u = false := by simpa using hd
                exact ⟨hd', by simp [hc, hd']⟩
            · left; simp [hc]

theorem inv_finish (env : Env) (hist : List (Req × Up)) (s : St) (r : Req) (u : Up)
    (hi : Inv env hist s) : Inv env ((r, u) :: hist) (finish env s r u).1 :=
  inv_step env hist s _ r u (finish_state env s r u) hi

/-- The completions of an execution. -/
def finsOf : List CEv → List (Req × Up)
  | [] => []
  | .fin r u :: es => (r, u) :: finsOf es
  | _ :: es => finsOf es

theorem inv_runC (env : Env) : ∀ (evs : List CEv) (hist : List (Req × Up)) (s : St), Inv env hist s →
    Inv env (finsOf evs ++ hist) (runC env s evs)
  | [], hist, s, hi => by simpa [finsOf, runC] using hi
  | .fin r u :: es, hist, s, hi => by
    have := inv_runC env es ((r, u) :: hist) _ (inv_finish env hist s r u hi)
    simp only [runC, stepC, finsOf]
    exact inv_mono env _ _ _ (fun x hx => by
      simp only [List.mem_append, List.mem_cons] at hx ⊢
      rcases hx with h | h | h
      · exact Or.inl (Or.inr h)
      · exact Or.inl (Or.inl h)
      · exact Or.inr h) this
  | .dropN k :: es, hist, s, hi => by
    simpa [runC, stepC, finsOf] using inv_runC env es hist _ (inv_dropN env hist s k hi)
  | .dropE k :: es, hist, s, hi => by
    simpa [runC, stepC, finsOf] using inv_runC env es hist _ (inv_dropE env hist s k hi)

/-- **States reached by overlapping requests satisfy the invariant.** -/
theorem inv_reachableC (env : Env) (evs : List CEv) : Inv env (finsOf evs) (runC env St.empty evs) := by
  simpa using inv_runC env evs [] St.empty (inv_empty env [])

/-- The requests of a history. -/
def reqsOf : List Ev → List (Req × Up)
  | [] => []
  | .req r u :: es => (r, u) :: reqsOf es
  | _ :: es => reqsOf es

theorem inv_run (env : Env) : ∀ (evs : List Ev) (hist : List (Req × Up)) (s : St), Inv env hist s →
    Inv env (reqsOf evs ++ hist) (runEv env s evs)
  | [], hist, s, hi => by simpa [reqsOf, runEv] using hi
  | .req r u :: es, hist, s, hi => by
    have := inv_run env es ((r, u) :: hist) _ (inv_serve env hist s r u hi)
    simp only [runEv, stepEv, reqsOf]
    exact inv_mono env _ _ _ (fun x hx => by
      simp only [List.mem_append, List.mem_cons] at hx ⊢
      rcases hx with h | h | h
      · exact Or.inl (Or.inr h)
      · exact Or.inl (Or.inl h)
      · exact Or.inr h) this
  | .dropN k :: es, hist, s, hi => by
    simpa [runEv, stepEv, reqsOf] using inv_run env es hist _ (inv_dropN env hist s k hi)
  | .dropE k :: es, hist, s, hi => by
    simpa [runEv, stepEv, reqsOf] using inv_run env es hist _ (inv_dropE env hist s k hi)

/-- **Reachable states satisfy the invariant.** -/
theorem inv_reachable (env : Env) (evs : List Ev) : Inv env (reqsOf evs) (runEv env St.empty evs) := by
  simpa using inv_run env evs [] St.empty (inv_empty env [])

/-! ## What a look-up can return in a state satisfying the invariant -/

theorem partition_of_inv (env : Env) (hist : List (Req × Up)) (st : St) (hinv : Inv env hist st) (r : Req) (u : Up)
    (hsrc : (serve env (st) r u).2.src = .ecsCache) :
    ∃ x ∈ hist, some x.2.token = (serve env (st) r u).2.tok ∧
      dependent env x.1 x.2 = true ∧ declined r = false ∧
      (∃ sub, mapped env r = some sub ∧ mapped env x.1 = some sub ∧ sub.fam = ecsFamOf x.1) ∧
      x.1.host = r.host ∧ x.1.qtype = r.qtype ∧ x.1.qclass = r.qclass ∧
      isDO x.1.extra = isDO r.extra := by
  unfold serve at hsrc ⊢
  split at hsrc
  · simp at hsrc
  · rename_i hbad
    simp only [hbad, ↓reduceIte]
    unfold serveCache at hsrc ⊢
    split at hsrc
    · simp [errOut] at hsrc
    · rename_i sub hsub
      simp only [hsub]
      split at hsrc
      · simp at hsrc
      · split at hsrc
        · rename_i it hit
          have hdec : declined r = false := by
            cases hd : declined r
            · rfl
            · simp [hd] at hit
          simp only [hdec] at hit
          obtain ⟨x, hx, htok, -, ⟨sub', hm', hf', hk⟩, hdep⟩ := hinv.2 _ it hit
          simp only [ekey, EKey.mk.injEq] at hk
          refine ⟨x, hx, by simp [htok], hdep, hdec, ⟨sub, rfl, ?_, ?_⟩, hk.1.symm, hk.2.1.symm,
            hk.2.2.1.symm, hk.2.2.2.1.symm⟩
          · rw [hm', hk.2.2.2.2]
          · rw [hk.2.2.2.2]; exact hf'
        · split at hsrc
          · simp [errOut] at hsrc
          · split at hsrc
            · simp [errOut] at hsrc
            · split at hsrc <;> simp [errOut] at hsrc

theorem unscoped_reuse_of_inv (env : Env) (hist : List (Req × Up)) (st : St) (hinv : Inv env hist st) (r : Req) (u : Up)
    (hsrc : (serve env (st) r u).2.src = .noecsCache) :
    ∃ x ∈ hist, some x.2.token = (serve env (st) r u).2.tok ∧
      dependent env x.1 x.2 = false ∧ declined x.1 = declined r ∧
      x.1.host = r.host ∧ x.1.qtype = r.qtype ∧ x.1.qclass = r.qclass ∧
      isDO x.1.extra = isDO r.extra := by
  unfold serve at hsrc ⊢
  split at hsrc
  · simp at hsrc
  · rename_i hbad
    simp only [hbad, ↓reduceIte]
    unfold serveCache at hsrc ⊢
    split at hsrc
    · simp [errOut] at hsrc
    · rename_i sub hsub
      simp only [hsub]
      split at hsrc
      · rename_i it hit
        simp only [hit]
        obtain ⟨x, hx, htok, -, hk, hdep⟩ := hinv.1 _ it hit
        simp only [nkey, NKey.mk.injEq] at hk
        exact ⟨x, hx, by simp [htok], hdep, hk.2.2.2.2.2.symm, hk.1.symm, hk.2.1.symm, hk.2.2.1.symm,
          hk.2.2.2.1.symm⟩
      · split at hsrc
        · simp at hsrc
        · split at hsrc
          · simp [errOut] at hsrc
          · split at hsrc
            · simp [errOut] at hsrc
            · split at hsrc <;> simp [errOut] at hsrc

theorem ecs_echo_of_inv (env : Env) (hist : List (Req × Up)) (st : St) (hinv : Inv env hist st) (r : Req) (u : Up)
    (hk : (serve env (st) r u).2.kind = .ok) :
    ecsOpts (serve env (st) r u).2.rextra =
      match ecsFromMsg r.extra with
      | .ok p _ => [mkECS p p.bits]
      | _ => [] := by
  have hresp : ∀ extra, ecsOpts extra = [] → ecsOpts (respExtra r extra) =
      match ecsFromMsg r.extra with
      | .ok p _ => [mkECS p p.bits]
      | _ => [] := by
    intro extra he
    cases h : ecsFromMsg r.extra <;> simp [respExtra, clientECS, h, ecsOpts_setECS, he]
  unfold serve at hk ⊢
  split at hk
  · simp at hk
  · rename_i hbad
    simp only [hbad, ↓reduceIte]
    unfold serveCache at hk ⊢
    split at hk
    · simp [errOut] at hk
    · rename_i sub hsub
      simp only [hsub]
      split at hk
      · rename_i it hit
        simp only [hit]
        obtain ⟨x, -, -, hex, -, -⟩ := hinv.1 _ it hit
        exact hresp _ (by rw [hex]; exact ecsOpts_rmHop _)
      · split at hk
        · rename_i it hit
          obtain ⟨x, -, -, hex, -, -⟩ := hinv.2 (ekey r sub) it (by
            cases hd : declined r <;> simp_all)
          exact hresp _ (by rw [hex]; exact ecsOpts_rmHop _)
        · split at hk
          · simp [errOut] at hk
          · rename_i hfam
            try simp only [hfam, ↓reduceIte]
            split at hk
            · simp [errOut] at hk
            · rename_i hfail
              try simp only [hfail, ↓reduceIte]
              split at hk
              · simp [errOut] at hk
              · rename_i hub
                try simp only [hub, ↓reduceIte]
                exact hresp _ (ecsOpts_rmHop _)

theorem declined_of_inv (env : Env) (hist : List (Req × Up)) (st : St) (hinv : Inv env hist st) (r : Req) (u : Up)
    (hd : declined r = true) (hsrc : (serve env st r u).2.src = .noecsCache) :
    ∃ x ∈ hist, some x.2.token = (serve env st r u).2.tok ∧
      declined x.1 = true ∧ dependent env x.1 x.2 = false ∧ x.1.host = r.host ∧
      x.1.qtype = r.qtype ∧ x.1.qclass = r.qclass ∧ ecsFamOf x.1 = ecsFamOf r := by
  unfold serve at hsrc ⊢
  split at hsrc
  · simp at hsrc
  · rename_i hbad
    simp only [hbad, ↓reduceIte]
    unfold serveCache at hsrc ⊢
    split at hsrc
    · simp [errOut] at hsrc
    · rename_i sub hsub
      simp only [hsub]
      split at hsrc
      · rename_i it hit
        simp only [hit]
        obtain ⟨x, hx, htok, -, hk, hdep⟩ := hinv.1 _ it hit
        simp only [nkey, NKey.mk.injEq] at hk
        have hsubfam : sub.fam = ecsFamOf r := by
          unfold mapped at hsub
          simp only [hd, ↓reduceIte, Option.some.injEq] at hsub
          rw [← hsub]; rfl
        refine ⟨x, hx, by simp [htok], ?_, hdep, hk.1.symm, hk.2.1.symm, hk.2.2.1.symm, ?_⟩
        · rw [← hk.2.2.2.2.2]; exact hd
        · have := hk.2.2.2.2.1
          simp only [zeroPfx] at this
          rw [← this, hsubfam]
      · split at hsrc
        · simp at hsrc
        · split at hsrc
          · simp [errOut] at hsrc
          · split at hsrc
            · simp [errOut] at hsrc
            · split at hsrc <;> simp [errOut] at hsrc

/-! ## `geoip.File`: where the entries of the subnet maps come from -/

theorem replaceSubnet_cases {K : Type} [DecidableEq K] (m : K → Option Pfx) (k : K) (p : Pfx) (w : Nat)
    (k' : K) : replaceSubnet m k p w k' = m k' ∨ (k' = k ∧ replaceSubnet m k p w k' = some p) := by
  have hput : putK m k p k' = m k' ∨ (k' = k ∧ putK m k p k' = some p) := by
    by_cases h : k' = k
    · right; exact ⟨h, by simp [putK, h]⟩
    · left; simp [putK, h]
  unfold replaceSubnet
  cases hm : m k with
  | none =>
    simp only
    split
    · exact Or.inl rfl
    · exact hput
  | some prev =>
    simp only
    split
    · exact Or.inl rfl
    · exact hput

/-- Every entry of a scanned map was there before or is a network of the scan, stored under its own
key in the map of its own family. -/
theorem scan_from {K : Type} [DecidableEq K] :
    ∀ (nets : List (K × Pfx)) (m : Fam → K → Option Pfx) (f : Fam) (k : K) (q : Pfx),
      scan m nets f k = some q → m f k = some q ∨ ∃ n ∈ nets, n.1 = k ∧ n.2.fam = f ∧ q = n.2
  | [], m, f, k, q, h => Or.inl h
  | kp :: r, m, f, k, q, h => by
    rcases scan_from r (scanStep m kp.1 kp.2) f k q h with h1 | ⟨n, hn, h2⟩
    · unfold scanStep at h1
      split at h1
      · rename_i hf
        rcases replaceSubnet_cases (m f) kp.1 kp.2 (desired f) k with h3 | ⟨hk, h3⟩
        · left; rw [← h3]; exact h1
        · right
          rw [h3] at h1
          simp only [Option.some.injEq] at h1
          exact ⟨kp, List.mem_cons_self, hk.symm, hf.symm, h1.symm⟩
      · exact Or.inl h1
    · exact Or.inr ⟨n, List.mem_cons_of_mem _ hn, h2⟩

theorem lengthen_fam (f : Fam) (p : Pfx) : (lengthen f p).fam = p.fam := by
  unfold lengthen; split <;> rfl

theorem lengthen_addr (f : Fam) (p : Pfx) : (lengthen f p).addr = p.addr := by
  unfold lengthen; split <;> rfl

theorem lengthen_bits (f : Fam) (p : Pfx) : desired f ≤ (lengthen f p).bits := by
  unfold lengthen; split
  · exact Nat.le_refl _
  · omega

/-! ## The byte strings hashed by `toCacheKey` determine the structural keys -/

theorem beBytes_length (n a : Nat) : (beBytes n a).length = n := by
  induction n generalizing a with
  | zero => rfl
  | succ n ih => simp [beBytes, ih]

theorem beBytes_inj (n : Nat) : ∀ a b, a < 256 ^ n → b < 256 ^ n → beBytes n a = beBytes n b → a = b := by
  induction n with
  | zero => intro a b ha hb _; simp at ha hb; omega
  | succ n ih =>
    intro a b ha hb h
    simp only [beBytes] at h
    have hl : (beBytes n (a / 256)).length = (beBytes n (b / 256)).length := by
      simp [beBytes_length]
    obtain ⟨h1, h2⟩ := List.append_inj h hl
    have ha' : a / 256 < 256 ^ n := Nat.div_lt_of_lt_mul (by rw [Nat.pow_succ, Nat.mul_comm] at ha; exact ha)
    have hb' : b / 256 < 256 ^ n := Nat.div_lt_of_lt_mul (by rw [Nat.pow_succ, Nat.mul_comm] at hb; exact hb)
    have := ih _ _ ha' hb' h1
    simp at h2
    omega

theorem fam_pow (f : Fam) : 2 ^ f.bits = 256 ^ f.alen := by cases f <;> decide

theorem is6_inj (f g : Fam) (h : b2n f.is6 = b2n g.is6) : f = g := by
  cases f <;> cases g <;> simp [Fam.is6, b2n] at h ⊢

theorem b2n_inj (a b : Bool) (h : b2n a = b2n b) : a = b := by
  cases a <;> cases b <;> simp [b2n] at h ⊢

theorem u16_inj (a b : Nat) (ha : a < 65536) (hb : b < 65536) (h0 : a % 256 = b % 256)
    (h1 : a / 256 % 256 = b / 256 % 256) : a = b := by omega

theorem keyHead_inj (qt qc qt' qc' : Nat) (d d' : Bool) (f f' : Fam) (l l' : List Nat)
    (h1 : qt < 65536) (h2 : qc < 65536) (h1' : qt' < 65536) (h2' : qc' < 65536)
    (h : keyHead qt qc d f ++ l = keyHead qt' qc' d' f' ++ l') :
    qt = qt' ∧ qc = qc' ∧ d = d' ∧ f = f' ∧ l = l' := by
  simp only [keyHead, List.cons_append, List.nil_append, List.cons.injEq] at h
  obtain ⟨a0, a1, c0, c1, hd, hf, hl⟩ := h
  exact ⟨u16_inj _ _ h1 h1' a0 a1, u16_inj _ _ h2 h2' c0 c1, b2n_inj _ _ hd, is6_inj _ _ hf, hl⟩

/-! ## `geoip.File.Data`: histories of look-ups -/

/-- A sequence of `Data` calls (client and ECS addresses of successive requests) from a given cache. -/
def dataRun (lookup : Fam → Nat → Loc) (cache : Fam → Nat → Option Loc) :
    List (Fam × Nat) → (Fam → Nat → Option Loc)
  | [] => cache
  | q :: qs => dataRun lookup (dataCached lookup cache q.1 q.2).2 qs

/-- Every cached location is the database's answer for an address of that block that was asked. -/
def CacheFrom (lookup : Fam → Nat → Loc) (cache : Fam → Nat → Option Loc) (seen : List (Fam × Nat)) : Prop :=
  ∀ f k l, cache f k = some l → ∃ a', (f, a') ∈ seen ∧ blockOf f a' = k ∧ lookup f a' = l

theorem cacheFrom_step (lookup : Fam → Nat → Loc) (cache : Fam → Nat → Option Loc) (seen : List (Fam × Nat))
    (h : CacheFrom lookup cache seen) (q : Fam × Nat) :
    CacheFrom lookup (dataCached lookup cache q.1 q.2).2 (seen ++ [q]) := by
  intro f k l hc
  unfold dataCached at hc
  split at hc
  · obtain ⟨a', hm, hb, hl⟩ := h f k l hc
    exact ⟨a', by simp [hm], hb, hl⟩
  · simp only at hc
    split at hc
    · rename_i hk
      obtain ⟨hf, hk2⟩ := hk
      subst hf
      simp only [Option.some.injEq] at hc
      exact ⟨q.2, by simp, hk2.symm, hc⟩
    · obtain ⟨a', hm, hb, hl⟩ := h f k l hc
      exact ⟨a', by simp [hm], hb, hl⟩

theorem cacheFrom_run (lookup : Fam → Nat → Loc) (qs : List (Fam × Nat)) :
    ∀ (cache : Fam → Nat → Option Loc) (seen : List (Fam × Nat)), CacheFrom lookup cache seen →
      CacheFrom lookup (dataRun lookup cache qs) (seen ++ qs) := by
  induction qs with
  | nil => intro cache seen h; simpa [dataRun] using h
  | cons q qs ih =>
    intro cache seen h
    have := ih _ _ (cacheFrom_step lookup cache seen h q)
    simpa [dataRun, List.append_assoc] using this

/-! ## Names -/

theorem lowerByte_dot (b : Nat) : lowerByte b = 46 ↔ b = 46 := by
  unfold lowerByte; split <;> omega

/-- Lower-casing commutes with removing the final dot. -/
theorem normalizeDomain_eq (n : List Nat) : normalizeDomain n = trimDot (n.map lowerByte) := by
  unfold normalizeDomain trimDot
  have hl : (n.map lowerByte).getLast? = some 46 ↔ n.getLast? = some 46 := by
    rw [List.getLast?_map]
    cases h : n.getLast? with
    | none => simp
    | some b => simp [lowerByte_dot]
  by_cases h : n.getLast? = some 46
  · rw [if_pos h, if_pos (hl.mpr h), List.map_dropLast]
  · have h' : ¬ (n.map lowerByte).getLast? = some 46 := fun h' => h (hl.mp h')
    rw [if_neg h, if_neg h']

end Agd.ECS
