import Agd.Model.ECSRefresh
/-! Helper lemmas for the `Refresh` / `Data` small-step machine (C05). -/
namespace Agd.ECS.Refresh
open Agd.ECS

/-- Every cached location is what the NEW readers answer for some address of the entry's block. -/
def CacheNew (db : Ver → Fam → Nat → Loc) (c : LocCache) : Prop :=
  ∀ f k l, c f k = some l → ∃ a', blockOf f a' = k ∧ db .new f a' = l

/-- The concrete state agrees with the abstract follower of the refresher. -/
structure RInv (db : Ver → Fam → Nat → Loc) (s : RF) (z : Abs) : Prop where
  ver : s.ver = z.ver
  locked : s.locked = z.locked
  pend : s.pend = []
  clean : z.dirty = false → CacheNew db s.cache
  closed : z.dirty = false → z.isOpen = false

/-- `Refresh` has returned, the new readers are in place and nothing old is cached or pending. -/
structure Settled (db : Ver → Fam → Nat → Loc) (s : RF) : Prop where
  prog : s.prog = []
  ver : s.ver = .new
  pend : s.pend = []
  cache : CacheNew db s.cache

/-- What a look-up phase may show once the refresh is over. -/
def ResNew (db : Ver → Fam → Nat → Loc) : REv → Res → Prop
  | .get f a, .hit l => ∃ a', blockOf f a' = blockOf f a ∧ db .new f a' = l
  | .fill f a, .loc l => l = db .new f a
  | _, _ => True

def AllNew (db : Ver → Fam → Nat → Loc) : List REv → List Res → Prop
  | e :: es, r :: rs => ResNew db e r ∧ AllNew db es rs
  | _, _ => True

theorem cacheNew_empty (db : Ver → Fam → Nat → Loc) : CacheNew db (fun _ _ => none) := by
  intro f k l h; simp at h

theorem cacheNew_put (db : Ver → Fam → Nat → Loc) (c : LocCache) (h : CacheNew db c) (f : Fam) (a : Nat) :
    CacheNew db (putBlock c f a (db .new f a)) := by
  intro f' k l hc
  unfold putBlock at hc
  split at hc
  · rename_i hk
    obtain ⟨hf, hk2⟩ := hk
    subst hf
    simp only [Option.some.injEq] at hc
    exact ⟨a, hk2.symm, hc⟩
  · exact h f' k l hc

/-- The abstract state after the event. -/
def absNext (s : RF) (z : Abs) : REv → Abs
  | .step => match s.prog with
    | [] => z
    | a :: _ => z.act a
  | _ => z

theorem abs_act_closed (z : Abs) (a : RAct) (h : z.dirty = false → z.isOpen = false) :
    (z.act a).dirty = false → (z.act a).isOpen = false := by
  cases z with
  | mk v l d =>
    cases a <;> cases v <;> cases l <;> cases d <;> simp_all [Abs.act, Abs.isOpen]

theorem rinv_ev (db : Ver → Fam → Nat → Loc) (s : RF) (z : Abs) (h : RInv db s z) (e : REv) :
    RInv db (s.ev db true e).1 (absNext s z e) ∧
      (s.ev db true e).1.prog.foldl Abs.act (absNext s z e) = s.prog.foldl Abs.act z := by
  cases e with
  | step =>
    simp only [RF.ev, absNext]
    cases hp : s.prog with
    | nil => simp [hp]; exact h
    | cons a p =>
      simp only [List.foldl_cons, and_true]
      refine ⟨?_, ?_, ?_, ?_, abs_act_closed z a h.closed⟩
      · cases a <;> simp [RF.act, Abs.act, h.ver]
      · cases a <;> simp [RF.act, Abs.act, h.locked]
      · cases a <;> simp [RF.act, h.pend]
      · intro hd
        cases a with
        | clear => simpa [RF.act] using cacheNew_empty db
        | lock => exact h.clean (by simpa [Abs.act] using hd)
        | swap => exact h.clean (by simpa [Abs.act] using hd)
        | unlock =>
          have : z.dirty = false := by
            cases hz : z.dirty
            · rfl
            · simp [Abs.act, hz] at hd
          simpa [RF.act] using h.clean this
  | get f a =>
    simp only [RF.ev, absNext]
    split <;> exact ⟨h, by simp⟩
  | fill f a =>
    simp only [RF.ev, absNext]
    cases hl : s.locked with
    | true => exact ⟨by simpa using h, by simp⟩
    | false =>
      have hzl : z.locked = false := by rw [← h.locked, hl]
      simp only [Bool.false_eq_true, if_false, if_true]
      refine ⟨⟨h.ver, by simp [hzl], h.pend, ?_, h.closed⟩, trivial⟩
      intro hd
      have ho := h.closed hd
      have hv : s.ver = .new := by
        cases hz : z.ver
        · simp [Abs.isOpen, hz, hzl] at ho
        · rw [h.ver, hz]
      simp only [hv]
      exact cacheNew_put db s.cache (h.clean hd) f a
  | flush i =>
    simp only [RF.ev, absNext]
    simp [h.pend]
    exact h

theorem settled_of_rinv (db : Ver → Fam → Nat → Loc) (s : RF) (z : Abs) (h : RInv db s z)
    (hp : s.prog = []) (hv : z.ver = .new) (hd : z.dirty = false) : Settled db s :=
  ⟨hp, by rw [h.ver, hv], h.pend, h.clean hd⟩

/-- Soundness of the static criterion, for any state that agrees with an abstract one. -/
theorem run_safe (db : Ver → Fam → Nat → Loc) (evs : List REv) :
    ∀ (s : RF) (z : Abs), RInv db s z →
      (s.prog.foldl Abs.act z).ver = .new → (s.prog.foldl Abs.act z).dirty = false →
      (RF.run db true s evs).1.prog = [] → Settled db (RF.run db true s evs).1 := by
  induction evs with
  | nil =>
    intro s z h hv hd hp
    simp only [RF.run] at hp ⊢
    rw [hp] at hv hd
    exact settled_of_rinv db s z h hp hv hd
  | cons e es ih =>
    intro s z h hv hd hp
    obtain ⟨h', hf⟩ := rinv_ev db s z h e
    simp only [RF.run] at hp ⊢
    exact ih _ _ h' (by rw [hf]; exact hv) (by rw [hf]; exact hd) hp

theorem settled_ev (db : Ver → Fam → Nat → Loc) (s : RF) (h : Settled db s) (e : REv) :
    Settled db (s.ev db true e).1 ∧ ResNew db e (s.ev db true e).2 := by
  cases e with
  | step =>
    simp only [RF.ev]
    simp [h.prog, ResNew]
    exact h
  | get f a =>
    simp only [RF.ev]
    split
    · rename_i l hl
      exact ⟨h, h.cache f _ l hl⟩
    · exact ⟨h, trivial⟩
  | fill f a =>
    simp only [RF.ev]
    cases hl : s.locked with
    | true => exact ⟨by simpa using h, by simp [ResNew]⟩
    | false =>
      simp only [Bool.false_eq_true, if_false, if_true, h.ver]
      exact ⟨⟨h.prog, rfl, h.pend, cacheNew_put db s.cache h.cache f a⟩, rfl⟩
  | flush i =>
    simp only [RF.ev]
    simp [h.pend, ResNew]
    exact h

theorem settled_run (db : Ver → Fam → Nat → Loc) (evs : List REv) :
    ∀ (s : RF), Settled db s →
      Settled db (RF.run db true s evs).1 ∧ AllNew db evs (RF.run db true s evs).2 := by
  induction evs with
  | nil => intro s h; exact ⟨h, trivial⟩
  | cons e es ih =>
    intro s h
    obtain ⟨h1, h2⟩ := settled_ev db s h e
    obtain ⟨h3, h4⟩ := ih _ h1
    simp only [RF.run]
    exact ⟨h3, h2, h4⟩

theorem rinv_init (db : Ver → Fam → Nat → Loc) (prog : List RAct) (cache : LocCache) :
    RInv db (RF.init prog cache) Abs.init :=
  ⟨rfl, rfl, rfl, by intro h; simp [Abs.init] at h, by intro h; simp [Abs.init] at h⟩

end Agd.ECS.Refresh
