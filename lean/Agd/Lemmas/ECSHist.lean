import Agd.Model.ECSHist
import Agd.Lemmas.ECS
/-! Helper lemmas for the hashed / timed / refreshable ECS cache model (C05). -/
set_option linter.unusedSimpArgs false
namespace Agd.ECS

theorem hget_some (m : Nat → Option HItem) (k now host : Nat) (it : HItem)
    (h : hget m k now host = some it) : m k = some it ∧ now ≤ it.expAt ∧ it.host = host := by
  unfold hget at h
  split at h
  · rename_i it' hm
    split at h
    · rename_i hc
      simp only [Option.some.injEq] at h
      subst h
      exact ⟨hm, hc.1, hc.2⟩
    · simp at h
  · simp at h

/-- The item a call stores. -/
def itemOf (c : Call) : HItem := ⟨c.u.token, rmHop c.u.extra, c.r.host, c.now, c.now + c.life⟩

/-- `it` is what call `x` stored: its answer (filtered), its host name, its clock, its lifetime. -/
def StoredBy (x : Call) (it : HItem) : Prop := it = itemOf x ∧ x.u.cacheable = true

/-- Every slot holds the item of a completed call, under that call's own hashed key (computed with
the subnet the call was mapped to in *its* GeoIP environment). -/
def InvH (H : HashFn) (hist : List Call) (s : HSt) : Prop :=
  (∀ k it, s.noecs k = some it → ∃ x ∈ hist, StoredBy x it ∧
      k = hkN H x.r (zeroPfx (ecsFamOf x.r)) ∧ dependent x.env x.r x.u = false) ∧
  (∀ k it, s.ecs k = some it → ∃ x ∈ hist, StoredBy x it ∧
      (∃ sub, mapped x.env x.r = some sub ∧ sub.fam = ecsFamOf x.r ∧ k = hkE H x.r sub) ∧
      dependent x.env x.r x.u = true)

theorem invH_empty (H : HashFn) (hist : List Call) : InvH H hist HSt.empty := by
  constructor <;> intro k it h <;> simp [HSt.empty] at h

theorem invH_mono (H : HashFn) (h1 h2 : List Call) (s : HSt) (hsub : ∀ x ∈ h1, x ∈ h2)
    (hi : InvH H h1 s) : InvH H h2 s := by
  constructor
  · intro k it h
    obtain ⟨x, hx, rest⟩ := hi.1 k it h
    exact ⟨x, hsub x hx, rest⟩
  · intro k it h
    obtain ⟨x, hx, rest⟩ := hi.2 k it h
    exact ⟨x, hsub x hx, rest⟩

theorem invH_dropN (H : HashFn) (hist : List Call) (s : HSt) (k : Nat) (hi : InvH H hist s) :
    InvH H hist { s with noecs := putH s.noecs k none } := by
  constructor
  · intro k' it h
    simp only [putH] at h
    split at h
    · simp at h
    · exact hi.1 k' it h
  · exact hi.2

theorem invH_dropE (H : HashFn) (hist : List Call) (s : HSt) (k : Nat) (hi : InvH H hist s) :
    InvH H hist { s with ecs := putH s.ecs k none } := by
  constructor
  · exact hi.1
  · intro k' it h
    simp only [putH] at h
    split at h
    · simp at h
    · exact hi.2 k' it h

/-- The state after a completion is the old one, or the old one with the call's own item in the slot
of its own key (whatever was there before is overwritten — also another host's entry, if the hash
collides). -/
theorem finishH_state (H : HashFn) (s : HSt) (c : Call) :
    (finishH H s c).1 = s ∨
    (∃ sub, mapped c.env c.r = some sub ∧ sub.fam = ecsFamOf c.r ∧ dependent c.env c.r c.u = true ∧
      c.u.cacheable = true ∧
      (finishH H s c).1 = { s with ecs := putH s.ecs (hkE H c.r sub) (some (itemOf c)) }) ∨
    (dependent c.env c.r c.u = false ∧ c.u.cacheable = true ∧
      (finishH H s c).1 =
        { s with noecs := putH s.noecs (hkN H c.r (zeroPfx (ecsFamOf c.r))) (some (itemOf c)) }) := by
  unfold finishH
  split
  · exact Or.inl rfl
  · split
    · exact Or.inl rfl
    · rename_i sub hsub
      unfold serveMissH
      split
      · exact Or.inl rfl
      · rename_i hfam
        split
        · exact Or.inl rfl
        · split
          · exact Or.inl rfl
          · by_cases hc : c.u.cacheable
            · by_cases hd : dependent c.env c.r c.u = true
              · right; left
                exact ⟨sub, hsub, by simpa using hfam, hd, hc, by simp [hc, hd, itemOf]⟩
              · right; right
                have hd' : dependent c.env c.r c.u = false := by simpa using hd
                exact ⟨hd', hc, by simp [hc, hd', itemOf]⟩
            · left; simp [hc]

theorem invH_finish (H : HashFn) (hist : List Call) (s : HSt) (c : Call) (hi : InvH H hist s) :
    InvH H (c :: hist) (finishH H s c).1 := by
  have hi' : InvH H (c :: hist) s := invH_mono H hist _ s (fun x hx => List.mem_cons_of_mem _ hx) hi
  rcases finishH_state H s c with h | ⟨sub, hm, hf, hd, hc, h⟩ | ⟨hd, hc, h⟩
  · rw [h]; exact hi'
  · rw [h]
    constructor
    · exact hi'.1
    · intro k it hk
      simp only [putH] at hk
      split at hk
      · rename_i hkk
        simp only [Option.some.injEq] at hk
        subst hk
        exact ⟨c, List.mem_cons_self, ⟨rfl, hc⟩, ⟨sub, hm, hf, hkk⟩, hd⟩
      · exact hi'.2 k it hk
  · rw [h]
    constructor
    · intro k it hk
      simp only [putH] at hk
      split at hk
      · rename_i hkk
        simp only [Option.some.injEq] at hk
        subst hk
        exact ⟨c, List.mem_cons_self, ⟨rfl, hc⟩, hkk, hd⟩
      · exact hi'.1 k it hk
    · exact hi'.2

theorem invH_run (H : HashFn) : ∀ (evs : List HEv) (hist : List Call) (s : HSt), InvH H hist s →
    InvH H (callsOf evs ++ hist) (runH H s evs)
  | [], hist, s, hi => by simpa [callsOf, runH] using hi
  | .fin c :: es, hist, s, hi => by
    have := invH_run H es (c :: hist) _ (invH_finish H hist s c hi)
    simp only [runH, stepH, callsOf]
    exact invH_mono H _ _ _ (fun x hx => by
      simp only [List.mem_append, List.mem_cons] at hx ⊢
      rcases hx with h | h | h
      · exact Or.inl (Or.inr h)
      · exact Or.inl (Or.inl h)
      · exact Or.inr h) this
  | .dropN k :: es, hist, s, hi => by
    simpa [runH, stepH, callsOf] using invH_run H es hist _ (invH_dropN H hist s k hi)
  | .dropE k :: es, hist, s, hi => by
    simpa [runH, stepH, callsOf] using invH_run H es hist _ (invH_dropE H hist s k hi)

/-- **Every state reached by any execution — any hash function, any clock, any sequence of GeoIP
environments — satisfies the invariant.** -/
theorem invH_reachable (H : HashFn) (evs : List HEv) : InvH H (callsOf evs) (runH H HSt.empty evs) := by
  simpa using invH_run H evs [] HSt.empty (invH_empty H [])

/-- What a completing call sends and answers does not depend on the caches: it is what the
structural model's `finish` computes in the call's own environment. -/
theorem finishH_out (H : HashFn) (s : HSt) (c : Call) (s0 : St) :
    (finishH H s c).2 = (finish c.env s0 c.r c.u).2 := by
  unfold finishH finish
  by_cases hb : ecsFromMsg c.r.extra = .bad
  · simp [hb]
  · simp only [hb, ↓reduceIte]
    cases hm : mapped c.env c.r with
    | none => rfl
    | some sub =>
      simp only
      unfold serveMissH serveMiss
      by_cases hf : sub.fam = ecsFamOf c.r <;> by_cases h1 : c.u.fails = true <;>
        by_cases h2 : ecsFromMsg c.u.extra = .bad <;> simp [hf, h1, h2]

/-- A whole call is a hit (state unchanged) or a completion at the same moment. -/
theorem serveH_eq_finishH (H : HashFn) (s : HSt) (c : Call) :
    (serveH H s c).1 = s ∨ serveH H s c = finishH H s c := by
  unfold serveH finishH
  split
  · exact Or.inl rfl
  · cases hm : mapped c.env c.r with
    | none => left; rfl
    | some sub =>
      simp only
      cases hn : hget s.noecs (hkN H c.r sub) c.now c.r.host with
      | some it => left; rfl
      | none =>
        cases he : (if declined c.r then none else hget s.ecs (hkE H c.r sub) c.now c.r.host) with
        | some it => left; simp
        | none => right; simp

theorem serveMissH_src' (H : HashFn) (s : HSt) (c : Call) (sub : Pfx) :
    (serveMissH H s c sub).2.src ≠ .ecsCache ∧ (serveMissH H s c sub).2.src ≠ .noecsCache := by
  unfold serveMissH
  by_cases hf : sub.fam = ecsFamOf c.r <;> by_cases h1 : c.u.fails = true <;>
    by_cases h2 : ecsFromMsg c.u.extra = .bad <;> simp [hf, h1, h2, errOut]

/-- A hit in the cache of subnet-dependent answers, spelled out. -/
theorem serveH_ecs_hit (H : HashFn) (s : HSt) (c : Call) (hsrc : (serveH H s c).2.src = .ecsCache) :
    ∃ sub it, mapped c.env c.r = some sub ∧ declined c.r = false ∧
      hget s.ecs (hkE H c.r sub) c.now c.r.host = some it ∧
      (serveH H s c).2 = ⟨.ok, none, some it.tok, respExtra c.r it.extra, .ecsCache⟩ := by
  unfold serveH at hsrc ⊢
  by_cases hb : ecsFromMsg c.r.extra = .bad
  · simp [hb] at hsrc
  · simp only [hb, ↓reduceIte] at hsrc ⊢
    cases hm : mapped c.env c.r with
    | none => simp [hm, errOut] at hsrc
    | some sub =>
      simp only [hm] at hsrc ⊢
      cases hn : hget s.noecs (hkN H c.r sub) c.now c.r.host with
      | some it => simp [hn] at hsrc
      | none =>
        simp only [hn] at hsrc ⊢
        cases hd : declined c.r with
        | true =>
          simp only [hd, ↓reduceIte] at hsrc
          exact absurd hsrc (serveMissH_src' H s c sub).1
        | false =>
          simp only [hd, Bool.false_eq_true, ↓reduceIte] at hsrc ⊢
          cases he : hget s.ecs (hkE H c.r sub) c.now c.r.host with
          | some it => exact ⟨sub, it, rfl, trivial, he, rfl⟩
          | none =>
            simp only [he] at hsrc
            exact absurd hsrc (serveMissH_src' H s c sub).1

/-- A hit in the other cache, spelled out. -/
theorem serveH_noecs_hit (H : HashFn) (s : HSt) (c : Call) (hsrc : (serveH H s c).2.src = .noecsCache) :
    ∃ sub it, mapped c.env c.r = some sub ∧
      hget s.noecs (hkN H c.r sub) c.now c.r.host = some it ∧
      (serveH H s c).2 = ⟨.ok, none, some it.tok, respExtra c.r it.extra, .noecsCache⟩ := by
  unfold serveH at hsrc ⊢
  by_cases hb : ecsFromMsg c.r.extra = .bad
  · simp [hb] at hsrc
  · simp only [hb, ↓reduceIte] at hsrc ⊢
    cases hm : mapped c.env c.r with
    | none => simp [hm, errOut] at hsrc
    | some sub =>
      simp only [hm] at hsrc ⊢
      cases hn : hget s.noecs (hkN H c.r sub) c.now c.r.host with
      | some it => exact ⟨sub, it, rfl, hn, rfl⟩
      | none =>
        simp only [hn] at hsrc ⊢
        cases he : (if declined c.r then none else hget s.ecs (hkE H c.r sub) c.now c.r.host) with
        | some it => simp [he] at hsrc
        | none =>
          simp only [he] at hsrc
          exact absurd hsrc (serveMissH_src' H s c sub).2

/-- If a whole call consults the upstream, it does so exactly as its completion would. -/
theorem serveH_up (H : HashFn) (s : HSt) (c : Call) (x : List OptRR) (h : (serveH H s c).2.up = some x) :
    (finishH H s c).2.up = some x := by
  rcases serveH_eq_finishH H s c with _ | h2
  · unfold serveH at h
    unfold finishH
    by_cases hb : ecsFromMsg c.r.extra = .bad
    · simp [hb] at h
    · simp only [hb, ↓reduceIte] at h ⊢
      cases hm : mapped c.env c.r with
      | none => simp [hm, errOut] at h
      | some sub =>
        simp only [hm] at h ⊢
        cases hn : hget s.noecs (hkN H c.r sub) c.now c.r.host with
        | some it => simp [hn] at h
        | none =>
          simp only [hn] at h
          cases he : (if declined c.r then none else hget s.ecs (hkE H c.r sub) c.now c.r.host) with
          | some it => simp [he] at h
          | none => simpa [he] using h
  · rw [← h2]; exact h

theorem mapped_wf (env : Env) (r : Req) (sub : Pfx) (henv : ∀ l f p, env.subnet l f = some p → p.wf)
    (h : mapped env r = some sub) : sub.wf := by
  unfold mapped at h
  split at h
  · simp only [Option.some.injEq] at h
    subst h
    simp [Pfx.wf, zeroPfx, Nat.two_pow_pos]
  · exact henv _ _ _ h

end Agd.ECS
