import Agd.Model.ConfigShape
/-!
Helper lemmas for the shape model (`Model/ConfigShape.lean`): the sorted duplicate-free set of
session-ticket files, the ticket collection of the tree as found and of the repaired tree, the
validation of a list of groups.
-/
namespace Agd.Config.Shape

/-- Strictly increasing: sorted and free of duplicates. -/
abbrev Sorted (l : List Nat) : Prop := l.Pairwise (· < ·)

theorem mem_insert (k x : Nat) (l : List Nat) : x ∈ insert k l ↔ x = k ∨ x ∈ l := by
  induction l with
  | nil => simp [insert]
  | cons y ys ih =>
    unfold insert
    split
    · simp
    · split
      · rename_i h; subst h; simp
      · simp [ih]; constructor
        · rintro (h | h | h) <;> simp [h]
        · rintro (h | h | h) <;> simp [h]

theorem sorted_insert (k : Nat) (l : List Nat) (h : Sorted l) : Sorted (insert k l) := by
  induction l with
  | nil => simp [insert]
  | cons y ys ih =>
    have hy := List.pairwise_cons.mp h
    unfold insert
    split
    · rename_i hk
      refine List.pairwise_cons.mpr ⟨?_, h⟩
      intro a ha
      rcases List.mem_cons.mp ha with rfl | ha
      · exact hk
      · exact Nat.lt_trans hk (hy.1 a ha)
    · split
      · exact h
      · rename_i h1 h2
        refine List.pairwise_cons.mpr ⟨?_, ih hy.2⟩
        intro a ha
        rcases (mem_insert k a ys).mp ha with rfl | ha
        · omega
        · exact hy.1 a ha

theorem mem_insertAll (ks acc : List Nat) (x : Nat) : x ∈ insertAll ks acc ↔ x ∈ ks ∨ x ∈ acc := by
  induction ks generalizing acc with
  | nil => simp [insertAll]
  | cons k ks ih =>
    have := ih (insert k acc)
    simp only [insertAll, List.foldl_cons] at this ⊢
    rw [this, mem_insert]
    simp only [List.mem_cons]
    constructor
    · rintro (h | h | h) <;> simp [h]
    · rintro ((h | h) | h) <;> simp [h]

theorem sorted_insertAll (ks acc : List Nat) (h : Sorted acc) : Sorted (insertAll ks acc) := by
  induction ks generalizing acc with
  | nil => simpa [insertAll] using h
  | cons k ks ih =>
    have := ih (insert k acc) (sorted_insert k acc h)
    simpa [insertAll] using this

/-- The repaired collection is total; its result is characterised by membership and order. -/
theorem collectFrom_repaired (gs : List Group) (acc : List Nat) (h : Sorted acc) :
    ∃ r, collectFrom false gs acc = some r ∧ Sorted r ∧
      ∀ x, x ∈ r ↔ x ∈ acc ∨ ∃ g ∈ gs, ∃ t, g.tls = some t ∧ x ∈ t.keys := by
  induction gs generalizing acc with
  | nil => exact ⟨acc, rfl, h, by simp⟩
  | cons g gs ih =>
    unfold collectFrom
    cases hg : g.tls with
    | none =>
      obtain ⟨r, hr, hs, hm⟩ := ih acc h
      refine ⟨r, by simpa using hr, hs, ?_⟩
      intro x; rw [hm x]
      constructor
      · rintro (hx | ⟨g', hg', t, ht, hx⟩)
        · exact .inl hx
        · exact .inr ⟨g', List.mem_cons_of_mem _ hg', t, ht, hx⟩
      · rintro (hx | ⟨g', hg', t, ht, hx⟩)
        · exact .inl hx
        · rcases List.mem_cons.mp hg' with rfl | hg'
          · rw [hg] at ht; cases ht
          · exact .inr ⟨g', hg', t, ht, hx⟩
    | some t =>
      obtain ⟨r, hr, hs, hm⟩ := ih (insertAll t.keys acc) (sorted_insertAll _ _ h)
      refine ⟨r, by simpa using hr, hs, ?_⟩
      intro x; rw [hm x, mem_insertAll]
      constructor
      · rintro ((hx | hx) | ⟨g', hg', t', ht, hx⟩)
        · exact .inr ⟨g, List.mem_cons_self .., t, hg, hx⟩
        · exact .inl hx
        · exact .inr ⟨g', List.mem_cons_of_mem _ hg', t', ht, hx⟩
      · rintro (hx | ⟨g', hg', t', ht, hx⟩)
        · exact .inl (.inr hx)
        · rcases List.mem_cons.mp hg' with rfl | hg'
          · rw [hg] at ht; cases ht; exact .inl (.inl hx)
          · exact .inr ⟨g', hg', t', ht, hx⟩

/-- The collection of the tree as found panics exactly when some group has no `tls` section. -/
theorem collectFrom_legacy_none (gs : List Group) (acc : List Nat) :
    collectFrom true gs acc = none ↔ ∃ g ∈ gs, g.tls = none := by
  induction gs generalizing acc with
  | nil => simp [collectFrom]
  | cons g gs ih =>
    unfold collectFrom
    cases hg : g.tls with
    | none => simp [hg]
    | some t =>
      simp only [ih, List.mem_cons]
      constructor
      · rintro ⟨g', hg', h⟩; exact ⟨g', .inr hg', h⟩
      · rintro ⟨g', rfl | hg', h⟩
        · rw [hg] at h; cases h
        · exact ⟨g', hg', h⟩

/-- Where every group has a section both versions agree. -/
theorem collectFrom_same (gs : List Group) (acc : List Nat) (h : ∀ g ∈ gs, g.tls ≠ none) :
    collectFrom true gs acc = collectFrom false gs acc := by
  induction gs generalizing acc with
  | nil => rfl
  | cons g gs ih =>
    unfold collectFrom
    cases hg : g.tls with
    | none => exact absurd hg (h g (List.mem_cons_self ..))
    | some t => exact ih _ fun g' hg' => h g' (List.mem_cons_of_mem _ hg')

theorem valFrom_none (i : Nat) (gs : List Group) : valFrom i gs = none ↔ ∀ g ∈ gs, valGroup g = none := by
  induction gs generalizing i with
  | nil => simp [valFrom]
  | cons g gs ih =>
    unfold valFrom
    cases hg : valGroup g with
    | none => simp [ih, hg]
    | some e => simp [hg]

/-- A reported error carries the index of a group that really fails its own validation with that
error, and every earlier group passes. -/
theorem valFrom_some (i : Nat) (gs : List Group) (j : Nat) (e : Part × Kind) (h : valFrom i gs = some (j, e)) :
    i ≤ j ∧ ∃ g, gs[j - i]? = some g ∧ valGroup g = some e := by
  induction gs generalizing i with
  | nil => simp [valFrom] at h
  | cons g gs ih =>
    unfold valFrom at h
    cases hg : valGroup g with
    | some e' =>
      simp [hg] at h
      obtain ⟨rfl, rfl⟩ := h
      exact ⟨Nat.le_refl _, g, by simp, hg⟩
    | none =>
      simp [hg] at h
      obtain ⟨hle, g', hg', he⟩ := ih (i + 1) h
      refine ⟨by omega, g', ?_, he⟩
      have : j - i = (j - (i + 1)) + 1 := by omega
      rw [this]; simpa using hg'

end Agd.Config.Shape
