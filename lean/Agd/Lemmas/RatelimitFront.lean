import Agd.Lemmas.RatelimitHist
import Agd.Model.RatelimitFront
/-! Lemmas for `Model/RatelimitFront.lean`: the repaired `Wrap` refines the specification over whole
histories (one induction over `mw_step_sim`). -/
namespace Agd.Ratelimit

theorem front_run_sim (c : Cfg) (h4 : 0 ≤ c.v4ivl) (h6 : 0 ≤ c.v6ivl) :
    ∀ (fs : List FReq) (h : HSt) (hs : HSpec) (T : Int), HSim c h hs T → FChain T fs →
      frontRun c h fs = frontSpecRun c hs fs := by
  intro fs
  induction fs with
  | nil => intro _ _ _ _ _; rfl
  | cons f rest ih =>
    intro h hs T H hch
    simp only [frontRun, frontSpecRun]
    cases hr : f.front.reaches with
    | false =>
      simp only [FChain, hr, Bool.false_eq_true, if_false] at hch
      simp only [frontStep, frontSpecStep, hr, Bool.false_eq_true, if_false]
      rw [ih h hs T H hch]
    | true =>
      simp only [FChain, hr, if_true] at hch
      obtain ⟨hpos, hT, htick, hrest⟩ := hch
      obtain ⟨hv, H'⟩ := mw_step_sim c h4 h6 h hs f.inner T H hpos hT htick
      simp only [frontStep, frontSpecStep, hr, if_true]
      rw [hv, ih _ _ (mwEnd f.inner) H' hrest]

/-! ## A concrete history (non-vacuity) -/

/-- One query per 1000 ns per /24, estimate 100 bytes, no backoff to speak of. -/
def exCfgFront : Cfg :=
  { count := 1000, period := 0, duration := 0, est := 100, v4count := 1, v4ivl := 1000, v4len := 24,
    v6count := 1, v6ivl := 1000, v6len := 48, refuseAny := false, allow := [] }

def exFReq (f : Front) (t : Int) (a : Addr) : FReq :=
  { front := f, flen := 40,
    req := { now := t, tick := 0, limited := true, addr := a, qtype := 1, resp := some 50, prof := none } }

/-- Three malformed-ECS queries of one client, two malformed-device-id queries of another, a spoofed
one, and an ordinary query of the first client, all within one window. -/
def exFront : List FReq :=
  [exFReq .badECS 1 exA, exFReq .badECS 2 exA, exFReq .badECS 3 exA, exFReq .devErr 4 exD,
   exFReq .devErr 5 exD, exFReq .spoofed 6 exA, exFReq .ok 7 exA, exFReq .ok 8 exC]

theorem exFront_chain : FChain 0 exFront := by
  simp [FChain, exFront, exFReq, FReq.inner, Front.reaches]


end Agd.Ratelimit
