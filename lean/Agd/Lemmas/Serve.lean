import Agd.Model.Serve
/-! Helper lemmas for C01 (core Lean only). -/
namespace Agd.Serve

/-- A response "matches" a request: same id, and its question section is the
request's first question (the whole question section for an accepted query). -/
def Matches (m : Msg) (r : Resp) : Prop :=
  r.id = m.id ∧ r.questions = m.questions.take 1

/-- The handler's own response (if it writes one) matches the request.  The real
pipeline builds every response with `SetReply`/`SetRcode`. -/
def HandlerMatches (m : Msg) : Outcome → Prop
  | .wrote r => Matches m r
  | .wroteFailed r _ => Matches m r
  | _ => True

/-- Handler contract of `dnsserver.Handler`: an error is returned after a write
only when that write failed. -/
def Contract (o : Outcome) (wok : Bool) : Prop :=
  ∀ r ne, o = .wroteFailed r ne → wok = false

/-! Concrete instances used by the non-vacuity examples. -/
def sampleQuery : Msg := ⟨7, false, 0, true, false, [⟨"ExAmPlE.org.", 1, 1⟩], 0, 0, true, false⟩
def sampleStatus : Msg := ⟨7, false, 2, true, false, [], 3, 0, false, false⟩
def sampleResponse : Msg := ⟨9, true, 0, false, false, [⟨"x.", 1, 1⟩], 0, 0, false, false⟩
def sampleHdrOnly : Msg := ⟨0xabcd, false, 0, true, false, [], 0, 0, false, false⟩
def sampleJSON : JSONReq := ⟨"example.org.", false, .num 28, .absent, .val true, .absent, .absent⟩

theorem setRcode_matches (m : Msg) (c : Nat) : Matches m (setRcode m c) := by
  simp [Matches, setRcode]

theorem servFail_matches (m : Msg) (ne : Bool) : Matches m (servFail m ne) := by
  simp [Matches, servFail, setRcode]

theorem lastOr_cons_cons (d a b : Resp) (rs : List Resp) :
    lastOr d (a :: b :: rs) = lastOr d (b :: rs) := by
  simp [lastOr]

theorem lastOr_mem (d : Resp) : ∀ (ws : List Resp), ws ≠ [] → lastOr d ws ∈ ws
  | [], h => absurd rfl h
  | [r], _ => by simp [lastOr]
  | a :: b :: rs, _ => by
    rw [lastOr_cons_cons]
    exact List.mem_cons_of_mem _ (lastOr_mem d (b :: rs) (by simp))

theorem lastOr_single (d r : Resp) : lastOr d [r] = r := by simp [lastOr]

theorem serveCore_matches (m : Msg) (o : Outcome) (h : HandlerMatches m o) :
    ∀ r ∈ serveCore m o, Matches m r := by
  intro r hr
  unfold serveCore at hr
  split at hr
  · simp at hr
  · simp at hr; subst hr; exact setRcode_matches m _
  · simp at hr; subst hr; exact setRcode_matches m _
  · cases o with
    | silent => simp at hr
    | wrote r' => simp at hr; subst hr; exact h
    | failed ne => simp at hr; subst hr; exact servFail_matches m ne
    | wroteFailed r' ne =>
      simp at hr
      rcases hr with hr | hr
      · subst hr; exact h
      · subst hr; exact servFail_matches m ne

/-- Everything a transport delivers was written by `serveCore`, or is the
SERVFAIL the transport synthesises when nothing was written. -/
theorem deliver_sub (t : Transport) (m : Msg) (ws : List Resp) (wok : Bool) :
    ∀ r ∈ (deliver t m ws wok).msgs, r ∈ ws ∨ (ws = [] ∧ r = setRcode m rcServFail) := by
  intro r hr
  have hl : ∀ r, r ∈ [lastOr (setRcode m rcServFail) ws] →
      r ∈ ws ∨ (ws = [] ∧ r = setRcode m rcServFail) := by
    intro r hr
    simp at hr
    by_cases hw : ws = []
    · subst hw; right; simp [hr, lastOr]
    · left; rw [hr]; exact lastOr_mem _ ws hw
  cases t <;> simp only [deliver] at hr
  case udp => cases wok <;> simp at hr; exact Or.inl hr
  case tcp => cases wok <;> simp at hr; exact Or.inl hr
  case dot => cases wok <;> simp at hr; exact Or.inl hr
  case dohPost => split at hr; · simp at hr
                  · exact hl r hr
  case dohGet => split at hr; · simp at hr
                 · exact hl r hr
  case dohJSON => split at hr; · simp at hr
                  · exact hl r hr
  case doq => exact hl r hr
  case dnscryptUDP => exact hl r hr
  case dnscryptTCP => exact hl r hr

theorem serveCore_length_le (m : Msg) (o : Outcome) : (serveCore m o).length ≤ 2 := by
  unfold serveCore
  split <;> try simp
  cases o <;> simp

/-- Under the handler contract, at most one of the attempted writes can succeed. -/
theorem serveCore_length_contract (m : Msg) (o : Outcome) (h : Contract o true) :
    (serveCore m o).length ≤ 1 := by
  unfold serveCore
  split <;> try simp
  cases o with
  | wroteFailed r ne => exact absurd (h r ne rfl) (by simp)
  | _ => simp

theorem deliver_length_nonwriter (t : Transport) (m : Msg) (ws : List Resp) (wok : Bool)
    (ht : t.nonWriter = true) : (deliver t m ws wok).msgs.length ≤ 1 := by
  cases t <;> simp [Transport.nonWriter] at ht <;> simp only [deliver] <;> (try split) <;> simp

/-! ## An independent, table-shaped specification

Written from the property statement, not from `serveCore`/`deliver`: classify
the message, then say per class what the client must get. -/

inductive Class | response | opcode | counts | ok
deriving DecidableEq, Repr

def classify (m : Msg) : Class :=
  if m.qr then .response
  else if ¬ (m.opcode = 0 ∨ m.opcode = 4) then .opcode
  else if m.questions.length = 1 ∧ m.nAn ≤ 1 ∧ m.nNs ≤ 1 then .ok
  else .counts

/-- An error response as the documentation describes it: the request's id,
opcode and (first) question, RD/CD echoed for QUERY, the rcode, no records. -/
def errResp (m : Msg) (rcode : Nat) (ede : Option Nat) : Resp :=
  { id := m.id, opcode := m.opcode, rcode := rcode,
    rd := if m.opcode = 0 then m.rd else false, cd := if m.opcode = 0 then m.cd else false,
    questions := match m.questions with | [] => [] | q :: _ => [q],
    answers := [], ede := ede }

/-- DoQ and DNSCrypt never leave a request unanswered. -/
def Transport.synthesises : Transport → Bool
  | .doq | .dnscryptUDP | .dnscryptTCP => true
  | _ => false

def specMsgs (t : Transport) (m : Msg) (o : Outcome) (wok : Bool) : List Resp :=
  if t = .doq ∧ m.edns = true ∧ m.keepalive = true then [] else
  let one (r : Resp) : List Resp := if t.nonWriter || wok then [r] else []
  let nothing : List Resp := if t.synthesises then [errResp m 2 none] else []
  let sf (ne : Bool) : Resp := errResp m 2 (if ne && m.edns then some 23 else none)
  match classify m with
  | .response => nothing
  | .opcode => one (errResp m 4 none)
  | .counts => one (errResp m 1 none)
  | .ok =>
    match o with
    | .silent => nothing
    | .wrote r => one r
    | .failed ne => one (sf ne)
    | .wroteFailed _ ne => if t.nonWriter then [sf ne] else []

theorem errResp_eq_setRcode (m : Msg) (c : Nat) : errResp m c none = setRcode m c := by
  unfold errResp setRcode
  cases hq : m.questions <;> by_cases h0 : m.opcode = 0 <;> simp [h0]

theorem errResp_eq_servFail (m : Msg) (ne : Bool) :
    errResp m 2 (if ne && m.edns then some 23 else none) = servFail m ne := by
  unfold errResp servFail setRcode rcServFail edeNetworkError
  cases hq : m.questions <;> by_cases h0 : m.opcode = 0 <;> simp [h0]

theorem classify_accept (m : Msg) :
    (classify m = .response ↔ acceptMsg m = .ignore) ∧ (classify m = .opcode ↔ acceptMsg m = .notimp) ∧
    (classify m = .counts ↔ acceptMsg m = .formerr) ∧ (classify m = .ok ↔ acceptMsg m = .accept) := by
  unfold classify acceptMsg
  cases hq : m.qr <;> simp
  by_cases h0 : m.opcode = 0 <;> by_cases h4 : m.opcode = 4 <;>
    by_cases hl : m.questions.length = 1 <;> by_cases ha : m.nAn > 1 <;>
    by_cases hn : m.nNs > 1 <;> simp [h0, h4, hl, ha, hn]
  all_goals (split <;> simp_all)

theorem validQUIC_false_iff (m : Msg) : validQUICMsg m = false ↔ (m.edns = true ∧ m.keepalive = true) := by
  unfold validQUICMsg; cases m.edns <;> cases m.keepalive <;> simp

theorem servFail_eq_errResp' (m : Msg) (ne : Bool) :
    servFail m ne = errResp m 2 (if ne = true ∧ m.edns = true then some 23 else none) := by
  rw [← errResp_eq_servFail m ne]; cases ne <;> cases m.edns <;> rfl


/-! ## Wire contract -/

theorem wireAgrees_hdr (b : List Nat) (m : Msg) (h : WireAgrees b m) : HdrAgrees b m := by
  unfold WireAgrees wireAgreesB at h
  cases hp : parseHdr b with
  | none => simp [hp] at h
  | some hd =>
    simp at h
    exact ⟨hd, hp, by simp_all⟩

theorem parseHdr_none_of_short (b : List Nat) (h : b.length < 12) : parseHdr b = none := by
  match b, h with
  | [], _ => rfl
  | [_], _ => rfl
  | [_, _], _ => rfl
  | [_, _, _], _ => rfl
  | [_, _, _, _], _ => rfl
  | [_, _, _, _, _], _ => rfl
  | [_, _, _, _, _, _], _ => rfl
  | [_, _, _, _, _, _, _], _ => rfl
  | [_, _, _, _, _, _, _, _], _ => rfl
  | [_, _, _, _, _, _, _, _, _], _ => rfl
  | [_, _, _, _, _, _, _, _, _, _], _ => rfl
  | [_, _, _, _, _, _, _, _, _, _, _], _ => rfl
  | _ :: _ :: _ :: _ :: _ :: _ :: _ :: _ :: _ :: _ :: _ :: _ :: _, h => (simp at h; omega)

/-- A sound decoder rejects anything shorter than a header. -/
theorem unpack_none_of_short (unpack : List Nat → Option Msg) (hu : UnpackOK unpack) (b : List Nat)
    (h : b.length < 12) : unpack b = none := by
  cases hb : unpack b with
  | none => rfl
  | some m =>
    have := hu b m hb
    unfold WireAgrees wireAgreesB at this
    simp [parseHdr_none_of_short b h] at this

/-- The DoQ reader, whatever the pooled buffer held, either rejects the stream
that carries `b` or hands exactly `b` to `Unpack`. -/
theorem quicPayload_frame (pool b : List Nat) :
    quicPayload pool (frameDoQ b) = none ∨ quicPayload pool (frameDoQ b) = some b := by
  unfold quicPayload bufAfterRead frameDoQ
  simp only [List.length_append, List.length_cons, List.length_nil]
  by_cases h : 0 + 1 + 1 + b.length < 12
  · left; simp [h]
  · simp only [h, if_false]
    split
    · left; rfl
    · right
      simp only [List.cons_append, List.nil_append, List.drop_succ_cons, List.drop_zero]
      have : 0 + 1 + 1 + b.length - 2 = b.length := by omega
      rw [this, List.take_left']
      rfl

/-- `serveBytes` is `dropped` or `serveWire` on (a prefix of) the message's own bytes. -/
theorem serveBytes_cases (t : Transport) (pool b : List Nat) (unpack : List Nat → Option Msg)
    (o : Outcome) (wok : Bool) :
    serveBytes t pool b unpack o wok = dropped t ∨
    (serveBytes t pool b unpack o wok = serveWire t (unpack b) o wok ∧ (t = .udp → 12 ≤ b.length)) ∨
    (t = .udp ∧ udpBufSize < b.length ∧
      serveBytes t pool b unpack o wok = serveWire t (unpack (b.take udpBufSize)) o wok) := by
  cases t
  case udp =>
    unfold serveBytes unpackInput
    by_cases h : b.length < 12
    · left; simp [h]
    · by_cases h2 : udpBufSize < b.length
      · right; right; simp [h, h2]
      · right; left
        have : b.take udpBufSize = b := List.take_of_length_le (by omega)
        simp [h, this]; omega
  case doq =>
    unfold serveBytes unpackInput
    rcases quicPayload_frame pool b with h | h
    · left; simp [h]
    · right; left; simp [h]
  all_goals (right; left; simp [serveBytes, unpackInput])

theorem dropped_msgs (t : Transport) : (dropped t).msgs = [] := by cases t <;> rfl


/-! Concrete wire input for the non-vacuity examples. -/
def sampleWire : List Nat :=
  [0xab, 0xcd, 1, 0, 0, 1, 0, 0, 0, 0, 0, 0, 3, 119, 119, 119, 0, 0, 1, 0, 1]
def sampleWireMsg : Msg :=
  ⟨0xabcd, false, 0, true, false, [⟨hexStr [3, 119, 119, 119, 0], 1, 1⟩], 0, 0, false, false⟩
/-- A decoder that knows one message. -/
def sampleUnpack : List Nat → Option Msg := fun b => if b = sampleWire then some sampleWireMsg else none

theorem sampleUnpack_ok : UnpackOK sampleUnpack := by
  intro b m h
  unfold sampleUnpack at h
  split at h
  · rename_i hb
    simp at h
    subst hb; subst h
    show wireAgreesB sampleWire sampleWireMsg = true
    decide
  · simp at h

/-- What the client of one datagram sees, on its own. -/
def perDatagram (unpack : List Nat → Option Msg) (handler : Msg → Outcome) (wok : Bool) : UdpRead → List Sees
  | .dgram b => [serveBytes .udp [] b unpack
      (match unpack (b.take udpBufSize) with | some m => handler m | none => .silent) wok]
  | _ => []


end Agd.Serve
