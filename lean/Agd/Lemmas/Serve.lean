import Agd.Model.Serve
/-! Helper lemmas for C01 (core Lean only). -/
namespace Agd.Serve

/-- A response "matches" a request: same id, and its question section is the
request's first question (the whole question section for an accepted query). -/
def Matches (m : Msg) (r : Resp) : Prop :=
  r.id = m.id ∧ r.questions = m.questions.take 1

/-- The handler's own response (if it writes one) matches the request.  The real
pipeline builds every response with `SetReply`/`SetRcode`. -/
def HandlerMatches (m : Msg) : Outcome → Prop
  | .wrote r => Matches m r
  | .wroteFailed r _ => Matches m r
  | _ => True

/-- Handler contract of `dnsserver.Handler`: an error is returned after a write
only when that write failed. -/
def Contract (o : Outcome) (wok : Bool) : Prop :=
  ∀ r ne, o = .wroteFailed r ne → wok = false

/-! Concrete instances used by the non-vacuity examples. -/
def sampleQuery : Msg := ⟨7, false, 0, true, false, [⟨"ExAmPlE.org.", 1, 1⟩], 0, 0, true, false⟩
def sampleStatus : Msg := ⟨7, false, 2, true, false, [], 3, 0, false, false⟩
def sampleResponse : Msg := ⟨9, true, 0, false, false, [⟨"x.", 1, 1⟩], 0, 0, false, false⟩
def sampleHdrOnly : Msg := ⟨0xabcd, false, 0, true, false, [], 0, 0, false, false⟩
def sampleJSON : JSONReq := ⟨"example.org.", false, .num 28, .absent, .val true, .absent, .absent⟩

theorem setRcode_matches (m : Msg) (c : Nat) : Matches m (setRcode m c) := by
  simp [Matches, setRcode]

theorem servFail_matches (m : Msg) (ne : Bool) : Matches m (servFail m ne) := by
  simp [Matches, servFail, setRcode]

theorem lastOr_cons_cons (d a b : Resp) (rs : List Resp) :
    lastOr d (a :: b :: rs) = lastOr d (b :: rs) := by
  simp [lastOr]

theorem lastOr_mem (d : Resp) : ∀ (ws : List Resp), ws ≠ [] → lastOr d ws ∈ ws
  | [], h => absurd rfl h
  | [r], _ => by simp [lastOr]
  | a :: b :: rs, _ => by
    rw [lastOr_cons_cons]
    exact List.mem_cons_of_mem _ (lastOr_mem d (b :: rs) (by simp))

theorem lastOr_single (d r : Resp) : lastOr d [r] = r := by simp [lastOr]

theorem serveCore_matches (m : Msg) (o : Outcome) (h : HandlerMatches m o) :
    ∀ r ∈ serveCore m o, Matches m r := by
  intro r hr
  unfold serveCore at hr
  split at hr
  · simp at hr
  · simp at hr; subst hr; exact setRcode_matches m _
  · simp at hr; subst hr; exact setRcode_matches m _
  · cases o with
    | silent => simp at hr
    | wrote r' => simp at hr; subst hr; exact h
    | failed ne => simp at hr; subst hr; exact servFail_matches m ne
    | wroteFailed r' ne =>
      simp at hr
      rcases hr with hr | hr
      · subst hr; exact h
      · subst hr; exact servFail_matches m ne

/-- Everything a transport delivers was written by `serveCore`, or is the
SERVFAIL the transport synthesises when nothing was written. -/
theorem deliver_sub (t : Transport) (m : Msg) (ws : List Resp) (wok : Bool) :
    ∀ r ∈ (deliver t m ws wok).msgs, r ∈ ws ∨ (ws = [] ∧ r = setRcode m rcServFail) := by
  intro r hr
  have hl : ∀ r, r ∈ [lastOr (setRcode m rcServFail) ws] →
      r ∈ ws ∨ (ws = [] ∧ r = setRcode m rcServFail) := by
    intro r hr
    simp at hr
    by_cases hw : ws = []
    · subst hw; right; simp [hr, lastOr]
    · left; rw [hr]; exact lastOr_mem _ ws hw
  cases t <;> simp only [deliver] at hr
  case udp => cases wok <;> simp at hr; exact Or.inl hr
  case tcp => cases wok <;> simp at hr; exact Or.inl hr
  case dot => cases wok <;> simp at hr; exact Or.inl hr
  case dohPost => split at hr; · simp at hr
                  · exact hl r hr
  case dohGet => split at hr; · simp at hr
                 · exact hl r hr
  case dohJSON => split at hr; · simp at hr
                  · exact hl r hr
  case doq => exact hl r hr
  case dnscryptUDP => exact hl r hr
  case dnscryptTCP => exact hl r hr

theorem serveCore_length_le (m : Msg) (o : Outcome) : (serveCore m o).length ≤ 2 := by
  unfold serveCore
  split <;> try simp
  cases o <;> simp

/-- Under the handler contract, at most one of the attempted writes can succeed. -/
theorem serveCore_length_contract (m : Msg) (o : Outcome) (h : Contract o true) :
    (serveCore m o).length ≤ 1 := by
  unfold serveCore
  split <;> try simp
  cases o with
  | wroteFailed r ne => exact absurd (h r ne rfl) (by simp)
  | _ => simp

theorem deliver_length_nonwriter (t : Transport) (m : Msg) (ws : List Resp) (wok : Bool)
    (ht : t.nonWriter = true) : (deliver t m ws wok).msgs.length ≤ 1 := by
  cases t <;> simp [Transport.nonWriter] at ht <;> simp only [deliver] <;> (try split) <;> simp

/-! ## An independent, table-shaped specification

Written from the property statement, not from `serveCore`/`deliver`: classify
the message, then say per class what the client must get. -/

inductive Class | response | opcode | counts | ok
deriving DecidableEq, Repr

def classify (m : Msg) : Class :=
  if m.qr then .response
  else if ¬ (m.opcode = 0 ∨ m.opcode = 4) then .opcode
  else if m.questions.length = 1 ∧ m.nAn ≤ 1 ∧ m.nNs ≤ 1 then .ok
  else .counts

/-- An error response as the documentation describes it: the request's id,
opcode and (first) question, RD/CD echoed for QUERY, the rcode, no records. -/
def errResp (m : Msg) (rcode : Nat) (ede : Option Nat) : Resp :=
  { id := m.id, opcode := m.opcode, rcode := rcode,
    rd := if m.opcode = 0 then m.rd else false, cd := if m.opcode = 0 then m.cd else false,
    questions := match m.questions with | [] => [] | q :: _ => [q],
    answers := [], ede := ede }

/-- DoQ and DNSCrypt never leave a request unanswered. -/
def Transport.synthesises : Transport → Bool
  | .doq | .dnscryptUDP | .dnscryptTCP => true
  | _ => false

def specMsgs (t : Transport) (m : Msg) (o : Outcome) (wok : Bool) : List Resp :=
  if t = .doq ∧ m.edns = true ∧ m.keepalive = true then [] else
  let one (r : Resp) : List Resp := if t.nonWriter || wok then [r] else []
  let nothing : List Resp := if t.synthesises then [errResp m 2 none] else []
  let sf (ne : Bool) : Resp := errResp m 2 (if ne && m.edns then some 23 else none)
  match classify m with
  | .response => nothing
  | .opcode => one (errResp m 4 none)
  | .counts => one (errResp m 1 none)
  | .ok =>
    match o with
    | .silent => nothing
    | .wrote r => one r
    | .failed ne => one (sf ne)
    | .wroteFailed _ ne => if t.nonWriter then [sf ne] else []

theorem errResp_eq_setRcode (m : Msg) (c : Nat) : errResp m c none = setRcode m c := by
  unfold errResp setRcode
  cases hq : m.questions <;> by_cases h0 : m.opcode = 0 <;> simp [h0]

theorem errResp_eq_servFail (m : Msg) (ne : Bool) :
    errResp m 2 (if ne && m.edns then some 23 else none) = servFail m ne := by
  unfold errResp servFail setRcode rcServFail edeNetworkError
  cases hq : m.questions <;> by_cases h0 : m.opcode = 0 <;> simp [h0]

theorem classify_accept (m : Msg) :
    (classify m = .response ↔ acceptMsg m = .ignore) ∧ (classify m = .opcode ↔ acceptMsg m = .notimp) ∧
    (classify m = .counts ↔ acceptMsg m = .formerr) ∧ (classify m = .ok ↔ acceptMsg m = .accept) := by
  unfold classify acceptMsg
  cases hq : m.qr <;> simp
  by_cases h0 : m.opcode = 0 <;> by_cases h4 : m.opcode = 4 <;>
    by_cases hl : m.questions.length = 1 <;> by_cases ha : m.nAn > 1 <;>
    by_cases hn : m.nNs > 1 <;> simp [h0, h4, hl, ha, hn]
  all_goals (split <;> simp_all)

theorem validQUIC_false_iff (m : Msg) : validQUICMsg m = false ↔ (m.edns = true ∧ m.keepalive = true) := by
  unfold validQUICMsg; cases m.edns <;> cases m.keepalive <;> simp

theorem servFail_eq_errResp' (m : Msg) (ne : Bool) :
    servFail m ne = errResp m 2 (if ne = true ∧ m.edns = true then some 23 else none) := by
  rw [← errResp_eq_servFail m ne]; cases ne <;> cases m.edns <;> rfl


/-! ## Wire contract -/

theorem wireAgrees_hdr (b : List Nat) (m : Msg) (h : WireAgrees b m) : HdrAgrees b m := by
  unfold WireAgrees wireAgreesB at h
  cases hp : parseHdr b with
  | none => simp [hp] at h
  | some hd =>
    simp at h
    exact ⟨hd, hp, by simp_all⟩

theorem parseHdr_none_of_short (b : List Nat) (h : b.length < 12) : parseHdr b = none := by
  match b, h with
  | [], _ => rfl
  | [_], _ => rfl
  | [_, _], _ => rfl
  | [_, _, _], _ => rfl
  | [_, _, _, _], _ => rfl
  | [_, _, _, _, _], _ => rfl
  | [_, _, _, _, _, _], _ => rfl
  | [_, _, _, _, _, _, _], _ => rfl
  | [_, _, _, _, _, _, _, _], _ => rfl
  | [_, _, _, _, _, _, _, _, _], _ => rfl
  | [_, _, _, _, _, _, _, _, _, _], _ => rfl
  | [_, _, _, _, _, _, _, _, _, _, _], _ => rfl
  | _ :: _ :: _ :: _ :: _ :: _ :: _ :: _ :: _ :: _ :: _ :: _ :: _, h => (simp at h; omega)

/-- A sound decoder rejects anything shorter than a header. -/
theorem unpack_none_of_short (unpack : List Nat → Option Msg) (hu : UnpackOK unpack) (b : List Nat)
    (h : b.length < 12) : unpack b = none := by
  cases hb : unpack b with
  | none => rfl
  | some m =>
    have := hu b m hb
    unfold WireAgrees wireAgreesB at this
    simp [parseHdr_none_of_short b h] at this

/-- The DoQ reader, whatever the pooled buffer held, either rejects the stream
that carries `b` or hands exactly `b` to `Unpack`. -/
theorem quicPayload_frame (pool b : List Nat) :
    quicPayload pool (frameDoQ b) = none ∨ quicPayload pool (frameDoQ b) = some b := by
  unfold quicPayload bufAfterRead frameDoQ
  simp only [List.length_append, List.length_cons, List.length_nil]
  by_cases h : 0 + 1 + 1 + b.length < 12
  · left; simp [h]
  · simp only [h, if_false]
    split
    · left; rfl
    · right
      simp only [List.cons_append, List.nil_append, List.drop_succ_cons, List.drop_zero]
      have : 0 + 1 + 1 + b.length - 2 = b.length := by omega
      rw [this, List.take_left']
      rfl

/-- The length octets of `frameDoQ` spell the length of every message a prefix can announce. -/
theorem frameDoQ_prefix (n : Nat) (h : n < 65536) : n / 256 % 256 * 256 + n % 256 = n := by omega

/-- A message of at least a header (minus the two length octets: 10) that a length
prefix can announce is handed to `Unpack` whole. -/
theorem quicPayload_frame_some (pool b : List Nat) (h10 : 10 ≤ b.length) (hlt : b.length < 65536) :
    quicPayload pool (frameDoQ b) = some b := by
  unfold quicPayload bufAfterRead frameDoQ
  simp only [List.length_append, List.length_cons, List.length_nil]
  have h : ¬ (0 + 1 + 1 + b.length < 12) := by omega
  simp only [h, if_false]
  have hp := frameDoQ_prefix b.length hlt
  have hne : ¬ (b.length / 256 % 256 * 256 + b.length % 256 ≠ 0 + 1 + 1 + b.length - 2) := by omega
  simp only [List.cons_append, List.nil_append, List.getD_cons_zero, List.getD_cons_succ, hne, if_false,
    List.drop_succ_cons, List.drop_zero]
  have : 0 + 1 + 1 + b.length - 2 = b.length := by omega
  rw [this, List.take_left']
  rfl

/-- What `readAll` has in the buffer: the delivered bytes, cut to the buffer. -/
theorem readAll_fst (cap : Nat) (reads : List QRead) (acc : List Nat) (h : acc.length ≤ cap) :
    (readAll cap reads acc).1 = (acc ++ delivered reads).take cap := by
  induction reads generalizing acc with
  | nil =>
    have : (acc ++ delivered []).take cap = acc := by
      simp only [delivered, List.append_nil]; exact List.take_of_length_le h
    rw [this]; unfold readAll; split <;> rfl
  | cons r rs ih =>
    unfold readAll
    by_cases hfull : acc.length = cap
    · simp only [hfull, if_true]
      exact (List.take_left' hfull).symm
    · simp only [hfull, if_false]
      by_cases hroom : cap - acc.length < r.data.length
      · simp only [hroom, if_true]
        unfold delivered
        have hd : ∀ tl : List Nat, (acc ++ (r.data ++ tl)).take cap = acc ++ r.data.take (cap - acc.length) := by
          intro tl
          rw [List.take_append, List.take_of_length_le h, List.take_append]
          have : cap - acc.length - r.data.length = 0 := by omega
          simp [this]
        cases r.err with
        | none => exact (hd _).symm
        | some e => simpa using (hd []).symm
      · simp only [hroom, if_false]
        unfold delivered
        have hlen : (acc ++ r.data).length ≤ cap := by simp only [List.length_append]; omega
        cases r.err with
        | none => simp only []; rw [ih (acc ++ r.data) hlen, List.append_assoc]
        | some e =>
          have : (acc ++ r.data).take cap = acc ++ r.data := List.take_of_length_le hlen
          cases e <;> simp [this]

/-- The reader's verdict depends on the delivered bytes alone: not on how they were
cut into `Read` results, nor on how the stream ended after them. -/
theorem quicRead_delivered (cap : Nat) (pool : List Nat) (reads : List QRead) :
    quicRead cap pool reads = quicPayload pool ((delivered reads).take cap) := by
  unfold quicRead
  rw [readAll_fst cap reads [] (by simp)]
  simp

/-- A stream whose message does not leave room for the two length octets is cut to
the buffer and then fails the length check. -/
theorem quicPayload_cut_none (cap : Nat) (pool b : List Nat) (h12 : 12 ≤ cap) (hbig : cap < b.length + 2)
    (hlt : b.length < 65536) : quicPayload pool ((frameDoQ b).take cap) = none := by
  obtain ⟨c, rfl⟩ : ∃ c, cap = c + 2 := ⟨cap - 2, by omega⟩
  have hp := frameDoQ_prefix b.length hlt
  unfold quicPayload bufAfterRead frameDoQ
  simp only [List.cons_append, List.nil_append, List.take_succ_cons, List.length_cons, List.length_take,
    List.getD_cons_zero, List.getD_cons_succ]
  have hmin : min c b.length = c := by omega
  rw [hmin]
  have h : ¬ (c + 1 + 1 < 12) := by omega
  simp only [h, if_false]
  have hne : ¬ (b.length / 256 % 256 * 256 + b.length % 256 = c) := by omega
  simp [hne]

/-- `unpackInput` for DoQ is the reader on any script that delivers the framed
message, for every message a length prefix can announce. -/
theorem unpackInput_doq_is_read (pool b : List Nat) (reads : List QRead) (hlt : b.length < 65536)
    (hd : delivered reads = frameDoQ b) :
    unpackInput .doq pool b = quicRead quicBufSize pool reads := by
  rw [quicRead_delivered, hd]
  unfold unpackInput
  by_cases hbig : quicBufSize < b.length + 2
  · simp only [hbig, if_true]
    exact (quicPayload_cut_none quicBufSize pool b (by unfold quicBufSize; omega) hbig hlt).symm
  · simp only [hbig, if_false]
    have : (frameDoQ b).take quicBufSize = frameDoQ b := by
      apply List.take_of_length_le
      simp only [frameDoQ, List.length_append, List.length_cons, List.length_nil]; omega
    rw [this]

/-- `serveBytes` is `dropped` or `serveWire` on (a prefix of) the message's own bytes. -/
theorem serveBytes_cases (t : Transport) (pool b : List Nat) (unpack : List Nat → Option Msg)
    (o : Outcome) (wok : Bool) :
    serveBytes t pool b unpack o wok = dropped t ∨
    (serveBytes t pool b unpack o wok = serveWire t (unpack b) o wok ∧ (t = .udp → 12 ≤ b.length)) ∨
    (t = .udp ∧ udpBufSize < b.length ∧
      serveBytes t pool b unpack o wok = serveWire t (unpack (b.take udpBufSize)) o wok) := by
  cases t
  case udp =>
    unfold serveBytes unpackInput
    by_cases h : b.length < 12
    · left; simp [h]
    · by_cases h2 : udpBufSize < b.length
      · right; right; simp [h, h2]
      · right; left
        have : b.take udpBufSize = b := List.take_of_length_le (by omega)
        simp [h, this]; omega
  case doq =>
    unfold serveBytes unpackInput
    by_cases hbig : quicBufSize < b.length + 2
    · left; simp [hbig]
    · rcases quicPayload_frame pool b with h | h
      · left; simp [hbig, h]
      · right; left; simp [hbig, h]
  all_goals (right; left; simp [serveBytes, unpackInput])

theorem dropped_msgs (t : Transport) : (dropped t).msgs = [] := by cases t <;> rfl


/-! Concrete wire input for the non-vacuity examples. -/
def sampleWire : List Nat :=
  [0xab, 0xcd, 1, 0, 0, 1, 0, 0, 0, 0, 0, 0, 3, 119, 119, 119, 0, 0, 1, 0, 1]
def sampleWireMsg : Msg :=
  ⟨0xabcd, false, 0, true, false, [⟨hexStr [3, 119, 119, 119, 0], 1, 1⟩], 0, 0, false, false⟩
/-- A decoder that knows one message. -/
def sampleUnpack : List Nat → Option Msg := fun b => if b = sampleWire then some sampleWireMsg else none

theorem sampleUnpack_ok : UnpackOK sampleUnpack := by
  intro b m h
  unfold sampleUnpack at h
  split at h
  · rename_i hb
    simp at h
    subst hb; subst h
    show wireAgreesB sampleWire sampleWireMsg = true
    decide
  · simp at h

/-- What the client of one datagram sees, on its own. -/
def perDatagram (unpack : List Nat → Option Msg) (handler : Msg → Outcome) (wok : Bool) : UdpRead → List Sees
  | .dgram b => [serveBytes .udp [] b unpack
      (match unpack (b.take udpBufSize) with | some m => handler m | none => .silent) wok]
  | _ => []



/-! ## The life cycle of a TCP/DoT connection (`cStep`): the invariant of the code as it is

`CInv` holds in every state the scheduler can reach when no frame is dropped (`NoDrop`): nothing is lost, the
connection is closed (once) exactly when the read loop has ended and no worker is left, every frame read is
either still in flight or answered, and the log is the answers followed by the close. -/

/-- The scheduler never produces a frame the server drops. -/
def NoDrop (evs : List CEv) : Prop := ∀ id, CEv.recv id true ∉ evs

structure CPre (s : CState) : Prop where
  nodrop : s.dropping = []
  nolost : s.lost = []
  done_imp : s.finalDone = true → s.reading = false ∧ s.inflight = []
  closes_eq : s.closes = if s.finalDone then 1 else 0
  account : ∀ id, s.answered.count id + s.inflight.count id = s.received.count id
  logEq : s.log = s.answered.map CObs.wrote ++ List.replicate s.closes CObs.closed

structure CInv (s : CState) : Prop extends CPre s where
  done_of : s.reading = false → s.inflight = [] → s.finalDone = true

theorem cSettle_inv (s : CState) (h : CPre s) : CInv (cSettle true s) := by
  obtain ⟨h1, h2, h3, h4, h5, h6⟩ := h
  unfold cSettle
  by_cases hr : s.reading = true
  · simp [hr]
    exact ⟨⟨h1, h2, h3, h4, h5, h6⟩, fun hf => by simp [hr] at hf⟩
  · have hr' : s.reading = false := by simpa using hr
    by_cases hf : s.finalDone = true
    · simp [hr', hf]
      exact ⟨⟨h1, h2, h3, h4, h5, h6⟩, fun _ _ => hf⟩
    · have hf' : s.finalDone = false := by simpa using hf
      by_cases hi : s.inflight = []
      · simp [hr', hf', hi, h1]
        refine ⟨⟨by simp, by simpa using h2, ?_, ?_, ?_, ?_⟩, ?_⟩
        · intro _; exact ⟨rfl, rfl⟩
        · simp [h4, hf']
        · intro i; simpa [hi] using h5 i
        · simp [h6, h4, hf']
        · intro _ _; rfl
      · have : s.inflight.isEmpty = false := by
          cases hx : s.inflight with
          | nil => exact absurd hx hi
          | cons a l => rfl
        simp [hr', hf', this]
        exact ⟨⟨h1, h2, h3, h4, h5, h6⟩, fun _ hi' => absurd hi' hi⟩

theorem cStep_inv (s : CState) (ev : CEv) (hev : ∀ id, ev ≠ .recv id true) (h : CInv s) :
    CInv (cStep true s ev) := by
  obtain ⟨⟨h1, h2, h3, h4, h5, h6⟩, h7⟩ := h
  cases ev with
  | recv id drop =>
    cases drop with
    | true => exact absurd rfl (hev id)
    | false =>
      unfold cStep
      by_cases hr : s.reading = true
      · have hf : s.finalDone = false := by
          cases hx : s.finalDone with
          | false => rfl
          | true => have := (h3 hx).1; simp [hr] at this
        simp [hr]
        refine ⟨⟨h1, h2, ?_, ?_, ?_, ?_⟩, ?_⟩
        · intro hx; simp [hf] at hx
        · exact h4
        · intro i
          have := h5 i
          simp only [List.count_cons, List.count_append, List.count_nil]
          by_cases hi : id = i <;> simp [hi] <;> omega
        · exact h6
        · intro hx; simp at hx
      · simp [hr]
        exact ⟨⟨h1, h2, h3, h4, h5, h6⟩, h7⟩
  | finish id =>
    unfold cStep
    by_cases hc : s.inflight.contains id = true
    · have hmem : id ∈ s.inflight := by simpa using hc
      have hne : s.inflight ≠ [] := by intro hx; rw [hx] at hmem; simp at hmem
      have hf : s.finalDone = false := by
        cases hx : s.finalDone with
        | false => rfl
        | true => exact absurd (h3 hx).2 hne
      have hz : s.closes = 0 := by simp [h4, hf]
      simp only [hc, hz, ↓reduceIte]
      apply cSettle_inv
      refine ⟨h1, h2, ?_, ?_, ?_, ?_⟩
      · intro hx; simp [hf] at hx
      · simp [hf]
      · intro i
        have := h5 i
        simp only [List.count_append, List.count_cons, List.count_nil]
        by_cases hi : id = i
        · subst hi
          have hpos : 0 < s.inflight.count id := List.count_pos_iff.mpr hmem
          rw [List.count_erase_self]
          simp
          omega
        · rw [List.count_erase_of_ne (fun e => hi e.symm)]
          simp [hi]
          omega
      · simp [h6, hz]
    · have hc' : s.inflight.contains id = false := by simpa using hc
      have hd : s.dropping.contains id = false := by simp [h1]
      simp only [hc', hd]
      exact ⟨⟨h1, h2, h3, h4, h5, h6⟩, h7⟩
  | endRead =>
    unfold cStep
    by_cases hr : s.reading = true
    · have hf : s.finalDone = false := by
        cases hx : s.finalDone with
        | false => rfl
        | true => have := (h3 hx).1; simp [hr] at this
      simp only [hr, ↓reduceIte]
      apply cSettle_inv
      exact ⟨h1, h2, fun hx => by simp [hf] at hx, h4, h5, h6⟩
    · simp [hr]
      exact ⟨⟨h1, h2, h3, h4, h5, h6⟩, h7⟩

theorem cRun_inv (evs : List CEv) (hn : NoDrop evs) : ∀ s, CInv s → CInv (cRun true s evs) := by
  induction evs with
  | nil => intro s h; exact h
  | cons ev evs ih =>
    intro s h
    unfold cRun
    simp only [List.foldl_cons]
    apply ih (fun id hm => hn id (List.mem_cons_of_mem _ hm))
    apply cStep_inv _ _ _ h
    intro id he
    exact hn id (by simp [he])

theorem cInit_inv : CInv cInit := by
  refine ⟨⟨rfl, rfl, ?_, rfl, ?_, rfl⟩, ?_⟩ <;> simp [cInit]

/-- The ids of the frames the read loop gets to read: the `recv` events before the loop ends. -/
def recvIds : List CEv → List Nat
  | [] => []
  | .recv id _ :: evs => id :: recvIds evs
  | .finish _ :: evs => recvIds evs
  | .endRead :: _ => []

@[simp] theorem cSettle_reading (w : Bool) (s : CState) : (cSettle w s).reading = s.reading := by
  unfold cSettle; split <;> rfl
@[simp] theorem cSettle_received (w : Bool) (s : CState) : (cSettle w s).received = s.received := by
  unfold cSettle; split <;> rfl
@[simp] theorem cSettle_dropping (w : Bool) (s : CState) : (cSettle w s).dropping = s.dropping := by
  unfold cSettle; split <;> rfl

theorem cRun_received_stopped (w : Bool) (evs : List CEv) :
    ∀ s, s.reading = false → (cRun w s evs).received = s.received := by
  induction evs with
  | nil => intro s _; rfl
  | cons ev evs ih =>
    intro s hr
    unfold cRun
    simp only [List.foldl_cons]
    have : (cStep w s ev).reading = false ∧ (cStep w s ev).received = s.received := by
      cases ev with
      | recv id d => simp [cStep, hr]
      | finish id =>
        by_cases h1 : id ∈ s.inflight
        · by_cases h2 : s.closes = 0 <;> simp [cStep, h1, h2, hr]
        · by_cases h3 : id ∈ s.dropping <;> simp [cStep, h1, h3, hr]
      | endRead => simp [cStep, hr]
    have h2 := ih _ this.1
    unfold cRun at h2
    rw [h2, this.2]

theorem cRun_received (evs : List CEv) (hn : ∀ id, CEv.recv id true ∉ evs) :
    ∀ s, s.reading = true → s.dropping = [] →
      (cRun true s evs).received = s.received ++ recvIds evs := by
  induction evs with
  | nil => intro s _ _; simp [cRun, recvIds]
  | cons ev evs ih =>
    intro s hr hd
    have hn' : ∀ id, CEv.recv id true ∉ evs := fun id hm => hn id (List.mem_cons_of_mem _ hm)
    cases ev with
    | recv id d =>
      cases d with
      | true => exact absurd (by simp) (hn id)
      | false =>
        have := ih hn' (cStep true s (.recv id false)) (by simp [cStep, hr]) (by simp [cStep, hr, hd])
        unfold cRun at this ⊢
        simp only [List.foldl_cons]
        rw [this]
        simp [cStep, hr, recvIds]
    | finish id =>
      have h1 : (cStep true s (.finish id)).reading = true ∧ (cStep true s (.finish id)).dropping = [] ∧
          (cStep true s (.finish id)).received = s.received := by
        by_cases h1 : id ∈ s.inflight
        · by_cases h2 : s.closes = 0 <;> simp [cStep, h1, h2, hr, hd]
        · simp [cStep, h1, hr, hd]
      have := ih hn' _ h1.1 h1.2.1
      unfold cRun at this ⊢
      simp only [List.foldl_cons]
      rw [this, h1.2.2]
      simp [recvIds]
    | endRead =>
      have h1 : (cStep true s .endRead).reading = false ∧ (cStep true s .endRead).received = s.received := by
        simp [cStep, hr]
      have := cRun_received_stopped true evs _ h1.1
      unfold cRun at this ⊢
      simp only [List.foldl_cons]
      rw [this, h1.2]
      simp [recvIds]

end Agd.Serve
