import Agd.Model.Serve
/-! Helper lemmas for C01 (core Lean only). -/
namespace Agd.Serve

/-- A response "matches" a request: same id, and its question section is the
request's first question (the whole question section for an accepted query). -/
def Matches (m : Msg) (r : Resp) : Prop :=
  r.id = m.id ∧ r.questions = m.questions.take 1

/-- The handler's own response (if it writes one) matches the request.  The real
pipeline builds every response with `SetReply`/`SetRcode`. -/
def HandlerMatches (m : Msg) : Outcome → Prop
  | .wrote r => Matches m r
  | .wroteFailed r _ => Matches m r
  | _ => True

/-- Handler contract of `dnsserver.Handler`: an error is returned after a write
only when that write failed. -/
def Contract (o : Outcome) (wok : Bool) : Prop :=
  ∀ r ne, o = .wroteFailed r ne → wok = false

/-! Concrete instances used by the non-vacuity examples. -/
def sampleQuery : Msg := ⟨7, false, 0, true, false, [⟨"ExAmPlE.org.", 1, 1⟩], 0, 0, true, false⟩
def sampleStatus : Msg := ⟨7, false, 2, true, false, [], 3, 0, false, false⟩
def sampleResponse : Msg := ⟨9, true, 0, false, false, [⟨"x.", 1, 1⟩], 0, 0, false, false⟩
def sampleHdrOnly : Msg := ⟨0xabcd, false, 0, true, false, [], 0, 0, false, false⟩
def sampleJSON : JSONReq := ⟨"example.org.", false, .num 28, .absent, .val true, .absent, .absent⟩

theorem setRcode_matches (m : Msg) (c : Nat) : Matches m (setRcode m c) := by
  simp [Matches, setRcode]

theorem servFail_matches (m : Msg) (ne : Bool) : Matches m (servFail m ne) := by
  simp [Matches, servFail, setRcode]

theorem lastOr_cons_cons (d a b : Resp) (rs : List Resp) :
    lastOr d (a :: b :: rs) = lastOr d (b :: rs) := by
  simp [lastOr]

theorem lastOr_mem (d : Resp) : ∀ (ws : List Resp), ws ≠ [] → lastOr d ws ∈ ws
  | [], h => absurd rfl h
  | [r], _ => by simp [lastOr]
  | a :: b :: rs, _ => by
    rw [lastOr_cons_cons]
    exact List.mem_cons_of_mem _ (lastOr_mem d (b :: rs) (by simp))

theorem lastOr_single (d r : Resp) : lastOr d [r] = r := by simp [lastOr]

theorem serveCore_matches (m : Msg) (o : Outcome) (h : HandlerMatches m o) :
    ∀ r ∈ serveCore m o, Matches m r := by
  intro r hr
  unfold serveCore at hr
  split at hr
  · simp at hr
  · simp at hr; subst hr; exact setRcode_matches m _
  · simp at hr; subst hr; exact setRcode_matches m _
  · cases o with
    | silent => simp at hr
    | wrote r' => simp at hr; subst hr; exact h
    | failed ne => simp at hr; subst hr; exact servFail_matches m ne
    | wroteFailed r' ne =>
      simp at hr
      rcases hr with hr | hr
      · subst hr; exact h
      · subst hr; exact servFail_matches m ne

/-- Everything a transport delivers was written by `serveCore`, or is the
SERVFAIL the transport synthesises when nothing was written. -/
theorem deliver_sub (t : Transport) (m : Msg) (ws : List Resp) (wok : Bool) :
    ∀ r ∈ (deliver t m ws wok).msgs, r ∈ ws ∨ (ws = [] ∧ r = setRcode m rcServFail) := by
  intro r hr
  have hl : ∀ r, r ∈ [lastOr (setRcode m rcServFail) ws] →
      r ∈ ws ∨ (ws = [] ∧ r = setRcode m rcServFail) := by
    intro r hr
    simp at hr
    by_cases hw : ws = []
    · subst hw; right; simp [hr, lastOr]
    · left; rw [hr]; exact lastOr_mem _ ws hw
  cases t <;> simp only [deliver] at hr
  case udp => cases wok <;> simp at hr; exact Or.inl hr
  case tcp => cases wok <;> simp at hr; exact Or.inl hr
  case dot => cases wok <;> simp at hr; exact Or.inl hr
  case dohPost => split at hr; · simp at hr
                  · exact hl r hr
  case dohGet => split at hr; · simp at hr
                 · exact hl r hr
  case dohJSON => split at hr; · simp at hr
                  · exact hl r hr
  case doq => exact hl r hr
  case dnscryptUDP => exact hl r hr
  case dnscryptTCP => exact hl r hr

theorem serveCore_length_le (m : Msg) (o : Outcome) : (serveCore m o).length ≤ 2 := by
  unfold serveCore
  split <;> try simp
  cases o <;> simp

/-- Under the handler contract, at most one of the attempted writes can succeed. -/
theorem serveCore_length_contract (m : Msg) (o : Outcome) (h : Contract o true) :
    (serveCore m o).length ≤ 1 := by
  unfold serveCore
  split <;> try simp
  cases o with
  | wroteFailed r ne => exact absurd (h r ne rfl) (by simp)
  | _ => simp

theorem deliver_length_nonwriter (t : Transport) (m : Msg) (ws : List Resp) (wok : Bool)
    (ht : t.nonWriter = true) : (deliver t m ws wok).msgs.length ≤ 1 := by
  cases t <;> simp [Transport.nonWriter] at ht <;> simp only [deliver] <;> (try split) <;> simp

end Agd.Serve
