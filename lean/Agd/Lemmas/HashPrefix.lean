import Agd.Model.HashPrefix
/-! Helper lemmas for C11 (core Lean only). -/
namespace Agd.HashPrefix

/-! ### Storage invariant -/

theorem add_mem (st : Store) (h p s : Bytes) :
    s ∈ (st.add h) p ↔ s ∈ st p ∨ (p = h.take 2 ∧ s = h.drop 2) := by
  unfold Store.add
  by_cases hp : p = h.take 2 <;> simp [hp]

theorem foldl_mem (H : Bytes → Bytes) (names : List Bytes) (st0 : Store) (p s : Bytes) :
    s ∈ (names.foldl (fun st n => st.add (H n)) st0) p ↔
      s ∈ st0 p ∨ ∃ n ∈ names, p = (H n).take 2 ∧ s = (H n).drop 2 := by
  induction names generalizing st0 with
  | nil => simp
  | cons a r ih =>
    simp only [List.foldl_cons, ih, add_mem, List.mem_cons]
    constructor
    · rintro ((h | h) | ⟨n, hn, h⟩)
      · exact Or.inl h
      · exact Or.inr ⟨a, Or.inl rfl, h⟩
      · exact Or.inr ⟨n, Or.inr hn, h⟩
    · rintro (h | ⟨n, hn | hn, h⟩)
      · exact Or.inl (Or.inl h)
      · subst hn; exact Or.inl (Or.inr h)
      · exact Or.inr ⟨n, hn, h⟩

theorem build_mem (H : Bytes → Bytes) (names : List Bytes) (p s : Bytes) :
    s ∈ build H names p ↔ ∃ n ∈ names, p = (H n).take 2 ∧ s = (H n).drop 2 := by
  unfold build
  rw [foldl_mem]
  simp [Store.empty]

theorem matchesSum_build (H : Bytes → Bytes) (names : List Bytes) (sum : Bytes) :
    matchesSum (build H names) sum = true ↔ ∃ n ∈ names, H n = sum := by
  unfold matchesSum
  simp only [List.any_eq_true, beq_iff_eq, build_mem]
  constructor
  · rintro ⟨suf, ⟨n, hn, hp, hs⟩, he⟩
    refine ⟨n, hn, ?_⟩
    rw [← he, hp, hs, List.take_append_drop]
  · rintro ⟨n, hn, he⟩
    refine ⟨sum.drop 2, ⟨n, hn, by rw [he], by rw [he]⟩, List.take_append_drop 2 sum⟩

theorem hashes_build (H : Bytes → Bytes) (names : List Bytes) (prefs : List Bytes) (x : Bytes) :
    x ∈ hashes (build H names) prefs ↔ ∃ n ∈ names, H n = x ∧ (H n).take 2 ∈ prefs := by
  unfold hashes
  simp only [List.mem_flatMap, List.mem_map, build_mem]
  constructor
  · rintro ⟨p, hp, suf, ⟨n, hn, hpn, hs⟩, he⟩
    refine ⟨n, hn, ?_, hpn ▸ hp⟩
    rw [← he, hpn, hs, List.take_append_drop]
  · rintro ⟨n, hn, he, hp⟩
    exact ⟨(H n).take 2, hp, (H n).drop 2, ⟨n, hn, rfl, rfl⟩, by rw [List.take_append_drop, he]⟩

/-! ### Buckets with multiplicity -/

theorem foldl_bucket (H : Bytes → Bytes) (names : List Bytes) (st0 : Store) (p : Bytes) :
    (names.foldl (fun st n => st.add (H n)) st0) p =
      st0 p ++ (names.filter (fun n => (H n).take 2 == p)).map (fun n => (H n).drop 2) := by
  induction names generalizing st0 with
  | nil => simp
  | cons a r ih =>
    simp only [List.foldl_cons, ih, Store.add, List.filter_cons]
    by_cases hp : p = (H a).take 2
    · subst hp; simp
    · have : ((H a).take 2 == p) = false := by
        simp only [beq_eq_false_iff_ne, ne_eq]; exact fun h => hp h.symm
      simp [hp, this]

/-- A bucket holds the digest tails of the listed names with that prefix, in list order, one per
line: duplicates stay. -/
theorem build_bucket (H : Bytes → Bytes) (names : List Bytes) (p : Bytes) :
    build H names p = (names.filter (fun n => (H n).take 2 == p)).map (fun n => (H n).drop 2) := by
  unfold build
  rw [foldl_bucket]
  simp [Store.empty]

theorem count_bucket (H : Bytes → Bytes) (names : List Bytes) (p x : Bytes) :
    ((build H names p).map (fun suf => p ++ suf)).count x =
      names.countP (fun n => (H n).take 2 == p && H n == x) := by
  rw [build_bucket]
  induction names with
  | nil => simp
  | cons a r ih =>
    simp only [List.filter_cons, List.countP_cons]
    by_cases hp : (H a).take 2 = p
    · have hb : ((H a).take 2 == p) = true := by simpa using hp
      simp only [hb, if_true, List.map_cons, List.count_cons, ih, Bool.true_and]
      have : (p ++ (H a).drop 2) = H a := by rw [← hp, List.take_append_drop]
      rw [this]
    · have hb : ((H a).take 2 == p) = false := by simpa using hp
      simp only [hb, Bool.false_and, Bool.false_eq_true, if_false, Nat.add_zero]
      exact ih

/-- With multiplicity: `Hashes prefs` returns a digest once for every list line carrying a name
with that digest and every occurrence of the digest's prefix among `prefs`. -/
theorem hashes_count (H : Bytes → Bytes) (names prefs : List Bytes) (x : Bytes) :
    (hashes (build H names) prefs).count x =
      prefs.count (x.take 2) * names.countP (fun n => H n == x) := by
  unfold hashes
  induction prefs with
  | nil => simp
  | cons p ps ih =>
    simp only [List.flatMap_cons, List.count_append, ih, count_bucket, List.count_cons]
    have : names.countP (fun n => (H n).take 2 == p && H n == x) =
        if p = x.take 2 then names.countP (fun n => H n == x) else 0 := by
      by_cases hp : p = x.take 2
      · simp only [hp, if_true]
        apply List.countP_congr
        intro n _
        simp only [Bool.and_eq_true, beq_iff_eq]
        constructor
        · intro h; exact h.2
        · intro h; exact ⟨by rw [h], h⟩
      · simp only [hp, if_false]
        rw [List.countP_eq_zero]
        intro n _
        simp only [Bool.and_eq_true, beq_iff_eq, not_and]
        intro h1 h2
        exact hp (by rw [← h1, h2])
    rw [this]
    by_cases hp : p = x.take 2
    · have : (p == x.take 2) = true := by simpa using hp
      simp [hp, Nat.add_mul, Nat.add_comm]
    · have : (p == x.take 2) = false := by simpa using hp
      simp [hp, this]

/-! ### Parents, the four-label cut -/

/-- `s` is `d` itself or what follows one of `d`'s dots: `d` or one of its parent domains. -/
def DotSuffix (s d : Bytes) : Prop := s = d ∨ ∃ pre, d = pre ++ dot :: s

theorem mem_parents (d s : Bytes) : s ∈ parents d ↔ ∃ pre, d = pre ++ dot :: s := by
  induction d with
  | nil => simp [parents]
  | cons c r ih =>
    unfold parents
    by_cases hc : c = dot
    · simp only [hc, if_true, List.mem_cons, ih]
      constructor
      · rintro (h | ⟨pre, h⟩)
        · exact ⟨[], by simp [h]⟩
        · exact ⟨dot :: pre, by simp [h]⟩
      · rintro ⟨pre, h⟩
        cases pre with
        | nil => simp at h; exact Or.inl h.symm
        | cons a pre' => simp at h; exact Or.inr ⟨pre', h.2⟩
    · simp only [hc, if_false, ih]
      constructor
      · rintro ⟨pre, h⟩; exact ⟨c :: pre, by simp [h]⟩
      · rintro ⟨pre, h⟩
        cases pre with
        | nil => simp at h; exact absurd h.1 hc
        | cons a pre' => simp at h; exact ⟨pre', h.2⟩

theorem mem_subdomains (d s : Bytes) : s ∈ subdomains d ↔ d ≠ [] ∧ DotSuffix s d := by
  unfold subdomains DotSuffix
  by_cases hd : d = []
  · simp [hd]
  · simp [hd, mem_parents]

theorem countDots_append (a b : Bytes) : countDots (a ++ b) = countDots a + countDots b := by
  simp [countDots, List.count_append]

theorem countDots_cut4 (d : Bytes) : countDots (cut4 d) ≤ 3 := by
  induction d with
  | nil => simp [cut4, countDots]
  | cons c r ih =>
    unfold cut4
    by_cases h : countDots (c :: r) ≤ 3 <;> simp [h, ih]

theorem cut4_id (d : Bytes) (h : countDots d ≤ 3) : cut4 d = d := by
  cases d with
  | nil => rfl
  | cons c r => unfold cut4; simp [h]

theorem cut4_ne_nil (d : Bytes) (h : d ≠ []) : cut4 d ≠ [] := by
  induction d with
  | nil => exact absurd rfl h
  | cons c r ih =>
    unfold cut4
    by_cases hc : countDots (c :: r) ≤ 3
    · simp [hc]
    · simp only [hc, if_false]
      apply ih
      intro hr
      subst hr
      apply hc
      by_cases hd : c = dot <;> simp [countDots, hd]

/-- The cut happens at a dot: `cut4 d` is `d` or one of its parents. -/
theorem cut4_dotSuffix (d : Bytes) : DotSuffix (cut4 d) d := by
  induction d with
  | nil => exact Or.inl rfl
  | cons c r ih =>
    unfold cut4
    by_cases hc : countDots (c :: r) ≤ 3
    · simp only [hc, if_true]; exact Or.inl rfl
    · simp only [hc, if_false]
      rcases ih with h | ⟨pre, h⟩
      · -- r itself has at most three dots, so c must be a dot
        have h3 := countDots_cut4 r
        rw [h] at h3
        have : c = dot := by
          apply Classical.byContradiction
          intro hne
          apply hc
          have hne' : ¬ (c == dot) = true := by simpa using hne
          simpa [countDots, List.count_cons, hne'] using h3
        exact Or.inr ⟨[], by simp [h, this]⟩
      · exact Or.inr ⟨c :: pre, by rw [List.cons_append, ← h]⟩

theorem dotSuffix_trans {a b c : Bytes} (h1 : DotSuffix a b) (h2 : DotSuffix b c) : DotSuffix a c := by
  rcases h1 with h1 | ⟨p1, h1⟩
  · subst h1; exact h2
  · rcases h2 with h2 | ⟨p2, h2⟩
    · subst h2; exact Or.inr ⟨p1, h1⟩
    · exact Or.inr ⟨p2 ++ dot :: p1, by rw [h2, h1]; simp⟩

theorem dotSuffix_countDots {a b : Bytes} (h : DotSuffix a b) : countDots a ≤ countDots b := by
  rcases h with h | ⟨p, h⟩
  · subst h; exact Nat.le_refl _
  · rw [h, countDots_append]
    have : countDots (dot :: a) = countDots a + 1 := by simp [countDots]
    omega

theorem dotSuffix_length {a b : Bytes} (h : DotSuffix a b) : a.length ≤ b.length := by
  rcases h with h | ⟨p, h⟩
  · subst h; exact Nat.le_refl _
  · rw [h]; simp; omega

/-- Maximality: every parent of `d` (or `d`) with at most three dots survives the cut. -/
theorem dotSuffix_cut4 (d s : Bytes) (hs : DotSuffix s d) (h3 : countDots s ≤ 3) : DotSuffix s (cut4 d) := by
  induction d with
  | nil =>
    rcases hs with h | ⟨pre, h⟩
    · subst h; exact Or.inl rfl
    · simp at h
  | cons c r ih =>
    unfold cut4
    by_cases hc : countDots (c :: r) ≤ 3
    · simp only [hc, if_true]; exact hs
    · simp only [hc, if_false]
      rcases hs with h | ⟨pre, h⟩
      · subst h; exact absurd h3 hc
      · cases pre with
        | nil =>
          simp at h
          have hr : r = s := h.2
          subst hr
          rw [cut4_id r h3]; exact Or.inl rfl
        | cons a pre' =>
          simp at h
          exact ih (Or.inr ⟨pre', h.2⟩)


/-! ### The right-to-left scan of `strings.LastIndexFunc` computes the cut -/

theorem countDots_cons (c : UInt8) (a : Bytes) :
    countDots (c :: a) = if c = dot then countDots a + 1 else countDots a := by
  by_cases h : c = dot <;> simp [countDots, h]

theorem cut4_append_dot (pre acc : Bytes) (h : countDots acc = 3) : cut4 (pre ++ dot :: acc) = acc := by
  induction pre with
  | nil =>
    have : ¬ countDots (dot :: acc) ≤ 3 := by rw [countDots_cons]; simp; omega
    simp only [List.nil_append]
    unfold cut4
    simp only [this, if_false]
    exact cut4_id acc (by omega)
  | cons a p ih =>
    have : ¬ countDots (a :: (p ++ dot :: acc)) ≤ 3 := by
      rw [countDots_cons, countDots_append, countDots_cons]
      by_cases ha : a = dot <;> simp [ha] <;> omega
    rw [List.cons_append]
    unfold cut4
    simp only [this, if_false]
    exact ih

theorem cutScan_spec (r : Bytes) : ∀ (n : Nat) (acc : Bytes), countDots acc = n → n ≤ 3 →
    (match cutScan r n acc with | some s => s | none => r.reverse ++ acc) = cut4 (r.reverse ++ acc) := by
  induction r with
  | nil =>
    intro n acc hn h3
    simp only [cutScan, List.reverse_nil, List.nil_append]
    exact (cut4_id acc (by omega)).symm
  | cons c r ih =>
    intro n acc hn h3
    unfold cutScan
    have hc : countDots (c :: acc) = if c = dot then n + 1 else n := by rw [countDots_cons, hn]
    by_cases h4 : (if c = dot then n + 1 else n) = 4
    · simp only [h4, if_true]
      have hdot : c = dot := by
        apply Classical.byContradiction
        intro hne; simp [hne] at h4; omega
      have hn3 : countDots acc = 3 := by simp [hdot] at h4; omega
      subst hdot
      rw [List.reverse_cons, List.append_assoc]
      exact (cut4_append_dot r.reverse acc hn3).symm
    · simp only [h4, if_false]
      have hle : (if c = dot then n + 1 else n) ≤ 3 := by
        by_cases hd : c = dot
        · simp [hd] at h4 ⊢; omega
        · simp [hd]; omega
      have := ih _ (c :: acc) hc hle
      rw [List.reverse_cons, List.append_assoc]
      simpa using this

/-- The scan `hashableSubdomains` performs is the declarative cut: the longest suffix of the
domain with at most three dots. -/
theorem cut4Scan_eq (d : Bytes) : cut4Scan d = cut4 d := by
  have h := cutScan_spec d.reverse 0 [] (by simp [countDots]) (by omega)
  simp only [List.reverse_reverse, List.append_nil] at h
  unfold cut4Scan
  cases hc : cutScan d.reverse 0 [] with
  | none => rw [hc] at h; exact h
  | some s => rw [hc] at h; exact h

/-- The names `hashableSubdomains` starts from: `d` or a parent of `d`, at most four labels. -/
theorem mem_subdomains_cut4 (d s : Bytes) :
    s ∈ subdomains (cut4Scan d) ↔ d ≠ [] ∧ DotSuffix s d ∧ countDots s ≤ 3 := by
  rw [cut4Scan_eq, mem_subdomains]
  constructor
  · rintro ⟨hne, hs⟩
    refine ⟨?_, dotSuffix_trans hs (cut4_dotSuffix d), Nat.le_trans (dotSuffix_countDots hs) (countDots_cut4 d)⟩
    intro hd; subst hd; exact hne rfl
  · rintro ⟨hne, hs, h3⟩
    exact ⟨cut4_ne_nil d hne, dotSuffix_cut4 d s hs h3⟩

/-! ### Stopping at the public suffix -/

theorem parents_length (d s : Bytes) (h : s ∈ parents d) : s.length < d.length := by
  rw [mem_parents] at h
  rcases h with ⟨pre, h⟩
  rw [h]; simp; omega

theorem parents_pairwise (d : Bytes) : (parents d).Pairwise (fun a b => b.length < a.length) := by
  induction d with
  | nil => simp [parents]
  | cons c r ih =>
    unfold parents
    by_cases hc : c = dot
    · simp only [hc, if_true, List.pairwise_cons]
      exact ⟨fun b hb => parents_length r b hb, ih⟩
    · simp only [hc, if_false]; exact ih

theorem subdomains_pairwise (d : Bytes) : (subdomains d).Pairwise (fun a b => b.length < a.length) := by
  unfold subdomains
  by_cases hd : d = []
  · simp [hd]
  · simp only [hd, if_false, List.pairwise_cons]
    exact ⟨fun b hb => parents_length d b hb, parents_pairwise d⟩

theorem mem_takeWhile_ne (L : List Bytes) (p s : Bytes)
    (hL : L.Pairwise (fun a b => b.length < a.length)) :
    s ∈ L.takeWhile (fun x => x != p) ↔ s ∈ L ∧ (p ∈ L → p.length < s.length) := by
  induction L with
  | nil => simp
  | cons a r ih =>
    rw [List.pairwise_cons] at hL
    obtain ⟨ha, hr⟩ := hL
    by_cases hap : a = p
    · subst hap
      simp only [List.takeWhile_cons, bne_self_eq_false, List.mem_cons, true_or, true_implies]
      constructor
      · intro h; cases h
      · rintro ⟨h | h, hlt⟩
        · subst h; omega
        · have := ha s h; omega
    · have hne : (a != p) = true := by simpa using hap
      have hpa : ¬ p = a := fun h => hap h.symm
      simp only [List.takeWhile_cons, hne, if_true, List.mem_cons, ih hr, hpa, false_or]
      constructor
      · rintro (h | ⟨h, hlt⟩)
        · subst h; exact ⟨Or.inl rfl, fun hp => ha p hp⟩
        · exact ⟨Or.inr h, hlt⟩
      · rintro ⟨h | h, hlt⟩
        · exact Or.inl h
        · exact Or.inr ⟨h, hlt⟩

/-! ### The walk from a private suffix down to the ICANN suffix -/

/-- The loop at the head of `hashableSubdomains` as a relation, without fuel: `Walk ps cur r`
says that starting from the look-up result `cur` the loop ends with stop name `r`.  An ICANN
answer ends it; a private answer without a dot ends it with `""`; any other private answer —
however many there are in a row — continues with the look-up of the suffix's parent. -/
inductive Walk (ps : Bytes → Bytes × Bool) : Bytes × Bool → Bytes → Prop
  | icann (cur : Bytes × Bool) : cur.2 = true → Walk ps cur cur.1
  | bottom (cur : Bytes × Bool) : cur.2 = false → afterDot cur.1 = none → Walk ps cur []
  | step (cur : Bytes × Bool) (parent r : Bytes) :
      cur.2 = false → afterDot cur.1 = some parent → Walk ps (ps parent) r → Walk ps cur r

/-- A public suffix of `q` is not longer than `q` (it is a suffix of it). -/
def Shrinking (ps : Bytes → Bytes × Bool) : Prop := ∀ q, (ps q).1.length ≤ q.length

/-- A suffix reported as ICANN is, asked about itself, an ICANN suffix. -/
def Consistent (ps : Bytes → Bytes × Bool) : Prop :=
  ∀ q, (ps q).2 = true → ps (ps q).1 = ((ps q).1, true)

theorem afterDot_length (s p : Bytes) (h : afterDot s = some p) : p.length < s.length := by
  induction s with
  | nil => simp [afterDot] at h
  | cons c r ih =>
    unfold afterDot at h
    by_cases hc : c = dot
    · simp only [hc, if_true, Option.some.injEq] at h
      subst h; simp
    · simp only [hc, if_false] at h
      have := ih h
      simp; omega

/-- With enough fuel `icannSuffix` computes the walk. -/
theorem icannSuffix_walk (ps : Bytes → Bytes × Bool) (hps : Shrinking ps) (fuel : Nat) :
    ∀ cur : Bytes × Bool, cur.1.length < fuel → Walk ps cur (icannSuffix ps fuel cur) := by
  induction fuel with
  | zero => intro cur h; omega
  | succ n ih =>
    intro cur hlen
    unfold icannSuffix
    by_cases hc : cur.2 = true
    · simp only [hc, if_true]
      exact Walk.icann cur hc
    · have hc' : cur.2 = false := by simpa using hc
      simp only [hc', Bool.false_eq_true, if_false]
      cases ha : afterDot cur.1 with
      | none => exact Walk.bottom cur hc' ha
      | some parent =>
        have h1 := afterDot_length _ _ ha
        have h2 := hps parent
        exact Walk.step cur parent _ hc' ha (ih (ps parent) (by omega))

theorem effSuffix_walk (ps : Bytes → Bytes × Bool) (hps : Shrinking ps) (d : Bytes) :
    Walk ps (ps d) (effSuffix ps d) := by
  unfold effSuffix
  exact icannSuffix_walk ps hps _ _ (by have := hps d; omega)

/-- The walk is a function: the stop name is determined by the list and the host. -/
theorem walk_unique (ps : Bytes → Bytes × Bool) (cur : Bytes × Bool) (a b : Bytes)
    (ha : Walk ps cur a) (hb : Walk ps cur b) : a = b := by
  induction ha generalizing b with
  | icann cur hc =>
    cases hb with
    | icann _ _ => rfl
    | bottom _ hc' _ => rw [hc] at hc'; cases hc'
    | step _ _ _ hc' _ _ => rw [hc] at hc'; cases hc'
  | bottom cur hc hd =>
    cases hb with
    | icann _ hc' => rw [hc] at hc'; cases hc'
    | bottom _ _ _ => rfl
    | step _ _ _ _ hd' _ => rw [hd] at hd'; cases hd'
  | step cur parent r hc hd _ ih =>
    cases hb with
    | icann _ hc' => rw [hc] at hc'; cases hc'
    | bottom _ _ hd' => rw [hd] at hd'; cases hd'
    | step _ parent' _ _ hd' hw' =>
      rw [hd] at hd'
      cases hd'
      exact ih _ hw'

/-- The walk never stops on a private answer: its result is `""` or a suffix that some look-up
reported as ICANN. -/
theorem walk_result (ps : Bytes → Bytes × Bool) (cur : Bytes × Bool) (r : Bytes) (h : Walk ps cur r) :
    r = [] ∨ cur = (r, true) ∨ ∃ q, ps q = (r, true) := by
  induction h with
  | icann cur hc => exact Or.inr (Or.inl (by rw [← hc]))
  | bottom _ _ _ => exact Or.inl rfl
  | step cur parent r _ _ _ ih =>
    rcases ih with h | h | ⟨q, h⟩
    · exact Or.inl h
    · exact Or.inr (Or.inr ⟨parent, h⟩)
    · exact Or.inr (Or.inr ⟨q, h⟩)

/-- Two parents of the same name are comparable: the shorter is a parent of the longer. -/
theorem dotSuffix_total {a b d : Bytes} (ha : DotSuffix a d) (hb : DotSuffix b d)
    (hl : a.length ≤ b.length) : DotSuffix a b := by
  rcases hb with hb | ⟨pb, hb⟩
  · subst hb; exact ha
  · rcases ha with ha | ⟨pa, ha⟩
    · subst ha
      rw [hb] at hl
      simp at hl
      omega
    · -- d = pa ++ dot :: a = pb ++ dot :: b
      rw [hb] at ha
      have hlen : (pb ++ dot :: b).length = (pa ++ dot :: a).length := by rw [ha]
      simp at hlen
      rcases List.append_eq_append_iff.mp ha with ⟨m, h1, h2⟩ | ⟨m, h1, h2⟩
      · -- pa = pb ++ m, dot :: b = m ++ dot :: a
        cases m with
        | nil =>
          simp at h2
          exact Or.inl h2.symm
        | cons c t =>
          simp at h2
          exact Or.inr ⟨t, h2.2⟩
      · -- pb = pa ++ m, dot :: a = m ++ dot :: b
        cases m with
        | nil =>
          simp at h2
          exact Or.inl h2
        | cons c t =>
          simp at h2
          have : a.length = (t ++ dot :: b).length := by rw [h2.2]
          simp at this
          omega


/-! ### Lines of a text, declaratively -/

/-- `l` is the first line of `t`: `t` starts with `l`, `l` has no separator, and `l` is followed by
a separator or the end of the text. -/
def IsFirstLine (sep : UInt8) (t l : Bytes) : Prop :=
  sep ∉ l ∧ ∃ post, t = l ++ post ∧ (post = [] ∨ ∃ q, post = sep :: q)

/-- `l` is a line of `t` that follows a separator. -/
def IsLaterLine (sep : UInt8) (t l : Bytes) : Prop :=
  sep ∉ l ∧ ∃ p post, t = p ++ sep :: (l ++ post) ∧ (post = [] ∨ ∃ q, post = sep :: q)

theorem isFirstLine_unique (sep : UInt8) (t a b : Bytes) (ha : IsFirstLine sep t a) (hb : IsFirstLine sep t b) :
    a = b := by
  induction a generalizing t b with
  | nil =>
    cases b with
    | nil => rfl
    | cons y b' =>
      obtain ⟨_, pa, hta, hpa⟩ := ha
      obtain ⟨hnb, pb, htb, _⟩ := hb
      rcases hpa with hpa | ⟨q, hpa⟩
      · subst hpa; rw [hta] at htb; simp at htb
      · rw [hta, hpa] at htb
        simp at htb
        exact absurd (by rw [htb.1]; simp) hnb
  | cons x a' ih =>
    cases b with
    | nil =>
      obtain ⟨hna, pa, hta, _⟩ := ha
      obtain ⟨_, pb, htb, hpb⟩ := hb
      rcases hpb with hpb | ⟨q, hpb⟩
      · subst hpb; rw [htb] at hta; simp at hta
      · rw [htb, hpb] at hta
        simp at hta
        exact absurd (by rw [← hta.1]; simp) hna
    | cons y b' =>
      obtain ⟨hna, pa, hta, hpa⟩ := ha
      obtain ⟨hnb, pb, htb, hpb⟩ := hb
      have hxy : x = y := by rw [hta] at htb; simp at htb; exact htb.1
      subst hxy
      have := ih (a' ++ pa) b'
        ⟨fun h => hna (List.mem_cons_of_mem _ h), pa, rfl, hpa⟩
        ⟨fun h => hnb (List.mem_cons_of_mem _ h), pb, by rw [hta] at htb; simp at htb; exact htb, hpb⟩
      rw [this]

theorem splitOn_ne_nil (sep : UInt8) (t : Bytes) : splitOn sep t ≠ [] := by
  cases t with
  | nil => simp [splitOn]
  | cons c r =>
    unfold splitOn
    by_cases hc : c = sep
    · simp [hc]
    · simp only [hc, if_false]
      split <;> simp

/-- `splitOn` yields the first line, then exactly the lines that follow a separator. -/
theorem splitOn_spec (sep : UInt8) (t : Bytes) :
    ∃ l ls, splitOn sep t = l :: ls ∧ IsFirstLine sep t l ∧ ∀ raw, raw ∈ ls ↔ IsLaterLine sep t raw := by
  induction t with
  | nil =>
    refine ⟨[], [], rfl, ⟨by simp, [], rfl, Or.inl rfl⟩, ?_⟩
    intro raw
    simp only [List.not_mem_nil, false_iff]
    rintro ⟨_, p, post, h, _⟩
    simp at h
  | cons c r ih =>
    obtain ⟨l', ls', hsp, hfirst, hlater⟩ := ih
    by_cases hc : c = sep
    · subst hc
      refine ⟨[], l' :: ls', by simp [splitOn, hsp], ⟨by simp, c :: r, rfl, Or.inr ⟨r, rfl⟩⟩, ?_⟩
      intro raw
      simp only [List.mem_cons]
      constructor
      · rintro (h | h)
        · subst h
          obtain ⟨hn, post, ht, hp⟩ := hfirst
          exact ⟨hn, [], post, by simp [ht], hp⟩
        · obtain ⟨hn, p, post, ht, hp⟩ := (hlater raw).1 h
          exact ⟨hn, c :: p, post, by simp [ht], hp⟩
      · rintro ⟨hn, p, post, ht, hp⟩
        cases p with
        | nil =>
          left
          simp at ht
          exact isFirstLine_unique c r raw l' ⟨hn, post, ht, hp⟩ hfirst
        | cons a p' =>
          right
          simp at ht
          exact (hlater raw).2 ⟨hn, p', post, ht.2, hp⟩
    · refine ⟨c :: l', ls', by simp [splitOn, hc, hsp], ?_, ?_⟩
      · obtain ⟨hn, post, ht, hp⟩ := hfirst
        refine ⟨?_, post, by simp [ht], hp⟩
        intro hm
        simp only [List.mem_cons] at hm
        rcases hm with hm | hm
        · exact hc hm.symm
        · exact hn hm
      · intro raw
        rw [hlater raw]
        constructor
        · rintro ⟨hn, p, post, ht, hp⟩
          exact ⟨hn, c :: p, post, by simp [ht], hp⟩
        · rintro ⟨hn, p, post, ht, hp⟩
          cases p with
          | nil => simp at ht; exact absurd ht.1 hc
          | cons a p' =>
            simp at ht
            exact ⟨hn, p', post, ht.2, hp⟩

/-- `raw` is a line of `t`: a separator-free stretch of `t` that begins at the start of the text or
right after a separator and ends at the end of the text or right before a separator. -/
def IsLine (sep : UInt8) (t raw : Bytes) : Prop :=
  sep ∉ raw ∧ ∃ pre post, t = pre ++ raw ++ post ∧
    (pre = [] ∨ ∃ p, pre = p ++ [sep]) ∧ (post = [] ∨ ∃ q, post = sep :: q)

theorem mem_splitOn (sep : UInt8) (t raw : Bytes) : raw ∈ splitOn sep t ↔ IsLine sep t raw := by
  obtain ⟨l, ls, hsp, hfirst, hlater⟩ := splitOn_spec sep t
  rw [hsp, List.mem_cons, hlater]
  constructor
  · rintro (h | ⟨hn, p, post, ht, hp⟩)
    · subst h
      obtain ⟨hn, post, ht, hp⟩ := hfirst
      exact ⟨hn, [], post, by simp [ht], Or.inl rfl, hp⟩
    · exact ⟨hn, p ++ [sep], post, by simp [ht], Or.inr ⟨p, rfl⟩, hp⟩
  · rintro ⟨hn, pre, post, ht, hpre, hp⟩
    rcases hpre with hpre | ⟨p, hpre⟩
    · subst hpre
      left
      exact isFirstLine_unique sep t raw l ⟨hn, post, by simpa using ht, hp⟩ hfirst
    · subst hpre
      right
      exact ⟨hn, p, post, by simp [ht], hp⟩

/-! ### Prefix strings -/

theorem allSome_none_iff {α : Type} (l : List (Option α)) : allSome l = none ↔ none ∈ l := by
  induction l with
  | nil => simp [allSome]
  | cons a r ih =>
    cases a with
    | none => simp [allSome]
    | some v =>
      simp only [allSome, Option.map_eq_none_iff, ih, List.mem_cons]
      constructor
      · intro h; exact Or.inr h
      · rintro (h | h)
        · cases h
        · exact h

theorem allSome_some_mem {α : Type} (l : List (Option α)) (r : List α) (h : allSome l = some r) (x : α) :
    x ∈ r ↔ some x ∈ l := by
  induction l generalizing r with
  | nil => simp [allSome] at h; subst h; simp
  | cons a t ih =>
    cases a with
    | none => simp [allSome] at h
    | some v =>
      simp only [allSome, Option.map_eq_some_iff] at h
      obtain ⟨r', hr', he⟩ := h
      subst he
      simp [ih r' hr']

theorem mem_dedup (l : List Bytes) (a : Bytes) : a ∈ dedup l ↔ a ∈ l := by
  induction l with
  | nil => simp [dedup]
  | cons b r ih =>
    unfold dedup
    by_cases hb : b ∈ r
    · simp only [hb, if_true, ih, List.mem_cons]
      constructor
      · intro h; exact Or.inr h
      · rintro (h | h)
        · subst h; exact hb
        · exact h
    · simp [hb, ih]

theorem decodeHex_isSome : ∀ s : Bytes,
    (decodeHex s).isSome = true ↔ s.length % 2 = 0 ∧ ∀ c ∈ s, isHex c = true
  | [] => by simp [decodeHex]
  | [a] => by simp [decodeHex]
  | a :: b :: r => by
    have ih := decodeHex_isSome r
    unfold decodeHex
    by_cases hab : (isHex a && isHex b) = true
    · simp only [hab, if_true, Option.isSome_map, ih]
      simp only [Bool.and_eq_true] at hab
      constructor
      · rintro ⟨h1, h2⟩
        refine ⟨by simp only [List.length_cons]; omega, ?_⟩
        intro c hc
        simp only [List.mem_cons] at hc
        rcases hc with hc | hc | hc
        · subst hc; exact hab.1
        · subst hc; exact hab.2
        · exact h2 c hc
      · rintro ⟨h1, h2⟩
        refine ⟨by simp only [List.length_cons] at h1; omega, ?_⟩
        intro c hc
        exact h2 c (by simp [hc])
    · simp only [hab, Bool.false_eq_true, if_false, Option.isSome_none, false_iff]
      rintro ⟨_, h2⟩
      apply hab
      simp [h2 a (by simp), h2 b (by simp)]

/-- What one dot-separated piece of a prefix string contributes: the decoded first four
characters, or `none` when `prefixesFromStr` fails on it (in the switch or in the final loop). -/
def pieceVal (p : Bytes) : Option Bytes := (piece p).bind decodeHex

/-- A well-formed piece: four or eight characters, all of them hex digits. -/
def WfPiece (p : Bytes) : Prop := (p.length = 4 ∨ p.length = 8) ∧ ∀ c ∈ p, isHex c = true

theorem piece_len4 (p : Bytes) (h : p.length = 4) : piece p = some p := by
  unfold piece; rw [if_pos h]

theorem piece_len8 (p : Bytes) (h : p.length = 8) :
    piece p = if (decodeHex p).isSome then some (p.take 4) else none := by
  unfold piece; rw [if_neg (by omega), if_pos h]

theorem piece_other (p : Bytes) (h4 : p.length ≠ 4) (h8 : p.length ≠ 8) : piece p = none := by
  unfold piece; rw [if_neg h4, if_neg h8]

theorem pieceVal_eq_some (p x : Bytes) :
    pieceVal p = some x ↔ WfPiece p ∧ decodeHex (p.take 4) = some x := by
  unfold pieceVal WfPiece
  by_cases h4 : p.length = 4
  · have ht : p.take 4 = p := List.take_of_length_le (by omega)
    rw [piece_len4 p h4, ht]
    simp only [Option.bind_some]
    constructor
    · intro h
      exact ⟨⟨Or.inl h4, ((decodeHex_isSome p).1 (by rw [h]; rfl)).2⟩, h⟩
    · intro h; exact h.2
  · by_cases h8 : p.length = 8
    · rw [piece_len8 p h8]
      by_cases hd : (decodeHex p).isSome = true
      · rw [if_pos hd]
        simp only [Option.bind_some]
        have := ((decodeHex_isSome p).1 hd).2
        constructor
        · intro h; exact ⟨⟨Or.inr h8, this⟩, h⟩
        · intro h; exact h.2
      · rw [if_neg hd]
        simp only [Option.bind_none]
        constructor
        · intro h; cases h
        · rintro ⟨⟨_, hall⟩, _⟩
          exact absurd ((decodeHex_isSome p).2 ⟨by omega, hall⟩) hd
    · rw [piece_other p h4 h8]
      simp only [Option.bind_none]
      constructor
      · intro h; cases h
      · rintro ⟨⟨hl | hl, _⟩, _⟩
        · exact absurd hl h4
        · exact absurd hl h8

theorem pieceVal_isSome (p : Bytes) : (pieceVal p).isSome = true ↔ WfPiece p := by
  constructor
  · intro h
    obtain ⟨x, hx⟩ := Option.isSome_iff_exists.1 h
    exact ((pieceVal_eq_some p x).1 hx).1
  · intro h
    have hlen : (p.take 4).length % 2 = 0 := by
      rw [List.length_take]; rcases h.1 with h1 | h1 <;> rw [h1] <;> decide
    have : (decodeHex (p.take 4)).isSome = true :=
      (decodeHex_isSome _).2 ⟨hlen, fun c hc => h.2 c (List.mem_of_mem_take hc)⟩
    obtain ⟨x, hx⟩ := Option.isSome_iff_exists.1 this
    rw [(pieceVal_eq_some p x).2 ⟨h, hx⟩]; rfl

/-- The two passes of `prefixesFromStr` (the switch over the pieces, then the decoding loop over
the set) fail iff some piece has no value. -/
theorem twoPass_none (xs : List Bytes) :
    decodePieces xs = none ↔ ∃ p ∈ xs, pieceVal p = none := by
  unfold decodePieces
  cases h : allSome (xs.map piece) with
  | none =>
    simp only [true_iff]
    rw [allSome_none_iff] at h
    simp only [List.mem_map] at h
    obtain ⟨p, hp, he⟩ := h
    exact ⟨p, hp, by simp [pieceVal, he]⟩
  | some ps =>
    simp only [allSome_none_iff, List.mem_map, mem_dedup]
    constructor
    · rintro ⟨q, hq, hd⟩
      rw [allSome_some_mem _ _ h] at hq
      simp only [List.mem_map] at hq
      obtain ⟨p, hp, he⟩ := hq
      exact ⟨p, hp, by simp [pieceVal, he, hd]⟩
    · rintro ⟨p, hp, hv⟩
      cases hpc : piece p with
      | none =>
        have : none ∈ xs.map piece := by simp only [List.mem_map]; exact ⟨p, hp, hpc⟩
        rw [← allSome_none_iff, h] at this
        cases this
      | some q =>
        refine ⟨q, ?_, by simpa [pieceVal, hpc] using hv⟩
        rw [allSome_some_mem _ _ h]
        simp only [List.mem_map]
        exact ⟨p, hp, hpc⟩

theorem twoPass_some (xs : List Bytes) (prefs : List Bytes)
    (h : decodePieces xs = some prefs) (x : Bytes) :
    x ∈ prefs ↔ ∃ p ∈ xs, pieceVal p = some x := by
  unfold decodePieces at h
  cases h1 : allSome (xs.map piece) with
  | none => rw [h1] at h; cases h
  | some ps =>
    rw [h1] at h
    simp only at h
    rw [allSome_some_mem _ _ h]
    simp only [List.mem_map, mem_dedup]
    constructor
    · rintro ⟨q, hq, hd⟩
      rw [allSome_some_mem _ _ h1] at hq
      simp only [List.mem_map] at hq
      obtain ⟨p, hp, he⟩ := hq
      exact ⟨p, hp, by simp [pieceVal, he, hd]⟩
    · rintro ⟨p, hp, hv⟩
      cases hpc : piece p with
      | none => simp [pieceVal, hpc] at hv
      | some q =>
        refine ⟨q, ?_, by simpa [pieceVal, hpc] using hv⟩
        rw [allSome_some_mem _ _ h1]
        simp only [List.mem_map]
        exact ⟨p, hp, hpc⟩

/-! ### Hex encoding of the answers -/

theorem forall_uint8 (P : UInt8 → Prop) (h : ∀ n, n < 256 → P (UInt8.ofNat n)) : ∀ b, P b := by
  intro b
  have := h b.toNat (UInt8.toNat_lt b)
  simpa using this

set_option maxRecDepth 100000 in
theorem hexDigit_roundtrip : ∀ b : UInt8,
    (isHex (hexDigit (b / 16)) && isHex (hexDigit (b % 16))) = true ∧
      hexVal (hexDigit (b / 16)) * 16 + hexVal (hexDigit (b % 16)) = b := by
  apply forall_uint8
  decide

/-- `hex.Decode` undoes `hex.Encode`: the answer strings determine the digests. -/
theorem decodeHex_hexEncode (b : Bytes) : decodeHex (hexEncode b) = some b := by
  induction b with
  | nil => rfl
  | cons a r ih =>
    simp only [hexEncode, decodeHex, (hexDigit_roundtrip a).1, if_true, ih, Option.map_some,
      (hexDigit_roundtrip a).2]

theorem hexEncode_length (b : Bytes) : (hexEncode b).length = 2 * b.length := by
  induction b with
  | nil => rfl
  | cons a r ih => simp only [hexEncode, List.length_cons, ih]; omega

theorem hexEncode_take (b : Bytes) (k : Nat) : hexEncode (b.take k) = (hexEncode b).take (2 * k) := by
  induction b generalizing k with
  | nil => simp [hexEncode]
  | cons a r ih =>
    cases k with
    | zero => simp [hexEncode]
    | succ k =>
      have : 2 * (k + 1) = (2 * k + 1) + 1 := by omega
      simp only [List.take_succ_cons, hexEncode, this, ih]

/-! ### Toy public-suffix lists for the counter-examples and non-vacuity examples of C11 -/

theorem not_dotSuffix_longer (s p : Bytes) (h : p.length < s.length) : ¬ DotSuffix s p := by
  intro hs
  have := dotSuffix_length hs
  omega

/-- A toy list with a private rule registered below another private rule: `c` is an ICANN suffix,
`b.c` a private one (dyndns.org), `a.b.c` a private one below it (go.dyndns.org). -/
def psNest (d : Bytes) : Bytes × Bool :=
  if d = [99] then ([99], true)
  else if d = [98, 46, 99] then ([98, 46, 99], false)
  else if d = [97, 46, 98, 46, 99] ∨ d = [120, 46, 97, 46, 98, 46, 99] then ([97, 46, 98, 46, 99], false)
  else ([], false)

theorem psNest_shrinking : Shrinking psNest := by
  intro q; unfold psNest
  repeat' split
  all_goals first
    | (rename_i h; rcases h with h | h <;> subst h <;> decide)
    | simp_all

theorem psNest_icann (p : Bytes) (h : psNest p = (p, true)) : p = [99] := by
  unfold psNest at h
  repeat' split at h
  all_goals simp_all

theorem psNest_consistent : Consistent psNest := by
  intro q hq
  have : (psNest q).1 = [99] := by
    unfold psNest at hq ⊢
    repeat' split at hq
    all_goals simp_all
  rw [this]; decide

/-- The public-suffix package as it is: `b.c` is a private rule, `i.b.c` an unlisted name on the way
to a longer rule, for which the package answers (`b.c`, icann = true). -/
def psQuirk (d : Bytes) : Bytes × Bool :=
  if d = [99] then ([99], true)
  else if d = [98, 46, 99] then ([98, 46, 99], false)
  else if d = [105, 46, 98, 46, 99] then ([98, 46, 99], true)
  else ([], false)

theorem psQuirk_shrinking : Shrinking psQuirk := by
  intro q; unfold psQuirk
  repeat' split
  all_goals simp_all

theorem psQuirk_icann (p : Bytes) (h : psQuirk p = (p, true)) : p = [99] := by
  unfold psQuirk at h
  repeat' split at h
  all_goals simp_all


/-! ### One map for the whole of `Hashes` -/

theorem zip_replicate_self {α β : Type} (a : α) (l : List β) :
    (List.replicate l.length a).zip l = l.map (fun b => (a, b)) := by
  induction l with
  | nil => rfl
  | cons b r ih => simp [List.replicate_succ, ih]

theorem encodeLoop_replicate (st : Store) (prefs : List Bytes) :
    encodeLoop (List.replicate prefs.length st) prefs = hashes st prefs := by
  unfold encodeLoop hashes
  rw [zip_replicate_self]
  induction prefs with
  | nil => rfl
  | cons p r ih => simp [List.flatMap_cons, ih]

theorem countLoop_replicate (st : Store) (prefs : List Bytes) :
    countLoop (List.replicate prefs.length st) prefs = (hashes st prefs).length := by
  unfold countLoop hashes
  rw [zip_replicate_self]
  induction prefs with
  | nil => rfl
  | cons p r ih => simp [List.flatMap_cons] at ih ⊢; omega

/-! ### Two versions that differ under every requested prefix -/

/-- The maps the look-ups of one loop of `Storage.Hashes` go to when every look-up finds one of
two versions installed: `A` where the flag is `true`, `B` where it is `false`. -/
def pickMaps (A B : Store) (bs : List Bool) : List Store := bs.map (fun b => if b then A else B)

theorem countLoop_cons (m : Store) (maps : List Store) (p : Bytes) (ps : List Bytes) :
    countLoop (m :: maps) (p :: ps) = (m p).length + countLoop maps ps := by
  simp [countLoop]

theorem encodeLoop_length (maps : List Store) (prefs : List Bytes) :
    (encodeLoop maps prefs).length = countLoop maps prefs := by
  unfold encodeLoop countLoop
  simp [List.length_flatMap]

/-- With `B` narrower than `A` under every requested prefix the count of a loop that meets both
lies between the two, and reaches either end only by meeting that version at every look-up. -/
theorem countLoop_pick_bounds (A B : Store) (prefs : List Bytes)
    (hlt : ∀ p ∈ prefs, (B p).length < (A p).length) :
    ∀ bs : List Bool, bs.length = prefs.length →
      countLoop (pickMaps A B bs) prefs ≤ countLoop (List.replicate prefs.length A) prefs ∧
      countLoop (List.replicate prefs.length B) prefs ≤ countLoop (pickMaps A B bs) prefs ∧
      (countLoop (pickMaps A B bs) prefs = countLoop (List.replicate prefs.length A) prefs →
        ∀ b ∈ bs, b = true) ∧
      (countLoop (pickMaps A B bs) prefs = countLoop (List.replicate prefs.length B) prefs →
        ∀ b ∈ bs, b = false) := by
  induction prefs with
  | nil =>
    intro bs hb
    have : bs = [] := List.length_eq_zero_iff.mp hb
    subst this
    simp [pickMaps, countLoop]
  | cons p ps ih =>
    intro bs hb
    cases bs with
    | nil => simp at hb
    | cons b bs' =>
      have hb' : bs'.length = ps.length := by simpa using hb
      have hp := hlt p (by simp)
      have ih' := ih (fun q hq => hlt q (by simp [hq])) bs' hb'
      obtain ⟨h1, h2, h3, h4⟩ := ih'
      have e1 : pickMaps A B (b :: bs') = (if b then A else B) :: pickMaps A B bs' := by
        simp [pickMaps]
      rw [e1]
      simp only [List.length_cons, List.replicate_succ, countLoop_cons]
      cases b with
      | true =>
        simp only [if_true]
        refine ⟨by omega, by omega, ?_, ?_⟩
        · intro he x hx
          rcases List.mem_cons.mp hx with hx | hx
          · exact hx
          · exact h3 (by omega) x hx
        · intro he; omega
      | false =>
        simp only [Bool.false_eq_true, if_false]
        refine ⟨by omega, by omega, ?_, ?_⟩
        · intro he; omega
        · intro he x hx
          rcases List.mem_cons.mp hx with hx | hx
          · exact hx
          · exact h4 (by omega) x hx

/-- The answer of `hashesLoads`, when there is one, has as many digests as the counting loop
counted. -/
theorem hashesLoads_length (cnt enc : List Store) (prefs : List Bytes) (ans : List Bytes)
    (hne : prefs ≠ []) (h : hashesLoads cnt enc prefs = some ans) :
    ans.length = countLoop cnt prefs ∧ countLoop cnt prefs ≤ countLoop enc prefs := by
  unfold hashesLoads at h
  rw [if_neg hne] at h
  by_cases hl : (encodeLoop enc prefs).length < countLoop cnt prefs
  · rw [if_pos hl] at h; cases h
  · rw [if_neg hl] at h
    injection h with h
    subst h
    rw [encodeLoop_length] at hl
    rw [List.length_take, encodeLoop_length]
    omega

/-! ### Normalisation of the question name -/

set_option maxRecDepth 100000 in
theorem lowerByte_idem : ∀ c : UInt8, lowerByte (lowerByte c) = lowerByte c := by
  apply forall_uint8; decide

set_option maxRecDepth 100000 in
theorem lowerByte_dot : ∀ c : UInt8, (lowerByte c = dot ↔ c = dot) := by
  apply forall_uint8; decide

set_option maxRecDepth 100000 in
theorem isHex_lower : ∀ c : UInt8, isHex (lowerByte c) = isHex c := by
  apply forall_uint8; decide

set_option maxRecDepth 100000 in
theorem hexVal_lower : ∀ c : UInt8, isHex c = true → hexVal (lowerByte c) = hexVal c := by
  apply forall_uint8; decide

theorem getLast?_map_lower (q : Bytes) : (q.map lowerByte).getLast? = some dot ↔ q.getLast? = some dot := by
  rw [List.getLast?_map]
  cases q.getLast? with
  | none => simp
  | some c => simp [lowerByte_dot c]

/-- Lower-casing and dropping the final dot commute. -/
theorem dropFinalDot_map_lower (q : Bytes) :
    dropFinalDot (q.map lowerByte) = (dropFinalDot q).map lowerByte := by
  unfold dropFinalDot
  by_cases h : q.getLast? = some dot
  · have h' := (getLast?_map_lower q).2 h
    rw [if_pos h', if_pos h]
    simp [List.dropLast_eq_take, List.map_take]
  · have h' : ¬ (q.map lowerByte).getLast? = some dot := fun h2 => h ((getLast?_map_lower q).1 h2)
    rw [if_neg h', if_neg h]

end Agd.HashPrefix
