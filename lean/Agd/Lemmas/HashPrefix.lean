import Agd.Model.HashPrefix
/-! Helper lemmas for C11 (core Lean only). -/
namespace Agd.HashPrefix

/-! ### Storage invariant -/

theorem add_mem (st : Store) (h p s : Bytes) :
    s ∈ (st.add h) p ↔ s ∈ st p ∨ (p = h.take 2 ∧ s = h.drop 2) := by
  unfold Store.add
  by_cases hp : p = h.take 2 <;> simp [hp]

theorem foldl_mem (H : Bytes → Bytes) (names : List Bytes) (st0 : Store) (p s : Bytes) :
    s ∈ (names.foldl (fun st n => st.add (H n)) st0) p ↔
      s ∈ st0 p ∨ ∃ n ∈ names, p = (H n).take 2 ∧ s = (H n).drop 2 := by
  induction names generalizing st0 with
  | nil => simp
  | cons a r ih =>
    simp only [List.foldl_cons, ih, add_mem, List.mem_cons]
    constructor
    · rintro ((h | h) | ⟨n, hn, h⟩)
      · exact Or.inl h
      · exact Or.inr ⟨a, Or.inl rfl, h⟩
      · exact Or.inr ⟨n, Or.inr hn, h⟩
    · rintro (h | ⟨n, hn | hn, h⟩)
      · exact Or.inl (Or.inl h)
      · subst hn; exact Or.inl (Or.inr h)
      · exact Or.inr ⟨n, hn, h⟩

theorem build_mem (H : Bytes → Bytes) (names : List Bytes) (p s : Bytes) :
    s ∈ build H names p ↔ ∃ n ∈ names, p = (H n).take 2 ∧ s = (H n).drop 2 := by
  unfold build
  rw [foldl_mem]
  simp [Store.empty]

theorem matchesSum_build (H : Bytes → Bytes) (names : List Bytes) (sum : Bytes) :
    matchesSum (build H names) sum = true ↔ ∃ n ∈ names, H n = sum := by
  unfold matchesSum
  simp only [List.any_eq_true, beq_iff_eq, build_mem]
  constructor
  · rintro ⟨suf, ⟨n, hn, hp, hs⟩, he⟩
    refine ⟨n, hn, ?_⟩
    rw [← he, hp, hs, List.take_append_drop]
  · rintro ⟨n, hn, he⟩
    refine ⟨sum.drop 2, ⟨n, hn, by rw [he], by rw [he]⟩, List.take_append_drop 2 sum⟩

theorem hashes_build (H : Bytes → Bytes) (names : List Bytes) (prefs : List Bytes) (x : Bytes) :
    x ∈ hashes (build H names) prefs ↔ ∃ n ∈ names, H n = x ∧ (H n).take 2 ∈ prefs := by
  unfold hashes
  simp only [List.mem_flatMap, List.mem_map, build_mem]
  constructor
  · rintro ⟨p, hp, suf, ⟨n, hn, hpn, hs⟩, he⟩
    refine ⟨n, hn, ?_, hpn ▸ hp⟩
    rw [← he, hpn, hs, List.take_append_drop]
  · rintro ⟨n, hn, he, hp⟩
    exact ⟨(H n).take 2, hp, (H n).drop 2, ⟨n, hn, rfl, rfl⟩, by rw [List.take_append_drop, he]⟩

/-! ### Parents, the four-label cut -/

/-- `s` is `d` itself or what follows one of `d`'s dots: `d` or one of its parent domains. -/
def DotSuffix (s d : Bytes) : Prop := s = d ∨ ∃ pre, d = pre ++ dot :: s

theorem mem_parents (d s : Bytes) : s ∈ parents d ↔ ∃ pre, d = pre ++ dot :: s := by
  induction d with
  | nil => simp [parents]
  | cons c r ih =>
    unfold parents
    by_cases hc : c = dot
    · simp only [hc, if_true, List.mem_cons, ih]
      constructor
      · rintro (h | ⟨pre, h⟩)
        · exact ⟨[], by simp [h]⟩
        · exact ⟨dot :: pre, by simp [h]⟩
      · rintro ⟨pre, h⟩
        cases pre with
        | nil => simp at h; exact Or.inl h.symm
        | cons a pre' => simp at h; exact Or.inr ⟨pre', h.2⟩
    · simp only [hc, if_false, ih]
      constructor
      · rintro ⟨pre, h⟩; exact ⟨c :: pre, by simp [h]⟩
      · rintro ⟨pre, h⟩
        cases pre with
        | nil => simp at h; exact absurd h.1 hc
        | cons a pre' => simp at h; exact ⟨pre', h.2⟩

theorem mem_subdomains (d s : Bytes) : s ∈ subdomains d ↔ d ≠ [] ∧ DotSuffix s d := by
  unfold subdomains DotSuffix
  by_cases hd : d = []
  · simp [hd]
  · simp [hd, mem_parents]

theorem countDots_append (a b : Bytes) : countDots (a ++ b) = countDots a + countDots b := by
  simp [countDots, List.count_append]

theorem countDots_cut4 (d : Bytes) : countDots (cut4 d) ≤ 3 := by
  induction d with
  | nil => simp [cut4, countDots]
  | cons c r ih =>
    unfold cut4
    by_cases h : countDots (c :: r) ≤ 3 <;> simp [h, ih]

theorem cut4_id (d : Bytes) (h : countDots d ≤ 3) : cut4 d = d := by
  cases d with
  | nil => rfl
  | cons c r => unfold cut4; simp [h]

theorem cut4_ne_nil (d : Bytes) (h : d ≠ []) : cut4 d ≠ [] := by
  induction d with
  | nil => exact absurd rfl h
  | cons c r ih =>
    unfold cut4
    by_cases hc : countDots (c :: r) ≤ 3
    · simp [hc]
    · simp only [hc, if_false]
      apply ih
      intro hr
      subst hr
      apply hc
      by_cases hd : c = dot <;> simp [countDots, hd]

/-- The cut happens at a dot: `cut4 d` is `d` or one of its parents. -/
theorem cut4_dotSuffix (d : Bytes) : DotSuffix (cut4 d) d := by
  induction d with
  | nil => exact Or.inl rfl
  | cons c r ih =>
    unfold cut4
    by_cases hc : countDots (c :: r) ≤ 3
    · simp only [hc, if_true]; exact Or.inl rfl
    · simp only [hc, if_false]
      rcases ih with h | ⟨pre, h⟩
      · -- r itself has at most three dots, so c must be a dot
        have h3 := countDots_cut4 r
        rw [h] at h3
        have : c = dot := by
          apply Classical.byContradiction
          intro hne
          apply hc
          have hne' : ¬ (c == dot) = true := by simpa using hne
          simpa [countDots, List.count_cons, hne'] using h3
        exact Or.inr ⟨[], by simp [h, this]⟩
      · exact Or.inr ⟨c :: pre, by rw [List.cons_append, ← h]⟩

theorem dotSuffix_trans {a b c : Bytes} (h1 : DotSuffix a b) (h2 : DotSuffix b c) : DotSuffix a c := by
  rcases h1 with h1 | ⟨p1, h1⟩
  · subst h1; exact h2
  · rcases h2 with h2 | ⟨p2, h2⟩
    · subst h2; exact Or.inr ⟨p1, h1⟩
    · exact Or.inr ⟨p2 ++ dot :: p1, by rw [h2, h1]; simp⟩

theorem dotSuffix_countDots {a b : Bytes} (h : DotSuffix a b) : countDots a ≤ countDots b := by
  rcases h with h | ⟨p, h⟩
  · subst h; exact Nat.le_refl _
  · rw [h, countDots_append]
    have : countDots (dot :: a) = countDots a + 1 := by simp [countDots]
    omega

theorem dotSuffix_length {a b : Bytes} (h : DotSuffix a b) : a.length ≤ b.length := by
  rcases h with h | ⟨p, h⟩
  · subst h; exact Nat.le_refl _
  · rw [h]; simp; omega

/-- Maximality: every parent of `d` (or `d`) with at most three dots survives the cut. -/
theorem dotSuffix_cut4 (d s : Bytes) (hs : DotSuffix s d) (h3 : countDots s ≤ 3) : DotSuffix s (cut4 d) := by
  induction d with
  | nil =>
    rcases hs with h | ⟨pre, h⟩
    · subst h; exact Or.inl rfl
    · simp at h
  | cons c r ih =>
    unfold cut4
    by_cases hc : countDots (c :: r) ≤ 3
    · simp only [hc, if_true]; exact hs
    · simp only [hc, if_false]
      rcases hs with h | ⟨pre, h⟩
      · subst h; exact absurd h3 hc
      · cases pre with
        | nil =>
          simp at h
          have hr : r = s := h.2
          subst hr
          rw [cut4_id r h3]; exact Or.inl rfl
        | cons a pre' =>
          simp at h
          exact ih (Or.inr ⟨pre', h.2⟩)

/-- The names `hashableSubdomains` starts from: `d` or a parent of `d`, at most four labels. -/
theorem mem_subdomains_cut4 (d s : Bytes) :
    s ∈ subdomains (cut4 d) ↔ d ≠ [] ∧ DotSuffix s d ∧ countDots s ≤ 3 := by
  rw [mem_subdomains]
  constructor
  · rintro ⟨hne, hs⟩
    refine ⟨?_, dotSuffix_trans hs (cut4_dotSuffix d), Nat.le_trans (dotSuffix_countDots hs) (countDots_cut4 d)⟩
    intro hd; subst hd; exact hne rfl
  · rintro ⟨hne, hs, h3⟩
    exact ⟨cut4_ne_nil d hne, dotSuffix_cut4 d s hs h3⟩

/-! ### Stopping at the public suffix -/

theorem parents_length (d s : Bytes) (h : s ∈ parents d) : s.length < d.length := by
  rw [mem_parents] at h
  rcases h with ⟨pre, h⟩
  rw [h]; simp; omega

theorem parents_pairwise (d : Bytes) : (parents d).Pairwise (fun a b => b.length < a.length) := by
  induction d with
  | nil => simp [parents]
  | cons c r ih =>
    unfold parents
    by_cases hc : c = dot
    · simp only [hc, if_true, List.pairwise_cons]
      exact ⟨fun b hb => parents_length r b hb, ih⟩
    · simp only [hc, if_false]; exact ih

theorem subdomains_pairwise (d : Bytes) : (subdomains d).Pairwise (fun a b => b.length < a.length) := by
  unfold subdomains
  by_cases hd : d = []
  · simp [hd]
  · simp only [hd, if_false, List.pairwise_cons]
    exact ⟨fun b hb => parents_length d b hb, parents_pairwise d⟩

theorem mem_takeWhile_ne (L : List Bytes) (p s : Bytes)
    (hL : L.Pairwise (fun a b => b.length < a.length)) :
    s ∈ L.takeWhile (fun x => x != p) ↔ s ∈ L ∧ (p ∈ L → p.length < s.length) := by
  induction L with
  | nil => simp
  | cons a r ih =>
    rw [List.pairwise_cons] at hL
    obtain ⟨ha, hr⟩ := hL
    by_cases hap : a = p
    · subst hap
      simp only [List.takeWhile_cons, bne_self_eq_false, List.mem_cons, true_or, true_implies]
      constructor
      · intro h; cases h
      · rintro ⟨h | h, hlt⟩
        · subst h; omega
        · have := ha s h; omega
    · have hne : (a != p) = true := by simpa using hap
      have hpa : ¬ p = a := fun h => hap h.symm
      simp only [List.takeWhile_cons, hne, if_true, List.mem_cons, ih hr, hpa, false_or]
      constructor
      · rintro (h | ⟨h, hlt⟩)
        · subst h; exact ⟨Or.inl rfl, fun hp => ha p hp⟩
        · exact ⟨Or.inr h, hlt⟩
      · rintro ⟨h | h, hlt⟩
        · exact Or.inl h
        · exact Or.inr ⟨h, hlt⟩

/-! ### The walk from a private suffix down to the ICANN suffix -/

/-- The loop at the head of `hashableSubdomains` as a relation, without fuel: `Walk ps cur r`
says that starting from the look-up result `cur` the loop ends with stop name `r`.  An ICANN
answer ends it; a private answer without a dot ends it with `""`; any other private answer —
however many there are in a row — continues with the look-up of the suffix's parent. -/
inductive Walk (ps : Bytes → Bytes × Bool) : Bytes × Bool → Bytes → Prop
  | icann (cur : Bytes × Bool) : cur.2 = true → Walk ps cur cur.1
  | bottom (cur : Bytes × Bool) : cur.2 = false → afterDot cur.1 = none → Walk ps cur []
  | step (cur : Bytes × Bool) (parent r : Bytes) :
      cur.2 = false → afterDot cur.1 = some parent → Walk ps (ps parent) r → Walk ps cur r

/-- A public suffix of `q` is not longer than `q` (it is a suffix of it). -/
def Shrinking (ps : Bytes → Bytes × Bool) : Prop := ∀ q, (ps q).1.length ≤ q.length

/-- A suffix reported as ICANN is, asked about itself, an ICANN suffix. -/
def Consistent (ps : Bytes → Bytes × Bool) : Prop :=
  ∀ q, (ps q).2 = true → ps (ps q).1 = ((ps q).1, true)

theorem afterDot_length (s p : Bytes) (h : afterDot s = some p) : p.length < s.length := by
  induction s with
  | nil => simp [afterDot] at h
  | cons c r ih =>
    unfold afterDot at h
    by_cases hc : c = dot
    · simp only [hc, if_true, Option.some.injEq] at h
      subst h; simp
    · simp only [hc, if_false] at h
      have := ih h
      simp; omega

/-- With enough fuel `icannSuffix` computes the walk. -/
theorem icannSuffix_walk (ps : Bytes → Bytes × Bool) (hps : Shrinking ps) (fuel : Nat) :
    ∀ cur : Bytes × Bool, cur.1.length < fuel → Walk ps cur (icannSuffix ps fuel cur) := by
  induction fuel with
  | zero => intro cur h; omega
  | succ n ih =>
    intro cur hlen
    unfold icannSuffix
    by_cases hc : cur.2 = true
    · simp only [hc, if_true]
      exact Walk.icann cur hc
    · have hc' : cur.2 = false := by simpa using hc
      simp only [hc', Bool.false_eq_true, if_false]
      cases ha : afterDot cur.1 with
      | none => exact Walk.bottom cur hc' ha
      | some parent =>
        have h1 := afterDot_length _ _ ha
        have h2 := hps parent
        exact Walk.step cur parent _ hc' ha (ih (ps parent) (by omega))

theorem effSuffix_walk (ps : Bytes → Bytes × Bool) (hps : Shrinking ps) (d : Bytes) :
    Walk ps (ps d) (effSuffix ps d) := by
  unfold effSuffix
  exact icannSuffix_walk ps hps _ _ (by have := hps d; omega)

/-- The walk is a function: the stop name is determined by the list and the host. -/
theorem walk_unique (ps : Bytes → Bytes × Bool) (cur : Bytes × Bool) (a b : Bytes)
    (ha : Walk ps cur a) (hb : Walk ps cur b) : a = b := by
  induction ha generalizing b with
  | icann cur hc =>
    cases hb with
    | icann _ _ => rfl
    | bottom _ hc' _ => rw [hc] at hc'; cases hc'
    | step _ _ _ hc' _ _ => rw [hc] at hc'; cases hc'
  | bottom cur hc hd =>
    cases hb with
    | icann _ hc' => rw [hc] at hc'; cases hc'
    | bottom _ _ _ => rfl
    | step _ _ _ _ hd' _ => rw [hd] at hd'; cases hd'
  | step cur parent r hc hd _ ih =>
    cases hb with
    | icann _ hc' => rw [hc] at hc'; cases hc'
    | bottom _ _ hd' => rw [hd] at hd'; cases hd'
    | step _ parent' _ _ hd' hw' =>
      rw [hd] at hd'
      cases hd'
      exact ih _ hw'

/-- The walk never stops on a private answer: its result is `""` or a suffix that some look-up
reported as ICANN. -/
theorem walk_result (ps : Bytes → Bytes × Bool) (cur : Bytes × Bool) (r : Bytes) (h : Walk ps cur r) :
    r = [] ∨ cur = (r, true) ∨ ∃ q, ps q = (r, true) := by
  induction h with
  | icann cur hc => exact Or.inr (Or.inl (by rw [← hc]))
  | bottom _ _ _ => exact Or.inl rfl
  | step cur parent r _ _ _ ih =>
    rcases ih with h | h | ⟨q, h⟩
    · exact Or.inl h
    · exact Or.inr (Or.inr ⟨parent, h⟩)
    · exact Or.inr (Or.inr ⟨q, h⟩)

/-- Two parents of the same name are comparable: the shorter is a parent of the longer. -/
theorem dotSuffix_total {a b d : Bytes} (ha : DotSuffix a d) (hb : DotSuffix b d)
    (hl : a.length ≤ b.length) : DotSuffix a b := by
  rcases hb with hb | ⟨pb, hb⟩
  · subst hb; exact ha
  · rcases ha with ha | ⟨pa, ha⟩
    · subst ha
      rw [hb] at hl
      simp at hl
      omega
    · -- d = pa ++ dot :: a = pb ++ dot :: b
      rw [hb] at ha
      have hlen : (pb ++ dot :: b).length = (pa ++ dot :: a).length := by rw [ha]
      simp at hlen
      rcases List.append_eq_append_iff.mp ha with ⟨m, h1, h2⟩ | ⟨m, h1, h2⟩
      · -- pa = pb ++ m, dot :: b = m ++ dot :: a
        cases m with
        | nil =>
          simp at h2
          exact Or.inl h2.symm
        | cons c t =>
          simp at h2
          exact Or.inr ⟨t, h2.2⟩
      · -- pb = pa ++ m, dot :: a = m ++ dot :: b
        cases m with
        | nil =>
          simp at h2
          exact Or.inl h2
        | cons c t =>
          simp at h2
          have : a.length = (t ++ dot :: b).length := by rw [h2.2]
          simp at this
          omega

/-! ### Toy public-suffix lists for the counter-examples and non-vacuity examples of C11 -/

theorem not_dotSuffix_longer (s p : Bytes) (h : p.length < s.length) : ¬ DotSuffix s p := by
  intro hs
  have := dotSuffix_length hs
  omega

/-- A toy list with a private rule registered below another private rule: `c` is an ICANN suffix,
`b.c` a private one (dyndns.org), `a.b.c` a private one below it (go.dyndns.org). -/
def psNest (d : Bytes) : Bytes × Bool :=
  if d = [99] then ([99], true)
  else if d = [98, 46, 99] then ([98, 46, 99], false)
  else if d = [97, 46, 98, 46, 99] ∨ d = [120, 46, 97, 46, 98, 46, 99] then ([97, 46, 98, 46, 99], false)
  else ([], false)

theorem psNest_shrinking : Shrinking psNest := by
  intro q; unfold psNest
  repeat' split
  all_goals first
    | (rename_i h; rcases h with h | h <;> subst h <;> decide)
    | simp_all

theorem psNest_icann (p : Bytes) (h : psNest p = (p, true)) : p = [99] := by
  unfold psNest at h
  repeat' split at h
  all_goals simp_all

theorem psNest_consistent : Consistent psNest := by
  intro q hq
  have : (psNest q).1 = [99] := by
    unfold psNest at hq ⊢
    repeat' split at hq
    all_goals simp_all
  rw [this]; decide

/-- The public-suffix package as it is: `b.c` is a private rule, `i.b.c` an unlisted name on the way
to a longer rule, for which the package answers (`b.c`, icann = true). -/
def psQuirk (d : Bytes) : Bytes × Bool :=
  if d = [99] then ([99], true)
  else if d = [98, 46, 99] then ([98, 46, 99], false)
  else if d = [105, 46, 98, 46, 99] then ([98, 46, 99], true)
  else ([], false)

theorem psQuirk_shrinking : Shrinking psQuirk := by
  intro q; unfold psQuirk
  repeat' split
  all_goals simp_all

theorem psQuirk_icann (p : Bytes) (h : psQuirk p = (p, true)) : p = [99] := by
  unfold psQuirk at h
  repeat' split at h
  all_goals simp_all


end Agd.HashPrefix
