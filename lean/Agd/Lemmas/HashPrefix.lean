import Agd.Model.HashPrefix
/-! Helper lemmas for C11 (core Lean only). -/
namespace Agd.HashPrefix

/-! ### Storage invariant -/

theorem add_mem (st : Store) (h p s : Bytes) :
    s ∈ (st.add h) p ↔ s ∈ st p ∨ (p = h.take 2 ∧ s = h.drop 2) := by
  unfold Store.add
  by_cases hp : p = h.take 2 <;> simp [hp]

theorem foldl_mem (H : Bytes → Bytes) (names : List Bytes) (st0 : Store) (p s : Bytes) :
    s ∈ (names.foldl (fun st n => st.add (H n)) st0) p ↔
      s ∈ st0 p ∨ ∃ n ∈ names, p = (H n).take 2 ∧ s = (H n).drop 2 := by
  induction names generalizing st0 with
  | nil => simp
  | cons a r ih =>
    simp only [List.foldl_cons, ih, add_mem, List.mem_cons]
    constructor
    · rintro ((h | h) | ⟨n, hn, h⟩)
      · exact Or.inl h
      · exact Or.inr ⟨a, Or.inl rfl, h⟩
      · exact Or.inr ⟨n, Or.inr hn, h⟩
    · rintro (h | ⟨n, hn | hn, h⟩)
      · exact Or.inl (Or.inl h)
      · subst hn; exact Or.inl (Or.inr h)
      · exact Or.inr ⟨n, hn, h⟩

theorem build_mem (H : Bytes → Bytes) (names : List Bytes) (p s : Bytes) :
    s ∈ build H names p ↔ ∃ n ∈ names, p = (H n).take 2 ∧ s = (H n).drop 2 := by
  unfold build
  rw [foldl_mem]
  simp [Store.empty]

theorem matchesSum_build (H : Bytes → Bytes) (names : List Bytes) (sum : Bytes) :
    matchesSum (build H names) sum = true ↔ ∃ n ∈ names, H n = sum := by
  unfold matchesSum
  simp only [List.any_eq_true, beq_iff_eq, build_mem]
  constructor
  · rintro ⟨suf, ⟨n, hn, hp, hs⟩, he⟩
    refine ⟨n, hn, ?_⟩
    rw [← he, hp, hs, List.take_append_drop]
  · rintro ⟨n, hn, he⟩
    refine ⟨sum.drop 2, ⟨n, hn, by rw [he], by rw [he]⟩, List.take_append_drop 2 sum⟩

theorem hashes_build (H : Bytes → Bytes) (names : List Bytes) (prefs : List Bytes) (x : Bytes) :
    x ∈ hashes (build H names) prefs ↔ ∃ n ∈ names, H n = x ∧ (H n).take 2 ∈ prefs := by
  unfold hashes
  simp only [List.mem_flatMap, List.mem_map, build_mem]
  constructor
  · rintro ⟨p, hp, suf, ⟨n, hn, hpn, hs⟩, he⟩
    refine ⟨n, hn, ?_, hpn ▸ hp⟩
    rw [← he, hpn, hs, List.take_append_drop]
  · rintro ⟨n, hn, he, hp⟩
    exact ⟨(H n).take 2, hp, (H n).drop 2, ⟨n, hn, rfl, rfl⟩, by rw [List.take_append_drop, he]⟩

/-! ### Parents, the four-label cut -/

/-- `s` is `d` itself or what follows one of `d`'s dots: `d` or one of its parent domains. -/
def DotSuffix (s d : Bytes) : Prop := s = d ∨ ∃ pre, d = pre ++ dot :: s

theorem mem_parents (d s : Bytes) : s ∈ parents d ↔ ∃ pre, d = pre ++ dot :: s := by
  induction d with
  | nil => simp [parents]
  | cons c r ih =>
    unfold parents
    by_cases hc : c = dot
    · simp only [hc, if_true, List.mem_cons, ih]
      constructor
      · rintro (h | ⟨pre, h⟩)
        · exact ⟨[], by simp [h]⟩
        · exact ⟨dot :: pre, by simp [h]⟩
      · rintro ⟨pre, h⟩
        cases pre with
        | nil => simp at h; exact Or.inl h.symm
        | cons a pre' => simp at h; exact Or.inr ⟨pre', h.2⟩
    · simp only [hc, if_false, ih]
      constructor
      · rintro ⟨pre, h⟩; exact ⟨c :: pre, by simp [h]⟩
      · rintro ⟨pre, h⟩
        cases pre with
        | nil => simp at h; exact absurd h.1 hc
        | cons a pre' => simp at h; exact ⟨pre', h.2⟩

theorem mem_subdomains (d s : Bytes) : s ∈ subdomains d ↔ d ≠ [] ∧ DotSuffix s d := by
  unfold subdomains DotSuffix
  by_cases hd : d = []
  · simp [hd]
  · simp [hd, mem_parents]

theorem countDots_append (a b : Bytes) : countDots (a ++ b) = countDots a + countDots b := by
  simp [countDots, List.count_append]

theorem countDots_cut4 (d : Bytes) : countDots (cut4 d) ≤ 3 := by
  induction d with
  | nil => simp [cut4, countDots]
  | cons c r ih =>
    unfold cut4
    by_cases h : countDots (c :: r) ≤ 3 <;> simp [h, ih]

theorem cut4_id (d : Bytes) (h : countDots d ≤ 3) : cut4 d = d := by
  cases d with
  | nil => rfl
  | cons c r => unfold cut4; simp [h]

theorem cut4_ne_nil (d : Bytes) (h : d ≠ []) : cut4 d ≠ [] := by
  induction d with
  | nil => exact absurd rfl h
  | cons c r ih =>
    unfold cut4
    by_cases hc : countDots (c :: r) ≤ 3
    · simp [hc]
    · simp only [hc, if_false]
      apply ih
      intro hr
      subst hr
      apply hc
      by_cases hd : c = dot <;> simp [countDots, hd]

/-- The cut happens at a dot: `cut4 d` is `d` or one of its parents. -/
theorem cut4_dotSuffix (d : Bytes) : DotSuffix (cut4 d) d := by
  induction d with
  | nil => exact Or.inl rfl
  | cons c r ih =>
    unfold cut4
    by_cases hc : countDots (c :: r) ≤ 3
    · simp only [hc, if_true]; exact Or.inl rfl
    · simp only [hc, if_false]
      rcases ih with h | ⟨pre, h⟩
      · -- r itself has at most three dots, so c must be a dot
        have h3 := countDots_cut4 r
        rw [h] at h3
        have : c = dot := by
          apply Classical.byContradiction
          intro hne
          apply hc
          have hne' : ¬ (c == dot) = true := by simpa using hne
          simpa [countDots, List.count_cons, hne'] using h3
        exact Or.inr ⟨[], by simp [h, this]⟩
      · exact Or.inr ⟨c :: pre, by rw [List.cons_append, ← h]⟩

theorem dotSuffix_trans {a b c : Bytes} (h1 : DotSuffix a b) (h2 : DotSuffix b c) : DotSuffix a c := by
  rcases h1 with h1 | ⟨p1, h1⟩
  · subst h1; exact h2
  · rcases h2 with h2 | ⟨p2, h2⟩
    · subst h2; exact Or.inr ⟨p1, h1⟩
    · exact Or.inr ⟨p2 ++ dot :: p1, by rw [h2, h1]; simp⟩

theorem dotSuffix_countDots {a b : Bytes} (h : DotSuffix a b) : countDots a ≤ countDots b := by
  rcases h with h | ⟨p, h⟩
  · subst h; exact Nat.le_refl _
  · rw [h, countDots_append]
    have : countDots (dot :: a) = countDots a + 1 := by simp [countDots]
    omega

theorem dotSuffix_length {a b : Bytes} (h : DotSuffix a b) : a.length ≤ b.length := by
  rcases h with h | ⟨p, h⟩
  · subst h; exact Nat.le_refl _
  · rw [h]; simp; omega

/-- Maximality: every parent of `d` (or `d`) with at most three dots survives the cut. -/
theorem dotSuffix_cut4 (d s : Bytes) (hs : DotSuffix s d) (h3 : countDots s ≤ 3) : DotSuffix s (cut4 d) := by
  induction d with
  | nil =>
    rcases hs with h | ⟨pre, h⟩
    · subst h; exact Or.inl rfl
    · simp at h
  | cons c r ih =>
    unfold cut4
    by_cases hc : countDots (c :: r) ≤ 3
    · simp only [hc, if_true]; exact hs
    · simp only [hc, if_false]
      rcases hs with h | ⟨pre, h⟩
      · subst h; exact absurd h3 hc
      · cases pre with
        | nil =>
          simp at h
          have hr : r = s := h.2
          subst hr
          rw [cut4_id r h3]; exact Or.inl rfl
        | cons a pre' =>
          simp at h
          exact ih (Or.inr ⟨pre', h.2⟩)

/-- The names `hashableSubdomains` starts from: `d` or a parent of `d`, at most four labels. -/
theorem mem_subdomains_cut4 (d s : Bytes) :
    s ∈ subdomains (cut4 d) ↔ d ≠ [] ∧ DotSuffix s d ∧ countDots s ≤ 3 := by
  rw [mem_subdomains]
  constructor
  · rintro ⟨hne, hs⟩
    refine ⟨?_, dotSuffix_trans hs (cut4_dotSuffix d), Nat.le_trans (dotSuffix_countDots hs) (countDots_cut4 d)⟩
    intro hd; subst hd; exact hne rfl
  · rintro ⟨hne, hs, h3⟩
    exact ⟨cut4_ne_nil d hne, dotSuffix_cut4 d s hs h3⟩

/-! ### Stopping at the public suffix -/

theorem parents_length (d s : Bytes) (h : s ∈ parents d) : s.length < d.length := by
  rw [mem_parents] at h
  rcases h with ⟨pre, h⟩
  rw [h]; simp; omega

theorem parents_pairwise (d : Bytes) : (parents d).Pairwise (fun a b => b.length < a.length) := by
  induction d with
  | nil => simp [parents]
  | cons c r ih =>
    unfold parents
    by_cases hc : c = dot
    · simp only [hc, if_true, List.pairwise_cons]
      exact ⟨fun b hb => parents_length r b hb, ih⟩
    · simp only [hc, if_false]; exact ih

theorem subdomains_pairwise (d : Bytes) : (subdomains d).Pairwise (fun a b => b.length < a.length) := by
  unfold subdomains
  by_cases hd : d = []
  · simp [hd]
  · simp only [hd, if_false, List.pairwise_cons]
    exact ⟨fun b hb => parents_length d b hb, parents_pairwise d⟩

theorem mem_takeWhile_ne (L : List Bytes) (p s : Bytes)
    (hL : L.Pairwise (fun a b => b.length < a.length)) :
    s ∈ L.takeWhile (fun x => x != p) ↔ s ∈ L ∧ (p ∈ L → p.length < s.length) := by
  induction L with
  | nil => simp
  | cons a r ih =>
    rw [List.pairwise_cons] at hL
    obtain ⟨ha, hr⟩ := hL
    by_cases hap : a = p
    · subst hap
      simp only [List.takeWhile_cons, bne_self_eq_false, List.mem_cons, true_or, true_implies]
      constructor
      · intro h; cases h
      · rintro ⟨h | h, hlt⟩
        · subst h; omega
        · have := ha s h; omega
    · have hne : (a != p) = true := by simpa using hap
      have hpa : ¬ p = a := fun h => hap h.symm
      simp only [List.takeWhile_cons, hne, if_true, List.mem_cons, ih hr, hpa, false_or]
      constructor
      · rintro (h | ⟨h, hlt⟩)
        · subst h; exact ⟨Or.inl rfl, fun hp => ha p hp⟩
        · exact ⟨Or.inr h, hlt⟩
      · rintro ⟨h | h, hlt⟩
        · exact Or.inl h
        · exact Or.inr ⟨h, hlt⟩

end Agd.HashPrefix
