import Agd.Model.Filter
/-! Helper lemmas for C02 (core Lean only). -/
namespace Agd.Filter

/-! ### `processRewrites` only ever yields nothing or a rewrite -/

theorem processRewrites_cases (host : Host) (qt : QType) (rws : List Rewrite) (id : ListId) :
    processRewrites host qt rws id = .none ∨ (processRewrites host qt rws id).isRewrite = true := by
  unfold processRewrites
  split
  · exact Or.inl rfl
  · split
    · split
      · exact Or.inl rfl
      · exact Or.inr rfl
    · exact Or.inr rfl
    · exact Or.inr rfl

theorem processRewrites_id (host : Host) (qt : QType) (rws : List Rewrite) (id : ListId) :
    processRewrites host qt rws id = .none ∨ (∃ t, processRewrites host qt rws id = .modReq id t) ∨
      ∃ rc vs, processRewrites host qt rws id = .modResp id rc vs := by
  unfold processRewrites
  split
  · exact Or.inl rfl
  · split
    · split
      · exact Or.inl rfl
      · exact Or.inr (Or.inl ⟨_, rfl⟩)
    · exact Or.inr (Or.inr ⟨_, _, rfl⟩)
    · exact Or.inr (Or.inr ⟨_, _, rfl⟩)

/-! ### `firstRewrite` -/

theorem firstRewrite_cases (host : Host) (qt : QType) (srcs : List (ListId × List Rule)) :
    firstRewrite host qt srcs = .none ∨ (firstRewrite host qt srcs).isRewrite = true := by
  induction srcs with
  | nil => exact Or.inl rfl
  | cons p rest ih =>
    obtain ⟨id, rs⟩ := p
    unfold firstRewrite
    rcases processRewrites_cases host qt (rewriteHits rs host) id with h | h
    · rw [h]; exact ih
    · right
      revert h
      cases processRewrites host qt (rewriteHits rs host) id <;> simp [Verdict.isRewrite]

theorem firstRewrite_split (host : Host) (qt : QType) (pre post : List (ListId × List Rule))
    (id : ListId) (rs : List Rule)
    (hpre : ∀ p ∈ pre, processRewrites host qt (rewriteHits p.2 host) p.1 = .none)
    (hne : processRewrites host qt (rewriteHits rs host) id ≠ .none) :
    firstRewrite host qt (pre ++ (id, rs) :: post) = processRewrites host qt (rewriteHits rs host) id := by
  induction pre with
  | nil =>
    simp only [List.nil_append, firstRewrite]
  | cons p pre ih =>
    obtain ⟨pid, prs⟩ := p
    have h0 := hpre (pid, prs) (List.mem_cons_self ..)
    simp only [List.cons_append, firstRewrite]
    simp only at h0
    rw [h0]
    exact ih (fun q hq => hpre q (List.mem_cons_of_mem _ hq))

/-! ### `basicRule` -/

theorem basicFrom_allow (hits : List NetHit) (b : Option NetHit)
    (h : (∃ x, b = some x ∧ x.2.1 = true) ∨ ∃ y ∈ hits, y.2.1 = true) :
    ∃ r, basicFrom b hits = some r ∧ r.2.1 = true := by
  induction hits generalizing b with
  | nil =>
    rcases h with ⟨x, hx, ha⟩ | ⟨y, hy, _⟩
    · exact ⟨x, by simp [basicFrom, hx], ha⟩
    · cases hy
  | cons r rs ih =>
    cases b with
    | none =>
      simp only [basicFrom]
      apply ih
      rcases h with ⟨x, hx, _⟩ | ⟨y, hy, ha⟩
      · cases hx
      · rcases List.mem_cons.mp hy with rfl | hy
        · exact Or.inl ⟨y, rfl, ha⟩
        · exact Or.inr ⟨y, hy, ha⟩
    | some b0 =>
      simp only [basicFrom]
      apply ih
      rcases h with ⟨x, hx, ha⟩ | ⟨y, hy, ha⟩
      · cases hx
        left
        by_cases hr : r.2.1 = true
        · refine ⟨_, rfl, ?_⟩
          split <;> assumption
        · refine ⟨_, rfl, ?_⟩
          have : higher r b0 = false := by simp [higher, hr, ha]
          simp [this, ha]
      · rcases List.mem_cons.mp hy with rfl | hy
        · left
          by_cases hb : b0.2.1 = true
          · refine ⟨_, rfl, ?_⟩
            split <;> assumption
          · refine ⟨_, rfl, ?_⟩
            have : higher y b0 = true := by simp [higher, hb, ha]
            simp [this, ha]
        · exact Or.inr ⟨y, hy, ha⟩

theorem basicFrom_block (hits : List NetHit) (b : Option NetHit)
    (hb : ∀ x, b = some x → x.2.1 = false) (hh : ∀ y ∈ hits, y.2.1 = false)
    (hne : b ≠ Option.none ∨ hits ≠ []) :
    ∃ r, basicFrom b hits = some r ∧ r.2.1 = false := by
  induction hits generalizing b with
  | nil =>
    cases b with
    | none => simp at hne
    | some x => exact ⟨x, rfl, hb x rfl⟩
  | cons r rs ih =>
    have hr := hh r (List.mem_cons_self ..)
    have hrs : ∀ y ∈ rs, y.2.1 = false := fun y hy => hh y (List.mem_cons_of_mem _ hy)
    cases b with
    | none =>
      simp only [basicFrom]
      exact ih _ (by intro x hx; cases hx; exact hr) hrs (Or.inl (by simp))
    | some b0 =>
      simp only [basicFrom]
      refine ih _ ?_ hrs (Or.inl (by simp))
      intro x hx
      cases hx
      split
      · exact hr
      · exact hb b0 rfl

theorem basicFrom_nil_none : basicFrom Option.none [] = Option.none := rfl

/-- The chosen basic rule is one of the hits. -/
theorem basicFrom_mem (hits : List NetHit) (b : Option NetHit) (r : NetHit)
    (h : basicFrom b hits = some r) : b = some r ∨ r ∈ hits := by
  induction hits generalizing b with
  | nil => left; simpa [basicFrom] using h
  | cons x xs ih =>
    cases b with
    | none =>
      simp only [basicFrom] at h
      rcases ih _ h with h1 | h1
      · cases h1; exact Or.inr (List.mem_cons_self ..)
      · exact Or.inr (List.mem_cons_of_mem _ h1)
    | some b0 =>
      simp only [basicFrom] at h
      rcases ih _ h with h1 | h1
      · by_cases hx : higher x b0 = true
        · simp [hx] at h1; subst h1; exact Or.inr (List.mem_cons_self ..)
        · simp [hx] at h1; subst h1; exact Or.inl rfl
      · exact Or.inr (List.mem_cons_of_mem _ h1)

/-! ### `combined` never rewrites -/

theorem toInternal_not_rewrite (nets : List NetHit) (h4 h6 : List ListId) (qt : QType) :
    (toInternal nets h4 h6 qt).isRewrite = false := by
  unfold toInternal
  split
  · split <;> rfl
  · split
    · rfl
    · rfl
    · rfl
    · split <;> rfl

/-! ### `firstSome` -/

theorem firstSome_split (pre post : List Verdict) (v : Verdict)
    (hpre : ∀ x ∈ pre, x = .none) (hv : v ≠ .none) : firstSome (pre ++ v :: post) = v := by
  induction pre with
  | nil => cases v <;> simp_all [firstSome]
  | cons x xs ih =>
    have := hpre x (List.mem_cons_self ..)
    subst this
    simp only [List.cons_append, firstSome]
    exact ih (fun y hy => hpre y (List.mem_cons_of_mem _ hy))

theorem firstSome_cons (v : Verdict) (vs : List Verdict) :
    firstSome (v :: vs) = if v = .none then firstSome vs else v := by
  cases v <;> simp [firstSome]

theorem firstSome_all_none (vs : List Verdict) (h : ∀ x ∈ vs, x = .none) : firstSome vs = .none := by
  induction vs with
  | nil => rfl
  | cons x xs ih =>
    have := h x (List.mem_cons_self ..)
    subst this
    simp only [firstSome]
    exact ih (fun y hy => h y (List.mem_cons_of_mem _ hy))

theorem firstSome_mem (vs : List Verdict) : firstSome vs = .none ∨ firstSome vs ∈ vs := by
  induction vs with
  | nil => exact Or.inl rfl
  | cons x xs ih =>
    cases x with
    | none =>
      simp only [firstSome]
      rcases ih with h | h
      · exact Or.inl h
      · exact Or.inr (List.mem_cons_of_mem _ h)
    | allowed l => exact Or.inr (by simp [firstSome])
    | blocked l => exact Or.inr (by simp [firstSome])
    | modReq l t => exact Or.inr (by simp [firstSome])
    | modResp l rc vs => exact Or.inr (by simp [firstSome])
    | hashResp l v4 ip => exact Or.inr (by simp [firstSome])

/-- No request filter ever blocks or allows: each yields nothing or a rewrite. -/
theorem reqFilterVerdicts_shape (c : Cfg) (host : Host) (qt : QType) :
    ∀ v ∈ reqFilterVerdicts c host qt, v = .none ∨ v.isRewrite = true := by
  intro v hv
  have hash : ∀ id f, hashVerdict id f host qt = .none ∨ (hashVerdict id f host qt).isRewrite = true := by
    intro id f
    unfold hashVerdict
    split
    · split <;> exact Or.inr rfl
    · exact Or.inl rfl
  have ss : ∀ id rs, ssVerdict id rs host qt = .none ∨ (ssVerdict id rs host qt).isRewrite = true := by
    intro id rs
    unfold ssVerdict
    split
    · exact processRewrites_cases ..
    · exact Or.inl rfl
  unfold reqFilterVerdicts at hv
  simp only [List.mem_append] at hv
  rcases hv with (((h | h) | h) | h) | h
  · cases hc : c.sb <;> simp [optV, hc] at h; subst h; exact hash ..
  · cases hc : c.adult <;> simp [optV, hc] at h; subst h; exact hash ..
  · cases hc : c.genSS <;> simp [optV, hc] at h; subst h; exact ss ..
  · cases hc : c.ytSS <;> simp [optV, hc] at h; subst h; exact ss ..
  · cases hc : c.newReg <;> simp [optV, hc] at h; subst h; exact hash ..

/-! ### Rule-level readings of the hit lists -/

theorem mem_netHits (id : ListId) (rs : List Rule) (host : Host) (qt : QType) (y : NetHit) :
    y ∈ netHits id rs host qt ↔
      ∃ d a ts, Rule.net d a ts ∈ rs ∧ domMatch d host = true ∧ ts.ok qt = true ∧ y = (id, a, ts.count) := by
  unfold netHits
  simp only [List.mem_filterMap]
  constructor
  · rintro ⟨r, hr, h⟩
    cases r with
    | net d a ts =>
      simp only at h
      split at h
      · rename_i hc
        simp only [Bool.and_eq_true] at hc
        cases h
        exact ⟨d, a, ts, hr, hc.1, hc.2, rfl⟩
      · cases h
    | rewrite d rw => simp at h
    | hosts v6 d => simp at h
  · rintro ⟨d, a, ts, hr, h1, h2, rfl⟩
    exact ⟨_, hr, by simp [h1, h2]⟩

theorem mem_allNets (srcs : List (ListId × List Rule)) (host : Host) (qt : QType) (y : NetHit) :
    y ∈ allNets srcs host qt ↔ ∃ p ∈ srcs, y ∈ netHits p.1 p.2 host qt := by
  unfold allNets
  simp [List.mem_flatMap]

theorem mem_rewriteHits (rs : List Rule) (host : Host) (rw : Rewrite) :
    rw ∈ rewriteHits rs host ↔ ∃ d, Rule.rewrite d rw ∈ rs ∧ domMatch d host = true := by
  unfold rewriteHits
  simp only [List.mem_filterMap]
  constructor
  · rintro ⟨r, hr, h⟩
    cases r with
    | net d a ts => simp at h
    | rewrite d rw' =>
      simp only at h
      split at h
      · rename_i hc
        cases h
        exact ⟨d, hr, hc⟩
      · cases h
    | hosts v6 d => simp at h
  · rintro ⟨d, hr, h1⟩
    exact ⟨_, hr, by simp [h1]⟩

theorem mem_hostsHits (id : ListId) (rs : List Rule) (host : Host) (qt : QType) (v6 : Bool) (l : ListId) :
    l ∈ hostsHits id rs host qt v6 →
      l = id ∧ Rule.hosts v6 host ∈ rs ∧ netHits id rs host qt = [] := by
  unfold hostsHits
  split
  · rename_i hn
    simp only [List.mem_filterMap]
    rintro ⟨r, hr, h⟩
    cases r with
    | net d a ts => simp at h
    | rewrite d rw => simp at h
    | hosts f d =>
      simp only at h
      split at h
      · rename_i hc
        simp only [Bool.and_eq_true, beq_iff_eq] at hc
        cases h
        obtain ⟨h1, h2⟩ := hc
        subst h1; subst h2
        exact ⟨rfl, hr, by simpa using hn⟩
      · cases h
  · intro h; cases h

theorem terminal_mem (rws : List Rewrite) (x : Rewrite) (h : terminal rws = some x) : x ∈ rws := by
  induction rws with
  | nil => simp [terminal] at h
  | cons r rs ih =>
    cases r with
    | cname t => simp [terminal] at h; subst h; exact List.mem_cons_self ..
    | rcode rc => simp [terminal] at h; subst h; exact List.mem_cons_self ..
    | ip4 v => simp only [terminal] at h; exact List.mem_cons_of_mem _ (ih h)
    | ip6 v => simp only [terminal] at h; exact List.mem_cons_of_mem _ (ih h)
    | other t v => simp only [terminal] at h; exact List.mem_cons_of_mem _ (ih h)

/-- Rewrites that are present and do not send the name to itself always produce a verdict. -/
theorem processRewrites_ne_none (host : Host) (qt : QType) (rws : List Rewrite) (id : ListId)
    (hne : rws ≠ []) (hself : Rewrite.cname host ∉ rws) : processRewrites host qt rws id ≠ .none := by
  unfold processRewrites
  have : rws.isEmpty = false := by cases rws <;> simp_all
  simp only [this, Bool.false_eq_true, if_false]
  cases ht : terminal rws with
  | none => simp
  | some x =>
    cases x with
    | cname t =>
      have hm := terminal_mem _ _ ht
      have : (t == host) = false := by
        apply Bool.eq_false_iff.mpr
        intro he
        have := beq_iff_eq.mp he
        subst this
        exact hself hm
      simp [this]
    | rcode rc => simp
    | ip4 v => simp
    | ip6 v => simp
    | other t v => simp

theorem processRewrites_nil (host : Host) (qt : QType) (id : ListId) :
    processRewrites host qt [] id = .none := by
  simp [processRewrites]

theorem firstRewrite_none_of_no_hits (host : Host) (qt : QType) (srcs : List (ListId × List Rule))
    (h : ∀ p ∈ srcs, rewriteHits p.2 host = []) : firstRewrite host qt srcs = .none := by
  induction srcs with
  | nil => rfl
  | cons p rest ih =>
    obtain ⟨id, rs⟩ := p
    have h0 := h (id, rs) (List.mem_cons_self ..)
    simp only at h0
    simp only [firstRewrite, h0, processRewrites_nil]
    exact ih (fun q hq => h q (List.mem_cons_of_mem _ hq))

/-! ### `combined`: allow beats block, block blocks, for any list of sources -/

theorem combined_allow (srcs : List (ListId × List Rule)) (host : Host) (qt : QType)
    (hallow : ∃ y ∈ allNets srcs host qt, y.2.1 = true) :
    ∃ r ∈ allNets srcs host qt, r.2.1 = true ∧ combined srcs host qt = .allowed r.1 := by
  obtain ⟨r, hr, ha⟩ := basicFrom_allow (allNets srcs host qt) Option.none (Or.inr hallow)
  have hm : r ∈ allNets srcs host qt := by
    rcases basicFrom_mem _ _ _ hr with h | h
    · cases h
    · exact h
  refine ⟨r, hm, ha, ?_⟩
  unfold combined toInternal basicRule
  obtain ⟨id, al, n⟩ := r
  simp only at ha
  subst ha
  simp [hr]

theorem combined_block (srcs : List (ListId × List Rule)) (host : Host) (qt : QType)
    (hnoallow : ∀ y ∈ allNets srcs host qt, y.2.1 = false)
    (hblock : allNets srcs host qt ≠ [] ∨ allHosts srcs host qt false ≠ [] ∨ allHosts srcs host qt true ≠ []) :
    ∃ l, combined srcs host qt = .blocked l ∧
      ((∃ y ∈ allNets srcs host qt, y.1 = l) ∨ l ∈ allHosts srcs host qt false ∨ l ∈ allHosts srcs host qt true) := by
  unfold combined
  by_cases hn : allNets srcs host qt = []
  · unfold toInternal basicRule
    rw [hn]
    simp only [basicFrom]
    rcases hblock with h | h | h
    · exact absurd hn h
    · cases h4 : allHosts srcs host qt false with
      | nil => exact absurd h4 h
      | cons a as =>
        cases h6 : allHosts srcs host qt true with
        | nil => exact ⟨a, rfl, Or.inr (Or.inl (List.mem_cons_self ..))⟩
        | cons b bs =>
          by_cases hq : (qt == qtAAAA) = true
          · exact ⟨b, by simp [hq], Or.inr (Or.inr (List.mem_cons_self ..))⟩
          · exact ⟨a, by simp [hq], Or.inr (Or.inl (List.mem_cons_self ..))⟩
    · cases h6 : allHosts srcs host qt true with
      | nil => exact absurd h6 h
      | cons b bs =>
        cases h4 : allHosts srcs host qt false with
        | nil => exact ⟨b, rfl, Or.inr (Or.inr (List.mem_cons_self ..))⟩
        | cons a as =>
          by_cases hq : (qt == qtAAAA) = true
          · exact ⟨b, by simp [hq], Or.inr (Or.inr (List.mem_cons_self ..))⟩
          · exact ⟨a, by simp [hq], Or.inr (Or.inl (List.mem_cons_self ..))⟩
  · obtain ⟨r, hr, hf⟩ := basicFrom_block (allNets srcs host qt) Option.none
      (by intro x hx; cases hx) hnoallow (Or.inr hn)
    have hm : r ∈ allNets srcs host qt := by
      rcases basicFrom_mem _ _ _ hr with h | h
      · cases h
      · exact h
    obtain ⟨id, al, n⟩ := r
    simp only at hf
    subst hf
    exact ⟨id, by simp [toInternal, basicRule, hr], Or.inl ⟨_, hm, rfl⟩⟩

theorem combined_none (srcs : List (ListId × List Rule)) (host : Host) (qt : QType)
    (h1 : allNets srcs host qt = []) (h2 : allHosts srcs host qt false = [])
    (h3 : allHosts srcs host qt true = []) : combined srcs host qt = .none := by
  simp [combined, toInternal, basicRule, basicFrom, h1, h2, h3]

/-! ### `GetDNSBasicRule` picks the first rule of the highest priority -/

theorem higher_irrefl (a : NetHit) : higher a a = false := by
  obtain ⟨i, al, n⟩ := a
  cases al <;> simp [higher]

/-- `y ≤ b < x` gives `y < x`, hence not `y > x`. -/
theorem higher_false_of (y b x : NetHit) (h1 : higher y b = false) (h2 : higher x b = true) :
    higher y x = false := by
  obtain ⟨_, ya, yn⟩ := y; obtain ⟨_, ba, bn⟩ := b; obtain ⟨_, xa, xn⟩ := x
  cases ya <;> cases ba <;> cases xa <;> simp_all [higher] <;> omega

/-- `y ≤ b < x` gives `x > y`. -/
theorem higher_negtrans (y b x : NetHit) (h1 : higher y b = false) (h2 : higher x b = true) :
    higher x y = true := by
  obtain ⟨_, ya, yn⟩ := y; obtain ⟨_, ba, bn⟩ := b; obtain ⟨_, xa, xn⟩ := x
  cases ya <;> cases ba <;> cases xa <;> simp_all [higher] <;> omega

theorem basicFrom_first_max (b : NetHit) (done hits : List NetHit)
    (hmax : ∀ y ∈ done, higher y b = false)
    (hfirst : ∃ p1 p2, done = p1 ++ b :: p2 ∧ ∀ y ∈ p1, higher b y = true) :
    ∃ r, basicFrom (some b) hits = some r ∧ (∀ y ∈ done ++ hits, higher y r = false) ∧
      ∃ p1 p2, done ++ hits = p1 ++ r :: p2 ∧ ∀ y ∈ p1, higher r y = true := by
  induction hits generalizing b done with
  | nil =>
    refine ⟨b, rfl, by simpa using hmax, ?_⟩
    simpa using hfirst
  | cons x xs ih =>
    simp only [basicFrom]
    have hassoc : done ++ x :: xs = (done ++ [x]) ++ xs := by simp
    rw [hassoc]
    by_cases hx : higher x b = true
    · simp only [hx, if_true]
      apply ih
      · intro y hy
        rcases List.mem_append.mp hy with h | h
        · exact higher_false_of y b x (hmax y h) hx
        · simp at h; subst h; exact higher_irrefl _
      · exact ⟨done, [], rfl, fun y hy => higher_negtrans y b x (hmax y hy) hx⟩
    · have hx' : higher x b = false := by simpa using hx
      simp only [hx', Bool.false_eq_true, if_false]
      apply ih
      · intro y hy
        rcases List.mem_append.mp hy with h | h
        · exact hmax y h
        · simp at h; subst h; exact hx'
      · obtain ⟨p1, p2, hd, hp⟩ := hfirst
        exact ⟨p1, p2 ++ [x], by simp [hd], hp⟩

/-- **The deciding rule.**  `GetDNSBasicRule` returns a rule that no matching rule outranks
(allow over block, then more modifiers), and the earliest such one in source order. -/
theorem basicRule_first_max (hits : List NetHit) (hne : hits ≠ []) :
    ∃ r, basicRule hits = some r ∧ (∀ y ∈ hits, higher y r = false) ∧
      ∃ p1 p2, hits = p1 ++ r :: p2 ∧ ∀ y ∈ p1, higher r y = true := by
  cases hits with
  | nil => exact absurd rfl hne
  | cons x xs =>
    have := basicFrom_first_max x [x] xs
      (by intro y hy; simp at hy; subst hy; exact higher_irrefl _)
      ⟨[], [], rfl, by intro y hy; cases hy⟩
    simpa [basicRule, basicFrom] using this

/-! ### Case folding is a normal form -/

theorem toNat_ofNat_small (n : Nat) (h : n < 0xd800) : (Char.ofNat n).toNat = n := by
  simp [Char.ofNat, Char.toNat, Nat.isValidChar, h, Char.ofNatAux]

theorem lowerChar_idem (c : Char) : lowerChar (lowerChar c) = lowerChar c := by
  unfold lowerChar
  by_cases h : 'A' ≤ c ∧ c ≤ 'Z'
  · simp only [h, and_self, if_true]
    have h1 : 65 ≤ c.toNat := by
      have := h.1; simp [Char.le_def] at this; exact this
    have h2 : c.toNat ≤ 90 := by
      have := h.2; simp [Char.le_def] at this; exact this
    have hv : (Char.ofNat (c.toNat + 32)).toNat = c.toNat + 32 := toNat_ofNat_small _ (by omega)
    have hn : ¬ ('A' ≤ Char.ofNat (c.toNat + 32) ∧ Char.ofNat (c.toNat + 32) ≤ 'Z') := by
      intro hh
      have := hh.2
      simp [Char.le_def] at this
      have h3 := UInt32.le_iff_toNat_le.mp this
      have h4 : (Char.ofNat (c.toNat + 32)).val.toNat = c.toNat + 32 := hv
      rw [h4] at h3
      simp at h3
      omega
    simp [hn]
  · simp [h]

theorem lower_idem (s : String) : lower (lower s) = lower s := by
  unfold lower
  have : (lowerChar ∘ lowerChar) = lowerChar := by
    funext c; exact lowerChar_idem c
  simp [List.map_map, this]

theorem normName_idem (n : Host) : normName (normName n) = normName n := by
  unfold normName
  have : (lower ∘ lower) = lower := by
    funext s; exact lower_idem s
  simp [List.map_map, this]

/-! ## Round 4: wiring helpers -/

theorem lookup_setGroup_ne (l : List (String × GroupYaml)) (id id' : String) (g' : GroupYaml)
    (hne : id' ≠ id) :
    (l.map fun p => if p.1 == id' then (p.1, g') else p).lookup id = l.lookup id := by
  induction l with
  | nil => rfl
  | cons p tl ih =>
    obtain ⟨k, v⟩ := p
    by_cases hk : k = id'
    · subst hk
      have h1 : (id == k) = false := by simpa using (Ne.symm hne)
      simp only [List.map_cons, List.lookup_cons, beq_self_eq_true, ↓reduceIte, h1]
      exact ih
    · have hk' : (k == id') = false := by simpa using hk
      simp only [List.map_cons, List.lookup_cons, hk', Bool.false_eq_true, ↓reduceIte]
      cases (id == k)
      · exact ih
      · rfl

theorem hashVerdict_empty (id : ListId) (f : HashFilter) (host : Host) (qt : QType) :
    hashVerdict id (emptyHash f) host qt = .none := by
  simp [hashVerdict, emptyHash]

theorem ssVerdict_nil (id : ListId) (host : Host) (qt : QType) : ssVerdict id [] host qt = .none := by
  unfold ssVerdict
  split <;> simp [rewriteHits, processRewrites]

theorem pickKnown_nil (ids : List Nat) : pickKnown ([] : List (Nat × List Rule)) ids = [] := by
  induction ids with
  | nil => rfl
  | cons i tl ih => simp [pickKnown]

theorem firstSome_append (xs ys : List Verdict) :
    firstSome (xs ++ ys) = match firstSome xs with | .none => firstSome ys | v => v := by
  induction xs with
  | nil => simp [firstSome]
  | cons x xs ih => cases x <;> simp [firstSome, ih]

theorem firstSome_optV_none {α : Type} (cond : Bool) (E : α) (hv : α → Verdict) (hE : hv E = .none) :
    firstSome (optV (onlyIf cond E) hv) = .none := by
  cases cond <;> simp [onlyIf, optV, firstSome, hE]

end Agd.Filter
