import Agd.Model.Filter
/-! Helper lemmas for C02 (core Lean only). -/
namespace Agd.Filter

/-! ### `processRewrites` only ever yields nothing or a rewrite -/

theorem processRewrites_cases (host : Host) (qt : QType) (rws : List Rewrite) (id : ListId) :
    processRewrites host qt rws id = .none ∨ (processRewrites host qt rws id).isRewrite = true := by
  unfold processRewrites
  split
  · exact Or.inl rfl
  · split
    · split
      · exact Or.inl rfl
      · exact Or.inr rfl
    · exact Or.inr rfl
    · exact Or.inr rfl

theorem processRewrites_id (host : Host) (qt : QType) (rws : List Rewrite) (id : ListId) :
    processRewrites host qt rws id = .none ∨ (∃ t, processRewrites host qt rws id = .modReq id t) ∨
      ∃ rc vs, processRewrites host qt rws id = .modResp id rc vs := by
  unfold processRewrites
  split
  · exact Or.inl rfl
  · split
    · split
      · exact Or.inl rfl
      · exact Or.inr (Or.inl ⟨_, rfl⟩)
    · exact Or.inr (Or.inr ⟨_, _, rfl⟩)
    · exact Or.inr (Or.inr ⟨_, _, rfl⟩)

/-! ### `firstRewrite` -/

theorem firstRewrite_cases (host : Host) (qt : QType) (srcs : List (ListId × List Rule)) :
    firstRewrite host qt srcs = .none ∨ (firstRewrite host qt srcs).isRewrite = true := by
  induction srcs with
  | nil => exact Or.inl rfl
  | cons p rest ih =>
    obtain ⟨id, rs⟩ := p
    unfold firstRewrite
    rcases processRewrites_cases host qt (rewriteHits rs host) id with h | h
    · rw [h]; exact ih
    · right
      revert h
      cases processRewrites host qt (rewriteHits rs host) id <;> simp [Verdict.isRewrite]

theorem firstRewrite_split (host : Host) (qt : QType) (pre post : List (ListId × List Rule))
    (id : ListId) (rs : List Rule)
    (hpre : ∀ p ∈ pre, processRewrites host qt (rewriteHits p.2 host) p.1 = .none)
    (hne : processRewrites host qt (rewriteHits rs host) id ≠ .none) :
    firstRewrite host qt (pre ++ (id, rs) :: post) = processRewrites host qt (rewriteHits rs host) id := by
  induction pre with
  | nil =>
    simp only [List.nil_append, firstRewrite]
  | cons p pre ih =>
    obtain ⟨pid, prs⟩ := p
    have h0 := hpre (pid, prs) (List.mem_cons_self ..)
    simp only [List.cons_append, firstRewrite]
    simp only at h0
    rw [h0]
    exact ih (fun q hq => hpre q (List.mem_cons_of_mem _ hq))

/-! ### `basicRule` -/

theorem basicFrom_allow (hits : List NetHit) (b : Option NetHit)
    (h : (∃ x, b = some x ∧ x.2.1 = true) ∨ ∃ y ∈ hits, y.2.1 = true) :
    ∃ r, basicFrom b hits = some r ∧ r.2.1 = true := by
  induction hits generalizing b with
  | nil =>
    rcases h with ⟨x, hx, ha⟩ | ⟨y, hy, _⟩
    · exact ⟨x, by simp [basicFrom, hx], ha⟩
    · cases hy
  | cons r rs ih =>
    cases b with
    | none =>
      simp only [basicFrom]
      apply ih
      rcases h with ⟨x, hx, _⟩ | ⟨y, hy, ha⟩
      · cases hx
      · rcases List.mem_cons.mp hy with rfl | hy
        · exact Or.inl ⟨y, rfl, ha⟩
        · exact Or.inr ⟨y, hy, ha⟩
    | some b0 =>
      simp only [basicFrom]
      apply ih
      rcases h with ⟨x, hx, ha⟩ | ⟨y, hy, ha⟩
      · cases hx
        left
        by_cases hr : r.2.1 = true
        · refine ⟨_, rfl, ?_⟩
          split <;> assumption
        · refine ⟨_, rfl, ?_⟩
          have : higher r b0 = false := by simp [higher, hr, ha]
          simp [this, ha]
      · rcases List.mem_cons.mp hy with rfl | hy
        · left
          by_cases hb : b0.2.1 = true
          · refine ⟨_, rfl, ?_⟩
            split <;> assumption
          · refine ⟨_, rfl, ?_⟩
            have : higher y b0 = true := by simp [higher, hb, ha]
            simp [this, ha]
        · exact Or.inr ⟨y, hy, ha⟩

theorem basicFrom_block (hits : List NetHit) (b : Option NetHit)
    (hb : ∀ x, b = some x → x.2.1 = false) (hh : ∀ y ∈ hits, y.2.1 = false)
    (hne : b ≠ Option.none ∨ hits ≠ []) :
    ∃ r, basicFrom b hits = some r ∧ r.2.1 = false := by
  induction hits generalizing b with
  | nil =>
    cases b with
    | none => simp at hne
    | some x => exact ⟨x, rfl, hb x rfl⟩
  | cons r rs ih =>
    have hr := hh r (List.mem_cons_self ..)
    have hrs : ∀ y ∈ rs, y.2.1 = false := fun y hy => hh y (List.mem_cons_of_mem _ hy)
    cases b with
    | none =>
      simp only [basicFrom]
      exact ih _ (by intro x hx; cases hx; exact hr) hrs (Or.inl (by simp))
    | some b0 =>
      simp only [basicFrom]
      refine ih _ ?_ hrs (Or.inl (by simp))
      intro x hx
      cases hx
      split
      · exact hr
      · exact hb b0 rfl

theorem basicFrom_nil_none : basicFrom Option.none [] = Option.none := rfl

/-- The chosen basic rule is one of the hits. -/
theorem basicFrom_mem (hits : List NetHit) (b : Option NetHit) (r : NetHit)
    (h : basicFrom b hits = some r) : b = some r ∨ r ∈ hits := by
  induction hits generalizing b with
  | nil => left; simpa [basicFrom] using h
  | cons x xs ih =>
    cases b with
    | none =>
      simp only [basicFrom] at h
      rcases ih _ h with h1 | h1
      · cases h1; exact Or.inr (List.mem_cons_self ..)
      · exact Or.inr (List.mem_cons_of_mem _ h1)
    | some b0 =>
      simp only [basicFrom] at h
      rcases ih _ h with h1 | h1
      · by_cases hx : higher x b0 = true
        · simp [hx] at h1; subst h1; exact Or.inr (List.mem_cons_self ..)
        · simp [hx] at h1; subst h1; exact Or.inl rfl
      · exact Or.inr (List.mem_cons_of_mem _ h1)

/-! ### `combined` never rewrites -/

theorem toInternal_not_rewrite (nets : List NetHit) (h4 h6 : List ListId) (qt : QType) :
    (toInternal nets h4 h6 qt).isRewrite = false := by
  unfold toInternal
  split
  · split <;> rfl
  · split
    · rfl
    · rfl
    · rfl
    · split <;> rfl

/-! ### `firstSome` -/

theorem firstSome_split (pre post : List Verdict) (v : Verdict)
    (hpre : ∀ x ∈ pre, x = .none) (hv : v ≠ .none) : firstSome (pre ++ v :: post) = v := by
  induction pre with
  | nil => cases v <;> simp_all [firstSome]
  | cons x xs ih =>
    have := hpre x (List.mem_cons_self ..)
    subst this
    simp only [List.cons_append, firstSome]
    exact ih (fun y hy => hpre y (List.mem_cons_of_mem _ hy))

theorem firstSome_all_none (vs : List Verdict) (h : ∀ x ∈ vs, x = .none) : firstSome vs = .none := by
  induction vs with
  | nil => rfl
  | cons x xs ih =>
    have := h x (List.mem_cons_self ..)
    subst this
    simp only [firstSome]
    exact ih (fun y hy => h y (List.mem_cons_of_mem _ hy))

theorem firstSome_mem (vs : List Verdict) : firstSome vs = .none ∨ firstSome vs ∈ vs := by
  induction vs with
  | nil => exact Or.inl rfl
  | cons x xs ih =>
    cases x with
    | none =>
      simp only [firstSome]
      rcases ih with h | h
      · exact Or.inl h
      · exact Or.inr (List.mem_cons_of_mem _ h)
    | allowed l => exact Or.inr (by simp [firstSome])
    | blocked l => exact Or.inr (by simp [firstSome])
    | modReq l t => exact Or.inr (by simp [firstSome])
    | modResp l rc vs => exact Or.inr (by simp [firstSome])

/-- No request filter ever blocks or allows: each yields nothing or a rewrite. -/
theorem reqFilterVerdicts_shape (c : Cfg) (host : Host) (qt : QType) :
    ∀ v ∈ reqFilterVerdicts c host qt, v = .none ∨ v.isRewrite = true := by
  intro v hv
  have hash : ∀ id f, hashVerdict id f host qt = .none ∨ (hashVerdict id f host qt).isRewrite = true := by
    intro id f
    unfold hashVerdict
    split
    · exact Or.inr rfl
    · exact Or.inl rfl
  have ss : ∀ id rs, ssVerdict id rs host qt = .none ∨ (ssVerdict id rs host qt).isRewrite = true := by
    intro id rs
    unfold ssVerdict
    split
    · exact processRewrites_cases ..
    · exact Or.inl rfl
  unfold reqFilterVerdicts at hv
  simp only [List.mem_append] at hv
  rcases hv with (((h | h) | h) | h) | h
  · cases hc : c.sb <;> simp [optV, hc] at h; subst h; exact hash ..
  · cases hc : c.adult <;> simp [optV, hc] at h; subst h; exact hash ..
  · cases hc : c.genSS <;> simp [optV, hc] at h; subst h; exact ss ..
  · cases hc : c.ytSS <;> simp [optV, hc] at h; subst h; exact ss ..
  · cases hc : c.newReg <;> simp [optV, hc] at h; subst h; exact hash ..

end Agd.Filter
