import Agd.Lemmas.Ratelimit
import Agd.Model.RatelimitHist
/-! Whole request histories through the middleware refine the declarative specification. -/
namespace Agd.Ratelimit

/-! ## Clock readings of a `CountResponses` loop -/

/-- Stamps are positive and non-decreasing, starting from `T`. -/
def IChain : Int → List Int → Prop
  | _, [] => True
  | T, t :: r => 0 < t ∧ T ≤ t ∧ IChain t r

theorem range'_chain (now tick : Int) (hnow : 0 < now) (htick : 0 ≤ tick) :
    ∀ (n s : Nat), IChain (now + tick * (s : Int))
      ((List.range' s n).map (fun (i : Nat) => now + tick * ((i : Int) + 1))) := by
  intro n
  induction n with
  | zero => intro s; simp [IChain]
  | succ n ih =>
    intro s
    have e : ((s + 1 : Nat) : Int) = (s : Int) + 1 := by omega
    have hm : tick * ((s : Int) + 1) = tick * (s : Int) + tick := by
      rw [Int.mul_add, Int.mul_one]
    have hnn : 0 ≤ tick * (s : Int) := Int.mul_nonneg htick (by omega)
    have := ih (s + 1)
    rw [e] at this
    simp only [List.range'_succ, List.map_cons, IChain]
    refine ⟨by omega, by omega, this⟩

/-- The loop's clock readings form a chain from the request time. -/
theorem loopTimes_chain (now tick : Int) (n : Nat) (hnow : 0 < now) (htick : 0 ≤ tick) :
    IChain now (loopTimes now tick n) := by
  have := range'_chain now tick hnow htick n 0
  unfold loopTimes
  rw [List.range_eq_range']
  simpa using this

/-- Every clock reading of the loop is at most `now + tick * n`. -/
theorem loopTimes_le (now tick : Int) (n : Nat) (htick : 0 ≤ tick) :
    ∀ t ∈ loopTimes now tick n, t ≤ now + tick * (n : Int) := by
  intro t ht
  unfold loopTimes at ht
  simp only [List.mem_map, List.mem_range] at ht
  obtain ⟨i, hi, rfl⟩ := ht
  have : tick * ((i : Int) + 1) ≤ tick * (n : Int) :=
    Int.mul_le_mul_of_nonneg_left (by omega) htick
  omega

/-- The stamps a response of `resp` bytes is weighed into. -/
def respTimes (now tick : Int) (est : Nat) (resp : Option Nat) : List Int :=
  match resp with
  | none => []
  | some l => loopTimes now tick (l / est)

theorem respEvents_eq (now tick : Int) (est : Nat) (a : Addr) (q : Nat) (resp : Option Nat) :
    respEvents now tick est a q resp = (respTimes now tick est resp).map (fun t => ⟨t, a, q⟩) := by
  cases resp <;> rfl

theorem respEvents_now (now tick : Int) (est : Nat) (a : Addr) (q : Nat) (resp : Option Nat) :
    (respEvents now tick est a q resp).map (·.now) = respTimes now tick est resp := by
  rw [respEvents_eq, List.map_map]
  simp [Function.comp_def]

/-- The time by which the request's `CountResponses` loop has certainly finished. -/
def mwEnd (r : MReq) : Int := r.now + r.tick * ((r.resp.getD 0 : Nat) : Int)

theorem mwEnd_ge (r : MReq) (htick : 0 ≤ r.tick) : r.now ≤ mwEnd r := by
  have : 0 ≤ r.tick * ((r.resp.getD 0 : Nat) : Int) := Int.mul_nonneg htick (by omega)
  unfold mwEnd; omega

theorem respTimes_chain (r : MReq) (est : Nat) (hnow : 0 < r.now) (htick : 0 ≤ r.tick) :
    IChain r.now (respTimes r.now r.tick est r.resp) ∧
    ∀ t ∈ respTimes r.now r.tick est r.resp, t ≤ mwEnd r := by
  unfold respTimes mwEnd
  cases r.resp with
  | none => exact ⟨trivial, fun t ht => by cases ht⟩
  | some l =>
    refine ⟨loopTimes_chain _ _ _ hnow htick, ?_⟩
    intro t ht
    have h1 := loopTimes_le r.now r.tick (l / est) htick t ht
    have h2 : ((l / est : Nat) : Int) ≤ (l : Int) := Int.ofNat_le.mpr (Nat.div_le_self l est)
    have h3 : r.tick * ((l / est : Nat) : Int) ≤ r.tick * (l : Int) :=
      Int.mul_le_mul_of_nonneg_left h2 htick
    simp only [Option.getD_some]
    omega

/-! ## Log invariant -/

/-- A log is non-increasing with positive stamps not after `T`. -/
def LogInv (l : List Int) (T : Int) : Prop := Desc l ∧ ∀ x ∈ l, 0 < x ∧ x ≤ T

theorem logInv_mono {l : List Int} {T U : Int} (h : LogInv l T) (hTU : T ≤ U) : LogInv l U :=
  ⟨h.1, fun x hx => ⟨(h.2 x hx).1, Int.le_trans (h.2 x hx).2 hTU⟩⟩

theorem logInv_cons {l : List Int} {T t : Int} (h : LogInv l T) (hpos : 0 < t) (hT : T ≤ t) :
    LogInv (t :: l) t := by
  refine ⟨desc_cons h.1 (fun x hx => Int.le_trans (h.2 x hx).2 hT), ?_⟩
  intro x hx
  cases hx with
  | head => exact ⟨hpos, Int.le_refl _⟩
  | tail _ hx' => exact ⟨(h.2 x hx').1, Int.le_trans (h.2 x hx').2 hT⟩

/-- Consing a chain of stamps, one after the other, keeps the log invariant. -/
theorem logInv_fold : ∀ (ts : List Int) (l : List Int) (T U : Int), LogInv l T → IChain T ts →
    (∀ t ∈ ts, t ≤ U) → T ≤ U → LogInv (ts.reverse ++ l) U := by
  intro ts
  induction ts with
  | nil => intro l T U h _ _ hTU; simpa using logInv_mono h hTU
  | cons t r ih =>
    intro l T U h hc hU _
    obtain ⟨hpos, hT, hrest⟩ := hc
    have := ih (t :: l) t U (logInv_cons h hpos hT) hrest
      (fun x hx => hU x (List.mem_cons_of_mem _ hx)) (hU t (by simp))
    simpa using this

theorem eTimeInv_mono {sp : ESpec} {T U : Int} (h : ETimeInv sp T) (hTU : T ≤ U) : ETimeInv sp U :=
  fun k => logInv_mono (h k) hTU

/-! ## The global limiter over a response's events -/

theorem countResponses_cons (c : Cfg) (s : St) (t : Int) (ts : List Int) (a : Addr) (q : Nat) :
    countResponses c s (t :: ts) a q = countResponses c (isRateLimited c s t a q).1 ts a q := rfl

theorem especFold_cons (c : Cfg) (sp : ESpec) (e : Ev) (es : List Ev) :
    especFold c sp (e :: es) = especFold c (especStep c sp e).1 es := rfl

/-- `CountResponses` on the real limiter is the specification's fold over the response's events;
the simulation relation survives and every logged stamp is at most `U`. -/
theorem countResponses_sim (c : Cfg) (h4 : 0 ≤ c.v4ivl) (h6 : 0 ≤ c.v6ivl) (a : Addr) (q : Nat) :
    ∀ (ts : List Int) (s : St) (sp : ESpec) (T U : Int),
      (∀ k, ESimK c s sp k) → ETimeInv sp T → IChain T ts → (∀ t ∈ ts, t ≤ U) → T ≤ U →
      (∀ k, ESimK c (countResponses c s ts a q)
        (especFold c sp (ts.map (fun t => (⟨t, a, q⟩ : Ev)))) k) ∧
      ETimeInv (especFold c sp (ts.map (fun t => (⟨t, a, q⟩ : Ev)))) U := by
  intro ts
  induction ts with
  | nil =>
    intro s sp T U hs ht _ _ hTU
    exact ⟨hs, eTimeInv_mono ht hTU⟩
  | cons t r ih =>
    intro s sp T U hs ht hc hU _
    obtain ⟨hpos, hT, hrest⟩ := hc
    obtain ⟨_, hs', ht'⟩ := esim_step c s sp ⟨t, a, q⟩ T h4 h6 hs ht hpos hT
    rw [countResponses_cons, List.map_cons, especFold_cons]
    exact ih _ _ t U hs' ht' hrest (fun x hx => hU x (List.mem_cons_of_mem _ hx)) (hU t (by simp))

/-- The global path of one request: same effect, simulation kept, stamps bounded by the end of the
request's loop, the profiles' specification state untouched. -/
theorem serveGlobal_sim (c : Cfg) (h4 : 0 ≤ c.v4ivl) (h6 : 0 ≤ c.v6ivl) (g : St) (hs : HSpec)
    (r : MReq) (T : Int) (hsim : ∀ k, ESimK c g hs.glob k) (ht : ETimeInv hs.glob T)
    (hpos : 0 < r.now) (hT : T ≤ r.now) (htick : 0 ≤ r.tick) :
    (serveGlobal c g r.now r.tick r.addr r.qtype r.resp).2 = (mwSpecGlobal c hs r).2 ∧
    (∀ k, ESimK c (serveGlobal c g r.now r.tick r.addr r.qtype r.resp).1 (mwSpecGlobal c hs r).1.glob k) ∧
    ETimeInv (mwSpecGlobal c hs r).1.glob (mwEnd r) ∧
    (mwSpecGlobal c hs r).1.profs = hs.profs := by
  obtain ⟨hv, hs', ht'⟩ := esim_step c g hs.glob ⟨r.now, r.addr, r.qtype⟩ T h4 h6 hsim ht hpos hT
  have hend := mwEnd_ge r htick
  have ht'' := eTimeInv_mono ht' hend
  obtain ⟨hch, hub⟩ := respTimes_chain r c.est hpos htick
  have hfold := countResponses_sim c h4 h6 r.addr r.qtype (respTimes r.now r.tick c.est r.resp) _ _
    r.now (mwEnd r) hs' ht' hch hub hend
  simp only [] at hv hs' ht' ht'' hfold
  unfold serveGlobal mwSpecGlobal
  rw [respEvents_eq]
  generalize isRateLimited c g r.now r.addr r.qtype = x at *
  obtain ⟨g', v⟩ := x
  simp only [] at hv hs' hfold
  rw [← hv]
  cases v
  · exact ⟨rfl, hs', ht'', rfl⟩
  · exact ⟨rfl, hs', ht'', rfl⟩
  · simp only []
    cases hr : r.resp with
    | none =>
      rw [hr] at hfold
      exact ⟨by trivial, hfold.1, hfold.2, by trivial⟩
    | some l =>
      rw [hr] at hfold
      exact ⟨by trivial, hfold.1, hfold.2, by trivial⟩

/-! ## The profile limiter -/

/-- The real limiter a profile's declarative state stands for. -/
def PSpec.toLim (p : PSpec) : ProfLim :=
  { subnets := p.subnets, ctr := { num := p.rps, ivl := 1000000000, hist := p.log }, est := p.est }

theorem toLim_gate (p : PSpec) (a : Addr) :
    (!p.toLim.subnets.isEmpty && !(p.toLim.subnets.any (fun s => s.contains a))) = !p.covers a := by
  simp [PSpec.toLim, PSpec.covers]

/-- A covered client's request or response unit is consed onto the log. -/
theorem toLim_check_state (p : PSpec) (t : Int) (a : Addr) (hcov : p.covers a = true) :
    (p.toLim.check t a).1 = ({ p with log := t :: p.log } : PSpec).toLim := by
  have hg := toLim_gate p a
  rw [hcov] at hg
  unfold ProfLim.check
  rw [hg]
  simp [PSpec.toLim, Counter.add]

/-- The profile's check against its one-second window log. -/
theorem toLim_check (p : PSpec) (t : Int) (a : Addr) (T : Int) (hinv : LogInv p.log T)
    (hpos : 0 < t) (hT : T ≤ t) (hcov : p.covers a = true) :
    p.toLim.check t a =
      (({ p with log := t :: p.log } : PSpec).toLim,
        if aboveSpec p.rps 1000000000 p.log t then .drop else .pass) := by
  have hg := toLim_gate p a
  rw [hcov] at hg
  rw [profCheck_sim p.toLim t a T (by simp [PSpec.toLim]) hinv.1 hinv.2 hpos hT, hg]
  simp only [Bool.not_true, Bool.false_eq_true, if_false]
  rfl

theorem toLim_uncovered (p : PSpec) (t : Int) (a : Addr) (hcov : p.covers a = false) :
    p.toLim.check t a = (p.toLim, .useGlobal) := by
  have hg := toLim_gate p a
  rw [hcov] at hg
  unfold ProfLim.check
  rw [hg]
  simp

theorem profCount_cons (p : ProfLim) (t : Int) (ts : List Int) (a : Addr) :
    p.countResponses (t :: ts) a = (p.check t a).1.countResponses ts a := rfl

/-- `CountResponses` on a profile's limiter logs the loop's stamps. -/
theorem toLim_countResponses (a : Addr) : ∀ (ts : List Int) (p : PSpec), p.covers a = true →
    p.toLim.countResponses ts a = ({ p with log := ts.reverse ++ p.log } : PSpec).toLim := by
  intro ts
  induction ts with
  | nil => intro p _; rfl
  | cons t r ih =>
    intro p hcov
    rw [profCount_cons, toLim_check_state p t a hcov, ih _ (by simpa [PSpec.covers] using hcov)]
    simp

/-! ## `serve` case by case -/

theorem serve_unlimited (c : Cfg) (m : MwSt) (now tick : Int) (a : Addr) (q : Nat) (resp : Option Nat) :
    serve c false m now tick a q resp = (m, .servedNoCount) := by
  simp [serve]

theorem serve_none (c : Cfg) (g : St) (now tick : Int) (a : Addr) (q : Nat) (resp : Option Nat) :
    serve c true { glob := g, prof := none } now tick a q resp =
      ({ glob := (serveGlobal c g now tick a q resp).1, prof := none },
        (serveGlobal c g now tick a q resp).2) := by
  simp [serve]

theorem serve_uncovered (c : Cfg) (g : St) (p : PSpec) (now tick : Int) (a : Addr) (q : Nat)
    (resp : Option Nat) (hcov : p.covers a = false) :
    serve c true { glob := g, prof := some p.toLim } now tick a q resp =
      ({ glob := (serveGlobal c g now tick a q resp).1, prof := some p.toLim },
        (serveGlobal c g now tick a q resp).2) := by
  simp [serve, toLim_uncovered p now a hcov]

theorem serve_covered (c : Cfg) (g : St) (p : PSpec) (now tick : Int) (a : Addr) (q : Nat)
    (resp : Option Nat) (T : Int) (hinv : LogInv p.log T) (hpos : 0 < now) (hT : T ≤ now)
    (hcov : p.covers a = true) :
    serve c true { glob := g, prof := some p.toLim } now tick a q resp =
      if aboveSpec p.rps 1000000000 p.log now then
        ({ glob := g, prof := some ({ p with log := now :: p.log } : PSpec).toLim }, .dropped)
      else
        ({ glob := g, prof := some ({ p with log := (respTimes now tick p.est resp).reverse ++
            now :: p.log } : PSpec).toLim }, .servedCounted) := by
  have hcov' : ({ p with log := now :: p.log } : PSpec).covers a = true := by
    simpa [PSpec.covers] using hcov
  unfold serve
  simp only [Bool.not_true, Bool.false_eq_true, if_false, toLim_check p now a T hinv hpos hT hcov]
  by_cases hab : aboveSpec p.rps 1000000000 p.log now = true
  · simp [hab]
  · simp only [hab, if_false, Bool.false_eq_true]
    cases resp with
    | none => simp [respTimes]
    | some l =>
      simp only [respTimes, respWeight]
      rw [toLim_countResponses a _ _ hcov']
      rfl

/-! ## One request -/

/-- The joint invariant between the real middleware state and the specification state. -/
structure HSim (c : Cfg) (h : HSt) (hs : HSpec) (T : Int) : Prop where
  glob : ∀ k, ESimK c h.glob hs.glob k
  gtime : ETimeInv hs.glob T
  profs : ∀ id, h.profs id = (hs.profs id).map PSpec.toLim
  ptime : ∀ id p, hs.profs id = some p → LogInv p.log T

theorem mwStep_of_serve (c : Cfg) (h : HSt) (r : MReq) (lim : Bool) (o : Option ProfLim)
    (m' : MwSt) (eff : Effect) (hl : r.limited = lim) (ho : r.prof.bind h.profs = o)
    (hserve : serve c lim { glob := h.glob, prof := o } r.now r.tick r.addr
      r.qtype r.resp = (m', eff)) :
    mwStep c h r =
      ({ glob := m'.glob
         profs := match r.prof, m'.prof with
           | some id, some p' => fun i => if i = id then some p' else h.profs i
           | _, _ => h.profs }, eff) := by
  unfold mwStep
  rw [hl, ho, hserve]
  rfl

/-- The global path inside `mwStep`, whatever the profile's limiter was (it is stored back as is). -/
theorem mw_step_global (c : Cfg) (h4 : 0 ≤ c.v4ivl) (h6 : 0 ≤ c.v6ivl) (h : HSt) (hs : HSpec)
    (r : MReq) (T : Int) (H : HSim c h hs T) (hpos : 0 < r.now) (hT : T ≤ r.now)
    (htick : 0 ≤ r.tick) (lim : Bool) (o0 o : Option ProfLim)
    (hl : r.limited = lim) (hb : r.prof.bind h.profs = o0)
    (ho : ∀ id p', r.prof = some id → o = some p' → h.profs id = some p')
    (hserve : serve c lim { glob := h.glob, prof := o0 } r.now r.tick r.addr r.qtype r.resp =
        ({ glob := (serveGlobal c h.glob r.now r.tick r.addr r.qtype r.resp).1, prof := o },
          (serveGlobal c h.glob r.now r.tick r.addr r.qtype r.resp).2)) :
    (mwStep c h r).2 = (mwSpecGlobal c hs r).2 ∧
    HSim c (mwStep c h r).1 (mwSpecGlobal c hs r).1 (mwEnd r) := by
  obtain ⟨hv, hsim, htime, hprofs⟩ := serveGlobal_sim c h4 h6 h.glob hs r T H.glob H.gtime hpos hT htick
  have hend := mwEnd_ge r htick
  rw [mwStep_of_serve c h r lim o0 _ _ hl hb hserve]
  refine ⟨hv, ⟨hsim, htime, ?_, ?_⟩⟩
  · intro i
    rw [hprofs, ← H.profs i]
    simp only []
    cases hp : r.prof with
    | none => rfl
    | some id =>
      cases hoo : o with
      | none => rfl
      | some p' =>
        simp only []
        by_cases hi : i = id
        · rw [if_pos hi, hi, ho id p' hp hoo]
        · rw [if_neg hi]
  · intro id p hp
    rw [hprofs] at hp
    exact logInv_mono (H.ptime id p hp) (Int.le_trans hT hend)

theorem mw_step_sim (c : Cfg) (h4 : 0 ≤ c.v4ivl) (h6 : 0 ≤ c.v6ivl) (h : HSt) (hs : HSpec)
    (r : MReq) (T : Int) (H : HSim c h hs T) (hpos : 0 < r.now) (hT : T ≤ r.now)
    (htick : 0 ≤ r.tick) :
    (mwStep c h r).2 = (mwSpecStep c hs r).2 ∧
    HSim c (mwStep c h r).1 (mwSpecStep c hs r).1 (mwEnd r) := by
  have hend := mwEnd_ge r htick
  have hTend : T ≤ mwEnd r := Int.le_trans hT hend
  cases hlim : r.limited with
  | false =>
    rw [mwStep_of_serve c h r false _ _ _ hlim rfl (serve_unlimited c _ r.now r.tick
      r.addr r.qtype r.resp)]
    unfold mwSpecStep
    simp only [hlim, Bool.not_false, if_true]
    refine ⟨by trivial, ⟨H.glob, eTimeInv_mono H.gtime hTend, ?_, ?_⟩⟩
    · intro i
      rw [← H.profs i]
      simp only []
      cases hp : r.prof with
      | none => rfl
      | some id =>
        simp only [Option.bind_some]
        cases hh : h.profs id with
        | none => rfl
        | some p' =>
          simp only []
          by_cases hi : i = id
          · rw [if_pos hi, hi, hh]
          · rw [if_neg hi]
    · intro id p hp
      exact logInv_mono (H.ptime id p hp) hTend
  | true =>
    unfold mwSpecStep
    simp only [hlim, Bool.not_true, Bool.false_eq_true, if_false]
    cases hp : r.prof with
    | none =>
      simp only []
      apply mw_step_global c h4 h6 h hs r T H hpos hT htick true none none hlim (by rw [hp]; rfl)
      · intro id p' _ hn; cases hn
      · exact serve_none c h.glob r.now r.tick r.addr r.qtype r.resp
    | some id =>
      simp only []
      have hpid := H.profs id
      cases hps : hs.profs id with
      | none =>
        simp only []
        rw [hps] at hpid
        apply mw_step_global c h4 h6 h hs r T H hpos hT htick true none none hlim
          (by rw [hp, Option.bind_some, hpid]; rfl)
        · intro id p' _ hn; cases hn
        · exact serve_none c h.glob r.now r.tick r.addr r.qtype r.resp
      | some p =>
        simp only []
        rw [hps] at hpid
        simp only [Option.map_some] at hpid
        have hbind : r.prof.bind h.profs = some p.toLim := by rw [hp, Option.bind_some, hpid]
        cases hcov : p.covers r.addr with
        | false =>
          simp only [Bool.not_false, if_true]
          apply mw_step_global c h4 h6 h hs r T H hpos hT htick true (some p.toLim) (some p.toLim)
            hlim hbind
          · intro id' p' hid hn
            rw [hp] at hid
            cases hid; cases hn
            exact hpid
          · exact serve_uncovered c h.glob p r.now r.tick r.addr r.qtype r.resp hcov
        | true =>
          simp only [Bool.not_true, Bool.false_eq_true, if_false]
          have hinv := H.ptime id p hps
          have hserve := serve_covered c h.glob p r.now r.tick r.addr r.qtype r.resp T hinv hpos hT hcov
          obtain ⟨hch, hub⟩ := respTimes_chain r p.est hpos htick
          by_cases hab : aboveSpec p.rps 1000000000 p.log r.now = true
          · simp only [hab, if_true] at hserve ⊢
            rw [mwStep_of_serve c h r true _ _ _ hlim hbind hserve]
            refine ⟨by trivial, ⟨H.glob, eTimeInv_mono H.gtime hTend, ?_, ?_⟩⟩
            · intro i
              simp only [hp]
              by_cases hi : i = id
              · simp [hi]
              · simp [hi, H.profs i]
            · intro i q hq
              simp only [] at hq
              by_cases hi : i = id
              · simp only [hi, if_true, Option.some.injEq] at hq
                rw [← hq]
                exact logInv_mono (logInv_cons hinv hpos hT) hend
              · simp only [hi, if_false] at hq
                exact logInv_mono (H.ptime i q hq) hTend
          · simp only [hab, if_false, Bool.false_eq_true] at hserve ⊢
            rw [mwStep_of_serve c h r true _ _ _ hlim hbind hserve]
            rw [respEvents_now]
            refine ⟨by trivial, ⟨H.glob, eTimeInv_mono H.gtime hTend, ?_, ?_⟩⟩
            · intro i
              simp only [hp]
              by_cases hi : i = id
              · simp [hi]
              · simp [hi, H.profs i]
            · intro i q hq
              simp only [] at hq
              by_cases hi : i = id
              · simp only [hi, if_true, Option.some.injEq] at hq
                rw [← hq]
                exact logInv_fold _ _ r.now (mwEnd r) (logInv_cons hinv hpos hT) hch hub hend
              · simp only [hi, if_false] at hq
                exact logInv_mono (H.ptime i q hq) hTend

/-! ## Whole histories -/

theorem mw_run_sim (c : Cfg) (h4 : 0 ≤ c.v4ivl) (h6 : 0 ≤ c.v6ivl) :
    ∀ (reqs : List MReq) (h : HSt) (hs : HSpec) (T : Int), HSim c h hs T → MChain T reqs →
      mwRun c h reqs = mwSpecRun c hs reqs := by
  intro reqs
  induction reqs with
  | nil => intro _ _ _ _ _; rfl
  | cons r rest ih =>
    intro h hs T H hch
    obtain ⟨hpos, hT, htick, hrest⟩ := hch
    obtain ⟨hv, H'⟩ := mw_step_sim c h4 h6 h hs r T H hpos hT htick
    simp only [mwRun, mwSpecRun]
    rw [hv, ih _ _ (mwEnd r) H' hrest]

theorem hsim_init (c : Cfg) (profs : Nat → Option PSpec)
    (hfresh : ∀ id p, profs id = some p → p.log = []) :
    HSim c (HSt.init profs) { glob := ESpec.empty, profs := profs } 0 := by
  refine ⟨?_, ?_, ?_, ?_⟩
  · intro k; simp [ESimK, HSt.init, St.empty, ESpec.empty]
  · intro k; exact ⟨trivial, fun x hx => by cases hx⟩
  · intro id
    simp only [HSt.init]
    cases hp : profs id with
    | none => rfl
    | some p => simp [PSpec.toLim, Counter.new, hfresh id p hp]
  · intro id p hp
    rw [hfresh id p hp]
    exact ⟨trivial, fun x hx => by cases hx⟩

/-- **mw_history_refines_spec.** Over every time-ordered history of requests, what the clients of the
real middleware see is exactly what the declarative specification says. -/
theorem mw_history_refines_spec (c : Cfg) (h4 : 0 ≤ c.v4ivl) (h6 : 0 ≤ c.v6ivl)
    (profs : Nat → Option PSpec) (hfresh : ∀ id p, profs id = some p → p.log = [])
    (reqs : List MReq) (hch : MChain 0 reqs) :
    mwRun c (HSt.init profs) reqs = mwSpecRun c { glob := ESpec.empty, profs := profs } reqs :=
  mw_run_sim c h4 h6 reqs _ _ 0 (hsim_init c profs hfresh) hch

/-! ## A concrete history (non-vacuity) -/

/-- Two queries per second per /24, backoff after three hits, 100-byte response estimate, ANY
refused, 192.0.2.0/24 allowlisted. -/
def exCfgH : Cfg :=
  { count := 3, period := 0, duration := 0, est := 100,
    v4count := 2, v4ivl := 1000000000, v4len := 24,
    v6count := 2, v6ivl := 1000000000, v6len := 48,
    refuseAny := true, allow := [⟨true, 0xC0000200, 24⟩] }

/-- Profile 7 has its own limit of one query per second for every client; no other profile has. -/
def exProfs : Nat → Option PSpec := fun id =>
  if id = 7 then some { rps := 1, subnets := [], est := 100, log := [] } else none

def exA : Addr := ⟨true, 0x0A000001⟩
def exB : Addr := ⟨true, 0x0A000101⟩
def exC : Addr := ⟨true, 0xC0000205⟩
def exD : Addr := ⟨true, 0x0A000201⟩

/-- 1: profile 7's client, passes (first in its second).  2: same client one microsecond later,
dropped by the profile's limit.  3: a client without a profile, passes, its 250-byte response weighs
two further events (at 3010 and 3020).  4: the same client again: three stamps in the window against
a limit of two, dropped.  5: the same client over a protocol that is not rate limited, served.
6: an allowlisted client, served and not counted.  7: a client of profile 9, which has no limit of
its own, judged (and passed) by the global limiter. -/
def exReqs : List MReq :=
  [ { now := 1000, tick := 1, limited := true, addr := exA, qtype := 1, resp := some 50, prof := some 7 },
    { now := 2000, tick := 1, limited := true, addr := exA, qtype := 1, resp := some 50, prof := some 7 },
    { now := 3000, tick := 10, limited := true, addr := exB, qtype := 1, resp := some 250, prof := none },
    { now := 6000, tick := 1, limited := true, addr := exB, qtype := 1, resp := some 50, prof := none },
    { now := 7000, tick := 1, limited := false, addr := exB, qtype := 1, resp := some 50, prof := none },
    { now := 8000, tick := 1, limited := true, addr := exC, qtype := 1, resp := some 5000, prof := none },
    { now := 14000, tick := 1, limited := true, addr := exD, qtype := 1, resp := none, prof := some 9 } ]

theorem exReqs_chain : MChain 0 exReqs := by
  simp [MChain, exReqs]

theorem exProfs_fresh : ∀ id p, exProfs id = some p → p.log = [] := by
  intro id p h
  unfold exProfs at h
  split at h
  · cases h; rfl
  · cases h

example : MChain 0 exReqs ∧
    mwSpecRun exCfgH ⟨ESpec.empty, exProfs⟩ exReqs =
      [.servedCounted, .dropped, .servedCounted, .dropped, .servedNoCount, .servedNoCount,
        .servedCounted] :=
  ⟨exReqs_chain, by decide⟩

/-- The same history without the large response: request 4 is served. -/
example :
    mwSpecRun exCfgH ⟨ESpec.empty, exProfs⟩
      [ { now := 3000, tick := 10, limited := true, addr := exB, qtype := 1, resp := some 50, prof := none },
        { now := 6000, tick := 1, limited := true, addr := exB, qtype := 1, resp := some 50, prof := none } ] =
      [.servedCounted, .servedCounted] := by decide

/-- The theorem applied: the real middleware, run on its real state, gives these effects. -/
example :
    mwRun exCfgH (HSt.init exProfs) exReqs =
      [.servedCounted, .dropped, .servedCounted, .dropped, .servedNoCount, .servedNoCount,
        .servedCounted] := by
  rw [mw_history_refines_spec exCfgH (by decide) (by decide) exProfs exProfs_fresh exReqs exReqs_chain]
  decide

/-- Round 5: a transparent request is served and changes nothing, in any state. -/
theorem mwStep_transparent (c : Cfg) (h : HSt) (r : MReq) (ht : transparent c r = true) :
    mwStep c h r = (h, .servedNoCount) := by
  unfold transparent at ht
  simp only [Bool.and_eq_true, Bool.not_eq_true', Option.isNone_iff_eq_none] at ht
  obtain ⟨⟨⟨hl, hp⟩, hal⟩, hq⟩ := ht
  have hg : ∀ g, isRateLimited c g r.now r.addr r.qtype = (g, .allowlisted) := by
    intro g
    unfold isRateLimited
    simp [hq, hal]
  unfold mwStep
  simp [hp, hl, serve, serveGlobal, hg]

end Agd.Ratelimit

#print axioms Agd.Ratelimit.mw_history_refines_spec
