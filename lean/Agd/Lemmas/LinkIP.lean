import Agd.Model.LinkIP
/-! Helper lemmas for C19: split/join round trips, `SplitN` vs `Split`, the dot-segment normaliser
on dot-free input, path joining, header-list algebra. -/
namespace Agd.LinkIP

/-! ### split / join / cut -/

theorem split_ne_nil (s : Str) : split s ≠ [] := by
  cases s with
  | nil => simp [split]
  | cons c r =>
    unfold split
    split
    · simp
    · split <;> simp

theorem join_cons_cons (c : Char) (h : Str) (t : List Str) : join ((c :: h) :: t) = c :: join (h :: t) := by
  cases t <;> simp [join]

theorem join_split (s : Str) : join (split s) = s := by
  induction s with
  | nil => simp [split, join]
  | cons c r ih =>
    unfold split
    split
    · next hc =>
      subst hc
      have hne := split_ne_nil r
      cases hs : split r with
      | nil => exact absurd hs hne
      | cons h t => rw [hs] at ih; simp [join, ih]
    · have hne := split_ne_nil r
      cases hs : split r with
      | nil => exact absurd hs hne
      | cons h t => rw [hs] at ih; simp only [join_cons_cons, ih]

theorem mem_split_noslash (s : Str) : ∀ x ∈ split s, '/' ∉ x := by
  induction s with
  | nil => simp [split]
  | cons c r ih =>
    unfold split
    split
    · intro x hx
      simp only [List.mem_cons] at hx
      rcases hx with rfl | hx
      · simp
      · exact ih x hx
    · next hc =>
      have hne := split_ne_nil r
      cases hs : split r with
      | nil => exact absurd hs hne
      | cons h t =>
        rw [hs] at ih
        intro x hx
        simp only [List.mem_cons] at hx
        rcases hx with rfl | hx
        · have := ih h (by simp)
          simp only [List.mem_cons, not_or]
          exact ⟨fun e => hc e.symm, this⟩
        · exact ih x (by simp [hx])

theorem cut_none {s : Str} (h : cut s = none) : split s = [s] := by
  induction s with
  | nil => simp [split]
  | cons c r ih =>
    unfold cut at h
    split at h
    · simp at h
    · next hc =>
      split at h
      · next hr => simp [split, hc, ih hr]
      · simp at h

theorem cut_some {s : Str} {ab : Str × Str} (h : cut s = some ab) : split s = ab.1 :: split ab.2 := by
  induction s generalizing ab with
  | nil => simp [cut] at h
  | cons c r ih =>
    unfold cut at h
    split at h
    · next hc =>
      simp only [Option.some.injEq] at h
      subst h
      simp [split, hc]
    · next hc =>
      split at h
      · simp at h
      · next ab' hr =>
        simp only [Option.some.injEq] at h
        subst h
        simp [split, hc, ih hr]

/-- When `SplitN` did not hit its limit it is `Split`. -/
theorem splitN_eq_split (n : Nat) : ∀ s : Str, (splitN n s).length < n → splitN n s = split s := by
  induction n with
  | zero => intro s h; simp at h
  | succ n ih =>
    intro s h
    cases n with
    | zero => simp [splitN] at h
    | succ n =>
      unfold splitN at h ⊢
      split
      · next hc => exact (cut_none hc).symm
      · next ab hc =>
        rw [hc] at h
        simp only [List.length_cons] at h
        rw [ih ab.2 (by omega), cut_some hc]

/-- Conversely, a short `Split` is what `SplitN` returns. -/
theorem splitN_of_split_short (n : Nat) : ∀ s : Str, (split s).length < n → splitN n s = split s := by
  induction n with
  | zero => intro s h; simp at h
  | succ n ih =>
    intro s h
    cases n with
    | zero =>
      have := split_ne_nil s
      cases hs : split s with
      | nil => exact absurd hs this
      | cons a t => rw [hs] at h; simp at h
    | succ n =>
      unfold splitN
      split
      · next hc => exact (cut_none hc).symm
      · next ab hc =>
        rw [cut_some hc] at h ⊢
        simp only [List.length_cons] at h
        rw [ih ab.2 (by omega)]

theorem split_noslash {a : Str} (h : '/' ∉ a) : split a = [a] := by
  induction a with
  | nil => simp [split]
  | cons c r ih =>
    simp only [List.mem_cons, not_or] at h
    have hc : c ≠ '/' := fun e => h.1 e.symm
    simp [split, hc, ih h.2]

theorem split_append_slash {a : Str} (b : Str) (h : '/' ∉ a) : split (a ++ '/' :: b) = a :: split b := by
  induction a with
  | nil => simp [split]
  | cons c r ih =>
    simp only [List.mem_cons, not_or] at h
    have hc : c ≠ '/' := fun e => h.1 e.symm
    simp [split, hc, ih h.2]

/-! ### the normaliser on dot-free segments -/

theorem isDot_false {x : Str} (h : isDot x = false) : x ≠ sDot ∧ x ≠ sDotDot := by
  simpa [isDot] using h

theorem normSegs_nodot : ∀ (segs st : List Str), (∀ x ∈ segs, isDot x = false) →
    normSegs st segs = st.reverse ++ segs := by
  intro segs
  induction segs with
  | nil => intro st _; simp [normSegs]
  | cons s r ih =>
    intro st h
    have hs := isDot_false (h s (by simp))
    cases r with
    | nil => simp [normSegs, hs.1, hs.2]
    | cons s2 r2 =>
      rw [normSegs]
      simp only [hs.1, hs.2, if_false]
      rw [ih (s :: st) (fun x hx => h x (by simp [hx]))]
      simp

/-- A path whose segments are all dot-free is a fixed point of remove_dot_segments. -/
theorem normalize_nodot (q : Str) (h : (split q).any isDot = false) : normalize ('/' :: q) = '/' :: q := by
  have h' : ∀ x ∈ split q, isDot x = false := by
    intro x hx
    have := List.any_eq_false.mp h x hx
    simpa using this
  simp [normalize, normSegs_nodot (split q) [] h', join_split]

/-! ### joining with the target path -/

/-- remove one trailing slash -/
def stripEnd : Str → Str
  | [] => []
  | [c] => if c = '/' then [] else [c]
  | c :: r => c :: stripEnd r

theorem stripEnd_of_endsSlash : ∀ b : Str, endsSlash b = true → b = stripEnd b ++ ['/'] := by
  intro b
  induction b with
  | nil => simp [endsSlash]
  | cons c r ih =>
    cases r with
    | nil => intro h; simp [endsSlash] at h; simp [stripEnd, h]
    | cons c2 r2 =>
      intro h
      simp only [endsSlash] at h
      have := ih h
      simp only [stripEnd, List.cons_append]
      rw [← this]

theorem stripEnd_of_not_endsSlash : ∀ b : Str, endsSlash b = false → stripEnd b = b := by
  intro b
  induction b with
  | nil => simp [stripEnd]
  | cons c r ih =>
    cases r with
    | nil => intro h; simp [endsSlash] at h; simp [stripEnd, h]
    | cons c2 r2 =>
      intro h
      simp only [endsSlash] at h
      simp only [stripEnd, ih h]

theorem startsSlash_iff (p : Str) : startsSlash p = true ↔ ∃ r, p = '/' :: r := by
  cases p with
  | nil => simp [startsSlash]
  | cons c r =>
    by_cases hc : c = '/'
    · subst hc; simp [startsSlash]
    · simp [startsSlash, hc]

theorem trimSlash_of_not_starts {p : Str} (h : startsSlash p = false) : trimSlash p = p := by
  cases p with
  | nil => rfl
  | cons c r =>
    by_cases hc : c = '/'
    · subst hc; simp [startsSlash] at h
    · unfold trimSlash
      split
      · next heq => simp at heq; exact absurd heq.1 hc
      · rfl

/-- `singleJoiningSlash` always yields base-without-trailing-slash, one slash, path-without-leading-slash. -/
theorem joinPath_eq (base p : Str) : joinPath base p = stripEnd base ++ '/' :: trimSlash p := by
  unfold joinPath
  cases hb : endsSlash base <;> cases hp : startsSlash p
  · simp [trimSlash_of_not_starts hp, stripEnd_of_not_endsSlash base hb]
  · obtain ⟨r, rfl⟩ := (startsSlash_iff p).mp hp
    simp [trimSlash, stripEnd_of_not_endsSlash base hb]
  · have := stripEnd_of_endsSlash base hb
    simp only [Bool.true_and, Bool.false_eq_true, if_false, Bool.not_true, Bool.false_and]
    rw [trimSlash_of_not_starts hp]
    conv => lhs; rw [this]
    simp
  · obtain ⟨r, rfl⟩ := (startsSlash_iff p).mp hp
    have := stripEnd_of_endsSlash base hb
    simp only [Bool.and_self, if_true, trimSlash, List.drop_succ_cons, List.drop_zero]
    conv => lhs; rw [this]
    simp

/-! ### header lists -/

theorem vals_eq_nil_iff (n : Str) (h : Hdrs) : vals n h = [] ↔ ∀ kv ∈ h, (kv.1 == n) = false := by
  simp [vals, List.filter_eq_nil_iff]

theorem vals_hset_same (n v : Str) (h : Hdrs) : vals n (hset n v h) = [v] := by
  have : List.filter (fun kv : Str × Str => kv.1 == n) (List.filter (fun kv => !(kv.1 == n)) h) = [] := by
    rw [List.filter_eq_nil_iff]
    intro kv hkv
    have := (List.mem_filter.mp hkv).2
    simpa using this
  simp [vals, hset, hdel, List.filter_append, this]

theorem vals_hdel_other {n m : Str} (hne : n ≠ m) (h : Hdrs) : vals n (hdel m h) = vals n h := by
  unfold vals hdel
  rw [List.filter_filter]
  congr 1
  apply List.filter_congr
  intro kv _
  by_cases hk : kv.1 = n
  · have : ¬ kv.1 = m := fun e => hne (hk.symm.trans e)
    simp [hk, hne]
  · simp [hk]

theorem vals_hset_other {n m : Str} (hne : n ≠ m) (v : Str) (h : Hdrs) : vals n (hset m v h) = vals n h := by
  have hm : ¬ m = n := fun e => hne e.symm
  unfold hset
  have : vals n (hdel m h ++ [(m, v)]) = vals n (hdel m h) := by
    simp [vals, List.filter_append, hm]
  rw [this, vals_hdel_other hne]

theorem vals_hdel_same (n : Str) (h : Hdrs) : vals n (hdel n h) = [] := by
  rw [vals_eq_nil_iff]
  intro kv hkv
  have := (List.mem_filter.mp hkv).2
  simpa using this

theorem vals_hdel_nil {n : Str} (m : Str) {h : Hdrs} (hn : vals n h = []) : vals n (hdel m h) = [] := by
  rw [vals_eq_nil_iff] at hn ⊢
  intro kv hkv
  exact hn kv (List.mem_filter.mp hkv).1

theorem vals_hdelAll_nil {n : Str} (ms : List Str) : ∀ {h : Hdrs}, vals n h = [] → vals n (hdelAll ms h) = [] := by
  induction ms with
  | nil => intro h hn; simpa [hdelAll] using hn
  | cons m r ih =>
    intro h hn
    simp only [hdelAll, List.foldl_cons]
    exact ih (vals_hdel_nil m hn)

theorem vals_hset_nil {n m : Str} (hne : n ≠ m) (v : Str) {h : Hdrs} (hn : vals n h = []) :
    vals n (hset m v h) = [] := by
  rw [vals_hset_other hne, hn]

/-! ### SplitHostPort -/

theorem lastIdx_none {c : Char} {s : Str} (h : c ∉ s) : lastIdx c s = none := by
  induction s with
  | nil => rfl
  | cons x r ih =>
    simp only [List.mem_cons, not_or] at h
    have hx : ¬ x = c := fun e => h.1 e.symm
    simp [lastIdx, ih h.2, hx]

theorem lastIdx_append (c : Char) (a b : Str) (h : c ∉ b) : lastIdx c (a ++ c :: b) = some a.length := by
  induction a with
  | nil => simp [lastIdx, lastIdx_none h]
  | cons x r ih => simp [lastIdx, ih]

theorem firstIdx_append (c : Char) (a b : Str) (h : c ∉ a) : firstIdx c (a ++ c :: b) = some a.length := by
  induction a with
  | nil => simp [firstIdx]
  | cons x r ih =>
    simp only [List.mem_cons, not_or] at h
    have hx : ¬ x = c := fun e => h.1 e.symm
    simp [firstIdx, hx, ih h.2]


/-! ### request-target decoding -/

theorem split_append (a b : Str) : split (a ++ '/' :: b) = split a ++ split b := by
  induction a with
  | nil => simp [split]
  | cons c r ih =>
    by_cases hc : c = '/'
    · simp [split, hc, ih]
    · have hne := split_ne_nil r
      cases hs : split r with
      | nil => exact absurd hs hne
      | cons h t => simp [split, hc, ih, hs]

theorem split_cases (q : Str) :
    ('/' ∉ q ∧ split q = [q]) ∨ ∃ a b, q = a ++ '/' :: b ∧ '/' ∉ a := by
  induction q with
  | nil => left; simp [split]
  | cons c r ih =>
    by_cases hc : c = '/'
    · right; exact ⟨[], r, by simp [hc], by simp⟩
    · rcases ih with ⟨h1, _⟩ | ⟨a, b, h1, h2⟩
      · left
        have : '/' ∉ c :: r := by
          simp only [List.mem_cons, not_or]; exact ⟨fun e => hc e.symm, h1⟩
        exact ⟨this, split_noslash this⟩
      · right
        refine ⟨c :: a, b, by simp [h1], ?_⟩
        simp only [List.mem_cons, not_or]; exact ⟨fun e => hc e.symm, h2⟩

theorem unescape_nil : unescape [] = some [] := by rw [unescape]
theorem unescape_cons_noPct {c : Char} (hc : c ≠ '%') (r : Str) : unescape (c :: r) = (unescape r).map (c :: ·) := by
  cases r with
  | nil => simp [unescape, hc]
  | cons a r => cases r with
    | nil => simp [unescape, hc]
    | cons b r => simp [unescape, hc]
theorem unescape_pct_nil : unescape ['%'] = none := by rw [unescape]; simp
theorem unescape_pct_one (x : Char) : unescape ['%', x] = none := by rw [unescape]; simp
theorem unescape_pct (x y : Char) (r : Str) : unescape ('%' :: x :: y :: r) =
    if isHex x && isHex y then (unescape r).map (Char.ofNat (hexV x * 16 + hexV y) :: ·) else none := by
  rw [unescape]; simp

/-- decoding distributes over a raw slash: an escape never spans a `/`. -/
theorem unescape_append_slash : ∀ (n : Nat) (a b : Str), a.length ≤ n →
    unescape (a ++ '/' :: b) = (unescape a).bind (fun a' => (unescape b).map (fun b' => a' ++ '/' :: b')) := by
  have hs : ('/' : Char) ≠ '%' := by decide
  have hnil : ∀ b : Str, unescape ([] ++ '/' :: b) =
      (unescape []).bind (fun a' => (unescape b).map (fun b' => a' ++ '/' :: b')) := by
    intro b
    simp only [List.nil_append, unescape_nil, unescape_cons_noPct hs]
    cases unescape b <;> simp
  intro n
  induction n with
  | zero =>
    intro a b h
    have : a = [] := by cases a <;> simp_all
    subst this
    exact hnil b
  | succ n ih =>
    intro a b h
    cases a with
    | nil => exact hnil b
    | cons c r =>
      by_cases hc : c = '%'
      · subst hc
        cases r with
        | nil =>
          cases b with
          | nil => simp [unescape_pct_nil, unescape_pct_one]
          | cons y b' => simp [unescape_pct_nil, unescape_pct, isHex]
        | cons x r1 =>
          cases r1 with
          | nil => simp [unescape_pct_one, unescape_pct, isHex]
          | cons y r2 =>
            have hl : r2.length ≤ n := by simp at h; omega
            have := ih r2 b hl
            by_cases hh : (isHex x && isHex y) = true
            · simp only [List.cons_append, unescape_pct, hh, if_true, this]
              cases unescape r2 <;> simp
              cases unescape b <;> simp
            · simp [unescape_pct, hh]
      · have hl : r.length ≤ n := by simp at h; omega
        have := ih r b hl
        simp only [List.cons_append, unescape_cons_noPct hc, this]
        cases unescape r <;> simp
        cases unescape b <;> simp

/-- every raw segment of a decodable path decodes, and the segments of its decoding are segments of
the decoded path. -/
theorem raw_segments_decode : ∀ (n : Nat) (q d : Str), q.length ≤ n → unescape q = some d →
    ∀ s ∈ split q, ∃ ds, unescape s = some ds ∧ ∀ x ∈ split ds, x ∈ split d := by
  intro n
  induction n with
  | zero =>
    intro q d h hq s hs
    have : q = [] := by cases q <;> simp_all
    subst this
    simp [split] at hs
    subst hs
    exact ⟨d, hq, fun x hx => hx⟩
  | succ n ih =>
    intro q d h hq s hs
    rcases split_cases q with ⟨_, h2⟩ | ⟨a, b, h1, h2⟩
    · rw [h2] at hs
      simp at hs
      subst hs
      exact ⟨d, hq, fun x hx => hx⟩
    · subst h1
      rw [unescape_append_slash a.length a b (Nat.le_refl _)] at hq
      cases ha : unescape a with
      | none => simp [ha] at hq
      | some a' =>
        cases hb : unescape b with
        | none => simp [ha, hb] at hq
        | some b' =>
          simp [ha, hb] at hq
          subst hq
          rw [split_append_slash b h2] at hs
          rw [split_append]
          simp only [List.mem_cons] at hs
          rcases hs with rfl | hs
          · exact ⟨a', ha, fun x hx => List.mem_append_left _ hx⟩
          · have hl : b.length ≤ n := by simp at h; omega
            obtain ⟨ds, h3, h4⟩ := ih b b' hl hb s hs
            exact ⟨ds, h3, fun x hx => List.mem_append_right _ (h4 x hx)⟩

end Agd.LinkIP
