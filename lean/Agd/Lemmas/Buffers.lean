import Agd.Model.Buffers
/-! Helper lemmas for C06: a read into a pooled buffer, followed by the slice expression of each
receive path, yields a value that is a function of the wire bytes (and the buffer length) only. -/
namespace Agd.Buffers

@[simp] theorem length_zeros (n : Nat) : (zeros n).length = n := by simp [zeros]

@[simp] theorem length_overwrite (buf data : Bytes) : (overwrite buf data).length = buf.length := by
  simp only [overwrite, List.length_append, List.length_take, List.length_drop]
  omega

/-- Reading back at most as many bytes as were written returns the written bytes. -/
theorem take_overwrite (buf data : Bytes) (n : Nat) (h1 : n ≤ data.length) (h2 : n ≤ buf.length) :
    (overwrite buf data).take n = data.take n := by
  unfold overwrite
  rw [List.take_append_of_le_length (by simp only [List.length_take]; omega), List.take_take]
  congr 1
  omega

/-- `buf[:n]` after `n := copy(buf, data)`. -/
theorem take_min_overwrite (buf data : Bytes) :
    (overwrite buf data).take (min data.length buf.length) = data.take buf.length := by
  rw [take_overwrite buf data _ (Nat.min_le_left _ _) (Nat.min_le_right _ _)]
  by_cases h : data.length ≤ buf.length
  · rw [Nat.min_eq_left h, List.take_of_length_le (Nat.le_refl _), List.take_of_length_le h]
  · rw [Nat.min_eq_right (by omega)]

/-- The length prefix is read from the bytes just written. -/
theorem be16_overwrite (buf data : Bytes) (h1 : 2 ≤ data.length) (h2 : 2 ≤ buf.length) :
    be16 (overwrite buf data) = be16 data := by
  match data, buf, h1, h2 with
  | a :: b :: rest, x :: y :: bt, _, _ => simp [overwrite, be16]

theorem length_growTo (buf : Bytes) (len : Nat) : len ≤ (growTo buf len).length := by
  simp only [growTo, List.length_append, length_zeros]
  omega

/-! ### Outcome of every receive path = `spec` of the wire bytes -/

theorem recvUDP_fst (buf wire : Bytes) : (recvUDP buf wire).1 = spec .udp buf.length wire := by
  unfold recvUDP spec
  by_cases h : min wire.length buf.length < dnsHeaderSize
  · simp [h]
  · simp only [h, if_false]
    rw [take_min_overwrite]

theorem recvTCP_fst (buf stream : Bytes) (size : Nat) : (recvTCP buf stream).1 = spec .tcp size stream := by
  unfold recvTCP spec
  by_cases h : stream.length < 2
  · simp [h]
  · simp only [h, if_false, List.length_drop]
    by_cases h2 : stream.length - 2 < be16 stream
    · simp [h2]
    · simp only [h2, if_false]
      have hl : be16 stream ≤ ((stream.drop 2).take (be16 stream)).length := by
        simp only [List.length_take, List.length_drop]; omega
      rw [take_overwrite _ _ _ hl (length_growTo _ _), List.take_take, Nat.min_self]

theorem recvDoQ_fst (buf stream : Bytes) : (recvDoQ buf stream).1 = spec .doq buf.length stream := by
  unfold recvDoQ spec
  by_cases h : min stream.length buf.length < dnsHeaderSize
  · simp [h]
  · simp only [h, if_false]
    have h12 : 12 ≤ min stream.length buf.length := by simp [dnsHeaderSize] at h; omega
    have hs : 2 ≤ stream.length := by have := Nat.min_le_left stream.length buf.length; omega
    have hb : 2 ≤ buf.length := by have := Nat.min_le_right stream.length buf.length; omega
    rw [be16_overwrite buf stream hs hb, take_min_overwrite]
    by_cases h3 : be16 stream = (min stream.length buf.length - 2) % 65536 <;> simp [h3]

theorem recvUpsUDP_fst (buf reply : Bytes) : (recvUpsUDP buf reply).1 = spec .upsUdp buf.length reply := by
  unfold recvUpsUDP spec
  by_cases h : min reply.length buf.length < minUpstreamSize
  · simp [h]
  · simp only [h, if_false]
    rw [take_min_overwrite]

theorem recvUpsTCP_fst (buf stream : Bytes) : (recvUpsTCP buf stream).1 = spec .upsTcp buf.length stream := by
  unfold recvUpsTCP spec
  by_cases h : stream.length < 2
  · simp [h]
  · simp only [h, if_false]
    by_cases h1 : buf.length < be16 stream
    · simp [h1]
    · simp only [h1, if_false, List.length_drop]
      by_cases h2 : stream.length - 2 < be16 stream
      · simp [h2]
      · simp only [h2, if_false]
        by_cases h3 : be16 stream < minUpstreamSize
        · simp [h3]
        · simp only [h3, if_false]
          have hl : be16 stream ≤ ((stream.drop 2).take (be16 stream)).length := by
            simp only [List.length_take, List.length_drop]; omega
          rw [take_overwrite _ _ _ hl (by omega), List.take_take, Nat.min_self]

/-- **Core lemma.**  On every path the outcome is the specification applied to the wire bytes and
the *length* of the buffer; the contents of the buffer and the request packed into it play no role. -/
theorem recvOn_fst (p : Path) (buf pre wire : Bytes) :
    (recvOn p buf pre wire).1 = spec p buf.length wire := by
  cases p
  · exact recvUDP_fst buf wire
  · exact recvTCP_fst buf wire buf.length
  · exact recvDoQ_fst buf wire
  · simp only [recvOn]; rw [recvUpsUDP_fst, length_overwrite]
  · simp only [recvOn]; rw [recvUpsTCP_fst, length_overwrite]

/-- The TCP specification does not mention the buffer size at all. -/
theorem spec_tcp_size (a b : Nat) (wire : Bytes) : spec .tcp a wire = spec .tcp b wire := rfl

/-! ### Fixed-size pools keep their buffer length -/

theorem recvOn_snd_length (p : Path) (hp : p ≠ .tcp) (buf pre wire : Bytes) :
    (recvOn p buf pre wire).2.length = buf.length := by
  cases p
  · simp only [recvOn, recvUDP]; split <;> simp
  · exact absurd rfl hp
  · simp only [recvOn, recvDoQ]; split
    · simp
    · split <;> simp
  · simp only [recvOn, recvUpsUDP]; split <;> simp
  · simp only [recvOn, recvUpsTCP]
    split
    · simp
    · split
      · simp
      · split
        · simp
        · split <;> simp

/-- Every pooled buffer of a fixed-size pool has the configured length. -/
def WF (s : Server) : Prop :=
  ∀ p, p ≠ Path.tcp → ∀ b ∈ s.free p, b.length = s.cfg.size p

theorem wf_init (c : Cfg) : WF (Server.init c) := by
  intro p _ b hb
  simp [Server.init] at hb

theorem takeBuf_mem (size : Nat) (fl : List Bytes) (pick : Option Nat) :
    ∀ b ∈ (takeBuf size fl pick).2, b ∈ fl := by
  intro b hb
  unfold takeBuf at hb
  split at hb
  · exact hb
  · split at hb
    · exact List.mem_of_mem_eraseIdx hb
    · exact hb

theorem takeBuf_length (size : Nat) (fl : List Bytes) (pick : Option Nat)
    (h : ∀ b ∈ fl, b.length = size) : (takeBuf size fl pick).1.length = size := by
  unfold takeBuf
  split
  · simp
  · split
    · next i b hb => exact h b (List.mem_of_getElem? hb)
    · simp

theorem step_cfg (s : Server) (op : Op) : (step s op).1.cfg = s.cfg := rfl

theorem wf_step (s : Server) (op : Op) (h : WF s) : WF (step s op).1 := by
  intro p hp b hb
  simp only [step, stepWith] at hb ⊢
  by_cases hq : p = op.path
  · simp only [hq, if_true, List.mem_append, List.mem_singleton] at hb
    rw [hq] at hp ⊢
    rcases hb with hb | hb
    · exact h _ hp b (takeBuf_mem _ _ _ b hb)
    · rw [hb, recvOn_snd_length _ hp]
      exact takeBuf_length _ _ _ (h _ hp)
  · simp only [hq, if_false] at hb
    exact h p hp b hb

theorem run_cfg (s : Server) (ops : List Op) : (run s ops).cfg = s.cfg := by
  induction ops generalizing s with
  | nil => rfl
  | cons op rest ih => simp only [run]; rw [ih, step_cfg]

theorem wf_run (s : Server) (ops : List Op) (h : WF s) : WF (run s ops) := by
  induction ops generalizing s with
  | nil => exact h
  | cons op rest ih => exact ih _ (wf_step s op h)

/-- One step on a well-formed server: the outcome is the specification of the wire bytes. -/
theorem step_outcome (s : Server) (op : Op) (h : WF s) :
    (step s op).2 = spec op.path (s.cfg.size op.path) op.wire := by
  simp only [step, stepWith]
  rw [recvOn_fst]
  by_cases hp : op.path = Path.tcp
  · rw [hp]; exact spec_tcp_size _ _ _
  · rw [takeBuf_length _ _ _ (h op.path hp)]

end Agd.Buffers
