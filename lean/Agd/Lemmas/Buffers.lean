import Agd.Model.Buffers
/-! Helper lemmas for C06: a read into a pooled buffer, followed by the slice expression of each
receive path, yields a value that is a function of the wire bytes (and the buffer length) only. -/
namespace Agd.Buffers

@[simp] theorem length_zeros (n : Nat) : (zeros n).length = n := by simp [zeros]

@[simp] theorem length_overwrite (buf data : Bytes) : (overwrite buf data).length = buf.length := by
  simp only [overwrite, List.length_append, List.length_take, List.length_drop]
  omega

/-- Reading back at most as many bytes as were written returns the written bytes. -/
theorem take_overwrite (buf data : Bytes) (n : Nat) (h1 : n ≤ data.length) (h2 : n ≤ buf.length) :
    (overwrite buf data).take n = data.take n := by
  unfold overwrite
  rw [List.take_append_of_le_length (by simp only [List.length_take]; omega), List.take_take]
  congr 1
  omega

/-- `buf[:n]` after `n := copy(buf, data)`. -/
theorem take_min_overwrite (buf data : Bytes) :
    (overwrite buf data).take (min data.length buf.length) = data.take buf.length := by
  rw [take_overwrite buf data _ (Nat.min_le_left _ _) (Nat.min_le_right _ _)]
  by_cases h : data.length ≤ buf.length
  · rw [Nat.min_eq_left h, List.take_of_length_le (Nat.le_refl _), List.take_of_length_le h]
  · rw [Nat.min_eq_right (by omega)]

/-- The length prefix is read from the bytes just written. -/
theorem be16_overwrite (buf data : Bytes) (h1 : 2 ≤ data.length) (h2 : 2 ≤ buf.length) :
    be16 (overwrite buf data) = be16 data := by
  match data, buf, h1, h2 with
  | a :: b :: rest, x :: y :: bt, _, _ => simp [overwrite, be16]

theorem length_growTo (buf : Bytes) (len : Nat) : len ≤ (growTo buf len).length := by
  simp only [growTo, List.length_append, length_zeros]
  omega

/-! ### Outcome of every receive path = `spec` of the wire bytes -/

theorem recvUDP_fst (buf wire : Bytes) : (recvUDP buf wire).1 = spec .udp buf.length wire := by
  unfold recvUDP spec
  by_cases h : min wire.length buf.length < dnsHeaderSize
  · simp [h]
  · simp only [h, if_false]
    rw [take_min_overwrite]

theorem recvTCP_fst (buf stream : Bytes) (size : Nat) : (recvTCP buf stream).1 = spec .tcp size stream := by
  unfold recvTCP spec
  by_cases h : stream.length < 2
  · simp [h]
  · simp only [h, if_false, List.length_drop]
    by_cases h2 : stream.length - 2 < be16 stream
    · simp [h2]
    · simp only [h2, if_false]
      have hl : be16 stream ≤ ((stream.drop 2).take (be16 stream)).length := by
        simp only [List.length_take, List.length_drop]; omega
      rw [take_overwrite _ _ _ hl (length_growTo _ _), List.take_take, Nat.min_self]

theorem recvDoQ_fst (buf stream : Bytes) : (recvDoQ buf stream).1 = spec .doq buf.length stream := by
  unfold recvDoQ spec
  by_cases h : min stream.length buf.length < dnsHeaderSize
  · simp [h]
  · simp only [h, if_false]
    have h12 : 12 ≤ min stream.length buf.length := by simp [dnsHeaderSize] at h; omega
    have hs : 2 ≤ stream.length := by have := Nat.min_le_left stream.length buf.length; omega
    have hb : 2 ≤ buf.length := by have := Nat.min_le_right stream.length buf.length; omega
    rw [be16_overwrite buf stream hs hb, take_min_overwrite]
    by_cases h3 : be16 stream = (min stream.length buf.length - 2) % 65536 <;> simp [h3]

theorem recvUpsUDP_fst (buf reply : Bytes) : (recvUpsUDP buf reply).1 = spec .upsUdp buf.length reply := by
  unfold recvUpsUDP spec
  by_cases h : min reply.length buf.length < minUpstreamSize
  · simp [h]
  · simp only [h, if_false]
    rw [take_min_overwrite]

theorem recvUpsTCP_fst (buf stream : Bytes) : (recvUpsTCP buf stream).1 = spec .upsTcp buf.length stream := by
  unfold recvUpsTCP spec
  by_cases h : stream.length < 2
  · simp [h]
  · simp only [h, if_false]
    by_cases h1 : buf.length < be16 stream
    · simp [h1]
    · simp only [h1, if_false, List.length_drop]
      by_cases h2 : stream.length - 2 < be16 stream
      · simp [h2]
      · simp only [h2, if_false]
        by_cases h3 : be16 stream < minUpstreamSize
        · simp [h3]
        · simp only [h3, if_false]
          have hl : be16 stream ≤ ((stream.drop 2).take (be16 stream)).length := by
            simp only [List.length_take, List.length_drop]; omega
          rw [take_overwrite _ _ _ hl (by omega), List.take_take, Nat.min_self]

/-- **Core lemma.**  On every path the outcome is the specification applied to the wire bytes and
the *length* of the buffer; the contents of the buffer and the request packed into it play no role. -/
theorem recvOn_fst (p : Path) (buf pre wire : Bytes) :
    (recvOn p buf pre wire).1 = spec p buf.length wire := by
  cases p
  · exact recvUDP_fst buf wire
  · exact recvTCP_fst buf wire buf.length
  · exact recvDoQ_fst buf wire
  · simp only [recvOn]; rw [recvUpsUDP_fst, length_overwrite]
  · simp only [recvOn]; rw [recvUpsTCP_fst, length_overwrite]
  · rfl

/-- The TCP specification does not mention the buffer size at all. -/
theorem spec_tcp_size (a b : Nat) (wire : Bytes) : spec .tcp a wire = spec .tcp b wire := rfl

/-! ### Fixed-size pools keep their buffer length -/

theorem recvOn_snd_length (p : Path) (hp : p ≠ .tcp) (buf pre wire : Bytes) :
    (recvOn p buf pre wire).2.length = buf.length := by
  cases p
  · simp only [recvOn, recvUDP]; split <;> simp
  · exact absurd rfl hp
  · simp only [recvOn, recvDoQ]; split
    · simp
    · split <;> simp
  · simp only [recvOn, recvUpsUDP]; split <;> simp
  · simp only [recvOn, recvUpsTCP]
    split
    · simp
    · split
      · simp
      · split
        · simp
        · split <;> simp
  · rfl

/-- Every pooled buffer of a fixed-size pool has the configured length. -/
def WF (s : Server) : Prop :=
  ∀ p, p ≠ Path.tcp → ∀ b ∈ s.free p, b.length = s.cfg.size p

theorem wf_init (c : Cfg) : WF (Server.init c) := by
  intro p _ b hb
  simp [Server.init] at hb

theorem takeBuf_mem (size : Nat) (fl : List Bytes) (pick : Option Nat) :
    ∀ b ∈ (takeBuf size fl pick).2, b ∈ fl := by
  intro b hb
  unfold takeBuf at hb
  split at hb
  · exact hb
  · split at hb
    · exact List.mem_of_mem_eraseIdx hb
    · exact hb

theorem takeBuf_length (size : Nat) (fl : List Bytes) (pick : Option Nat)
    (h : ∀ b ∈ fl, b.length = size) : (takeBuf size fl pick).1.length = size := by
  unfold takeBuf
  split
  · simp
  · split
    · next i b hb => exact h b (List.mem_of_getElem? hb)
    · simp

theorem step_cfg (s : Server) (op : Op) : (step s op).1.cfg = s.cfg := rfl

theorem wf_step (s : Server) (op : Op) (h : WF s) : WF (step s op).1 := by
  intro p hp b hb
  simp only [step, stepWith] at hb ⊢
  by_cases hq : p = op.path
  · simp only [hq, if_true, List.mem_append, List.mem_singleton] at hb
    rw [hq] at hp ⊢
    rcases hb with hb | hb
    · exact h _ hp b (takeBuf_mem _ _ _ b hb)
    · rw [hb, recvOn_snd_length _ hp]
      exact takeBuf_length _ _ _ (h _ hp)
  · simp only [hq, if_false] at hb
    exact h p hp b hb

theorem run_cfg (s : Server) (ops : List Op) : (run s ops).cfg = s.cfg := by
  induction ops generalizing s with
  | nil => rfl
  | cons op rest ih => simp only [run]; rw [ih, step_cfg]

theorem wf_run (s : Server) (ops : List Op) (h : WF s) : WF (run s ops) := by
  induction ops generalizing s with
  | nil => exact h
  | cons op rest ih => exact ih _ (wf_step s op h)

/-- One step on a well-formed server: the outcome is the specification of the wire bytes. -/
theorem step_outcome (s : Server) (op : Op) (h : WF s) :
    (step s op).2 = spec op.path (s.cfg.size op.path) op.wire := by
  simp only [step, stepWith]
  rw [recvOn_fst]
  by_cases hp : op.path = Path.tcp
  · rw [hp]; exact spec_tcp_size _ _ _
  · rw [takeBuf_length _ _ _ (h op.path hp)]

/-! ### Buffers in flight (accept and serve as separate events) -/

@[simp] theorem upd2_same {α : Type} (f : Path → Nat → α) (p : Path) (i : Nat) (a : α) :
    upd2 f p i a p i = a := by simp [upd2]

theorem upd2_other {α : Type} (f : Path → Nat → α) (p : Path) (i : Nat) (a : α) (q : Path) (j : Nat)
    (h : ¬ (q = p ∧ j = i)) : upd2 f p i a q j = f q j := by simp [upd2, h]

/-- The slice described by the recorded bounds, taken from the buffer after the read, is the view. -/
theorem view_eq_bounds (p : Path) (buf pre wire v : Bytes)
    (h : (recvOn p buf pre wire).1 = .view v) :
    v = ((landing p (recvOn p buf pre wire).2 wire).take (bounds p buf.length wire).2).drop
          (bounds p buf.length wire).1 := by
  cases p <;> simp only [recvOn, landing, bounds, List.drop_zero] at h ⊢
  · by_cases hn : min wire.length buf.length < dnsHeaderSize
    · simp [recvUDP, hn] at h
    · simp only [recvUDP, hn, if_false, Outcome.view.injEq] at h ⊢; exact h.symm
  · by_cases h2 : wire.length < 2
    · simp [recvTCP, h2] at h
    · by_cases h3 : wire.length - 2 < be16 wire
      · simp [recvTCP, h2, h3] at h
      · simp only [recvTCP, List.length_drop, h2, h3, if_false, Outcome.view.injEq] at h ⊢; exact h.symm
  · by_cases hn : min wire.length buf.length < dnsHeaderSize
    · simp [recvDoQ, hn] at h
    · by_cases h3 : be16 (overwrite buf wire) = (min wire.length buf.length - 2) % 65536
      · simp only [recvDoQ, hn, h3, if_false, if_true, Outcome.view.injEq] at h ⊢; exact h.symm
      · simp [recvDoQ, hn, h3] at h
  · by_cases hn : min wire.length buf.length < minUpstreamSize
    · simp [recvUpsUDP, hn] at h
    · simp only [recvUpsUDP, length_overwrite, hn, if_false, Outcome.view.injEq] at h ⊢; exact h.symm
  · by_cases h2 : wire.length < 2
    · simp [recvUpsTCP, h2] at h
    · by_cases h3 : buf.length < be16 wire
      · simp [recvUpsTCP, h2, h3] at h
      · by_cases h4 : wire.length - 2 < be16 wire
        · simp [recvUpsTCP, h2, h3, h4] at h
        · by_cases h5 : be16 wire < minUpstreamSize
          · simp [recvUpsTCP, h2, h3, h4, h5] at h
          · simp only [recvUpsTCP, length_overwrite, List.length_drop, h2, h3, h4, h5, if_false, Outcome.view.injEq] at h ⊢
            exact h.symm
  · simp only [recvDoH, Outcome.view.injEq] at h; rw [← h]; simp

/-- Pool discipline: a pending request owns its buffer; fixed-size buffers keep their size. -/
structure SInv (s : Sys) : Prop where
  owned : ∀ rid pd, s.pend rid = some pd → s.own pd.path pd.bid = some rid
  len : ∀ p, p ≠ Path.tcp → p ≠ Path.doh → ∀ id, (s.heap p id).length = s.cfg.size p

theorem sinv_init (c : Cfg) : SInv (Sys.init c) :=
  ⟨by intro rid pd h; simp [Sys.init] at h, by intro p _ _ id; simp [Sys.init]⟩

theorem accept_cfg (s : Sys) (rid : Nat) (p : Path) (bid : Nat) (pre wire : Bytes) :
    (s.accept rid p bid pre wire).1.cfg = s.cfg := by
  unfold Sys.accept
  split
  · rfl
  · split
    · rfl
    · split <;> rfl

theorem serve_cfg (s : Sys) (rid : Nat) : (s.serve rid).1.cfg = s.cfg := by
  unfold Sys.serve; split <;> rfl

theorem step_cfg' (s : Sys) (e : Ev) : (s.step e).1.cfg = s.cfg := by
  cases e
  · exact accept_cfg ..
  · exact serve_cfg ..

theorem landing_length (p : Path) (hp : p ≠ Path.tcp) (hd : p ≠ Path.doh) (buf pre wire : Bytes) :
    (landing p (recvOn p buf pre wire).2 wire).length = buf.length := by
  have : landing p (recvOn p buf pre wire).2 wire = (recvOn p buf pre wire).2 := by
    cases p <;> first | rfl | exact absurd rfl hd
  rw [this, recvOn_snd_length p hp]

/-- A buffer owned by a pending request differs from any buffer that `Get` may return. -/
theorem owned_ne_avail (s : Sys) (h : SInv s) (rid : Nat) (pd : Pending) (hp : s.pend rid = some pd)
    (p : Path) (bid : Nat) (ha : ¬ (s.own p bid).isSome) : ¬ (pd.path = p ∧ pd.bid = bid) := by
  intro ⟨h1, h2⟩
  have := h.owned rid pd hp
  rw [h1, h2] at this
  rw [this] at ha
  exact ha rfl

theorem sinv_accept (s : Sys) (h : SInv s) (rid : Nat) (p : Path) (bid : Nat) (pre wire : Bytes) :
    SInv (s.accept rid p bid pre wire).1 := by
  unfold Sys.accept
  split
  · exact h
  · rename_i hfree
    split
    · exact h
    · rename_i havail
      have hlen : ∀ q, q ≠ Path.tcp → q ≠ Path.doh → ∀ id,
          (upd2 s.heap p bid (landing p (recvOn p (s.heap p bid) pre wire).2 wire) q id).length = s.cfg.size q := by
        intro q hq hd id
        by_cases hc : q = p ∧ id = bid
        · obtain ⟨rfl, rfl⟩ := hc
          rw [upd2_same, landing_length q hq hd]; exact h.len q hq hd id
        · rw [upd2_other _ _ _ _ _ _ hc]; exact h.len q hq hd id
      split
      · exact ⟨h.owned, hlen⟩
      · refine ⟨?_, hlen⟩
        intro rid' pd hpd
        simp only at hpd
        by_cases hr : rid' = rid
        · simp only [hr, if_true] at hpd
          injection hpd with hpd
          subst hpd
          rw [hr]; simp
        · simp only [hr, if_false] at hpd
          show upd2 s.own p bid (some rid) pd.path pd.bid = some rid'
          rw [upd2_other _ _ _ _ _ _ (owned_ne_avail s h rid' pd hpd p bid havail)]
          exact h.owned rid' pd hpd

theorem sinv_serve (s : Sys) (h : SInv s) (rid : Nat) : SInv (s.serve rid).1 := by
  unfold Sys.serve
  split
  · exact h
  · rename_i pd hpd
    refine ⟨?_, h.len⟩
    intro rid' pd' hpd'
    simp only at hpd' ⊢
    by_cases hr : rid' = rid
    · simp [hr] at hpd'
    · simp only [hr, if_false] at hpd'
      have h1 := h.owned rid pd hpd
      have h2 := h.owned rid' pd' hpd'
      rw [upd2_other]
      · exact h2
      · intro ⟨e1, e2⟩
        rw [e1, e2, h1] at h2
        injection h2 with h2
        exact hr h2.symm

theorem sinv_step (s : Sys) (h : SInv s) (e : Ev) : SInv (s.step e).1 := by
  cases e
  · exact sinv_accept s h ..
  · exact sinv_serve s h ..

theorem sinv_run (s : Sys) (h : SInv s) (evs : List Ev) : SInv (s.run evs) := by
  induction evs generalizing s with
  | nil => exact h
  | cons e rest ih => exact ih _ (sinv_step s h e)

theorem run_cfg' (s : Sys) (evs : List Ev) : (s.run evs).cfg = s.cfg := by
  induction evs generalizing s with
  | nil => rfl
  | cons e rest ih => simp only [Sys.run]; rw [ih, step_cfg']

/-- Request `rid` is pending and the slice it will hand to `Unpack`, read from the heap *now*, is `v`. -/
def Holds (s : Sys) (rid : Nat) (v : Bytes) : Prop :=
  ∃ pd, s.pend rid = some pd ∧ ((s.heap pd.path pd.bid).take pd.hi).drop pd.lo = v

/-- **Frame.**  No event of another request changes what `rid` will decode. -/
theorem holds_step (s : Sys) (h : SInv s) (rid : Nat) (v : Bytes) (hh : Holds s rid v) (e : Ev)
    (hne : e.rid ≠ rid) : Holds (s.step e).1 rid v := by
  obtain ⟨pd, hpd, hv⟩ := hh
  cases e with
  | accept rid' p bid pre wire =>
    simp only [Ev.rid] at hne
    simp only [Sys.step]
    unfold Sys.accept
    split
    · exact ⟨pd, hpd, hv⟩
    · split
      · exact ⟨pd, hpd, hv⟩
      · rename_i havail
        have hk := owned_ne_avail s h rid pd hpd p bid havail
        split
        · exact ⟨pd, hpd, by simp only; rw [upd2_other _ _ _ _ _ _ hk]; exact hv⟩
        · refine ⟨pd, ?_, by simp only; rw [upd2_other _ _ _ _ _ _ hk]; exact hv⟩
          have hne' : ¬ rid = rid' := fun h' => hne h'.symm
          simp only [hne', if_false, hpd]
  | serve rid' =>
    simp only [Ev.rid] at hne
    simp only [Sys.step]
    unfold Sys.serve
    split
    · exact ⟨pd, hpd, hv⟩
    · refine ⟨pd, ?_, hv⟩
      have hne' : ¬ rid = rid' := fun h' => hne h'.symm
      simp only [hne', if_false, hpd]

theorem holds_run (s : Sys) (h : SInv s) (rid : Nat) (v : Bytes) (hh : Holds s rid v) (evs : List Ev)
    (hne : ∀ e ∈ evs, e.rid ≠ rid) : Holds (s.run evs) rid v := by
  induction evs generalizing s with
  | nil => exact hh
  | cons e rest ih =>
    exact ih _ (sinv_step s h e) (holds_step s h rid v hh e (hne e (List.mem_cons_self ..)))
      (fun e' he' => hne e' (List.mem_cons_of_mem _ he'))

/-- On a well-formed system, the guards of `accept` see `spec` of the wire bytes. -/
theorem accept_outcome (s : Sys) (h : SInv s) (p : Path) (bid : Nat) (pre wire : Bytes) :
    (recvOn p (s.heap p bid) pre wire).1 = spec p (s.cfg.size p) wire := by
  rw [recvOn_fst]
  by_cases hp : p = Path.tcp
  · rw [hp]; rfl
  · by_cases hd : p = Path.doh
    · rw [hd]; rfl
    · rw [h.len p hp hd]

theorem accept_reject (s : Sys) (h : SInv s) (rid : Nat) (p : Path) (bid : Nat) (pre wire : Bytes)
    (hfree : s.pend rid = none) (havail : s.own p bid = none) (w : Why)
    (hs : spec p (s.cfg.size p) wire = .reject w) :
    (s.accept rid p bid pre wire).2 = some (.reject w) := by
  have ho := accept_outcome s h p bid pre wire
  rw [hs] at ho
  unfold Sys.accept
  simp only [hfree, havail, Option.isSome_none, Bool.false_eq_true, if_false]
  split
  · rename_i w' hw; rw [ho] at hw; injection hw with hw; rw [hw]
  · rename_i v hv; rw [ho] at hv; cases hv

theorem accept_holds (s : Sys) (h : SInv s) (rid : Nat) (p : Path) (bid : Nat) (pre wire : Bytes)
    (hfree : s.pend rid = none) (havail : s.own p bid = none) (v : Bytes)
    (hs : spec p (s.cfg.size p) wire = .view v) :
    (s.accept rid p bid pre wire).2 = none ∧ Holds (s.accept rid p bid pre wire).1 rid v := by
  have ho := accept_outcome s h p bid pre wire
  rw [hs] at ho
  have hb := view_eq_bounds p (s.heap p bid) pre wire v ho
  unfold Sys.accept
  simp only [hfree, havail, Option.isSome_none, Bool.false_eq_true, if_false]
  split
  · rename_i w' hw; rw [ho] at hw; cases hw
  · refine ⟨rfl, ⟨p, bid, (bounds p (s.heap p bid).length wire).1, (bounds p (s.heap p bid).length wire).2⟩,
      by simp, ?_⟩
    simp only [upd2_same]
    exact hb.symm

theorem serve_holds (s : Sys) (rid : Nat) (v : Bytes) (hh : Holds s rid v) :
    (s.serve rid).2 = some (.view v) := by
  obtain ⟨pd, hpd, hv⟩ := hh
  unfold Sys.serve
  rw [hpd]
  simp only [hv]


/-! ### Response side: what is written is the packed message, whatever the pooled array held -/

theorem packBuffer_take (arr : Bytes) (len : Nat) (msg : Bytes) :
    (packBuffer arr len msg).take msg.length = msg := by
  unfold packBuffer
  split
  · rename_i h
    rw [take_overwrite arr msg _ (Nat.le_refl _) (by omega), List.take_of_length_le (Nat.le_refl _)]
  · exact List.take_of_length_le (Nat.le_refl _)

theorem packBuffer_length (arr : Bytes) (len : Nat) (msg : Bytes) :
    msg.length ≤ (packBuffer arr len msg).length := by
  unfold packBuffer
  split
  · rename_i h; rw [length_overwrite]; omega
  · exact Nat.le_refl _

theorem grow2_length (arr : Bytes) (l : Nat) : l + 2 ≤ (grow2 arr l).length := by
  unfold grow2
  split
  · assumption
  · simp only [List.length_append, length_zeros]; omega

theorem overwrite_fits (buf data : Bytes) (h : data.length ≤ buf.length) :
    overwrite buf data = data ++ buf.drop data.length := by
  unfold overwrite; rw [List.take_of_length_le h]

theorem packWithPrefix_written (arr : Bytes) (len : Nat) (msg : Bytes) :
    (packWithPrefix arr len msg).1 = be16Bytes msg.length ++ msg := by
  simp only [packWithPrefix]
  rw [packBuffer_take]
  have hg := grow2_length (packBuffer arr len msg) msg.length
  generalize grow2 (packBuffer arr len msg) msg.length = a2 at hg
  have hP : (be16Bytes msg.length).length = 2 := rfl
  have hd : msg.length ≤ (a2.drop 2).length := by simp only [List.length_drop]; omega
  have hS : writeAt a2 2 msg = a2.take 2 ++ (msg ++ (a2.drop 2).drop msg.length) := by
    unfold writeAt; rw [overwrite_fits _ _ hd]
  have h2 : (a2.take 2).length = 2 := by simp only [List.length_take]; omega
  have hSl : (be16Bytes msg.length).length ≤ (writeAt a2 2 msg).length := by
    rw [hS, hP]; simp only [List.length_append, h2]; omega
  rw [overwrite_fits _ _ hSl, hP, hS, List.drop_append_of_le_length (by omega),
    List.drop_of_length_le (by omega), List.nil_append, ← List.append_assoc]
  exact List.take_left' (by simp only [List.length_append, hP]; omega)

/-! ### Request side: what is written to the upstream is the packed request -/

@[simp] theorem length_packBufferInto (spare : Nat) (b packed : Bytes) :
    (packBufferInto spare b packed).length = b.length := by
  unfold packBufferInto; split <;> simp

theorem length_be16Bytes (n : Nat) : (be16Bytes n).length = 2 := rfl

/-- Reading back `data.length` bytes after `copy(b, data)` gives `data`. -/
theorem take_overwrite_self (b data : Bytes) (h : data.length ≤ b.length) :
    (overwrite b data).take data.length = data := by
  rw [take_overwrite b data _ (Nat.le_refl _) h, List.take_of_length_le (Nat.le_refl _)]

theorem packReq_udp (spare : Nat) (buf packed : Bytes) :
    packReq spare false buf packed =
      if buf.length < packed.length then none
      else some (packed.length, overwrite (packBufferInto spare buf packed) packed) := by
  simp [packReq]

theorem packReq_tcp (spare : Nat) (buf packed : Bytes) :
    packReq spare true buf packed =
      if buf.length < packed.length + 2 then none
      else some (packed.length + 2,
        be16Bytes packed.length ++ overwrite (packBufferInto spare (buf.drop 2) packed) packed) := by
  simp [packReq]

theorem packReq_sent (spare : Nat) (tcp : Bool) (buf packed : Bytes) (r : Nat × Bytes)
    (h : packReq spare tcp buf packed = some r) : sentReq r = frameReq tcp packed := by
  cases tcp
  · rw [packReq_udp] at h
    by_cases hfit : buf.length < packed.length
    · rw [if_pos hfit] at h; cases h
    · rw [if_neg hfit] at h
      injection h with h
      subst h
      simp only [sentReq, frameReq, Bool.false_eq_true, if_false]
      exact take_overwrite_self _ _ (by rw [length_packBufferInto]; omega)
  · rw [packReq_tcp] at h
    by_cases hfit : buf.length < packed.length + 2
    · rw [if_pos hfit] at h; cases h
    · rw [if_neg hfit] at h
      injection h with h
      subst h
      simp only [sentReq, frameReq, if_true]
      have key : ∀ X : Bytes, (be16Bytes packed.length ++ X).take (packed.length + 2) =
          be16Bytes packed.length ++ X.take packed.length := fun X => by
        have := List.take_length_add_append (l₁ := be16Bytes packed.length) (l₂ := X) (i := packed.length)
        rw [length_be16Bytes, Nat.add_comm] at this
        exact this
      rw [key]
      congr 1
      exact take_overwrite_self _ _ (by rw [length_packBufferInto, List.length_drop]; omega)

theorem packReq_isSome (spare : Nat) (tcp : Bool) (buf packed : Bytes) :
    (packReq spare tcp buf packed).isSome = decide (packed.length + (if tcp then 2 else 0) ≤ buf.length) := by
  unfold packReq
  by_cases h : buf.length < packed.length + (if tcp then 2 else 0)
  · rw [if_pos h]; simp only [Option.isSome_none]; symm; rw [decide_eq_false_iff_not]; omega
  · rw [if_neg h]; simp only [Option.isSome_some]; symm; rw [decide_eq_true_iff]; omega

theorem packReq_length (spare : Nat) (tcp : Bool) (buf packed : Bytes) (r : Nat × Bytes)
    (h : packReq spare tcp buf packed = some r) : r.2.length = buf.length := by
  cases tcp
  · rw [packReq_udp] at h
    by_cases hfit : buf.length < packed.length
    · rw [if_pos hfit] at h; cases h
    · rw [if_neg hfit] at h
      injection h with h
      subst h
      simp only [length_overwrite, length_packBufferInto]
  · rw [packReq_tcp] at h
    by_cases hfit : buf.length < packed.length + 2
    · rw [if_pos hfit] at h; cases h
    · rw [if_neg hfit] at h
      injection h with h
      subst h
      simp only [List.length_append, length_be16Bytes, length_overwrite,
        length_packBufferInto, List.length_drop]
      omega

/-- What `packReq` + `Write` put on the wire, in closed form: a function of the buffer's LENGTH and
the packed request only. -/
theorem packReq_map_sent (spare : Nat) (tcp : Bool) (buf packed : Bytes) :
    (packReq spare tcp buf packed).map sentReq =
      if packed.length + (if tcp then 2 else 0) ≤ buf.length then some (frameReq tcp packed) else none := by
  have hs := packReq_isSome spare tcp buf packed
  cases h : packReq spare tcp buf packed with
  | none =>
    rw [h] at hs
    have : ¬ packed.length + (if tcp then 2 else 0) ≤ buf.length := by
      intro hc; rw [decide_eq_true hc] at hs; cases hs
    rw [if_neg this]; rfl
  | some r =>
    rw [h] at hs
    have : packed.length + (if tcp then 2 else 0) ≤ buf.length := by
      apply Classical.byContradiction; intro hc; rw [decide_eq_false hc] at hs; cases hs
    rw [if_pos this, Option.map_some, packReq_sent spare tcp buf packed r h]

/-! ### Round 4: control buffer, chain -/

theorem runOOB_length (oob : Bytes) (hist : List Bytes) : (runOOB oob hist).length = oob.length := by
  induction hist generalizing oob with
  | nil => rfl
  | cons c rest ih => simp only [runOOB, recvOOB]; rw [ih, length_overwrite]

theorem upsPath_ne_tcp (tcp : Bool) : upsPath tcp ≠ Path.tcp := by
  cases tcp <;> simp [upsPath]

/-! ### Round 5: writers and their pools -/

/-- Every buffer of a fixed-size receive pool has the configured length (the invariant the receive
paths rely on: `readUDPMsg`, the upstream `readMsg` read into the pooled slice as it is). -/
def WFW (s : ServerW) : Prop :=
  ∀ p, p ≠ Path.tcp → ∀ b ∈ s.free (.recv p), b.length = s.cfg.size p

theorem wfw_iff_wf (s : ServerW) : WFW s ↔ WF s.recvView := Iff.rfl

theorem wfw_init (c : Cfg) : WFW (ServerW.init c) := by
  intro p _ b hb
  simp [ServerW.init] at hb

theorem recvView_withRecv (s : ServerW) (r : Server) (h : r.cfg = s.cfg) :
    (s.withRecv r).recvView = r := by
  cases r
  simp only [ServerW.recvView, ServerW.withRecv] at *
  rw [h]

theorem recvW_cfg (s : ServerW) (op : Op) : (recvW s op).1.cfg = s.cfg := rfl

theorem writeW_cfg (w : Wiring) (s : ServerW) (x : Write) : (writeW w s x).1.cfg = s.cfg := by
  unfold writeW
  split <;> rfl

theorem stepW_cfg (w : Wiring) (s : ServerW) (e : EvW) : (stepW w s e).cfg = s.cfg := by
  cases e
  · exact recvW_cfg _ _
  · exact writeW_cfg _ _ _

theorem runW_cfg (w : Wiring) (s : ServerW) (evs : List EvW) : (runW w s evs).cfg = s.cfg := by
  induction evs generalizing s with
  | nil => rfl
  | cons e rest ih => simp only [runW]; rw [ih, stepW_cfg]

theorem wfw_recv (s : ServerW) (op : Op) (h : WFW s) : WFW (recvW s op).1 := by
  rw [wfw_iff_wf]
  simp only [recvW]
  rw [recvView_withRecv _ _ (step_cfg _ _)]
  exact wf_step _ _ h

/-- A write touches no pool but the writer's. -/
theorem writeW_free_other (w : Wiring) (s : ServerW) (x : Write) (q : PoolId)
    (hq : w x.path ≠ some q) : (writeW w s x).1.free q = s.free q := by
  unfold writeW
  split
  · rfl
  · next pool hp =>
    have : q ≠ pool := by intro h; rw [h] at hq; exact hq hp
    simp [this]

/-- What a write leaves in the writer's own pool: old buffers, and possibly the written slice. -/
theorem writeW_free_mem (w : Wiring) (s : ServerW) (x : Write) (q : PoolId) (b : Bytes)
    (hb : b ∈ (writeW w s x).1.free q) : b ∈ s.free q ∨ w x.path = some q := by
  by_cases hq : w x.path = some q
  · exact Or.inr hq
  · rw [writeW_free_other w s x q hq] at hb; exact Or.inl hb

theorem wfw_write (w : Wiring) (hw : SafeWiring w) (s : ServerW) (x : Write) (h : WFW s) :
    WFW (writeW w s x).1 := by
  intro p hp b hb
  rw [writeW_cfg]
  rcases writeW_free_mem w s x _ b hb with hb | hq
  · exact h p hp b hb
  · exact absurd (hw _ _ hq) hp

theorem wfw_step (w : Wiring) (hw : SafeWiring w) (s : ServerW) (e : EvW) (h : WFW s) :
    WFW (stepW w s e) := by
  cases e
  · exact wfw_recv _ _ h
  · exact wfw_write w hw _ _ h

theorem wfw_run (w : Wiring) (hw : SafeWiring w) (s : ServerW) (evs : List EvW) (h : WFW s) :
    WFW (runW w s evs) := by
  induction evs generalizing s with
  | nil => exact h
  | cons e rest ih => exact ih _ (wfw_step w hw s e h)

theorem recvW_outcome (s : ServerW) (op : Op) (h : WFW s) :
    (recvW s op).2 = spec op.path (s.cfg.size op.path) op.wire :=
  step_outcome s.recvView op h

theorem writerSlice_eq (p : Path) (buf msg : Bytes) :
    writerSlice p buf msg = if p = .udp then msg else be16Bytes msg.length ++ msg := by
  cases p <;> simp [writerSlice, packUDP, packBuffer_take, packWithPrefix_written]

theorem realWiring_safe : SafeWiring realWiring := by
  intro p q h
  cases p <;> simp [realWiring] at h

end Agd.Buffers
