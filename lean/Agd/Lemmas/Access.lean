import Agd.Model.Access
/-!
# Helper lemmas and specifications for C10 (access control)

* `GetDNSBasicRule` as a fold: the winner is a member of maximal priority class.
* `nameBlockedSpec`: the declarative reading of "the question matches a blocked-name rule".
* the access part of the handler as it was *before* the two repairs (`wrapPre`), used only by the
  counter-example theorems.
-/
namespace Agd.Access

/-! ## `GetDNSBasicRule` -/

theorem foldl_pick_some (rs : List Rule) (b : Rule) :
    ∃ r, rs.foldl pick (some b) = some r ∧ (r = b ∨ r ∈ rs) ∧ prio b ≤ prio r ∧
      ∀ x ∈ rs, prio x ≤ prio r := by
  induction rs generalizing b with
  | nil => exact ⟨b, rfl, Or.inl rfl, Nat.le_refl _, by simp⟩
  | cons a rs ih =>
    simp only [List.foldl_cons, pick]
    by_cases h : prio b < prio a
    · simp only [h, if_true]
      obtain ⟨r, hr, hm, hp, ha⟩ := ih a
      refine ⟨r, hr, ?_, by omega, ?_⟩
      · rcases hm with rfl | hm
        · exact Or.inr List.mem_cons_self
        · exact Or.inr (List.mem_cons_of_mem _ hm)
      · intro x hx
        rcases List.mem_cons.mp hx with rfl | hx
        · exact hp
        · exact ha x hx
    · simp only [h, if_false]
      obtain ⟨r, hr, hm, hp, ha⟩ := ih b
      refine ⟨r, hr, ?_, hp, ?_⟩
      · rcases hm with rfl | hm
        · exact Or.inl rfl
        · exact Or.inr (List.mem_cons_of_mem _ hm)
      · intro x hx
        rcases List.mem_cons.mp hx with rfl | hx
        · omega
        · exact ha x hx

/-- On a non-empty list the basic rule is a member of maximal priority class. -/
theorem basicRule_cons (a : Rule) (rs : List Rule) :
    ∃ r, basicRule (a :: rs) = some r ∧ r ∈ a :: rs ∧ ∀ x ∈ a :: rs, prio x ≤ prio r := by
  obtain ⟨r, hr, hm, hp, ha⟩ := foldl_pick_some rs a
  refine ⟨r, by simpa [basicRule, pick] using hr, ?_, ?_⟩
  · rcases hm with rfl | hm
    · exact List.mem_cons_self
    · exact List.mem_cons_of_mem _ hm
  · intro x hx
    rcases List.mem_cons.mp hx with rfl | hx
    · exact hp
    · exact ha x hx

/-! ## Declarative name-rule semantics -/

/-- Some network-style rule with property `p` matches the name and the type. -/
def anyNet (rules : List Rule) (h : String) (qt : Nat) (p : Rule → Bool) : Bool :=
  rules.any (fun r => r.netMatches h qt && p r)

/-- "The question matches a blocked-name rule", adblock reading: an important exception wins; then an
important blocking rule; then an exception; then any blocking rule, network-style or hosts-style. -/
def nameBlockedSpec (rules : List Rule) (h : String) (qt : Nat) : Bool :=
  h != "" && !anyNet rules h qt (fun r => r.allow && r.important) &&
    (anyNet rules h qt (fun r => !r.allow && r.important) ||
      (!anyNet rules h qt (fun r => r.allow && !r.important) &&
        (anyNet rules h qt (fun r => !r.allow && !r.important) || rules.any (fun r => r.hostMatches h))))

theorem anyNet_eq (rules : List Rule) (h : String) (qt : Nat) (p : Rule → Bool) :
    anyNet rules h qt p = (rules.filter (fun r => r.netMatches h qt)).any p := by
  simp [anyNet, List.any_filter]

theorem any_false_of_prio (l : List Rule) (r : Rule) (p : Rule → Bool) (k : Nat)
    (hmax : ∀ x ∈ l, prio x ≤ prio r) (hp : ∀ x, p x = true → k ≤ prio x) (hk : prio r < k) :
    l.any p = false := by
  apply Bool.eq_false_iff.mpr
  intro h
  obtain ⟨x, hx, hpx⟩ := List.any_eq_true.mp h
  have h1 := hmax x hx
  have h2 := hp x hpx
  omega

theorem any_true_of_mem (l : List Rule) (r : Rule) (p : Rule → Bool) (h : r ∈ l) (hp : p r = true) :
    l.any p = true := List.any_eq_true.mpr ⟨r, h, hp⟩

theorem prio_ia (x : Rule) : (x.allow && x.important) = true → 3 ≤ prio x := by
  cases h1 : x.allow <;> cases h2 : x.important <;> simp [prio, h1, h2]
theorem prio_ib (x : Rule) : (!x.allow && x.important) = true → 2 ≤ prio x := by
  cases h1 : x.allow <;> cases h2 : x.important <;> simp [prio, h1, h2]
theorem prio_a (x : Rule) : (x.allow && !x.important) = true → 1 ≤ prio x := by
  cases h1 : x.allow <;> cases h2 : x.important <;> simp [prio, h1, h2]

/-- The executable engine decides exactly the declarative reading. -/
theorem ruleEngine_blocked (rules : List Rule) (h : String) (qt : Nat) :
    engBlocked (ruleEngine rules h qt) = nameBlockedSpec rules h qt := by
  unfold ruleEngine nameBlockedSpec
  by_cases hh : h = ""
  · simp [hh, engBlocked]
  · have hne : (h == "") = false := by simpa using hh
    have hne' : (h != "") = true := by simp [bne, hne]
    simp only [anyNet_eq, hne, hne']
    generalize rules.filter (fun r => r.netMatches h qt) = ns
    cases ns with
    | nil => simp [basicRule, engBlocked]
    | cons a ns' =>
      obtain ⟨r, hr, hmem, hmax⟩ := basicRule_cons a ns'
      simp only [hr]
      cases ha : r.allow <;> cases hi : r.important
      · -- plain blocking rule wins: nothing of a higher class matched
        have hp : prio r = 0 := by simp [prio, ha, hi]
        have e1 := any_false_of_prio (a :: ns') r _ 3 hmax prio_ia (by omega)
        have e2 := any_false_of_prio (a :: ns') r _ 2 hmax prio_ib (by omega)
        have e3 := any_false_of_prio (a :: ns') r _ 1 hmax prio_a (by omega)
        have e4 := any_true_of_mem (a :: ns') r (fun r => !r.allow && !r.important) hmem (by simp [ha, hi])
        simp [engBlocked, e1, e2, e3, e4]
      · have hp : prio r = 2 := by simp [prio, ha, hi]
        have e1 := any_false_of_prio (a :: ns') r _ 3 hmax prio_ia (by omega)
        have e2 := any_true_of_mem (a :: ns') r (fun r => !r.allow && r.important) hmem (by simp [ha, hi])
        simp [engBlocked, e1, e2]
      · have hp : prio r = 1 := by simp [prio, ha, hi]
        have e1 := any_false_of_prio (a :: ns') r _ 3 hmax prio_ia (by omega)
        have e2 := any_false_of_prio (a :: ns') r _ 2 hmax prio_ib (by omega)
        have e3 := any_true_of_mem (a :: ns') r (fun r => r.allow && !r.important) hmem (by simp [ha, hi])
        simp [engBlocked, e1, e2, e3]
      · have e1 := any_true_of_mem (a :: ns') r (fun r => r.allow && r.important) hmem (by simp [ha, hi])
        simp [engBlocked, e1]

/-! ## The handler -/

theorem wrap_blocked (g : Global) (r : Req) (h : blocked g r = true) :
    wrap g r = { effects := [], err := false, why := (wrap g r).why } ∧ (wrap g r).why ≠ "next" := by
  unfold blocked at h
  unfold wrap
  split
  · exact ⟨rfl, by decide⟩
  · split
    · exact ⟨rfl, by decide⟩
    · exact ⟨rfl, by decide⟩
    · exact ⟨rfl, by decide⟩
    · simp_all

theorem wrap_blocked_effects (g : Global) (r : Req) (h : blocked g r = true) : (wrap g r).effects = [] := by
  rw [(wrap_blocked g r h).1]

theorem wrap_blocked_err (g : Global) (r : Req) (h : blocked g r = true) : (wrap g r).err = false := by
  rw [(wrap_blocked g r h).1]

theorem wrap_blocked_info (g : Global) (r : Req) (h : blocked g r = true) : (wrap g r).info = none := by
  rw [(wrap_blocked g r h).1]

theorem serve_blocked {σ ρ : Type} (g : Global) (next : σ → Req → σ × Option ρ) (s : σ) (r : Req)
    (h : blocked g r = true) : serve g next s r = (s, .nothing) := by
  simp [serve, wrap_blocked_effects g r h, wrap_blocked_err g r h]

/-! ## The handler before the repairs (for the counter-example theorems only) -/

/-- `isBlockedByAccess` before the repair: the global engine saw `ri.Host = NormalizeDomain(q.Name)`,
which is empty for the root domain. -/
def accessReasonPre (g : Global) (r : Req) : Reason :=
  if g.isBlockedIP r.addr then .globalIP
  else if g.isBlockedHost (normDomain r.qname) r.qtype then .globalHost
  else
    match r.dev.profAcc with
    | Option.none => .pass
    | some p => if p.isBlocked r.qname r.qtype r.addr r.asn then .profile else .pass

/-- The handler before the first repair: a malformed ECS option was answered with FORMERR before the
device and access checks. -/
def wrapPre (reason : Global → Req → Reason) (g : Global) (r : Req) : Out :=
  if r.port == 0 then { effects := [], err := false, why := "spoof" }
  else if r.ecsBad then { effects := [.formerr], err := true, why := "formerr" }
  else
    match r.dev with
    | .unknownDedicated => { effects := [], err := false, why := "unknown-dedicated" }
    | .error => { effects := [], err := true, why := "device-error" }
    | _ =>
      match reason g r with
      | .pass => { effects := [.next], err := false, why := "next" }
      | _ => { effects := [], err := false, why := "blocked" }

/-- The handler before the third repair: the device result was handled before the access check, so a
device-finder error was returned to the server — which answers SERVFAIL — whoever the client was. -/
def wrapDevFirst (g : Global) (r : Req) : Out :=
  if r.port == 0 then { effects := [], err := false, why := "spoof" }
  else
    match r.dev with
    | .unknownDedicated => { effects := [], err := false, why := "unknown-dedicated" }
    | .error => { effects := [], err := true, why := "device-error" }
    | _ =>
      match accessReason g r with
      | .globalIP => { effects := [], err := false, why := "global-ip" }
      | .globalHost => { effects := [], err := false, why := "global-host" }
      | .profile => { effects := [], err := false, why := "profile" }
      | .pass =>
        if r.ecsBad then { effects := [.formerr], err := true, why := "formerr" }
        else { effects := [.next], err := false, why := "next", info := some (reqInfo r) }

/-- `wire` for an arbitrary handler. -/
def wireOf (o : Out) : List Effect := o.effects ++ (if o.err then [.servfail] else [])

/-! ## Subnet membership, bit by bit -/

/-- Two numbers agree after dropping the `k` low bits iff they agree on every bit from `k` up. -/
theorem shiftRight_eq_iff_testBit (a b k : Nat) :
    a >>> k = b >>> k ↔ ∀ i, k ≤ i → a.testBit i = b.testBit i := by
  constructor
  · intro h i hi
    have := congrArg (fun x => x.testBit (i - k)) h
    simp only [Nat.testBit_shiftRight] at this
    have e : k + (i - k) = i := by omega
    simpa [e] using this
  · intro h
    apply Nat.eq_of_testBit_eq
    intro j
    simp only [Nat.testBit_shiftRight]
    exact h (k + j) (by omega)

/-! ## The statement, declaratively -/

/-- `a` lies in the subnet `n`: same family, and the two addresses agree on every bit above the host
part. -/
def InSubnet (n : Prefix) (a : Addr) : Prop :=
  n.is4 = a.is4 ∧ ∀ i, width a.is4 - n.bits ≤ i → a.val.testBit i = n.val.testBit i

/-- The client's location is known and its ASN is listed. -/
def AsnIn (l : List Nat) (o : Option Nat) : Prop := ∃ a, o = some a ∧ a ∈ l

/-- The engine's verdict on the question as rules see it. -/
def NameBlocked (e : Eng) (r : Req) : Prop := engBlocked (e (normQueryDomain r.qname) r.qtype) = true

/-- An allowed subnet or ASN of the profile covers the client. -/
def Allowed (p : ProfAcc) (r : Req) : Prop :=
  AsnIn p.allowedASN r.asn ∨ ∃ n ∈ p.allowedNets, InSubnet n r.addr

/-- The property's "is rejected": globally blocked subnet, global blocked-name rule, or the profile's
access settings: blocked ASN or subnet not overridden by an allowed one, or a blocked-name rule. -/
def Rejected (g : Global) (r : Req) : Prop :=
  (∃ n ∈ g.nets, InSubnet n r.addr) ∨ NameBlocked g.eng r ∨
    ∃ p, r.dev = .ok (some p) ∧
      ((¬ Allowed p r ∧ (AsnIn p.blockedASN r.asn ∨ ∃ n ∈ p.blockedNets, InSubnet n r.addr)) ∨
        NameBlocked p.eng r)

end Agd.Access
