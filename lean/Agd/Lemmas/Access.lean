import Agd.Model.Access
/-!
# Helper lemmas and specifications for C10 (access control)

* `GetDNSBasicRule` as a fold: the winner is a member of maximal priority class.
* `nameBlockedSpec`: the declarative reading of "the question matches a blocked-name rule".
* `TokMatch` / `SeqMatch` / `DomainStart` / `PatMatches`: the declarative reading of a rule pattern
  (`||`, `|`, literal characters, `*`, `^`, final `|`), free of the model's recursive matchers, and
  the proof that the executable matcher decides it (`pat_matches_iff`); `domain_rule_iff` for `||name^`.
* the access part of the handler as it was *before* the two repairs (`wrapPre`), used only by the
  counter-example theorems.
-/
namespace Agd.Access

/-! ## `GetDNSBasicRule` -/

theorem foldl_pick_some (rs : List Rule) (b : Rule) :
    ∃ r, rs.foldl pick (some b) = some r ∧ (r = b ∨ r ∈ rs) ∧ prio b ≤ prio r ∧
      ∀ x ∈ rs, prio x ≤ prio r := by
  induction rs generalizing b with
  | nil => exact ⟨b, rfl, Or.inl rfl, Nat.le_refl _, by simp⟩
  | cons a rs ih =>
    simp only [List.foldl_cons, pick]
    by_cases h : prio b < prio a
    · simp only [h, if_true]
      obtain ⟨r, hr, hm, hp, ha⟩ := ih a
      refine ⟨r, hr, ?_, by omega, ?_⟩
      · rcases hm with rfl | hm
        · exact Or.inr List.mem_cons_self
        · exact Or.inr (List.mem_cons_of_mem _ hm)
      · intro x hx
        rcases List.mem_cons.mp hx with rfl | hx
        · exact hp
        · exact ha x hx
    · simp only [h, if_false]
      obtain ⟨r, hr, hm, hp, ha⟩ := ih b
      refine ⟨r, hr, ?_, hp, ?_⟩
      · rcases hm with rfl | hm
        · exact Or.inl rfl
        · exact Or.inr (List.mem_cons_of_mem _ hm)
      · intro x hx
        rcases List.mem_cons.mp hx with rfl | hx
        · omega
        · exact ha x hx

/-- On a non-empty list the basic rule is a member of maximal priority class. -/
theorem basicRule_cons (a : Rule) (rs : List Rule) :
    ∃ r, basicRule (a :: rs) = some r ∧ r ∈ a :: rs ∧ ∀ x ∈ a :: rs, prio x ≤ prio r := by
  obtain ⟨r, hr, hm, hp, ha⟩ := foldl_pick_some rs a
  refine ⟨r, by simpa [basicRule, pick] using hr, ?_, ?_⟩
  · rcases hm with rfl | hm
    · exact List.mem_cons_self
    · exact List.mem_cons_of_mem _ hm
  · intro x hx
    rcases List.mem_cons.mp hx with rfl | hx
    · exact hp
    · exact ha x hx

/-! ## Declarative name-rule semantics -/

/-- Some network-style rule with property `p` matches the name and the type. -/
def anyNet (rules : List Rule) (h : String) (qt : Nat) (p : Rule → Bool) : Bool :=
  rules.any (fun r => r.netMatches h qt && p r)

/-- "The question matches a blocked-name rule", adblock reading: an important exception wins; then an
important blocking rule; then an exception; then any blocking rule, network-style or hosts-style. -/
def nameBlockedSpec (rules : List Rule) (h : String) (qt : Nat) : Bool :=
  h != "" && !anyNet rules h qt (fun r => r.allow && r.important) &&
    (anyNet rules h qt (fun r => !r.allow && r.important) ||
      (!anyNet rules h qt (fun r => r.allow && !r.important) &&
        (anyNet rules h qt (fun r => !r.allow && !r.important) || rules.any (fun r => r.hostMatches h))))

theorem anyNet_eq (rules : List Rule) (h : String) (qt : Nat) (p : Rule → Bool) :
    anyNet rules h qt p = (rules.filter (fun r => r.netMatches h qt)).any p := by
  simp [anyNet, List.any_filter]

theorem any_false_of_prio (l : List Rule) (r : Rule) (p : Rule → Bool) (k : Nat)
    (hmax : ∀ x ∈ l, prio x ≤ prio r) (hp : ∀ x, p x = true → k ≤ prio x) (hk : prio r < k) :
    l.any p = false := by
  apply Bool.eq_false_iff.mpr
  intro h
  obtain ⟨x, hx, hpx⟩ := List.any_eq_true.mp h
  have h1 := hmax x hx
  have h2 := hp x hpx
  omega

theorem any_true_of_mem (l : List Rule) (r : Rule) (p : Rule → Bool) (h : r ∈ l) (hp : p r = true) :
    l.any p = true := List.any_eq_true.mpr ⟨r, h, hp⟩

theorem prio_ia (x : Rule) : (x.allow && x.important) = true → 3 ≤ prio x := by
  cases h1 : x.allow <;> cases h2 : x.important <;> simp [prio, h1, h2]
theorem prio_ib (x : Rule) : (!x.allow && x.important) = true → 2 ≤ prio x := by
  cases h1 : x.allow <;> cases h2 : x.important <;> simp [prio, h1, h2]
theorem prio_a (x : Rule) : (x.allow && !x.important) = true → 1 ≤ prio x := by
  cases h1 : x.allow <;> cases h2 : x.important <;> simp [prio, h1, h2]

/-- The executable engine decides exactly the declarative reading. -/
theorem ruleEngine_blocked (rules : List Rule) (h : String) (qt : Nat) :
    engBlocked (ruleEngine rules h qt) = nameBlockedSpec rules h qt := by
  unfold ruleEngine nameBlockedSpec
  by_cases hh : h = ""
  · simp [hh, engBlocked]
  · have hne : (h == "") = false := by simpa using hh
    have hne' : (h != "") = true := by simp [bne, hne]
    simp only [anyNet_eq, hne, hne']
    generalize rules.filter (fun r => r.netMatches h qt) = ns
    cases ns with
    | nil => simp [basicRule, engBlocked]
    | cons a ns' =>
      obtain ⟨r, hr, hmem, hmax⟩ := basicRule_cons a ns'
      simp only [hr]
      cases ha : r.allow <;> cases hi : r.important
      · -- plain blocking rule wins: nothing of a higher class matched
        have hp : prio r = 0 := by simp [prio, ha, hi]
        have e1 := any_false_of_prio (a :: ns') r _ 3 hmax prio_ia (by omega)
        have e2 := any_false_of_prio (a :: ns') r _ 2 hmax prio_ib (by omega)
        have e3 := any_false_of_prio (a :: ns') r _ 1 hmax prio_a (by omega)
        have e4 := any_true_of_mem (a :: ns') r (fun r => !r.allow && !r.important) hmem (by simp [ha, hi])
        simp [engBlocked, e1, e2, e3, e4]
      · have hp : prio r = 2 := by simp [prio, ha, hi]
        have e1 := any_false_of_prio (a :: ns') r _ 3 hmax prio_ia (by omega)
        have e2 := any_true_of_mem (a :: ns') r (fun r => !r.allow && r.important) hmem (by simp [ha, hi])
        simp [engBlocked, e1, e2]
      · have hp : prio r = 1 := by simp [prio, ha, hi]
        have e1 := any_false_of_prio (a :: ns') r _ 3 hmax prio_ia (by omega)
        have e2 := any_false_of_prio (a :: ns') r _ 2 hmax prio_ib (by omega)
        have e3 := any_true_of_mem (a :: ns') r (fun r => r.allow && !r.important) hmem (by simp [ha, hi])
        simp [engBlocked, e1, e2, e3]
      · have e1 := any_true_of_mem (a :: ns') r (fun r => r.allow && r.important) hmem (by simp [ha, hi])
        simp [engBlocked, e1]

/-! ## The handler -/

theorem wrap_blocked (g : Global) (r : Req) (h : blocked g r = true) :
    wrap g r = { effects := [], err := false, why := (wrap g r).why } ∧ (wrap g r).why ≠ "next" := by
  unfold blocked at h
  unfold wrap
  split
  · exact ⟨rfl, by decide⟩
  · split
    · exact ⟨rfl, by decide⟩
    · exact ⟨rfl, by decide⟩
    · exact ⟨rfl, by decide⟩
    · simp_all

theorem wrap_blocked_effects (g : Global) (r : Req) (h : blocked g r = true) : (wrap g r).effects = [] := by
  rw [(wrap_blocked g r h).1]

theorem wrap_blocked_err (g : Global) (r : Req) (h : blocked g r = true) : (wrap g r).err = false := by
  rw [(wrap_blocked g r h).1]

theorem wrap_blocked_info (g : Global) (r : Req) (h : blocked g r = true) : (wrap g r).info = none := by
  rw [(wrap_blocked g r h).1]

theorem serve_blocked {σ ρ : Type} (g : Global) (next : σ → Req → σ × Option ρ) (s : σ) (r : Req)
    (h : blocked g r = true) : serve g next s r = (s, .nothing) := by
  simp [serve, wrap_blocked_effects g r h, wrap_blocked_err g r h]

/-! ## The handler before the repairs (for the counter-example theorems only) -/

/-- `isBlockedByAccess` before the repair: the global engine saw `ri.Host = NormalizeDomain(q.Name)`,
which is empty for the root domain. -/
def accessReasonPre (g : Global) (r : Req) : Reason :=
  if g.isBlockedIP r.addr then .globalIP
  else if g.isBlockedHost (normDomain r.qname) r.qtype then .globalHost
  else
    match r.dev.profAcc with
    | Option.none => .pass
    | some p => if p.isBlocked r.qname r.qtype r.addr r.asn then .profile else .pass

/-- The handler before the first repair: a malformed ECS option was answered with FORMERR before the
device and access checks. -/
def wrapPre (reason : Global → Req → Reason) (g : Global) (r : Req) : Out :=
  if r.port == 0 then { effects := [], err := false, why := "spoof" }
  else if r.ecsBad then { effects := [.formerr], err := false, why := "formerr" }
  else
    match r.dev with
    | .unknownDedicated => { effects := [], err := false, why := "unknown-dedicated" }
    | .error => { effects := [], err := true, why := "device-error" }
    | _ =>
      match reason g r with
      | .pass => { effects := [.next], err := false, why := "next" }
      | _ => { effects := [], err := false, why := "blocked" }

/-- The handler before the third repair: the device result was handled before the access check, so a
device-finder error was returned to the server — which answers SERVFAIL — whoever the client was. -/
def wrapDevFirst (g : Global) (r : Req) : Out :=
  if r.port == 0 then { effects := [], err := false, why := "spoof" }
  else
    match r.dev with
    | .unknownDedicated => { effects := [], err := false, why := "unknown-dedicated" }
    | .error => { effects := [], err := true, why := "device-error" }
    | _ =>
      match accessReason g r with
      | .globalIP => { effects := [], err := false, why := "global-ip" }
      | .globalHost => { effects := [], err := false, why := "global-host" }
      | .profile => { effects := [], err := false, why := "profile" }
      | .pass =>
        if r.ecsBad then { effects := [.formerr], err := false, why := "formerr" }
        else { effects := [.next], err := false, why := "next", info := some (reqInfo r) }

/-- `wire` for an arbitrary handler. -/
def wireOf (o : Out) : List Effect := o.effects ++ (if o.err then [.servfail] else [])

/-! ## Subnet membership, bit by bit -/

/-- Two numbers agree after dropping the `k` low bits iff they agree on every bit from `k` up. -/
theorem shiftRight_eq_iff_testBit (a b k : Nat) :
    a >>> k = b >>> k ↔ ∀ i, k ≤ i → a.testBit i = b.testBit i := by
  constructor
  · intro h i hi
    have := congrArg (fun x => x.testBit (i - k)) h
    simp only [Nat.testBit_shiftRight] at this
    have e : k + (i - k) = i := by omega
    simpa [e] using this
  · intro h
    apply Nat.eq_of_testBit_eq
    intro j
    simp only [Nat.testBit_shiftRight]
    exact h (k + j) (by omega)

/-! ## The statement, declaratively -/

/-- `a` lies in the subnet `n`: same family, and the two addresses agree on every bit above the host
part. -/
def InSubnet (n : Prefix) (a : Addr) : Prop :=
  n.is4 = a.is4 ∧ ∀ i, width a.is4 - n.bits ≤ i → a.val.testBit i = n.val.testBit i

/-- The client's location is known and its ASN is listed. -/
def AsnIn (l : List Nat) (o : Option Nat) : Prop := ∃ a, o = some a ∧ a ∈ l

/-- The engine's verdict on the question as rules see it. -/
def NameBlocked (e : Eng) (r : Req) : Prop := engBlocked (e (normQueryDomain r.qname) r.qtype) = true

/-- An allowed subnet or ASN of the profile covers the client. -/
def Allowed (p : ProfAcc) (r : Req) : Prop :=
  AsnIn p.allowedASN r.asn ∨ ∃ n ∈ p.allowedNets, InSubnet n r.addr

/-- The property's "is rejected": globally blocked subnet, global blocked-name rule, or the profile's
access settings: blocked ASN or subnet not overridden by an allowed one, or a blocked-name rule. -/
def Rejected (g : Global) (r : Req) : Prop :=
  (∃ n ∈ g.nets, InSubnet n r.addr) ∨ NameBlocked g.eng r ∨
    ∃ p a, r.dev = .ok (some p) a ∧
      ((¬ Allowed p r ∧ (AsnIn p.blockedASN r.asn ∨ ∃ n ∈ p.blockedNets, InSubnet n r.addr)) ∨
        NameBlocked p.eng r)

/-! ## Pattern matching, declaratively -/

/-- what one token may consume: `w` is the consumed part, `rest` what follows it -/
def TokMatch : Tok → List Char → List Char → Prop
  | .lit c, w, _ => ∃ x, w = [x] ∧ x.toLower = c.toLower
  | .star, _, _ => True
  | .sep, w, rest => (∃ x, w = [x] ∧ nonSepChar x = false) ∨ (w = [] ∧ rest = [])

/-- the token sequence can be laid over a prefix of `s` (over all of `s` when `endAnch`) -/
def SeqMatch (endAnch : Bool) : List Tok → List Char → Prop
  | [], s => endAnch = true → s = []
  | t :: ts, s => ∃ w rest, s = w ++ rest ∧ TokMatch t w rest ∧ SeqMatch endAnch ts rest

theorem anySuffix_iff (p : List Char → Bool) (s : List Char) :
    anySuffix p s = true ↔ ∃ w rest, s = w ++ rest ∧ p rest = true := by
  induction s with
  | nil =>
    simp only [anySuffix]
    constructor
    · intro h; exact ⟨[], [], rfl, h⟩
    · rintro ⟨w, rest, h, hp⟩
      have := List.append_eq_nil_iff.mp h.symm
      rw [this.2] at hp; exact hp
  | cons x xs ih =>
    simp only [anySuffix, Bool.or_eq_true, ih]
    constructor
    · rintro (h | ⟨w, rest, h, hp⟩)
      · exact ⟨[], x :: xs, rfl, h⟩
      · exact ⟨x :: w, rest, by rw [h]; rfl, hp⟩
    · rintro ⟨w, rest, h, hp⟩
      cases w with
      | nil => left; rw [h]; exact hp
      | cons y w' =>
        right
        simp only [List.cons_append, List.cons.injEq] at h
        exact ⟨w', rest, h.2, hp⟩

theorem matchToks_iff (e : Bool) (ts : List Tok) (s : List Char) :
    matchToks e ts s = true ↔ SeqMatch e ts s := by
  induction ts generalizing s with
  | nil => cases e <;> simp [matchToks, SeqMatch]
  | cons t ts ih =>
    cases t with
    | lit c =>
      cases s with
      | nil =>
        simp only [matchToks, SeqMatch, TokMatch]
        constructor
        · intro h; cases h
        · rintro ⟨w, rest, h, ⟨x, hw, _⟩, _⟩
          rw [hw] at h; cases h
      | cons x xs =>
        simp only [matchToks, SeqMatch, TokMatch, Bool.and_eq_true, beq_iff_eq, ih]
        constructor
        · rintro ⟨h1, h2⟩; exact ⟨[x], xs, rfl, ⟨x, rfl, h1⟩, h2⟩
        · rintro ⟨w, rest, h, ⟨y, hw, hy⟩, hs⟩
          rw [hw] at h
          simp only [List.cons_append, List.nil_append, List.cons.injEq] at h
          rw [h.1, h.2]; exact ⟨hy, hs⟩
    | star =>
      simp only [matchToks, SeqMatch, TokMatch, anySuffix_iff, ih, true_and]
    | sep =>
      cases s with
      | nil =>
        simp only [matchToks, SeqMatch, TokMatch, ih]
        constructor
        · intro h; exact ⟨[], [], rfl, Or.inr ⟨rfl, rfl⟩, h⟩
        · rintro ⟨w, rest, h, _, hs⟩
          have := List.append_eq_nil_iff.mp h.symm
          rw [this.2] at hs; exact hs
      | cons x xs =>
        simp only [matchToks, SeqMatch, TokMatch, Bool.and_eq_true, Bool.not_eq_true', ih]
        constructor
        · rintro ⟨h1, h2⟩; exact ⟨[x], xs, rfl, Or.inl ⟨x, rfl, h1⟩, h2⟩
        · rintro ⟨w, rest, h, (⟨y, hw, hy⟩ | ⟨hw, hr⟩), hs⟩
          · rw [hw] at h
            simp only [List.cons_append, List.nil_append, List.cons.injEq] at h
            rw [h.1, h.2]; exact ⟨hy, hs⟩
          · rw [hw, hr] at h; cases h

/-- `||`: the body starts at the beginning of the name or right after a dot that ends a non-empty run
of host characters -/
def DomainStart (pre : List Char) : Prop :=
  pre = [] ∨ (∃ q, q ≠ [] ∧ pre = q ++ ['.'] ∧ ∀ c ∈ pre, hostChar c = true)

def PatMatches (p : Pat) (h : List Char) : Prop :=
  match p.anchor with
  | .domain => ∃ pre rest, h = pre ++ rest ∧ DomainStart pre ∧ SeqMatch p.endAnch p.toks rest
  | .start => SeqMatch p.endAnch p.toks h
  | .none => ∃ pre rest, h = pre ++ rest ∧ SeqMatch p.endAnch p.toks rest

/-- `afterDots` with `n` characters already passed: some dot of the rest, reached over host characters
only and not the very first character of the name, is followed by a string with `p`. -/
theorem afterDots_iff (p : List Char → Bool) (n : Nat) (s : List Char) :
    afterDots p n s = true ↔
      ∃ q rest, s = q ++ '.' :: rest ∧ (∀ c ∈ q, hostChar c = true) ∧ (n ≠ 0 ∨ q ≠ []) ∧ p rest = true := by
  induction s generalizing n with
  | nil =>
    simp only [afterDots]
    constructor
    · intro h; cases h
    · rintro ⟨q, rest, h, _⟩
      cases q <;> cases h
  | cons x xs ih =>
    simp only [afterDots, Bool.and_eq_true, Bool.or_eq_true, beq_iff_eq, bne_iff_ne, ih]
    constructor
    · rintro ⟨hx, (⟨⟨h1, h2⟩, h3⟩ | ⟨q, rest, h, hq, _, hp⟩)⟩
      · exact ⟨[], xs, by rw [h1]; rfl, by simp, Or.inl h2, h3⟩
      · refine ⟨x :: q, rest, by rw [h]; rfl, ?_, Or.inr (by simp), hp⟩
        intro c hc
        rcases List.mem_cons.mp hc with rfl | hc
        · exact hx
        · exact hq c hc
    · rintro ⟨q, rest, h, hq, hn, hp⟩
      cases q with
      | nil =>
        simp only [List.nil_append, List.cons.injEq] at h
        rw [h.1, h.2]
        refine ⟨by decide, Or.inl ⟨⟨rfl, ?_⟩, hp⟩⟩
        rcases hn with hn | hn
        · exact hn
        · exact absurd rfl hn
      | cons y q' =>
        simp only [List.cons_append, List.cons.injEq] at h
        rw [h.1]
        refine ⟨hq y List.mem_cons_self, Or.inr ⟨q', rest, h.2, ?_, Or.inl (by omega), hp⟩⟩
        intro c hc
        exact hq c (List.mem_cons_of_mem _ hc)

/-- The same with an explicit already-consumed prefix `done` of host characters: the rest `s` splits
into `pre ++ rest` such that `done ++ pre` is a `DomainStart` ending in a dot. -/
theorem afterDots_prefix_iff (p : List Char → Bool) (done s : List Char)
    (hd : ∀ c ∈ done, hostChar c = true) :
    afterDots p done.length s = true ↔
      ∃ pre rest, s = pre ++ rest ∧ pre ≠ [] ∧ DomainStart (done ++ pre) ∧ p rest = true := by
  rw [afterDots_iff]
  constructor
  · rintro ⟨q, rest, hs, hq, hn, hp⟩
    refine ⟨q ++ ['.'], rest, by rw [hs]; simp, by simp, Or.inr ⟨done ++ q, ?_, by simp, ?_⟩, hp⟩
    · rcases hn with hn | hn
      · intro h
        have := (List.append_eq_nil_iff.mp h).1
        exact hn (by rw [this]; rfl)
      · intro h
        exact hn (List.append_eq_nil_iff.mp h).2
    · intro c hc
      simp only [List.mem_append, List.mem_singleton] at hc
      rcases hc with hc | hc | hc
      · exact hd c hc
      · exact hq c hc
      · rw [hc]; decide
  · rintro ⟨pre, rest, hs, hne, (h0 | ⟨q2, hq2, he, hall⟩), hp⟩
    · exact absurd (List.append_eq_nil_iff.mp h0).2 hne
    · rcases List.eq_nil_or_concat pre with h | ⟨q, c, h⟩
      · exact absurd h hne
      · rw [List.concat_eq_append] at h
        rw [h, ← List.append_assoc] at he
        have := List.append_inj' he rfl
        have hc : c = '.' := by simpa using this.2
        refine ⟨q, rest, by rw [hs, h, hc]; simp, ?_, ?_, hp⟩
        · intro x hx
          exact hall x (by rw [h]; simp [hx])
        · by_cases hq : q = []
          · left
            intro hl
            have hd0 : done = [] := List.eq_nil_of_length_eq_zero hl
            apply hq2
            rw [← this.1, hd0, hq]; rfl
          · exact Or.inr hq

theorem pat_matches_iff (p : Pat) (h : List Char) : p.matches h = true ↔ PatMatches p h := by
  unfold Pat.matches PatMatches
  cases p.anchor with
  | start => exact matchToks_iff _ _ _
  | none => simp only [anySuffix_iff, matchToks_iff]
  | domain =>
    simp only [Bool.or_eq_true, afterDots_iff, matchToks_iff]
    constructor
    · rintro (h1 | ⟨q, rest, hh, hq, hn, hp⟩)
      · exact ⟨[], h, rfl, Or.inl rfl, h1⟩
      · have hq' : q ≠ [] := by
          rcases hn with hn | hn
          · exact absurd rfl hn
          · exact hn
        refine ⟨q ++ ['.'], rest, by rw [hh]; simp, Or.inr ⟨q, hq', rfl, ?_⟩, hp⟩
        intro c hc
        rcases List.mem_append.mp hc with hc | hc
        · exact hq c hc
        · rw [List.mem_singleton.mp hc]; decide
    · rintro ⟨pre, rest, hh, (hpre | ⟨q, hq, hpre, hall⟩), hs⟩
      · left; rw [hh, hpre]; exact hs
      · right
        refine ⟨q, rest, by rw [hh, hpre]; simp, ?_, Or.inr hq, hs⟩
        intro c hc
        exact hall c (by rw [hpre]; exact List.mem_append_left _ hc)

/-! ## The common rule `||name^` -/

def lits (d : List Char) : List Tok := d.map Tok.lit

/-- `||name^` as a pattern. -/
def dom (s : String) : Pat := ⟨.domain, lits s.toList ++ [.sep], false⟩

theorem nonSep_of_hostChar (c : Char) (h : hostChar c = true) : nonSepChar c = true := by
  simp only [hostChar, nonSepChar, Bool.or_eq_true] at *
  rcases h with ((h | h) | h) | h <;> simp [h]

/-- A run of literal tokens consumes exactly that many characters, equal up to letter case. -/
theorem seqMatch_lits (e : Bool) (d : List Char) (ts : List Tok) (s : List Char) :
    SeqMatch e (lits d ++ ts) s ↔
      ∃ d' rest, s = d' ++ rest ∧ d'.map Char.toLower = d.map Char.toLower ∧ SeqMatch e ts rest := by
  induction d generalizing s with
  | nil =>
    simp only [lits, List.map_nil, List.nil_append, List.map_eq_nil_iff]
    constructor
    · intro h; exact ⟨[], s, rfl, rfl, h⟩
    · rintro ⟨d', rest, hs, hd, h⟩
      rw [hs, hd]; exact h
  | cons c d ih =>
    have ih' := ih
    simp only [lits] at ih'
    simp only [lits, List.map_cons, List.cons_append, SeqMatch, TokMatch, ih']
    constructor
    · rintro ⟨w, rest, hs, ⟨x, hw, hx⟩, d', rest', hr, hd, h⟩
      refine ⟨x :: d', rest', by rw [hs, hw, hr]; rfl, by simp [hx, hd], h⟩
    · rintro ⟨d', rest, hs, hd, h⟩
      cases d' with
      | nil => simp at hd
      | cons x d'' =>
        simp only [List.map_cons, List.cons.injEq] at hd
        exact ⟨[x], d'' ++ rest, by rw [hs]; rfl, ⟨x, rfl, hd.1⟩, d'', rest, rfl, hd.2, h⟩

theorem map_lower_id (l : List Char) (h : ∀ c ∈ l, c.toLower = c) : l.map Char.toLower = l := by
  induction l with
  | nil => rfl
  | cons a l ih =>
    simp only [List.map_cons, h a List.mem_cons_self, ih (fun c hc => h c (List.mem_cons_of_mem _ hc))]

/-- **The rule `||d^` on host names.** For a name of host characters (letters, digits, `-`, `_`, `.`)
and lower-case `d` and name, the pattern `||d^` matches exactly `d` itself and every name that ends in
`.d` after a non-empty prefix, i.e. `d` and its subdomains. -/
theorem domain_rule_iff (d h : List Char) (hh : ∀ c ∈ h, hostChar c = true)
    (hdl : ∀ c ∈ d, c.toLower = c) (hhl : ∀ c ∈ h, c.toLower = c) :
    (⟨.domain, lits d ++ [.sep], false⟩ : Pat).matches h = true ↔
      h = d ∨ ∃ q, q ≠ [] ∧ h = q ++ '.' :: d := by
  rw [pat_matches_iff]
  simp only [PatMatches, seqMatch_lits]
  have key : ∀ pre rest, h = pre ++ rest →
      ((∃ d' rest', rest = d' ++ rest' ∧ d'.map Char.toLower = d.map Char.toLower ∧
          SeqMatch false [.sep] rest') ↔ rest = d) := by
    intro pre rest hs
    constructor
    · rintro ⟨d', rest', hr, hd, w, r2, hr2, ht, _⟩
      have hd'l : ∀ c ∈ d', c.toLower = c := by
        intro c hc; exact hhl c (by rw [hs, hr]; simp [hc])
      rw [map_lower_id d' hd'l, map_lower_id d hdl] at hd
      rcases ht with ⟨x, hw, hx⟩ | ⟨hw, hr2'⟩
      · have : hostChar x = true := hh x (by rw [hs, hr, hr2, hw]; simp)
        rw [nonSep_of_hostChar x this] at hx; cases hx
      · rw [hr, hr2, hw, hr2', hd]; simp
    · intro hr
      exact ⟨d, [], by simp [hr], rfl, [], [], rfl, Or.inr ⟨rfl, rfl⟩, by simp [SeqMatch]⟩
  constructor
  · rintro ⟨pre, rest, hs, hpre, hm⟩
    have hr := (key pre rest hs).mp hm
    rcases hpre with hpre | ⟨q, hq, hpre, _⟩
    · left; rw [hs, hpre, hr]; rfl
    · right; exact ⟨q, hq, by rw [hs, hpre, hr]; simp⟩
  · rintro (hs | ⟨q, hq, hs⟩)
    · exact ⟨[], d, by rw [hs]; rfl, Or.inl rfl, (key [] d (by rw [hs]; rfl)).mpr rfl⟩
    · have hs' : h = (q ++ ['.']) ++ d := by rw [hs]; simp
      refine ⟨q ++ ['.'], d, hs', Or.inr ⟨q, hq, rfl, ?_⟩, (key _ d hs').mpr rfl⟩
      intro c hc
      exact hh c (by rw [hs']; exact List.mem_append_left _ hc)

/-! ## Rule texts and the configuration file (fourth deepening) -/

theorem splitLastSlash_none (l : List Char) (h : '/' ∉ l) : splitLastSlash l = none := by
  induction l with
  | nil => rfl
  | cons c cs ih =>
    have hc : c ≠ '/' := fun e => h (by simp [e])
    have hcs : '/' ∉ cs := fun e => h (by simp [e])
    simp [splitLastSlash, ih hcs, hc]

theorem splitLastSlash_append (a b : List Char) (h : '/' ∉ b) :
    splitLastSlash (a ++ '/' :: b) = some (a ++ ['/'], b) := by
  induction a with
  | nil => simp [splitLastSlash, splitLastSlash_none b h]
  | cons c cs ih => simp [splitLastSlash, ih]

/-- What the statement calls "a rule that is a regular expression", with its parts. -/
def regexRuleText (allow : Bool) (body opts : List Char) : List Char :=
  (if allow then ['@', '@'] else []) ++ '/' :: body ++ '/' :: opts

/-- Declarative reading of the fragment: the name is cut into one non-empty block per item (one character,
or one or more for an item with `+`), every character of a block matching the item's atom. -/
inductive RxMatches : List RxItem → List Char → Prop
  | nil : RxMatches [] []
  | one (it : RxItem) (its : List RxItem) (c : Char) (h : List Char) :
      it.atom.matches c = true → RxMatches its h → RxMatches (it :: its) (c :: h)
  | more (it : RxItem) (its : List RxItem) (c : Char) (h : List Char) :
      it.plus = true → it.atom.matches c = true → RxMatches (it :: its) h → RxMatches (it :: its) (c :: h)

/-- What an entry of `blocked_client_subnets` says: a bare address names that client, `addr/len` the subnet. -/
def YamlCovers (y : YamlNet) (a : Addr) : Prop :=
  match y.bits with
  | none => a = ⟨y.is4, y.val⟩
  | some b => InSubnet ⟨y.is4, y.val, b⟩ a


end Agd.Access
